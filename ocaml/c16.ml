(* C16 case generation: compiled-template records with the model's exact serialisation, malformed
   streams with the model's verdict, and template sources / contexts for the render comparison. *)
open Util

(* ---- int64 <-> extracted Z (timestamps travel as decimal strings: OCaml ints are 63 bit) ---- *)
let rec pos_of_u64 (i : int64) : Model.positive =
  if Int64.equal i 1L then Model.XH
  else if Int64.equal (Int64.logand i 1L) 0L then Model.XO (pos_of_u64 (Int64.shift_right_logical i 1))
  else Model.XI (pos_of_u64 (Int64.shift_right_logical i 1))
let z_of_int64 (i : int64) : Model.z =
  if Int64.equal i 0L then Model.Z0
  else if Int64.compare i 0L > 0 then Model.Zpos (pos_of_u64 i)
  else Model.Zneg (pos_of_u64 (Int64.neg i))          (* min_int negates to itself = 2^63 unsigned *)
let rec u64_of_pos = function
  | Model.XH -> 1L
  | Model.XO p -> Int64.shift_left (u64_of_pos p) 1
  | Model.XI p -> Int64.logor (Int64.shift_left (u64_of_pos p) 1) 1L
let int64_of_z = function
  | Model.Z0 -> 0L
  | Model.Zpos p -> u64_of_pos p
  | Model.Zneg p -> Int64.neg (u64_of_pos p)

let hexdigits = "0123456789abcdef"
let fast_hex (s : string) : string =
  let n = String.length s in
  let b = Bytes.create (2 * n) in
  for i = 0 to n - 1 do
    let c = Char.code s.[i] in
    Bytes.unsafe_set b (2 * i) hexdigits.[c lsr 4];
    Bytes.unsafe_set b (2 * i + 1) hexdigits.[c land 15]
  done;
  Bytes.unsafe_to_string b

type record = { name : string; src : string; lm : int64; ct : int64; ast : string }

let to_model (r : record) : Model.compiled =
  { Model.c_name = bytes_of_string r.name; c_source = bytes_of_string r.src;
    c_last_modified = z_of_int64 r.lm; c_compile_time = z_of_int64 r.ct; c_ast = bytes_of_string r.ast }

let serialize (r : record) : string = string_of_bytes (Model.serialize_compiled (to_model r))

let emit_record oc (tag : string) (r : record) =
  emit oc (Ob [ "stream", JS "record"; "tag", JS tag;
                "name", JS (fast_hex r.name); "src", JS (fast_hex r.src); "ast", JS (fast_hex r.ast);
                "lm", JS (Int64.to_string r.lm); "ct", JS (Int64.to_string r.ct);
                "ser", JS (fast_hex (serialize r)) ])

(* what a reader WITHOUT the length checks would pass to make(): the first length prefix that exceeds
   the rest of the input (0 when there is none).  The repaired code never allocates that; streams where
   it is 16 MB or more are still rationed (huge_left per run), because a regression that drops the
   check costs about a second per 4 GB request, and the runner measures the allocation on them *)
let naive_request (data : string) : int =
  let n = String.length data in
  let u32 o = if o + 4 > n then -1 else
      Char.code data.[o] lor (Char.code data.[o+1] lsl 8) lor (Char.code data.[o+2] lsl 16) lor (Char.code data.[o+3] lsl 24) in
  if n = 0 || data.[0] <> '\x01' then 0 else
    let l1 = u32 1 in
    if l1 < 0 then 0 else if l1 > n - 5 then l1 else
      let o2 = 5 + l1 in
      let l2 = u32 o2 in
      if l2 < 0 then 0 else if l2 > n - o2 - 4 then l2 else
        let o3 = o2 + 4 + l2 + 16 in
        let l3 = u32 o3 in
        if l3 < 0 then 0 else if l3 > n - o3 - 4 then l3 else 0

(* the model's verdict on an arbitrary byte string *)
let huge_left = ref 0
let huge_skipped = ref 0
let emit_malformed oc (tag : string) (data : string) =
  let d = bytes_of_string data in
  let unmodelled = Model.gob_unmodelled d in
  let alloc = List.fold_left (fun a x -> a + int_of_n x) 0 (Model.deserialize_allocs d) in
  let naive = naive_request data in
  if naive >= 1 lsl 24 && !huge_left <= 0 then incr huge_skipped else begin
  if naive >= 1 lsl 24 then decr huge_left;
  let binary_ok = (match Model.deserialize_binary d with Some _ -> true | None -> false) in
  let base = [ "stream", JS "malformed"; "tag", JS tag; "data", JS (fast_hex data);
               "unmodelled", JB unmodelled; "alloc", JI alloc; "naive", JI naive; "binary_ok", JB binary_ok ] in
  (* a stream whose first byte is not the version byte: what the binary reader would make of it if it
     did not look at that byte (the runner reports an implementation that returns exactly this) *)
  let fields (c : Model.compiled) pre =
    [ pre ^ "name", JS (hexb c.Model.c_name); pre ^ "src", JS (hexb c.Model.c_source); pre ^ "ast", JS (hexb c.Model.c_ast);
      pre ^ "lm", JS (Int64.to_string (int64_of_z c.Model.c_last_modified));
      pre ^ "ct", JS (Int64.to_string (int64_of_z c.Model.c_compile_time)) ] in
  let base = base @ (match d with
      | b0 :: rest when int_of_byte b0 <> 1 ->
        (match Model.deserialize_binary (byte_of_int 1 :: rest) with
         | Some c when c.Model.c_name <> [] || c.Model.c_source <> [] -> ("alt", JB true) :: fields c "alt_"
         | _ -> [])
      | _ -> []) in
  match Model.deserialize_compiled Model.gob_model d with
  | None -> emit oc (Ob (base @ [ "ok", JB false ]))
  | Some c ->
    emit oc (Ob (base @ [ "ok", JB true;
                          "name", JS (hexb c.Model.c_name); "src", JS (hexb c.Model.c_source); "ast", JS (hexb c.Model.c_ast);
                          "lm", JS (Int64.to_string (int64_of_z c.Model.c_last_modified));
                          "ct", JS (Int64.to_string (int64_of_z c.Model.c_compile_time)) ]))
  end

(* ---- byte string generators ---- *)
let rand_bytes r n = String.init n (fun _ -> Char.chr (rint r 256))
let rand_ascii r n = String.init n (fun _ -> Char.chr (rrange r 0x20 0x7e))
let non_utf8 = [ "\xff"; "\xc3"; "\xff\xfe\xfd"; "a\x80b"; "\xed\xa0\x80"; "\xf8\x88\x80\x80\x80"; "\xc0\xaf"; "h\xc3\xa9llo\xc3"; "\x00"; "\x00\x00\x01" ]
let template_bits = [ "{{ a }}"; "{% if a %}x{% endif %}"; "{# c #}"; "{% for i in items %}{{ i }}{% endfor %}"; "{{ name|upper }}"; "{%- set x = 1 -%}" ]

let rand_field r ~(big : int) : string =
  match rint r 14 with
  | 0 -> ""
  | 1 -> pickl r non_utf8
  | 2 -> rand_bytes r (rrange r 1 40)
  | 3 -> rand_ascii r (rrange r 1 60)
  | 4 -> String.concat (rand_ascii r (rint r 8)) (List.init (rrange r 1 4) (fun _ -> pickl r template_bits))
  | 5 -> String.init 256 Char.chr
  | 6 -> rand_bytes r (pick r [| 35; 36; 37; 41; 42; 43; 126; 127; 128; 255; 256; 257; 292; 298 |])
  | 7 -> String.make (rrange r 1 300) (Char.chr (rint r 256))
  | 8 -> if rint r (if big > 100_000 then 60 else 6) = 0 then rand_bytes r (rrange r (big / 2) big) else rand_bytes r (rrange r 200 4000)
  | 9 -> pickl r non_utf8 ^ pickl r template_bits ^ pickl r non_utf8
  | _ -> rand_bytes r (rint r 24)

let stamps = [| 0L; 1L; -1L; 2L; -2L; 255L; 256L; 1790695804L; 2147483647L; 2147483648L; -2147483648L; -2147483649L;
                4294967295L; 4294967296L; Int64.max_int; Int64.min_int; Int64.sub Int64.max_int 1L; Int64.add Int64.min_int 1L;
                0x0102030405060708L; -0x0102030405060708L; 72057594037927936L; 1000000000000L |]
let rand_stamp r =
  match rint r 4 with
  | 0 -> next64 r
  | 1 -> Int64.of_int (rrange r (-1000) 1000)
  | 2 -> Int64.add 1700000000L (Int64.of_int (rint r 200000000))
  | _ -> pick r stamps

let rand_record r ~big : record =
  let name = (match rint r 5 with
      | 0 -> ""
      | 1 -> rand_ascii r (rrange r 1 50) ^ ".twig"
      | 2 -> rand_bytes r (pick r [| 36; 42; 127; 36 + 256; 42 + 256 |])
      | _ -> rand_field r ~big:(min big 70000)) in
  { name; src = rand_field r ~big; lm = rand_stamp r; ct = rand_stamp r;
    ast = (match rint r 4 with 0 -> "" | 1 -> "\x13\x7f\x03\x01\x01\x08RootNode\x01\xff\x80\x00\x00\x00" | _ -> rand_field r ~big:(min big 5000)) }

let fixed_records : (string * record) list =
  let z = { name = ""; src = ""; lm = 0L; ct = 0L; ast = "" } in
  [ "all-empty", z;
    "empty-name", { z with src = "{{ a }}"; lm = 5L; ct = 6L };
    "empty-source", { z with name = "t.twig"; lm = 1790695804L; ct = 1790695804L };
    "non-utf8", { name = "\xff\xfe"; src = "\xc3{{ a }}\x80\x00"; lm = -1L; ct = Int64.min_int; ast = "\xff" };
    "binary-256", { name = String.init 256 Char.chr; src = String.init 256 (fun i -> Char.chr (255 - i)); lm = Int64.max_int; ct = Int64.min_int; ast = String.init 256 Char.chr };
    "name-36", { z with name = String.make 36 'a'; src = "hi" };
    "name-42", { z with name = String.make 42 'b'; src = "hi" };
    "name-127", { z with name = String.make 127 'c'; src = "hi" };
    "name-292", { z with name = String.make 292 'd'; src = "hi" };
    "nul-bytes", { name = "\x00"; src = "\x00\x00\x00\x00"; lm = 0L; ct = 0L; ast = "\x00" };
    "looks-like-header", { name = "\x01\x00\x00\x00\x00"; src = "\x01\x02\x00\x00\x00ab"; lm = 1L; ct = 1L; ast = "\x01" };
    "stamps", { name = "s"; src = "s"; lm = 0x0102030405060708L; ct = -0x0102030405060708L; ast = "" } ]

(* ---- malformed streams derived from a valid serialisation ---- *)
let put32 (n : int) : string = String.init 4 (fun i -> Char.chr ((n lsr (8 * i)) land 255))
let splice (s : string) (off : int) (repl : string) : string =
  String.sub s 0 off ^ repl ^ String.sub s (off + String.length repl) (String.length s - off - String.length repl)

let malformed_from r oc (rc : record) ~(huge : int list) =
  let s = serialize rc in
  let n = String.length s in
  (* truncations: every offset when small, else the field boundaries and a sample *)
  let o_src = 5 + String.length rc.name in
  let o_lm = o_src + 4 + String.length rc.src in
  let o_ast = o_lm + 16 in
  let cuts =
    if n <= 96 then List.init n (fun i -> i)
    else [ 0; 1; 2; 3; 4; 5; 6; o_src - 1; o_src; o_src + 1; o_src + 3; o_src + 4; o_lm - 1; o_lm; o_lm + 1; o_lm + 7; o_lm + 8;
           o_lm + 15; o_ast; o_ast + 1; o_ast + 3; o_ast + 4; n - 2; n - 1 ] @ List.init 8 (fun _ -> rint r n) in
  List.iter (fun k -> if k >= 0 && k < n then emit_malformed oc "truncated" (String.sub s 0 k)) cuts;
  (* mutated length prefixes *)
  let small = [ 0; 1; String.length rc.name + 1; String.length rc.src + 1; n; 65535; 65536 ] in
  let big = huge in
  List.iter (fun off ->
      List.iter (fun v -> emit_malformed oc (if v >= 0x10000000 then "prefix-huge" else "prefix-mutated") (splice s off (put32 v))) (small @ big);
      (* off by one in either direction *)
      let cur = Char.code s.[off] in
      emit_malformed oc "prefix-mutated" (splice s off (String.make 1 (Char.chr ((cur + 1) land 255))));
      emit_malformed oc "prefix-mutated" (splice s off (String.make 1 (Char.chr ((cur + 255) land 255)))))
    [ 1; o_src; o_ast ];
  (* version byte *)
  List.iter (fun v -> emit_malformed oc "version" (splice s 0 (String.make 1 (Char.chr v)))) [ 0; 2; 3; 127; 255 ];
  (* trailing bytes are ignored *)
  emit_malformed oc "trailing" (s ^ rand_bytes r (rrange r 1 20));
  (* one flipped byte anywhere *)
  for _ = 1 to 4 do
    let k = rint r n in
    emit_malformed oc "flip" (splice s k (String.make 1 (Char.chr ((Char.code s.[k]) lxor (1 lsl rint r 8)))))
  done

(* ---- render comparison: sources and contexts (no model prediction; the oracle is metamorphic) ---- *)
let templates = [
  "Hello";
  "";
  "Hello {{ name }}!";
  "{{ a }}{{ b }}";
  "{{ a + b }} {{ a - b }} {{ a * b }}";
  "{{ a + b * 2 }}|{{ (a + b) * 2 }}";
  "{{ name|upper }} {{ name|lower }} {{ name|length }}";
  "{{ name|default('nobody') }}";
  "{{ s }}|{{ s|raw }}|{{ s|e }}|{{ s|escape }}";
  "{{ items|join(', ') }}";
  "{{ items|length }} {{ items|first }} {{ items|last }}";
  "{{ words|join('-')|upper }}";
  "{% if flag %}yes{% else %}no{% endif %}";
  "{% if a > 0 %}pos{% elseif a < 0 %}neg{% else %}zero{% endif %}";
  "{% if a and b %}both{% endif %}{% if a or b %}any{% endif %}{% if not a %}none{% endif %}";
  "{% if name is defined %}d{% endif %}{% if nope is defined %}x{% else %}u{% endif %}";
  "{% if items is empty %}E{% else %}N{% endif %}";
  "{% for i in items %}{{ i }},{% endfor %}";
  "{% for i in items %}{{ loop.index }}:{{ i }} {% else %}none{% endfor %}";
  "{% for i in items %}{% if loop.first %}[{% endif %}{{ i }}{% if loop.last %}]{% endif %}{% endfor %}";
  "{% for w in words %}{% for i in items %}{{ w }}{{ i }} {% endfor %}{% endfor %}";
  "{% for k, v in user %}{{ k }}={{ v }};{% endfor %}";
  "{% for i in range(1, 3) %}{{ i }}{% endfor %}";
  "{% set x = 5 %}{{ x }}{% set x = x + 1 %}{{ x }}";
  "{% set greeting = 'Hi ' ~ name %}{{ greeting }}";
  "{% set total = 0 %}{% for i in items %}{% set total = total + i %}{% endfor %}{{ total }}";
  "{{ user.name }} is {{ user.age }}";
  "{{ user['name'] }}";
  "{{ items[0] }}|{{ words[1] }}";
  "{{ 'a' ~ 'b' ~ a }}";
  "{{ a == 1 ? 'one' : 'other' }}";
  "{{ [1, 2, 3]|length }} {{ {'k': 'v'}|length }}";
  "{{ 'x' in words ? 'has' : 'no' }}";
  "{# a comment #}visible{# another #}";
  "  {{- name -}}  |  {%- if flag -%} t {%- endif -%}  ";
  "{% verbatim %}{{ not evaluated }}{% endverbatim %}";
  "{% macro hi(n) %}Hi {{ n }}{% endmacro %}{{ hi(name) }} {{ hi('x') }}";
  "{% block body %}in block {{ name }}{% endblock %}";
  "{% apply upper %}shout {{ name }}{% endapply %}";
  "{% spaceless %}<a> <b> {{ name }} </b> </a>{% endspaceless %}";
  "{{ name|title }} {{ name|capitalize }} {{ name|trim }}";
  "{{ a|abs }} {{ b|abs }} {{ 3.7|round }}";
  "{{ items|reverse|join('') }} {{ words|sort|join('') }}";
  "{{ name|replace('o', '0') }}";
  "{{ name|slice(1, 2) }}|{{ items|slice(1)|join(',') }}";
  "{{ g }}|{{ name|shout }}";
  "{{ undefined_var }}|{{ user.nothing }}";
  "caf\xc3\xa9 {{ name }} \xe2\x82\xac";
  "\xff\xfe raw bytes \x80 {{ name }} \xc3";
  "line1\nline2\r\n\ttab {{ a }}\n";
  "{{ '{{' }} {{ '%}' }}";
  "{% if a %}{% for i in items %}{% if i > 1 %}{{ i }}{% set y = i %}{% endif %}{% endfor %}{% endif %}";
  "{{ name ~ \"\\\"q\\\"\" }}";
  "{{ max(a, b) }} {{ min(a, b) }} {{ range(1, 3)|join }}";
]

let contexts : json list = [
  Ob [];
  Ob [ "a", JI 1; "b", JI 2; "name", JS "World"; "items", JL [ JI 1; JI 2; JI 3 ]; "user", Ob [ "name", JS "Bob"; "age", JI 30 ];
       "flag", JB true; "s", JS "<b>x</b>"; "words", JL [ JS "z"; JS "x"; JS "y" ] ];
  Ob [ "a", JI 0; "b", JI (-5); "name", JS ""; "items", JL []; "user", Ob [ "name", JS ""; "age", JI 0 ];
       "flag", JB false; "s", JS "a&b \"q\" 'r'"; "words", JL [ JS "q" ] ];
  Ob [ "a", JS "10"; "b", JS "x"; "name", JS "  mixed Case words  "; "items", JL [ JS "a"; JI 2; JB true; JL [ JI 1 ] ];
       "user", Ob [ "name", JL [ JI 1 ]; "age", JS "old"; "zip", JI 12345 ]; "flag", JI 1; "s", JS "{{ a }}"; "words", JL [ JS "b"; JS "a"; JS "b" ] ];
]

let emit_render oc tag (src : string) =
  List.iteri (fun i ctx -> emit oc (Ob [ "stream", JS "render"; "tag", JS tag; "src", JS (fast_hex src); "ctxid", JI i; "ctx", ctx ])) contexts

(* ---- revisions: the same name compiled again with other content of the SAME byte length and the same
   timestamps, loaded one after the other in one process (into one shared engine and into fresh ones);
   every revision must render like its own source *)
let rev_families : string list list = [
  [ "Hello {{ a }}"; "Hello {{ b }}"; "Hallo {{ a }}"; "Hello {{ s }}" ];
  [ "{{ name|upper }}"; "{{ name|lower }}"; "{{ name|title }}"; "{{ s|upper }}   " ];
  [ "{% if flag %}yes{% else %}no!{% endif %}"; "{% if flag %}no!{% else %}yes{% endif %}"; "{% if a %}yes!!!{% else %}no!{% endif %}" ];
  [ "{% for i in items %}{{ i }},{% endfor %}"; "{% for i in items %}{{ i }};{% endfor %}"; "{% for i in words %}{{ i }},{% endfor %}" ];
  [ "{% set x = 1 %}{{ x + a }}"; "{% set x = 2 %}{{ x + a }}"; "{% set x = 1 %}{{ x + b }}"; "{% set x = 1 %}{{ x * a }}" ];
  [ "v1"; "v2"; "v3"; "1v" ];
  [ "{{ 'abc' }}"; "{{ 'abd' }}"; "{{ \"abc\" }}"; "{{ 12345 }}" ];
  [ "{{ user.name }}"; "{{ user.zzzz }}"; "{{ user.age  }}" ];
  [ "{% macro m(x) %}<{{ x }}>{% endmacro %}{{ m(a) }}"; "{% macro m(x) %}[{{ x }}]{% endmacro %}{{ m(a) }}"; "{% macro m(x) %}<{{ x }}>{% endmacro %}{{ m(b) }}" ];
  [ "{% block c %}one{% endblock %}"; "{% block c %}two{% endblock %}"; "{% block d %}one{% endblock %}" ];
  [ "\xff{{ a }}\xfe"; "\xfe{{ a }}\xff"; "\xff{{ b }}\xfe" ];
]

let emit_revisions r oc (n : int) (revs : string list) ctx =
  let len = String.length (List.hd revs) in
  List.iter (fun s -> if String.length s <> len then failwith "c16: revisions of unequal length") revs;
  emit oc (Ob [ "stream", JS "revisions"; "name", JS (Printf.sprintf "rev_%d.twig" n);
                "lm", JS (Int64.to_string (Int64.add 1700000000L (Int64.of_int n))); "ct", JS "1700000001";
                "revs", JL (List.map (fun s -> JS (fast_hex s)) revs);
                "shared", JL (List.map (fun _ -> JB (rint r 3 <> 0)) revs);
                "ctx", ctx ])

let rec shuffle r = function
  | [] -> []
  | l -> let k = rint r (List.length l) in
    List.nth l k :: shuffle r (List.filteri (fun i _ -> i <> k) l)

let revisions_stream r oc ~(count : int) =
  let n = ref 0 in
  let ctxs = Array.of_list contexts in
  (* every family in two orders with every context *)
  List.iter (fun fam ->
      Array.iter (fun ctx ->
          incr n; emit_revisions r oc !n fam ctx;
          incr n; emit_revisions r oc !n (List.rev fam) ctx) ctxs) rev_families;
  let tarr = Array.of_list templates in
  for _ = 1 to count do
    incr n;
    let ctx = pick r ctxs in
    match rint r 3 with
    | 0 ->
      (* any template with a trailing revision marker of fixed width *)
      let t = pick r tarr in
      let k = rrange r 2 4 in
      emit_revisions r oc !n (List.init k (fun _ -> t ^ Printf.sprintf " rev%03d" (rint r 1000))) ctx
    | 1 ->
      (* a shuffled family, possibly with a revision repeated (a revert to earlier content) *)
      let fam = shuffle r (pickl r rev_families) in
      let fam = if rbool r then fam @ [ List.hd fam ] else fam in
      emit_revisions r oc !n fam ctx
    | _ ->
      (* one byte of literal text differs *)
      let t = pick r tarr in
      let k = rrange r 2 3 in
      emit_revisions r oc !n (List.init k (fun i -> Printf.sprintf "%c|" (Char.chr (Char.code 'A' + rint r 26)) ^ t)) ctx
  done

let run ~seed ~tier oc =
  let r = mk_rng seed in
  let thorough = (tier = "thorough") in
  let big = if thorough then 1_048_576 else 65_536 in
  (* 1. records *)
  List.iter (fun (tag, rc) -> emit_record oc tag rc) fixed_records;
  emit_record oc "large" { name = "large.twig"; src = rand_bytes r big; lm = 1L; ct = 2L; ast = "" };
  emit_record oc "large" { name = rand_bytes r (min big 70000); src = String.make big '\xff'; lm = -1L; ct = Int64.max_int; ast = rand_bytes r 70000 };
  if thorough then
    for _ = 1 to 4 do emit_record oc "large" { (rand_record r ~big) with src = rand_bytes r (rrange r 600_000 big) } done;
  let nrec = if thorough then 8000 else 1200 in
  for _ = 1 to nrec do emit_record oc "random" (rand_record r ~big) done;
  (* 2. malformed *)
  emit_malformed oc "empty" "";
  for x = 0 to 255 do
    emit_malformed oc "exhaustive1" (String.make 1 (Char.chr x));
    for y = 0 to 255 do
      emit_malformed oc "exhaustive-01xy" (Printf.sprintf "\x01%c%c" (Char.chr x) (Char.chr y))
    done
  done;
  huge_left := if thorough then 60 else 12;
  List.iteri (fun i (_, rc) ->
      malformed_from r oc rc ~huge:(if i < 2 then [ 0xffffffff; 0x80000000 ] else if thorough && i < 4 then [ 0xffffffff; 0x80000000; 0x7fffffff ] else []))
    fixed_records;
  let nmal = if thorough then 600 else 60 in
  for i = 1 to nmal do
    let rc = rand_record r ~big:3000 in
    malformed_from r oc rc ~huge:[]
  done;
  malformed_from r oc { name = "big"; src = rand_bytes r big; lm = 3L; ct = 4L; ast = "xyz" } ~huge:[];
  let nrand = if thorough then 20000 else 1500 in
  for _ = 1 to nrand do
    let body = rand_bytes r (rint r 64) in
    match rint r 4 with
    | 0 -> emit_malformed oc "random" body
    | 1 -> emit_malformed oc "random-v1" ("\x01" ^ put32 (rint r 40) ^ body)
    | _ -> emit_malformed oc "random-v1" ("\x01" ^ body)
  done;
  (* 3. render comparison *)
  List.iter (emit_render oc "fixed") templates;
  (* bytes that tools like to strip, at the very start and the very end of a source: a compiled template carries
     its source byte for byte *)
  List.iter (fun t ->
    List.iter (fun e -> emit_render oc "edge-bytes" (e ^ t); emit_render oc "edge-bytes" (t ^ e))
      [ "\xef\xbb\xbf"; "\xfe\xff"; "\xff\xfe"; "\x00"; "\r\n"; "\n"; " "; "\t"; "#!twig\n"; "\x1a"; "\xef\xbb"; "\xef\xbb\xbf\xef\xbb\xbf"; "\xc2\xa0"; "\xe2\x80\x8b" ])
    [ "Hello {{ a }}"; "{% if flag %}yes{% endif %}"; "x" ];
  let tarr = Array.of_list templates in
  let nren = if thorough then 1500 else 60 in
  for _ = 1 to nren do
    let k = rrange r 2 5 in
    let glue () = pick r [| ""; " "; "\n"; "<p>"; "\xc3\xa9"; "\xff"; "}"; "{"; "%" |] in
    emit_render oc "composed" (String.concat "" (List.init k (fun _ -> pick r tarr ^ glue ())))
  done;
  (* 4. revisions of one name *)
  revisions_stream r oc ~count:(if thorough then 1500 else 80)
