(* C20 case generation: struct type layouts, values and lookup histories, with the answers of the
   extracted model (cache threaded through the history), of the uncached computation and of the Spec.

   A case is one history: { stream, values: [value], steps: [{v, a, n, exp, spec, cls?}] }.
   Types are inline JSON: {"cat": name} for a type of the fixed catalogue compiled into harness/c20.go
   (mirrored below, methods included) or {"fields": [{n, k: str|int|emb|embp, t?}]} for a struct the Go
   side builds with reflect.StructOf (exported = the name starts with an upper-case letter).
   Answers are canonical strings: nil | s:<hex> | i:<dec> | {f,f,...} | *<v> | nilptr. *)
open Model
open Util

(* ------------------------------------------------------------------ descriptions *)
type fk = KStr | KInt | KEmb of bool * tdesc
and fdesc = { fn : string; fk : fk }
and mdesc = { mn : string; mptr : bool; margs : int; mret : attr_mret }
and tdesc = { cat : string option; tid : int; fields : fdesc list; meths : mdesc list }

type v =
  | VNil | VS of string | VI of int
  | VSt of tdesc * v list
  | VPtr of v
  | VNilPtr of tdesc
  | VMap of string * (string * v) list      (* generic | str | int *)

let exported (n : string) = n <> "" && n.[0] >= 'A' && n.[0] <= 'Z'

let n_of_int i = if i <= 0 then N0 else Npos (pos_of_int i)
let z_of_int i = if i = 0 then Z0 else if i > 0 then Zpos (pos_of_int i) else Zneg (pos_of_int (-i))
let int_of_z = function Z0 -> 0 | Zpos p -> int_of_pos p | Zneg p -> - (int_of_pos p)
let b = bytes_of_string

let rec sty_of (t : tdesc) : attr_sty =
  let rec flds = function
    | [] -> AFNil
    | f :: r ->
        let k = match f.fk with KStr | KInt -> AKPlain | KEmb (p, t') -> AKEmbed (p, sty_of t') in
        AFCons (b f.fn, exported f.fn, k, flds r) in
  ASty (n_of_int t.tid, flds t.fields,
        List.map (fun m -> { am_name = b m.mn; am_ptr = m.mptr; am_nargs = nat_of_int m.margs; am_ret = m.mret }) t.meths)

let rec mv (x : v) : attr_val = match x with
  | VNil -> AVNil | VS s -> AVStr (b s) | VI i -> AVInt (z_of_int i)
  | VSt (t, fs) -> AVStruct (sty_of t, List.map mv fs)
  | VPtr u -> AVPtr (mv u)
  | VNilPtr _ -> AVNilPtr
  | VMap (kind, kv) -> AVMap ((kind = "generic"), List.map (fun (k, u) -> (b k, mv u)) kv)

let rec jt (t : tdesc) : json = match t.cat with
  | Some c -> Ob [ "cat", JS c ]
  | None -> Ob [ "fields", JL (List.map (fun f ->
      match f.fk with
      | KStr -> Ob [ "n", JS f.fn; "k", JS "str" ]
      | KInt -> Ob [ "n", JS f.fn; "k", JS "int" ]
      | KEmb (p, t') -> Ob [ "n", JS f.fn; "k", JS (if p then "embp" else "emb"); "t", jt t' ]) t.fields) ]

let rec jv (x : v) : json = match x with
  | VNil -> Ob [ "nil", JB true ]
  | VS s -> Ob [ "s", JS (hex s) ]
  | VI i -> Ob [ "i", JI i ]
  | VSt (t, fs) -> Ob [ "t", jt t; "f", JL (List.map jv fs) ]
  | VPtr u -> Ob [ "ptr", jv u ]
  | VNilPtr t -> Ob [ "nilptr", jt t ]
  | VMap (kind, kv) -> Ob [ "map", JS kind; "kv", JL (List.map (fun (k, u) -> JL [ JS (hex k); jv u ]) kv) ]

(* canonical answer *)
let rec enc (a : attr_val) : string = match a with
  | AVNil -> "nil"
  | AVStr s -> "s:" ^ hexb s
  | AVInt z -> "i:" ^ string_of_int (int_of_z z)
  | AVStruct (_, fs) -> "{" ^ String.concat "," (List.map enc fs) ^ "}"
  | AVPtr u -> "*" ^ enc u
  | AVNilPtr -> "nilptr"
  | AVMap (_, kv) -> "map[" ^ String.concat "," (List.map (fun (k, u) -> hexb k ^ "=" ^ enc u) kv) ^ "]"

(* ------------------------------------------------------------------ the catalogue (mirror of harness/c20.go) *)
let vm n ret = { mn = n; mptr = false; margs = 0; mret = ret }
let pm n ret = { mn = n; mptr = true; margs = 0; mret = ret }
let path l = AMRPath (List.map nat_of_int l)
let str s = AMRStr (b s)
let mk name tid fields meths = { cat = Some name; tid; fields; meths }
let fs n = { fn = n; fk = KStr }
let fi n = { fn = n; fk = KInt }
let emb n t = { fn = n; fk = KEmb (false, t) }
let embp n t = { fn = n; fk = KEmb (true, t) }

let c_plain = mk "C20Plain" 1 [ fs "Name"; fi "Age"; fs "hidden" ] []
(* methods are listed as reflect lists them for the pointer type: exported, sorted by name *)
let inner_meths pre = [ vm "GetName" (path (pre @ [ 0 ])); vm "Hello" (str "hello"); pm "PtrDeep" (path (pre @ [ 1 ])) ]
let c_inner = mk "C20Inner" 2 [ fs "Name"; fi "Deep" ] (inner_meths [])
let outer_meths ~viaptr pre =
  let p m = if viaptr then { m with mptr = false } else m in
  List.map p
    [ { mn = "Arg"; mptr = false; margs = 1; mret = str "arg" };
      vm "GetName" (path (pre @ [ 0; 0 ])); vm "Hello" (str "hello");
      vm "None" AMRNone; pm "PtrDeep" (path (pre @ [ 0; 1 ])); pm "PtrTitle" (path (pre @ [ 1 ])); vm "Two" (str "two") ]
let c_outer = mk "C20Outer" 3 [ emb "C20Inner" c_inner; fs "Title" ] (outer_meths ~viaptr:false [])
let c_om = mk "C20OM" 4 [ emb "C20Inner" c_inner ]
    [ vm "GetName" (path [ 0; 0 ]); vm "Hello" (str "hello"); vm "Name" (str "method"); pm "PtrDeep" (path [ 0; 1 ]) ]
let c_uinner = mk "c20inner" 5 [ fs "X"; fi "y" ] []
let c_ue = mk "C20UE" 6 [ emb "c20inner" c_uinner; fi "Y" ] []
let c_uep = mk "C20UEP" 7 [ embp "c20inner" c_uinner; fs "Z" ] []
let c_shadow = mk "C20Shadow" 8 [ emb "C20Plain" c_plain; fs "Name" ] []
let c_amb = mk "C20Amb" 9 [ emb "C20Plain" c_plain; emb "C20Inner" c_inner ]
    [ vm "GetName" (path [ 1; 0 ]); vm "Hello" (str "hello"); pm "PtrDeep" (path [ 1; 1 ]) ]
(* embedded pointer: every method of the pointer type is promoted into the value method set *)
let c_deep = mk "C20Deep" 10 [ embp "C20Outer" c_outer; fs "Extra" ] (outer_meths ~viaptr:true [ 0 ])
let c_same_a = mk "C20SameA" 11 [ fs "A"; fi "B" ] []     (* both are called Same by reflect *)
let c_same_b = mk "C20SameB" 12 [ fi "B"; fs "A" ] []
let c_ptrm = mk "C20PtrM" 13 [ fs "A" ]
    [ pm "GetA" (path [ 0 ]); pm "Ptr" (str "ptr"); vm "Val" (str "val") ]
let c_ptronly = mk "C20PtrOnly" 14 [ fs "A" ] [ pm "GetA" (path [ 0 ]); pm "Ptr" (str "ptronly") ]

let catalogue = [ c_plain; c_inner; c_outer; c_om; c_uinner; c_ue; c_uep; c_shadow; c_amb; c_deep; c_same_a; c_same_b; c_ptrm; c_ptronly ]
(* catalogue types a reflect.StructOf type may embed: no methods anywhere *)
let embeddable = [| c_plain; c_same_a; c_same_b |]
(* types whose embedded pointers must not be nil: a promoted method would dereference it *)
let no_nil_embedded (t : tdesc) = t.meths <> []

let jmirror (t : tdesc) : json =
  Ob [ "cat", JS (match t.cat with Some c -> c | None -> "");
       "fields", JL (List.map (fun f -> Ob [ "n", JS f.fn; "x", JB (exported f.fn);
                     "k", JS (match f.fk with KStr -> "str" | KInt -> "int" | KEmb (p, _) -> if p then "embp" else "emb") ]) t.fields);
       "meths", JL (List.map (fun m -> Ob [ "n", JS m.mn; "ptr", JB m.mptr; "args", JI m.margs ]) t.meths) ]

(* ------------------------------------------------------------------ random layouts and values *)
let pool = [| "Name"; "Title"; "Id"; "Val"; "Base"; "X"; "name"; "id"; "x"; "Hello" |]
let exported_pool = [| "Name"; "Title"; "Id"; "Val"; "Base"; "X"; "Hello" |]
let lookup_names = Array.append pool
    [| "Missing"; "Y"; "Age"; "Deep"; "GetName"; "PtrDeep"; "PtrTitle"; "Arg"; "None"; "Two"; "Extra"; "hidden"; "y"; "Z";
       "A"; "B"; "C20Inner"; "C20Plain"; "c20inner"; "C20Outer"; "GetA"; "Ptr" |]

let rec rand_type r depth : tdesc =
  let n = rrange r 1 5 in
  let used = Hashtbl.create 8 in
  let fresh p = let rec go k = let x = pick r p in if Hashtbl.mem used x && k < 50 then go (k + 1) else x in
    let x = go 0 in if Hashtbl.mem used x then None else (Hashtbl.replace used x (); Some x) in
  let fields = List.filter_map (fun _ ->
      if depth > 0 && rint r 5 < 2 then
        match fresh exported_pool with
        | None -> None
        | Some nm ->
            let t' = if rint r 5 = 0 then pick r embeddable else rand_type r (depth - 1) in
            Some { fn = nm; fk = KEmb (rbool r, t') }
      else
        match fresh pool with
        | None -> None
        | Some nm -> Some { fn = nm; fk = (if rbool r then KStr else KInt) }) (List.init n (fun i -> i)) in
  { cat = None; tid = 0; fields; meths = [] }

let rand_word r = String.init (rrange r 0 6) (fun _ -> Char.chr (rrange r 0x61 0x7a))

let rec rand_value ?(nil1in = 5) r (t : tdesc) : v =
  VSt (t, List.map (fun f -> match f.fk with
      | KStr -> VS (rand_word r)
      | KInt -> VI (rrange r (-5) 99)
      | KEmb (false, t') -> rand_value ~nil1in r t'
      | KEmb (true, t') ->
          if (not (no_nil_embedded t)) && rint r nil1in = 0 then VNilPtr t' else VPtr (rand_value ~nil1in r t')) t.fields)

let rand_leaf r = if rbool r then VS (rand_word r) else VI (rrange r (-5) 99)

let rand_map r : v =
  let kind = pick r [| "generic"; "generic"; "str"; "int"; "iface"; "named" |] in
  let n = rrange r 0 4 in
  let keys = List.sort_uniq compare (List.init n (fun _ -> pick r lookup_names)) in
  VMap (kind, List.map (fun k ->
      (k, match kind with
          | "str" -> VS (rand_word r)
          | "int" -> VI (rrange r 0 50)
          | _ -> (match rint r 6 with 0 -> VNil | 1 -> rand_value r (pick r embeddable) | _ -> rand_leaf r))) keys)

let rand_top r : v =
  match rint r 20 with
  | 0 -> VNil
  | 1 -> VNilPtr (pick r embeddable)
  | 2 | 3 | 4 -> rand_map r
  | 5 -> VPtr (VPtr (rand_value r (rand_type r 1)))            (* pointer to pointer: not a struct *)
  | 6 -> VPtr (rand_map r)                                      (* pointer to map: not a struct *)
  | 7 | 8 | 9 | 10 ->
      let t = pickl r catalogue in
      let x = rand_value r t in if rbool r then VPtr x else x
  | _ ->
      let t = rand_type r (rint r 4) in
      let x = rand_value r t in if rint r 3 = 0 then VPtr x else x

(* ------------------------------------------------------------------ histories *)
type step = { vi : int; dot : bool; name : string }

let emit_history oc ~stream (vals : v array) (steps : step list) =
  let mvals = Array.map mv vals in
  let hist = List.map (fun s -> ((if s.dot then ADot else AIndex), mvals.(s.vi)), b s.name) steps in
  (* answers with the cache threaded through the whole history *)
  let answers = attr_run_answers attr_oracle_front hist attr_cache_empty in
  (* Self-checks of the model never stop the generation: when the translator read a different shape from the
     tree under test (flags in Gen/AttrConsts.v), the model follows it and may leave the proved envelope; the
     cases are still written, with a note, so that the runner's model-independent oracles can find a failing input. *)
  let notes = ref [] in
  let note m = if not (List.mem m !notes) then notes := m :: !notes in
  let js = List.map2 (fun s a ->
      let acc = if s.dot then ADot else AIndex in
      let res = attr_resolve acc mvals.(s.vi) (b s.name) in
      (* C20_history_answers: the cached answer is the uncached one; the driver re-checks it *)
      if enc res <> enc a then note "cached answer differs from attr_resolve";
      let spec = attr_spec_lookup acc mvals.(s.vi) (b s.name) in
      let base = [ "v", JI s.vi; "a", JS (if s.dot then "dot" else "idx"); "n", JS s.name; "exp", JS (enc a); "spec", JS (enc spec) ] in
      (* the known class: dot access on a typed map while the code has no branch for it (the model follows the
         translator flag, so the class is empty once getAttribute hands typed maps to getItem) *)
      Ob (if attr_typed_map_dot acc mvals.(s.vi) && enc a <> enc spec then base @ [ "cls", JS "typed-map-dot" ] else base)) steps answers in
  (* number of cache entries after the history, when it is determined: no eviction happens as long as the
     distinct (struct type, name) pairs looked up by dot do not exceed maxSize; then the cache holds exactly them *)
  let seen = Hashtbl.create 64 in
  List.iter (fun s ->
      if s.dot then
        match vals.(s.vi) with
        | VSt (t, _) | VPtr (VSt (t, _)) ->
            let bf = Buffer.create 64 in json_to bf (jt t); Hashtbl.replace seen (Buffer.contents bf ^ "|" ^ s.name) ()
        | _ -> ()) steps;
  let distinct = Hashtbl.length seen in
  let cache_len =
    if distinct <= int_of_z attr_max_size then begin
      let n = int_of_nat (attr_cache_len (attr_run attr_oracle_front hist attr_cache_empty)) in
      if n <> distinct then (note "model cache length differs from the number of distinct keys"; -1) else n end
    else -1 in
  emit oc (Ob [ "stream", JS stream; "values", JL (Array.to_list (Array.map jv vals)); "steps", JL js;
                "distinct_keys", JI distinct; "cache_len", JI cache_len; "model_notes", JL (List.map (fun m -> JS m) !notes) ])

let shuffle r (a : 'a array) =
  for i = Array.length a - 1 downto 1 do
    let j = rint r (i + 1) in let t = a.(i) in a.(i) <- a.(j); a.(j) <- t
  done

let all_steps_for vi = List.concat_map (fun n -> [ { vi; dot = true; name = n }; { vi; dot = false; name = n } ]) (Array.to_list lookup_names)

(* every catalogue type, by value and by pointer, every lookup name, both accesses; and the map kinds *)
let fixed_case r oc =
  let vals = List.concat_map (fun t -> let x = rand_value r t in [ x; VPtr x ]) catalogue
             @ [ VMap ("generic", [ "Name", VS "g"; "Id", VI 4; "Val", VNil ]); VMap ("str", [ "Name", VS "ts"; "x", VS "" ]);
                 VMap ("int", [ "Name", VI 7 ]); VMap ("iface", [ "Name", VS "if"; "Id", VI 5; "Val", VNil ]); VMap ("named", [ "Name", VS "nm"; "x", VI 2 ]); VNil; VNilPtr c_outer; VSt (c_uep, [ VNilPtr c_uinner; VS "z" ]);
                 VPtr (VMap ("generic", [ "Name", VS "g" ])) ] in
  let vals = Array.of_list vals in
  let steps = Array.of_list (List.concat (List.init (Array.length vals) all_steps_for)) in
  emit_history oc ~stream:"fixed" vals (Array.to_list steps);
  shuffle r steps;
  emit_history oc ~stream:"fixed" vals (Array.to_list steps)

let small_case r oc =
  let nv = rrange r 1 4 in
  let vals = Array.init nv (fun _ -> rand_top r) in
  let ns = rrange r 5 40 in
  let steps = List.init ns (fun _ -> { vi = rint r nv; dot = rint r 4 <> 0; name = (if rint r 5 < 3 then pick r pool else pick r lookup_names) }) in
  emit_history oc ~stream:"small" vals steps

(* more distinct (type, name) pairs than the cache holds, in random order, then the earlier lookups again *)
let flood_case r oc =
  let maxsize = int_of_z attr_max_size and nevict = int_of_nat attr_num_to_evict in
  let nbase = rrange r 4 8 in
  let base = Array.init nbase (fun _ ->
      if rint r 3 = 0 then (let x = rand_value r (pickl r catalogue) in if rbool r then VPtr x else x)
      else (let x = rand_value r (rand_type r (rrange r 1 3)) in if rint r 3 = 0 then VPtr x else x)) in
  let names = Array.to_list pool in
  let pairs_wanted = maxsize + nevict + rrange r 10 60 in
  let nflood = pairs_wanted / List.length names + 1 in
  (* flood types are pairwise different: each carries its own discriminating field *)
  let flood = Array.init nflood (fun k ->
      let t = rand_type r (rint r 3) in
      let t = { t with fields = t.fields @ [ fi (Printf.sprintf "Z%d" k) ] } in
      let x = rand_value r t in if rint r 4 = 0 then VPtr x else x) in
  let vals = Array.append base flood in
  let base_steps () =
    let a = Array.of_list (List.concat (List.init nbase (fun vi ->
        List.filter_map (fun n -> if rint r 3 = 0 then None else Some { vi; dot = rint r 8 <> 0; name = n }) (Array.to_list lookup_names)))) in
    shuffle r a; Array.to_list a in
  let flood_steps lo hi =
    let a = Array.of_list (List.concat (List.init (hi - lo) (fun i -> List.map (fun n -> { vi = nbase + lo + i; dot = true; name = n }) names))) in
    shuffle r a; Array.to_list a in
  let first = base_steps () in
  let half = nflood / 2 in
  (* phase A: base lookups; B: flood; C: the same base lookups again (some evicted, some not); D: a second
     partial flood interleaved with repeats; E: base lookups once more *)
  let again l = let a = Array.of_list l in shuffle r a; Array.to_list a in
  let second = List.concat_map (fun s -> if rint r 6 = 0 then [ s; { vi = rint r nbase; dot = true; name = pick r pool } ] else [ s ])
      (again (flood_steps 0 half)) in
  let steps = first @ flood_steps 0 nflood @ again first @ second @ again first in
  emit_history oc ~stream:"flood" vals steps

(* Hot floods: the cache is filled with entries that have each been hit at least four times (an eviction
   that spares frequently used entries then finds nothing to evict), and only then the probing lookups miss:
   by-value structs with pointer-receiver methods, nil embedded pointers, promoted fields and methods.
   Variant A: probes first (cold entries), then more than maxSize + cold + numToEvict pairs each looked up four
   times in a row, then the probes again.  Variant B: from the empty cache, exactly maxSize pairs in four
   round-robin passes (no eviction on the way), then the probes. *)
let hot_probe_values r : v list =
  let byval = List.map (fun t -> rand_value r t) [ c_ptrm; c_ptronly; c_outer; c_inner; c_om; c_amb; c_deep; c_ue; c_shadow; c_plain ] in
  let nils = [ VSt (c_uep, [ VNilPtr c_uinner; VS (rand_word r) ]); rand_value r c_uep ] in
  let dyn = List.init 4 (fun _ ->
      (* at least one embedded pointer at the top, nil half of the time, with promoted fields behind it *)
      let inner = rand_type r 1 in
      let t = rand_type r 2 in
      let t = { t with fields = { fn = "Emb"; fk = KEmb (true, inner) } :: t.fields } in
      rand_value ~nil1in:2 r t) in
  let ptrs = [ VPtr (rand_value r c_ptrm); VPtr (rand_value r c_ptronly); VPtr (rand_value r c_outer) ] in
  byval @ nils @ dyn @ ptrs

let hot_case r oc ~variant_b =
  let maxsize = int_of_z attr_max_size and nevict = int_of_nat attr_num_to_evict in
  let probes = Array.of_list (hot_probe_values r) in
  let np = Array.length probes in
  let probe_steps () =
    let a = Array.of_list (List.concat (List.init np (fun vi ->
        let own = match probes.(vi) with
          | VSt (t, _) | VPtr (VSt (t, _)) ->
              List.map (fun m -> m.mn) t.meths @ List.concat_map (fun f -> f.fn :: (match f.fk with KEmb (_, t') -> List.map (fun g -> g.fn) t'.fields | _ -> [])) t.fields
          | _ -> [] in
        let names = List.sort_uniq compare (own @ List.filter (fun _ -> rint r 4 = 0) (Array.to_list lookup_names)) in
        List.map (fun n -> { vi; dot = true; name = n }) names))) in
    shuffle r a; Array.to_list a in
  let first = probe_steps () in
  let ncold = List.length (List.sort_uniq compare (List.map (fun s -> (s.vi, s.name)) first)) in
  let names = Array.to_list pool in
  let npairs = if variant_b then maxsize else maxsize + ncold + nevict + rrange r 20 60 in
  let nfill = (npairs + List.length names - 1) / List.length names in
  let fill = Array.init nfill (fun k ->
      let t = rand_type r (rint r 2) in
      let t = { t with fields = t.fields @ [ fi (Printf.sprintf "H%d" k) ] } in
      let x = rand_value r t in if rint r 4 = 0 then VPtr x else x) in
  let vals = Array.append probes fill in
  let pairs = Array.of_list (List.concat (List.init nfill (fun k -> List.map (fun n -> { vi = np + k; dot = true; name = n }) names))) in
  shuffle r pairs;
  let pairs = Array.sub pairs 0 (min npairs (Array.length pairs)) in
  let hot =
    if variant_b then List.concat (List.init 4 (fun _ -> let a = Array.copy pairs in shuffle r a; Array.to_list a))
    else List.concat_map (fun s -> [ s; s; s; s ]) (Array.to_list pairs) in
  let again l = let a = Array.of_list l in shuffle r a; Array.to_list a in
  let steps = if variant_b then hot @ first @ again first else first @ hot @ again first @ again first in
  emit_history oc ~stream:(if variant_b then "hot-exact" else "hot-flood") vals steps

let run ~seed ~tier oc =
  let r = mk_rng seed in
  emit oc (Ob [ "stream", JS "catalogue-mirror"; "catalogue", JL (List.map jmirror catalogue);
                "max_size", JI (int_of_z attr_max_size); "num_to_evict", JI (int_of_nat attr_num_to_evict) ]);
  fixed_case r oc;
  let thorough = tier = "thorough" in
  flood_case r oc;
  for _ = 1 to (if thorough then 6000 else 400) do small_case r oc done;
  for _ = 1 to (if thorough then 40 else 4) do flood_case r oc done;
  for i = 1 to (if thorough then 12 else 2) do hot_case r oc ~variant_b:(i mod 2 = 0) done
