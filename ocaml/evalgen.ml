(* Shared, unverified glue for every property built on the evaluator model (Model/Eval.v): C09 here, C06, C10,
   C11, C12, C17 elsewhere.

   - conversions between OCaml ints / strings and the extracted Z / byte lists
   - pp_expr / pp_nodes: template SOURCE of an expr / node list of Model/Ast.v. Fully parenthesised and written
     so that twig's tokenizer and parser read back exactly the same tree (see the comments at each case for the
     traps of the tokenizer that the printer steps around). Raises Unprintable when the tree has no spelling.
   - value_str: a value of Model/Value.v in the case-file value grammar (DESIGN Appendix A.2, extended by f<dec>):
       n | b0 | b1 | i<dec> | f<dec> | s<hex> | L<tag>(v ...) | M<tag>(k v ...) | S<ty>(name-hex v ...) | P(v) | P() | O<id>
     list tags: any str int arr; map tags: any ss is si.  f<dec> is a float64 with an integral value (the
     model's VFloat).
   - the environment of a case: template set, custom callbacks as data, security policy
   - run_case / emit_case: the model's prediction for (template set, main, context) and the JSON line
       {stream, tpls: [[name-hex, src-hex]...], main, ctx, custom: [[kind, name, behaviour]...], policy,
        exp: {out: hex} | {err: class} | {skip: unmodelled | outoffuel}, trace: [...], spy: {name: count}}
   - generators of values, contexts, expressions, node lists and template sets over a fixed vocabulary.
   Every random choice comes from the one rng handed in. *)
open Util
module M = Model

exception Unprintable of string

(* ---------------------------------------------------------------- conversions *)
let z_of_int i = if i = 0 then M.Z0 else if i > 0 then M.Zpos (pos_of_int i) else M.Zneg (pos_of_int (-i))
let int_of_z = function M.Z0 -> 0 | M.Zpos p -> int_of_pos p | M.Zneg p -> - (int_of_pos p)
let bs = bytes_of_string
let sb = string_of_bytes

let lit_int i = M.ELit (M.LInt (z_of_int i))
let lit_str s = M.ELit (M.LStr (bs s))
let var x = M.EVar (bs x)
let vint i = M.VInt (z_of_int i)
let vfloat i = M.vFloat (z_of_int i)
let vstr s = M.VStr (bs s)
let vlist xs = M.VList (M.LAny, xs)
let vmap kvs = M.VMap (M.MAny, List.map (fun (k, v) -> (vstr k, v)) kvs)

(* ---------------------------------------------------------------- names *)
let reserved = [ "true"; "false"; "null"; "nil"; "not"; "and"; "or"; "in"; "is"; "matches"; "starts"; "ends"; "with";
                 "as"; "only"; "ignore"; "missing"; "sandboxed"; "import"; "defined"; "if"; "else"; "elseif"; "endif";
                 "for"; "endfor"; "set"; "do"; "block"; "endblock"; "extends"; "include"; "macro"; "endmacro"; "from";
                 "verbatim"; "endverbatim"; "apply"; "endapply"; "spaceless"; "endspaceless" ]
let is_name_shape (s : string) : bool =
  s <> "" &&
  (match s.[0] with 'a' .. 'z' | 'A' .. 'Z' | '_' -> true | _ -> false) &&
  (let ok = ref true in
   String.iter (fun c -> match c with 'a' .. 'z' | 'A' .. 'Z' | '0' .. '9' | '_' -> () | _ -> ok := false) s; !ok)
let is_ident (s : string) : bool = is_name_shape s && not (List.mem s reserved)
(* names of variables, functions, macros, parameters, aliases, blocks: no word the parsers treat specially;
   names of filters, tests and attributes stand where only a name can stand: any name shape *)
let ident what (b : M.byte list) : string =
  let s = sb b in
  let ok = match what with
    | "filter" | "test" | "attribute" | "method" -> is_name_shape s
    | "function" when s = "include" || s = "block" -> true       (* the function forms of two tags: called in a print tag *)
    | _ -> is_ident s in
  if ok then s else raise (Unprintable (what ^ " is not an identifier: " ^ String.escaped s))

(* ---------------------------------------------------------------- expressions *)
(* string literal in single quotes. The expression tokenizer ends a literal at the first quote that is not
   escaped (preceded by an odd number of backslashes), and the tag scanner ends a tag at the first closing
   delimiter wherever it stands: backslash, the quote and both braces are escaped. *)
let pp_string (s : string) : string =
  let b = Buffer.create (String.length s + 2) in
  Buffer.add_char b '\'';
  String.iter (fun c -> match c with
    | '\\' -> Buffer.add_string b "\\\\" | '\'' -> Buffer.add_string b "\\'"
    | '{' -> Buffer.add_string b "\\{" | '}' -> Buffer.add_string b "\\}"
    | '\n' -> Buffer.add_string b "\\n" | '\r' -> Buffer.add_string b "\\r" | '\t' -> Buffer.add_string b "\\t"
    | c -> Buffer.add_char b c) s;
  Buffer.add_char b '\'';
  Buffer.contents b

let binop_text = function
  | M.BOr -> "or" | M.BAnd -> "and" | M.BEq -> "==" | M.BNe -> "!=" | M.BLt -> "<" | M.BGt -> ">" | M.BLe -> "<="
  | M.BGe -> ">=" | M.BIn -> "in" | M.BNotIn -> "not in" | M.BMatches -> "matches" | M.BStartsWith -> "starts with"
  | M.BEndsWith -> "ends with" | M.BAdd -> "+" | M.BSub -> "-" | M.BConcat -> "~" | M.BMul -> "*" | M.BDiv -> "/"
  | M.BMod -> "%" | M.BPow -> "^"

(* atomic: a simple expression of the parser that needs no parentheses in any operand position *)
let rec atomic = function
  | M.ELit (M.LInt z) -> int_of_z z >= 0
  | M.ELit _ | M.EVar _ | M.ECall _ | M.EArr _ | M.EHash _ -> true
  | M.EAttr (e, _) | M.EModCall (e, _, _) -> chain e
  | _ -> false
(* a name followed by .name / .name(...): read by the parser as ONE simple expression (so it may be the operand of
   a unary operator); after any other operand .name is a postfix operator like an index or a filter *)
and chain = function
  | M.EVar _ -> true
  | M.EAttr (e, _) | M.EModCall (e, _, _) -> chain e
  | _ -> false

let rec pp_expr (e : M.expr) : string =
  match e with
  | M.ELit M.LNull -> "null"
  | M.ELit (M.LBool b) -> if b then "true" else "false"
  | M.ELit (M.LInt z) ->
    let i = int_of_z z in
    if i < 0 then raise (Unprintable "negative integer literal (a NUMBER token has no sign)") else string_of_int i
  | M.ELit (M.LStr s) -> pp_string (sb s)
  | M.EVar x -> ident "variable" x
  | M.EAttr (o, a) -> dotted o ^ "." ^ ident "attribute" a
  | M.EItem (o, i) -> operand o ^ "[" ^ pp_expr i ^ "]"
  | M.EUn (o, a) ->
    (* the operand of a unary operator is a simple expression: no postfix, no binary operator *)
    let a' = if atomic a then pp_expr a else "(" ^ pp_expr a ^ ")" in
    (match o with M.UNot -> "not " ^ a' | M.UNeg -> "- " ^ a' | M.UPos -> "+ " ^ a')
  | M.EBin (o, l, r) -> wrap l ^ " " ^ binop_text o ^ " " ^ wrap r
  | M.ECond (c, t, f) -> wrap c ^ " ? " ^ wrap t ^ " : " ^ wrap f
  | M.EArr es -> "[" ^ String.concat ", " (List.map pp_expr es) ^ "]"
  | M.EHash kvs ->
    (* a space before every closing brace: two adjacent closing braces would end a print tag *)
    "{ " ^ String.concat ", " (List.map (fun (k, v) -> wrap k ^ ": " ^ pp_expr v) kvs) ^ " }"
  | M.EFilter (o, f, args) -> operand o ^ "|" ^ ident "filter" f ^ (if args = [] then "" else pp_args args)
  | M.ECall (f, args) -> ident "function" f ^ pp_args args
  | M.EModCall (m, f, args) -> dotted m ^ "." ^ ident "method" f ^ pp_args args
  | M.ETest (a, t, args, neg) ->
    wrap a ^ (if neg then " is not " else " is ") ^ ident "test" t ^ (if args = [] then "" else pp_args args)
(* what stands before a dot; a number in parentheses (12.x would be lexed as a float) *)
and dotted o =
  match o with
  | M.ELit (M.LInt _) -> "(" ^ pp_expr o ^ ")"
  | _ -> if chain o then pp_expr o else operand o
and pp_args args = "(" ^ String.concat ", " (List.map pp_expr args) ^ ")"
(* operand of a binary operator, a conditional or a test: everything compound in parentheses *)
and wrap e = if atomic e then pp_expr e else "(" ^ pp_expr e ^ ")"
(* what a postfix operator (index, filter) is attached to: postfix forms chain without parentheses *)
and operand e =
  match e with
  | M.EItem _ | M.EFilter _ -> pp_expr e
  | M.EAttr (o, _) | M.EModCall (o, _, _) when not (chain o) -> pp_expr e
  | _ -> wrap e

(* ---------------------------------------------------------------- nodes *)
let contains_ci (s : string) (pat : string) = Str_compat.contains (String.lowercase_ascii s) pat

let check_text what (s : string) =
  if Str_compat.contains s "{{" || Str_compat.contains s "{%" || Str_compat.contains s "{#" then
    raise (Unprintable (what ^ " contains a tag opener"));
  (* a backslash directly before an opener is an (undocumented) escape of the scanner: a text may not end in one *)
  if s <> "" && (s.[String.length s - 1] = '\\' || s.[String.length s - 1] = '{') then
    raise (Unprintable (what ^ " ends in a backslash or an opening brace"))

(* a template-name expression of extends / include / import: a literal in quotes, a bare name, or in parentheses
   (anything else that begins and ends with a quote would be read as ONE literal) *)
let pp_name_expr (e : M.expr) : string =
  match e with
  | M.ELit (M.LStr _) | M.EVar _ -> pp_expr e
  | _ -> "(" ^ pp_expr e ^ ")"

(* a comma inside parentheses, outside brackets and braces: the scanner of a with-object that is the last thing in
   the tag splits there *)
let comma_in_parens (s : string) : bool =
  let depth = ref 0 and found = ref false and in_str = ref false in
  String.iteri (fun i c ->
    if !in_str then (if c = '\'' && (i = 0 || s.[i - 1] <> '\\') then in_str := false)
    else match c with
      | '\'' -> in_str := true
      | '(' -> incr depth | ')' -> decr depth
      | ',' -> if !depth > 0 then found := true
      | _ -> ()) s;
  !found

let rec pp_node (n : M.node) : string =
  match n with
  | M.NText s -> let s = sb s in check_text "text" s; s
  | M.NVerbatim s ->
    let s = sb s in
    check_text "verbatim body" s;
    if String.contains s '{' then raise (Unprintable "verbatim body with a brace (re-assembled token by token: C04)");
    "{% verbatim %}" ^ s ^ "{% endverbatim %}"
  | M.NPrint e -> "{{ " ^ pp_expr e ^ " }}"
  | M.NIf (branches, els) ->
    (match branches with
     | [] -> raise (Unprintable "if without a condition")
     | (c0, b0) :: rest ->
       "{% if " ^ pp_expr c0 ^ " %}" ^ pp_nodes b0
       ^ String.concat "" (List.map (fun (c, b) -> "{% elseif " ^ pp_expr c ^ " %}" ^ pp_nodes b) rest)
       ^ (match els with Some b -> "{% else %}" ^ pp_nodes b | None -> "")
       ^ "{% endif %}")
  | M.NFor (k, v, seq, body, els) ->
    "{% for " ^ (match k with Some k -> ident "key variable" k ^ ", " | None -> "") ^ ident "loop variable" v
    ^ " in " ^ pp_expr seq ^ " %}" ^ pp_nodes body
    ^ (match els with Some b -> "{% else %}" ^ pp_nodes b | None -> "")
    ^ "{% endfor %}"
  | M.NSet (x, e) -> "{% set " ^ ident "set target" x ^ " = " ^ pp_expr e ^ " %}"
  | M.NDo e ->
    let s = pp_expr e in
    (* the scanner of a do tag takes the first = anywhere in the tag for an assignment *)
    if String.contains s '=' then raise (Unprintable "do expression containing =");
    "{% do " ^ s ^ " %}"
  | M.NBlock (name, body) -> "{% block " ^ ident "block" name ^ " %}" ^ pp_nodes body ^ "{% endblock %}"
  | M.NExtends e -> "{% extends " ^ pp_name_expr e ^ " %}"
  | M.NInclude (e, withs, ign, only, sandboxed) ->
    let name = pp_name_expr e in
    if contains_ci name " with " then raise (Unprintable "include name containing the word with");
    let w = match withs with
      | None -> ""
      | Some (M.EHash kvs) ->
        let items = List.map (fun (k, v) ->
          match k with
          | M.ELit (M.LStr k) -> ident "with key" k ^ ": " ^ pp_expr v
          | _ -> raise (Unprintable "with key that is not a literal name")) kvs in
        let obj = "{ " ^ String.concat ", " items ^ " }" in
        if contains_ci obj " with " then raise (Unprintable "with value containing the word with");
        " with " ^ obj
      | Some _ -> raise (Unprintable "with value that is not a hash literal") in
    "{% include " ^ name ^ w ^ (if ign then " ignore missing" else "") ^ (if only then " only" else "")
    ^ (if sandboxed then " sandboxed" else "") ^ " %}"
  | M.NMacro (name, params, body) ->
    "{% macro " ^ ident "macro" name ^ "("
    ^ String.concat ", " (List.map (fun (p, d) ->
        ident "parameter" p ^ (match d with Some e -> " = " ^ wrap e | None -> "")) params)
    ^ ") %}" ^ pp_nodes body ^ "{% endmacro %}"
  | M.NImport (e, alias) ->
    let name = pp_name_expr e in
    if contains_ci name " as " then raise (Unprintable "import name containing the word as");
    "{% import " ^ name ^ " as " ^ ident "alias" alias ^ " %}"
  | M.NFrom (e, names) ->
    (match e with
     | M.ELit (M.LStr s) ->
       let name = pp_string (sb s) in
       if contains_ci name " import " then raise (Unprintable "from name containing the word import");
       if names = [] then raise (Unprintable "from without names");
       "{% from " ^ name ^ " import "
       ^ String.concat ", " (List.map (fun (m, a) ->
           let m = ident "macro" m and a = ident "alias" a in if m = a then m else m ^ " as " ^ a) names)
       ^ " %}"
     | _ -> raise (Unprintable "from with a computed template name"))
  | M.NApply (f, args, body) ->
    if args <> [] then raise (Unprintable "apply with arguments");
    "{% apply " ^ ident "filter" f ^ " %}" ^ pp_nodes body ^ "{% endapply %}"
  | M.NSpaceless body -> "{% spaceless %}" ^ pp_nodes body ^ "{% endspaceless %}"
and pp_nodes (ns : M.node list) : string = String.concat "" (List.map pp_node ns)

(* ---------------------------------------------------------------- values in the case-file grammar *)
let ltag_str = function M.LAny -> "any" | M.LStrings -> "str" | M.LInts -> "int" | M.LArray -> "arr"
let mtag_str = function M.MAny -> "any" | M.MStrStr -> "ss" | M.MIntStr -> "is" | M.MStrInt -> "si"
let rec value_str (v : M.value) : string =
  match M.vo_view v with
  | M.KNull -> "n"
  | M.KBool b -> if b then "b1" else "b0"
  | M.KInt z -> "i" ^ string_of_int (int_of_z z)
  | M.KFloat z -> "f" ^ string_of_int (int_of_z z)
  | M.KStr s -> "s" ^ hexb s
  | M.KList (t, xs) -> "L" ^ ltag_str t ^ "(" ^ String.concat " " (List.map value_str xs) ^ ")"
  | M.KMap (t, kvs) -> "M" ^ mtag_str t ^ "(" ^ String.concat " " (List.map (fun (k, x) -> value_str k ^ " " ^ value_str x) kvs) ^ ")"
  | M.KStructV (ty, fs) -> "S" ^ string_of_int (int_of_nat ty) ^ "(" ^ String.concat " " (List.map (fun (k, x) -> hexb k ^ " " ^ value_str x) fs) ^ ")"
  | M.KPtr None -> "P()"
  | M.KPtr (Some x) -> "P(" ^ value_str x ^ ")"
  | M.KCallable _ | M.KParent | M.KMacro _ | M.KOther ->
    (match v with M.VOpaque id -> "O" ^ string_of_int (int_of_nat id) | _ -> failwith "value_str: not a context value")

(* ---------------------------------------------------------------- environment of a case *)
type custom = { ckind : string (* filter | function | test *); cname : string; cb : M.cb_kind }
type caseenv = {
  tpls : (string * M.node list) list;
  custom : custom list;
  policy : (string list * string list) option;   (* allowed filters, allowed functions *)
}

(* the standard callbacks every generated case registers *)
let std_custom = [
  { ckind = "filter"; cname = "spy"; cb = M.CbId }; { ckind = "filter"; cname = "spy2"; cb = M.CbId };
  { ckind = "filter"; cname = "fail7"; cb = M.CbFail (nat_of_int 7) };
  { ckind = "function"; cname = "spyfn"; cb = M.CbId }; { ckind = "function"; cname = "failfn3"; cb = M.CbFail (nat_of_int 3) };
  { ckind = "test"; cname = "spyt"; cb = M.CbId }; { ckind = "test"; cname = "failt9"; cb = M.CbFail (nat_of_int 9) } ]

let model_env (e : caseenv) : M.ev_env =
  let of_kind k = List.filter_map (fun c -> if c.ckind = k then Some (bs c.cname, c.cb) else None) e.custom in
  { M.e_tpls = List.map (fun (n, ns) -> (bs n, ns)) e.tpls;
    M.e_filters = of_kind "filter"; M.e_functions = of_kind "function"; M.e_tests = of_kind "test";
    M.e_policy = (match e.policy with
        | None -> None
        | Some (fs, fns) -> Some (List.map bs fs, List.map bs fns)) }

let cb_str = function
  | M.CbId -> "id"
  | M.CbFail n -> "fail:" ^ string_of_int (int_of_nat n)
  | M.CbConst v -> "const:" ^ value_str v

let err_class = function
  | M.ENotFound -> "not-found" | M.ESecurity -> "security" | M.EParse -> "parse"
  | M.ESentinel n -> "sentinel:" ^ string_of_int (int_of_nat n) | M.EOther -> "other"

let event_str = function
  | M.TrFilter n -> "filter:" ^ sb n | M.TrFunction n -> "function:" ^ sb n
  | M.TrTest n -> "test:" ^ sb n | M.TrLoad n -> "load:" ^ sb n

let default_fuel = 400

(* the model's prediction *)
let run_model ?(fuel = default_fuel) (e : caseenv) (main : string) (ctx : (string * M.value) list)
  : M.byte list M.outcome * M.tr_event list =
  M.render_template (nat_of_int fuel) (model_env e) (bs main) (List.map (fun (k, v) -> (bs k, v)) ctx)

let exp_json (r : M.byte list M.outcome) : json =
  match r with
  | M.Ok out -> Ob [ "out", JS (hexb out) ]
  | M.Err c -> Ob [ "err", JS (err_class c) ]
  | M.OutOfFuel -> Ob [ "skip", JS "outoffuel" ]
  | M.Unmodelled -> Ob [ "skip", JS "unmodelled" ]

(* how often each custom callback is invoked according to the trace *)
let spy_counts (e : caseenv) (tr : M.tr_event list) : (string * json) list =
  List.map (fun c ->
    let key = c.ckind ^ ":" ^ c.cname in
    (key, JI (List.length (List.filter (fun ev -> event_str ev = key) tr)))) e.custom

(* the node kinds that occur in a template set (for the distribution printed in the evidence) *)
let rec node_kinds (acc : string list) (n : M.node) : string list =
  let add k acc = if List.mem k acc then acc else k :: acc in
  let many acc ns = List.fold_left node_kinds acc ns in
  match n with
  | M.NText _ -> add "text" acc | M.NVerbatim _ -> add "verbatim" acc | M.NPrint _ -> add "print" acc
  | M.NIf (bs', els) -> let acc = List.fold_left (fun a (_, b) -> many a b) (add "if" acc) bs' in (match els with Some b -> many acc b | None -> acc)
  | M.NFor (_, _, _, b, els) -> let acc = many (add "for" acc) b in (match els with Some b -> many acc b | None -> acc)
  | M.NSet _ -> add "set" acc | M.NDo _ -> add "do" acc
  | M.NBlock (_, b) -> many (add "block" acc) b
  | M.NExtends _ -> add "extends" acc | M.NInclude _ -> add "include" acc
  | M.NMacro (_, _, b) -> many (add "macro" acc) b
  | M.NImport _ -> add "import" acc | M.NFrom _ -> add "from" acc
  | M.NApply (_, _, b) -> many (add "apply" acc) b
  | M.NSpaceless b -> many (add "spaceless" acc) b
let set_kinds (e : (string * M.node list) list) : string =
  String.concat "," (List.sort compare (List.fold_left (fun acc (_, ns) -> List.fold_left node_kinds acc ns) [] e))

(* the fields of a case that describe the input; sources are printed here (Unprintable escapes) *)
let case_input_fields (e : caseenv) (main : string) (ctx : (string * M.value) list) : (string * json) list =
  [ "tpls", JL (List.map (fun (n, ns) -> JL [ JS (hex n); JS (hex (pp_nodes ns)) ]) e.tpls);
    "main", JS main;
    "kinds", JS (set_kinds e.tpls);
    "ctx", JS (value_str (vmap ctx));
    "custom", JL (List.map (fun c -> JL [ JS c.ckind; JS c.cname; JS (cb_str c.cb) ]) e.custom);
    "policy", (match e.policy with
        | None -> JS "none"
        | Some (fs, fns) -> Ob [ "filters", JL (List.map (fun s -> JS s) fs); "functions", JL (List.map (fun s -> JS s) fns) ]) ]

(* one JSON line; returns false (and writes nothing) when the template set has no spelling *)
let emit_case ?(fuel = default_fuel) ?(extra = []) oc ~(stream : string) (e : caseenv) (main : string)
    (ctx : (string * M.value) list) : bool =
  match (try Some (case_input_fields e main ctx) with Unprintable _ -> None) with
  | None -> false
  | Some fields ->
    let (r, tr) = run_model ~fuel e main ctx in
    emit oc (Ob ([ "stream", JS stream ] @ fields
                 @ [ "exp", exp_json r; "trace", JL (List.map (fun ev -> JS (event_str ev)) tr);
                     "spy", Ob (spy_counts e tr) ] @ extra));
    true

(* ================================================================ generators *)
(* vocabulary *)
let var_pool = [| "a"; "b"; "c"; "n"; "s"; "t"; "xs"; "ys"; "m"; "u"; "i"; "j"; "k"; "v"; "x"; "y"; "q"; "z0"; "e1" |]
let key_pool = [| "a"; "b"; "k"; "name"; "x"; "y"; "id" |]
let str_pool = [| ""; "a"; "b"; "ab"; "abc"; "x y"; " pad "; "0"; "1"; "12"; "-3"; "h\xc3\xa9y"; "\xe2\x82\xac"; "\xf0\x9f\x98\x80z";
                  "<b>"; "a&b"; "it's"; "\"q\""; "A Z"; "hello wORLD"; "\xff"; "a\xc3"; "tab\there"; "nl\nx"; "> <"; "1e3"; "1.5"; "inf"; "true" |]
let text_pool = [| "t"; " "; "\n"; "<p>"; "</p>"; "a b"; "h\xc3\xa9"; ";"; "|"; "> <"; "  "; "x"; "}"; "%"; "#"; "-" |]

let gen_small_int r = match rint r 10 with
  | 0 -> 0 | 1 -> 1 | 2 -> 2 | 3 -> 3 | 4 -> 7 | 5 -> 10 | 6 -> 12 | 7 -> 100 | 8 -> 999999 | _ -> rint r 50

(* ---- values *)
let rec gen_value r ~depth : M.value =
  match if depth <= 0 then rint r 7 else rint r 13 with
  | 0 -> M.VNull
  | 1 -> M.VBool (rbool r)
  | 2 -> vint (match rint r 6 with 0 -> 0 | 1 -> - (gen_small_int r) | _ -> gen_small_int r)
  | 3 | 4 -> vstr (pick r str_pool)
  | 5 -> vfloat (match rint r 5 with 0 -> 0 | 1 -> - (1 + rint r 9) | 2 -> 1000000 + rint r 5 | _ -> gen_small_int r)
  | 6 -> vint (rint r 4)
  | 7 | 8 -> vlist (List.init (rint r 5) (fun _ -> gen_value r ~depth:(depth - 1)))
  | 9 -> M.VList (M.LStrings, List.init (rint r 4) (fun _ -> vstr (pick r str_pool)))
  | 10 -> M.VList (M.LInts, List.init (rint r 4) (fun _ -> vint (rint r 20 - 5)))
  | 11 -> gen_map r ~depth
  | _ ->
    (match rint r 3 with
     | 0 -> M.VMap (M.MStrStr, gen_keys r |> List.map (fun k -> (vstr k, vstr (pick r str_pool))))
     | 1 -> M.VMap (M.MStrInt, gen_keys r |> List.map (fun k -> (vstr k, vint (rint r 9))))
     | _ -> M.VMap (M.MIntStr, List.sort_uniq compare (List.init (rint r 4) (fun _ -> rint r 12))
                               |> List.map (fun k -> (vint k, vstr (pick r str_pool)))))
and gen_keys r : string list =
  let n = rint r 4 in
  let rec go acc k = if k = 0 then List.rev acc else
      let x = pick r key_pool in if List.mem x acc then go acc (k - 1) else go (x :: acc) (k - 1) in
  go [] n
and gen_map r ~depth : M.value =
  vmap (List.map (fun k -> (k, gen_value r ~depth:(depth - 1))) (gen_keys r))

(* a context: a few fixed shapes under fixed names (so that generated expressions meet values of every kind)
   plus random bindings *)
let gen_ctx r : (string * M.value) list =
  let fixed = [
    "n", vint (pick r [| 0; 1; 2; 5; -1 |]);
    "s", vstr (pick r str_pool);
    "xs", (match rint r 5 with
        | 0 -> vlist []
        | 1 -> M.VList (M.LStrings, List.init (1 + rint r 3) (fun _ -> vstr (pick r str_pool)))
        | 2 -> M.VList (M.LInts, List.init (1 + rint r 4) (fun _ -> vint (rint r 9)))
        | _ -> vlist (List.init (rint r 6) (fun _ -> gen_value r ~depth:1)));
    "m", gen_map r ~depth:2;
    "t", M.VBool (rbool r);
    "e1", (match rint r 5 with
        | 0 -> M.VList (M.LArray, List.init (rint r 4) (fun _ -> gen_value r ~depth:0))
        | 1 -> M.VPtr (if rbool r then None else Some (gen_value r ~depth:1))
        | 2 -> M.VOpaque (nat_of_int 1)
        | 3 -> vlist (List.init (rint r 5) (fun _ -> if rbool r then vint (rint r 30 - 10) else vfloat (rint r 30 - 10)))
        | _ -> gen_value r ~depth:1);
    "ys", (match rint r 3 with
        | 0 -> M.VList (M.LStrings, List.init (rint r 4) (fun _ -> vstr (pick r str_pool)))
        | 1 -> M.VList (M.LInts, List.init (rint r 5) (fun _ -> vint (rint r 30 - 10)))
        | _ -> vlist (List.init (rint r 8) (fun i -> vint i)));
    "u", (match rint r 4 with
        | 0 -> M.VMap (M.MStrStr, gen_keys r |> List.map (fun k -> (vstr k, vstr (pick r str_pool))))
        | 1 -> M.VMap (M.MStrInt, gen_keys r |> List.map (fun k -> (vstr k, vint (rint r 9))))
        | 2 -> M.VMap (M.MIntStr, List.sort_uniq compare (List.init (rint r 5) (fun _ -> rint r 14)) |> List.map (fun k -> (vint k, vstr (pick r str_pool))))
        | _ -> gen_map r ~depth:1) ] in
  let extra = List.init (rint r 4) (fun _ -> (pick r [| "a"; "b"; "c"; "q" |], gen_value r ~depth:2)) in
  (* later bindings of the same name win in a Go map literal; keep the first *)
  List.fold_left (fun acc (k, v) -> if List.mem_assoc k acc then acc else acc @ [ (k, v) ]) [] (fixed @ extra)

(* ---- expressions *)
type gopts = {
  macros : (string * int) list;      (* macros callable by name here, with their arity *)
  modules : (string * (string * int) list) list;  (* import aliases with their macros *)
  bound : string list;               (* variables bound by enclosing for / set / macro parameters *)
  allow_calls : bool;                (* custom callbacks and failing names may appear *)
  in_do : bool;                      (* no = in the printed text *)
  in_name : bool;                    (* no starts with / ends with, no as, in the printed text *)
  inloop : bool;                     (* inside a for body: loop.* is defined *)
}
let gopts0 = { macros = []; modules = []; bound = []; allow_calls = true; in_do = false; in_name = false; inloop = false }

let filters0 = [| "upper"; "lower"; "trim"; "length"; "first"; "last"; "abs"; "e"; "escape"; "raw"; "keys"; "reverse"; "sort";
                  "capitalize"; "title"; "join"; "default"; "nl2br"; "count"; "spaceless" |]
let tests0 = [| "defined"; "empty"; "null"; "none"; "even"; "odd"; "iterable" |]
let tests1 = [| "same_as"; "sameas"; "divisible_by"; "equalto"; "starts_with"; "ends_with" |]

let gen_var r (o : gopts) : M.expr =
  if o.bound <> [] && rint r 3 = 0 then var (pickl r o.bound) else var (pick r var_pool)

(* type-directed generation: most generated expressions evaluate without a type error, so that rendering
   gets past them; gen_wild below adds the ill-typed rest *)
type gty = TNum | TStr | TBool | TList | TMap | TAny

let rec gen_expr r (o : gopts) ~depth : M.expr =
  if o.in_do || o.in_name || rint r 4 = 0 then gen_wild r o ~depth else gen_typed r o ~depth TAny
and gen_typed r (o : gopts) ~depth (ty : gty) : M.expr =
  let sub t = gen_typed r o ~depth:(depth - 1) t in
  let leaf = depth <= 0 in
  let spy e = if o.allow_calls && rint r 12 = 0 then M.EFilter (e, bs (pick r [| "spy"; "spy2" |]), []) else e in
  match ty with
  | TNum ->
    spy (match if leaf then rint r 4 else rint r 16 with
      | 0 | 1 -> lit_int (gen_small_int r)
      | 2 -> var "n"
      | 3 -> if o.inloop then M.EAttr (var "loop", bs (pick r [| "index"; "index0"; "revindex"; "revindex0"; "length" |])) else lit_int (rint r 5)
      | 4 | 5 | 6 -> M.EBin (pick r [| M.BAdd; M.BSub; M.BMul; M.BAdd |], sub TNum, sub TNum)
      | 7 -> M.EBin (pick r [| M.BMod; M.BDiv |], sub TNum, lit_int (1 + rint r 4))
      | 8 -> M.EFilter (sub (pick r [| TList; TStr; TMap |]), bs (pick r [| "length"; "count" |]), [])
      | 9 -> M.EFilter (sub TNum, bs "abs", [])
      | 10 -> M.EUn (pick r [| M.UNeg; M.UPos |], sub TNum)
      | 11 -> M.ECall (bs (pick r [| "max"; "min" |]), [ sub TNum; sub TNum ])
      | 12 -> M.ECond (sub TBool, sub TNum, sub TNum)
      | 13 -> M.EBin (M.BPow, lit_int (rint r 4), lit_int (rint r 5))
      | 14 -> M.ECall (bs "length", [ sub (pick r [| TList; TStr |]) ])
      | _ -> lit_int (rint r 10))
  | TStr ->
    spy (match if leaf then rint r 3 else rint r 14 with
      | 0 | 1 -> lit_str (pick r str_pool)
      | 2 -> var "s"
      | 3 | 4 -> M.EBin (M.BConcat, sub TStr, sub (pick r [| TStr; TNum; TBool |]))
      | 5 | 6 -> M.EFilter (sub TStr, bs (pick r [| "upper"; "lower"; "trim"; "capitalize"; "title"; "e"; "escape"; "raw"; "reverse"; "nl2br"; "first"; "last"; "spaceless" |]), [])
      | 7 -> M.EFilter (sub TList, bs "join", [ lit_str (pick r [| ","; "-"; "" |]) ])
      | 8 -> M.EFilter (sub TStr, bs "slice", [ lit_int (rint r 3); lit_int (rint r 4) ])
      | 9 -> M.EFilter (sub TStr, bs "default", [ lit_str "dflt" ])
      | 10 -> M.EFilter (sub TStr, bs "replace", [ lit_str (pick r [| "a"; "b"; " " |]); lit_str (pick r [| ""; "X" |]) ])
      | 11 -> M.ECond (sub TBool, sub TStr, sub TStr)
      | 12 -> M.EFilter (sub TStr, bs "trim", [ lit_str (pick r [| "x"; " "; "ab" |]) ])
      | _ -> M.EBin (M.BAdd, sub TStr, sub TStr))
  | TBool ->
    (match if leaf then rint r 3 else rint r 16 with
      | 0 -> M.ELit (M.LBool (rbool r))
      | 1 -> var "t"
      | 2 -> M.ETest (gen_var r o, bs "defined", [], rint r 4 = 0)
      | 3 | 4 -> M.EBin (pick r [| M.BLt; M.BGt; M.BLe; M.BGe; M.BEq; M.BNe |], sub TNum, sub TNum)
      | 5 -> M.EBin (pick r [| M.BEq; M.BNe |], sub (pick r [| TStr; TNum; TBool; TAny |]), sub (pick r [| TStr; TNum; TAny |]))
      | 6 -> M.EBin (pick r [| M.BIn; M.BNotIn |], sub (pick r [| TNum; TStr |]), sub (pick r [| TList; TStr; TMap |]))
      | 7 -> M.EBin (pick r [| M.BStartsWith; M.BEndsWith |], sub TStr, sub TStr)
      | 8 -> M.EUn (M.UNot, sub (pick r [| TBool; TAny |]))
      | 9 | 10 -> M.EBin (pick r [| M.BAnd; M.BOr |], sub (pick r [| TBool; TAny |]), sub (pick r [| TBool; TAny |]))
      | 11 -> M.ETest (sub TAny, bs (pick r [| "empty"; "null"; "none"; "iterable"; "defined" |]), [], rint r 4 = 0)
      | 12 -> M.ETest (sub TNum, bs (pick r [| "even"; "odd" |]), [], rint r 4 = 0)
      | 13 -> M.ETest (sub TNum, bs "divisible_by", [ lit_int (1 + rint r 4) ], false)
      | 14 -> M.ETest (sub (pick r [| TNum; TStr; TBool |]), bs (pick r [| "same_as"; "sameas"; "equalto" |]), [ sub (pick r [| TNum; TStr; TBool |]) ], rint r 4 = 0)
      | _ -> if o.allow_calls then M.ETest (sub TAny, bs "spyt", [], false) else M.ELit (M.LBool true))
  | TList ->
    spy (match if leaf then rint r 3 else rint r 12 with
      | 0 -> var "xs"
      | 1 -> M.EArr []
      | 2 -> M.EArr (List.init (1 + rint r 3) (fun _ -> gen_leaf r o))
      | 3 | 4 -> M.EArr (List.init (rint r 5) (fun _ -> sub (pick r [| TNum; TStr; TAny |])))
      | 5 -> M.ECall (bs "range", [ lit_int (rint r 4); lit_int (rint r 7) ])
      | 6 -> M.ECall (bs "range", [ lit_int (rint r 8); lit_int (rint r 4); M.EUn (M.UNeg, lit_int (1 + rint r 2)) ])
      | 7 -> M.EFilter (sub TList, bs (pick r [| "reverse"; "sort"; "raw" |]), [])
      | 8 -> M.EFilter (sub TList, bs "slice", [ lit_int (rint r 3) ] @ (if rbool r then [ lit_int (rint r 3) ] else []))
      | 9 -> M.EFilter (sub TList, bs "merge", [ sub TList ])
      | 10 -> M.EFilter (sub TMap, bs "keys", [])
      | _ -> M.EFilter (sub TList, bs "default", [ M.EArr [ lit_int 1 ] ]))
  | TMap ->
    (match if leaf then rint r 2 else rint r 5 with
      | 0 -> var "m"
      | 1 -> M.EHash (List.map (fun k -> (lit_str k, sub (pick r [| TNum; TStr; TAny |]))) (gen_keys r))
      | 2 -> M.EFilter (sub (if rint r 4 = 0 then TAny else TMap), bs "merge", [ (if rint r 5 = 0 then var "u" else sub TMap) ])
      | 3 -> M.EHash [ (lit_str (pick r key_pool), sub TAny) ]
      | _ -> var "m")
  | TAny ->
    (match rint r 16 with
      | 0 | 1 | 2 -> gen_typed r o ~depth TNum
      | 3 | 4 | 5 -> gen_typed r o ~depth TStr
      | 6 | 7 -> gen_typed r o ~depth TBool
      | 8 | 9 -> gen_typed r o ~depth TList
      | 10 -> gen_typed r o ~depth TMap
      | 11 -> M.EAttr (var (pick r [| "m"; "m"; "u" |]), bs (pick r key_pool))
      | 12 -> (match rint r 3 with
          | 0 -> M.EItem (var "u", (if rbool r then lit_int (rint r 14) else lit_str (pick r key_pool)))
          | 1 -> M.EItem (var "ys", lit_int (rint r 3))
          | _ -> M.EItem (var "m", lit_str (pick r key_pool)))
      | 13 -> if leaf then gen_leaf r o else M.EFilter (sub TList, bs (pick r [| "first"; "last" |]), [])
      | 14 -> if leaf then gen_leaf r o else gen_macro_call r o ~depth
      | _ -> gen_leaf r o)
and gen_wild r (o : gopts) ~depth : M.expr =
  if depth <= 0 then gen_leaf r o else
    let sub () = gen_expr r o ~depth:(depth - 1) in
    match rint r 34 with
    | 0 | 1 | 2 -> gen_leaf r o
    | 3 -> M.EAttr (gen_chain r o, bs (pick r [| "a"; "b"; "k"; "name"; "index"; "length"; "first"; "last"; "x" |]))
    | 4 -> if rint r 3 = 0 then M.EAttr (sub (), bs (pick r key_pool)) else M.EItem (sub (), (if rbool r then lit_int (rint r 4) else sub ()))
    | 5 -> M.EUn (pick r [| M.UNot; M.UNot; M.UNeg; M.UPos |], sub ())
    | 6 | 7 | 8 | 9 | 10 | 11 ->
      let ops = if o.in_do then [| M.BAdd; M.BSub; M.BMul; M.BDiv; M.BMod; M.BConcat; M.BAnd; M.BOr; M.BLt; M.BGt; M.BIn; M.BNotIn; M.BPow |]
        else if o.in_name then [| M.BConcat; M.BAdd; M.BOr; M.BAnd |]
        else [| M.BOr; M.BAnd; M.BEq; M.BNe; M.BLt; M.BGt; M.BLe; M.BGe; M.BIn; M.BNotIn; M.BStartsWith; M.BEndsWith;
                M.BAdd; M.BSub; M.BConcat; M.BMul; M.BDiv; M.BMod; M.BPow; M.BAdd; M.BSub; M.BEq; M.BConcat |] in
      let op = pick r ops in
      (match op with
       | M.BPow -> M.EBin (op, (if rbool r then lit_int (rint r 4) else sub ()), lit_int (rint r 5))
       | _ -> M.EBin (op, sub (), sub ()))
    | 12 | 13 -> M.ECond (sub (), sub (), sub ())
    | 14 | 15 -> M.EArr (List.init (rint r 4) (fun _ -> sub ()))
    | 16 ->
      (* entries are evaluated in source order; with a repeated key the last value wins *)
      let ks = gen_keys r in
      let ks = if ks <> [] && rint r 4 = 0 then ks @ [ List.hd ks ] else ks in
      M.EHash (List.map (fun k -> (lit_str k, sub ())) ks)
    | 17 | 18 | 19 | 20 | 21 ->
      let base = sub () in
      (match rint r 12 with
       | 0 -> M.EFilter (base, bs "slice", (lit_int (rint r 4) :: (if rbool r then [ if rbool r then lit_int (rint r 3) else M.EUn (M.UNeg, lit_int (1 + rint r 2)) ] else [])))
       | 1 -> M.EFilter (base, bs "slice", [ M.EUn (M.UNeg, lit_int (1 + rint r 3)) ])
       | 2 -> M.EFilter (base, bs "join", if rbool r then [ lit_str (pick r [| ","; "-"; ""; ", " |]) ] else [])
       | 3 -> M.EFilter (base, bs "default", [ sub () ])
       | 4 -> M.EFilter (base, bs "merge", [ sub () ])
       | 5 -> M.EFilter (base, bs "trim", [ lit_str (pick r [| "x"; " "; "ab"; "" |]) ])
       | 6 -> M.EFilter (base, bs "replace", [ lit_str (pick r [| "a"; "b"; " "; "ab" |]); lit_str (pick r [| ""; "X"; "--" |]) ])
       | 7 when o.allow_calls -> M.EFilter (base, bs (pick r [| "spy"; "spy2"; "spy"; "fail7"; "nosuchfilter" |]), [])
       | _ -> M.EFilter (base, bs (pick r filters0), []))
    | 22 | 23 ->
      (match rint r 8 with
       | 0 | 1 | 2 ->
         let a = lit_int (rint r 6) and b = (if rint r 4 = 0 then sub () else lit_int (rint r 8)) in
         (match rint r 4 with
          | 0 -> M.ECall (bs "range", [ b ])
          | 1 -> M.ECall (bs "range", [ a; b; (if rbool r then lit_int (1 + rint r 3) else M.EUn (M.UNeg, lit_int (1 + rint r 3))) ])
          | _ -> M.ECall (bs "range", [ a; b ]))
       | 3 -> M.ECall (bs (pick r [| "max"; "min" |]), List.init (1 + rint r 3) (fun _ -> sub ()))
       | 4 -> M.ECall (bs (pick r [| "length"; "count" |]), [ sub () ])
       | 5 when o.allow_calls -> M.ECall (bs (pick r [| "spyfn"; "spyfn"; "failfn3"; "nosuchfn" |]), List.init (rint r 3) (fun _ -> sub ()))
       | 6 -> M.ECall (bs "merge", [ sub (); sub () ])
       | _ -> gen_macro_call r o ~depth)
    | 24 | 25 ->
      let a = if rint r 3 = 0 then gen_chain r o else sub () in
      (match rint r 5 with
       | 0 -> M.ETest (a, bs (pick r tests1), [ sub () ], rint r 4 = 0)
       | 1 when o.allow_calls -> M.ETest (a, bs (pick r [| "spyt"; "failt9"; "nosuchtest" |]), [], rint r 4 = 0)
       | _ -> M.ETest (a, bs (pick r tests0), [], rint r 4 = 0))
    | 26 -> gen_macro_call r o ~depth
    | _ -> gen_leaf r o
and gen_leaf r (o : gopts) : M.expr =
  match rint r 12 with
  | 0 -> M.ELit M.LNull
  | 1 -> M.ELit (M.LBool (rbool r))
  | 2 | 3 -> lit_int (gen_small_int r)
  | 4 | 5 ->
    let s = pick r str_pool in
    let s = if o.in_do && String.contains s '=' then "d" else s in
    lit_str (if s <> "" && s.[String.length s - 1] = '\\' then s ^ "." else s)
  | 6 -> M.EAttr (var "loop", bs (pick r [| "index"; "index0"; "revindex"; "revindex0"; "first"; "last"; "length" |]))
  | _ -> gen_var r o
and gen_chain r (o : gopts) : M.expr =
  match rint r 4 with
  | 0 -> M.EAttr (gen_var r o, bs (pick r key_pool))
  | 1 -> var "loop"
  | _ -> gen_var r o
and gen_macro_call r (o : gopts) ~depth : M.expr =
  let args n = List.init (max 0 (n + rint r 3 - 1)) (fun _ -> gen_expr r o ~depth:(depth - 1)) in
  match o.macros, o.modules with
  | [], [] -> gen_leaf r o
  | ms, mods ->
    if mods <> [] && (ms = [] || rbool r) then
      let (alias, mms) = pickl r mods in
      (match mms with
       | [] -> gen_leaf r o
       | _ -> let (m, ar) = pickl r mms in M.EModCall (var alias, bs m, args ar))
    else
      let (m, ar) = pickl r ms in
      if rint r 5 = 0 then M.EModCall (var "_self", bs m, args ar) else M.ECall (bs m, args ar)

(* ---- nodes *)
type nstate = {
  mutable blockno : int;             (* fresh block names per template *)
  tplname : string;
  includable : string list;          (* templates this one may include / import / extend (acyclic order) *)
  libs : (string * (string * int) list) list;   (* macro libraries: template name, macros with arity *)
  sandbox_ok : bool;                 (* the case has a security policy: sandboxed includes make sense *)
}

let gen_text r = M.NText (bs (pick r text_pool))

let rec gen_nodes r (st : nstate) (o : gopts) ~depth ~len : M.node list =
  let n = rint r (len + 1) in
  let rec go o k acc =
    if k = 0 then List.rev acc else
      let (node, o') = gen_node r st o ~depth in
      go o' (k - 1) (node :: acc) in
  go o n []
(* a node and the options for what follows it (set and import extend the scope) *)
and gen_node r (st : nstate) (o : gopts) ~depth : M.node * gopts =
  let e ?(o = o) d = gen_expr r o ~depth:d in
  let body ?(o = o) () = if depth <= 0 then [ gen_text r ] else gen_nodes r st o ~depth:(depth - 1) ~len:3 in
  match (if depth <= 0 then rint r 9 else rint r 30) with
  | 0 | 1 -> (gen_text r, o)
  | 2 | 3 | 4 | 5 -> (M.NPrint (e 2), o)
  | 6 | 7 -> let x = pick r [| "a"; "b"; "q"; "x"; "y"; "n"; "acc" |] in (M.NSet (bs x, e 2), { o with bound = x :: o.bound })
  | 8 -> (M.NPrint (gen_leaf r o), o)
  | 9 | 10 | 11 ->
    let nb = 1 + rint r 3 in
    (M.NIf (List.init nb (fun _ -> (e 2, body ())), (if rbool r then Some (body ()) else None)), o)
  | 12 | 13 | 14 | 15 ->
    let v = pick r [| "v"; "i"; "j"; "x"; "c" |] in
    let k = if rint r 3 = 0 then Some (pick r [| "k"; "i"; "key" |]) else None in
    let seq = match rint r 11 with
      | 0 -> var "xs" | 1 -> var "m" | 2 -> var "s"
      | 8 -> var "ys" | 9 -> var "u"
      | 10 -> M.EFilter (var (pick r [| "m"; "u" |]), bs "keys", [])
      | 3 -> M.ECall (bs "range", [ lit_int (rint r 3); lit_int (rint r 5) ])
      | 4 -> M.EFilter (var (pick r [| "xs"; "m"; "s" |]), bs (pick r [| "sort"; "reverse"; "keys"; "spy"; "slice" |]), [])
      | 5 -> M.EArr (List.init (rint r 4) (fun _ -> e 1))
      | _ -> e 2 in
    let seq = match seq with M.EFilter (b, f, []) when sb f = "slice" -> M.EFilter (b, f, [ lit_int 1 ]) | s -> s in
    let o' = { o with bound = v :: (match k with Some k -> [ k ] | None -> []) @ o.bound; inloop = true } in
    (M.NFor (Option.map bs k, bs v, seq, body ~o:o' (), (if rint r 3 = 0 then Some (body ()) else None)), o)
  | 16 ->
    let ex = gen_expr r { o with in_do = true } ~depth:2 in (M.NDo ex, o)
  | 17 ->
    st.blockno <- st.blockno + 1;
    (M.NBlock (bs (Printf.sprintf "b%s%d" st.tplname st.blockno), body ()), o)
  | 18 | 19 | 20 when st.includable <> [] ->
    let t = pickl r st.includable in
    let name = match rint r 6 with
      | 0 -> M.EBin (M.BConcat, lit_str (String.sub t 0 1), lit_str (String.sub t 1 (String.length t - 1)))
      | 1 -> lit_str "nosuchtemplate"
      | _ -> lit_str t in
    let withs = if rint r 3 = 0 then
        Some (M.EHash (List.map (fun k -> (lit_str k, gen_leaf r { o with allow_calls = false })) (gen_keys r)))
      else None in
    let sandboxed = if st.sandbox_ok then rint r 3 = 0 else rint r 25 = 0 in
    (M.NInclude (name, withs, rint r 4 = 0, rint r 4 = 0, sandboxed), o)
  | 21 when st.libs <> [] ->
    let (lib, ms) = pickl r st.libs in
    let alias = pick r [| "lib"; "mm"; "forms" |] in
    (M.NImport (lit_str lib, bs alias), { o with modules = (alias, ms) :: o.modules })
  | 22 when st.libs <> [] ->
    let (lib, ms) = pickl r st.libs in
    (match ms with
     | [] -> (gen_text r, o)
     | _ ->
       let (m, ar) = pickl r ms in
       let alias = if rbool r then m else "al_" ^ m in
       (M.NFrom (lit_str lib, [ (bs m, bs alias) ]), { o with macros = (alias, ar) :: o.macros }))
  | 23 -> (M.NVerbatim (bs (pick r [| "raw text"; " v "; "h\xc3\xa9"; "" |])), o)
  | 24 -> (M.NApply (bs (pick r [| "upper"; "lower"; "trim"; "e"; "spy"; "length"; "capitalize"; "nosuchfilter" |]), [], body ()), o)
  | 25 -> (M.NSpaceless (body ()), o)
  | 26 | 27 -> (M.NPrint (gen_macro_call r o ~depth:2), o)
  | _ -> (M.NPrint (e 3), o)

(* a macro library: template with macros only *)
let gen_lib r (name : string) : (string * M.node list) * (string * int) list =
  let nm = 1 + rint r 3 in
  let st = { blockno = 0; tplname = name; includable = []; libs = []; sandbox_ok = false } in
  let rec go i acc sigs =
    if i = nm then (List.rev acc, List.rev sigs) else
      let mname = Printf.sprintf "%s_m%d" name i in
      let arity = rint r 3 in
      let params = List.init arity (fun j ->
          let p = [| "p"; "q2"; "r3" |].(j) in
          (bs p, (if rint r 3 = 0 then Some (gen_leaf r { gopts0 with allow_calls = false }) else None))) in
      let o = { gopts0 with macros = sigs; bound = List.map (fun (p, _) -> sb p) params } in
      let body = gen_nodes r st o ~depth:1 ~len:3 in
      go (i + 1) (M.NMacro (bs mname, params, body) :: acc) ((mname, arity) :: sigs) in
  let (nodes, sigs) = go 0 [] [] in
  ((name, nodes), sigs)

(* a template set: libraries, includable partials, a base layout with blocks, a child that may extend it *)
let gen_template_set r ~depth : caseenv * string =
  let policy = if rint r 3 = 0 then
      Some ([ "upper"; "lower"; "length"; "e"; "escape"; "spy"; "join"; "default" ], [ "range"; "spyfn"; "max" ])
    else None in
  let sandbox_ok = policy <> None in
  let (lib1, sig1) = gen_lib r "lib1" in
  let libs = [ ("lib1", sig1) ] in
  let mk name includable =
    let st = { blockno = 0; tplname = name; includable; libs; sandbox_ok } in
    (st, fun d len -> gen_nodes r st gopts0 ~depth:d ~len) in
  let (_, g_p1) = mk "part1" [] in
  let part1 = ("part1", g_p1 (depth - 1) 3) in
  let (_, g_p2) = mk "part2" [ "part1" ] in
  let part2 = ("part2", g_p2 (depth - 1) 3) in
  (* base layout: text and two or three named blocks *)
  let bnames = [ "head"; "main"; "foot" ] in
  let (_, g_base) = mk "base" [ "part1" ] in
  let parent_call = M.NPrint (M.ECall (bs "parent", [])) in
  (* a block of the layout: sometimes with a nested block inside *)
  let base_block bn =
    let inner = if rint r 3 = 0 then [ M.NBlock (bs (bn ^ "_in"), g_base 1 2) ] else [] in
    M.NBlock (bs bn, g_base 1 2 @ inner @ (if rint r 4 = 0 then [ parent_call ] else [])) in
  let base_nodes = List.concat_map (fun bn -> [ M.NText (bs ("<" ^ bn ^ ">")); base_block bn ]) bnames @ g_base 1 2 in
  let base = ("base", base_nodes) in
  (* an override of a layout block in a child: parent() before, after or inside, or none *)
  let override gen bn =
    let body = gen 1 2 in
    let body = match rint r 5 with
      | 0 -> parent_call :: body
      | 1 -> body @ [ parent_call ]
      | 2 -> [ M.NIf ([ (var "t", [ parent_call ]) ], Some body) ]
      | _ -> body in
    M.NBlock (bs bn, body) in
  (* mid: a child of base that some main templates extend in turn (chains of three) *)
  let (_, g_mid) = mk "mid" [ "part1" ] in
  let mid_nodes =
    M.NExtends (lit_str "base")
    :: List.concat_map (fun bn -> if rbool r then [ override g_mid bn ] else []) (bnames @ [ "head_in"; "main_in" ]) in
  let mid = ("mid", mid_nodes) in
  (* main: either a plain template or a child of base / mid *)
  let (_, g_main) = mk "main" [ "part1"; "part2" ] in
  let main_nodes =
    if rint r 3 = 0 then
      M.NExtends (match rint r 10 with
          | 0 -> lit_str "nosuchbase"
          | 1 | 2 | 3 | 4 -> lit_str "mid"
          | 5 -> M.ECond (var "t", lit_str "mid", lit_str "base")
          | _ -> lit_str "base")
      :: List.concat_map (fun bn -> if rbool r then [ override g_main bn ] else []) (bnames @ [ "foot_in" ])
      @ [ gen_text r ]
    else
      (* local macros first, then the body that may call them *)
      let nloc = rint r 3 in
      let locals = List.init nloc (fun i ->
          let arity = rint r 3 in
          let params = List.init arity (fun j -> (bs [| "p"; "q2"; "r3" |].(j), (if rint r 3 = 0 then Some (lit_int (rint r 9)) else None))) in
          let st = { blockno = 0; tplname = "mainm"; includable = []; libs = []; sandbox_ok = false } in
          let body = gen_nodes r st { gopts0 with bound = List.map (fun (p, _) -> sb p) params } ~depth:1 ~len:3 in
          (M.NMacro (bs (Printf.sprintf "loc%d" i), params, body), (Printf.sprintf "loc%d" i, arity))) in
      let st = { blockno = 0; tplname = "main"; includable = [ "part1"; "part2" ]; libs; sandbox_ok } in
      List.map fst locals @ gen_nodes r st { gopts0 with macros = List.map snd locals } ~depth ~len:5 in
  ({ tpls = [ lib1; part1; part2; base; mid; ("main", main_nodes) ]; custom = std_custom; policy }, "main")
