(* C03 case generation: templates and contexts with maps, hash literals, map-consuming filters and
   date formats, each with the prediction of the extracted model (Model/Determ.v, Model/DateFmt.v).

   Streams
     gen / fixed            the model's single predicted output (evaluated under three oracle codes, which must agree;
                            should they differ -- only possible when a repair is undone and a flag of the model flips --
                            the case carries the set of alternatives instead), or unmodelled (oracle only)
     regress:<class>        the inputs of the classes that were found and repaired (hash-duplicate-key 0b86a90,
                            key-string-collision 4c440c3, toplevel-address f21c703, merge-filter-key-collision 41b5d94), now with the model's
                            single prediction
     oracle-only            constructs outside the modelled fragment (fmt printing of maps, json_encode, dump, cycle,
                            in, include with a map, imported macros, date filter, struct-keyed maps): repetition oracle only
     known:<class>          nested-pointer (address text cannot be predicted: outputs are compared after masking
                            hexadecimal numbers, and against the model's output with the address masked)
     date-exhaustive / date-random / date-escapes / date-filter   format strings with the model's conversion
   Every random choice comes from the one rng. *)
open Util
open Model

let b = bytes_of_string
let z_of_int i = if i = 0 then Z0 else if i > 0 then Zpos (pos_of_int i) else Zneg (pos_of_int (-i))
let int_of_z = function Z0 -> 0 | Zpos p -> int_of_pos p | Zneg p -> - (int_of_pos p)
let s_of = string_of_bytes

(* ---------------------------------------------------------------- values as JSON *)
let ltag_s = function LAny -> "any" | LStrings -> "strings" | LInts -> "ints" | LArray -> "array"
let is_vstr = function VStr _ -> true | _ -> false
let mtag_s tag kvs =
  match tag with
  | MAny -> if List.for_all (fun (k, _) -> is_vstr k) kvs then "any" else "iface"
  | MStrStr -> "strstr" | MIntStr -> "intstr" | MStrInt -> "strint"

let rec value_json (v : value) : json =
  match v with
  | VNull -> Ob [ "t", JS "null" ]
  | VBool x -> Ob [ "t", JS "bool"; "b", JB x ]
  | VInt z -> Ob [ "t", JS "int"; "i", JI (int_of_z z) ]
  | VStr s -> Ob [ "t", JS "str"; "s", JS (hexb s) ]
  | VList (tag, xs) -> Ob [ "t", JS "list"; "tag", JS (ltag_s tag); "xs", JL (List.map value_json xs) ]
  | VMap (tag, kvs) -> Ob [ "t", JS "map"; "tag", JS (mtag_s tag kvs); "kvs", JL (List.map (fun (k, x) -> JL [ value_json k; value_json x ]) kvs) ]
  | VStruct (ty, fs) -> Ob [ "t", JS "struct"; "ty", JI (int_of_nat ty); "fields", JL (List.map (fun (n, x) -> JL [ JS (hexb n); value_json x ]) fs) ]
  | VPtr None -> Ob [ "t", JS "ptr" ]
  | VPtr (Some x) -> Ob [ "t", JS "ptr"; "v", value_json x ]
  | VOpaque id -> Ob [ "t", JS "func"; "id", JI (int_of_nat id) ]
  | VMacro _ | VModule _ -> Ob [ "t", JS "null" ]

let ctx_json (ctx : (bytes * value) list) = JL (List.map (fun (n, v) -> JL [ JS (hexb n); value_json v ]) ctx)

(* ---------------------------------------------------------------- templates as source text *)
let rec pp_expr (e : expr) : string =
  match e with
  | ELit LNull -> "null"
  | ELit (LBool true) -> "true"
  | ELit (LBool false) -> "false"
  | ELit (LInt z) -> string_of_int (int_of_z z)
  | ELit (LStr s) -> "'" ^ s_of s ^ "'"
  | EVar x -> s_of x
  | EAttr (e, a) -> pp_expr e ^ "." ^ s_of a
  | EItem (e, i) -> pp_expr e ^ "[" ^ pp_expr i ^ "]"
  | EArr es -> "[" ^ String.concat ", " (List.map pp_expr es) ^ "]"
  | EHash kvs -> "{" ^ String.concat ", " (List.map (fun (k, v) -> pp_expr k ^ ": " ^ pp_expr v) kvs) ^ "}"
  | EFilter (e, f, args) -> pp_expr e ^ "|" ^ s_of f ^ (if args = [] then "" else "(" ^ String.concat ", " (List.map pp_expr args) ^ ")")
  | ECall (f, args) -> s_of f ^ "(" ^ String.concat ", " (List.map pp_expr args) ^ ")"
  | _ -> failwith "c03: expression outside the generated fragment"

let rec pp_node (n : node) : string =
  match n with
  | NText s -> s_of s
  | NPrint e -> "{{ " ^ pp_expr e ^ " }}"
  | NSet (x, e) -> "{% set " ^ s_of x ^ " = " ^ pp_expr e ^ " %}"
  | NIf (branches, els) ->
      String.concat "" (List.mapi (fun i (c, body) -> (if i = 0 then "{% if " else "{% elseif ") ^ pp_expr c ^ " %}" ^ pp_nodes body) branches)
      ^ (match els with Some ns -> "{% else %}" ^ pp_nodes ns | None -> "") ^ "{% endif %}"
  | NFor (k, v, seq, body, els) ->
      "{% for " ^ (match k with Some k -> s_of k ^ ", " | None -> "") ^ s_of v ^ " in " ^ pp_expr seq ^ " %}" ^ pp_nodes body
      ^ (match els with Some ns -> "{% else %}" ^ pp_nodes ns | None -> "") ^ "{% endfor %}"
  | _ -> failwith "c03: node outside the generated fragment"
and pp_nodes ns = String.concat "" (List.map pp_node ns)

(* ---------------------------------------------------------------- the model *)
let fuel = nat_of_int 40
let al0 : value -> bytes = fun _ -> b "c000010000"
let oracle (code : int list) = dt_const_oracle (List.map nat_of_int code)

type pred = POut of string | PErr | PUnmodelled
let pred_of = function Ok o -> POut (s_of o) | Err _ -> PErr | OutOfFuel | Unmodelled -> PUnmodelled
let render_now code ctx ns = pred_of (dt_render_now fuel (oracle code) al0 ctx ns)
let render_flag gm mu code ctx ns = pred_of (dt_render_ctx gm mu fuel (oracle code) al0 ctx ns)

let codes3 r = [ []; [ 1; 2; 3; 1; 0; 2 ]; List.init 8 (fun _ -> rint r 7) ]

let pred_fields = function
  | POut o -> [ "exp", JS (hex o) ]
  | PErr -> [ "experr", JS "other" ]
  | PUnmodelled -> [ "unmodelled", JB true ]

let rec max_map_entries (v : value) : int =
  match v with
  | VMap (_, kvs) -> List.fold_left (fun a (_, x) -> max a (max_map_entries x)) (List.length kvs) kvs
  | VList (_, xs) -> List.fold_left (fun a x -> max a (max_map_entries x)) 0 xs
  | VStruct (_, fs) -> List.fold_left (fun a (_, x) -> max a (max_map_entries x)) 0 fs
  | VPtr (Some x) -> max_map_entries x
  | _ -> 0
let rec max_hash_entries_e (e : expr) : int =
  match e with
  | EHash kvs -> List.fold_left (fun a (k, v) -> max a (max (max_hash_entries_e k) (max_hash_entries_e v))) (List.length kvs) kvs
  | EArr es | ECall (_, es) -> List.fold_left (fun a x -> max a (max_hash_entries_e x)) 0 es
  | EFilter (e, _, es) -> List.fold_left (fun a x -> max a (max_hash_entries_e x)) (max_hash_entries_e e) es
  | EAttr (e, _) -> max_hash_entries_e e
  | EItem (e, i) -> max (max_hash_entries_e e) (max_hash_entries_e i)
  | _ -> 0
let rec max_hash_entries_n (n : node) : int =
  match n with
  | NPrint e | NSet (_, e) -> max_hash_entries_e e
  | NFor (_, _, s, body, els) ->
      List.fold_left (fun a x -> max a (max_hash_entries_n x)) (max_hash_entries_e s) (body @ (match els with Some l -> l | None -> []))
  | NIf (brs, els) ->
      List.fold_left (fun a (c, body) -> List.fold_left (fun a x -> max a (max_hash_entries_n x)) (max a (max_hash_entries_e c)) body) 0 brs
      |> fun a -> List.fold_left (fun a x -> max a (max_hash_entries_n x)) a (match els with Some l -> l | None -> [])
  | _ -> 0

let seq = ref 0
let emit_render oc stream ?(tpls = []) ?(extra = []) (src : string) (ctx : (bytes * value) list) (pred : json list -> (string * json) list) maxmap =
  incr seq;
  emit oc (Ob ([ "stream", JS stream; "kind", JS "render"; "id", JI !seq; "tpl", JS (hex src);
                 "tpls", JL (List.map (fun (n, s) -> JL [ JS (hex n); JS (hex s) ]) tpls);
                 "ctx", ctx_json ctx; "maxmap", JI maxmap ] @ pred [] @ extra))

let uniq l = List.sort_uniq compare l

(* all permutation codes for lists of up to n elements (Lehmer digits) *)
let rec all_codes n = if n <= 0 then [ [] ] else List.concat_map (fun c -> List.init n (fun i -> i :: c)) (all_codes (n - 1))

let maxmap_of ctx ns =
  max (List.fold_left (fun a (_, v) -> max a (max_map_entries v)) 0 ctx) (List.fold_left (fun a n -> max a (max_hash_entries_n n)) 0 ns)

let alts_fields ctx ns =
  let outs = uniq (List.filter_map (fun c -> match render_now c ctx ns with POut o -> Some o | _ -> None) (all_codes 4)) in
  [ "alts", JL (List.map (fun o -> JS (hex o)) outs) ]

let emit_model oc stream r ctx ns =
  let preds = List.map (fun c -> render_now c ctx ns) (codes3 r) in
  let agree = match preds with p :: rest -> not (List.exists (fun q -> q <> p) rest) | [] -> true in
  emit_render oc stream (pp_nodes ns) ctx
    (fun _ -> if agree then pred_fields (List.hd preds) else alts_fields ctx ns) (maxmap_of ctx ns)

(* ---------------------------------------------------------------- random contexts *)
(* text keys; among them numbers written as text and text that starts like a number ("2" / "10" / "1a": an order that
   compares numbers by value and everything else as text is not transitive on these) *)
let skeys = [| "a"; "b"; "c"; "d"; "aa"; "B"; "10"; "9"; "1"; "z"; "k1"; "k2"; "Zed"; "ab"; "2"; "1a"; "10x"; "007"; "1.5"; "-3"; "2b" |]
let is_int_text k = match int_of_string_opt k with Some i -> string_of_int i = k | None -> false
let ikeys = [| 1; 2; 9; 10; 100; -1; 0; 33; 7; 21 |]
let svals = [| "x"; "y"; "zz"; "Q"; "10"; "9"; "val"; "" |]

let distinct r n pool = (* up to n distinct elements of pool, in random order *)
  let a = Array.copy pool in
  let len = Array.length a in
  for i = len - 1 downto 1 do let j = rint r (i + 1) in let t = a.(i) in a.(i) <- a.(j); a.(j) <- t done;
  Array.to_list (Array.sub a 0 (min n len))

let gen_scalar r =
  match rint r 6 with
  | 0 | 1 -> VInt (z_of_int (rrange r (-3) 40))
  | 2 | 3 -> VStr (b (pick r svals))
  | 4 -> VBool (rbool r)
  | _ -> VNull

let rec gen_map r depth : value =
  let n = match rint r 10 with 0 -> 0 | 1 -> 1 | 2 -> 2 | 3 | 4 | 5 -> 3 | 6 | 7 -> 4 | 8 -> 5 | _ -> 7 in
  match rint r 8 with
  | 0 | 1 | 2 | 3 ->
      let ks = distinct r n skeys in
      VMap (MAny, List.map (fun k -> (VStr (b k), gen_any_value r depth)) ks)
  | 4 -> VMap (MStrStr, List.map (fun k -> (VStr (b k), VStr (b (pick r svals)))) (distinct r n skeys))
  | 5 -> VMap (MIntStr, List.map (fun k -> (VInt (z_of_int k), VStr (b (pick r svals)))) (distinct r n ikeys))
  | 6 ->
      (* map[interface{}]interface{}: int and string keys together, string forms pairwise different, now and then large *)
      let n = if rint r 3 = 0 then 8 + rint r 5 else n in
      let ks = distinct r n [| "a"; "b"; "c"; "d"; "aa"; "B"; "z"; "k1"; "k2"; "Zed"; "ab"; "10"; "9"; "1"; "100"; "33"; "7"; "21"; "2"; "0" |] in
      VMap (MAny, List.map (fun k ->
        ((if is_int_text k && rbool r then VInt (z_of_int (int_of_string k)) else VStr (b k)), gen_scalar r)) ks)
      |> (fun m -> match m with VMap (_, kvs) when List.for_all (fun (k, _) -> is_vstr k) kvs && kvs <> [] ->
                     VMap (MAny, (VInt (z_of_int 5), VStr (b "five")) :: kvs) | m -> m)
  | _ -> VMap (MStrInt, List.map (fun k -> (VStr (b k), VInt (z_of_int (rrange r 0 50)))) (distinct r n skeys))
and gen_any_value r depth : value =
  if depth <= 0 then gen_scalar r
  else match rint r 10 with
    | 0 | 1 -> gen_map r (depth - 1)
    | 2 -> gen_list r (depth - 1)
    | _ -> gen_scalar r
and gen_list r depth : value =
  let n = rint r 5 in
  match rint r 6 with
  | 0 -> VList (LStrings, List.init n (fun _ -> VStr (b (pick r svals))))
  | 1 -> VList (LInts, List.init n (fun _ -> VInt (z_of_int (pick r ikeys))))
  | 2 -> VList (LAny, List.init n (fun _ -> VInt (z_of_int (pick r ikeys))))
  | _ -> VList (LAny, List.init n (fun _ -> if depth > 0 && rint r 5 = 0 then gen_map r (depth - 1) else gen_scalar r))

let gen_ctx r : (bytes * value) list =
  let vars = [ "m", gen_map r 2; "n", gen_map r 1; "o", gen_map r 1; "l", gen_list r 1;
               "s", VStr (b (pick r svals)); "i", VInt (z_of_int (rrange r 0 9)); "e", VMap (MAny, []); "u", VNull ] in
  (* the context itself is a map: list the variables in a random order too *)
  let a = Array.of_list vars in
  for i = Array.length a - 1 downto 1 do let j = rint r (i + 1) in let t = a.(i) in a.(i) <- a.(j); a.(j) <- t done;
  List.map (fun (n, v) -> (b n, v)) (Array.to_list a)

(* ---------------------------------------------------------------- random templates *)
let lit_s s = ELit (LStr (b s))
let lit_i i = ELit (LInt (z_of_int i))
let var x = EVar (b x)
let filt e f args = EFilter (e, b f, args)

let map_vars = [| "m"; "n"; "o"; "e" |]
let keys_of ctx x = match List.assoc_opt (b x) ctx with Some (VMap (_, kvs)) -> List.map fst kvs | _ -> []
let tag_of ctx x = match List.assoc_opt (b x) ctx with Some (VMap (t, _)) -> Some t | _ -> None

let gen_hash r ctx : expr =
  let n = 1 + rint r 4 in
  let ks = distinct r n skeys in
  EHash (List.map (fun k ->
    ((if rint r 6 = 0 && is_int_text k then lit_i (int_of_string k) else lit_s k),
     (match rint r 5 with 0 -> var "i" | 1 -> var "s" | 2 -> lit_s (pick r svals) | _ -> lit_i (rint r 20)))) ks)

let key_lit (k : value) : expr = match k with VStr s -> ELit (LStr s) | VInt z -> ELit (LInt z) | _ -> ELit LNull

(* a map-valued expression *)
let rec gen_mapexpr r ctx depth : expr =
  let x = pick r map_vars in
  match (if depth <= 0 then rint r 3 else rint r 9) with
  | 0 | 1 -> var x
  | 2 -> gen_hash r ctx
  | 3 ->
      (* merge with a map of the same Go type, or with a hash literal when the map is a map[string]interface{} *)
      let same = List.filter (fun y -> tag_of ctx y = tag_of ctx x) (Array.to_list map_vars) in
      let arg = if tag_of ctx x = Some MAny && rbool r then gen_hash r ctx else var (pickl r same) in
      filt (var x) "merge" [ arg ]
  | 4 -> ECall (b "merge", [ gen_mapexpr r ctx (depth - 1); (if rbool r then gen_hash r ctx else var (pick r map_vars)) ])
  | 5 -> filt (gen_hash r ctx) "merge" [ gen_hash r ctx ]
  | 6 ->
      (* a nested map, when there is one *)
      (match List.filter (fun (k, v) -> match v, k with VMap _, VStr _ -> true | _ -> false)
               (match List.assoc_opt (b x) ctx with Some (VMap (MAny, kvs)) -> kvs | _ -> []) with
       | [] -> var x
       | l -> let (k, _) = pickl r l in
              let ident t = t <> "" && not (t.[0] >= '0' && t.[0] <= '9')
                            && String.for_all (fun ch -> (ch >= 'a' && ch <= 'z') || (ch >= 'A' && ch <= 'Z') || (ch >= '0' && ch <= '9') || ch = '_') t in
              let alpha = (match k with VStr s -> ident (s_of s) | _ -> false) in
              if alpha && rbool r then EAttr (var x, (match k with VStr s -> s | _ -> b "a")) else EItem (var x, key_lit k))
  | 7 -> filt (filt (var x) "merge" [ var x ]) "merge" [ gen_hash r ctx ]
  | _ -> var x

(* a list-valued expression *)
let gen_listexpr r ctx : expr =
  match rint r 8 with
  | 0 -> var "l"
  | 1 | 2 | 3 -> filt (gen_mapexpr r ctx 1) "keys" []
  | 4 -> filt (filt (gen_mapexpr r ctx 1) "keys" []) "reverse" []
  | 5 -> filt (var "l") "sort" []
  | 6 -> filt (var "l") "merge" [ (if rbool r then var (pick r map_vars) else EArr [ lit_i 1; lit_s "q" ]) ]
  | _ -> filt (filt (gen_mapexpr r ctx 1) "keys" []) "sort" []

let gen_print r ctx : expr =
  match rint r 14 with
  | 0 | 1 -> filt (gen_listexpr r ctx) "join" [ lit_s (pick r [| ","; "|"; ""; " - " |]) ]
  | 2 -> filt (gen_mapexpr r ctx 1) "first" []
  | 3 -> filt (gen_mapexpr r ctx 1) "last" []
  | 4 -> filt (gen_mapexpr r ctx 1) "length" []
  | 5 -> filt (gen_listexpr r ctx) "first" []
  | 6 -> filt (gen_listexpr r ctx) "last" []
  | 7 -> filt (gen_mapexpr r ctx 1) "join" [ lit_s "," ]        (* a map through join: fmt, unmodelled, oracle only *)
  | 8 ->
      let x = pick r map_vars in
      (match keys_of ctx x with
       | [] -> EItem (var x, lit_s "a")
       | ks -> EItem (var x, key_lit (pickl r ks)))
  | 9 -> ECall (b "length", [ gen_mapexpr r ctx 1 ])
  | 10 -> filt (filt (gen_mapexpr r ctx 1) "keys" []) "length" []
  | 11 -> filt (gen_listexpr r ctx) "join" []
  | 12 -> EAttr (var (pick r map_vars), b (pick r [| "a"; "b"; "c"; "d"; "aa"; "z" |]))
  | _ -> filt (gen_listexpr r ctx) "length" []

let txt s = NText (b s)
let gen_for r ctx : node =
  let seqe = if rint r 4 = 0 then gen_listexpr r ctx else gen_mapexpr r ctx 2 in
  let body =
    match rint r 6 with
    | 0 -> [ NPrint (var "k"); txt ";" ]
    | 1 | 2 -> [ NPrint (var "k"); txt "="; NPrint (var "v"); txt ";" ]
    | 3 -> [ NPrint (var "v"); txt "," ]
    | 4 -> [ txt "["; NPrint (var "k"); txt ":"; NFor (Some (b "k2"), b "v2", var "v", [ NPrint (var "k2"); txt "="; NPrint (var "v2"); txt "," ], Some [ txt "-" ]); txt "]" ]
    | _ -> [ NIf ([ (var "v", [ NPrint (var "k") ]) ], Some [ txt "0" ]); txt ";" ] in
  let keyed = rint r 5 <> 0 in
  let body = if keyed then body else List.filter (fun n -> n <> NPrint (var "k")) body in
  NFor ((if keyed then Some (b "k") else None), b "v", seqe, body, (if rint r 3 = 0 then Some [ txt "EMPTY" ] else None))

let gen_nodes r ctx : node list =
  let n = 1 + rint r 4 in
  List.concat (List.init n (fun i ->
    match rint r 8 with
    | 0 | 1 | 2 -> [ gen_for r ctx; txt "/" ]
    | 3 | 4 -> [ NPrint (gen_print r ctx); txt "/" ]
    | 5 -> [ NSet (b "h", gen_mapexpr r ctx 2);
             NFor (Some (b "k"), b "v", var "h", [ NPrint (var "k"); txt "=" ; NPrint (var "v"); txt ";" ], None); txt "/" ]
    | 6 -> [ NIf ([ (gen_mapexpr r ctx 1, [ txt "T"; NPrint (gen_print r ctx) ]); (var "l", [ txt "L" ]) ], Some [ txt "F" ]); txt "/" ]
    | _ -> [ NSet (b "h", gen_hash r ctx); NPrint (filt (filt (var "h") "keys" []) "join" [ lit_s "," ]); txt "/" ]))

(* ---------------------------------------------------------------- fixed cases *)
let m3 = VMap (MAny, [ (VStr (b "b"), VInt (z_of_int 1)); (VStr (b "a"), VInt (z_of_int 2)); (VStr (b "c"), VInt (z_of_int 3)) ])
let m_ints = VMap (MIntStr, [ (VInt (z_of_int 10), VStr (b "ten")); (VInt (z_of_int 9), VStr (b "nine")); (VInt (z_of_int 1), VStr (b "one")); (VInt (z_of_int 100), VStr (b "hundred")) ])
let m_nested = VMap (MAny, [ (VStr (b "x"), m3); (VStr (b "w"), m_ints); (VStr (b "list"), VList (LAny, [ m3; VInt (z_of_int 4) ])); (VStr (b "q"), VStr (b "Q")) ])
let m_strstr = VMap (MStrStr, [ (VStr (b "k2"), VStr (b "two")); (VStr (b "k1"), VStr (b "one")); (VStr (b "k3"), VStr (b "three")); (VStr (b "10"), VStr (b "t")); (VStr (b "9"), VStr (b "n")) ])
let fixed_ctx = [ (b "m", m3); (b "n", m_ints); (b "o", m_nested); (b "p", m_strstr); (b "e", VMap (MAny, [])); (b "l", VList (LAny, [ VInt (z_of_int 3); VStr (b "1"); VInt (z_of_int 2) ])) ]

let kv_loop x = NFor (Some (b "k"), b "v", x, [ NPrint (var "k"); txt "="; NPrint (var "v"); txt ";" ], Some [ txt "EMPTY" ])
let fixed_templates : node list list = [
  [ kv_loop (var "m") ]; [ kv_loop (var "n") ]; [ kv_loop (var "p") ]; [ kv_loop (var "e") ];
  [ kv_loop (EAttr (var "o", b "x")) ]; [ kv_loop (EAttr (var "o", b "w")) ];
  [ NFor (Some (b "k"), b "v", var "o", [ NPrint (var "k"); txt ";" ], None) ];
  [ NPrint (filt (var "m") "first" []) ]; [ NPrint (filt (var "n") "first" []) ]; [ NPrint (filt (var "p") "first" []) ];
  [ NPrint (filt (var "m") "last" []) ];
  [ NPrint (filt (filt (var "m") "keys" []) "join" [ lit_s "," ]) ]; [ NPrint (filt (filt (var "n") "keys" []) "join" [ lit_s "," ]) ];
  [ NPrint (filt (filt (var "p") "keys" []) "join" [ lit_s "," ]) ]; [ NPrint (filt (filt (var "o") "keys" []) "join" [ lit_s "," ]) ];
  [ NPrint (filt (var "m") "length" []) ]; [ NPrint (filt (var "n") "length" []) ]; [ NPrint (ECall (b "length", [ var "o" ])) ];
  [ NPrint (filt (var "m") "sort" []) ]; [ NPrint (filt (var "m") "reverse" []) ];
  [ NPrint (filt (var "m") "join" [ lit_s "," ]) ];
  [ kv_loop (filt (var "m") "merge" [ EHash [ (lit_s "z", lit_i 7); (lit_s "a", lit_i 8); (lit_s "d", lit_i 9) ] ]) ];
  [ kv_loop (filt (var "n") "merge" [ var "n" ]) ];
  [ kv_loop (filt (var "p") "merge" [ var "p" ]) ];
  [ kv_loop (ECall (b "merge", [ var "m"; EHash [ (lit_s "z", lit_i 7); (lit_s "a", lit_i 8) ] ])) ];
  [ kv_loop (ECall (b "merge", [ var "n"; var "m" ])) ];
  [ kv_loop (ECall (b "merge", [ var "p"; var "n"; var "m" ])) ];
  [ kv_loop (EHash [ (lit_s "b", lit_i 1); (lit_s "a", lit_i 2); (lit_s "c", lit_i 3); (lit_i 10, lit_i 4); (lit_i 9, lit_i 5) ]) ];
  [ NPrint (filt (filt (var "l") "merge" [ var "m" ]) "join" [ lit_s "," ]) ];       (* a map argument of merge on a list is ignored *)
  [ NPrint (filt (filt (var "l") "sort" []) "join" [ lit_s "," ]) ];
  [ NSet (b "h", EHash [ (lit_s "q", var "m"); (lit_s "p", var "n") ]); NFor (Some (b "k"), b "v", var "h", [ NPrint (var "k"); txt ":"; kv_loop (var "v"); txt "/" ], None) ];
  [ NPrint (EItem (var "n", lit_i 10)); NPrint (EItem (var "m", lit_s "a")); NPrint (EAttr (var "m", b "c")) ];
]

(* ---------------------------------------------------------------- known classes *)
let iface_map = VMap (MAny, [ (VInt (z_of_int 1), VStr (b "int")); (VStr (b "1"), VStr (b "str")); (VInt (z_of_int 2), VStr (b "two")); (VStr (b "a"), VStr (b "A")) ])
let iface_map2 = VMap (MAny, [ (VStr (b "10"), VInt (z_of_int 1)); (VInt (z_of_int 10), VInt (z_of_int 2)); (VInt (z_of_int 9), VInt (z_of_int 3)); (VStr (b "9"), VInt (z_of_int 4)) ])

let emit_alts oc stream ctx ns =
  (* the outputs of the faithful model over all oracle codes of length 4 with digits below 4 *)
  emit_render oc stream (pp_nodes ns) ctx (fun _ -> alts_fields ctx ns) (maxmap_of ctx ns)

let dup_templates : node list list = [
  [ NPrint (filt (EHash [ (lit_s "a", lit_i 1); (lit_s "a", lit_i 2) ]) "first" []) ];
  [ NSet (b "h", EHash [ (lit_s "a", lit_i 1); (lit_s "b", lit_i 5); (lit_s "a", lit_i 2) ]); NPrint (EAttr (var "h", b "a")); txt "/"; NPrint (filt (var "h") "length" []) ];
  [ kv_loop (EHash [ (lit_s "x", lit_s "first"); (lit_s "y", lit_i 0); (lit_s "x", lit_s "second"); (lit_s "x", lit_s "third") ]) ];
  [ kv_loop (EHash [ (lit_s "1", lit_s "string key"); (lit_i 1, lit_s "int key") ]) ];                 (* both keys become the string 1 *)
  [ kv_loop (filt (var "m") "merge" [ EHash [ (lit_s "a", lit_i 7); (lit_s "a", lit_i 8) ] ]) ];
  [ kv_loop (EHash [ (var "s", lit_i 1); (lit_s "x", lit_i 2) ]) ];                                     (* a computed key equal to a literal one (s = x) *)
]

let merge_collide_templates : node list list = [
  [ NPrint (filt (filt (var "m") "merge" []) "first" []) ];
  [ kv_loop (filt (var "m") "merge" [ EHash [ (lit_s "zz", lit_i 0) ] ]) ];
  [ kv_loop (filt (var "n") "merge" [ var "m" ]) ];
  [ NPrint (filt (filt (filt (var "m") "merge" [ var "m" ]) "keys" []) "join" [ lit_s "," ]); txt "|"; NPrint (filt (filt (var "m") "merge" [ var "n" ]) "length" []) ];
]

let collide_templates : node list list = [
  [ kv_loop (var "m") ];
  [ NPrint (filt (filt (var "m") "keys" []) "join" [ lit_s "," ]); txt "|"; NPrint (filt (var "m") "first" []) ];
  [ NPrint (filt (ECall (b "merge", [ var "m"; EArr [] ])) "first" []) ];
  [ kv_loop (ECall (b "merge", [ var "m"; EHash [ (lit_s "zz", lit_i 0) ] ])) ];
  [ NFor (None, b "v", var "m", [ NPrint (var "v"); txt "," ], None) ];
]

(* ---------------------------------------------------------------- address classes and oracle-only constructs *)
let vp_int = VPtr (Some (VInt (z_of_int 5)))
let vp_str = VPtr (Some (VStr (b "pointee")))
let st_ptr = VStruct (nat_of_int 1, [ (b "N", VStr (b "name")); (b "P", VPtr (Some (VInt (z_of_int 7)))) ])
let st_plain = VStruct (nat_of_int 2, [ (b "A", VInt (z_of_int 3)); (b "B", VStr (b "bee")) ])

let raw oc stream ?(tpls = []) ?(extra = []) src ctx =
  let mm = List.fold_left (fun a (_, v) -> max a (max_map_entries v)) 0 ctx in
  emit_render oc stream ~tpls ~extra src ctx (fun _ -> []) mm

(* model output with the address text masked the way the runner masks it *)
let mask_pred ctx ns =
  match pred_of (dt_render_now fuel (oracle []) (fun _ -> b "ADDR") ctx ns) with
  | POut o -> [ "expmask", JS (hex o) ]
  | _ -> []

let address_cases oc r =
  let top = "regress:toplevel-address" and nested = "known:nested-pointer" in
  let pr x = [ NPrint (var x) ] in
  (* repaired f21c703: a pointer prints its pointee, funcs and macro values print nothing *)
  emit_model oc top r [ (b "p", vp_int) ] (pr "p");
  emit_model oc top r [ (b "p", vp_str) ] (pr "p");
  emit_model oc top r [ (b "p", VPtr (Some (VPtr (Some (VInt (z_of_int 9)))))) ] (pr "p");
  emit_model oc top r [ (b "p", VOpaque (nat_of_int 1)); (b "q", VOpaque (nat_of_int 2)) ] [ txt "a"; NPrint (var "p"); txt "b"; NPrint (var "q") ];
  emit_model oc top r [ (b "l", VList (LAny, [ VInt (z_of_int 1); vp_int; VStr (b "x") ])) ] [ NPrint (filt (var "l") "join" [ lit_s "," ]) ];
  emit_model oc top r [ (b "m", VMap (MAny, [ (VStr (b "b"), vp_int); (VStr (b "a"), VInt (z_of_int 1)); (VStr (b "c"), vp_str) ])) ] [ kv_loop (var "m") ];
  emit_model oc top r [ (b "p", VPtr None) ] [ txt "["; NPrint (var "p"); txt "]" ];
  raw oc top "{% macro f(a) %}x{% endmacro %}{{ f }}" [] ~extra:[ "exp", JS (hex "") ];
  raw oc top "{{ p ~ '' }}" [ (b "p", vp_int) ] ~extra:[ "exp", JS (hex "5") ];
  (* still there: pointers below the top level go through fmt *)
  let nest ctx ns = emit_render oc nested (pp_nodes ns) ctx (fun _ -> mask_pred ctx ns) (maxmap_of ctx ns) in
  nest [ (b "s", st_ptr) ] (pr "s");
  nest [ (b "s", VPtr (Some st_ptr)) ] (pr "s");
  nest [ (b "l", VList (LAny, [ VInt (z_of_int 1); vp_int ])) ] (pr "l");
  nest [ (b "l", VList (LAny, [ VStr (b "f"); VOpaque (nat_of_int 3); VPtr None ])) ] (pr "l");
  raw oc nested "{{ m }}" [ (b "m", VMap (MAny, [ (VStr (b "a"), vp_int); (VStr (b "b"), VInt (z_of_int 2)); (VStr (b "c"), vp_str) ])) ];
  raw oc nested "{{ dump(p) }}" [ (b "p", vp_int) ];
  raw oc nested "{{ m|join(',') }}" [ (b "m", VMap (MAny, [ (VStr (b "a"), vp_int); (VStr (b "b"), VInt (z_of_int 2)); (VStr (b "c"), VInt (z_of_int 2)) ])) ];
  (* pointer-free relatives: must be deterministic, and the model prints them *)
  emit_model oc "fixed" r [ (b "s", st_plain); (b "q", VPtr (Some st_plain)) ] [ NPrint (var "s"); txt "|"; NPrint (var "q") ];
  emit_model oc "fixed" r [ (b "l", VList (LAny, [ VInt (z_of_int 1); VNull; VStr (b "x"); VBool true ])); (b "e", VList (LStrings, [])) ] [ NPrint (var "l"); NPrint (var "e") ];
  raw oc "oracle-only" "{{ p }}|{{ q|json_encode }}" [ (b "p", VPtr None); (b "q", vp_int) ]

let oracle_only_cases oc r =
  let ctxs = [ fixed_ctx; fixed_ctx @ [ (b "i", VInt (z_of_int 2)) ] ] in
  let srcs = [
    "{{ m }}"; "{{ n }}"; "{{ o }}"; "{{ p }}"; "{{ m|json_encode }}"; "{{ o|json_encode }}"; "{{ n|json_encode }}"; "{{ dump(m) }}"; "{{ dump(o) }}"; "{{ dump(n, p) }}";
    "{{ m|join }}"; "{{ o|join('|') }}"; "{{ m|keys|json_encode }}"; "{{ json_encode(m|merge({'q': [1, 2]})) }}";
    "{{ cycle(m|keys, 4) }}{{ cycle(n|keys, 1) }}"; "{{ 'a' in m ? 'y' : 'n' }}{{ 10 in n ? 'y' : 'n' }}{{ 'zz' in p ? 'y' : 'n' }}";
    "{{ 'a' in m|keys ? 'y' : 'n' }}"; "{% if m %}T{% endif %}{% if e %}T{% else %}F{% endif %}";
    "{% for k, v in o %}{{ k }}={{ v }};{% endfor %}"; "{% for k, v in o %}{{ loop.index }}/{{ loop.length }}:{{ k }}{% if not loop.last %},{% endif %}{% endfor %}";
    "{% for k in m|keys %}{{ k }}{{ loop.revindex }}{% endfor %}"; "{% for v in n %}{{ v|upper }} {% endfor %}";
    "{% for k, v in m|merge(p) %}{{ k }};{% endfor %}";
    "{{ m|length }}{{ n|length }}{{ o.x|length }}{{ o.w|first }}{{ o.list|first }}";
    "{% set h = {'k': m, 'j': {'b': 1, 'a': 2, 'c': [3, 4]}} %}{{ h }}{{ h|json_encode }}";
    "{{ {'b': 1, 'a': 2, 'c': 3}|keys|join(',') }}{{ {'b': 1, 'a': 2, 'c': 3}|first }}";
    "{{ max(m|length, 2) }}{{ min([3, 1, 2]) }}"; "{{ m.a + m.b * m.c }}";
    "{{ n|keys|first }}{{ n|keys|last }}{{ n|keys|sort|join(',') }}{{ n|keys|reverse|join(',') }}";
    "{{ range(1, 3)|join(',') }}{{ m|keys|slice(1)|join(',') }}{{ m|default('d') }}";
  ] in
  List.iter (fun ctx -> List.iter (fun s -> raw oc "oracle-only" s ctx) srcs) ctxs;
  (* include with a map-valued with, only, and nested contexts; imported macros iterating a map *)
  let inc = [ ("inc", "[{% for k, v in vars %}{{ k }}={{ v }};{% endfor %}|{{ a }}{{ b }}{{ c }}]") ] in
  List.iter (fun s -> raw oc "oracle-only" ~tpls:inc s fixed_ctx) [
    "{% include 'inc' with {'vars': m, 'a': 1, 'b': 2, 'c': 3} %}";
    "{% include 'inc' with {'c': 'C', 'b': 'B', 'a': 'A', 'vars': n} only %}";
    "{% include 'inc' with {'vars': m|merge({'zz': p}), 'b': m.b, 'a': m.a} only %}";
    "{% for k, v in o.x %}{% include 'inc' with {'vars': {'k': k, 'v': v, 'z': 0}} %}{% endfor %}" ];
  let mac = [ ("macros", "{% macro kv(x) %}{% for k, v in x %}{{ k }}={{ v }},{% endfor %}{% endmacro %}{% macro ks(x, sep) %}{{ x|keys|join(sep) }}{% endmacro %}") ] in
  List.iter (fun s -> raw oc "oracle-only" ~tpls:mac s fixed_ctx) [
    "{% import 'macros' as mm %}{{ mm.kv(m) }}|{{ mm.kv(n) }}|{{ mm.ks(p, '+') }}";
    "{% from 'macros' import kv, ks %}{{ kv(o.x) }}{{ ks(m|merge({'zz': 1}), ',') }}";
    "{% macro here(x) %}{% for k in x|keys %}<{{ k }}>{% endfor %}{% endmacro %}{{ here(m) }}{{ _self.here(n) }}";
    (* several defaulted parameters, some defaults naming other parameters or variables of the caller with the
       names of parameters: whatever the order in which an implementation fills them in, there is one answer *)
    "{% set w = 3 %}{% set h = 4 %}{% macro box(w = 10, h = w, d = h, t = w ~ h ~ d) %}{{ w }}x{{ h }}x{{ d }}:{{ t }}{% endmacro %}{{ box() }}|{{ box(1) }}|{{ box(1, 2) }}|{{ _self.box() }}";
    "{% set a = 'A' %}{% macro m6(a = 'a', b = a, c = b, d = c, e = d, f = e) %}{{ a }}{{ b }}{{ c }}{{ d }}{{ e }}{{ f }}{% endmacro %}{{ m6() }}|{{ m6('x') }}|{{ m6('x', 'y') }}";
    "{% macro pair(k = 'k', v = k ~ '!', z = v ~ k) %}{{ k }}{{ v }}{{ z }}{% endmacro %}{% for i in [1, 2, 3] %}{{ pair() }}{{ pair(i) }}{% endfor %}" ];
  (* blocks and inheritance: named blocks are kept in Go maps *)
  let inh = [ ("base", "{% block c %}C{% endblock %}|{% block a %}A{% endblock %}|{% block b %}B{% endblock %}|{% block d %}D{% for k, v in m %}{{ k }}{% endfor %}{% endblock %}");
              ("mid", "{% extends 'base' %}{% block b %}b2{{ parent() }}{% endblock %}{% block a %}a2{% endblock %}") ] in
  List.iter (fun s -> raw oc "oracle-only" ~tpls:inh s fixed_ctx) [
    "{% extends 'mid' %}{% block d %}d3{{ parent() }}{% endblock %}{% block c %}c3{% endblock %}{% block b %}b3{{ parent() }}{% endblock %}";
    "{% extends 'base' %}{% block a %}{% for k in n|keys %}{{ k }}.{% endfor %}{% endblock %}" ];
  (* maps keyed by structs and by interface values of several kinds, 8 and more entries (the runner builds
     map[struct{A int; B string}]string from type 9, map[interface{}]string with struct, int, string and bool keys from type 10) *)
  let skm n = VMap (MIntStr, List.init n (fun i -> (VInt (z_of_int ((i * 5 + 3) mod 17)), VStr (b (Printf.sprintf "v%d" i))))) in
  List.iter (fun (ty, n) ->
    List.iter (fun src -> raw oc "oracle-only" src [ (b "m", VStruct (nat_of_int ty, [ (b "M", skm n) ])) ])
      [ "{% for k, v in m %}{{ v }};{% endfor %}"; "{{ m|first }}|{{ m|keys|length }}|{% for v in m %}{{ v }}{% endfor %}";
        "{% for k, v in m|merge({'zz': 1}) %}{{ k }}={{ v }};{% endfor %}"; "{% for k, v in merge(m, {'zz': 1}) %}{{ v }},{% endfor %}" ])
    [ (9, 8); (9, 12); (10, 9); (10, 14) ];
  (* values that contain themselves (the runner builds them from type 11: a map of n+1 entries one of which is the map
     itself, and a list holding that map): the placeholder must not depend on where the walk meets the cycle *)
  List.iter (fun n ->
    List.iter (fun src -> raw oc "oracle-only" src [ (b "m", VStruct (nat_of_int 11, [ (b "M", skm n) ])) ])
      [ "{{ m }}"; "{{ m.map }}|{{ m.list }}|{{ m.map|join(',') }}"; "{% for k, v in m.map %}{{ k }}={{ v }};{% endfor %}";
        "{{ dump(m.map) }}|{{ '%v'|format(m.list) }}|{{ m.map|keys|join(',') }}|{{ m.map|length }}" ])
    [ 3; 9 ];
  (* every registered filter and function fed a hash: a literal whose keys overlap as prefixes of one another, and
     a map of the context; the same with arguments that are hashes. Whatever the filter makes of it (many refuse),
     it is one answer. The names come from the registry regenerated from extension.go. *)
  let names l = List.map (fun (k, _) -> string_of_bytes k) l in
  let lit = "{'Mr': 'Herr', 'Mrs': 'Frau', 'M': 'm', 'rs': 'RS', 'Mrs S': 'X', 's': 'Z'}" in
  List.iter (fun f ->
    List.iter (fun src -> raw oc "oracle-only" src fixed_ctx)
      [ Printf.sprintf "{{ 'Dear Mrs Smith, Mr Smith'|%s(%s) }}" f lit; Printf.sprintf "{{ %s|%s }}" lit f; Printf.sprintf "{{ m|%s }}|{{ o|%s }}" f f;
        Printf.sprintf "{{ %s|%s(m) }}" lit f; Printf.sprintf "{{ 'abcabc'|%s(m, n) }}" f; Printf.sprintf "{{ (%s|%s)|json_encode }}" lit f;
        Printf.sprintf "{%% for k, v in %s|%s %%}{{ k }}={{ v }};{%% endfor %%}" lit f ])
    (List.filter (fun f -> f <> "date") (names Model.reg_GetFilters));   (* date of something that is no date is the current time *)
  List.iter (fun f ->
    if f <> "random" && f <> "parent" && f <> "include" && f <> "date" then
      List.iter (fun src -> raw oc "oracle-only" src fixed_ctx)
        [ Printf.sprintf "{{ %s(%s) }}" f lit; Printf.sprintf "{{ %s(m) }}|{{ %s(m, o) }}" f f; Printf.sprintf "{{ %s(%s, m)|json_encode }}" f lit ])
    (names Model.reg_GetFunctions);
  (* pattern matching with the same pattern text under both flag settings, several bodies, in both orders *)
  List.iter (fun body ->
    List.iter (fun (subj, form) ->
      raw oc "oracle-only" (Printf.sprintf "{{ '%s' matches '%s' ? 'y' : 'n' }}" subj form) fixed_ctx)
      (* the other process renders in the opposite order: there the flagged spellings come first *)
      [ ("LEAF", "/" ^ body ^ "/"); ("leaf", "/" ^ body ^ "/"); ("Leaf", body); ("leaf", "/" ^ body ^ "/i"); ("LEAF", "/" ^ body ^ "/i") ])
    [ "^leaf$"; "ea"; "^l.+f$"; "L" ];
  (* a hash whose values read names the same hash assigns: with / set / macro arguments evaluate every value in the
     scope outside the hash *)
  let inc2 = [ ("inc2", "[{{ title }}|{{ heading }}|{{ a }}|{{ b }}|{{ c }}]") ] in
  List.iter (fun s -> raw oc "oracle-only" ~tpls:inc2 s (fixed_ctx @ [ (b "title", VStr (b "hello")); (b "a", VStr (b "A")); (b "b", VStr (b "B")) ])) [
    "{% include 'inc2' with {'title': title|upper, 'heading': title, 'a': b, 'b': a, 'c': a ~ b} %}";
    "{% include 'inc2' with {'heading': title, 'title': title|upper, 'c': a ~ b, 'b': a, 'a': b} only %}";
    "{% for i in [1, 2] %}{% include 'inc2' with {'a': b ~ i, 'b': a ~ i, 'title': heading|default(title), 'heading': title ~ a} %}{% endfor %}";
    "{% set h = {'title': title|upper, 'heading': title, 'a': b, 'b': a} %}{{ h.title }}{{ h.heading }}{{ h.a }}{{ h.b }}";
    "{% macro mk(h) %}{{ h.a }}{{ h.b }}{{ h.t }}{% endmacro %}{{ mk({'a': b, 'b': a, 't': title}) }}{{ _self.mk({'t': a, 'b': title, 'a': b}) }}" ];
  ignore r

(* ---------------------------------------------------------------- date formats *)
let emit_date oc stream (f : string) =
  incr seq;
  emit oc (Ob [ "stream", JS stream; "kind", JS "date"; "id", JI !seq; "fmt", JS (hex f); "exp", JS (hexb (date_conv (b f))) ])

let run ~seed ~tier oc =
  let r = mk_rng seed in
  let thorough = tier = "thorough" in
  (* fixed templates over the fixed context, listed in two entry orders *)
  List.iter (fun ns -> emit_model oc "fixed" r fixed_ctx ns; emit_model oc "fixed" r (List.rev fixed_ctx) ns) fixed_templates;
  (* text keys that are numbers next to text keys that only start like numbers *)
  let mixed ks = VMap (MAny, List.mapi (fun i k -> (VStr (b k), VInt (z_of_int (i + 1)))) ks) in
  List.iter (fun ks ->
      let ctx = [ (b "m", mixed ks); (b "n", m3) ] in
      List.iter (fun ns -> emit_model oc "fixed" r ctx ns; emit_model oc "fixed" r (List.rev ctx) ns) (collide_templates @ merge_collide_templates))
    [ [ "2"; "10"; "1a" ]; [ "9"; "10"; "1b"; "x"; "100" ]; [ "1a"; "2"; "10"; "2b"; "007"; "1.5" ]; [ "-3"; "3"; "-"; "10"; "1e1"; "a" ] ];
  (* generated *)
  let n = if thorough then 12000 else 700 in
  for _ = 1 to n do
    let ctx = gen_ctx r in
    let ns = gen_nodes r ctx in
    emit_model oc "gen" r ctx ns
  done;
  (* the classes that were repaired: now ordinary cases with one predicted output *)
  let dup_ctx = [ (b "m", m3); (b "s", VStr (b "x")) ] in
  List.iter (fun ns -> emit_model oc "regress:hash-duplicate-key" r dup_ctx ns) dup_templates;
  List.iter (fun m -> List.iter (fun ns -> emit_model oc "regress:key-string-collision" r [ (b "m", m) ] ns) collide_templates) [ iface_map; iface_map2 ];
  (* repaired 41b5d94: filterMerge stores the entries under the string form of their keys in sorted key order *)
  List.iter (fun m -> List.iter (fun ns -> emit_model oc "regress:merge-filter-key-collision" r [ (b "m", m); (b "n", m3) ] ns) merge_collide_templates) [ iface_map; iface_map2 ];
  (* an interface-keyed map without colliding key strings *)
  let iface_ok = VMap (MAny, [ (VInt (z_of_int 3), VStr (b "three")); (VStr (b "x"), VStr (b "ex")); (VInt (z_of_int 20), VStr (b "twenty")); (VStr (b "100"), VStr (b "s100")) ]) in
  List.iter (fun ns -> emit_model oc "fixed" r [ (b "m", iface_ok); (b "n", m3) ] ns) (collide_templates @ merge_collide_templates);
  (* large interface-keyed maps *)
  let big n = VMap (MAny, List.init n (fun i -> ((if i mod 2 = 0 then VInt (z_of_int (i * 7 mod 23)) else VStr (b (Printf.sprintf "k%02d" i))), VInt (z_of_int i)))) in
  List.iter (fun n -> List.iter (fun ns -> emit_model oc "fixed" r [ (b "m", big n); (b "n", m3) ] ns) (collide_templates @ merge_collide_templates)) [ 8; 11; 16 ];
  address_cases oc r;
  oracle_only_cases oc r;
  (* date formats: every string over the table's letters and - space backslash / : up to length 3 *)
  let letters = List.map s_of date_letters in
  let alphabet = Array.of_list (letters @ [ "-"; " "; "\\"; "/"; ":" ]) in
  let rec all k prefix = if k = 0 then emit_date oc "date-exhaustive" prefix else Array.iter (fun a -> all (k - 1) (prefix ^ a)) alphabet in
  for k = 0 to 3 do all k "" done;
  let others = [| "N"; "U"; "e"; "T"; "z"; "t"; "L"; "o"; "u"; "v"; "P"; "O"; "c"; "r"; "S"; "w"; "W"; "Z"; "B"; "I"; "1"; "2006"; "Jan"; "Mon"; "\xc3\xa9"; "'"; "\""; "{"; "}"; "%"; "," |] in
  let nrand = if thorough then 20000 else 500 in
  for _ = 1 to nrand do
    let len = 4 + rint r 30 in
    let buf = Buffer.create 40 in
    for _ = 1 to len do
      Buffer.add_string buf (if rint r 4 = 0 then pick r others else pick r alphabet)
    done;
    emit_date oc "date-random" (Buffer.contents buf)
  done;
  (* many backslashes: a conversion that treats the backslash as an escape has many protected characters at once *)
  for _ = 1 to (if thorough then 4000 else 300) do
    let len = 6 + rint r 17 in
    emit_date oc "date-escapes" (String.concat "" (List.init len (fun _ ->
      match rint r 10 with
      | 0 -> pick r alphabet
      | 1 -> pick r [| "T"; "e"; " "; "-"; "0"; "1"; "9"; "10"; "\\\\" |]
      | _ -> "\\" ^ pick r [| "d"; "D"; "a"; "t"; "T"; "Y"; "\\"; "1"; "0"; "m"; "s"; "h"; "o"; "n" |])))
  done;
  (* through the date filter with a fixed time value: the format is passed as a variable *)
  let fixedf = [ "D, d M Y"; "Y-m-d H:i:s"; "d/m/y"; "l jS F Y"; "g:i a"; "h:i A"; "j n y G"; "D"; "M"; "F j, Y"; "Ymd"; "His"; "d-M-Y H:i"; "l"; "aA"; "DMY"; "MDM"; "nnn"; "jjj"; "" ] in
  List.iter (emit_date oc "date-filter") fixedf;
  for _ = 1 to (if thorough then 2000 else 150) do
    let len = 1 + rint r 8 in
    emit_date oc "date-filter" (String.concat "" (List.init len (fun _ -> pick r alphabet)))
  done
