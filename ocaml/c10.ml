(* C10 case generation: template inheritance is block substitution along the extends chain.
   A case is a template set built from a small description language (item / tpl below), a main template and TWO
   contexts: the runner renders the same engine twice. Every case carries, for each of the two renders,
     spec   = inh_render_template  (Spec/InheritSpec.v: the reference, proved equal to the model: C10_inheritance_is_substitution)
     exp    = render_template      (Model/Eval.v: the faithful model)
     oracle = the result of the substitution computed HERE, directly on the description, without any extracted code:
              defs b = bodies of block b in t0..tn (most derived first, wherever the block stands); the output is the
              last template of the chain with every block occurrence replaced by hd (defs b), parent() in the k-th
              definition replaced by the (k+1)-th, nothing from a child's top level.
   Streams:
     c10-grid    chains of 1-3 levels x 2 blocks x {define, define empty, parent(), text+parent()+text, omit} per level
                 and block: exhaustive (25 + 625 + 15 625); text and set outside blocks in children
     c10-place   the blocks of the layout inside if / else, inside for (overrides print the loop variable and
                 loop.index), nested in one another (inner only, outer only, both overridden): 1-2 child levels x 5
                 choices per level and block, exhaustive
     c10-dyn     dynamic parents: extends layout / extends wide ? 'a' : 'b' (bare and in parentheses) / extends
                 'l' ~ suffix, at the leaf, in the middle, at both; the two contexts pick the same or different parents
     c10-deep    random chains of 1-5 levels over 3 blocks: random placement in the layout, definitions that bring new
                 nested blocks, consecutive parent() calls, dynamic names, junk at the top level of children *)
open Util
module M = Model
module G = Evalgen

(* ---------------------------------------------------------------- the description language *)
type item =
  | T of string                          (* text *)
  | V of string                          (* {{ x }} *)
  | LI                                   (* {{ loop.index }} *)
  | P                                    (* {{ parent() }} *)
  | B of string * item list              (* {% block n %} body {% endblock %} *)
  | If of string * item list * item list (* {% if x %} a {% else %} b {% endif %} *)
  | For of string * string * item list   (* {% for x in xs %} body {% endfor %} *)
  | Set of string * string               (* {% set x = 'lit' %} *)
  | D of string                          (* {{ x is defined ? 'd' : 'u' }} *)

type pexpr =
  | PStatic of string
  | PVar of string
  | PTern of string * string * string    (* c ? 'a' : 'b' *)
  | PConcat of string * string           (* 'pre' ~ x *)

type tpl = { name : string; ext : (pexpr * bool * int) option;  (* parent, bare spelling, position among the top-level nodes *)
             items : item list }

type cval = CS of string | CB of bool | CL of string list | CN   (* CN: null, a name that is defined all the same *)

(* ---------------------------------------------------------------- to the model's syntax *)
let bs = G.bs
let parent_call = M.NPrint (M.ECall (bs "parent", []))
let rec node_of (it : item) : M.node =
  match it with
  | T s -> M.NText (bs s)
  | V x -> M.NPrint (G.var x)
  | LI -> M.NPrint (M.EAttr (G.var "loop", bs "index"))
  | P -> parent_call
  | B (n, body) -> M.NBlock (bs n, nodes_of body)
  | If (x, a, b) -> M.NIf ([ (G.var x, nodes_of a) ], (if b = [] then None else Some (nodes_of b)))
  | For (x, xs, body) -> M.NFor (None, bs x, G.var xs, nodes_of body, None)
  | Set (x, s) -> M.NSet (bs x, G.lit_str s)
  | D x -> M.NPrint (M.ECond (M.ETest (G.var x, bs "defined", [], false), G.lit_str "d", G.lit_str "u"))
and nodes_of (l : item list) : M.node list = List.map node_of l

let expr_of (p : pexpr) : M.expr =
  match p with
  | PStatic s -> G.lit_str s
  | PVar x -> G.var x
  | PTern (c, a, b) -> M.ECond (G.var c, G.lit_str a, G.lit_str b)
  | PConcat (pre, x) -> M.EBin (M.BConcat, G.lit_str pre, G.var x)

let rec insert_at k x l = if k <= 0 then x :: l else match l with [] -> [ x ] | y :: r -> y :: insert_at (k - 1) x r

let model_nodes (t : tpl) : M.node list =
  let ns = nodes_of t.items in
  match t.ext with
  | None -> ns
  | Some (p, _, pos) -> insert_at pos (M.NExtends (expr_of p)) ns

(* the source: the printer of evalgen.ml, except for an extends tag in the bare spelling *)
let source (t : tpl) : string =
  let ns = nodes_of t.items in
  match t.ext with
  | None -> G.pp_nodes ns
  | Some (p, bare, pos) ->
    let tag = if bare then "{% extends " ^ G.pp_expr (expr_of p) ^ " %}" else G.pp_node (M.NExtends (expr_of p)) in
    let rec go k l = if k <= 0 then tag ^ G.pp_nodes l else match l with [] -> tag | y :: r -> G.pp_node y ^ go (k - 1) r in
    go pos ns

let value_of (c : cval) : M.value =
  match c with CS s -> G.vstr s | CB b -> M.VBool b | CL l -> G.vlist (List.map G.vstr l) | CN -> M.VNull

(* ---------------------------------------------------------------- the oracle: substitution, computed directly *)
exception Oerr of string

let rec collect (l : item list) : (string * item list) list =
  List.concat_map (fun it ->
    match it with
    | B (n, body) -> (n, body) :: collect body
    | If (_, a, b) -> collect a @ collect b
    | For (_, _, body) -> collect body
    | _ -> []) l

let oracle (tpls : tpl list) (main : string) (ctx : (string * cval) list) : (string, string) result =
  let find n = List.find_opt (fun t -> t.name = n) tpls in
  let str x env = match List.assoc_opt x env with Some (CS s) -> s | _ -> "" in
  let name_of p =
    match p with
    | PStatic s -> s
    | PVar x -> str x ctx
    | PTern (c, a, b) -> (match List.assoc_opt c ctx with Some (CB true) -> a | Some (CS s) when s <> "" && s <> "0" -> a | _ -> b)
    | PConcat (pre, x) -> pre ^ str x ctx in
  try
    (* the chain, most derived first *)
    let rec walk n acc k =
      if k > 40 then raise (Oerr "cycle") else
        match find n with
        | None -> raise (Oerr "not-found")
        | Some t ->
          (match t.ext with
           | None -> List.rev (t :: acc)
           | Some (p, _, _) -> walk (name_of p) (t :: acc) (k + 1)) in
    let chain = walk main [] 0 in
    let base = List.nth chain (List.length chain - 1) in
    let defs b = List.concat_map (fun t -> List.filter_map (fun (n, body) -> if n = b then Some body else None) (collect t.items)) chain in
    let buf = Buffer.create 64 in
    (* one variable table for the whole rendering, as in the engine: an assignment made in a block body or in a loop
       stays visible to everything rendered afterwards *)
    let env = ref ctx in
    let bind x v = env := (x, v) :: List.remove_assoc x !env in
    let rec render (l : item list) (pos : (string * int) option) loopidx : unit =
      List.iter (fun it ->
        match it with
        | T s -> Buffer.add_string buf s
        | V x -> Buffer.add_string buf (str x !env)
        | LI -> Buffer.add_string buf (string_of_int loopidx)
        | Set (x, s) -> bind x (CS s)
        | D x -> Buffer.add_string buf (if List.mem_assoc x !env then "d" else "u")
        | P ->
          (match pos with
           | None -> raise (Oerr "other")
           | Some (b, k) ->
             (match List.nth_opt (defs b) (k + 1) with
              | None -> raise (Oerr "other")
              | Some body -> render body (Some (b, k + 1)) loopidx))
        | B (n, _) ->
          (match defs n with
           | [] -> raise (Oerr "oracle: block without definition")
           | body :: _ -> render body (Some (n, 0)) loopidx)
        | If (x, a, b) ->
          let truth = match List.assoc_opt x !env with Some (CB t) -> t | Some (CS s) -> s <> "" && s <> "0" | Some (CL l) -> l <> [] | Some CN | None -> false in
          render (if truth then a else b) pos loopidx
        | For (x, xs, body) ->
          let l = match List.assoc_opt xs !env with Some (CL l) -> l | _ -> [] in
          List.iteri (fun i s -> bind x (CS s); render body pos (i + 1)) l) l in
    (* the top level of the last template: everything; sets there would be executed, the generators put none *)
    render base.items None 0;
    Ok (Buffer.contents buf)
  with Oerr cls -> Error cls

(* ---------------------------------------------------------------- emission *)
let fuel = 400
let emitted = ref 0
let selfcheck_failures = ref 0

let pred_json (r : M.byte list M.outcome) : json = G.exp_json r
let oracle_json (r : (string, string) result) : json =
  match r with Ok s -> Ob [ "out", JS (hex s) ] | Error c -> Ob [ "err", JS c ]

let same_pred (r : M.byte list M.outcome) (o : (string, string) result) : bool =
  match r, o with
  | M.Ok out, Ok s -> G.sb out = s
  | M.Err c, Error cls -> G.err_class c = cls
  | _ -> false

let rec has_parent (l : item list) = List.exists (fun it -> match it with P -> true | B (_, b) | For (_, _, b) -> has_parent b | If (_, a, b) -> has_parent a || has_parent b | _ -> false) l

let emit_c10 oc ~(stream : string) ?(shape = "") (tpls : tpl list) (main : string)
    (ctx1 : (string * cval) list) (ctx2 : (string * cval) list) : unit =
  match (try Some (List.map (fun t -> (t.name, source t)) tpls) with G.Unprintable _ -> None) with
  | None -> ()
  | Some sources ->
    let mtpls = List.map (fun t -> (t.name, model_nodes t)) tpls in
    let env = { G.tpls = mtpls; G.custom = []; G.policy = None } in
    let menv = G.model_env env in
    let run ctx =
      let vars = List.map (fun (k, v) -> (bs k, value_of v)) ctx in
      let guard f = try f () with Stack_overflow -> (M.Unmodelled, []) in
      let (rm, _) = guard (fun () -> M.render_template (nat_of_int fuel) menv (bs main) vars) in
      let (rs, _) = guard (fun () -> M.inh_render_template (nat_of_int fuel) menv (bs main) vars) in
      let ro = oracle tpls main ctx in
      (rm, rs, ro) in
    let (m1, s1, o1) = run ctx1 and (m2, s2, o2) = run ctx2 in
    let selfcheck = if m1 <> s1 || m2 <> s2 then "model-differs-from-spec"
      else if not (same_pred s1 o1 && same_pred s2 o2) then "spec-differs-from-oracle" else "" in
    if selfcheck <> "" then begin
      incr selfcheck_failures;
      if !selfcheck_failures <= 5 then
        prerr_endline ("c10: " ^ selfcheck ^ " on " ^ String.concat " || " (List.map (fun (n, s) -> n ^ ": " ^ s) sources))
    end;
    let ctx_str ctx = G.value_str (G.vmap (List.map (fun (k, v) -> (k, value_of v)) ctx)) in
    (* the longest list of definitions of one block along the static description, and the number of templates *)
    let overrides =
      let all = List.concat_map (fun t -> List.map fst (collect t.items)) tpls in
      List.fold_left (fun a n -> max a (List.length (List.filter (fun m -> m = n) all))) 0 all in
    incr emitted;
    emit oc (Ob ([ "stream", JS stream; "shape", JS shape;
                   "tpls", JL (List.map (fun (n, s) -> JL [ JS (hex n); JS (hex s) ]) sources);
                   "main", JS main; "kinds", JS (G.set_kinds mtpls);
                   "ctx", JS (ctx_str ctx1); "ctx2", JS (ctx_str ctx2);
                   "custom", JL []; "policy", JS "none";
                   "exp", pred_json m1; "exp2", pred_json m2; "spec", pred_json s1; "spec2", pred_json s2;
                   "oracle", oracle_json o1; "oracle2", oracle_json o2;
                   "levels", JI (List.length tpls); "overrides", JI overrides;
                   "parents", JB (List.exists (fun t -> has_parent t.items) tpls) ]
                 @ (if selfcheck <> "" then [ "selfcheck", JS selfcheck ] else [])))

(* ---------------------------------------------------------------- definitions by choice *)
type choice = Define | Empty | Par | TPT | Omit
let choices = [| Define; Empty; Par; TPT; Omit |]
let choice_name = function Define -> "d" | Empty -> "e" | Par -> "p" | TPT -> "t" | Omit -> "-"

(* the body of the definition of block b at level i; extra is what a plain definition prints besides its label *)
let body_of ?(extra = []) (c : choice) (b : string) (i : int) : item list option =
  let label = b ^ string_of_int i in
  match c with
  | Define -> Some (T label :: extra)
  | Empty -> Some []
  | Par -> Some [ P ]
  | TPT -> Some ([ T (label ^ "(") ] @ extra @ [ P; T (")" ^ label) ])
  | Omit -> None

let tname i = "t" ^ string_of_int i

(* junk at the top level of a child: text, a set that would change what the layout prints, a print *)
let junk i = [ T ("junk" ^ string_of_int i); Set ("v", "CHILD"); V "v" ]

(* a static chain t0 extends t1 ... extends t(l-1); grid.(i).(j) is the choice of level i for block j *)
let static_chain ?(layout = fun blocks -> [ T "<" ] @ List.concat_map (fun b -> b @ [ T "|" ]) blocks @ [ V "v"; T ">" ])
    ?(child_extra = fun _ _ -> []) (bnames : string list) (grid : choice array array) : tpl list =
  let l = Array.length grid in
  List.init l (fun i ->
    let defs = List.mapi (fun j b ->
        let extra = if i = l - 1 then [] else child_extra i b in
        match body_of ~extra grid.(i).(j) b i with Some body -> [ B (b, body) ] | None -> []) bnames in
    if i = l - 1 then { name = tname i; ext = None; items = layout defs }
    else
      let items = (if i mod 2 = 0 then junk i else [ T "x" ]) @ List.concat defs @ [ T ("tail" ^ string_of_int i) ] in
      { name = tname i; ext = Some (PStatic (tname (i + 1)), false, (if i mod 2 = 0 then 1 else 0)); items })

let shape_of (grid : choice array array) : string =
  String.concat "/" (Array.to_list (Array.map (fun row -> String.concat "" (Array.to_list (Array.map choice_name row))) grid))

(* all grids of l levels x nb blocks *)
let iter_grids (l : int) (nb : int) (f : choice array array -> unit) : unit =
  let n = l * nb in
  let total = int_of_float (5. ** float_of_int n) in
  for code = 0 to total - 1 do
    let c = ref code in
    let grid = Array.init l (fun _ -> Array.init nb (fun _ -> let x = choices.(!c mod 5) in c := !c / 5; x)) in
    f grid
  done

let ctx_v s = [ ("v", CS s) ]

let grid_stream oc ~(max_levels : int) =
  for l = 1 to max_levels do
    iter_grids l 2 (fun grid ->
      let tpls = static_chain ~child_extra:(fun i _ -> if i = 0 then [ V "v" ] else []) [ "a"; "b" ] grid in
      emit_c10 oc ~stream:"c10-grid" ~shape:(shape_of grid) tpls (tname 0) (ctx_v "x") (ctx_v "y"))
  done

(* ---------------------------------------------------------------- placements *)
let place_stream oc ~(max_children : int) =
  let placements = [
    (* the two blocks in the two branches of a condition *)
    "if", (fun (a : item list) (b : item list) -> [ T "<"; If ("t", a @ [ T "+" ], [ T "no:" ] @ b); T ">" ]),
          (fun _ _ -> []), [ ("t", CB true); ("v", CS "x") ], [ ("t", CB false); ("v", CS "y") ];
    (* block a once per iteration, the loop variable and loop.index visible in every definition; b after the loop *)
    "for", (fun a b -> [ T "<"; For ("i", "xs", [ T "[" ] @ a @ [ T "]" ]); T "|" ] @ b @ [ T ">" ]),
           (fun _ b -> if b = "a" then [ V "i"; LI ] else [ V "v" ]),
           [ ("xs", CL [ "p"; "q" ]); ("v", CS "x") ], [ ("xs", CL [ "z" ]); ("v", CS "y") ];
    (* b nested in a *)
    "nested", (fun a b ->
        (match a with
         | [ B (n, body) ] -> [ T "<"; B (n, body @ [ T "(:" ] @ b @ [ T ":)" ]); T ">" ]
         | _ -> [ T "<" ] @ a @ b @ [ T ">" ])),
              (fun _ _ -> [ V "v" ]), [ ("v", CS "x") ], [ ("v", CS "y") ];
    (* b nested in a, a inside a loop inside a condition *)
    "deep", (fun a b ->
        (match a with
         | [ B (n, body) ] -> [ If ("t", [ For ("i", "xs", [ B (n, body @ [ T "(:" ] @ b @ [ T ":)" ]); T ";" ]) ], [ T "off" ]) ]
         | _ -> a @ b)),
            (fun _ _ -> [ V "i" ]), [ ("t", CB true); ("xs", CL [ "1"; "2"; "3" ]) ], [ ("t", CB true); ("xs", CL []) ] ] in
  List.iter (fun (pname, layout, extra, ctx1, ctx2) ->
    for children = 1 to max_children do
      iter_grids children 2 (fun cgrid ->
        (* the layout defines both blocks plainly (with text, or with parent() that has nowhere to go: rare) *)
        List.iter (fun basechoice ->
          let grid = Array.append cgrid [| [| basechoice; Define |] |] in
          let tpls = static_chain ~layout:(fun blocks -> match blocks with [ a; b ] -> layout a b | _ -> List.concat blocks)
              ~child_extra:extra [ "a"; "b" ] grid in
          (* the definitions of the layout print variables too *)
          emit_c10 oc ~stream:"c10-place" ~shape:(pname ^ ":" ^ shape_of grid) tpls (tname 0) ctx1 ctx2)
          (if children = 1 then [ Define; TPT ] else [ Define ]))
    done) placements

(* ---------------------------------------------------------------- dynamic parents *)
let dyn_stream oc =
  let la = { name = "la"; ext = None; items = [ T "A<"; B ("a", [ T "a-la" ]); T "|"; B ("b", [ T "b-la"; V "v" ]); T ">" ] } in
  let lb = { name = "lb"; ext = None; items = [ T "B["; B ("b", [ T "b-lb" ]); T "/"; B ("a", [ T "a-lb("; B ("c", [ T "c-lb" ]); T ")" ]); T "]" ] } in
  let exprs = [
    "var", PVar "layout", false; "tern-bare", PTern ("wide", "la", "lb"), true; "tern-paren", PTern ("wide", "la", "lb"), false;
    "concat-paren", PConcat ("l", "suffix"), false; "concat-bare", PConcat ("l", "suffix"), true;
    "tern-swapped", PTern ("wide", "lb", "la"), true ] in
  let ctx_for pick_a = [ ("layout", CS (if pick_a then "la" else "lb")); ("wide", CB pick_a); ("suffix", CS (if pick_a then "a" else "b")); ("v", CS (if pick_a then "x" else "y")) ] in
  let leaf_choices = [ Define; TPT; Par; Empty; Omit ] in
  List.iter (fun (ename, pe, bare) ->
    List.iter (fun ca ->
      List.iter (fun cb ->
        List.iter (fun (p1, p2) ->
          let blocks i = List.concat (List.filter_map (fun x -> x) [
              Option.map (fun body -> [ B ("a", body) ]) (body_of ca "a" i); Option.map (fun body -> [ B ("b", body) ]) (body_of cb "b" i) ]) in
          (* the leaf is dynamic *)
          let leaf = { name = "main"; ext = Some (pe, bare, 0); items = blocks 0 @ [ T "junk" ] } in
          emit_c10 oc ~stream:"c10-dyn" ~shape:(ename ^ ":leaf:" ^ choice_name ca ^ choice_name cb) [ la; lb; leaf ] "main" (ctx_for p1) (ctx_for p2);
          (* the middle is dynamic, the leaf static; the middle overrides c (nested in a of lb only) and b *)
          let mid = { name = "mid"; ext = Some (pe, bare, 1); items = [ T "m"; B ("c", [ T "c-mid("; P; T ")" ]); B ("b", [ T "b-mid("; P; T ")" ]) ] } in
          let leaf2 = { name = "main"; ext = Some (PStatic "mid", false, 0); items = blocks 0 } in
          emit_c10 oc ~stream:"c10-dyn" ~shape:(ename ^ ":mid:" ^ choice_name ca ^ choice_name cb) [ la; lb; mid; leaf2 ] "main" (ctx_for p1) (ctx_for p2);
          (* both dynamic: the leaf picks the middle *)
          let mid2 = { mid with name = "ma" } and mid3 = { name = "mb"; ext = Some (PStatic "lb", false, 0); items = [ B ("a", [ T "a-mb("; P; T ")" ]) ] } in
          let leaf3 = { name = "main"; ext = Some (PTern ("wide", "ma", "mb"), bare, 0); items = blocks 0 } in
          emit_c10 oc ~stream:"c10-dyn" ~shape:(ename ^ ":both:" ^ choice_name ca ^ choice_name cb) [ la; lb; mid2; mid3; leaf3 ] "main" (ctx_for p1) (ctx_for p2))
          [ (true, false); (false, true); (true, true); (false, false) ]) leaf_choices) [ Define; TPT; Omit ]) exprs;
  (* a parent that does not exist in one of the two renders *)
  let leaf = { name = "main"; ext = Some (PVar "layout", false, 0); items = [ B ("a", [ T "A"; P ]) ] } in
  emit_c10 oc ~stream:"c10-dyn" ~shape:"var:missing-second" [ la; lb; leaf ] "main" [ ("layout", CS "la") ] [ ("layout", CS "nosuch") ];
  emit_c10 oc ~stream:"c10-dyn" ~shape:"var:missing-first" [ la; lb; leaf ] "main" [ ("layout", CS "nosuch") ] [ ("layout", CS "lb") ]

(* ---------------------------------------------------------------- random deep chains *)
(* Block names are totally ordered (a < b < c < n1 < n2 ...) and a definition only ever contains occurrences of
   larger names: rendering cannot recurse for ever. *)
let gen_deep r : tpl list * string * (string * cval) list * (string * cval) list =
  let l = wpick r [ (1, 1); (3, 2); (4, 3); (4, 4); (4, 5) ] in
  let bnames = [ "a"; "b"; "c" ] in
  let fresh = ref 0 in
  let nested_names = ref [] in      (* (name, level that brought it), oldest first *)
  let wrap (it : item) : item =
    match rint r 5 with
    | 0 -> If ("t", [ it ], [])
    | 1 -> For ("i", "xs", [ it ])
    | _ -> it in
  (* a definition body for block b at level i; may bring a new nested block that more derived levels override *)
  let rec body ?(last = false) b i ~depth : item list option =
    (* the least derived definition of a name has nowhere to go with parent(): an error, generated rarely *)
    match (if last && rint r 25 > 0 then wpick r [ (6, Define); (1, Empty); (1, Omit) ]
           else wpick r [ (4, Define); (1, Empty); (3, Par); (5, TPT); (3, Omit) ]) with
    | Omit -> None
    | Empty -> Some []
    | Par -> Some [ P ]
    | c ->
      let inner () =
        if depth > 0 && rint r 3 = 0 then begin
          incr fresh;
          let n = Printf.sprintf "n%d" !fresh in
          nested_names := !nested_names @ [ (n, i) ];
          [ T "(:"; wrap (B (n, (match body ~last:true n i ~depth:(depth - 1) with Some x -> x | None -> [ T n ]))); T ":)" ]
        end else [] in
      let label = b ^ string_of_int i in
      (* what a definition reads: v (the overriding block may assign it between two parent() calls) *)
      let pv = match rint r 6 with 0 | 1 -> [ V "v" ] | 2 -> [ D "nv"; D "nosuch" ] | _ -> [] in
      if c = Define then Some ([ T label ] @ pv @ inner ())
      else
        (match rint r 8 with
         | 5 -> Some ([ T (label ^ "("); For ("i", "xs", [ P; T "," ]); T ")" ])     (* parent() once per iteration *)
         | 6 -> Some ([ T (label ^ "("); Set ("v", "A" ^ label); P; T "+"; Set ("v", "B" ^ label); P; T ")" ])   (* v changes between two calls *)
         | 7 -> Some ([ T (label ^ "("); For ("i", "xs", [ Set ("v", "L" ^ label); P ]); Set ("v", "Z" ^ label); P; T ")" ])
         | 0 -> Some ([ T (label ^ "(") ] @ inner () @ [ P; T ")" ])                 (* a nested block, then parent() *)
         | 1 -> Some ([ T (label ^ "(") ; P; T "+"; P; T ")" ] @ pv)                  (* parent() twice *)
         | 2 -> Some ([ T (label ^ "(") ; P ] @ inner () @ [ T "+"; P; T ")" ])       (* parent(), a nested block, parent() again *)
         | _ -> Some ([ T (label ^ "(") ] @ pv @ [ P; T ")" ] @ inner ())) in
  (* the layout first (level l-1), then the children from the one above the layout down to the leaf *)
  let base_blocks = List.map (fun b ->
      let bd = match body ~last:true b (l - 1) ~depth:2 with Some x -> x | None -> [ T (b ^ "-dflt") ] in
      (b, bd)) bnames in
  let place (b, bd) =
    match rint r 5 with
    | 0 -> [ If ("t", [ B (b, bd) ], [ T "else" ]) ]
    | 1 -> [ For ("i", "xs", [ B (b, bd); T "," ]) ]
    | 2 -> [ If ("t", [ T "then" ], [ B (b, bd) ]) ]
    | _ -> [ B (b, bd) ] in
  let layout_items =
    (* sometimes c is nested in a instead of standing on its own *)
    if rint r 3 = 0 then
      (match base_blocks with
       | [ (a, ad); bb; (c, cd) ] -> [ T "<" ] @ place (a, ad @ [ B (c, cd) ]) @ [ T "|" ] @ place bb @ [ V "v"; T ">" ]
       | _ -> [])
    else [ T "<" ] @ List.concat_map (fun x -> place x @ [ T "|" ]) base_blocks @ [ V "v"; T ">" ] in
  let layout = { name = tname (l - 1); ext = None; items = layout_items } in
  let children = List.init (l - 1) (fun k ->
      let i = l - 2 - k in
      (* overridable names: the layout's blocks and the nested blocks brought by levels above, in name order *)
      let names = bnames @ List.filter_map (fun (n, lvl) -> if lvl > i then Some n else None) !nested_names in
      let pairs = List.filter_map (fun b -> match body b i ~depth:1 with Some x -> Some (b, x) | None -> None) names in
      (* sometimes a definition stands inside the definition of a smaller name (possibly inside if / for there) *)
      let rec nest = function
        | (b1, x1) :: (b2, x2) :: rest when rint r 4 = 0 ->
          (b1, insert_at (rint r (List.length x1 + 1)) (wrap (B (b2, x2))) x1) :: nest rest
        | p :: rest -> p :: nest rest
        | [] -> [] in
      let defs = List.map (fun (b, x) -> wrap (B (b, x))) (nest pairs) in
      let pe, bare =
        match rint r 6 with
        | 0 -> PVar ("p" ^ string_of_int i), false
        | 1 -> PTern ("wide", tname (i + 1), tname (i + 1)), rbool r
        | 2 -> PConcat ("t", "s" ^ string_of_int i), rbool r
        | _ -> PStatic (tname (i + 1)), false in
      let top = (if rbool r then [ T "junk" ] else []) @ (if rint r 3 = 0 then [ Set ("v", "CHILD") ] else []) in
      { name = tname i; ext = Some (pe, bare, rint r (1 + List.length top)); items = top @ defs @ (if rbool r then [ T "tail" ] else []) }) in
  let tpls = List.sort (fun a b -> compare a.name b.name) (layout :: children) in
  let names_ctx = List.concat (List.init l (fun i -> [ ("p" ^ string_of_int i, CS (tname (i + 1))); ("s" ^ string_of_int i, CS (string_of_int (i + 1))) ])) in
  let ctx t xs v = [ ("t", CB t); ("xs", CL xs); ("v", CS v); ("wide", CB t); ("nv", CN) ] @ names_ctx in
  let xs1 = pick r [| [ "1" ]; [ "1"; "2" ]; []; [ "p"; "q"; "r" ] |] and xs2 = pick r [| [ "9" ]; []; [ "x"; "y" ] |] in
  (tpls, tname 0, ctx (rint r 4 > 0) xs1 "x", ctx (rbool r) xs2 "y")

let deep_stream r oc n =
  for _ = 1 to n do
    let (tpls, main, c1, c2) = gen_deep r in
    emit_c10 oc ~stream:"c10-deep" ~shape:(string_of_int (List.length tpls)) tpls main c1 c2
  done

(* four and five levels of the two-block grid, sampled *)
let long_grid_stream r oc n =
  for _ = 1 to n do
    let l = 4 + rint r 2 in
    let grid = Array.init l (fun _ -> Array.init 2 (fun _ -> wpick r [ (3, Define); (1, Empty); (4, Par); (5, TPT); (3, Omit) ])) in
    let tpls = static_chain ~child_extra:(fun i _ -> if i = 0 then [ V "v" ] else []) [ "a"; "b" ] grid in
    emit_c10 oc ~stream:"c10-grid" ~shape:(shape_of grid) tpls (tname 0) (ctx_v "x") (ctx_v "y")
  done

let run ~seed ~tier oc =
  let r = mk_rng seed in
  let thorough = tier = "thorough" in
  grid_stream oc ~max_levels:3;
  place_stream oc ~max_children:2;
  dyn_stream oc;
  long_grid_stream r oc (if thorough then 40000 else 1500);
  deep_stream r oc (if thorough then 120000 else 4000);
  if !selfcheck_failures > 0 then
    prerr_endline (Printf.sprintf "c10: %d cases where model, specification and oracle do not agree among themselves" !selfcheck_failures)
