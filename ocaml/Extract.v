(* Extraction of the executable models for the correspondence driver.
   ExtrOcamlBasic only: bool, option, unit, list, prod, sumbool map to OCaml types;
   byte, positive, N, Z, nat stay extracted inductives. No Extract Constant. *)
From Coq Require Import Extraction ExtrOcamlBasic.
From Twig Require Import Base.Bytes Model.Escape.
Extraction Language OCaml.
Extraction "model.ml" Bytes.byte_to_N
  Escape.escape Escape.escape_fallback Escape.unescape Escape.is_special.
