(* Shared, unverified glue of the correspondence driver: PRNG, conversions, JSON lines. *)
open Model

(* property generators register themselves here (module initialisation; dune links every module) *)
let registry : (string, seed:int -> tier:string -> out_channel -> unit) Hashtbl.t = Hashtbl.create 32
let register id f = Hashtbl.replace registry id f

(* ---- splitmix64: every random choice of a run derives from VERIF_SEED ---- *)
type rng = { mutable s : int64 }
let mk_rng (seed : int) = { s = Int64.of_int seed }
let next64 r =
  r.s <- Int64.add r.s 0x9E3779B97F4A7C15L;
  let z = r.s in
  let z = Int64.mul (Int64.logxor z (Int64.shift_right_logical z 30)) 0xBF58476D1CE4E5B9L in
  let z = Int64.mul (Int64.logxor z (Int64.shift_right_logical z 27)) 0x94D049BB133111EBL in
  Int64.logxor z (Int64.shift_right_logical z 31)
let rint r n = if n <= 0 then 0 else Int64.to_int (Int64.unsigned_rem (next64 r) (Int64.of_int n))
let rbool r = rint r 2 = 0
let rrange r lo hi = lo + rint r (hi - lo + 1)
let pick r (a : 'a array) = a.(rint r (Array.length a))
let pickl r (l : 'a list) = List.nth l (rint r (List.length l))
(* weighted choice: list of (weight, value) *)
let wpick r (l : (int * 'a) list) =
  let tot = List.fold_left (fun a (w, _) -> a + w) 0 l in
  let k = ref (rint r tot) in
  let res = ref (snd (List.hd l)) in
  (try List.iter (fun (w, v) -> if !k < w then (res := v; raise Exit) else k := !k - w) l with Exit -> ());
  !res

(* ---- bytes: the extracted byte type has 256 constant constructors, represented as 0..255 ---- *)
let byte_of_int (i : int) : byte = Obj.magic i
let int_of_byte (b : byte) : int = Obj.magic b
let bytes_of_string (s : string) : byte list = List.init (String.length s) (fun i -> byte_of_int (Char.code s.[i]))
let string_of_bytes (l : byte list) : string =
  let b = Buffer.create 64 in List.iter (fun x -> Buffer.add_char b (Char.chr (int_of_byte x))) l; Buffer.contents b

let rec int_of_pos = function XH -> 1 | XO p -> 2 * int_of_pos p | XI p -> 2 * int_of_pos p + 1
let int_of_n = function N0 -> 0 | Npos p -> int_of_pos p
let rec pos_of_int i = if i <= 1 then XH else if i land 1 = 0 then XO (pos_of_int (i lsr 1)) else XI (pos_of_int (i lsr 1))
let rec nat_of_int i = if i <= 0 then O else S (nat_of_int (i - 1))
let rec int_of_nat = function O -> 0 | S n -> 1 + int_of_nat n

(* start-up self check of the Obj.magic conversion against the extracted Byte.to_N *)
let check_bytes () =
  for i = 0 to 255 do
    if int_of_n (byte_to_N (byte_of_int i)) <> i then (prerr_endline "driver: byte representation mismatch"; exit 3)
  done

let hex (s : string) : string =
  let b = Buffer.create (2 * String.length s) in
  String.iter (fun c -> Buffer.add_string b (Printf.sprintf "%02x" (Char.code c))) s; Buffer.contents b
let hexb (l : byte list) = hex (string_of_bytes l)

(* ---- JSON lines (all payload strings are hex or plain ASCII identifiers) ---- *)
type json = JS of string | JI of int | JB of bool | JL of json list | Ob of (string * json) list
let rec json_to b = function
  | JS s -> Buffer.add_char b '"';
      String.iter (fun c -> match c with
        | '"' -> Buffer.add_string b "\\\"" | '\\' -> Buffer.add_string b "\\\\"
        | c when Char.code c < 0x20 || Char.code c > 0x7e -> Buffer.add_string b (Printf.sprintf "\\u%04x" (Char.code c))
        | c -> Buffer.add_char b c) s;
      Buffer.add_char b '"'
  | JI i -> Buffer.add_string b (string_of_int i)
  | JB x -> Buffer.add_string b (if x then "true" else "false")
  | JL l -> Buffer.add_char b '['; List.iteri (fun i x -> if i > 0 then Buffer.add_char b ','; json_to b x) l; Buffer.add_char b ']'
  | Ob l -> Buffer.add_char b '{';
      List.iteri (fun i (k, v) -> if i > 0 then Buffer.add_char b ','; json_to b (JS k); Buffer.add_char b ':'; json_to b v) l;
      Buffer.add_char b '}'
let emit (oc : out_channel) (j : json) =
  let b = Buffer.create 256 in json_to b j; Buffer.add_char b '\n'; output_string oc (Buffer.contents b)

(* random byte strings with a bias towards the interesting bytes *)
let rand_string r ~(special : string) ~(maxlen : int) : string =
  let n = rint r (maxlen + 1) in
  String.init n (fun _ ->
    match rint r 10 with
    | 0 | 1 | 2 | 3 -> special.[rint r (String.length special)]
    | 4 | 5 -> Char.chr (rrange r 0x61 0x7a)
    | 6 -> Char.chr (rrange r 0x80 0xff)
    | 7 -> ' '
    | _ -> Char.chr (rint r 256))
