(* C02 case generation: workloads for one shared engine -- a configured world (loaders of both kinds, several
   search paths, optional ChainLoader, registrations, cache mode), template sets with includes, inheritance,
   macro imports and relative names in several directories, and 8-32 goroutines of 5-30 calls each mixing
   Render / RenderTo / Load / ParseTemplate / RegisterString (the source the name already has). Each call
   carries the result the extracted interleaving model (Model.sc_run on a complete serial schedule) predicts;
   for one workload in four the model is also run on a random interleaving and must give the same results.
   Unverified glue; every random choice comes from the one rng. *)
open Util
module M = Model

let bs = bytes_of_string
let sb = string_of_bytes
let hx s = JS (hex s)

let type_fields = [| [ "Name"; "Title" ]; [ "Id"; "Name"; "Kind" ]; [ "A"; "B"; "C"; "D" ] |]

(* ---- printing the model's template trees in Twig syntax ---- *)
let pr_flat = function
  | M.ScFText t -> sb t
  | M.ScFVar v -> "{{ " ^ sb v ^ " }}"
  | M.ScFAttr (v, a) -> "{{ " ^ sb v ^ "." ^ sb a ^ " }}"
let pr_flats fs = String.concat "" (List.map pr_flat fs)
let pr_tpl (t : M.sc_tpl) =
  let k = ref 0 in
  let item = function
    | M.ScItFlat f -> pr_flat f
    | M.ScItInclude n -> "{% include '" ^ sb n ^ "' %}"
    | M.ScItBlock (b, body) -> "{% block " ^ sb b ^ " %}" ^ pr_flats body ^ "{% endblock %}"
    | M.ScItMacro (from, n, m, arg) ->
        incr k;
        if from then "{% from '" ^ sb n ^ "' import " ^ sb m ^ " %}{{ " ^ sb m ^ "(" ^ sb arg ^ ") }}"
        else (let q = Printf.sprintf "mq%d" !k in
              "{% import '" ^ sb n ^ "' as " ^ q ^ " %}{{ " ^ q ^ "." ^ sb m ^ "(" ^ sb arg ^ ") }}") in
  (match t.M.tp_extends with Some p -> "{% extends '" ^ sb p ^ "' %}" | None -> "")
  ^ String.concat "" (List.map (fun (m, body) -> "{% macro " ^ sb m ^ "(p) %}" ^ pr_flats body ^ "{% endmacro %}") t.M.tp_macros)
  ^ String.concat "" (List.map item t.M.tp_items)
let pr_src = function M.ScSrcBad -> "a{% if %}b" | M.ScSrcTpl t -> pr_tpl t

(* ---- names ---- *)
let join segs = String.concat "/" segs
(* a reference to the template with canonical key [key] written in a template that lives in directory [from] *)
let mkref r ~rel (from : string list) (key : string) =
  if not rel then key
  else match from with
    | [] -> "./" ^ key
    | _ ->
        let kd = match List.rev (String.split_on_char '/' key) with _ :: d -> List.rev d | [] -> [] in
        if kd = from && rbool r then "./" ^ List.hd (List.rev (String.split_on_char '/' key))
        else String.concat "" (List.map (fun _ -> "../") from) ^ key

type tdef = { key : string; dir : string list; src : M.sc_src; kind : string }

let words = [| "alpha"; "beta"; "gamma"; "delta"; "eps"; "zeta"; "eta"; "theta"; "iota"; "kappa" |]
let text r = " " ^ pick r words ^ (if rbool r then "." else ":") ^ " "

(* the model's prediction for a workload, and its JSON *)
(* a later phase: (rewrites, the world after them, the goroutines of the phase); a rewrite names loader, search path,
   key and the new source; its modification time is 10 * (phase number) *)
type phase = { rewrites : (int * int * string * M.sc_src option) list; world : M.sc_world; pthreads : M.sc_call list list; pause_ms : int }

let finish ?(phases = []) r ~id ~tier ~debug ~has_rel (w : M.sc_world) (threads : M.sc_call list list) =
  let nthreads = List.length threads in
  let loaders = w.M.w_loaders in
  let fuel = nat_of_int 12 in
  let st0 = M.sc_init fuel w threads in
  let run_serial w st0 nth =
    let order = List.init nth nat_of_int in
    let rec serial k =
      let st = M.sc_run w (M.sc_serial_schedule order (nat_of_int k)) st0 in
      if M.sc_complete st then st else if k > 200000 then (prerr_endline "c02: serial run does not complete"; exit 3) else serial (k * 4) in
    let st = serial 400 in
    (st, List.map (function Some l -> l | None -> (prerr_endline "c02: incomplete thread"; exit 3)) (M.sc_results st)) in
  let (st, results) = run_serial w st0 nthreads in
  (* later phases: each starts from the engine as the serial run of the phase before left it (by C02_phase_end_ok
     every schedule leaves a good start, and by C02_phase_equals_serial the results do not depend on which) *)
  let phase_results =
    let cur = ref st in
    List.map (fun ph ->
      let s0 = M.sc_phase_state fuel ph.world (!cur).M.st_sh ph.pthreads in
      let (st', rs) = run_serial ph.world s0 (List.length ph.pthreads) in
      cur := st'; rs) phases in
  let sched_dep = ref false in
  (* a random interleaving must agree (executable content of C02_any_schedule_equals_serial) *)
  if id mod 4 = 0 then begin
    let cur = ref st0 and steps = ref 0 in
    while not (M.sc_complete !cur) do
      cur := M.sc_step w !cur (nat_of_int (rint r nthreads)); incr steps;
      if !steps > 50_000_000 then (prerr_endline "c02: random run does not complete"; exit 3)
    done;
    (* cannot happen while C02_any_schedule_equals_serial compiles; it does when the generated tables put the model
       on the pinned variant (relative names from an engine-wide cell). The case is still emitted: the runner looks
       for the failing input on the real engine *)
    if M.sc_results !cur <> M.sc_results st then (sched_dep := true; prerr_endline "c02: note: model results depend on the schedule")
  end;
  (* ---- emit ---- *)
  let jvars vs = JL (List.map (fun (k, v) -> match v with
      | M.ScVStr s -> Ob [ "k", hx (sb k); "s", hx (sb s) ]
      | M.ScVObj (ty, fs) -> Ob [ "k", hx (sb k); "ty", JI (int_of_nat ty); "f", JL (List.map (fun f -> hx (sb f)) fs) ]) vs) in
  let jexp = function
    | M.ScOOk b -> [ "c", JS "ok"; "o", hx (sb b) ]
    | M.ScOErr M.ScENotFound -> [ "c", JS "notfound"; "o", JS "" ]
    | M.ScOErr M.ScEOther -> [ "c", JS "other"; "o", JS "" ]
    | M.ScOFuel -> [ "c", JS "fuel"; "o", JS "" ] in
  let jcall c e = Ob ((match c with
      | M.ScCRender (to_, n, vs) -> [ "op", JS (if to_ then "renderto" else "render"); "n", hx (sb n); "vars", jvars vs ]
      | M.ScCLoad n -> [ "op", JS "load"; "n", hx (sb n) ]
      | M.ScCParse (s, vs) -> [ "op", JS "parse"; "s", hx (pr_src s); "vars", jvars vs ]
      | M.ScCRegister (n, s) -> [ "op", JS "register"; "n", hx (sb n); "s", hx (pr_src s) ]) @ jexp e) in
  let ncalls = List.fold_left (fun a l -> a + List.length l) 0 (threads @ List.concat_map (fun ph -> ph.pthreads) phases) in
  Ob [ "k", JS "wl"; "id", JI id;
       "cache", JB w.M.w_cache; "auto", JB w.M.w_auto; "debug", JB debug; "chain", JB w.M.w_chain;
       "loaders", JL (List.map (fun (l : M.sc_loader) -> Ob [ "fs", JB l.M.ld_fs;
            "dirs", JL (List.map (fun d -> JL (List.map (fun (k, f) -> Ob [ "n", hx (sb k); "s", hx (pr_src f.M.fl_src) ]) d)) l.M.ld_dirs) ]) loaders);
       "reg", JL (List.map (fun (n, s) -> Ob [ "n", hx (sb n); "s", hx (pr_src s) ]) w.M.w_reg);
       "regt", JL (List.map (fun (n, s) -> Ob [ "n", hx (sb n); "s", hx (pr_src s) ]) w.M.w_regt);
       "threads", JL (List.map2 (fun cs es -> JL (List.map2 jcall cs es)) threads results);
       "phases", JL (List.mapi (fun k (ph, rs) ->
            Ob [ "rewrites", JL (List.map (fun (l, d, n, src) ->
                     match src with
                     | Some src -> Ob [ "l", JI l; "d", JI d; "n", hx n; "s", hx (pr_src src) ]
                     | None -> Ob [ "l", JI l; "d", JI d; "n", hx n; "del", JB true ]) ph.rewrites);
                 "mtime", JI (10 * (k + 1)); "pause_ms", JI ph.pause_ms;
                 "threads", JL (List.map2 (fun cs es -> JL (List.map2 jcall cs es)) ph.pthreads rs) ]) (List.combine phases phase_results));
       "ncalls", JI ncalls; "nontrivial", JB (has_rel && nthreads >= 2); "model_schedule_dependent", JB !sched_dep;
       "reps", JI (if tier = "thorough" then 6 else 3) ]

(* the world after rewriting files: (loader, search path, key, new source) with modification time mt; None = the
   file is removed *)
let rewrite_world (w : M.sc_world) (rws : (int * int * string * M.sc_src option) list) (mt : int) : M.sc_world =
  let z = if mt = 0 then M.Z0 else M.Zpos (pos_of_int mt) in
  { w with M.w_loaders = List.mapi (fun li (l : M.sc_loader) ->
      { l with M.ld_dirs = List.mapi (fun di dir ->
          List.filter_map (fun (k, f) ->
            match List.find_opt (fun (l', d', n', _) -> l' = li && d' = di && n' = sb k) rws with
            | Some (_, _, _, Some src) -> Some (k, { M.fl_src = src; fl_mtime = z })
            | Some (_, _, _, None) -> None
            | None -> Some (k, f)) dir) l.M.ld_dirs }) w.M.w_loaders }

let gen_workload r ~id ~tier =
  let ctr = ref 0 in
  let fresh p = incr ctr; Printf.sprintf "%s%d" p !ctr in
  let alldirs = [| []; [ "a" ]; [ "c" ]; [ "shared" ]; [ "lib" ]; [ "d"; "e" ] |] in
  let dirs = Array.of_list ([] :: List.filter (fun _ -> rint r 3 > 0) (List.tl (Array.to_list alldirs))) in
  let dirs = if Array.length dirs < 3 then [| []; [ "a" ]; [ "c" ] |] else dirs in
  let nl = 1 + rint r 3 in
  let lfs = Array.init nl (fun _ -> rint r 3 > 0) in
  let all_fs = Array.for_all (fun x -> x) lfs in
  let strip = all_fs && rbool r in
  let rel_bias = 1 + rint r 3 in                    (* how often references are written relative *)
  let usename key = if strip && rbool r && Filename.check_suffix key ".twig" then Filename.chop_suffix key ".twig" else key in
  let defs = ref [] in
  let add kind dir src =
    let key = join (dir @ [ fresh "t" ^ ".twig" ]) in
    defs := { key; dir; src; kind } :: !defs; key in
  let of_kind k = List.filter (fun d -> d.kind = k) !defs in
  let pickd l = List.nth l (rint r (List.length l)) in
  let flat_leaf () =
    match rint r 7 with
    | 0 | 1 -> M.ScFText (bs (text r))
    | 2 -> M.ScFVar (bs "x")
    | 3 -> M.ScFVar (bs "mk")
    | 4 -> M.ScFAttr (bs "u", bs (pick r [| "Name"; "Name"; "Title" |]))
    | 5 -> M.ScFAttr (bs "v", bs (pick r [| "A"; "B"; "C"; "D" |]))
    | _ -> M.ScFVar (bs "y") in
  let flats n = List.init (1 + rint r n) (fun _ -> flat_leaf ()) in
  let mk ?(ext = None) ?(macros = []) items = M.ScSrcTpl { M.tp_extends = ext; tp_items = items; tp_macros = macros } in
  let rdir () = pick r dirs in
  (* leaves *)
  for _ = 1 to 3 + rint r 3 do ignore (add "leaf" (rdir ()) (mk (List.map (fun f -> M.ScItFlat f) (flats 4)))) done;
  (* macro libraries: m1 takes a string, m2 an object with a Name *)
  for _ = 1 to 1 + rint r 2 do
    ignore (add "lib" (rdir ()) (mk ~macros:[ (bs "m1", [ M.ScFText (bs "<i "); M.ScFVar (bs "p"); M.ScFText (bs ">") ]);
                                               (bs "m2", [ M.ScFText (bs "["); M.ScFAttr (bs "p", bs "Name"); M.ScFText (bs "]") ]) ] []))
  done;
  (* a library whose own top level fails when it is rendered for its macros (it includes a template nobody has) *)
  ignore (add "badlib" (rdir ()) (mk ~macros:[ (bs "m1", [ M.ScFText (bs "<b "); M.ScFVar (bs "p"); M.ScFText (bs ">") ]) ]
                                    [ M.ScItFlat (M.ScFText (bs "lib-top")); M.ScItInclude (bs "nothere.twig") ]));
  let bad = add "bad" (rdir ()) M.ScSrcBad in
  let missing = [| "nothere.twig"; "a/missing.twig" |] in
  let ref_to from key = bs (mkref r ~rel:(rint r 4 < rel_bias) from (usename key)) in
  let body_item from pool =
    match rint r 12 with
    | 0 | 1 | 2 -> M.ScItFlat (flat_leaf ())
    | 3 | 4 | 5 | 6 | 7 -> M.ScItInclude (ref_to from (pickd pool).key)
    | 8 | 9 ->
        let lib = if rint r 8 = 0 then pickd (of_kind "badlib") else pickd (of_kind "lib") in
        if rbool r then M.ScItMacro (rbool r, ref_to from lib.key, bs "m1", bs (pick r [| "x"; "mk" |]))
        else M.ScItMacro (rbool r, ref_to from lib.key, bs "m2", bs "u")
    | 10 -> if rint r 6 = 0 then M.ScItInclude (ref_to from (if rbool r then bad else pick r missing)) else M.ScItFlat (flat_leaf ())
    | _ -> M.ScItFlat (M.ScFText (bs (text r))) in
  let body from pool n = List.init (2 + rint r n) (fun _ -> body_item from pool) in
  for _ = 1 to 3 + rint r 3 do let d = rdir () in ignore (add "l1" d (mk (body d (of_kind "leaf") 4))) done;
  (* bases with blocks, children, grandchildren *)
  for _ = 1 to 2 do
    let d = rdir () in
    let items = [ M.ScItFlat (M.ScFText (bs "<")); M.ScItBlock (bs "b1", flats 2) ] @ body d (of_kind "leaf" @ of_kind "l1") 2
                @ [ M.ScItBlock (bs "b2", flats 2); M.ScItFlat (M.ScFText (bs ">")) ] in
    ignore (add "base" d (mk items))
  done;
  for _ = 1 to 2 + rint r 2 do
    let d = rdir () in
    let b = pickd (of_kind "base") in
    let ov = List.filter (fun _ -> rbool r) [ M.ScItBlock (bs "b1", flats 2); M.ScItBlock (bs "b2", flats 2) ] in
    ignore (add "child" d (mk ~ext:(Some (ref_to d b.key)) (ov @ [ M.ScItFlat (M.ScFText (bs "ignored")) ])))
  done;
  for _ = 1 to 1 + rint r 2 do
    let d = rdir () in
    let c = pickd (of_kind "child") in
    ignore (add "gchild" d (mk ~ext:(Some (ref_to d c.key)) [ M.ScItBlock (bs (pick r [| "b1"; "b2" |]), flats 2) ]))
  done;
  for _ = 1 to 2 + rint r 3 do
    let d = rdir () in
    ignore (add "l2" d (mk (body d (of_kind "l1" @ of_kind "child" @ of_kind "gchild" @ of_kind "base") 4)))
  done;
  let defs_l = List.rev !defs in
  (* ---- loaders: every template has a home; later positions may hold an identical copy or a decoy ---- *)
  let ndirs = Array.init nl (fun i -> if lfs.(i) then 1 + rint r 2 else 1) in
  let tables = Array.init nl (fun i -> Array.make ndirs.(i) []) in
  let decoy = M.ScSrcTpl { M.tp_extends = None; tp_items = [ M.ScItFlat (M.ScFText (bs "DECOY")) ]; tp_macros = [] } in
  let file s = { M.fl_src = s; fl_mtime = M.Z0 } in
  let homes = Hashtbl.create 16 in
  List.iter (fun d ->
    let li = rint r nl in
    let di = rint r ndirs.(li) in
    Hashtbl.replace homes d.key (li, di);
    tables.(li).(di) <- (bs d.key, file d.src) :: tables.(li).(di);
    (* positions after the home *)
    for lj = li to nl - 1 do
      for dj = 0 to ndirs.(lj) - 1 do
        if (lj > li || dj > di) && rint r 6 = 0 then
          tables.(lj).(dj) <- (bs d.key, file (if rbool r then d.src else decoy)) :: tables.(lj).(dj)
      done
    done) defs_l;
  let loaders = List.init nl (fun i -> { M.ld_fs = lfs.(i); ld_dirs = Array.to_list tables.(i) }) in
  (* ---- registrations made while configuring ---- *)
  let regs = ref [] in
  for _ = 1 to rint r 3 do
    let key = "reg/" ^ fresh "r" ^ ".twig" in
    regs := (bs key, mk (body [ "reg" ] (of_kind "leaf" @ of_kind "l1") 3)) :: !regs
  done;
  (* RegisterTemplate(name, ParseTemplate(source)): templates without a name of their own, under names in several
     directories; what they write relative resolves as in a template without a name, whatever else is being rendered *)
  let regts = ref [] in
  if rint r 2 = 0 then
    for _ = 1 to 2 + rint r 3 do
      let d = pick r [| [ "nl" ]; [ "nl"; "sub" ]; [ "a" ]; [ "c" ]; [ "zz" ] |] in
      let key = join (d @ [ fresh "q" ^ ".twig" ]) in
      if not (List.exists (fun dd -> dd.key = key) defs_l) then
        regts := (bs key, mk (body [] (of_kind "leaf" @ of_kind "l1") 3)) :: !regts
    done;
  let w0 = { M.w_loaders = loaders; w_chain = (nl > 0 && rint r 4 = 0); w_reg = List.rev !regs; w_regt = List.rev !regts;
             w_types = Array.to_list (Array.map (List.map bs) type_fields);
             w_cache = true; w_auto = false } in
  (* one registration of a name the loaders have, with the source they have *)
  let w0 = if rint r 3 = 0 then
      (let d = pickd (List.filter (fun d -> d.kind <> "bad") defs_l) in
       match M.sc_src_of w0 (bs d.key) with
       | Some s -> { w0 with M.w_reg = w0.M.w_reg @ [ (bs d.key, s) ] }
       | None -> w0)
    else w0 in
  let mode = rint r 4 in       (* 0 cache on, 1 cache off, 2 auto-reload, 3 cache on + debug *)
  let w = { w0 with M.w_cache = (mode <> 1); w_auto = (mode = 2) } in
  let debug = (mode = 3) in
  (* ---- calls ---- *)
  let nthreads = if tier = "thorough" then 8 + rint r 25 else 8 + rint r 25 in
  let callnames = Array.of_list (List.map (fun d -> d.key) defs_l @ List.map (fun (n, _) -> sb n) (w.M.w_reg @ w.M.w_regt) @ [ "nothere.twig" ]) in
  let weight d = match d.kind with "l2" | "gchild" | "child" -> 5 | "l1" | "base" -> 3 | "bad" -> 1 | _ -> 1 in
  let wnames = List.concat_map (fun d -> List.init (weight d) (fun _ -> d.key)) defs_l in
  let wnames = Array.of_list (wnames @ List.map (fun (n, _) -> sb n) w.M.w_reg
                              @ List.concat_map (fun (n, _) -> [ sb n; sb n; sb n; sb n ]) w.M.w_regt) in
  let vars t c =
    let u_ty = rint r 2 in
    [ (bs "x", M.ScVStr (bs (pick r [| "x1"; "x-2"; "xx" |])));
      (bs "y", M.ScVStr (bs (pick r [| "y1"; "yy" |])));
      (bs "mk", M.ScVStr (bs (Printf.sprintf "g%dc%d" t c)));
      (bs "u", M.ScVObj (nat_of_int u_ty, List.map (fun f -> bs (Printf.sprintf "%s%d" (String.lowercase_ascii f) (rint r 3))) type_fields.(u_ty)));
      (bs "v", M.ScVObj (nat_of_int 2, List.map (fun f -> bs (Printf.sprintf "%s%d" (String.lowercase_ascii f) (rint r 3))) type_fields.(2))) ] in
  let hot = Array.init 3 (fun _ -> pick r wnames) in     (* names many goroutines go for at once *)
  let rname () = if rint r 3 = 0 then pick r hot else if rint r 12 = 0 then pick r callnames else usename (pick r wnames) in
  (* leaves whose home is a FileSystemLoader and that are never registered: their files may be rewritten between phases *)
  let rewritable = List.filter_map (fun d ->
      match Hashtbl.find_opt homes d.key with
      | Some (li, di) when d.kind = "leaf" && lfs.(li) && not (List.exists (fun (n, _) -> sb n = d.key) (w.M.w_reg @ w.M.w_regt)) -> Some (d, li, di)
      | _ -> None) defs_l in
  let will_rewrite = rewritable <> [] && rint r 3 = 0 in
  let gen_call ?(w = w) t c =
    match rint r 20 with
    | 0 | 1 | 2 | 3 | 4 | 5 | 6 -> M.ScCRender (false, bs (rname ()), vars t c)
    | 7 | 8 | 9 | 10 | 11 -> M.ScCRender (true, bs (rname ()), vars t c)
    | 12 | 13 | 14 -> M.ScCLoad (bs (rname ()))
    | 15 | 16 ->
        let s = if rint r 8 = 0 then M.ScSrcBad else mk (body [] (of_kind "leaf" @ of_kind "l1" @ of_kind "child") 3) in
        M.ScCParse (s, vars t c)
    | _ ->
        let n = bs (pick r callnames) in
        (* a registration pins its source for good: never for a name whose file is going to be rewritten *)
        if will_rewrite && List.exists (fun (d, _, _) -> d.key = sb n) rewritable then M.ScCLoad n else
        (match M.sc_src_of w n with
         | Some s -> M.ScCRegister (n, s)
         | None -> M.ScCLoad n) in
  let threads = List.init nthreads (fun t -> List.init (5 + rint r 26) (fun c -> gen_call t c)) in
  let phases =
    if not will_rewrite then [] else begin
      let cur_w = ref w in
      let removed = Hashtbl.create 4 in
      List.init (1 + rint r 2) (fun k ->
        let k = k + 1 in
        (* a file that was removed stays removed *)
        let alive = List.filter (fun (d, _, _) -> not (Hashtbl.mem removed d.key)) rewritable in
        let chosen = List.filter (fun _ -> rbool r) alive in
        let chosen = if chosen = [] then (match alive with x :: _ -> [ x ] | [] -> []) else chosen in
        let rws = List.map (fun (d, li, di) ->
            (li, di, d.key, (if rint r 5 = 0 then (Hashtbl.replace removed d.key (); None)
                             else Some (mk [ M.ScItFlat (M.ScFText (bs (Printf.sprintf " v%d-of-%s " k d.key))); M.ScItFlat (flat_leaf ()) ])))) chosen in
        let w' = rewrite_world !cur_w rws (10 * k) in
        cur_w := w';
        let pthreads = List.init (6 + rint r 11) (fun t -> List.init (3 + rint r 8) (fun c ->
            if rint r 4 = 0 && chosen <> [] then (let (d, _, _) = List.nth chosen (rint r (List.length chosen)) in
                                  if rbool r then M.ScCRender (rbool r, bs (usename d.key), vars t c) else M.ScCLoad (bs (usename d.key)))
            else gen_call ~w:w' (100 * k + t) c)) in
        { rewrites = rws; world = w'; pthreads; pause_ms = 0 })
    end in
  let has_rel = List.exists (fun d -> match d.src with
      | M.ScSrcTpl t -> (match t.M.tp_extends with Some p -> String.length (sb p) > 0 && (sb p).[0] = '.' | None -> false)
                        || List.exists (function M.ScItInclude n | M.ScItMacro (_, n, _, _) -> (sb n).[0] = '.' | _ -> false) t.M.tp_items
      | _ -> false) defs_l in
  finish ~phases r ~id ~tier ~debug ~has_rel w threads

(* ---- fixed workloads: one per repaired race, so that none can come back unnoticed ---- *)
let tpl items = M.ScSrcTpl { M.tp_extends = None; tp_items = items; tp_macros = [] }
let file s = { M.fl_src = s; fl_mtime = M.Z0 }
let world ?(chain = false) ?(cache = true) ?(auto = false) ?(regt = []) loaders =
  { M.w_loaders = loaders; w_chain = chain; w_reg = []; w_regt = regt; w_types = Array.to_list (Array.map (List.map bs) type_fields);
    w_cache = cache; w_auto = auto }
let txt s = M.ScItFlat (M.ScFText (bs s))
let mkvar t c = [ (bs "x", M.ScVStr (bs "x1")); (bs "mk", M.ScVStr (bs (Printf.sprintf "g%dc%d" t c))) ]

(* renders of templates in different directories whose include is written ./part (290eea6) *)
let fixed_relative r ~id ~tier ~fs ~cache =
  let dirs = [ "a"; "c"; "d"; "e/f" ] in
  let files = List.concat_map (fun d ->
      [ (bs (d ^ "/main.twig"), file (tpl [ txt ("[" ^ d ^ ":"); M.ScItInclude (bs "./part.twig"); M.ScItFlat (M.ScFVar (bs "mk")); txt "]" ]));
        (bs (d ^ "/part.twig"), file (tpl [ txt ("part-of-" ^ d) ])) ]) dirs in
  let w = world ~cache [ { M.ld_fs = fs; ld_dirs = [ files ] } ] in
  let threads = List.init 16 (fun t -> List.init 20 (fun c ->
      M.ScCRender (c mod 2 = 0, bs (List.nth dirs ((t + c) mod 4) ^ "/main.twig"), mkvar t c))) in
  finish r ~id ~tier ~debug:false ~has_rel:true w threads

(* templates registered without a name of their own (RegisterTemplate of a ParseTemplate result) under names in
   different directories, each including ./part.twig: a template without a name resolves ./part.twig from the root,
   whatever name it is rendered under and whatever other goroutines render at that moment *)
let fixed_nameless r ~id ~tier ~fs =
  let dirs = [ "a"; "c"; "d"; "e/f" ] in
  let files = (bs "part.twig", file (tpl [ txt "part-of-root" ])) ::
              List.map (fun d -> (bs (d ^ "/part.twig"), file (tpl [ txt ("part-of-" ^ d) ]))) dirs in
  let regt = List.map (fun d -> (bs (d ^ "/main.twig"),
                                 tpl [ txt ("[" ^ d ^ ":"); M.ScItInclude (bs "./part.twig"); M.ScItFlat (M.ScFVar (bs "mk")); txt "]" ])) dirs in
  let w = world ~regt [ { M.ld_fs = fs; ld_dirs = [ files ] } ] in
  let threads = List.init 16 (fun t -> List.init 24 (fun c ->
      M.ScCRender (c mod 2 = 0, bs (List.nth dirs ((t + c) mod 4) ^ "/main.twig"), mkvar t c))) in
  finish r ~id ~tier ~debug:false ~has_rel:true w threads

(* files rewritten between phases: every template is cached in a first phase; then, while no call is running, the
   files are rewritten with a later modification time; every call of the next phase starts after the rewrite and
   must return the new text (auto-reload with a timestamp-aware loader, or caching off), whatever the other
   goroutines are loading at that moment. mode: 0 = cache on + auto-reload, 1 = cache off *)
let fixed_reload r ~id ~tier ~mode =
  let names = List.init 6 (fun i -> Printf.sprintf "pg/t%d.twig" i) in
  let src v n = tpl [ txt (Printf.sprintf "<%s v%d " n v); M.ScItInclude (bs "./part.twig"); M.ScItFlat (M.ScFVar (bs "mk")); txt ">" ] in
  let part v = tpl [ txt (Printf.sprintf "part-v%d" v) ] in
  let files v = (bs "pg/part.twig", { M.fl_src = part v; fl_mtime = M.Z0 }) :: List.map (fun n -> (bs n, { M.fl_src = src v n; fl_mtime = M.Z0 })) names in
  let w = world ~cache:(mode = 0) ~auto:(mode = 0) [ { M.ld_fs = true; ld_dirs = [ files 0 ] } ] in
  let threads0 = List.init 6 (fun t -> List.init 6 (fun c -> M.ScCRender (c mod 2 = 0, bs (List.nth names ((t + c) mod 6)), mkvar t c))) in
  let mkphase k prev_w =
    (* every second phase leaves the part alone, so that a reloaded template meets a cached include and the reverse *)
    let rws = List.map (fun n -> (0, 0, n, Some (src k n))) (List.filteri (fun i _ -> (i + k) mod 3 <> 0) names)
              @ (if k mod 2 = 1 then [ (0, 0, "pg/part.twig", Some (part k)) ] else [])
              (* the last phase: some files are gone; every goroutine that asks for them finds that out at the same time *)
              @ (if k = 3 then List.map (fun n -> (0, 0, n, None)) (List.filteri (fun i _ -> i mod 3 = 0) names) else []) in
    let w' = rewrite_world prev_w rws (10 * k) in
    let hot = List.nth names (k mod 6) and hot2 = List.nth names ((k + 1) mod 6) in
    let pthreads = List.init 16 (fun t -> List.init 6 (fun c ->
        let n = if c < 2 then (if t mod 2 = 0 then hot else hot2) else List.nth names ((t + c) mod 6) in
        if c = 3 then M.ScCLoad (bs n) else M.ScCRender ((t + c) mod 2 = 0, bs n, mkvar t c))) in
    ({ rewrites = rws; world = w'; pthreads; pause_ms = 0 }, w') in
  let (p1, w1) = mkphase 1 w in
  let (p2, w2) = mkphase 2 w1 in
  let (p3, _) = mkphase 3 w2 in
  finish ~phases:[ p1; p2; p3 ] r ~id ~tier ~debug:false ~has_rel:true w threads0

(* imports of a library that fails when it is rendered for its macros, next to renders of healthy templates that
   print a value only their own call knows: a render context handed back twice on the failure path would be shared
   by two later calls *)
let fixed_failing_import r ~id ~tier =
  let lib = M.ScSrcTpl { M.tp_extends = None; tp_items = [ txt "top"; M.ScItInclude (bs "gone.twig") ];
                         tp_macros = [ (bs "m1", [ M.ScFText (bs "<"); M.ScFVar (bs "p"); M.ScFText (bs ">") ]) ] } in
  let good = M.ScSrcTpl { M.tp_extends = None; tp_items = []; tp_macros = [ (bs "m1", [ M.ScFText (bs "("); M.ScFVar (bs "p"); M.ScFText (bs ")") ]) ] } in
  let page k = tpl [ txt (Printf.sprintf "page%d[" k); M.ScItFlat (M.ScFVar (bs "mk")); M.ScItInclude (bs "part.twig"); M.ScItMacro (k mod 2 = 0, bs "good.twig", bs "m1", bs "mk");
                     M.ScItFlat (M.ScFVar (bs "mk")); txt "]" ] in
  let files = [ (bs "lib.twig", file lib); (bs "good.twig", file good); (bs "part.twig", file (tpl [ txt "<part "; M.ScItFlat (M.ScFVar (bs "mk")); txt ">" ]));
                (bs "imp.twig", file (tpl [ txt "imp["; M.ScItMacro (false, bs "lib.twig", bs "m1", bs "mk"); txt "]" ]));
                (bs "frm.twig", file (tpl [ txt "frm["; M.ScItMacro (true, bs "lib.twig", bs "m1", bs "mk"); txt "]" ])) ]
              @ List.init 4 (fun k -> (bs (Printf.sprintf "page%d.twig" k), file (page k))) in
  let w = world [ { M.ld_fs = false; ld_dirs = [ files ] } ] in
  let threads = List.init 16 (fun t -> List.init 24 (fun c ->
      let n = if c mod 4 = 1 then (if (t + c) mod 2 = 0 then "imp.twig" else "frm.twig") else Printf.sprintf "page%d.twig" ((t + c) mod 4) in
      M.ScCRender (c mod 2 = 0, bs n, mkvar t c))) in
  finish r ~id ~tier ~debug:false ~has_rel:false w threads

(* attribute access on structs, then the engine sits idle for more than a second, then many goroutines read the same
   attributes at once (bookkeeping that is done "at most once per second" runs for all of them at that moment) *)
let fixed_attr_idle r ~id ~tier =
  let t k = tpl [ txt (Printf.sprintf "a%d[" k); M.ScItFlat (M.ScFAttr (bs "u", bs "Name")); M.ScItFlat (M.ScFAttr (bs "v", bs (List.nth [ "A"; "B"; "C"; "D" ] (k mod 4))));
                  M.ScItFlat (M.ScFVar (bs "mk")); txt "]" ] in
  let files = List.init 4 (fun k -> (bs (Printf.sprintf "at%d.twig" k), file (t k))) in
  let w = world [ { M.ld_fs = false; ld_dirs = [ files ] } ] in
  let vars t c = mkvar t c @ [ (bs "u", M.ScVObj (nat_of_int 0, [ bs "bob"; bs "mr" ])); (bs "v", M.ScVObj (nat_of_int 2, [ bs "a"; bs "b"; bs "c"; bs "d" ])) ] in
  let mk n = List.init n (fun t -> List.init 8 (fun c -> M.ScCRender (c mod 2 = 0, bs (Printf.sprintf "at%d.twig" ((t + c) mod 4)), vars t c))) in
  finish ~phases:[ { rewrites = []; world = w; pthreads = mk 16; pause_ms = 1100 } ] r ~id ~tier ~debug:false ~has_rel:false w (mk 4)

(* cold FileSystemLoader with two search paths, every goroutine asking for other names first (4b22ec0) *)
let fixed_memo r ~id ~tier ~auto =
  let names = List.init 24 (fun i -> Printf.sprintf "n%d.twig" i) in
  let d0 = List.filteri (fun i _ -> i mod 2 = 0) names and d1 = List.filteri (fun i _ -> i mod 3 <> 0) names in
  let mkf tag n = (bs n, file (tpl [ txt (tag ^ n) ; M.ScItFlat (M.ScFVar (bs "mk")) ])) in
  let w = world ~auto [ { M.ld_fs = true; ld_dirs = [ List.map (mkf "first:") d0; List.map (mkf "second:") d1 ] } ] in
  let threads = List.init 24 (fun t -> List.init 24 (fun c ->
      let n = bs (List.nth names ((t * 5 + c) mod 24)) in
      if c mod 3 = 2 then M.ScCLoad n else M.ScCRender (false, n, mkvar t c))) in
  finish r ~id ~tier ~debug:false ~has_rel:false w threads

(* many parses at once: ParseTemplate, RegisterString and cold loads of sources with many tokens (55e13ae) *)
let fixed_parse r ~id ~tier =
  let big k = tpl (List.concat (List.init (20 + k) (fun i -> [ txt (Printf.sprintf " w%d " i); M.ScItFlat (M.ScFVar (bs (if i mod 2 = 0 then "x" else "mk"))) ]))) in
  let names = List.init 8 (fun i -> Printf.sprintf "p%d.twig" i) in
  let files = List.mapi (fun i n -> (bs n, file (big i))) names in
  let w = world ~cache:false [ { M.ld_fs = false; ld_dirs = [ files ] } ] in
  let threads = List.init 16 (fun t -> List.init 16 (fun c ->
      let n = bs (List.nth names ((t + c) mod 8)) in
      match c mod 4 with
      | 0 -> M.ScCParse (big ((t + c) mod 11), mkvar t c)
      | 1 -> (match M.sc_src_of w n with Some s -> M.ScCRegister (n, s) | None -> M.ScCLoad n)
      | 2 -> M.ScCRender (true, n, mkvar t c)
      | _ -> M.ScCParse (big ((t * c) mod 7), mkvar t c))) in
  finish r ~id ~tier ~debug:false ~has_rel:false w threads


(* sources longer than 4096 bytes (the optimised tokenizer, which interns simple variable names in the global string
   cache) with variable names no other call has used: concurrent first insertions into the global cache *)
let fixed_intern r ~id ~tier =
  let pad = String.make 90 'p' in
  let big t c = tpl (List.concat (List.init 48 (fun i ->
      [ txt (Printf.sprintf " %s%d " pad i); M.ScItFlat (M.ScFVar (bs (Printf.sprintf "w%dv%dn%d" id (t * 8 + c) i))); M.ScItFlat (M.ScFVar (bs "mk")) ]))) in
  let names = List.init 6 (fun i -> Printf.sprintf "big%d.twig" i) in
  let files = List.mapi (fun i n -> (bs n, file (big 100 i))) names in
  let w = world [ { M.ld_fs = true; ld_dirs = [ files ] } ] in
  let threads = List.init 16 (fun t -> List.init 5 (fun c ->
      if c = 2 then M.ScCRender (false, bs (List.nth names ((t + c) mod 6)), mkvar t c) else M.ScCParse (big t c, mkvar t c))) in
  finish r ~id ~tier ~debug:false ~has_rel:false w threads

(* templates outside the modelled language (loops, set, filters, macros with defaults, parent(), include with / only /
   ignore missing, apply, spaceless, verbatim): no prediction, the oracle alone (equal to the serial run, no race report) *)
let rich_set = [
  "rich/loop.twig", "{% set total = 0 %}{% for i in range(1,5) %}{% if i is odd %}{{ i }}{% else %}-{% endif %}{% set total = total + i %}{% endfor %}={{ total }}|{{ x|upper|lower|capitalize }}|{{ u.Name }}:{{ u.Name|length }}|{{ 'a,b'|split(',')|last }}|{{ x ~ '-' ~ mk }}|{{ (3 + 4) * 2 }}|{{ x starts with 'x' ? 'y' : 'n' }}|{{ nothere|default('dd') }}|{{ range(1,3)|join }}|{{ max(1,5) }}|{% for c in x %}{{ loop.index }}{{ c }}{% endfor %}";
  "rich/macros.twig", "{% macro inp(n, v = 'dv', t = 'text') %}<input name=\"{{ n }}\" value=\"{{ v }}\" type=\"{{ t }}\">{% endmacro %}";
  "rich/usem.twig", "{% import './macros.twig' as f %}{{ f.inp('a') }}{{ f.inp('b', mk) }}{% from 'rich/macros.twig' import inp as i2 %}{{ i2(x, 'v', 'hidden') }}";
  "rich/base.twig", "<h>{% block title %}T{% endblock %}</h>{% block body %}B{{ mk }}{% endblock %}{% block foot %}F{% include './loop.twig' %}{% endblock %}";
  "rich/sub/mid.twig", "{% extends '../base.twig' %}{% block body %}M({{ parent() }}){% endblock %}";
  "rich/sub/leaf.twig", "{% extends './mid.twig' %}{% block title %}L{{ mk }}{% endblock %}{% block body %}L[{{ parent() }}]{% endblock %}";
  "rich/inc.twig", "{% include './loop.twig' %}|{% include 'rich/sub/leaf.twig' with {'mk': 'W'} %}|{% include './loop.twig' with {'x': 'nn'} only %}|{% include 'rich/nope2.twig' ignore missing %}|{{ v.A }}{{ v.D }}";
  "rich/apply.twig", "{% apply upper %}abc{{ mk }}{% endapply %}{% spaceless %}<a> <b> </b> </a>{% endspaceless %}{% verbatim %}{{ raw }}{% endverbatim %}{# c #}{{- ' x ' -}}";
  "rich/filters.twig", "{{ x|replace('x', 'X') }}|{{ x|length }}|{{ '<b>'|escape }}|{{ '<b>'|raw }}|{{ 3.14159|round(2) }}|{{ x|slice(0,2) }}|{{ x|trim }}|{{ x|title }}|{{ 'a b'|url_encode }}|{{ x|striptags }}|{{ 5|abs }}|{{ [3,1,2]|sort|join(',') }}|{{ [1,2]|merge(['z'])|join }}|{{ {'k': mk}|keys|join }}|{{ [1,2,3]|reverse|first }}";
  "rich/shared.twig", "{{ shared.sp|merge([mk])|join(',') }}|{{ shared.sp|merge([x], [mk])|length }}|{{ shared.rec.Tags|merge([mk, x])|join }}|{{ shared.names|merge([mk])|join }}|{{ shared.m|merge({'k': mk})|keys|join }}|{{ shared.sp|sort|join }}|{{ shared.sp|reverse|first }}|{{ shared.sp|slice(0, 2)|merge([mk])|join }}|{% for v in shared.sp %}{{ v }}{% endfor %}|{% set l = shared.sp %}{% set l = l|merge([mk]) %}{{ l|last }}{{ shared.sp|length }}";
  "rich/big.twig", String.concat "" (List.init 300 (fun i -> Printf.sprintf "<div class=\"c%d\">{{ x }} {%% if mk %%}{{ mk|upper }}{%% endif %%} text %d</div>\n" i i)) ]

let fixed_rich r ~id ~tier ~mode =
  let names = Array.of_list (List.map fst rich_set) in
  let jv t c = JL [ Ob [ "k", hx "x"; "s", hx (pick r [| "x1"; "xab" |]) ]; Ob [ "k", hx "mk"; "s", hx (Printf.sprintf "g%dc%d" t c) ];
                    Ob [ "k", hx "u"; "ty", JI 0; "f", JL [ hx "bob"; hx "mr" ] ]; Ob [ "k", hx "v"; "ty", JI 2; "f", JL [ hx "a"; hx "b"; hx "c"; hx "d" ] ] ] in
  let nthreads = 16 in
  let threads = List.init nthreads (fun t -> List.init 14 (fun c ->
      let n = names.((t * 7 + c * 3) mod Array.length names) in
      let base = [ "c", JS "unmodelled"; "o", JS "" ] in
      match (t + c) mod 5 with
      | 0 | 4 -> Ob ([ "op", JS "render"; "n", hx n; "vars", jv t c ] @ base)
      | 1 -> Ob ([ "op", JS "renderto"; "n", hx n; "vars", jv t c ] @ base)
      | 2 -> Ob ([ "op", JS "parse"; "s", hx (List.assoc n rich_set); "vars", jv t c ] @ base)
      | _ -> if c mod 2 = 0 then Ob ([ "op", JS "load"; "n", hx n ] @ base) else Ob ([ "op", JS "register"; "n", hx n; "s", hx (List.assoc n rich_set) ] @ base))) in
  Ob [ "k", JS "wl"; "id", JI id; "cache", JB (mode <> 1); "auto", JB (mode = 2); "debug", JB (mode = 3); "chain", JB false;
       "loaders", JL [ Ob [ "fs", JB true; "dirs", JL [ JL (List.map (fun (n, s) -> Ob [ "n", hx n; "s", hx s ]) rich_set) ] ] ];
       "reg", JL []; "regt", JL []; "threads", JL (List.map (fun l -> JL l) threads); "ncalls", JI (nthreads * 14); "nontrivial", JB true;
       "reps", JI (if tier = "thorough" then 6 else 3) ]

let run ~seed ~tier oc =
  let r = mk_rng seed in
  if not M.sc_table_ok_now then prerr_endline "c02: note: the generated lock table is not disciplined (Properties/C02.v will not compile)";
  let fixed = [ (fun id -> fixed_relative r ~id ~tier ~fs:true ~cache:true); (fun id -> fixed_relative r ~id ~tier ~fs:false ~cache:false);
                (fun id -> fixed_memo r ~id ~tier ~auto:false); (fun id -> fixed_memo r ~id ~tier ~auto:true);
                (fun id -> fixed_parse r ~id ~tier); (fun id -> fixed_intern r ~id ~tier);
                (fun id -> fixed_rich r ~id ~tier ~mode:0); (fun id -> fixed_rich r ~id ~tier ~mode:(1 + rint r 3));
                (fun id -> fixed_nameless r ~id ~tier ~fs:true); (fun id -> fixed_nameless r ~id ~tier ~fs:false);
                (fun id -> fixed_reload r ~id ~tier ~mode:0); (fun id -> fixed_reload r ~id ~tier ~mode:1);
                (fun id -> fixed_failing_import r ~id ~tier); (fun id -> fixed_attr_idle r ~id ~tier) ] in
  List.iteri (fun i f -> emit oc (f (i + 1))) fixed;
  let n = if tier = "thorough" then 240 else 24 in
  let nf = List.length fixed in
  for id = nf + 1 to nf + n do emit oc (gen_workload r ~id ~tier) done
