(* C19 case generation: inputs and arguments of the built-in filters with the results the extracted
   model (the Model.flt_ functions) predicts, and for decimal inputs of abs / round / number_format the value exact
   decimal arithmetic (the Model.fsp_dec_ functions) demands together with the value binary floating point gives
   (computed here with OCaml floats, mirroring the Go code). Unverified glue; every random choice
   comes from the one rng.

   value grammar (inputs and results): n | b0 | b1 | i<dec> (int) | j<dec> (int64) | d<dec> (integral
   float64) | f<text> (float64 parsed from the decimal text) | s<hex> | u (undefined variable)
   | L<a|s|i|r>(v ...) | M<a|ss|is|si>(k v ...).   Results print every integer as i<dec>. *)
open Util
module M = Model

let n_of_int i = if i <= 0 then M.N0 else M.Npos (pos_of_int i)
let z_of_int i = if i = 0 then M.Z0 else if i > 0 then M.Zpos (pos_of_int i) else M.Zneg (pos_of_int (-i))
let int_of_z = function M.Z0 -> 0 | M.Zpos p -> int_of_pos p | M.Zneg p -> - (int_of_pos p)
let bs = bytes_of_string
let sb = string_of_bytes

(* ------------------------------------------------------------------ case mapping used for predictions *)
(* (code point, unicode.ToUpper, unicode.ToLower) for the non-ASCII code points the generator uses; every
   other code point it uses has no case. The runner checks each entry against Go's unicode package. *)
let case_table = [
  (0xA0, 0xA0, 0xA0); (0xF6, 0xD6, 0xF6); (0xD6, 0xD6, 0xF6); (0xB5, 0x39C, 0xB5); (0xDF, 0xDF, 0xDF); (0xE9, 0xC9, 0xE9); (0xC9, 0xC9, 0xE9); (0xFF, 0x178, 0xFF);
  (0x130, 0x130, 0x69); (0x131, 0x49, 0x131); (0x17F, 0x53, 0x17F); (0x178, 0x178, 0xFF); (0x1C4, 0x1C4, 0x1C6);
  (0x1C5, 0x1C4, 0x1C6); (0x1C6, 0x1C4, 0x1C6); (0x39C, 0x39C, 0x3BC); (0x3A3, 0x3A3, 0x3C3); (0x3C3, 0x3A3, 0x3C3);
  (0x3C2, 0x3A3, 0x3C2); (0x3BC, 0x39C, 0x3BC); (0x416, 0x416, 0x436); (0x436, 0x416, 0x436); (0x1E9E, 0x1E9E, 0xDF);
  (0x2003, 0x2003, 0x2003); (0x2028, 0x2028, 0x2028); (0x20AC, 0x20AC, 0x20AC); (0x212A, 0x212A, 0x6B); (0xFB01, 0xFB01, 0xFB01);
  (0xFFFD, 0xFFFD, 0xFFFD); (0x10400, 0x10400, 0x10428); (0x10428, 0x10400, 0x10428); (0x1D11E, 0x1D11E, 0x1D11E);
  (0x3000, 0x3000, 0x3000); (0x4E2D, 0x4E2D, 0x4E2D); (0x85, 0x85, 0x85); (0x1680, 0x1680, 0x1680) ]
let up_int c = if c >= 0x61 && c <= 0x7a then c - 32 else if c < 0x80 then c else
    (match List.find_opt (fun (x, _, _) -> x = c) case_table with Some (_, u, _) -> u | None -> c)
let low_int c = if c >= 0x41 && c <= 0x5a then c + 32 else if c < 0x80 then c else
    (match List.find_opt (fun (x, _, _) -> x = c) case_table with Some (_, _, l) -> l | None -> c)
let up_n (c : M.n) = n_of_int (up_int (int_of_n c))
let low_n (c : M.n) = n_of_int (low_int (int_of_n c))

(* ------------------------------------------------------------------ strings *)
let utf8 c = sb (M.uf8_enc1 (n_of_int c))
let letters = [| "a"; "b"; "c"; "x"; "y"; "Z"; "A"; "Q"; "0"; "1"; "9"; "-"; "+"; "."; ","; ";"; ":"; "_"; "<"; "&" |]
let multi = Array.map utf8 [| 0xE9; 0xC9; 0xDF; 0xB5; 0xFF; 0x130; 0x131; 0x17F; 0x1C5; 0x1C6; 0x3A3; 0x3C3; 0x3C2; 0x416; 0x436; 0x1E9E;
                              0x20AC; 0x212A; 0xFB01; 0x10400; 0x10428; 0x1D11E; 0x4E2D; 0xFFFD |]
let spaces = Array.append [| " "; " "; "\t"; "\n"; "\r"; "\x0b"; "\x0c" |] (Array.map utf8 [| 0xA0; 0x85; 0x2003; 0x2028; 0x3000; 0x1680 |])
let invalid = [| "\x80"; "\xc3"; "\xff"; "\xe2\x82"; "\xed\xa0\x80"; "\xc0\x80"; "\xf4\x90\x80\x80"; "\xbf"; "\xf0\x9f\x98" |]

(* kind: `Ascii | `Valid (multi-byte, valid UTF-8) | `Any (invalid bytes too); sp: with white space *)
let rand_str r ?(sp = false) kind maxlen =
  let n = rint r (maxlen + 1) in
  let b = Buffer.create 16 in
  for _ = 1 to n do
    let k = rint r 10 in
    Buffer.add_string b
      (if sp && k < 3 then pick r spaces
       else match kind with
         | `Ascii -> pick r letters
         | `Valid -> if k < 6 then pick r letters else pick r multi
         | `Any -> if k < 5 then pick r letters else if k < 8 then pick r multi else pick r invalid)
  done;
  Buffer.contents b

let is_ascii s = let ok = ref true in String.iter (fun c -> if Char.code c >= 0x80 then ok := false) s; !ok
let valid_utf8 s = M.uf8_validb (bs s)

(* ------------------------------------------------------------------ values *)
let vstr s = M.VStr (bs s)
let vint i = M.VInt (z_of_int i)

let ltag_code = function M.LAny -> "a" | M.LStrings -> "s" | M.LInts -> "i" | M.LArray -> "r"
let mtag_code = function M.MAny -> "a" | M.MStrStr -> "ss" | M.MIntStr -> "is" | M.MStrInt -> "si"

(* results: canonical, integers without representation *)
let rec enc_out (v : M.value) : string =
  match v with
  | M.VNull -> "n"
  | M.VBool b -> if b then "b1" else "b0"
  | M.VInt z -> "i" ^ sb (M.flt_z_to_dec z)
  | M.VStr s -> "s" ^ hexb s
  | M.VList (t, xs) -> "L" ^ ltag_code t ^ "(" ^ String.concat " " (List.map enc_out xs) ^ ")"
  | M.VMap (t, kvs) ->
      "M" ^ mtag_code t ^ "(" ^ String.concat " " (List.map (fun (k, x) -> enc_out k ^ " " ^ enc_out x) (M.flt_sorted_entries kvs)) ^ ")"
  | _ -> "?"

(* inputs: the Go representation of an integer is chosen here. rep: 0 int, 1 int64, 2 float64 *)
let rec enc_in r ?(typed = false) (v : M.value) : string =
  match v with
  | M.VInt z ->
      let d = sb (M.flt_z_to_dec z) in
      if typed then "i" ^ d else (match rint r 6 with 0 -> "j" ^ d | 1 -> "d" ^ d | _ -> "i" ^ d)
  | M.VList (t, xs) ->
      let ty = (t = M.LInts || t = M.LStrings) in
      "L" ^ ltag_code t ^ "(" ^ String.concat " " (List.map (enc_in r ~typed:ty) xs) ^ ")"
  | M.VMap (t, kvs) ->
      let ty = (t <> M.MAny) in
      "M" ^ mtag_code t ^ "(" ^ String.concat " " (List.map (fun (k, x) -> enc_in r ~typed:true k ^ " " ^ enc_in r ~typed:ty x) kvs) ^ ")"
  | _ -> enc_out v
(* every integer as a Go int *)
let enc_plain v = enc_in (mk_rng 0) ~typed:true v

let enc_res = function
  | M.FltOk v -> "ok:" ^ enc_out v
  | M.FltErr -> "err"
  | M.FltPanic -> "panic"
  | M.FltUnmod -> "unmod"

let rand_int r = match rint r 12 with
  | 0 -> 0 | 1 -> pick r [| 9; 10; 99; 100; -9; -10 |] | 2 -> pick r [| 9007199254740991; -9007199254740991; 4096; 1000000 |]
  | _ -> rrange r (-20) 20

let rand_scalar r kind : M.value =
  match rint r 11 with
  | 10 -> vstr (pick r [| "0"; "1"; "-1"; "00"; "false"; "true"; "null"; " " |])
  | 0 -> M.VNull
  | 1 -> M.VBool (rbool r)
  | 2 | 3 | 4 -> vint (rand_int r)
  | _ -> vstr (rand_str r kind 5)

let rand_ltag r = pick r [| M.LAny; M.LAny; M.LStrings; M.LInts; M.LArray |]
let rand_list_of r tag kind n : M.value =
  M.VList (tag, List.init n (fun _ -> match tag with
    | M.LStrings -> vstr (rand_str r kind 4)
    | M.LInts -> vint (rand_int r)
    | _ -> rand_scalar r kind))
let rand_list r kind = rand_list_of r (rand_ltag r) kind (rint r 6)

let rand_mtag r = pick r [| M.MAny; M.MAny; M.MStrStr; M.MIntStr; M.MStrInt |]
let rand_map_of r tag kind n : M.value =
  let seen = Hashtbl.create 8 in
  let kvs = List.filter_map (fun _ ->
    let k = match tag with M.MIntStr -> vint (rrange r (-3) 12) | _ -> vstr (pick r [| "a"; "b"; "c"; "k1"; "k10"; "k2"; "B"; ""; utf8 0xE9; "10"; "9" |]) in
    let kt = sb (M.flt_key_string k) in
    if Hashtbl.mem seen kt then None else begin
      Hashtbl.replace seen kt ();
      let x = match tag with
        | M.MAny -> rand_scalar r kind
        | M.MStrStr | M.MIntStr -> vstr (rand_str r kind 4)
        | M.MStrInt -> vint (rand_int r) in
      Some (k, x) end) (List.init n (fun i -> i)) in
  M.VMap (tag, kvs)
let rand_map r kind = rand_map_of r (rand_mtag r) kind (rint r 5)

let rand_value r kind : M.value =
  match rint r 10 with
  | 0 | 1 | 2 -> rand_scalar r kind
  | 3 | 4 | 5 | 6 -> rand_list r kind
  | 7 | 8 -> rand_map r kind
  | _ -> vstr (rand_str r ~sp:true kind 8)

(* ------------------------------------------------------------------ emitting *)
let sep = "\x1f"      (* the separator of the template projections; never generated in data *)
let text_of (v : M.value) = match M.flt_to_string v with Some s -> Some (sb s) | None -> None

(* the text a template prints for the result: scalar as it is, list joined, map as key/value pairs *)
let projection (res : M.flt_res) : (string * string) option =
  match res with
  | M.FltOk (M.VList (_, xs)) ->
      let ts = List.map text_of xs in
      if List.mem None ts then None
      else Some ("list", String.concat sep (List.map (function Some s -> s | None -> "") ts))
  | M.FltOk (M.VMap (_, kvs)) ->
      let es = M.flt_sorted_entries kvs in
      let ts = List.map (fun (k, x) -> match text_of x with Some s -> Some (sb (M.flt_key_string k) ^ sep ^ s ^ sep) | None -> None) es in
      if List.mem None ts then None else Some ("map", String.concat "" (List.map (function Some s -> s | None -> "") ts))
  | M.FltOk v -> (match text_of v with Some s -> Some ("scalar", s) | None -> None)
  | _ -> None

(* filterSplit looks at a limit of type int, float64 or string only; an int64 limit is ignored. The model has one kind
   of integer, so the generator does not pass an int64 there (noted in the report as an observation) *)
let enc_arg r f a =
  let s = enc_in r a in
  if f = "split" && String.length s > 0 && s.[0] = 'j' then "i" ^ String.sub s 1 (String.length s - 1) else s

let emit_case oc r ~stream ~f ?(nt = true) ?(extra = []) (v : M.value) (args : M.value list) (res : M.flt_res) =
  let proj = match projection res with Some (k, o) -> [ "proj", JS k; "out", JS (hex o) ] | None -> [ "proj", JS "none" ] in
  emit oc (Ob ([ "stream", JS stream; "f", JS f; "v", JS (enc_in r v); "args", JL (List.map (fun a -> JS (enc_arg r f a)) args);
                 "exp", JS (enc_res res); "nt", JB nt ] @ proj @ extra))

(* ------------------------------------------------------------------ slice *)
let slice_items = [| "a"; utf8 0xE9; "c"; utf8 0x20AC; utf8 0x1D11E; "f"; "\xff"; utf8 0x4E2D; "i" |]
let slice_inputs n : (string * M.value) list =
  let items = Array.to_list (Array.sub slice_items 0 n) in
  [ "string", vstr (String.concat "" items);
    "any", M.VList (M.LAny, List.mapi (fun i s -> if i mod 2 = 0 then vstr s else vint (i * 7 - 10)) items);
    "strings", M.VList (M.LStrings, List.map vstr items);
    "ints", M.VList (M.LInts, List.mapi (fun i _ -> vint (10 - 3 * i)) items);
    "array", M.VList (M.LArray, List.mapi (fun i s -> if i mod 3 = 0 then vint i else vstr s) items) ]

let spec_slice (v : M.value) start len : M.flt_res =
  (* the answer of the independent specification, for the check that model and specification agree here too *)
  let zl = match len with Some l -> Some (z_of_int l) | None -> None in
  match v with
  | M.VStr s -> M.FltOk (M.VStr (M.fsp_slice_string s (z_of_int start) zl))
  | M.VList (t, xs) -> M.FltOk (M.VList (M.flt_slice_tag t, M.fsp_slice_list xs (z_of_int start) zl))
  | _ -> M.FltErr

let gen_slice oc r tier =
  (* quick: start, length in [-8, 8], input lengths 0-6; thorough: [-11, 11], lengths 0-8 *)
  let lim = if tier = "thorough" then 11 else 8 and nmax = if tier = "thorough" then 8 else 6 in
  for n = 0 to nmax do
    List.iter (fun (repr, v) ->
      for start = - lim to lim do
        for l = - lim - 2 to lim do
          (* -lim-2: length omitted; -lim-1: length given as null *)
          let args, len = if l = - lim - 2 then [ vint start ], None else if l = - lim - 1 then [ vint start; M.VNull ], None
            else [ vint start; vint l ], Some l in
          let res = M.flt_slice v args in
          if enc_res res <> enc_res (spec_slice v start len) then (prerr_endline "c19: slice model differs from fsp_slice (contradicts C19_slice_is_spec)"; exit 3);
          let nt = start < 0 || start > n || (match len with Some l -> l < 0 || start + l > n | None -> false) || repr <> "any" in
          emit_case oc r ~stream:"slice-grid" ~f:"slice" ~nt ~extra:[ "repr", JS repr ] v args res
        done
      done) (slice_inputs n)
  done;
  (* arguments of other types, large values, values that cannot be sliced *)
  let k = if tier = "thorough" then 12000 else 300 in
  for _ = 1 to k do
    let v = match rint r 8 with 0 -> rand_map r `Valid | 1 -> rand_scalar r `Any | 2 -> vstr (rand_str r `Any 8) | _ -> rand_list r `Any in
    let arg () = match rint r 12 with
      | 0 -> vstr (string_of_int (rrange r (-9) 9)) | 1 -> M.VBool (rbool r) | 2 -> vstr (pick r [| "x"; ""; "+3"; "-2"; "03"; "1.5"; " 1" |])
      | 3 -> M.VNull | 4 -> vint (pick r [| 1000000; -1000000; 4611686018427387904; -4611686018427387904 |]) | _ -> vint (rrange r (-9) 9) in
    let args = match rint r 6 with 0 -> [] | 1 | 2 -> [ arg () ] | 3 -> [ arg (); arg (); arg () ] | _ -> [ arg (); arg () ] in
    emit_case oc r ~stream:"slice-random" ~f:"slice" v args (M.flt_slice v args)
  done

(* ------------------------------------------------------------------ length / first / last / for / slice agree *)
let emit_observe oc r ~stream (v : M.value) =
  let els = M.flt_elements v in
  let texts = List.map text_of els in
  let loop = if List.mem None texts then [] else [ "loop", JL (List.map (function Some s -> JS (hex s) | None -> JS "") texts) ] in
  let nt = match v with M.VStr s -> not (is_ascii (sb s)) | M.VList (t, _) -> t <> M.LAny | M.VMap (t, _) -> t <> M.MAny | _ -> false in
  emit oc (Ob ([ "stream", JS stream; "f", JS "observe"; "v", JS (enc_in r v); "nt", JB nt;
                 "len", JS (enc_res (M.flt_length v)); "first", JS (enc_res (M.flt_first v)); "last", JS (enc_res (M.flt_last v));
                 "all", JS (enc_res (M.flt_slice v [ vint 0 ])); "n", JI (List.length els) ] @ loop))

let gen_observe oc r tier =
  List.iter (emit_observe oc r ~stream:"observe-fixed")
    ([ M.VNull; M.VBool true; vint 5; vstr ""; vstr "h\xc3\xa9llo"; vstr "a\xffb"; vstr "\xe2\x82"; vstr (utf8 0x1D11E ^ "\xc3");
       M.VList (M.LAny, []); M.VList (M.LStrings, []); M.VList (M.LInts, []); M.VList (M.LArray, []);
       M.VMap (M.MAny, []); M.VMap (M.MIntStr, [ (vint 10, vstr "x"); (vint 9, vstr "y"); (vint 2, vstr "z") ]) ]
     @ List.concat_map (fun n -> List.map snd (slice_inputs n)) [ 1; 3; 6 ]);
  let k = if tier = "thorough" then 20000 else 500 in
  for _ = 1 to k do emit_observe oc r ~stream:"observe-random" (rand_value r `Any) done

(* ------------------------------------------------------------------ simple one-argument-free filters *)
let gen_reverse oc r tier =
  List.iter (fun v -> emit_case oc r ~stream:"reverse-fixed" ~f:"reverse" v [] (M.flt_reverse v))
    ([ M.VNull; vstr ""; vstr "h\xc3\xa9llo"; vstr "a\xffb\xc3"; vstr "\xe2\x82\xac\xe2\x82"; vint 12; M.VMap (M.MAny, [ (vstr "a", vint 1) ]) ]
     @ List.concat_map (fun n -> List.map snd (slice_inputs n)) [ 0; 1; 2; 5 ]);
  let k = if tier = "thorough" then 16000 else 400 in
  for _ = 1 to k do
    let v = match rint r 3 with 0 -> vstr (rand_str r `Any 8) | 1 -> vstr (rand_str r `Valid 8) | _ -> rand_list r `Any in
    emit_case oc r ~stream:"reverse-random" ~f:"reverse" v [] (M.flt_reverse v)
  done

let gen_sort oc r tier =
  let ints l = List.map vint l and strs l = List.map vstr l in
  List.iter (fun v -> emit_case oc r ~stream:"sort-fixed" ~f:"sort" v [] (M.flt_sort v))
    [ M.VNull; M.VList (M.LAny, ints [ 10; 9; 2 ]); M.VList (M.LInts, [ vint 10; vint 9; vint 2 ]); M.VList (M.LArray, ints [ 10; 9; 2 ]);
      M.VList (M.LAny, [ vint 3; vstr "1"; vint 2; vstr "10" ]); M.VList (M.LStrings, strs [ "b"; "a"; "B"; utf8 0xE9; ""; "10"; "9" ]);
      M.VList (M.LAny, []); M.VList (M.LAny, ints [ 100; -5; 20; -30; 0; 20 ]); M.VList (M.LAny, [ vint 10; M.VNull; M.VBool true; vstr "9" ]);
      M.VList (M.LArray, [ vstr "b"; vint 10; vstr "a" ]); vstr "cba"; M.VMap (M.MAny, [ (vstr "a", vint 1) ]) ];
  let k = if tier = "thorough" then 20000 else 500 in
  for _ = 1 to k do
    let tag = rand_ltag r in
    let n = rint r 7 in
    let v = match rint r 4 with
      | 0 -> M.VList (tag, List.init n (fun _ -> match tag with M.LStrings -> vstr (string_of_int (rand_int r)) | _ -> vint (pick r [| 1; 2; 9; 10; 11; 19; 20; 100; -1; -10; -9; 0 |])))
      | _ -> rand_list_of r tag `Valid n in
    emit_case oc r ~stream:"sort-random" ~f:"sort" v [] (M.flt_sort v)
  done

(* ------------------------------------------------------------------ join / split *)
let seps = [| ","; ";"; " "; "-"; "|"; "x"; ""; ", "; "-+"; "a-z"; "z-a"; "^a"; "]["; "\\d"; utf8 0xE9; utf8 0x20AC; utf8 0x1D11E; utf8 0xE9 ^ "," |]
let contains_sub s sub =
  let n = String.length s and m = String.length sub in
  let rec go i = i + m <= n && (String.sub s i m = sub || go (i + 1)) in m > 0 && go 0

let gen_join_split oc r tier =
  (* join followed by split with the same separator d on strings that do not contain d *)
  let join_split d (xs : string list) tag =
    let lv = M.VList (tag, List.map vstr xs) in
    let j = M.flt_join lv [ vstr d ] in
    (match j with
     | M.FltOk js when d <> "" ->
         let sp = M.flt_split js [ vstr d ] in
         let class_free = List.for_all (fun x -> List.for_all (fun c -> not (List.mem c (M.uf8_cps (bs x)))) (M.uf8_cps (bs d))) xs in
         emit oc (Ob [ "stream", JS (if String.length d > 1 && List.length (M.uf8_cps (bs d)) > 1 then "known:split-delimiter-is-a-character-set" else "join-split");
                       "f", JS "joinsplit"; "v", JS (enc_in r lv); "args", JL [ JS (enc_in r (vstr d)) ];
                       "joined", JS (enc_res j); "exp", JS (enc_res sp); "demanded", JS (enc_res (M.FltOk (M.VList (M.LStrings, List.map vstr xs))));
                       "class_free", JB class_free; "nt", JB (String.length d > 1 || not (is_ascii (String.concat "" xs))) ])
     | _ -> ()) in
  (* the witness of Properties/C19.v C19_split_join_refuted, and its neighbours *)
  List.iter (fun (d, xs) -> join_split d xs M.LAny; join_split d xs M.LStrings)
    [ "-+", [ "a"; "b" ]; ", ", [ "a b"; "c" ]; ",", [ "a"; "b"; "" ]; utf8 0xE9, [ "a"; ""; "b" ]; "-+", [ "a" ]; ",", [ "" ]; "ab", [ "x"; "y"; "z" ] ];
  let k = if tier = "thorough" then 24000 else 700 in
  for i = 1 to k do
    let d = pick r seps in
    let kind = if rint r 4 = 0 then `Any else `Valid in
    let n = rrange r 1 5 in
    let xs = List.init n (fun _ -> let s = rand_str r kind 4 in if d <> "" && contains_sub s d then "q" else s) in
    join_split d xs (if rbool r then M.LStrings else M.LAny);
    (* split on its own: limits, empty strings, delimiters at the ends *)
    let s = match rint r 4 with
      | 0 -> "" | 1 -> d ^ rand_str r kind 3 ^ d ^ d ^ rand_str r kind 2 ^ d
      | _ -> String.concat d (List.init (rrange r 1 5) (fun _ -> rand_str r kind 3)) in
    let args = match rint r 6 with
      | 0 -> [] | 1 -> [ vstr d ] | 2 -> [ vstr d; vint (rrange r (-2) 4) ] | 3 -> [ vstr d; vstr (string_of_int (rrange r 0 3)) ]
      | 4 -> [ vint 3 ] | _ -> [ vstr d; vint (rrange r 1 3) ] in
    emit_case oc r ~stream:"split" ~f:"split" ~nt:(String.length d > 1 || List.length args > 1) (vstr s) args (M.flt_split (vstr s) args);
    (* join on its own: every representation, delimiters that are not strings *)
    if i mod 2 = 0 then begin
      let v = match rint r 6 with 0 -> M.VNull | 1 -> rand_scalar r kind | _ -> rand_list r kind in
      let args = match rint r 5 with 0 -> [] | 1 -> [ vint 1 ] | 2 -> [ M.VNull ] | _ -> [ vstr d ] in
      emit_case oc r ~stream:"join" ~f:"join" v args (M.flt_join v args)
    end
  done

(* ------------------------------------------------------------------ default *)
let gen_default oc r tier =
  let table = [ M.VNull; vstr ""; vstr "0"; vstr "00"; vstr "0.0"; vstr "false"; vstr "null"; vstr "\x00"; vstr " "; vint 0; vint 1; vint (-1); M.VBool false; M.VBool true;
                M.VList (M.LAny, []); M.VList (M.LStrings, []); M.VList (M.LInts, []); M.VList (M.LArray, []);
                M.VList (M.LAny, [ vint 0 ]); M.VList (M.LStrings, [ vstr "" ]); M.VList (M.LAny, [ M.VNull ]);
                M.VMap (M.MAny, []); M.VMap (M.MStrStr, []); M.VMap (M.MIntStr, []); M.VMap (M.MStrInt, []);
                M.VMap (M.MAny, [ (vstr "", M.VNull) ]); M.VMap (M.MIntStr, [ (vint 0, vstr "") ]) ] in
  List.iter (fun v ->
    List.iter (fun rep ->
      let d = vstr "D" in
      let res = M.flt_default v [ d ] in
      if (M.flt_is_empty v) <> (M.fsp_empty v) then (prerr_endline "c19: flt_is_empty differs from fsp_empty (contradicts C19_default_replaces_exactly_empty)"; exit 3);
      let venc = match v, rep with M.VInt z, 1 -> "j" ^ sb (M.flt_z_to_dec z) | M.VInt z, 2 -> "d" ^ sb (M.flt_z_to_dec z) | _ -> enc_plain v in
      if rep = 0 || (match v with M.VInt _ -> true | _ -> false) then
        emit oc (Ob ([ "stream", JS "default-table"; "f", JS "default"; "v", JS venc; "args", JL [ JS (enc_plain d) ];
                       "exp", JS (enc_res res); "nt", JB true; "empty", JB (M.fsp_empty v) ]
                     @ (match projection res with Some (k, o) -> [ "proj", JS k; "out", JS (hex o) ] | None -> [ "proj", JS "none" ])))) [ 0; 1; 2 ]) table;
  (* an undefined variable *)
  emit oc (Ob [ "stream", JS "default-table"; "f", JS "default"; "v", JS "u"; "args", JL [ JS (enc_plain (vstr "D")) ];
                "exp", JS (enc_res (M.flt_default M.VNull [ vstr "D" ])); "nt", JB true; "proj", JS "scalar"; "out", JS (hex "D"); "empty", JB true ]);
  let k = if tier = "thorough" then 12000 else 300 in
  for _ = 1 to k do
    let v = rand_value r `Any in
    let args = match rint r 5 with 0 -> [] | 1 -> [ rand_value r `Valid; vint 1 ] | _ -> [ rand_value r `Valid ] in
    emit_case oc r ~stream:"default-random" ~f:"default" ~extra:[ "empty", JB (M.fsp_empty v) ] v args (M.flt_default v args)
  done

(* ------------------------------------------------------------------ merge / keys *)
let gen_merge oc r tier =
  let m t l = M.VMap (t, l) in
  List.iter (fun (v, args) -> emit_case oc r ~stream:"merge-fixed" ~f:"merge" v args (M.flt_merge v args))
    [ M.VList (M.LAny, [ vint 1; vint 2 ]), [ M.VList (M.LAny, [ vint 3 ]) ];
      M.VList (M.LStrings, [ vstr "a" ]), [ M.VList (M.LAny, [ vint 3 ]) ];
      M.VList (M.LInts, [ vint 1 ]), [ M.VList (M.LInts, [ vint 2 ]); M.VList (M.LStrings, [ vstr "x" ]) ];
      M.VList (M.LArray, [ vint 1; vstr "b" ]), [ M.VList (M.LArray, [ vstr "c" ]) ];
      m M.MAny [ (vstr "a", vint 1); (vstr "b", vint 2) ], [ m M.MAny [ (vstr "b", vint 3); (vstr "c", vint 4) ] ];
      m M.MStrStr [ (vstr "a", vstr "1"); (vstr "b", vstr "2") ], [ m M.MAny [ (vstr "b", vint 3) ] ];
      m M.MStrStr [ (vstr "a", vstr "1"); (vstr "b", vstr "2") ], [ m M.MStrStr [ (vstr "b", vstr "9") ] ];
      m M.MAny [ (vstr "1", vstr "one"); (vstr "b", vstr "2") ], [ m M.MIntStr [ (vint 1, vstr "uno") ] ];
      m M.MIntStr [ (vint 1, vstr "one"); (vint 10, vstr "ten") ], [ m M.MAny [ (vstr "10", vint 0); (vstr "x", M.VNull) ] ];
      m M.MStrInt [ (vstr "a", vint 1) ], [ m M.MStrStr [ (vstr "a", vstr "s") ]; m M.MStrInt [ (vstr "a", vint 7); (vstr "z", vint 0) ] ];
      M.VList (M.LAny, [ vint 1 ]), [ m M.MAny [ (vstr "a", vint 1) ] ]; vstr "abc", [ M.VList (M.LAny, [ vint 1 ]) ]; M.VNull, [ M.VList (M.LAny, []) ];
      m M.MAny [ (vstr "a", vint 1) ], [ M.VList (M.LAny, [ vint 1 ]); M.VNull; m M.MAny [] ] ];
  let k = if tier = "thorough" then 20000 else 500 in
  for _ = 1 to k do
    let v, args =
      if rbool r then rand_list r `Valid, List.init (rint r 4) (fun _ -> if rint r 6 = 0 then rand_scalar r `Valid else rand_list r `Valid)
      else rand_map r `Valid, List.init (rint r 4) (fun _ -> if rint r 6 = 0 then rand_list r `Valid else rand_map r `Valid) in
    emit_case oc r ~stream:"merge-random" ~f:"merge" v args (M.flt_merge v args)
  done

let gen_keys oc r tier =
  List.iter (fun v -> emit_case oc r ~stream:"keys-fixed" ~f:"keys" v [] (M.flt_keys v))
    [ M.VNull; M.VMap (M.MAny, []); M.VMap (M.MAny, [ (vstr "b", vint 1); (vstr "a", vint 2) ]);
      M.VMap (M.MIntStr, [ (vint 10, vstr "a"); (vint 9, vstr "b"); (vint 2, vstr "c"); (vint (-1), vstr "d") ]);
      M.VMap (M.MStrInt, [ (vstr "x", vint 1) ]); M.VMap (M.MStrStr, [ (vstr "", vstr ""); (vstr (utf8 0xE9), vstr "") ]);
      M.VList (M.LAny, [ vint 1 ]); vstr "x"; vint 3 ];
  let k = if tier = "thorough" then 12000 else 300 in
  for _ = 1 to k do let v = rand_map r `Valid in emit_case oc r ~stream:"keys-random" ~f:"keys" v [] (M.flt_keys v) done

(* ------------------------------------------------------------------ upper / lower / capitalize / trim *)
let gen_text oc r tier =
  let fixed = [ ""; "hello World"; "  h\xc3\xa9llo w\xc3\xb6rld  "; utf8 0x1C5 ^ "x"; utf8 0xDF; utf8 0x131 ^ utf8 0x130; "\xff"; "\xc3\xa9\xc3"; utf8 0x3A3 ^ utf8 0x3C2;
                " \t\n"; utf8 0xA0 ^ "a" ^ utf8 0x2003; "\xa0a\x85"; "a\xe2\x80"; utf8 0x212A ^ "elvin"; utf8 0x10428 ^ utf8 0x10400; "\xc2" ^ " x" ] in
  (* adjacent invalid fragments can form a code point that is not in the case table: no prediction then *)
  let known_case s = List.for_all (fun c -> let c = int_of_n c in c < 0x80 || List.exists (fun (x, _, _) -> x = c) case_table) (M.uf8_cps (bs s)) in
  let one s =
    let v = vstr s in
    List.iter (fun (f, res) -> if f = "trim" || known_case s then emit_case oc r ~stream:("text-" ^ f) ~f ~nt:(not (is_ascii s)) v [] res)
      [ "upper", M.flt_upper up_n v; "lower", M.flt_lower low_n v; "capitalize", M.flt_capitalize up_n low_n v; "trim", M.flt_trim v [] ] in
  List.iter one fixed;
  List.iter (fun v -> List.iter (fun (f, res) -> emit_case oc r ~stream:("text-" ^ f) ~f v [] res)
      [ "upper", M.flt_upper up_n v; "lower", M.flt_lower low_n v; "capitalize", M.flt_capitalize up_n low_n v; "trim", M.flt_trim v [] ])
    [ M.VNull; vint (-12); M.VBool true ];
  let k = if tier = "thorough" then 20000 else 500 in
  for _ = 1 to k do one (rand_str r ~sp:true (if rint r 3 = 0 then `Any else `Valid) 9) done;
  for _ = 1 to k / 2 do
    let s = rand_str r ~sp:true `Any 8 in
    let cut = match rint r 6 with 0 -> "" | 1 -> "x" | 2 -> "ab" | 3 -> utf8 0xE9 ^ " " | 4 -> "\xff" | _ -> rand_str r ~sp:true `Any 3 in
    let a = if rint r 10 = 0 then vint 1 else vstr cut in
    emit_case oc r ~stream:"text-trim-chars" ~f:"trim" ~nt:(not (is_ascii (s ^ cut))) (vstr s) [ a ] (M.flt_trim (vstr s) [ a ])
  done;
  (* the case table the predictions used, for the runner to check against unicode.ToUpper / ToLower *)
  emit oc (Ob [ "stream", JS "case-table"; "f", JS "casetable"; "nt", JB false;
                "table", JL (List.map (fun (c, u, l) -> JL [ JI c; JI u; JI l ]) case_table) ])

(* ------------------------------------------------------------------ numbers *)
let methods = [| "common"; "ceil"; "floor" |]
let rmethod = function "ceil" -> M.FMCeil | "floor" -> M.FMFloor | _ -> M.FMCommon

(* integers: exact in the model *)
let gen_int_numbers oc r tier =
  let k = if tier = "thorough" then 24000 else 600 in
  for _ = 1 to k do
    let z = match rint r 6 with 0 -> pick r [| 0; 5; 15; 25; 1250; 1350; -15; -25; 999; 1000; 1234567; -1234567; 999999 |] | 1 -> rrange r (-3000000) 3000000 | _ -> rrange r (-3000) 3000 in
    let v = match rint r 8 with 0 -> vstr (string_of_int z) | 1 -> M.VBool (z land 1 = 0) | _ -> vint z in
    emit_case oc r ~stream:"abs-int" ~f:"abs" ~nt:(z < 0) v [] (M.flt_abs v);
    let p = rrange r (-4) 3 in
    let args = match rint r 5 with 0 -> [] | 1 -> [ vint p ] | 2 -> [ vstr (string_of_int p); vstr (pick r methods) ] | 3 -> [ vint p; vstr (pick r [| "CEIL"; "Floor"; "ceiling"; "nonsense"; "" |]) ] | _ -> [ vint p; vstr (pick r methods) ] in
    emit_case oc r ~stream:"round-int" ~f:"round" ~nt:(p < 0) v args (M.flt_round v args);
    let d = rrange r (-2) 4 in
    let args = match rint r 6 with 0 -> [] | 1 -> [ vint d ] | 2 -> [ vint d; vstr "," ] | 3 -> [ vint d; vstr ","; vstr "." ] | 4 -> [ vint d; vstr ""; vstr "" ]
                                 | _ -> [ vint d; vstr (pick r [| "."; ","; "ab"; utf8 0x20AC |]); vstr (pick r [| ","; " "; "'"; utf8 0xA0; "cd"; "" |]) ] in
    emit_case oc r ~stream:"number-format-int" ~f:"number_format" ~nt:(d < 0 || abs z >= 1000) v args (M.flt_number_format v args)
  done;
  List.iter (fun v -> List.iter (fun (f, res) -> emit_case oc r ~stream:"number-not-a-number" ~f v [] res)
      [ "abs", M.flt_abs v; "round", M.flt_round v []; "number_format", M.flt_number_format v [] ])
    [ M.VNull; M.VList (M.LAny, [ vint 1 ]); M.VMap (M.MAny, []) ]

(* ---- decimals: what exact arithmetic demands, and what binary64 gives ---- *)
(* strconv.FormatFloat(x, 'f', -1, 64): the shortest digits that read back as x, without exponent *)
let go_format_float (x : float) : string =
  if x = 0.0 then (if 1.0 /. x < 0.0 then "-0" else "0") else begin
    let rec shortest p = let s = Printf.sprintf "%.*e" p x in if p >= 17 || float_of_string s = x then s else shortest (p + 1) in
    let s = shortest 0 in
    (* s = [-]d[.ddd]e[+-]XX *)
    let neg = s.[0] = '-' in
    let s = if neg then String.sub s 1 (String.length s - 1) else s in
    let ei = String.index s 'e' in
    let mant = String.sub s 0 ei and ex = int_of_string (String.sub s (ei + 1) (String.length s - ei - 1)) in
    let digits = String.concat "" (String.split_on_char '.' mant) in
    let nd = String.length digits in
    let pointpos = 1 + ex in      (* number of digits before the point *)
    let body =
      if pointpos <= 0 then "0." ^ String.make (- pointpos) '0' ^ digits
      else if pointpos >= nd then digits ^ String.make (pointpos - nd) '0'
      else String.sub digits 0 pointpos ^ "." ^ String.sub digits pointpos (nd - pointpos) in
    (if neg then "-" else "") ^ body
  end

(* filterRound on a float64 *)
let go_round (x : float) (p : int) (meth : string) : string =
  let shift = 10.0 ** float_of_int p in
  let y = x *. shift in
  let res = (match meth with "ceil" -> ceil y | "floor" -> floor y | _ -> Float.round y) /. shift in
  (* a zero result has no sign in exact arithmetic; the runner drops the sign of the engine's zero as well *)
  let s = if p = 0 then Printf.sprintf "%.0f" res else go_format_float res in
  if s = "-0" then "0" else s

let group sepr digits =
  let n = String.length digits in
  let b = Buffer.create 16 in
  String.iteri (fun i c -> if i > 0 && (n - i) mod 3 = 0 then Buffer.add_string b sepr; Buffer.add_char b c) digits;
  Buffer.contents b

(* filterNumberFormat on a float64, with the repairs of C19-number-format-negative-decimals-and-zero.patch *)
let go_number_format (x : float) (d : int) (point : string) (sepr : string) : string =
  let d = max d 0 in
  let s = Printf.sprintf "%.*f" d x in
  let ip, fp = match String.index_opt s '.' with Some i -> String.sub s 0 i, Some (String.sub s (i + 1) (String.length s - i - 1)) | None -> s, None in
  let neg = String.length ip > 0 && ip.[0] = '-' in
  let ip = if neg then String.sub ip 1 (String.length ip - 1) else ip in
  let allzero = let z = ref true in String.iter (fun c -> if c <> '0' && c <> '.' && c <> '-' then z := false) s; !z in
  let ip = (if sepr = "" then ip else group sepr ip) in
  let ip = if neg && not allzero then "-" ^ ip else ip in
  if d > 0 then ip ^ point ^ (match fp with Some f -> f | None -> String.make d '0') else ip

let dec_text m sc =      (* the decimal literal m / 10^sc *)
  let neg = m < 0 in
  let a = string_of_int (abs m) in
  let a = if String.length a <= sc then String.make (sc - String.length a + 1) '0' ^ a else a in
  let n = String.length a in
  (if neg then "-" else "") ^ (if sc = 0 then a else String.sub a 0 (n - sc) ^ "." ^ String.sub a (n - sc) sc)

let gen_decimals oc r tier =
  let emit_dec ~f ~m ~sc ~args ~argenc ~demanded ~binary ~cls =
    let stream = if demanded = binary then f ^ "-decimal" else match cls with Some c -> "known:" ^ c | None -> f ^ "-decimal-unclassified" in
    emit oc (Ob [ "stream", JS stream; "f", JS "dec"; "filter", JS f; "v", JS ("f" ^ dec_text m sc); "m", JI m; "sc", JI sc;
                  "args", JL (List.map (fun a -> JS a) argenc); "demanded", JS (hex demanded); "binary", JS (hex binary);
                  "nt", JB (demanded <> binary || sc > 0) ]) in
  let one m sc =
    let x = { M.fd_m = z_of_int m; M.fd_sc = nat_of_int sc } in
    let fx = float_of_string (dec_text m sc) in
    (* abs *)
    emit_dec ~f:"abs" ~m ~sc ~args:[] ~argenc:[] ~demanded:(sb (M.fsp_dec_text (M.fsp_dec_abs x))) ~binary:(go_format_float (Float.abs fx)) ~cls:None;
    (* round *)
    (* one time in four: ceil or floor at a precision the input already has (the grid-point class) *)
    let grid = rint r 4 = 0 in
    let p = if grid then rrange r sc 4 else rrange r (-2) 4 in
    let meth = if grid then pick r [| "ceil"; "floor" |] else pick r methods in
    let demanded = sb (M.fsp_dec_text (M.fsp_dec_round (rmethod meth) x (z_of_int p))) in
    let cls = if meth = "common" then (if M.fsp_tie_not_binary_exact x (z_of_int p) then Some "decimal-tie-not-binary-exact" else None)
      else (if M.fsp_grid_not_binary_exact x (z_of_int p) then Some "decimal-grid-point-not-binary-exact" else None) in
    emit_dec ~f:"round" ~m ~sc ~args:[ p ] ~argenc:[ enc_plain (vint p); enc_plain (vstr meth) ] ~demanded ~binary:(go_round fx p meth) ~cls;
    (* number_format *)
    let d = rrange r (-1) 4 in
    let point = pick r [| "."; "," |] and sepr = pick r [| ","; " "; "" |] in
    let demanded = sb (M.fsp_dec_number_format x (z_of_int d) (bs point) (bs sepr)) in
    let dz = z_of_int (max d 0) in
    let cls = if M.fsp_tie_not_binary_exact x dz then Some "decimal-tie-not-binary-exact"
      else if M.fsp_tie_binary_exact_even x dz then Some "number-format-tie-half-even" else None in
    emit_dec ~f:"number_format" ~m ~sc ~args:[ d ] ~argenc:[ enc_plain (vint d); enc_plain (vstr point); enc_plain (vstr sepr) ] ~demanded
      ~binary:(go_number_format fx d point sepr) ~cls in
  (* the witnesses of the known classes and their neighbours *)
  List.iter (fun (m, sc) -> for _ = 1 to 6 do one m sc done)
    [ (2675, 3); (1005, 3); (285, 3); (1255, 3); (10075, 3); (5, 1); (25, 1); (125, 3); (12345, 1); (-25, 1); (-2445, 3); (7, 2); (-2999, 1); (-2033, 2);
      (15, 1); (35, 1); (45, 2); (55, 2); (375, 3); (-4, 1); (-49, 2); (0, 1); (1, 3); (999999, 3); (9995, 1) ];
  let k = if tier = "thorough" then 60000 else 1500 in
  for _ = 1 to k do
    let sc = rrange r 1 4 in
    let m = match rint r 4 with
      | 0 -> (rrange r (-3000) 3000) * 10 + 5                       (* ends in 5: ties at the last place but one *)
      | 1 -> (rrange r (-400) 400) * 125                             (* multiples of 1/8: binary fractions when sc = 3 *)
      | _ -> rrange r (-300000) 300000 in
    one m sc
  done


(* ------------------------------------------------------------------ several values derived from one base *)
(* A base list and a sequence of {% set xi = xj|filter(args) %} steps (merge, slice, sort, reverse; an argument can be an
   earlier value), every value printed only after all were computed. Filters are functions of their inputs in the model,
   so each value is what its own step computed, whatever was derived from the same source later: a filter that
   writes into the backing array of an operand (append into spare capacity, sorting in place, a window of the
   caller's slice) shows up as an earlier value that changed. cap: spare capacity of the base slice built in Go. *)
type dstep = { src : int; df : string; dargs : [ `V of M.value | `R of int ] list }

let emit_derive oc r ~stream (base : M.value) (cap : int) (steps : dstep list) =
  let vals = ref [ base ] in
  let ok = ref true in
  let used = ref [] in
  List.iter (fun st ->
    if !ok then begin
      let get i = List.nth (List.rev !vals) i in
      let args = List.map (function `V v -> v | `R i -> get i) st.dargs in
      let res = match st.df with
        | "merge" -> M.flt_merge (get st.src) args | "slice" -> M.flt_slice (get st.src) args
        | "sort" -> M.flt_sort (get st.src) | "reverse" -> M.flt_reverse (get st.src) | _ -> M.FltUnmod in
      match res with
      | M.FltOk (M.VList _ as v) -> vals := v :: !vals; used := st :: !used
      | _ -> ok := false
    end) steps;
  let vals = List.rev !vals and steps = List.rev !used in
  let outs = List.map (fun v -> match projection (M.FltOk v) with Some (_, o) -> Some o | None -> None) vals in
  if steps <> [] && not (List.mem None outs) then
    emit oc (Ob [ "stream", JS stream; "f", JS "derive"; "v", JS (enc_in r base); "cap", JI cap; "nt", JB true;
                  "steps", JL (List.map (fun st -> Ob [ "src", JI st.src; "f", JS st.df;
                      "args", JL (List.map (function `V v -> JS (enc_in r v) | `R i -> JS ("r" ^ string_of_int i)) st.dargs) ]) steps);
                  (* the representation and the text of the items: items that sort as equal (null and the empty string,
                     1 and '1') may come in any order, Go's sort.Slice is not stable *)
                  "exp", JL (List.map (fun v -> match v with
                      | M.VList (t, xs) -> JS ("L" ^ ltag_code t ^ "(" ^ String.concat " " (List.map (fun x -> match text_of x with Some s -> hex s | None -> "?") xs) ^ ")")
                      | _ -> JS (enc_out v)) vals);
                  "outs", JL (List.map (function Some o -> JS (hex o) | None -> JS "") outs) ])

let gen_derive oc r tier =
  let l xs = M.VList (M.LAny, List.map vint xs) in
  let v x = `V x in
  (* two merges of one earlier merge result; merges of a slice of a longer list; of a base with spare capacity *)
  List.iter (fun (base, cap, steps) -> emit_derive oc r ~stream:"derive-fixed" base cap steps)
    [ l [ 1; 2; 3 ], 0, [ { src = 0; df = "merge"; dargs = [ v (l [ 4 ]) ] }; { src = 1; df = "merge"; dargs = [ v (l [ 5 ]) ] }; { src = 1; df = "merge"; dargs = [ v (l [ 6 ]) ] } ];
      l [ 1; 2; 3; 4; 5 ], 0, [ { src = 0; df = "slice"; dargs = [ v (vint 0); v (vint 2) ] }; { src = 1; df = "merge"; dargs = [ v (l [ 9 ]) ] }; { src = 1; df = "merge"; dargs = [ v (l [ 8; 7 ]) ] } ];
      l [ 1; 2 ], 3, [ { src = 0; df = "merge"; dargs = [ v (l [ 5 ]) ] }; { src = 0; df = "merge"; dargs = [ v (l [ 6 ]) ] } ];
      l [ 3; 1; 2 ], 2, [ { src = 0; df = "sort"; dargs = [] }; { src = 0; df = "reverse"; dargs = [] }; { src = 1; df = "merge"; dargs = [ `R 2 ] }; { src = 1; df = "merge"; dargs = [ `R 0; v (l [ 0 ]) ] } ];
      l [ 1; 2; 3; 4 ], 0, [ { src = 0; df = "slice"; dargs = [ v (vint 1); v (vint 2) ] }; { src = 1; df = "merge"; dargs = [ v (l [ 7; 7; 7 ]) ] }; { src = 0; df = "reverse"; dargs = [] } ] ];
  let k = if tier = "thorough" then 20000 else 1200 in
  for _ = 1 to k do
    let tag = if rint r 4 = 0 then rand_ltag r else M.LAny in
    let base = rand_list_of r tag `Valid (rrange r 0 5) in
    let cap = if rbool r then 0 else rrange r 1 4 in
    let n = rrange r 2 6 in
    let steps = List.init n (fun i ->
      (* sources are reused on purpose: siblings derived from one value *)
      let src = if i > 0 && rint r 3 > 0 then rint r (min (i + 1) 2) else rint r (i + 1) in
      match rint r 7 with
      | 0 -> { src; df = "sort"; dargs = [] }
      | 1 -> { src; df = "reverse"; dargs = [] }
      | 2 -> { src; df = "slice"; dargs = [ v (vint (rrange r (-3) 3)) ] @ (if rbool r then [ v (vint (rrange r (-2) 4)) ] else []) }
      | _ ->
          let arg () = if rint r 4 = 0 then `R (rint r (i + 1)) else v (rand_list_of r (if rint r 5 = 0 then rand_ltag r else M.LAny) `Valid (rrange r 0 3)) in
          { src; df = "merge"; dargs = List.init (rrange r 1 2) (fun _ -> arg ()) }) in
    emit_derive oc r ~stream:"derive-random" base cap steps
  done

(* ------------------------------------------------------------------ *)
let run ~seed ~tier oc =
  let r = mk_rng seed in
  gen_slice oc r tier;
  gen_observe oc r tier;
  emit oc (Ob [ "stream", JS "observe-go"; "f", JS "observe-go"; "nt", JB true ]);
  gen_reverse oc r tier;
  gen_sort oc r tier;
  gen_join_split oc r tier;
  gen_default oc r tier;
  gen_merge oc r tier;
  gen_keys oc r tier;
  gen_text oc r tier;
  gen_int_numbers oc r tier;
  gen_decimals oc r tier;
  gen_derive oc r tier
