(* C08 case generation: expression trees printed by the extracted (verified) printers in several
   parenthesisation / spacing / quoting variants, with the model's predictions: the tree the extracted
   parser model builds from each printed text (as the canonical S-expression the Go hook prints), the
   value of the tree under the reference evaluator Spec.ExprEval when the tree lies in its fragment,
   and the side conditions of the syntactic positions. Plus malformed streams (token soups, truncated
   expressions, random bytes for the lexer) with the model's verdict. *)
open Util
open Model

let bs = bytes_of_string
let sb = string_of_bytes
let z_of_int i = if i = 0 then Z0 else if i > 0 then Zpos (pos_of_int i) else Zneg (pos_of_int (-i))
let z_str z = sb (spec_show_int z)

(* ---- the fixed context (mirrored by c08Ctx in harness/c08.go) ---- *)
let int_vars = [ "i5", 5; "i3", 3; "i0", 0; "neg", -7; "big", 9007199254740991; "starts", 2; "with", 4; "defined", 6 ]
let str_vars = [ "s", "str"; "emp", ""; "sp", "a b"; "q", "it's"; "num", "12" ]
let bool_vars = [ "yes", true; "no", false ]
let list_vars = [ "l"; "el"; "ls"; "lng" ]
let env : spec_env =
  List.map (fun (k, v) -> (bs k, VInt (z_of_int v))) int_vars
  @ List.map (fun (k, v) -> (bs k, VStr (bs v))) str_vars
  @ List.map (fun (k, v) -> (bs k, VBool v)) bool_vars
  @ [ (bs "l", VList (LAny, [ VInt (z_of_int 1); VInt (z_of_int 2); VInt (z_of_int 3) ]));
      (bs "el", VList (LAny, []));
      (bs "ls", VList (LAny, [ VStr (bs "a"); VStr (bs "b") ]));
      (* long enough for whatever a container look-up does differently above some size *)
      (bs "lng", VList (LAny, List.init 60 (fun i -> VInt (z_of_int (i + 1))))) ]

(* ---- canonical S-expression, the same syntax as VerifSexp in hooks/verif_hooks_parse.go ---- *)
let under s = String.map (fun c -> if c = ' ' then '_' else c) s
let rec sexp (e : expr) : string =
  let lst es = String.concat "" (List.map (fun a -> " " ^ sexp a) es) in
  match e with
  | ELit LNull -> "(null)"
  | ELit (LBool b) -> "(bool " ^ (if b then "true" else "false") ^ ")"
  | ELit (LInt z) -> "(int " ^ z_str z ^ ")"
  | ELit (LStr s) -> "(str " ^ hexb s ^ ")"
  | EVar x -> "(var " ^ sb x ^ ")"
  | EAttr (b, a) -> "(attr " ^ sexp b ^ " " ^ sb a ^ ")"
  | EItem (b, i) -> "(item " ^ sexp b ^ " " ^ sexp i ^ ")"
  | EUn (o, a) -> "(un " ^ sb (unop_str o) ^ " " ^ sexp a ^ ")"
  | EBin (o, l, r) -> "(bin " ^ under (sb (binop_str o)) ^ " " ^ sexp l ^ " " ^ sexp r ^ ")"
  | ECond (c, t, f) -> "(cond " ^ sexp c ^ " " ^ sexp t ^ " " ^ sexp f ^ ")"
  | EArr es -> "(arr" ^ lst es ^ ")"
  | EHash kvs ->
      let ps = List.map (fun (k, v) -> "(" ^ sexp k ^ " " ^ sexp v ^ ")") kvs in   (* source order, as the parser keeps it *)
      if ps = [] then "(hash)" else "(hash " ^ String.concat " " ps ^ ")"
  | EFilter (b, f, es) -> "(filter " ^ sexp b ^ " " ^ sb f ^ lst es ^ ")"
  | ECall (f, es) -> "(call " ^ sb f ^ lst es ^ ")"
  | EModCall (m, f, es) -> "(modcall " ^ sexp m ^ " " ^ sb f ^ lst es ^ ")"
  | ETest (b, t, es, neg) ->
      let t = "(test " ^ sexp b ^ " " ^ sb t ^ lst es ^ ")" in
      if neg then "(un not " ^ t ^ ")" else t

let outcome_str = function
  | Model.Ok e -> "ok:" ^ sexp e
  | Err _ -> "err"
  | OutOfFuel -> "outoffuel"
  | Unmodelled -> "unmodelled"

(* ---- generators ---- *)
let v x = EVar (bs x)
let ilit i = ELit (LInt (z_of_int i))
let slit s = ELit (LStr (bs s))

let str_pool = [| "a"; "str"; ""; "it's"; "say \"hi\""; "a\\b"; "}}"; "%}"; "{{ x }}"; "a b"; "0"; "12"; "x#y";
                  "tab\there"; "\xc3\xa9t\xc3\xa9"; "line\nbreak"; "Hello"; "st"; "tr"; "1.0"; "-"; "a,b"; "(x)"; "?:";
                  "\\n"; "'"; "\""; "}"; "{#"; "\\'x"; "a\\"; "\\"; "two\\\\"; "q'\\";
                  (* a quote of the other kind ahead of irregular whitespace inside the literal *)
                  "it's  two"; "say \"hi\"  now"; "o'clock\tsharp"; "it's\nline two"; "x'  '  y"; "a \"b  c"; "don't   stop  "; "  'lead" |]

let gen_lit_int r =
  ilit (wpick r [ (8, rint r 10); (3, rint r 100); (1, 0); (1, 1); (1, 2); (1, 9007199254740991);
                  (1, 9007199254740992); (1, 94906265); (1, 4503599627370496) ])

let rec gen_int r d : expr =
  if d <= 0 then (if rint r 3 = 0 then v (fst (pickl r int_vars)) else gen_lit_int r)
  else
    match rint r 22 with
    | 0 | 1 -> gen_lit_int r
    | 2 | 3 -> v (fst (pickl r int_vars))
    | 4 -> EUn (UNeg, gen_int r (d - 1))
    | 5 -> EUn (UPos, gen_int r (d - 1))
    | 6 | 7 -> EBin (BAdd, gen_int r (d - 1), gen_int r (d - 1))
    | 8 -> EBin (BSub, gen_int r (d - 1), gen_int r (d - 1))
    | 9 ->
        (* left operand ending in a closing bracket, right operand starting with a digit: written without
           blanks this is ")-1", "]-1" *)
        let l = match rint r 5 with
          | 0 -> EItem (v "l", ilit (rint r 3))
          | 1 -> ECall (bs "max", [ gen_int r (d - 1); gen_lit_int r ])
          | 2 -> ECond (gen_bool r (d - 1), gen_int r (d - 1), gen_lit_int r)
          | 3 -> EItem (EHash [ (slit "a", gen_int r (d - 1)) ], slit "a")
          | _ -> EFilter (gen_int r (d - 1), bs "default", [ ilit 1 ]) in
        EBin (pick r [| BSub; BSub; BAdd |], l, gen_lit_int r)
    | 10 | 11 -> EBin (BMul, gen_int r (d - 1), gen_int r (d - 1))
    | 12 -> EBin (BDiv, gen_int r (d - 1), gen_int r (d - 1))
    | 13 -> EBin (BMod, gen_int r (d - 1), gen_int r (d - 1))
    | 14 -> EBin (BPow, gen_int r (d - 1), ilit (rint r 4))
    | 15 -> ECond (gen_bool r (d - 1), gen_int r (d - 1), gen_int r (d - 1))
    | 16 -> EFilter (gen_int r (d - 1), bs "abs", [])
    | 17 -> EFilter (gen_list r (d - 1), bs "length", [])
    | 18 -> EItem (v "l", ilit (rint r 3))
    | 19 -> (match rint r 7 with
             | 0 -> EAttr (v "m", bs "i")
             | 1 -> EAttr (EAttr (v "m", bs "n"), bs "x")
             | 2 -> EItem (EAttr (v "m", bs "n"), slit "x")
             | 3 -> EAttr (EItem (v "m", slit "n"), bs "x")
             | 4 -> EAttr (EHash [ (slit "a", gen_int r (d - 1)); (slit "b", gen_any r (d - 1)) ], bs "a")
             | 5 -> EAttr (ECond (gen_bool r (d - 1), v "m", EAttr (v "m", bs "n")), bs (pick r [| "i"; "x" |]))
             | _ -> EAttr (EItem (EArr [ v "m" ], ilit 0), bs "i"))
    | 20 -> ECall (bs "max", [ gen_int r (d - 1); gen_int r (d - 1) ])
    | _ -> EFilter (v "nothing", bs "default", [ gen_int r (d - 1) ])

and gen_bool r d : expr =
  if d <= 0 then (match rint r 3 with 0 -> ELit (LBool (rbool r)) | 1 -> v (fst (pickl r bool_vars)) | _ -> v "i0")
  else
    match rint r 23 with
    | 20 ->
        (* comparisons at the boundary: both sides have the same value *)
        let a, b = pick r [| (v "i5", ilit 5); (v "i3", ilit 3); (EBin (BAdd, v "i3", ilit 2), v "i5"); (v "neg", EUn (UNeg, ilit 7));
                             (EBin (BMul, v "i3", ilit 2), v "defined"); (ilit 9007199254740991, v "big"); (v "i0", EBin (BSub, v "i3", ilit 3)) |] in
        let a, b = if rbool r then (a, b) else (b, a) in
        EBin (pick r [| BLt; BGt; BLe; BGe; BEq; BNe |], a, b)
    | 21 | 22 ->
        (* the operand that must not be evaluated fails when it is *)
        let boom = if rbool r then EBin (BDiv, gen_int r (d - 1), v "i0") else EBin (BMod, gen_int r (d - 1), ilit 0) in
        let truthy = pick r [| v "yes"; ilit 1; slit "a"; EBin (BLt, ilit 1, ilit 2); v "i5"; EUn (UNot, v "no") |] in
        let falsy = pick r [| v "no"; ilit 0; v "i0"; v "emp"; EBin (BGt, ilit 1, ilit 2); EUn (UNot, v "yes"); slit "" |] in
        (match rint r 4 with
         | 0 -> EBin (BOr, truthy, boom)
         | 1 -> EBin (BAnd, falsy, boom)
         | 2 -> ECond (truthy, gen_any r (d - 1), boom)
         | _ -> ECond (falsy, boom, gen_any r (d - 1)))
    | 0 -> ELit (LBool (rbool r))
    | 1 -> v (fst (pickl r bool_vars))
    | 2 | 3 -> EUn (UNot, gen_any r (d - 1))
    | 4 | 5 | 6 -> EBin (pick r [| BLt; BGt; BLe; BGe; BEq; BNe |], gen_int r (d - 1), gen_int r (d - 1))
    | 7 -> EBin (pick r [| BEq; BNe |], gen_str r (d - 1), gen_str r (d - 1))
    | 8 -> EBin (pick r [| BEq; BNe |], gen_bool r (d - 1), gen_bool r (d - 1))
    | 9 | 10 -> EBin (BAnd, gen_any r (d - 1), gen_any r (d - 1))
    | 11 | 12 -> EBin (BOr, gen_any r (d - 1), gen_any r (d - 1))
    | 13 -> EBin (pick r [| BIn; BNotIn |], gen_int r (d - 1), gen_list r (d - 1))
    | 14 -> EBin (pick r [| BIn; BNotIn |], gen_str r (d - 1), gen_str r (d - 1))
    | 15 -> EBin (pick r [| BStartsWith; BEndsWith |], gen_str r (d - 1), gen_str r (d - 1))
    | 16 -> ETest (gen_int r (d - 1), bs (pick r [| "odd"; "even" |]), [], rbool r)
    | 17 -> ETest ((if rbool r then v (pick r [| "i5"; "nothing"; "s" |]) else EAttr (v "m", bs (pick r [| "k"; "zz" |]))), bs "defined", [], rbool r)
    | 18 -> ETest (gen_int r (d - 1), bs "divisibleby", [ ilit (1 + rint r 4) ], rbool r)
    | _ -> ECond (gen_bool r (d - 1), gen_bool r (d - 1), gen_bool r (d - 1))

and gen_str r d : expr =
  if d <= 0 then (if rint r 3 = 0 then v (fst (pickl r str_vars)) else slit (pick r str_pool))
  else
    match rint r 12 with
    | 0 | 1 -> slit (pick r str_pool)
    | 2 -> v (fst (pickl r str_vars))
    | 3 | 4 | 5 -> EBin (BConcat, gen_any r (d - 1), gen_any r (d - 1))
    | 6 -> EFilter (gen_str r (d - 1), bs "upper", [])
    | 7 -> ECond (gen_bool r (d - 1), gen_str r (d - 1), gen_str r (d - 1))
    | 8 -> (match rint r 3 with
            | 0 -> EAttr (v "m", bs "k")
            | 1 -> EAttr (EItem (v "ll", ilit 0), bs "name")
            | _ -> EAttr (EFilter (v "ll", bs "first", []), bs "name"))
    | 9 -> EItem (v "m", slit "k")
    | 10 -> EItem (EHash [ (slit "a", gen_str r (d - 1)); (slit "b", gen_any r (d - 1)) ], slit (pick r [| "a"; "b" |]))
    | _ -> EFilter (v (pick r [| "nothing"; "emp" |]), bs "default", [ gen_str r (d - 1) ])

and gen_list r d : expr =
  if d <= 0 then (if rbool r then v (pickl r list_vars) else EArr [])
  else
    match rint r 8 with
    | 0 -> v (pickl r list_vars)
    | 1 | 2 -> EArr (List.init (rint r 4) (fun _ -> gen_any r (d - 1)))
    | 3 -> if rint r 4 = 0 then ECall (bs "range", [ ilit 1; ilit (55 + rint r 10) ]) else ECall (bs "range", [ ilit (rint r 3); ilit (2 + rint r 3) ])
    | 4 -> ECond (gen_bool r (d - 1), gen_list r (d - 1), gen_list r (d - 1))
    | 5 -> EFilter (v "nothing", bs "default", [ gen_list r (d - 1) ])
    | 6 -> EArr [ gen_int r (d - 1); gen_str r (d - 1) ]
    | _ -> EArr [ EHash [ (slit "k", gen_any r (d - 1)) ]; gen_list r (d - 1) ]

and gen_any r d : expr =
  match rint r 10 with
  | 0 | 1 | 2 | 3 -> gen_int r d
  | 4 | 5 | 6 -> gen_bool r d
  | 7 | 8 -> gen_str r d
  | _ -> if d >= 1 && rint r 3 = 0 then gen_list r d else gen_int r d

(* untyped trees: any constructor over any operands; evaluation often fails, which the runner
   requires to fail alike in every spelling and position *)
let all_bin = [| BOr; BAnd; BEq; BNe; BLt; BGt; BLe; BGe; BIn; BNotIn; BStartsWith; BEndsWith; BAdd; BSub; BConcat; BMul; BDiv; BMod; BPow |]
let odd_names = [| "i5"; "s"; "l"; "m"; "yes"; "and"; "or"; "in"; "is"; "matches"; "starts"; "ends"; "with"; "defined"; "_x1"; "nothing" |]
let rec gen_chaos r d : expr =
  if d <= 0 then
    (match rint r 6 with
     | 0 -> gen_lit_int r | 1 -> slit (pick r str_pool) | 2 -> ELit (LBool (rbool r)) | 3 -> ELit LNull
     | _ -> v (pick r odd_names))
  else
    let g () = gen_chaos r (d - 1) in
    match rint r 16 with
    | 0 -> gen_chaos r 0
    | 1 | 2 | 3 | 4 -> EBin (pick r all_bin, g (), g ())
    | 5 -> EUn (pick r [| UNot; UNeg; UPos |], g ())
    | 6 -> ECond (g (), g (), g ())
    | 7 -> EItem (g (), g ())
    | 8 -> EFilter (g (), bs (pick r [| "abs"; "upper"; "length"; "default"; "first"; "join" |]), List.init (rint r 3) (fun _ -> g ()))
    | 9 -> EArr (List.init (rint r 4) (fun _ -> g ()))
    | 10 -> EHash (List.init (rint r 3) (fun i -> ((if rint r 4 = 0 then g () else slit (String.make 1 (Char.chr (97 + i)))), g ())))
    | 11 -> if rint r 4 = 0 then ECall (bs "range", [ ilit (rint r 3); ilit (rint r 6) ])   (* small: range materialises its result *)
            else ECall (bs (pick r [| "max"; "min"; "vid" |]), List.init (1 + rint r 2) (fun _ -> g ()))
    | 12 -> ETest (g (), bs (pick r [| "odd"; "even"; "defined"; "empty"; "null"; "iterable"; "in" |]), (if rint r 4 = 0 then [ g () ] else []), rbool r)
    | 13 -> EAttr (v (pick r [| "m"; "l"; "s" |]), bs (pick r [| "k"; "n"; "i"; "not"; "true"; "in" |]))
    | 14 -> if rbool r then EAttr (EAttr (v "m", bs "n"), bs "x") else EAttr (g (), bs (pick r [| "k"; "n"; "x"; "name" |]))
    | _ -> if rbool r then EModCall (v "m", bs "get", [ g () ]) else EModCall (g (), bs "get", [ g () ])

(* ---- measures for the evidence ---- *)
let rec fold_expr (f : 'a -> expr -> 'a) (a : 'a) (e : expr) : 'a =
  let a = f a e in
  let fl = List.fold_left (fold_expr f) in
  match e with
  | ELit _ | EVar _ -> a
  | EAttr (b, _) -> fold_expr f a b
  | EItem (b, i) -> fl a [ b; i ]
  | EUn (_, x) -> fold_expr f a x
  | EBin (_, l, r) -> fl a [ l; r ]
  | ECond (c, t, x) -> fl a [ c; t; x ]
  | EArr es -> fl a es
  | EHash kvs -> List.fold_left (fun a (k, w) -> fl a [ k; w ]) a kvs
  | EFilter (b, _, es) -> fl (fold_expr f a b) es
  | ECall (_, es) -> fl a es
  | EModCall (m, _, es) -> fl (fold_expr f a m) es
  | ETest (b, _, es, _) -> fl (fold_expr f a b) es

let kind_name = function
  | ELit _ -> "lit" | EVar _ -> "var" | EAttr _ -> "attr" | EItem _ -> "item" | EUn _ -> "unary" | EBin _ -> "binary"
  | ECond _ -> "cond" | EArr _ -> "array" | EHash _ -> "hash" | EFilter _ -> "filter" | ECall _ -> "call"
  | EModCall _ -> "modcall" | ETest _ -> "test"

let int_of_nat_ n = int_of_nat n
let measures e =
  let nbin = fold_expr (fun a x -> match x with EBin _ -> a + 1 | _ -> a) 0 e in
  let levels = fold_expr (fun a x -> match x with EBin _ -> let l = int_of_nat_ (pp_level x) in if List.mem l a then a else l :: a | _ -> a) [] e in
  let kinds = fold_expr (fun a x -> let k = kind_name x in if List.mem k a then a else k :: a) [] e in
  let size = fold_expr (fun a _ -> a + 1) 0 e in
  (nbin, List.length levels, List.sort compare kinds, size)

(* ---- spellings ---- *)
let sq = byte_of_int 0x27
let dq = byte_of_int 0x22
let nat_fun (f : int -> string) : nat -> bytes = fun n -> bs (f (int_of_nat n))

(* px for the mixed variant: a pseudo-random predicate on sub-expressions (a function of the
   sub-expression, as the theorem quantifies over such functions) *)
let px_mixed salt (e : expr) : bool = (Hashtbl.hash (salt, sexp e)) mod 3 = 0

let ws_pool = [| " "; "  "; "\t"; "\n"; " \n "; "\r\n"; "   " |]

type variant = { style : string; src : string; safe : bool }

let variants r (e : expr) : variant list =
  let mk style px q (spf : xtok list -> nat -> bytes) =
    let ts = pp_top px e in
    let sp = spf ts in
    { style; src = sb (pp_render q sp O ts); safe = pp_safe q sp O ts } in
  let single ts = pp_sp_single (nat_of_int (List.length ts)) in
  let compact q ts = pp_sp_compact q ts in
  let wide salt _ts = nat_fun (fun i -> let k = Hashtbl.hash (salt, i) in
                                         if i = 0 then "" else ws_pool.(k mod Array.length ws_pool)) in
  let sparse salt q ts =
    let c = pp_sp_compact q ts in
    fun n -> let i = int_of_nat n in
             if i > 0 && (Hashtbl.hash (salt, i)) mod 3 = 0 then bs " " else c n in
  let salt = rint r 1000000 in
  let base =
    [ mk "min-single" pp_px_min sq single;
      mk "full-single" pp_px_full sq single;
      mk "min-compact" pp_px_min sq (compact sq);
      mk "full-compact" pp_px_full dq (compact dq);
      mk "min-wide-dq" pp_px_min dq (wide salt);
      mk "mixed-sparse" (px_mixed salt) sq (sparse salt sq) ] in
  (* the verified printer escapes both kinds of quote in every literal; a quote of the other kind needs no backslash:
     the same spellings with those backslashes taken out (unverified glue: the expected tree is still the model
     parser's reading of the text) *)
  let unescape_foreign (x : variant) (foreign : string) (tag : string) : variant list =
    let pat = "\\" ^ foreign in
    if Str_compat.contains x.src pat then [ { x with style = x.style ^ tag; src = Str_compat.replace_all x.src pat foreign } ] else [] in
  base
  @ unescape_foreign (List.nth base 4) "'" "-raw-apostrophe"
  @ unescape_foreign (List.nth base 3) "'" "-raw-apostrophe"
  @ unescape_foreign (List.nth base 0) "\"" "-raw-double-quote"

(* a comma outside [] and {} but inside (): tokenizeObjectContents, which splits the object literal of
   include ... with {...} at top-level commas, does not track parentheses *)
let paren_comma (e : expr) : bool =
  let ts = pp_top pp_px_min e in
  let depth = ref 0 and hit = ref false in
  List.iter (fun (XT (k, v)) ->
    if k = XPunct then
      match sb v with
      | "[" | "{" -> incr depth
      | "]" | "}" -> decr depth
      | "," -> if !depth = 0 then hit := true
      | _ -> ()) ts;
  !hit

let rec tree_case oc r stream (e : expr) ~(listy : bool) =
  if not (pp_wf e) then failwith ("c08: generated tree is not well formed: " ^ sexp e);
  let vs = variants r e in
  (* a spelling the lexer translated from the source would not read back token by token is left out (on the unchanged
     tree there is none: C08_spacing_safe); the trees, the other spellings and the hand-written cases still run, so that
     a changed lexer comes with a failing input and not only with the broken theorem *)
  let unsafe, vs = List.partition (fun x -> not x.safe) vs in
  List.iter (fun x -> prerr_endline ("c08: spacing not safe, spelling left out: " ^ x.style ^ " " ^ x.src)) (match unsafe with x :: _ -> [ x ] | [] -> []);
  if vs <> [] then case_with oc stream e ~listy vs

(* a tree with the spellings vs (either printed by the verified printers or written by hand) *)
and case_with oc stream (e : expr) ~(listy : bool) (vs : variant list) =
  let sx = sexp e in
  let nbin, nlev, kinds, size = measures e in
  let spec, truth =
    match spec_eval env e with
    | Model.Ok va ->
        (match spec_print env e with
         | Model.Ok t -> Ob [ "k", JS "val"; "text", JS (hexb t) ]
         | _ -> Ob [ "k", JS "none" ]),
        (match spec_truthy va with Some true -> "T" | Some false -> "F" | None -> "")
    | Err _ -> Ob [ "k", JS "err" ], ""
    | _ -> Ob [ "k", JS "none" ], "" in
  (* what the engine is known to compute where it differs from the reference (Model/ExprEvalImpl.v) *)
  let impl =
    match xe_print env e with
    | Model.Ok t -> Ob [ "k", JS "val"; "text", JS (hexb t) ]
    | Err _ -> Ob [ "k", JS "err" ]
    | _ -> Ob [ "k", JS "none" ] in
  let impl_truth = match xe_truth env e with Some true -> "T" | Some false -> "F" | None -> "" in
  emit oc (Ob [ "stream", JS stream; "sexp", JS sx; "nt", JB (nbin >= 3 && nlev >= 2);
                "impl", impl; "impl_truth", JS impl_truth; "fz_quirk", JB (not evs_tobool_float_by_value);
                "nbin", JI nbin; "nlev", JI nlev; "size", JI size; "kinds", JL (List.map (fun k -> JS k) kinds);
                "spec", spec; "truth", JS truth; "negzero", JB (spec_negzero_hazard env e);
                "listy", JB listy; "paren_comma", JB (paren_comma e);
                "variants", JL (List.map (fun x ->
                   Ob [ "style", JS x.style; "src", JS (hex x.src);
                        "tree", JS (outcome_str (xp_parse_var_tag (bs (String.trim x.src)))) ]) vs) ])

(* ---- malformed streams ---- *)
let soup_vocab = [| "a"; "b"; "x1"; "not"; "in"; "is"; "and"; "or"; "starts"; "with"; "ends"; "matches"; "defined"; "true"; "null";
                    "1"; "0"; "42"; "1.5"; "'s'"; "\"d\""; "''";
                    "+"; "-"; "*"; "/"; "%"; "^"; "~"; "=="; "!="; "<"; ">"; "<="; ">="; "="; "!"; "&&"; "&";
                    "("; ")"; "["; "]"; "{"; "}"; ","; "."; ":"; "|"; "?" |]
let bad_for_tag s =
  let has sub = let n = String.length sub and m = String.length s in
    let rec go i = i + n <= m && (String.sub s i n = sub || go (i + 1)) in go 0 in
  has "}}" || has "{{" || has "{%" || has "{#" || has "%}" || has "#}"

let src_case oc stream (src : string) =
  if not (bad_for_tag src) then
    emit oc (Ob [ "stream", JS stream; "src", JS (hex src);
                  "model", JS (outcome_str (xp_parse_var_tag (bs (String.trim src)))) ])

let tok_str (XT (k, vv)) =
  (match k with XName -> "name" | XNumber -> "number" | XString -> "string" | XOp -> "operator" | XPunct -> "punctuation")
  ^ ":" ^ hexb vv
let lex_case oc stream (src : string) =
  match xl_lex (bs src) with
  | Model.Ok ts -> emit oc (Ob [ "stream", JS stream; "src", JS (hex src); "toks", JL (List.map (fun t -> JS (tok_str t)) ts) ])
  | _ -> failwith "c08: lexer model ran out of fuel"

(* source text written by hand with the tree that the operator table OF THE PROPERTY gives it (not
   the extracted table): a changed table in the code shows up here as a concrete failing template *)
let table_cases : (string * expr) list =
  let b o l r = EBin (o, l, r) in
  let i = ilit in
  [ "no and no or yes", b BOr (b BAnd (v "no") (v "no")) (v "yes");
    "yes or no and no", b BOr (v "yes") (b BAnd (v "no") (v "no"));
    "1 == 1 and 2 == 2", b BAnd (b BEq (i 1) (i 1)) (b BEq (i 2) (i 2));
    "no == no or 1 < 0", b BOr (b BEq (v "no") (v "no")) (b BLt (i 1) (i 0));
    "1 + 2 < 2 + 3", b BLt (b BAdd (i 1) (i 2)) (b BAdd (i 2) (i 3));
    "9 - 2 >= 3 + 4", b BGe (b BSub (i 9) (i 2)) (b BAdd (i 3) (i 4));
    "1 + 1 != 2 - 0", b BNe (b BAdd (i 1) (i 1)) (b BSub (i 2) (i 0));
    "'s' ~ 't' starts with 's'", b BStartsWith (b BConcat (slit "s") (slit "t")) (slit "s");
    "'s' ~ 't' ends with 's' ~ 't'", b BEndsWith (b BConcat (slit "s") (slit "t")) (b BConcat (slit "s") (slit "t"));
    "1 + 2 in l", b BIn (b BAdd (i 1) (i 2)) (v "l");
    "'10' < '9'", b BLt (slit "10") (slit "9");
    "'10' >= '9'", b BGe (slit "10") (slit "9");
    "num < '9'", b BLt (v "num") (slit "9");
    "'-5' < '-10'", b BLt (slit "-5") (slit "-10");
    "'10' > i5", b BGt (slit "10") (v "i5");
    "i5 <= '10'", b BLe (v "i5") (slit "10");
    "num ~ '0' > '13'", b BGt (b BConcat (v "num") (slit "0")) (slit "13");
    "i0 == '-'", b BEq (v "i0") (slit "-");
    "'-' == i0", b BEq (slit "-") (v "i0");
    "i0 != '-'", b BNe (v "i0") (slit "-");
    "'+' == i0", b BEq (slit "+") (v "i0");
    "'.' == i0", b BEq (slit ".") (v "i0");
    "'-.' == i0", b BEq (slit "-.") (v "i0");
    "'' == i0", b BEq (slit "") (v "i0");
    "' ' == i0", b BEq (slit " ") (v "i0");
    "'e' == i0", b BEq (slit "e") (v "i0");
    "'-' < '1'", b BLt (slit "-") (slit "1");
    "'-' < i5", b BLt (slit "-") (v "i5");
    "i0 in ['-', 'n/a']", b BIn (v "i0") (EArr [ slit "-"; slit "n/a" ]);
    "i0 not in ['-', '+', '.']", b BNotIn (v "i0") (EArr [ slit "-"; slit "+"; slit "." ]);
    "'-0' == i0", b BEq (slit "-0") (v "i0");
    "'+5' == i5", b BEq (slit "+5") (v "i5");
    "'5.' == i5", b BEq (slit "5.") (v "i5");
    "'.5' < i5", b BLt (slit ".5") (v "i5");
    "'5-' == i5", b BEq (slit "5-") (v "i5");
    "'--5' == i5", b BEq (slit "--5") (v "i5");
    "i5--i3", b BSub (v "i5") (EUn (UNeg, v "i3"));
    "i5 - -i3", b BSub (v "i5") (EUn (UNeg, v "i3"));
    "7--2*3", b BSub (i 7) (b BMul (EUn (UNeg, i 2)) (i 3));
    "i5*-i3", b BMul (v "i5") (EUn (UNeg, v "i3"));
    "i5==-7", b BEq (v "i5") (EUn (UNeg, i 7));
    "neg==-7", b BEq (v "neg") (EUn (UNeg, i 7));
    "1 + 2 in lng", b BIn (b BAdd (i 1) (i 2)) (v "lng");
    "6 / 2 in lng", b BIn (b BDiv (i 6) (i 2)) (v "lng");
    "i3 * 20 in lng", b BIn (b BMul (v "i3") (i 20)) (v "lng");
    "i3 * 20 + 1 not in lng", b BNotIn (b BAdd (b BMul (v "i3") (i 20)) (i 1)) (v "lng");
    "2 + 2 not in l", b BNotIn (b BAdd (i 2) (i 2)) (v "l");
    "2 + 3 * 4", b BAdd (i 2) (b BMul (i 3) (i 4));
    "2 * 3 + 4", b BAdd (b BMul (i 2) (i 3)) (i 4);
    "20 - 12 / 4", b BSub (i 20) (b BDiv (i 12) (i 4));
    "7 ~ 9 % 5", b BConcat (i 7) (b BMod (i 9) (i 5));
    "7 - 2 ~ 1", b BConcat (b BSub (i 7) (i 2)) (i 1);
    "1 ~ 7 - 2", b BSub (b BConcat (i 1) (i 7)) (i 2);
    "2 * 3 ~ 4", b BConcat (b BMul (i 2) (i 3)) (i 4);
    "2 * 3 ^ 2", b BMul (i 2) (b BPow (i 3) (i 2));
    "2 ^ 3 * 2", b BMul (b BPow (i 2) (i 3)) (i 2);
    "18 / 3 ^ 2", b BDiv (i 18) (b BPow (i 3) (i 2));
    "10 - 4 - 3", b BSub (b BSub (i 10) (i 4)) (i 3);
    "100 / 10 / 5", b BDiv (b BDiv (i 100) (i 10)) (i 5);
    "7 % 4 % 2", b BMod (b BMod (i 7) (i 4)) (i 2);
    "2 ^ 3 ^ 2", b BPow (b BPow (i 2) (i 3)) (i 2);
    "2 - 3 + 4", b BAdd (b BSub (i 2) (i 3)) (i 4);
    "8 / 4 * 2", b BMul (b BDiv (i 8) (i 4)) (i 2);
    "1 < 2 == yes", b BEq (b BLt (i 1) (i 2)) (v "yes");
    "no or yes ? 1 : 2", ECond (b BOr (v "no") (v "yes"), i 1, i 2);
    "yes ? 1 : 2 + 3", ECond (v "yes", i 1, b BAdd (i 2) (i 3));
    "2 * (3 + 4)", b BMul (i 2) (b BAdd (i 3) (i 4));
    "(10 - 4) - 3 == 10 - 4 - 3", b BEq (b BSub (b BSub (i 10) (i 4)) (i 3)) (b BSub (b BSub (i 10) (i 4)) (i 3));
    "10 - (4 - 3)", b BSub (i 10) (b BSub (i 4) (i 3));
    "5 <= 5 and 5 >= 5 and not (5 < 5) and not (5 > 5)",
      b BAnd (b BAnd (b BAnd (b BLe (i 5) (i 5)) (b BGe (i 5) (i 5))) (EUn (UNot, b BLt (i 5) (i 5)))) (EUn (UNot, b BGt (i 5) (i 5)));
    "neg % 3 ~ ';' ~ 7 % neg ~ ';' ~ neg % neg",
      b BConcat (b BConcat (b BConcat (b BConcat (b BMod (v "neg") (i 3)) (slit ";")) (b BMod (i 7) (v "neg"))) (slit ";")) (b BMod (v "neg") (v "neg")) ]

let fixed_trees : (expr * bool) list =
  [ EBin (BAdd, ilit 1, EBin (BMul, ilit 2, EBin (BMul, ilit 3, ilit 4))), false;
    EBin (BMul, EBin (BAdd, ilit 1, ilit 2), ilit 3), false;
    EBin (BSub, EBin (BSub, ilit 10, ilit 4), ilit 3), false;
    EBin (BSub, ilit 10, EBin (BSub, ilit 4, ilit 3)), false;
    EBin (BPow, EBin (BPow, ilit 2, ilit 3), ilit 2), false;
    EBin (BPow, ilit 2, EBin (BPow, ilit 3, ilit 2)), false;
    EBin (BAdd, EUn (UNeg, v "i5"), v "i3"), false;
    EUn (UNeg, EBin (BAdd, v "i5", v "i3")), false;
    EFilter (EUn (UNeg, ilit 5), bs "abs", []), false;
    EUn (UNeg, EFilter (ilit 5, bs "abs", [])), false;
    EItem (EUn (UNeg, v "l"), ilit 0), false;
    EUn (UNeg, EItem (v "l", ilit 0)), false;
    ECond (EBin (BGt, EBin (BAdd, ilit 1, EBin (BMul, ilit 2, ilit 3)), ilit 6), slit "y", slit "n"), false;
    ECond (v "yes", ECond (v "no", ilit 1, ilit 2), ilit 3), false;
    ECond (v "no", ilit 1, ECond (v "yes", ilit 2, ilit 3)), false;
    ECond (ECond (v "no", v "no", v "yes"), ilit 1, ilit 2), false;
    EBin (BOr, v "yes", EBin (BDiv, ilit 1, v "i0")), false;
    EBin (BAnd, v "no", EBin (BDiv, ilit 1, v "i0")), false;
    ECond (v "yes", ilit 1, EBin (BDiv, ilit 1, v "i0")), false;
    EBin (BAdd, ilit 9007199254740991, ilit 1), false;
    EBin (BSub, EUn (UNeg, ilit 9007199254740991), ilit 1), false;
    EBin (BMul, ilit 94906265, ilit 94906265), false;
    EBin (BAdd, ilit 9007199254740992, ilit 1), false;
    EBin (BConcat, EBin (BConcat, slit "x", ilit 1), ELit (LBool true)), false;
    EBin (BNotIn, ilit 4, v "l"), false;
    EBin (BStartsWith, v "s", v "with"), false;
    ETest (EBin (BAdd, v "i5", v "i3"), bs "odd", [], true), false;
    EBin (BEq, ETest (v "i5", bs "odd", [], false), v "yes"), false;
    EBin (BAnd, v "and", EBin (BOr, v "or", v "in")), false;
    EArr [ EHash [ (slit "a", EHash [ (slit "b", ilit 1) ]) ] ], true;
    EAttr (EModCall (v "m", bs "f", [ ilit 1 ]), bs "g"), false;
    slit "it's  two", false; slit "say \"hi\"  now", false; slit "o'clock\tsharp", false; slit "it's\nline two", false;
    EBin (BConcat, EBin (BConcat, slit "it's", slit "  "), slit "x"), false; EFilter (slit "o'clock  sharp", bs "length", []), false;
    EBin (BEq, slit "don't   stop", v "s"), false; ECond (v "yes", slit "a \"b  c", slit "  'lead"), false;
    slit "}}", false;
    slit "it's \"q\" a\\b", false ]

(* witnesses of defects that were repaired in /repo (KNOWN_FINDINGS.txt, fixed: lines): template and the
   output the property demands; anything else is a failure *)
let regressions = [
  "{{ -0 }}", "0";  "{{ 0 * -1 }}", "0";  "{{ 0 / -5 }}", "0";  "{{ -4 % 2 }}", "0";  "{{ 'x' ~ -i0 }}", "x0";
  "{{ (1 - 1) ? 'y' : 'n' }}", "n";  "{% if i5 - 5 %}T{% else %}F{% endif %}", "F";  "{{ not (2 * 0) }}", "true";
  "{{ 0 * 3 and yes }}", "false";
  "{{ ll[0].name }}", "N";  "{{ (m).k }}", "v";  "{{ m['n'].x }}", "7";  "{{ (yes ? m : m).k }}", "v";
  "{{ ll|first.name ~ [m][0].n.x }}", "N7";  "{{ -i5.zz }}", "0";
  "{{ 'a\\\\' }}", "a\\";  "{{ 'a\\\\' ~ 'b' }}", "a\\b";  "{% include 'inc' with {'v': 'a\\\\'} %}", "a\\";
  "{% include 'inc' with {'v': max(1, 2)} %}", "2";  "{% include 'inc' with {'v': nothing|default(3, 4)} %}", "3";
  "{{ l[0]-1 }}{{ (i5)-1 }}{{ max(1,2)-1 }}{{ l[1] -2 }}{{ {'a': 3}['a']-1 }}", "04102";
  "{% include 'inc' with {'v': i5 * 2 + 1} only %}", "11";  "{% include 'inc' with {'i5': 1, 'v': i5 + 1} %}", "6";
]

(* the listed known finding: the bytes of a tag closer inside the expression end the tag *)
let known_tag_closer = [
  "{{ '}}' }}", "}}";
  "{{ 'a}}b' ~ 1 }}", "a}}b1";
  "{% if '%}' == s %}a{% else %}b{% endif %}", "b";
  "{{ {'a': {'b': 1}}['a']['b'] }}", "1";
  "{{ [{'a': 1}][0]['a'] ~ {'b': {'c': 2}}|length }}", "11";
]

let run ~seed ~tier oc =
  let r = mk_rng seed in
  let deep = tier = "thorough" in
  List.iter (fun (tpl, demanded) ->
    emit oc (Ob [ "stream", JS "regress"; "tpl", JS (hex tpl); "demanded", JS (hex demanded) ])) regressions;
  List.iter (fun (tpl, demanded) ->
    emit oc (Ob [ "stream", JS "known:tag-closer-inside-expression"; "tpl", JS (hex tpl); "demanded", JS (hex demanded);
                  "predicted", JS "parse-error" ])) known_tag_closer;
  emit oc (Ob [ "stream", JS "history"; "seed", JI (seed * 7 + 1); "rounds", JI (if deep then 8 else 3) ]);
  List.iter (fun (e, listy) -> tree_case oc r "fixed" e ~listy) fixed_trees;
  List.iter (fun (src, e) -> case_with oc "table" e ~listy:false [ { style = "hand"; src; safe = true } ]) table_cases;
  let ntyped = if deep then 26000 else 2600 in
  for _ = 1 to ntyped do
    let d = 2 + rint r 4 in
    match rint r 8 with
    | 0 -> tree_case oc r "typed-list" (gen_list r (min d 4)) ~listy:true
    | 1 | 2 -> tree_case oc r "typed-bool" (gen_bool r d) ~listy:false
    | 3 -> tree_case oc r "typed-str" (gen_str r d) ~listy:false
    | _ -> tree_case oc r "typed-int" (gen_int r d) ~listy:false
  done;
  let nchaos = if deep then 8000 else 800 in
  for _ = 1 to nchaos do
    let e = gen_chaos r (1 + rint r 4) in
    if pp_wf e then tree_case oc r "chaos" e ~listy:false
  done;
  (* token soups *)
  let nsoup = if deep then 30000 else 2500 in
  for _ = 1 to nsoup do
    let n = 1 + rint r 9 in
    let toks = List.init n (fun _ -> pick r soup_vocab) in
    src_case oc "soup" (String.concat (if rint r 4 = 0 then "" else " ") toks)
  done;
  (* truncated and byte-mutated well-formed expressions *)
  let ntrunc = if deep then 20000 else 1200 in
  for _ = 1 to ntrunc do
    let e = gen_any r (1 + rint r 4) in
    let ts = pp_top pp_px_min e in
    let src = sb (pp_render sq (pp_sp_single (nat_of_int (List.length ts))) O ts) in
    let n = String.length src in
    if n > 1 then begin
      if rbool r then src_case oc "truncated" (String.sub src 0 (1 + rint r (n - 1)))
      else begin
        let b = Bytes.of_string src in
        Bytes.set b (rint r n) (pick r [| '('; ')'; '['; ']'; ','; '|'; '.'; '?'; ':'; '\''; '"'; '\\'; '-'; ' '; '#'; '='; '9'; 'n' |]);
        src_case oc "mutated" (Bytes.to_string b)
      end
    end
  done;
  (* random bytes for the lexer alone *)
  let nlex = if deep then 40000 else 3000 in
  for _ = 1 to nlex do
    lex_case oc "lexbytes" (rand_string r ~special:"'\"\\-+*/=<>!&~^%()[]{},.:|?0123456789. \t\n_ab" ~maxlen:24)
  done;
  List.iter (lex_case oc "lexfixed")
    [ ""; "-5"; "1-2"; "1 -2"; "a-1"; "1."; "1.5.2"; ".5"; "a.1"; "'a\\\\'"; "'a\\\\' ~ 'b'"; "'it\\'s'"; "\"x'y\""; "'unterminated";
      "a#b"; "a\\'b'c"; "== = != ! <= < >= > && & || ??"; "a===b"; "1e5"; "x__1Z"; "\xc3\xa9"; "a\tb\nc\rd"; "-" ; "--5"; "- 5" ]
