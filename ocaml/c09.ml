(* C09 case generation: if / for / set.
   Every case carries two predictions for the same (template, context):
     spec = c9_render_template c9_truthy  (Spec/ControlSpec.v: the reference, the property's own table)
     exp  = render_template               (Model/Eval.v: the faithful model)
   They differ only on a known class (a float64 zero as a condition, while toBool compares it with an int 0);
   such a case is tagged known = float-zero-truthy.
   Streams:
     c09-truth   every kind of value as the condition of an if and of an elseif (catalogue, deterministic)
     c09-seq     every kind of value as the sequence of a for with key, value and all seven counters (catalogue)
     c09-range   range(start, end, step) over a grid with negative, zero-crossing bounds, negative steps and step 0
     c09-prog    generated programs: nesting <= 4 of if / elseif / else, for / else with key and value, set;
                 counters printed at every depth and after nested loops; sets inside loops read in later
                 iterations and after the loop
   Tier core (not a tier of bin/check; see bin/evalcore): evaluator-core validation over every node kind. *)
open Util
module M = Model
module G = Evalgen

let lit_int = G.lit_int and lit_str = G.lit_str and var = G.var and bs = G.bs
let neg i = if i < 0 then M.EUn (M.UNeg, lit_int (-i)) else lit_int i
let attr o a = M.EAttr (o, bs a)
let text s = M.NText (bs s)
let print e = M.NPrint e

let env_of (ns : M.node list) : G.caseenv = { G.tpls = [ ("t", ns) ]; G.custom = []; G.policy = None }
let fuel = 300

let rec max_seq_len (v : M.value) : int =
  match v with
  | M.VList (_, xs) -> List.length xs
  | M.VStr s -> List.length (M.u8_chars s)
  | M.VMap (_, kvs) -> List.length kvs
  | _ -> 0

(* nesting depth of control structures *)
let rec depth_of (ns : M.node list) : int = List.fold_left (fun a n -> max a (depth_node n)) 0 ns
and depth_node = function
  | M.NIf (brs, els) -> 1 + max (List.fold_left (fun a (_, b) -> max a (depth_of b)) 0 brs) (match els with Some b -> depth_of b | None -> 0)
  | M.NFor (_, _, _, b, els) -> 1 + max (depth_of b) (match els with Some b -> depth_of b | None -> 0)
  | _ -> 0

let emitted = ref 0
let emit_c09 oc ~stream ?(seqlen = 0) (ns : M.node list) (ctx : (string * M.value) list) =
  let e = env_of ns in
  match (try Some (G.case_input_fields e "t" ctx) with G.Unprintable _ -> None) with
  | None -> ()
  | Some fields ->
    let menv = G.model_env e in
    let vars = List.map (fun (k, v) -> (bs k, v)) ctx in
    let guard f = try f () with Stack_overflow -> prerr_endline ("c09: stack overflow in the model on " ^ G.pp_nodes ns); (M.Unmodelled, []) in
    let (r_model, tr) = guard (fun () -> M.render_template (nat_of_int fuel) menv (bs "t") vars) in
    let (r_spec, _) = guard (fun () -> M.c9_render_template M.c9_truthy (nat_of_int fuel) menv (bs "t") vars) in
    let known = if r_model <> r_spec then [ "known", JS "float-zero-truthy" ] else [] in
    let seqlen = List.fold_left (fun a (_, v) -> max a (max_seq_len v)) seqlen ctx in
    incr emitted;
    emit oc (Ob ([ "stream", JS stream ] @ fields
                 @ [ "exp", G.exp_json r_model; "spec", G.exp_json r_spec;
                     "trace", JL (List.map (fun ev -> JS (G.event_str ev)) tr);
                     "depth", JI (depth_of ns); "seqlen", JI seqlen ] @ known))

(* ---------------------------------------------------------------- the value catalogue *)
let vint = G.vint and vfloat = G.vfloat and vstr = G.vstr and vlist = G.vlist and vmap = G.vmap
let catalogue : (string * M.value) list = [
  "null", M.VNull; "true", M.VBool true; "false", M.VBool false;
  "int0", vint 0; "int1", vint 1; "int-1", vint (-1); "int7", vint 7; "intbig", vint 999999999;
  "float0", vfloat 0; "float1", vfloat 1; "float-2", vfloat (-2);
  "str-empty", vstr ""; "str-0", vstr "0"; "str-a", vstr "a"; "str-space", vstr " "; "str-false", vstr "false";
  "str-multibyte", vstr "h\xc3\xa9y\xe2\x82\xac"; "str-emoji", vstr "\xf0\x9f\x98\x80z"; "str-invalid", vstr "a\xffb\xc3";
  "str-long", vstr "abcdefg";
  "list-empty", vlist []; "list-1", vlist [ vint 0 ]; "list-null", vlist [ M.VNull ]; "list-3", vlist [ vint 1; vstr "b"; M.VBool true ];
  "list-7", vlist (List.init 7 (fun i -> vint (i * i))); "list-nested", vlist [ vlist []; vlist [ vint 1; vint 2 ] ];
  "strings-empty", M.VList (M.LStrings, []); "strings-2", M.VList (M.LStrings, [ vstr "x"; vstr "" ]);
  "ints-empty", M.VList (M.LInts, []); "ints-3", M.VList (M.LInts, [ vint 3; vint 0; vint (-1) ]);
  "array-2", M.VList (M.LArray, [ vint 1; vstr "z" ]); "array-0", M.VList (M.LArray, []);
  "map-empty", vmap []; "map-1", vmap [ ("k", M.VNull) ]; "map-3", vmap [ ("b", vint 2); ("a", vint 1); ("c", vstr "") ];
  "map-10", vmap (List.map (fun k -> (k, vstr k)) [ "10"; "9"; "a"; "B"; "_"; "aa" ]);
  "ss-empty", M.VMap (M.MStrStr, []); "ss-2", M.VMap (M.MStrStr, [ (vstr "y", vstr "1"); (vstr "x", vstr "2") ]);
  "is-3", M.VMap (M.MIntStr, [ (vint 10, vstr "ten"); (vint 2, vstr "two"); (vint (-1), vstr "m") ]);
  "si-1", M.VMap (M.MStrInt, [ (vstr "n", vint 0) ]);
  "struct", M.VStruct (nat_of_int 1001, [ (bs "Name", vstr "s") ]);
  "ptr-nil", M.VPtr None; "ptr-struct", M.VPtr (Some (M.VStruct (nat_of_int 1001, [ (bs "Name", vstr "s") ])));
  "func", M.VOpaque (nat_of_int 1) ]

let truth_stream oc =
  List.iter (fun (_, v) ->
    emit_c09 oc ~stream:"c09-truth"
      [ M.NIf ([ (var "v", [ text "T" ]) ], Some [ text "F" ]);
        text "|";
        M.NIf ([ (M.ELit M.LNull, [ text "0" ]); (var "v", [ text "T" ]); (M.ELit (M.LBool true), [ text "N" ]) ], Some [ text "E" ]);
        text "|";
        M.NIf ([ (var "v", [ text "T" ]) ], None) ]
      [ ("v", v) ]) catalogue;
  (* computed conditions: arithmetic results are float64 *)
  List.iter (fun e ->
    emit_c09 oc ~stream:"c09-truth" [ M.NIf ([ (e, [ text "T" ]) ], Some [ text "F" ]) ] [ ("n", vint 3); ("z", vint 0) ])
    [ M.EBin (M.BSub, lit_int 1, lit_int 1); M.EBin (M.BSub, var "n", var "n"); M.EBin (M.BMul, var "z", lit_int 5);
      M.EBin (M.BAdd, var "z", lit_int 0); M.EBin (M.BSub, var "n", lit_int 2); M.EBin (M.BMod, lit_int 4, lit_int 2);
      M.EFilter (var "z", bs "abs", []); M.EFilter (lit_str "", bs "length", []); M.EFilter (lit_str "ab", bs "length", []);
      M.EBin (M.BEq, var "z", lit_int 0); M.EBin (M.BLt, var "n", lit_int 2); var "undefined_name";
      M.EArr []; M.EArr [ M.ELit M.LNull ]; M.EHash []; M.EHash [ (lit_str "k", lit_int 0) ]; lit_int 0; lit_str "0"; lit_str "" ]

(* conditions behind the first truthy one are not evaluated: they would fail if they were *)
let lazy_stream oc =
  let failing = [ M.EBin (M.BDiv, lit_int 1, lit_int 0); M.ECall (bs "nosuchfn", []); M.EFilter (lit_int 1, bs "nosuchfilter", []);
                  M.EItem (M.EArr [], lit_int 3); M.EBin (M.BLt, lit_str "a", lit_str "b") ] in
  List.iter (fun bad ->
    emit_c09 oc ~stream:"c09-truth" [ M.NIf ([ (var "t", [ text "A" ]); (bad, [ text "B" ]) ], Some [ text "E" ]) ] [ ("t", M.VBool true) ];
    emit_c09 oc ~stream:"c09-truth" [ M.NIf ([ (var "t", [ text "A" ]); (bad, [ text "B" ]) ], Some [ text "E" ]) ] [ ("t", M.VBool false) ];
    emit_c09 oc ~stream:"c09-truth" [ M.NIf ([ (var "f", [ text "A" ]); (var "t", [ text "B" ]); (bad, [ text "C" ]); (bad, [ text "D" ]) ], None) ]
      [ ("t", vint 1); ("f", vstr "") ];
    (* a failing sequence is an error; a failing body behind an empty sequence is not rendered *)
    emit_c09 oc ~stream:"c09-seq" [ M.NFor (None, bs "x", bad, [ text "b" ], Some [ text "e" ]) ] [];
    emit_c09 oc ~stream:"c09-seq" [ M.NFor (None, bs "x", M.EArr [], [ print bad ], Some [ text "e" ]) ] [];
    emit_c09 oc ~stream:"c09-seq" [ M.NFor (None, bs "x", M.EArr [ lit_int 1 ], [ text "b" ], Some [ print bad ]) ] []) failing

let counters_probe = [
  text "["; print (var "k"); text ":"; print (var "x"); text ":";
  print (attr (var "loop") "index"); text ","; print (attr (var "loop") "index0"); text ",";
  print (attr (var "loop") "revindex"); text ","; print (attr (var "loop") "revindex0"); text ",";
  print (attr (var "loop") "first"); text ","; print (attr (var "loop") "last"); text ",";
  print (attr (var "loop") "length"); text "]" ]

let seq_stream oc =
  List.iter (fun (_, v) ->
    emit_c09 oc ~stream:"c09-seq" [ M.NFor (Some (bs "k"), bs "x", var "v", counters_probe, Some [ text "EMPTY" ]); text "." ] [ ("v", v) ];
    emit_c09 oc ~stream:"c09-seq" [ M.NFor (None, bs "x", var "v", [ print (var "x"); text ";" ], None); text "." ] [ ("v", v) ])
    catalogue

(* the sequence of a for tag written as a filter expression: what the chain yields is what is iterated, also when
   the value it starts from is undefined or null (default then supplies the sequence) *)
let filtered_seq_stream oc =
  let flt e f args = M.EFilter (e, bs f, args) in
  let arr xs = M.EArr xs in
  let body = [ print (var "x"); text ":"; print (attr (var "loop") "index"); text "/"; print (attr (var "loop") "length"); text ";" ] in
  let seqs = [
    flt (var "missing") "default" [ arr [ lit_str "a"; lit_str "b"; lit_str "c" ] ];
    flt (var "nv") "default" [ lit_str "hey" ];
    flt (flt (var "missing") "default" [ arr [ lit_int 3; lit_int 1; lit_int 2 ] ]) "sort" [];
    flt (flt (var "nv") "default" [ arr [ lit_int 1; lit_int 2 ] ]) "reverse" [];
    flt (var "missing") "default" [ arr [] ];
    flt (var "nv") "default" [ var "lst" ];
    flt (var "lst") "default" [ arr [ lit_str "d" ] ];
    flt (var "emp") "default" [ arr [ lit_str "d"; lit_str "e" ] ];
    flt (var "lst") "reverse" [];
    flt (flt (var "lst") "sort" []) "reverse" [];
    flt (var "missing") "keys" [];
    flt (var "nv") "reverse" [];
    flt (attr (var "mp") "zz") "default" [ arr [ lit_int 7 ] ];
    flt (flt (var "missing") "default" [ lit_str "ab" ]) "upper" [];
    (* strings inside the sequence expression that hold what the for tag gives a meaning to elsewhere *)
    arr [ lit_str "."; lit_str ".."; lit_str "src" ]; arr [ lit_str "ok"; lit_str "wait.." ]; arr [ lit_str "a in b"; lit_str " in " ]; arr [ lit_str "x if y"; lit_str "else" ];
    flt (arr [ lit_str "1..3" ]) "default" [ arr [] ]; flt (lit_str "a..b") "upper" []; arr [ lit_str "k, v"; lit_str "," ]; flt (var "missing") "default" [ lit_str ".." ] ] in
  let ctx = [ ("nv", M.VNull); ("lst", M.VList (M.LAny, [ G.vint 2; G.vint 1 ])); ("emp", M.VList (M.LAny, [])); ("mp", M.VMap (M.MAny, [ (G.vstr "a", G.vint 1) ])) ] in
  List.iter (fun sq ->
    emit_c09 oc ~stream:"c09-filtered-seq" [ M.NFor (None, bs "x", sq, body, Some [ text "none" ]); text "." ] ctx;
    emit_c09 oc ~stream:"c09-filtered-seq" [ M.NFor (Some (bs "k"), bs "x", sq, [ print (var "k"); text "=" ] @ body, None); text "."; print (var "x") ] ctx;
    (* the same value through a set: must iterate alike *)
    emit_c09 oc ~stream:"c09-filtered-seq" [ M.NSet (bs "sq", sq); M.NFor (None, bs "x", var "sq", body, Some [ text "none" ]); text "." ] ctx;
    emit_c09 oc ~stream:"c09-filtered-seq" [ M.NFor (None, bs "o", M.EArr [ lit_int 1; lit_int 2 ], [ M.NFor (None, bs "x", sq, body, Some [ text "none" ]); text "|" ], None) ] ctx)
    seqs

(* a set makes the assigned value visible to everything after it -- also when that value is null: the name is then
   defined and null, whatever it was before (a variable of the render context, a loop variable, an earlier set) *)
let null_stream oc =
  let def x = print (M.ECond (M.ETest (var x, bs "defined", [], false), lit_str "d", lit_str "u")) in
  let nul = M.ELit M.LNull in
  let shows x = [ text "["; print (var x); text "|"; def x; text "|"; print (M.EFilter (var x, bs "default", [ lit_str "D" ])); text "]" ] in
  List.iter (fun ctx ->
    emit_c09 oc ~stream:"c09-null" ([ M.NSet (bs "x", nul) ] @ shows "x") ctx;
    emit_c09 oc ~stream:"c09-null" (shows "x" @ [ M.NSet (bs "x", nul) ] @ shows "x" @ [ M.NSet (bs "x", lit_int 3) ] @ shows "x") ctx;
    emit_c09 oc ~stream:"c09-null" ([ M.NSet (bs "x", lit_int 2); M.NSet (bs "x", nul) ] @ shows "x") ctx;
    emit_c09 oc ~stream:"c09-null" ([ M.NFor (None, bs "x", M.EArr [ lit_int 1; nul; lit_int 3 ], shows "x" @ [ text ";" ], None) ] @ shows "x") ctx;
    emit_c09 oc ~stream:"c09-null" ([ M.NFor (None, bs "i", M.EArr [ lit_int 1; lit_int 2 ], [ M.NIf ([ (M.EBin (M.BEq, var "i", lit_int 1), [ M.NSet (bs "x", nul) ]) ], Some [ M.NSet (bs "x", var "i") ]) ] @ shows "x", None) ]) ctx;
    emit_c09 oc ~stream:"c09-null" ([ M.NIf ([ (var "x", [ text "T" ]) ], Some [ text "F" ]); M.NSet (bs "x", nul); M.NIf ([ (var "x", [ text "T" ]) ], Some [ text "F" ]) ]) ctx)
    [ []; [ ("x", G.vint 5) ]; [ ("x", M.VNull) ]; [ ("x", G.vstr "s") ] ]

(* nested loops keep their own counters -- also seen through a variable that holds the enclosing loop's `loop`
   (the only way to reach it from a nested loop). The evaluator model has immutable values and puts `set x = loop`
   outside itself, so the expectation of this family is computed here, from the counter table of the property:
   index = i+1, index0 = i, revindex = n-i, revindex0 = n-i-1, first = (i = 0), last = (i = n-1), length = n.
   The variable is assigned in every iteration before it is read, so a reference and a copy read the same. *)
let loopref_stream oc =
  let fields = [ "index"; "index0"; "revindex"; "revindex0"; "length"; "first"; "last" ] in
  let value f ~i ~n = match f with
    | "index" -> string_of_int (i + 1) | "index0" -> string_of_int i | "revindex" -> string_of_int (n - i)
    | "revindex0" -> string_of_int (n - i - 1) | "length" -> string_of_int n
    | "first" -> if i = 0 then "y" else "n" | _ -> if i = n - 1 then "y" else "n" in
  let show x f = if f = "first" || f = "last" then print (M.ECond (attr (var x) f, lit_str "y", lit_str "n")) else print (attr (var x) f) in
  let seq n base = M.EArr (List.init n (fun j -> lit_int (base + j))) in
  let emit_exp ns ctx (expected : string) ~seqlen =
    let e = env_of ns in
    match (try Some (G.case_input_fields e "t" ctx) with G.Unprintable _ -> None) with
    | None -> ()
    | Some fs ->
      incr emitted;
      let ex = Ob [ "out", JS (hex expected) ] in
      emit oc (Ob ([ "stream", JS "c09-loopref" ] @ fs @ [ "exp", ex; "spec", ex; "trace", JL []; "depth", JI (depth_of ns); "seqlen", JI seqlen ])) in
  let cat f k = String.concat "" (List.init k f) in
  for n = 1 to 3 do for m = 0 to 4 do
    List.iter (fun fo -> List.iter (fun fi ->
      if (fo = fi || fo = "index" || fi = "index" || (n + m) mod 2 = 0) then begin
        (* the enclosing loop kept in a variable, read while the nested loop runs and after it *)
        let ns = [ M.NFor (None, bs "a", seq n 10,
                     [ M.NSet (bs "outer", var "loop");
                       M.NFor (None, bs "b", seq m 20, [ show "outer" fo; text "."; show "loop" fi; text " " ], Some [ text "none " ]);
                       text "<"; show "outer" fo; text "="; show "loop" fo; text ">" ], None) ] in
        let exp = cat (fun i ->
          (if m = 0 then "none " else cat (fun j -> value fo ~i ~n ^ "." ^ value fi ~i:j ~n:m ^ " ") m)
          ^ "<" ^ value fo ~i ~n ^ "=" ^ value fo ~i ~n ^ ">") n in
        emit_exp ns [] exp ~seqlen:(max n m)
      end) fields) fields
  done done;
  (* kept beyond the end of its loop: the variable still describes the finished loop (its last iteration) after other
     loops, of other lengths, have run *)
  for n = 1 to 4 do for m = 0 to 5 do
    if m <> n then begin
      let later = [ M.NFor (None, bs "c", seq m 40, [ text "." ], None) ] in
      let shows = List.concat_map (fun f -> [ show "seen" f; text "," ]) fields in
      let ns = [ M.NFor (None, bs "a", seq n 10, [ M.NSet (bs "seen", var "loop") ], None) ] @ later @ [ text "|" ] @ shows
               @ [ M.NFor (None, bs "d", seq 2 50, [ M.NFor (None, bs "e", seq m 60, [ text "-" ], None); show "seen" "index"; show "seen" "length" ], None) ] in
      let last = List.map (fun f -> value f ~i:(n - 1) ~n ^ ",") fields in
      let exp = String.make m '.' ^ "|" ^ String.concat "" last
                ^ cat (fun _ -> String.make m '-' ^ string_of_int n ^ string_of_int n) 2 in
      emit_exp ns [] exp ~seqlen:(max n m)
    end
  done done;
  (* assigned after a first nested loop, read in a second one; three levels *)
  for n = 1 to 3 do for m = 1 to 3 do
    let ns = [ M.NFor (None, bs "a", seq n 10,
                 [ M.NFor (None, bs "b", seq m 20, [ print (attr (var "loop") "index") ], None);
                   M.NSet (bs "outer", var "loop");
                   M.NFor (None, bs "b", seq (m + 1) 20, [ text ":"; print (attr (var "outer") "index"); print (attr (var "outer") "length"); print (attr (var "loop") "revindex") ], None);
                   text ";" ], None) ] in
    let exp = cat (fun i -> cat (fun j -> string_of_int (j + 1)) m
                            ^ cat (fun j -> ":" ^ string_of_int (i + 1) ^ string_of_int n ^ string_of_int (m + 1 - j)) (m + 1) ^ ";") n in
    emit_exp ns [] exp ~seqlen:(max n (m + 1));
    for k = 1 to 2 do
      let ns = [ M.NFor (None, bs "a", seq n 10,
                   [ M.NSet (bs "o1", var "loop");
                     M.NFor (None, bs "b", seq m 20,
                       [ M.NSet (bs "o2", var "loop");
                         M.NFor (None, bs "c", seq k 30,
                           [ print (attr (var "o1") "index"); print (attr (var "o2") "index"); print (attr (var "loop") "index");
                             text "/"; print (attr (var "o1") "revindex"); print (attr (var "o2") "revindex"); print (attr (var "loop") "revindex"); text " " ], None);
                         text "["; print (attr (var "o1") "index0"); print (attr (var "loop") "index0"); text "]" ], None) ], None) ] in
      let exp = cat (fun i -> cat (fun j ->
        cat (fun l -> Printf.sprintf "%d%d%d/%d%d%d " (i + 1) (j + 1) (l + 1) (n - i) (m - j) (k - l)) k
        ^ Printf.sprintf "[%d%d]" i j) m) n in
      emit_exp ns [] exp ~seqlen:(max n (max m k))
    done
  done done

(* exactly one branch, the first whose condition is truthy -- also when that branch is empty *)
let empty_branch_stream oc =
  let shapes = [
    (fun () -> [ M.NIf ([ (var "a", [ text "A" ]); (var "b", []) ], Some [ text "E" ]) ]);
    (fun () -> [ M.NIf ([ (var "a", [ text "A" ]); (var "b", []); (var "c", [ text "C" ]) ], None) ]);
    (fun () -> [ M.NIf ([ (var "a", []); (var "b", [ text "B" ]) ], Some []) ]);
    (fun () -> [ M.NIf ([ (var "a", [ text "A" ]); (var "b", []); (var "c", []) ], Some [ M.NSet (bs "x", lit_int 1); text "E" ]); text "|"; print (var "x") ]);
    (fun () -> [ M.NIf ([ (var "a", []); (var "b", []); (var "c", [ M.NSet (bs "x", lit_int 2) ]) ], Some [ text "E" ]); text "|"; print (var "x") ]);
    (fun () -> [ M.NFor (None, bs "i", M.EArr [ lit_int 1; lit_int 2 ],
                   [ M.NIf ([ (M.EBin (M.BEq, var "i", lit_int 1), []); (var "b", [ text "B" ]) ], Some [ text "E" ]) ], None) ]) ] in
  List.iter (fun mk ->
    List.iter (fun a -> List.iter (fun b -> List.iter (fun c ->
      emit_c09 oc ~stream:"c09-empty-branch" (mk ()) [ ("a", M.VBool a); ("b", M.VBool b); ("c", M.VBool c); ("x", G.vint 0) ])
      [ true; false ]) [ true; false ]) [ true; false ]) shapes

(* a flag assigned a literal at the top, read by a bare condition in a loop body, reassigned later in the same body:
   every iteration after the first sees the reassigned value (and so does whatever follows the loop) *)
let flag_stream oc =
  let lits = [ M.LBool false; M.LBool true; M.LNull; M.LInt (G.z_of_int 0); M.LInt (G.z_of_int 3); M.LStr []; M.LStr (bs "0"); M.LStr (bs "y") ] in
  let lit l = M.ELit l in
  let items = M.EArr [ lit_str "p"; lit_str "q"; lit_str "r" ] in
  let shapes : (string * (M.expr -> M.expr -> M.node list)) list = [
    "if", (fun l0 l1 -> [ M.NSet (bs "f", l0); M.NFor (None, bs "x", items, [ M.NIf ([ (var "f", [ text ", " ]) ], None); print (var "x"); M.NSet (bs "f", l1) ], None); text "|"; print (var "f") ]);
    "if-else", (fun l0 l1 -> [ M.NSet (bs "f", l0); M.NFor (None, bs "x", items, [ M.NIf ([ (var "f", [ text "T" ]) ], Some [ text "F" ]); M.NSet (bs "f", l1) ], None) ]);
    "elseif", (fun l0 l1 -> [ M.NSet (bs "f", l0); M.NFor (None, bs "x", items, [ M.NIf ([ (var "nope", [ text "N" ]); (var "f", [ text "T" ]) ], Some [ text "F" ]); M.NSet (bs "f", l1) ], None) ]);
    "not", (fun l0 l1 -> [ M.NSet (bs "f", l0); M.NFor (None, bs "x", items, [ M.NIf ([ (M.EUn (M.UNot, var "f"), [ text "T" ]) ], Some [ text "F" ]); M.NSet (bs "f", l1) ], None) ]);
    "ternary", (fun l0 l1 -> [ M.NSet (bs "f", l0); M.NFor (None, bs "x", items, [ print (M.ECond (var "f", lit_str "T", lit_str "F")); M.NSet (bs "f", l1) ], None) ]);
    "set-in-branch", (fun l0 l1 -> [ M.NSet (bs "f", l0); M.NFor (None, bs "x", items,
                        [ M.NIf ([ (var "f", [ text "T" ]) ], Some [ text "F" ]); M.NIf ([ (attr (var "loop") "first", [ M.NSet (bs "f", l1) ]) ], None) ], None); text "|"; print (var "f") ]);
    "inner-loop", (fun l0 l1 -> [ M.NSet (bs "f", l0); M.NFor (None, bs "x", items,
                        [ M.NFor (None, bs "y", M.EArr [ lit_int 1; lit_int 2 ], [ M.NIf ([ (var "f", [ text "T" ]) ], Some [ text "F" ]) ], None); M.NSet (bs "f", l1) ], None) ]);
    "set-in-inner-loop", (fun l0 l1 -> [ M.NSet (bs "f", l0); M.NFor (None, bs "x", items,
                        [ M.NIf ([ (var "f", [ text "T" ]) ], Some [ text "F" ]); M.NFor (None, bs "y", M.EArr [ lit_int 1 ], [ M.NSet (bs "f", l1) ], None) ], None) ]);
    "two-flags", (fun l0 l1 -> [ M.NSet (bs "f", l0); M.NSet (bs "g", l1); M.NFor (None, bs "x", items,
                        [ M.NIf ([ (var "f", [ text "T" ]); (var "g", [ text "G" ]) ], Some [ text "F" ]); M.NSet (bs "g", var "f"); M.NSet (bs "f", l1) ], None) ]);
    "after-loop", (fun l0 l1 -> [ M.NSet (bs "f", l0); M.NFor (None, bs "x", items, [ M.NSet (bs "f", l1) ], None); M.NIf ([ (var "f", [ text "T" ]) ], Some [ text "F" ]) ]);
    "before-and-after", (fun l0 l1 -> [ M.NSet (bs "f", l0); M.NIf ([ (var "f", [ text "T" ]) ], Some [ text "F" ]); M.NSet (bs "f", l1); M.NIf ([ (var "f", [ text "T" ]) ], Some [ text "F" ]) ]);
    "first-set-in-inner-loop", (fun l0 l1 -> [ M.NFor (None, bs "x", items,
                        [ M.NFor (None, bs "y", M.EArr [ lit_int 1; lit_int 2 ], [ M.NSet (bs "found", l1); M.NSet (bs "other", l0) ], None); text "["; print (var "found"); text "]" ], None);
                        text "|"; print (var "found"); text "|"; print (var "other"); M.NIf ([ (var "found", [ text "T" ]) ], Some [ text "F" ]) ]);
    "first-set-in-second-loop", (fun l0 l1 -> [ M.NFor (None, bs "x", M.EArr [ lit_int 1 ], [ text "." ], None);
                        M.NFor (None, bs "y", M.EArr [ lit_int 1; lit_int 2 ], [ M.NIf ([ (var "seen", [ text "s" ]) ], Some [ text "n" ]); M.NSet (bs "seen", l1) ], None);
                        text "|"; print (var "seen"); M.NSet (bs "later", var "seen"); print (var "later"); M.NSet (bs "unused", l0); M.NIf ([ (var "seen", [ text "T" ]) ], Some [ text "F" ]) ]);
    "first-set-in-loop-in-if", (fun l0 l1 -> [ M.NFor (None, bs "x", M.EArr [ lit_int 1; lit_int 2 ],
                        [ M.NIf ([ (var "go", [ M.NFor (None, bs "y", M.EArr [ lit_int 7 ], [ M.NSet (bs "deep", l1) ], None) ]) ], Some [ M.NSet (bs "deep", l0) ]); print (var "deep") ], None);
                        text "|"; print (var "deep") ]);
    "in-if", (fun l0 l1 -> [ M.NSet (bs "f", l0); M.NIf ([ (var "go", [ M.NSet (bs "f", l1) ]) ], None); M.NIf ([ (var "f", [ text "T" ]) ], Some [ text "F" ]) ]);
  ] in
  List.iter (fun (_, mk) ->
    List.iter (fun l0 -> List.iter (fun l1 ->
      if l0 <> l1 then
        List.iter (fun go -> emit_c09 oc ~stream:"c09-flag" (mk (lit l0) (lit l1)) [ ("go", M.VBool go) ]) [ true; false ])
      lits) lits) shapes

(* loops whose body holds nothing (or nothing that renders): the else branch still follows from the sequence alone *)
let empty_loop_stream oc =
  let bodies = [ []; [ text "" ]; [ M.NIf ([ (var "never", []) ], None) ]; [ M.NSet (bs "seen", lit_int 1) ] ] in
  List.iter (fun (_, v) ->
    List.iter (fun body ->
      emit_c09 oc ~stream:"c09-empty-loop" [ text "<"; M.NFor (None, bs "i", var "s", body, Some [ text "none" ]); text ">"; print (var "seen") ] [ ("s", v) ];
      emit_c09 oc ~stream:"c09-empty-loop" [ M.NFor (None, bs "o", M.EArr [ lit_int 1; lit_int 2 ],
                                              [ text "["; M.NFor (Some (bs "k"), bs "i", var "s", body, Some [ text "none"; print (var "o") ]); text "]" ], Some [ text "outer-none" ]) ] [ ("s", v) ])
      bodies) catalogue

let range_stream oc ~wide =
  let lo = if wide then -7 else -4 and hi = if wide then 7 else 4 in
  for a = lo to hi do
    for b = lo to hi do
      List.iter (fun s ->
        emit_c09 oc ~stream:"c09-range" ~seqlen:(abs (b - a) + 1)
          [ M.NFor (None, bs "i", M.ECall (bs "range", [ neg a; neg b; neg s ]),
                    [ print (var "i"); text "/"; print (attr (var "loop") "revindex0"); text " " ], Some [ text "none" ]) ] [])
        (if wide then [ -5; -3; -2; -1; 0; 1; 2; 3; 5 ] else [ -3; -2; -1; 0; 1; 2; 3 ]);
      if (a + b) mod 3 = 0 then
        emit_c09 oc ~stream:"c09-range" ~seqlen:(abs (b - a) + 1)
          [ M.NFor (Some (bs "k"), bs "i", M.ECall (bs "range", [ neg a; neg b ]), [ print (var "k"); text "="; print (var "i"); text " " ], Some [ text "none" ]) ] []
    done
  done;
  for b = -3 to 5 do
    emit_c09 oc ~stream:"c09-range" ~seqlen:(abs b + 1)
      [ M.NFor (None, bs "i", M.ECall (bs "range", [ neg b ]), [ print (var "i"); text "," ], Some [ text "none" ]) ] []
  done

(* ---------------------------------------------------------------- generated programs *)
type pst = {
  lvl : int;                    (* number of enclosing for loops *)
  sets : string list;           (* variables assigned so far on this path *)
  scope : string list;          (* loop variables (values and keys) of the enclosing loops *)
}

let set_pool = [| "a"; "b"; "acc"; "cnt" |]
let ctx_names = [| "l0"; "l1"; "l2"; "l7"; "s0"; "s1"; "s2"; "m0"; "m1"; "ts"; "ti"; "tm"; "n0"; "n1"; "nn"; "t1"; "f0"; "u0" |]

let gen_prog_ctx r : (string * M.value) list =
  let rlist n = vlist (List.init n (fun _ -> match rint r 6 with
      | 0 -> M.VNull | 1 -> vint (rint r 9 - 2) | 2 -> vstr (pick r [| "a"; ""; "h\xc3\xa9"; "0" |])
      | 3 -> M.VBool (rbool r) | 4 -> vlist (List.init (rint r 3) (fun i -> vint i)) | _ -> vint (rint r 100))) in
  [ "l0", vlist []; "l1", rlist 1; "l2", rlist (2 + rint r 3); "l7", rlist (5 + rint r 3);
    "s0", vstr ""; "s1", vstr (pick r [| "x"; "\xc3\xa9"; "0"; " " |]);
    "s2", vstr (pick r [| "h\xc3\xa9y"; "\xe2\x82\xacuro"; "ab"; "a\xffb"; "\xf0\x9f\x98\x80\xf0\x9f\x98\x81"; "0123456" |]);
    "m0", vmap []; "m1", vmap (List.map (fun k -> (k, (match rint r 3 with 0 -> vint (rint r 5) | 1 -> vstr k | _ -> M.VNull)))
                                 (List.sort_uniq compare (List.init (1 + rint r 4) (fun _ -> pick r [| "a"; "b"; "c"; "10"; "9"; "Z" |]))));
    "ts", M.VList (M.LStrings, List.init (rint r 4) (fun _ -> vstr (pick r [| "p"; "q"; "" |])));
    "ti", M.VList (M.LInts, List.init (rint r 5) (fun _ -> vint (rint r 7 - 3)));
    "tm", M.VMap (M.MIntStr, List.map (fun k -> (vint k, vstr (string_of_int k))) (List.sort_uniq compare (List.init (rint r 4) (fun _ -> rint r 15))));
    "n0", vint 0; "n1", vint (1 + rint r 5); "nn", vint (- (1 + rint r 3)); "t1", M.VBool true; "f0", M.VBool false; "u0", M.VNull ]

(* an integer-valued expression (a Go int or an integral float64) *)
let rec gen_num r (st : pst) ~d : M.expr =
  match if d <= 0 then rint r 4 else rint r 9 with
  | 0 -> lit_int (rint r 6)
  | 1 -> var (pick r [| "n0"; "n1"; "nn" |])
  | 2 -> if st.lvl > 0 then attr (var "loop") (pick r [| "index"; "index0"; "revindex"; "revindex0"; "length" |]) else lit_int (rint r 3)
  | 3 -> if List.mem "cnt" st.sets then var "cnt" else lit_int 1       (* cnt only ever holds numbers *)
  | 4 | 5 -> M.EBin (pick r [| M.BAdd; M.BSub; M.BMul |], gen_num r st ~d:(d - 1), gen_num r st ~d:(d - 1))
  | 6 -> M.EFilter (var (pick r [| "l0"; "l2"; "l7"; "s2"; "m1"; "ts" |]), bs "length", [])
  | 7 -> M.EBin (M.BMod, gen_num r st ~d:(d - 1), lit_int (2 + rint r 3))
  | _ -> lit_int (rint r 10)

(* a condition: values of every kind *)
let gen_cond r (st : pst) : M.expr =
  match rint r 16 with
  | 0 | 1 | 2 -> var (pick r ctx_names)
  | 3 -> gen_num r st ~d:1
  | 4 | 5 -> M.EBin (pick r [| M.BLt; M.BGt; M.BLe; M.BGe; M.BEq; M.BNe |], gen_num r st ~d:1, gen_num r st ~d:1)
  | 6 -> M.ELit (pick r [| M.LNull; M.LBool true; M.LBool false; M.LInt (G.z_of_int 0); M.LInt (G.z_of_int 2); M.LStr []; M.LStr (bs "0"); M.LStr (bs "x") |])
  | 7 -> if st.lvl > 0 then attr (var "loop") (pick r [| "first"; "last"; "index0"; "revindex0" |]) else var "t1"
  | 8 -> (match st.scope @ st.sets with [] -> var "undefined_x" | l -> var (pickl r l))
  | 9 -> M.EArr (List.init (rint r 2) (fun _ -> lit_int 0))
  | 10 -> M.ETest (var (pick r [| "u0"; "l1"; "zz"; "n0" |]), bs "defined", [], rbool r)
  | 11 -> M.EUn (M.UNot, var (pick r [| "t1"; "f0"; "l0"; "l1"; "s0"; "n0"; "u0" |]))
  | 12 -> M.EBin (pick r [| M.BAnd; M.BOr |], var (pick r [| "t1"; "f0" |]), M.EBin (M.BLt, gen_num r st ~d:0, gen_num r st ~d:0))
  | 13 -> attr (var "m1") (pick r [| "a"; "b"; "zz" |])
  | 14 -> M.EBin (M.BSub, gen_num r st ~d:0, gen_num r st ~d:0)
  | _ -> var (pick r ctx_names)

(* a sequence: values of every kind, literal lists of length 0..7, ranges, two filter routes *)
let gen_seq r (st : pst) : M.expr =
  match rint r 14 with
  | 0 | 1 | 2 | 3 -> var (pick r ctx_names)
  | 4 -> M.EArr (List.init (rint r 8) (fun _ -> if rbool r then gen_num r st ~d:1 else lit_str (pick r [| "p"; ""; "\xc3\xa9" |])))
  | 5 | 6 ->
    let a = rint r 9 - 4 and b = rint r 9 - 4 in
    (match rint r 3 with
     | 0 -> M.ECall (bs "range", [ neg a; neg b ])
     | 1 -> M.ECall (bs "range", [ neg a; neg b; neg (pick r [| -3; -2; -1; 1; 2; 3 |]) ])
     | _ -> M.ECall (bs "range", [ lit_int (rint r 4); gen_num r st ~d:0 ]))
  | 7 -> lit_str (pick r [| ""; "ab"; "h\xc3\xa9"; "\xe2\x82\xac" |])
  | 8 -> (match st.scope with [] -> var "l2" | l -> var (pickl r l))
  | 9 -> M.EFilter (var (pick r [| "l2"; "l7"; "s2"; "ts" |]), bs "reverse", [])
  | 10 -> M.EFilter (var (pick r [| "l7"; "s2"; "ti" |]), bs "slice", [ lit_int (rint r 3); lit_int (rint r 4) ])
  | 11 -> M.EFilter (var (pick r [| "m1"; "tm" |]), bs "keys", [])
  | 12 -> attr (var "m1") (pick r [| "a"; "b" |])
  | _ -> var (pick r [| "l2"; "l7"; "s2"; "m1" |])

let gen_show r (st : pst) : M.node list =
  match rint r 9 with
  | 0 | 1 when st.lvl > 0 ->
    [ print (attr (var "loop") (pick r [| "index"; "index0"; "revindex"; "revindex0"; "first"; "last"; "length" |])) ]
  | 2 | 3 when st.scope <> [] -> [ print (var (pickl r st.scope)) ]
  | 4 when st.sets <> [] -> [ print (var (pickl r st.sets)) ]
  | 5 -> [ print (gen_num r st ~d:1) ]
  | 6 -> [ print (var (pick r [| "n1"; "s1"; "t1"; "u0" |])) ]
  | _ -> [ text (pick r [| "."; "x"; " "; "<"; "h\xc3\xa9" |]) ]

let rec gen_prog r (st : pst) ~depth ~len : M.node list * pst =
  let n = 1 + rint r len in
  let rec go st k acc = if k = 0 then (List.concat (List.rev acc), st) else
      let (ns, st') = gen_stmt r st ~depth in go st' (k - 1) (ns :: acc) in
  go st n []
and gen_stmt r (st : pst) ~depth : M.node list * pst =
  match if depth <= 0 then rint r 5 else rint r 14 with
  | 0 | 1 | 2 -> (gen_show r st, st)
  | 3 | 4 ->
    (* a set; inside a loop it often accumulates *)
    let x = pick r set_pool in
    (* cnt accumulates numbers, acc accumulates text (one piece per assignment: sizes stay linear), a and b hold anything *)
    let e = match x with
      | "cnt" ->
        (match rint r 4 with
         | 0 when List.mem x st.sets -> M.EBin (M.BAdd, var x, lit_int (1 + rint r 3))
         | 1 when List.mem x st.sets && st.lvl > 0 -> M.EBin (M.BAdd, var x, attr (var "loop") "index")
         | 2 when st.lvl > 0 -> attr (var "loop") (pick r [| "index"; "index0"; "revindex"; "length" |])
         | _ -> lit_int (rint r 5))
      | "acc" ->
        (match rint r 3 with
         | 0 when List.mem x st.sets -> M.EBin (M.BConcat, var x, (match st.scope with [] -> lit_str "+" | l -> var (pickl r l)))
         | 1 when List.mem x st.sets -> M.EBin (M.BConcat, var x, lit_str (pick r [| "+"; "h\xc3\xa9"; "" |]))
         | _ -> lit_str (pick r [| "v"; ""; "0" |]))
      | _ ->
        (match rint r 4 with
         | 0 when st.scope <> [] -> var (pickl r st.scope)
         | 1 -> lit_str (pick r [| "v"; ""; "0" |])
         | _ -> gen_num r st ~d:1) in
    ([ M.NSet (bs x, e) ], { st with sets = if List.mem x st.sets then st.sets else x :: st.sets })
  | 5 | 6 | 7 | 8 ->
    let nb = 1 + rint r 3 in
    (* a branch may be empty: it is still the branch selected when its condition is the first truthy one *)
    let body () = if rint r 6 = 0 then [] else fst (gen_prog r st ~depth:(depth - 1) ~len:2) in
    let branches = List.init nb (fun _ -> let c = gen_cond r st in (c, body ())) in
    let els = if rbool r then Some (body ()) else None in
    (* assignments made in a branch are not known to be made: the state after the chain is the state before *)
    ([ M.NIf (branches, els) ], st)
  | _ ->
    let v = Printf.sprintf "v%d" st.lvl and k = Printf.sprintf "k%d" st.lvl in
    let with_key = rint r 3 = 0 in
    let seq = gen_seq r st in
    let inner = { st with lvl = st.lvl + 1; scope = v :: (if with_key then [ k ] else []) @ st.scope } in
    let (body, _) = gen_prog r inner ~depth:(depth - 1) ~len:3 in
    (* counters of this loop printed at the end of the body too: after whatever nested loop the body holds *)
    let body = body @ (if rbool r then [ text "("; print (attr (var "loop") "index"); text "/"; print (attr (var "loop") "length"); text ")" ] else []) in
    let els = if rint r 3 = 0 then Some (fst (gen_prog r st ~depth:(depth - 1) ~len:2)) else None in
    let after = if st.lvl > 0 && rbool r then [ text "<"; print (attr (var "loop") "index"); text ">" ] else [] in
    (M.NFor ((if with_key then Some (bs k) else None), bs v, seq, body, els) :: after, st)

let prog_stream r oc n =
  let target = !emitted + n and tries = ref 0 in
  while !emitted < target && !tries < 5 * n do
    incr tries;
    let depth = 1 + rint r 4 in
    let (ns, st) = gen_prog r { lvl = 0; sets = []; scope = [] } ~depth ~len:4 in
    (* what was assigned is read at the end: visible after everything, including after loops *)
    let tail = List.concat_map (fun x -> [ text "|"; print (var x) ]) st.sets in
    emit_c09 oc ~stream:"c09-prog" (ns @ tail) (gen_prog_ctx r)
  done

(* ---------------------------------------------------------------- evaluator-core validation (bin/evalcore) *)
(* hand-written scenarios, one per behaviour of node.go / render.go the model mirrors outside C09: inheritance
   bookkeeping, include contexts, macro binding and lookup, sandbox routes, swallowed errors *)
let call f args = M.ECall (bs f, args)
let filt e f args = M.EFilter (e, bs f, args)
let pv x = print (var x)
let inc ?(withs = None) ?(ign = false) ?(only = false) ?(sb = false) name = M.NInclude (lit_str name, withs, ign, only, sb)
let hash kvs = M.EHash (List.map (fun (k, v) -> (lit_str k, v)) kvs)
let block n body = M.NBlock (bs n, body)
let extends n = M.NExtends (lit_str n)
let macro n params body = M.NMacro (bs n, List.map (fun (p, d) -> (bs p, d)) params, body)
let set x e = M.NSet (bs x, e)
let forv v seq body = M.NFor (None, bs v, seq, body, None)
let ifn c a b = M.NIf ([ (c, a) ], Some b)
let parent = print (call "parent" [])

let fixed_scenarios : (string * (string * M.node list) list * (string * M.value) list * (string list * string list) option) list =
  let pol = Some ([ "upper"; "spy"; "e" ], [ "range"; "spyfn" ]) in
  [ (* ---- inheritance *)
    "chain3-parent", [ "base", [ text "<"; block "a" [ text "A0" ]; text "|"; block "b" [ text "B0" ]; text ">" ];
                        "mid", [ extends "base"; block "a" [ text "A1("; parent; text ")" ] ];
                        "main", [ extends "mid"; block "a" [ text "A2("; parent; text ")" ]; block "b" [ parent; text "+B2" ]; text "ignored" ] ], [], None;
    "empty-override", [ "base", [ block "a" [ text "A0" ]; block "b" [ text "B0" ] ]; "main", [ extends "base"; block "a" [] ] ], [], None;
    "nested-blocks", [ "base", [ block "outer" [ text "o("; block "inner" [ text "i0" ]; text ")" ] ];
                        "main", [ extends "base"; block "inner" [ text "i1:"; parent ] ] ], [], None;
    "override-outer-keeps-inner", [ "base", [ block "outer" [ text "o("; block "inner" [ text "i0" ]; text ")" ] ];
                        "main", [ extends "base"; block "outer" [ text "O["; parent; text "]" ]; block "inner" [ text "I" ] ] ], [], None;
    "block-in-for-if", [ "base", [ forv "i" (call "range" [ lit_int 1; lit_int 2 ]) [ block "row" [ text "r"; pv "i" ] ]; ifn (var "t") [ block "c" [ text "c0" ] ] [ text "no" ] ];
                        "main", [ extends "base"; block "row" [ text "R"; pv "i"; parent ]; block "c" [ text "C" ] ] ], [ "t", M.VBool true ], None;
    "dynamic-extends", [ "base", [ block "a" [ text "A0" ] ]; "main", [ M.NExtends (M.EBin (M.BConcat, lit_str "ba", var "suffix")); block "a" [ text "A1" ] ] ], [ "suffix", vstr "se" ], None;
    "extends-missing", [ "main", [ extends "nope"; block "a" [ text "A1" ] ] ], [], None;
    "parent-outside-block", [ "main", [ text "x"; parent ] ], [], None;
    "parent-without-parent", [ "main", [ block "a" [ text "x"; parent ] ] ], [], None;
    "parent-depth2-missing", [ "base", [ block "a" [ text "A0"; parent ] ]; "main", [ extends "base"; block "a" [ text "A1"; parent ] ] ], [], None;
    "child-set-not-run", [ "base", [ block "a" [ pv "x" ]; pv "x" ]; "main", [ set "x" (lit_int 5); extends "base"; block "a" [ text "a"; pv "x" ] ] ], [ "x", vint 1 ], None;
    "set-in-block-visible-after", [ "base", [ block "a" [ set "y" (lit_int 7) ]; pv "y" ]; "main", [ extends "base"; block "a" [ parent; set "y" (lit_int 8) ] ] ], [], None;
    "included-extends", [ "base", [ text "["; block "a" [ text "A0" ]; text "]" ]; "child", [ extends "base"; block "a" [ text "A1"; pv "v" ] ];
                        "main", [ text "m:"; inc "child"; block "a" [ text "main-a" ] ] ], [ "v", vstr "V" ], None;
    "block-plain-template", [ "main", [ block "a" [ text "x"; block "b" [ text "y" ] ]; block "c" [] ] ], [], None;
    "macro-in-child-block", [ "base", [ block "a" [ text "A0" ] ]; "main", [ extends "base"; block "a" [ macro "mm" [] [ text "M" ]; print (call "mm" []) ] ] ], [], None;
    (* ---- include *)
    "include-sees-and-shadows", [ "p", [ pv "x"; set "x" (lit_int 2); pv "x"; set "z" (lit_int 9) ]; "main", [ inc "p"; text "|"; pv "x"; pv "z" ] ], [ "x", vint 1 ], None;
    "include-with", [ "p", [ pv "x"; pv "y"; pv "w" ]; "main", [ set "y" (lit_str "Y"); inc ~withs:(Some (hash [ ("w", M.EBin (M.BConcat, var "y", lit_str "!")); ("x", lit_int 5) ])) "p"; text "|"; pv "w"; pv "x" ] ], [ "x", vint 1 ], None;
    "include-only", [ "p", [ text "("; pv "x"; pv "w"; text ")" ]; "main", [ inc ~withs:(Some (hash [ ("w", var "x") ])) ~only:true "p"; inc ~only:true "p" ] ], [ "x", vint 1 ], None;
    "include-missing", [ "main", [ text "a"; inc ~ign:true "nope"; text "b"; inc "nope"; text "c" ] ], [], None;
    "include-in-loop", [ "p", [ pv "i"; print (attr (var "loop") "index"); text ";" ]; "main", [ forv "i" (M.EArr [ lit_str "a"; lit_str "b" ]) [ inc "p" ] ] ], [], None;
    "include-macros-visible", [ "p", [ print (call "mm" [ lit_int 3 ]) ]; "main", [ macro "mm" [ ("a", None) ] [ text "<"; pv "a"; text ">" ]; inc "p"; inc ~only:true "p" ] ], [], None;
    "include-loop-inside", [ "p", [ forv "j" (var "xs") [ pv "j" ]; print (attr (var "loop") "index") ]; "main", [ forv "i" (call "range" [ lit_int 1; lit_int 2 ]) [ inc "p"; text ":"; print (attr (var "loop") "index"); text " " ] ] ], [ "xs", vlist [ vint 7; vint 8 ] ], None;
    "include-computed-name", [ "p1", [ text "one" ]; "p2", [ text "two" ]; "main", [ forv "i" (call "range" [ lit_int 1; lit_int 2 ]) [ M.NInclude (M.EBin (M.BConcat, lit_str "p", var "i"), None, false, false, false) ] ] ], [], None;
    (* ---- macros *)
    "macro-binding", [ "main", [ macro "m" [ ("a", None); ("b", Some (lit_str "d")); ("c", Some (M.EBin (M.BAdd, var "n", lit_int 1))) ] [ text "["; pv "a"; text "|"; pv "b"; text "|"; pv "c"; text "]" ];
                        print (call "m" []); print (call "m" [ lit_int 1 ]); print (call "m" [ lit_int 1; lit_int 2; lit_int 3; lit_int 4 ]) ] ], [ "n", vint 10 ], None;
    "macro-scope", [ "main", [ macro "m" [ ("a", None) ] [ pv "g"; set "g" (lit_str "in"); pv "g"; set "a" (lit_int 0) ]; set "g" (lit_str "out"); print (call "m" [ lit_int 1 ]); pv "g"; pv "a" ] ], [], None;
    "macro-self-and-nested", [ "main", [ macro "inner" [ ("x", None) ] [ text "("; pv "x"; text ")" ]; macro "outer" [ ("y", None) ] [ print (call "inner" [ var "y" ]); print (M.EModCall (var "_self", bs "inner", [ lit_int 2 ])) ];
                        print (call "outer" [ lit_int 1 ]); print (M.EModCall (var "_self", bs "outer", [ lit_int 3 ])) ] ], [], None;
    "macro-import-module", [ "lib", [ macro "a" [ ("x", None) ] [ text "a"; pv "x" ]; macro "b" [] [ text "b" ]; text "lib text"; set "leak" (lit_int 1) ];
                        "main", [ M.NImport (lit_str "lib", bs "L"); print (M.EModCall (var "L", bs "a", [ lit_int 1 ])); print (M.EModCall (var "L", bs "b", [])); pv "leak"; print (M.EModCall (var "L", bs "zz", [])) ] ], [], None;
    "macro-from-alias", [ "lib", [ macro "a" [ ("x", None) ] [ text "a"; pv "x" ]; macro "b" [] [ text "b" ] ];
                        "main", [ M.NFrom (lit_str "lib", [ (bs "a", bs "aa"); (bs "b", bs "b") ]); print (call "aa" [ lit_int 1 ]); print (call "b" []); print (call "a" [ lit_int 2 ]) ] ], [], None;
    "macro-from-missing", [ "lib", [ macro "a" [] [ text "a" ] ]; "main", [ M.NFrom (lit_str "lib", [ (bs "zz", bs "zz") ]) ] ], [], None;
    "macro-lib-internal-call", [ "lib", [ macro "a" [] [ text "a" ]; macro "b" [] [ text "b"; print (call "a" []) ] ]; "main", [ M.NImport (lit_str "lib", bs "L"); print (M.EModCall (var "L", bs "b", [])) ] ], [], None;
    "macro-in-loop-sees-loop", [ "main", [ macro "m" [] [ print (attr (var "loop") "index"); pv "i" ]; forv "i" (M.EArr [ lit_str "x"; lit_str "y" ]) [ print (call "m" []) ] ] ], [], None;
    "macro-with-for-inside", [ "main", [ macro "m" [ ("xs", None) ] [ forv "x" (var "xs") [ pv "x"; print (attr (var "loop") "length") ] ]; forv "i" (call "range" [ lit_int 1; lit_int 2 ]) [ print (call "m" [ M.EArr [ var "i"; var "i" ] ]); print (attr (var "loop") "index") ] ] ], [], None;
    "macro-undefined", [ "main", [ print (call "nomacro" [ lit_int 1 ]) ] ], [], None;
    "macro-value-default-filter", [ "main", [ macro "m" [] [ text "M" ]; print (filt (call "m" []) "default" [ lit_str "d" ]); print (filt (call "m" []) "raw" []) ] ], [], None;
    "macro-cond", [ "main", [ macro "m" [ ("a", None) ] [ pv "a" ]; print (M.ECond (var "t", call "m" [ lit_int 1 ], call "m" [ lit_int 2 ])) ] ], [ "t", M.VBool false ], None;
    (* ---- sandbox *)
    "sb-allowed", [ "p", [ print (filt (var "x") "upper" []); print (call "range" [ lit_int 1; lit_int 2 ]) ]; "main", [ inc ~sb:true "p"; print (filt (var "x") "lower" []) ] ], [ "x", vstr "aB" ], pol;
    "sb-filter-denied", [ "p", [ text "a"; print (filt (var "x") "lower" []) ]; "main", [ inc ~sb:true "p" ] ], [ "x", vstr "aB" ], pol;
    "sb-chain-denied-inner", [ "p", [ print (filt (filt (var "x") "lower" []) "upper" []) ]; "main", [ inc ~sb:true "p" ] ], [ "x", vstr "aB" ], pol;
    "sb-for-route", [ "p", [ forv "c" (filt (var "x") "reverse" []) [ pv "c" ] ]; "main", [ inc ~sb:true "p" ] ], [ "x", vstr "aB" ], pol;
    "sb-apply", [ "p", [ M.NApply (bs "lower", [], [ text "AB" ]) ]; "main", [ inc ~sb:true "p" ] ], [], pol;
    "sb-spaceless-swallowed", [ "p", [ M.NSpaceless [ text "<a> <b>" ] ]; "main", [ inc ~sb:true "p"; M.NSpaceless [ text "<a> <b>" ] ] ], [], pol;
    "sb-function-denied", [ "p", [ print (call "max" [ lit_int 1; lit_int 2 ]) ]; "main", [ inc ~sb:true "p" ] ], [], pol;
    "sb-nested-include-inherits", [ "q", [ print (filt (var "x") "lower" []) ]; "p", [ inc "q" ]; "main", [ inc ~sb:true "p" ] ], [ "x", vstr "aB" ], pol;
    "sb-only-inherits", [ "q", [ print (filt (lit_str "Q") "lower" []) ]; "p", [ inc ~only:true "q" ]; "main", [ inc ~sb:true "p" ] ], [], pol;
    "sb-macro-inherits", [ "p", [ macro "m" [] [ print (filt (lit_str "Q") "lower" []) ]; print (call "m" []) ]; "main", [ inc ~sb:true "p" ] ], [], pol;
    "sb-extends-inherits", [ "base", [ block "a" [ print (filt (lit_str "Q") "lower" []) ] ]; "p", [ extends "base" ]; "main", [ inc ~sb:true "p" ] ], [], pol;
    "sb-import-inherits", [ "lib", [ print (filt (lit_str "Q") "lower" []); macro "m" [] [ text "m" ] ]; "p", [ M.NImport (lit_str "lib", bs "L") ]; "main", [ inc ~sb:true "p" ] ], [], pol;
    "sb-spy-counts", [ "p", [ print (filt (var "x") "spy" []); print (call "spyfn" [ lit_int 1 ]); print (filt (var "x") "spy2" []) ]; "main", [ print (filt (var "x") "spy2" []); inc ~sb:true "p" ] ], [ "x", vstr "v" ], pol;
    "sb-no-policy", [ "p", [ text "x" ]; "main", [ inc ~sb:true "p" ] ], [], None;
    "sb-macro-name-checked-as-function", [ "p", [ macro "m" [] [ text "m" ]; print (call "m" []) ]; "main", [ inc ~sb:true "p" ] ], [], pol;
    (* ---- errors: surfaced and swallowed *)
    "fail-filter-in-print", [ "main", [ text "a"; print (filt (var "x") "fail7" []); text "b" ] ], [ "x", vint 1 ], None;
    "fail-in-set-if-for", [ "main", [ ifn (var "t") [ set "y" (call "failfn3" []) ] [ text "n" ] ] ], [ "t", M.VBool true ], None;
    "fail-in-include", [ "p", [ print (M.ETest (var "x", bs "failt9", [], false)) ]; "main", [ inc ~ign:true "p" ] ], [ "x", vint 1 ], None;
    "fail-in-macro-default", [ "main", [ macro "m" [ ("a", Some (call "failfn3" [])) ] [ pv "a" ]; print (call "m" [ lit_int 1 ]); print (call "m" []) ] ], [], None;
    "defined-swallows", [ "main", [ print (M.ETest (M.EAttr (M.EModCall (var "m", bs "failfn3", []), bs "y"), bs "defined", [], false)); text "|";
                        print (M.ETest (M.EAttr (var "m", bs "k"), bs "defined", [], false)); print (M.ETest (M.EAttr (var "m", bs "zz"), bs "defined", [], true)) ] ], [ "m", vmap [ ("k", M.VNull) ] ], None;
    "spaceless-fail-swallowed", [ "main", [ M.NSpaceless [ text "<a> <b>"; print (filt (lit_str "x") "spy" []) ] ] ], [], None;
    "apply-fail", [ "main", [ M.NApply (bs "fail7", [], [ text "body"; print (filt (lit_str "x") "spy" []) ]) ] ], [], None;
    "do-and-verbatim", [ "main", [ M.NDo (call "spyfn" [ lit_int 1 ]); M.NVerbatim (bs "raw text"); M.NDo (filt (lit_int 1) "nosuch" []) ] ], [], None;
    "set-in-apply-visible", [ "main", [ M.NApply (bs "upper", [], [ set "q" (lit_str "v"); text "ab" ]); pv "q" ] ], [], None;
    "new-head-behaviours", [ "main", [
        print (hash [ ("a", lit_int 1); ("b", call "spyfn" [ lit_int 2 ]); ("a", M.EBin (M.BAdd, lit_int 1, lit_int 2)) ]); text "|";
        print (M.EUn (M.UNeg, lit_int 0)); print (M.EBin (M.BMul, lit_int 0, M.EUn (M.UNeg, lit_int 1))); print (M.EBin (M.BMod, M.EUn (M.UNeg, lit_int 4), lit_int 2)); text "|";
        print (filt (lit_int 0) "default" [ lit_str "D" ]); print (filt (M.EBin (M.BSub, lit_int 1, lit_int 1)) "default" [ lit_str "D" ]); print (M.ETest (lit_int 0, bs "empty", [], false)); text "|";
        print (filt (M.EArr [ lit_int 10; lit_int 9; M.EBin (M.BAdd, lit_int 1, lit_int 1) ]) "sort" []); print (filt (M.EArr [ lit_int 10; lit_str "9"; lit_int 2 ]) "sort" []); text "|";
        print (filt (var "tm") "merge" [ hash [ ("z", lit_int 1) ] ]); print (filt (hash [ ("z", lit_int 1) ]) "merge" [ var "tm"; var "tss" ]); text "|";
        print (filt (var "arr") "reverse" []); print (filt (var "arr") "sort" []); print (filt (var "arr") "slice" [ lit_int 1 ]); print (filt (var "arr") "first" []); text "|";
        pv "pn"; pv "ps"; pv "fn"; print (M.EBin (M.BConcat, var "ps", lit_str "!")); print (M.EBin (M.BEq, var "fn", lit_str "")); text "|";
        macro "mm" [] [ text "M" ]; print (M.EBin (M.BConcat, call "mm" [], lit_str "x")); print (filt (call "mm" []) "upper" []); print (M.EBin (M.BConcat, var "mm", lit_str "y")); text "|";
        print (M.EAttr (M.EItem (var "recs", lit_int 0), bs "name")); print (M.EAttr (filt (var "recs") "first" [], bs "name")); print (M.EAttr (M.EArr [ hash [ ("k", lit_str "v") ] ], bs "k"));
        print (M.EModCall (M.EItem (var "recs", lit_int 0), bs "mm", [])) ] ],
      [ "tm", M.VMap (M.MIntStr, [ (vint 2, vstr "two"); (vint 10, vstr "ten") ]); "tss", M.VMap (M.MStrStr, [ (vstr "k", vstr "v") ]);
        "arr", M.VList (M.LArray, [ vint 3; vint 1; vint 2 ]); "pn", M.VPtr None; "ps", M.VPtr (Some (vstr "pointee")); "fn", M.VOpaque (nat_of_int 1);
        "recs", vlist [ vmap [ ("name", vstr "n0") ] ] ], None;
    "param-hides-macro", [ "main", [ macro "a" [] [ text "MA" ]; macro "m" [ ("a", None) ] [ pv "a"; print (call "a" []) ]; print (call "m" [ lit_str "arg" ]);
                        set "a" (lit_str "var"); pv "a"; print (call "a" []) ] ], [], None;
    "self-macro-before-function", [ "main", [ macro "max" [ ("x", None) ] [ text "macro-max"; pv "x" ]; print (M.EModCall (var "_self", bs "max", [ lit_int 1; lit_int 2 ]));
                        print (M.EModCall (var "_self", bs "min", [ lit_int 1; lit_int 2 ])); print (call "max" [ lit_int 3 ]) ] ], [], None;
    "sibling-macros-from", [ "lib", [ macro "helper" [ ("x", None) ] [ text "h"; pv "x" ]; macro "b" [] [ print (call "helper" [ lit_int 1 ]); print (M.EModCall (var "_self", bs "helper", [ lit_int 2 ])) ] ];
                        "main", [ macro "helper" [ ("x", None) ] [ text "MAIN" ]; M.NFrom (lit_str "lib", [ (bs "b", bs "b") ]); print (call "b" []); print (call "helper" [ lit_int 0 ]) ] ], [], None;
    "sb-include-inherited-vars", [ "q", [ pv "x"; pv "y"; pv "w" ]; "p", [ set "y" (lit_str "Y"); inc ~sb:true ~withs:(Some (hash [ ("w", var "x") ])) "q" ]; "main", [ inc "p" ] ], [ "x", vstr "X" ], Some ([ "upper" ], [ "range" ]);
    "hash-and-items", [ "main", [ set "h" (hash [ ("a", lit_int 1) ]); print (M.EItem (var "h", lit_str "a")); print (attr (var "h") "a"); print (M.EItem (M.EArr [ lit_int 5; lit_int 6 ], lit_str "1"));
                        print (M.EItem (var "ti", M.EBin (M.BAdd, lit_int 0, lit_int 1))); print (M.EItem (var "tm", lit_int 2)); print (attr (var "tss") "k") ] ],
      [ "ti", M.VList (M.LInts, [ vint 4; vint 5 ]); "tm", M.VMap (M.MIntStr, [ (vint 2, vstr "two") ]); "tss", M.VMap (M.MStrStr, [ (vstr "k", vstr "v") ]) ], None ]

let fixed_stream oc =
  List.iter (fun (name, tpls, ctx, policy) ->
    let env = { G.tpls = tpls; G.custom = G.std_custom; G.policy = policy } in
    if not (G.emit_case oc ~stream:"core" ~extra:[ "scenario", JS name ] env "main" ctx) then
      prerr_endline ("c09: scenario " ^ name ^ " has no spelling")) fixed_scenarios


let core_stream r oc n =
  let made = ref 0 and tries = ref 0 in
  while !made < n && !tries < 20 * n do
    incr tries;
    let (env, main) = G.gen_template_set r ~depth:(1 + rint r 3) in
    let ctx = G.gen_ctx r in
    if G.emit_case oc ~stream:"core" env main ctx then incr made
  done

let run ~seed ~tier oc =
  let r = mk_rng seed in
  match tier with
  | "core" -> fixed_stream oc; core_stream r oc 6000
  | "core-small" -> fixed_stream oc; core_stream r oc 300
  | "core-fixed" -> fixed_stream oc
  | _ ->
    let thorough = tier = "thorough" in
    truth_stream oc;
    lazy_stream oc;
    seq_stream oc;
    null_stream oc;
    filtered_seq_stream oc;
    loopref_stream oc;
    empty_branch_stream oc;
    flag_stream oc;
    empty_loop_stream oc;
    range_stream oc ~wide:thorough;
    prog_stream r oc (if thorough then 60000 else 2500)
