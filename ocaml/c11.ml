(* C11 case generation: include scope and non-interference.

   A case is a CHAIN of templates main -> t1 -> ... -> tn (n <= 4): every template but the last hosts one include of
   the next one. Every link draws its own option set (with / ignore missing / only / sandboxed: 16 combinations), the
   form of the name (literal, concatenation, a variable set just before, a variable that a with binding of the same
   name tries to redirect, a conditional), its placement in the host (top level, inside a for loop with iteration
   dependent with values, inside a block, inside a macro body) and its with bindings (a fresh name, a value passed
   through, an override of a variable of the includer, a value that can only be computed in the includer, the name
   of the loop variable). Every template
     - defines a macro m and blocks blkA / blkB of its own (the same names in every template),
     - prints its VIEW at the start       <I<k>|a=..;b=..;...|>    every name of the universe, loop.index if defined
     - sets variables the includer also has (a) and one of its own (s<k>),
     - prints a PROBE before and after its include  <P<k>a|...|> <P<k>b|...|>  every name, loop.index inside a
       loop, the macro call m(), a block,
     - ends with a for loop over the shared loop variable name i.
   The last template is plain, extends a base layout, includes / extends / imports a template that does not exist,
   or fails with a sentinel error.

   Three predictions per case:
     spec   c11_render_template (Spec/IncludeSpec.v: the include node replaced by the executable instance of its
            specification)                                                                   -- the reference
     exp    render_template (Model/Eval.v, the faithful model)
     checks by construction, independent of both (the generator tracks which marker value every name carries):
            per view the markers it must and must not contain; the regions that must appear; the error class
   The runner adds the oracle probe before == probe after.
   regress = sandboxed-inherits marks the cases with a sandboxed include without only in a context that inherits
   variables (the defect repaired by 7d45909: only the own map of the includer was copied); stream c11-regress holds
   its witnesses with the demanded output written out.
   Stream c11-loader: templates served by an ArrayLoader, one of them does not parse: ignore missing must not
   swallow that. *)
open Util
module M = Model
module G = Evalgen

let bs = G.bs and lit_str = G.lit_str and lit_int = G.lit_int and var = G.var
let text s = M.NText (bs s)
let print e = M.NPrint e
let call f args = M.ECall (bs f, args)
let set x e = M.NSet (bs x, e)
let attr o a = M.EAttr (o, bs a)
let hash kvs = M.EHash (List.map (fun (k, v) -> (lit_str k, v)) kvs)

let universe = [ "a"; "b"; "c"; "v"; "w"; "i"; "p"; "s0"; "s1"; "s2"; "s3"; "s4" ]
let tname k = if k = 0 then "main" else Printf.sprintf "t%d" k
let marker kind k name = Printf.sprintf "x%s%d%sx" kind k name

let policy_std = Some ([ "upper"; "e"; "escape"; "fail7"; "spy" ],
                       [ "range"; "m"; "host0"; "host1"; "host2"; "host3"; "host4"; "failfn3"; "spyfn"; "tick" ])

(* every template starts by calling tick(): the runner counts the calls of one rendering and fails the rendering
   when there are more than any case needs, so that a change that makes templates include each other without end
   is reported with its input instead of exhausting the stack *)
let tick = M.NDo (M.ECall (bs "tick", []))
let custom_c11 = G.std_custom @ [ { G.ckind = "function"; G.cname = "tick"; G.cb = M.CbConst (G.vstr "") } ]

(* ---------------------------------------------------------------- shapes *)
type placement = Top | Loop | Block | Macro
type name_form = Static | Concat | SetVar | Shadowed | Cond
type wkind = WFresh | WPass | WOverride | WInIncluder | WLoopDep | WLoopName | WSpy | WFail
type link = {
  missing : bool;                 (* the named template does not exist *)
  form : name_form;
  withs : wkind list option;
  ign : bool; only : bool; sb : bool;
  place : placement;
}
type leaf = LPlain | LExtends | LInnerMissing | LInnerMissingIgnored | LExtendsMissing | LImportMissing | LSentinel
          | LSetInSpaceless | LSetInApply | LSetInBlock   (* ... in the body of a spaceless, an apply, a block *)
          | LSetInThen | LSetInElse   (* nothing but output at the top level; the assignments and the loop stand in a branch of an if *)

let placement_str = function Top -> "top" | Loop -> "loop" | Block -> "block" | Macro -> "macro"
let form_str = function Static -> "static" | Concat -> "concat" | SetVar -> "setvar" | Shadowed -> "shadowed" | Cond -> "cond"
let leaf_str = function
  | LPlain -> "plain" | LExtends -> "extends" | LInnerMissing -> "inner-missing" | LInnerMissingIgnored -> "inner-missing-ignored"
  | LExtendsMissing -> "extends-missing" | LImportMissing -> "import-missing" | LSentinel -> "sentinel"
  | LSetInThen -> "set-in-then-branch" | LSetInElse -> "set-in-else-branch"
  | LSetInSpaceless -> "set-in-spaceless" | LSetInApply -> "set-in-apply" | LSetInBlock -> "set-in-block"
let combo_str (l : link) =
  Printf.sprintf "w%di%do%ds%d" (if l.withs = None then 0 else 1) (if l.ign then 1 else 0) (if l.only then 1 else 0) (if l.sb then 1 else 0)

(* name -> marker carried; visibility is tracked by construction *)
type vis = (string * string) list
let vset (v : vis) k m : vis = (k, m) :: List.remove_assoc k v
let vget (v : vis) k = try List.assoc k v with Not_found -> ""

type check = { region : string; must : string list; mustnot : string list }

(* ---------------------------------------------------------------- pieces of a template *)
let view_region k : M.node list =
  [ text (Printf.sprintf "<I%d|" k) ]
  @ List.concat_map (fun n -> [ text (n ^ "="); print (var n); text ";" ]) universe
  @ [ M.NIf ([ (M.ETest (var "loop", bs "defined", [], false), [ text "li="; print (attr (var "loop") "index") ]) ], None);
      text "|>" ]

let probe_region k (side : string) ~(inloop : bool) ~(blocks : bool) : M.node list =
  [ text (Printf.sprintf "<P%d%s|" k side) ]
  @ List.concat_map (fun n -> [ text (n ^ "="); print (var n); text ";" ]) universe
  @ (if inloop then [ text "li="; print (attr (var "loop") "index"); text ";lr="; print (attr (var "loop") "revindex") ] else [])
  @ [ text ";m="; print (call "m" []) ]
  @ (if blocks then [ M.NBlock (bs (if side = "a" then "blkA" else "blkB"), [ text "[blk:"; print (var "a"); print (var "s0"); text "]" ]) ] else [])
  @ [ text "|>" ]

let trailing_loop k : M.node list =
  [ M.NFor (None, bs "i", M.EArr [ lit_str (marker "T" k "i") ], [ print (var "i"); print (attr (var "loop") "index") ], None) ]

(* the with bindings of link k in a host whose visible variables are vis: (name, expression, marker carried) *)
let with_binding k (vis : vis) (place : placement) (w : wkind) : (string * M.expr * string) option =
  match w with
  | WFresh -> Some ("w", lit_str (marker "W" k "w"), marker "W" k "w")
  | WPass -> Some ("v", var "a", vget vis "a")
  | WOverride -> Some ("a", lit_str (marker "O" k "a"), marker "O" k "a")
  | WInIncluder ->
    (* computable in the includer only: b compared with the marker it carries there *)
    let mb = vget vis "b" in
    if mb = "" then None
    else Some ("c", M.ECond (M.EBin (M.BEq, var "b", lit_str mb), lit_str (marker "Y" k "c"), lit_str (marker "N" k "c")), marker "Y" k "c")
  | WLoopDep ->
    if place = Loop then Some ("w", M.EBin (M.BConcat, lit_str (marker "D" k "w"), attr (var "loop") "index"), marker "D" k "w") else None
  | WLoopName -> Some ("i", lit_str (marker "J" k "i"), marker "J" k "i")
  | WSpy -> Some ("b", M.ECall (bs "spyfn", [ lit_str (marker "F" k "b") ]), marker "F" k "b")
  | WFail -> Some ("w", M.ECall (bs "failfn3", []), "")

(* ---------------------------------------------------------------- a chain *)
type built = {
  tpls : (string * M.node list) list;
  checks : check list;
  expect_regions : string list;   (* regions that appear when the rendering succeeds *)
  oclass : string;                (* error class by construction *)
  maybe_known : bool;             (* a sandboxed include without only in a context that inherits variables (7d45909) *)
}

let build (links : link list) (leaf : leaf) (ctxvars : (string * string) list) ~(has_policy : bool) : built =
  let issued = ref (List.map snd ctxvars) in
  let issue m = if m <> "" && not (List.mem m !issued) then issued := m :: !issued in
  let checks = ref [] and regions = ref [] and tpls = ref [] in
  let oclass = ref "none" and stopped = ref false and maybe_known = ref false in
  let fail c = if not !stopped then (oclass := c; stopped := true) in
  let add_view_check k (vis : vis) =
    if not !stopped then begin
      let must = List.filter (fun m -> m <> "") (List.map (fun n -> vget vis n) universe) in
      let mustnot = List.filter (fun m -> not (List.mem m must)) !issued in
      checks := { region = Printf.sprintf "I%d" k; must; mustnot } :: !checks;
      regions := Printf.sprintf "I%d" k :: !regions
    end in
  (* template k, started with vis; inherits: some visible variable is not in the own map of its context *)
  let rec template k (vis : vis) (inherits : bool) (rest : link list) : unit =
    let macro_m = M.NMacro (bs "m", [], [ text (Printf.sprintf "M%d" k) ]) in
    let macro_m_list = [ tick; macro_m ] in
    match rest with
    | [] ->
      (* the last template *)
      let name = tname k in
      (match leaf with
       | LPlain ->
         add_view_check k vis;
         tpls := (name, macro_m_list @ view_region k
                        @ [ set "a" (lit_str (marker "S" k "a")); set (Printf.sprintf "s%d" (min k 4)) (lit_str (marker "S" k "s"));
                            M.NBlock (bs "blkA", [ text "leafA" ]); M.NBlock (bs "blkB", [ text "leafB" ]);
                            text "m="; print (call "m" []) ]
                        @ trailing_loop k) :: !tpls
       | LSetInThen | LSetInElse ->
         add_view_check k vis;
         let work = [ set "a" (lit_str (marker "S" k "a")); set (Printf.sprintf "s%d" (min k 4)) (lit_str (marker "S" k "s")); set "b" (lit_str (marker "S" k "b")) ]
                    @ trailing_loop k in
         let cond = M.EBin (M.BEq, lit_int 1, lit_int (if leaf = LSetInThen then 1 else 2)) in
         tpls := (name, view_region k
                        @ [ (if leaf = LSetInThen then M.NIf ([ (cond, work) ], Some [ text "else" ]) else M.NIf ([ (cond, [ text "then" ]) ], Some work)); text "|end" ]) :: !tpls
       | LSetInSpaceless | LSetInApply | LSetInBlock ->
         add_view_check k vis;
         let work = [ set "a" (lit_str (marker "S" k "a")); set (Printf.sprintf "s%d" (min k 4)) (lit_str (marker "S" k "s")); set "b" (lit_str (marker "S" k "b")) ]
                    @ trailing_loop k in
         (* under a sandboxed link the policy of these cases allows neither spaceless nor lower: a block then *)
         let any_sb = List.exists (fun (l : link) -> l.sb) links in
         let wrapped = match leaf with
           | LSetInSpaceless when not any_sb -> M.NSpaceless work
           | LSetInApply when not any_sb -> M.NApply (bs "lower", [], work)
           | _ -> M.NBlock (bs "blkW", work) in
         tpls := (name, view_region k @ [ wrapped; text "|end" ]) :: !tpls
       | LExtends ->
         add_view_check k vis;
         (* the base layout reads the same variables *)
         if not !stopped then begin
           let must = List.filter (fun m -> m <> "") (List.map (fun n -> vget vis n) universe) in
           checks := { region = "I9"; must; mustnot = List.filter (fun m -> not (List.mem m must)) !issued } :: !checks;
           regions := "I9" :: !regions
         end;
         tpls := (name, [ M.NExtends (lit_str "base"); M.NBlock (bs "blkA", view_region k @ [ text "childA" ]) ]) :: !tpls;
         tpls := ("base", [ tick; text "<base>" ] @ view_region 9 @ [ M.NBlock (bs "blkA", [ text "baseA" ]); text "|";
                            M.NBlock (bs "blkB", [ text "baseB"; print (var "a") ]); text "</base>" ]) :: !tpls
       | LInnerMissing ->
         add_view_check k vis;
         tpls := (name, [ tick ] @ view_region k @ [ M.NInclude (lit_str "nosuchinner", None, false, false, false) ]) :: !tpls;
         fail "not-found"
       | LInnerMissingIgnored ->
         add_view_check k vis;
         tpls := (name, [ tick ] @ view_region k @ [ text "("; M.NInclude (lit_str "nosuchinner", None, true, false, false); text ")" ]) :: !tpls
       | LExtendsMissing ->
         tpls := (name, [ M.NExtends (lit_str "nosuchbase"); M.NBlock (bs "blkA", [ text "x" ]) ]) :: !tpls;
         fail "not-found"
       | LImportMissing ->
         add_view_check k vis;
         tpls := (name, [ tick ] @ view_region k @ [ M.NImport (lit_str "nosuchlib", bs "lib") ]) :: !tpls;
         fail "not-found"
       | LSentinel ->
         add_view_check k vis;
         tpls := (name, [ tick ] @ view_region k @ [ print (M.EFilter (lit_int 1, bs "fail7", [])) ]) :: !tpls;
         fail "sentinel:7")
    | l :: rest' ->
      add_view_check k vis;
      let sk = Printf.sprintf "s%d" (min k 4) in
      (* assignments of this template: a variable the includer has as well, and one of its own *)
      let set_a = k mod 2 = 1 || l.place = Loop in
      let vis = if set_a then vset vis "a" (marker "S" k "a") else vis in
      let vis = vset vis sk (marker "S" k "s") in
      if set_a then issue (marker "S" k "a");
      issue (marker "S" k "s");
      let target = if l.missing then "nosuch" else tname (k + 1) in
      let pre_sets =
        (if set_a then [ set "a" (lit_str (marker "S" k "a")) ] else [])
        @ [ set sk (lit_str (marker "S" k "s")) ]
        @ (match l.form with SetVar | Shadowed -> [ set "tn" (lit_str target) ] | _ -> []) in
      (* the placement: what the body of the host sees in addition *)
      let (vis_in, inherits_in) = match l.place with
        | Loop -> issue (marker "L" k "i"); (vset vis "i" (marker "L" k "i"), inherits)
        | Macro -> issue (marker "P" k "p"); (vset vis "p" (marker "P" k "p"), true)
        | Top | Block -> (vis, inherits) in
      (* with bindings *)
      let wk = match l.withs, l.form with
        | Some ws, Shadowed -> Some ws
        | None, Shadowed -> Some []
        | w, _ -> w in
      let bindings = match wk with
        | None -> None
        | Some ws ->
          let bl = List.filter_map (with_binding k vis_in l.place) ws in
          (* one binding per name: the first of a name stays *)
          let bl = List.fold_left (fun acc (n, e, m) -> if List.exists (fun (n', _, _) -> n' = n) acc then acc else acc @ [ (n, e, m) ]) [] bl in
          (* the order in which the engine evaluates several with values is not fixed: next to a failing value no
             value with a counted callback *)
          let failing = List.exists (fun (_, e, _) -> e = M.ECall (bs "failfn3", [])) bl in
          let bl = if failing then List.filter (fun (_, e, _) -> match e with M.ECall (f, _) when G.sb f = "spyfn" -> false | _ -> true) bl else bl in
          let bl = if l.form = Shadowed then bl @ [ ("tn", lit_str "nosuchshadow", "") ] else bl in
          Some bl in
      let name_expr = match l.form with
        | Static -> lit_str target
        | Concat -> M.EBin (M.BConcat, lit_str (String.sub target 0 1), lit_str (String.sub target 1 (String.length target - 1)))
        | SetVar | Shadowed -> var "tn"
        | Cond -> M.ECond (M.EBin (M.BEq, var sk, lit_str (marker "S" k "s")), lit_str target, lit_str "nosuchcond") in
      let inc = M.NInclude (name_expr, Option.map (fun bl -> hash (List.map (fun (n, e, _) -> (n, e)) bl)) bindings, l.ign, l.only, l.sb) in
      let inloop = l.place = Loop in
      let blocks = l.place = Top in
      let core = probe_region k "a" ~inloop ~blocks @ [ inc ] @ probe_region k "b" ~inloop ~blocks in
      let hostname = Printf.sprintf "host%d" k in
      let placed = match l.place with
        | Top -> core
        | Loop -> [ M.NFor (None, bs "i", M.EArr [ lit_str (marker "L" k "i" ^ "1"); lit_str (marker "L" k "i" ^ "2") ], core, None) ]
        | Block -> [ M.NBlock (bs "blkA", core) ]
        | Macro -> [ M.NMacro (bs hostname, [ (bs "p", None) ], core); print (call hostname [ lit_str (marker "P" k "p") ]) ] in
      let after = match l.place with
        | Loop -> []      (* nothing reads loop after a loop *)
        | _ -> [ text "<end"; print (var "a"); print (var sk); text ">" ] in
      tpls := (tname k, macro_m_list @ view_region k @ pre_sets @ placed @ after @ trailing_loop k) :: !tpls;
      if not !stopped then regions := Printf.sprintf "P%da" k :: Printf.sprintf "P%db" k :: !regions;
      (* what happens at this link, in the order of IncludeNode.Render *)
      if l.missing then begin
        if l.ign then stopped := true   (* nothing below is rendered; no error *)
        else fail "not-found";
        (* the templates below do not exist *)
        ()
      end else begin
        if l.sb && not has_policy then fail "other"
        else if (match bindings with Some bl -> List.exists (fun (_, e, _) -> e = M.ECall (bs "failfn3", [])) bl | None -> false) then fail "sentinel:3";
        if l.sb && not l.only && inherits_in then maybe_known := true;
        let passed = match bindings with None -> [] | Some bl -> List.filter (fun (n, _, _) -> n <> "tn") bl in
        List.iter (fun (_, _, m) -> issue m) passed;
        let base : vis = if l.only then [] else vis_in in
        let vis' = List.fold_left (fun v (n, _, m) -> vset v n m) base passed in
        (* the context of the next template: a clone inherits; a fresh one holds everything itself *)
        let inherits' = not l.only && not l.sb in
        if !stopped && !oclass = "none" then () else template (k + 1) vis' inherits' rest'
      end in
  let vis0 = List.map (fun (n, m) -> (n, m)) ctxvars in
  template 0 vis0 false links;
  { tpls = List.rev !tpls; checks = List.rev !checks; expect_regions = List.rev !regions; oclass = !oclass; maybe_known = !maybe_known }

(* ---------------------------------------------------------------- emission *)
let fuel = 5000
let emitted = ref 0
let spec_diffs = ref 0

(* the options of an include tag in another order: the printer writes  with {..} ignore missing only sandboxed ; the
   parser takes the keywords in any order, and the tokenizer treats a with object that ends the tag differently from
   one that is followed by keywords. order is a permutation of the segments present (0 = with, 1 = ignore missing,
   2 = only, 3 = sandboxed); the printed tag is replaced in the source text *)
let replace_first (s : string) (sub : string) (by : string) : string =
  let n = String.length s and m = String.length sub in
  let rec find i = if i + m > n then -1 else if String.sub s i m = sub then i else find (i + 1) in
  match find 0 with
  | -1 -> s
  | i -> String.sub s 0 i ^ by ^ String.sub s (i + m) (n - i - m)

let rec all_include_nodes (ns : M.node list) : M.node list =
  List.concat_map (fun n -> match n with
    | M.NInclude _ -> [ n ]
    | M.NIf (brs, els) -> List.concat_map (fun (_, b) -> all_include_nodes b) brs @ (match els with Some b -> all_include_nodes b | None -> [])
    | M.NFor (_, _, _, b, els) -> all_include_nodes b @ (match els with Some b -> all_include_nodes b | None -> [])
    | M.NBlock (_, b) | M.NMacro (_, _, b) | M.NApply (_, _, b) | M.NSpaceless b -> all_include_nodes b
    | _ -> []) ns

let reorder_source (order : int list) (ns : M.node list) (src : string) : string =
  List.fold_left (fun src n ->
    match n with
    | M.NInclude (e, withs, ign, only, sb) ->
      let printed = G.pp_node n in
      let bare = G.pp_node (M.NInclude (e, None, false, false, false)) in              (* {% include NAME %} *)
      let head = String.sub bare 0 (String.length bare - 3) in                          (* {% include NAME *)
      let with_only = G.pp_node (M.NInclude (e, withs, false, false, false)) in
      let seg_w = String.sub with_only (String.length head) (String.length with_only - String.length head - 3) in
      let segs = [ (0, seg_w, withs <> None); (1, " ignore missing", ign); (2, " only", only); (3, " sandboxed", sb) ] in
      let present = List.filter (fun (_, _, p) -> p) segs in
      let ordered = List.filter_map (fun i -> List.find_opt (fun (j, _, _) -> j = i) present) order in
      replace_first src printed (head ^ String.concat "" (List.map (fun (_, t, _) -> t) ordered) ^ " %}")
    | _ -> src) src (all_include_nodes ns)

let emit_chain ?(order : int list option) oc ~stream (links : link list) (leaf : leaf) (ctxvars : (string * string) list) ~(has_policy : bool) =
  let b = build links leaf ctxvars ~has_policy in
  let env = { G.tpls = b.tpls; G.custom = custom_c11; G.policy = (if has_policy then policy_std else None) } in
  let ctx = List.map (fun (n, m) -> (n, G.vstr m)) ctxvars in
  let reordered fields = match order with
    | None -> fields
    | Some ord ->
      List.map (fun (k, v) ->
        if k = "tpls" then (k, JL (List.map (fun (n, ns) -> JL [ JS (hex n); JS (hex (reorder_source ord ns (G.pp_nodes ns))) ]) b.tpls))
        else (k, v)) fields in
  match (try Some (reordered (G.case_input_fields env "main" ctx)) with G.Unprintable why -> prerr_endline ("c11: unprintable: " ^ why); None) with
  | None -> ()
  | Some fields ->
    let menv = G.model_env env in
    let vars = List.map (fun (k, v) -> (bs k, v)) ctx in
    let (r_model, tr) = M.render_template (nat_of_int fuel) menv (bs "main") vars in
    let (r_spec, _) = M.c11_render_template (nat_of_int fuel) menv (bs "main") vars in
    (* the model and the executable specification agree on every generated case (the included templates do not read
       what tells an own variable from an inherited one); a difference is reported by the runner *)
    if r_model <> r_spec then begin
      incr spec_diffs;
      prerr_endline ("c11: model and specification differ: " ^ G.pp_nodes (List.assoc "main" b.tpls))
    end;
    (* a sandboxed include without only in a context that inherits variables: the class of the repaired defect 7d45909 *)
    let known = if b.maybe_known then [ "regress", JS "sandboxed-inherits" ] else [] in
    incr emitted;
    emit oc (Ob ([ "stream", JS stream ] @ fields
                 @ [ "exp", G.exp_json r_model; "spec", G.exp_json r_spec;
                     "trace", JL (List.map (fun ev -> JS (G.event_str ev)) tr);
                     "spy", Ob (G.spy_counts env tr);
                     "oclass", JS b.oclass;
                     "expect_regions", JL (List.map (fun s -> JS s) b.expect_regions);
                     "checks", JL (List.map (fun c -> Ob [ "region", JS c.region; "must", JL (List.map (fun s -> JS s) c.must);
                                                           "mustnot", JL (List.map (fun s -> JS s) c.mustnot) ]) b.checks);
                     "depth", JI (List.length links);
                     "combos", JL (List.map (fun l -> JS (combo_str l)) links);
                     "places", JL (List.map (fun l -> JS (placement_str l.place)) links);
                     "forms", JL (List.map (fun l -> JS (form_str l.form ^ (if l.missing then "-missing" else ""))) links);
                     "leaf", JS (leaf_str leaf) ] @ known))

let std_ctx = [ ("a", marker "C" 0 "a"); ("b", marker "C" 0 "b"); ("c", marker "C" 0 "c") ]

let all_bools = [ false; true ]
let all_combos : (bool * bool * bool * bool) list =
  List.concat_map (fun w -> List.concat_map (fun i -> List.concat_map (fun o -> List.map (fun s -> (w, i, o, s)) all_bools) all_bools) all_bools) all_bools

let plain_link = { missing = false; form = Static; withs = None; ign = false; only = false; sb = false; place = Top }

(* the deterministic catalogue: 16 option sets x name form x placement x depth of the host, and the leaves *)
let catalogue oc =
  List.iter (fun (w, i, o, s) ->
    List.iter (fun form ->
      List.iter (fun place ->
        List.iter (fun depth ->
          let withs = if w then Some (if place = Loop then [ WLoopDep; WOverride; WInIncluder ] else [ WFresh; WOverride; WInIncluder; WPass ]) else None in
          let l = { missing = false; form; withs; ign = i; only = o; sb = s; place } in
          (* the hosts above: plain includes, then one with bindings, so that the host inherits variables *)
          let above = List.init depth (fun j -> if j = 1 then { plain_link with withs = Some [ WFresh ] } else plain_link) in
          emit_chain oc ~stream:"c11-options" (above @ [ l ]) LPlain std_ctx ~has_policy:true)
          [ 0; 1; 2 ]) [ Top; Loop; Block; Macro ]) [ Static; Concat ]) all_combos;
  (* the keywords of the tag in other orders *)
  List.iter (fun (w, i, o, s) ->
    if List.length (List.filter (fun x -> x) [ w; i; o; s ]) >= 2 then
      List.iter (fun order ->
        List.iter (fun place ->
          List.iter (fun depth ->
            let withs = if w then Some (if place = Loop then [ WLoopDep; WOverride; WInIncluder ] else [ WFresh; WOverride; WInIncluder; WPass ]) else None in
            let l = { missing = false; form = Static; withs; ign = i; only = o; sb = s; place } in
            emit_chain ~order oc ~stream:"c11-order" (List.init depth (fun _ -> l) @ [ l ]) LPlain std_ctx ~has_policy:true)
            [ 0; 1 ]) [ Top; Loop ])
        [ [ 3; 2; 1; 0 ]; [ 2; 0; 3; 1 ]; [ 1; 3; 0; 2 ]; [ 0; 3; 2; 1 ] ]) all_combos;
  (* the named template does not exist, in every option set, static and computed *)
  List.iter (fun (w, i, o, s) ->
    List.iter (fun form ->
      List.iter (fun place ->
        let l = { missing = true; form; withs = (if w then Some [ WFresh; WSpy ] else None); ign = i; only = o; sb = s; place } in
        emit_chain oc ~stream:"c11-missing" [ l ] LPlain std_ctx ~has_policy:true;
        emit_chain oc ~stream:"c11-missing" [ plain_link; l ] LPlain std_ctx ~has_policy:true) [ Top; Loop; Macro ])
      [ Static; Concat; SetVar ]) all_combos;
  (* failures inside an included template that exists, under every option set of the outer include *)
  List.iter (fun (w, i, o, s) ->
    List.iter (fun leaf ->
      let l = { missing = false; form = Static; withs = (if w then Some [ WFresh ] else None); ign = i; only = o; sb = s; place = Top } in
      emit_chain oc ~stream:"c11-inner" [ l ] leaf std_ctx ~has_policy:true;
      emit_chain oc ~stream:"c11-inner" [ { plain_link with ign = true }; l ] leaf std_ctx ~has_policy:true)
      [ LInnerMissing; LInnerMissingIgnored; LExtendsMissing; LImportMissing; LSentinel; LExtends; LSetInThen; LSetInElse; LSetInSpaceless; LSetInApply; LSetInBlock ]) all_combos;
  (* name forms and with kinds *)
  List.iter (fun form ->
    List.iter (fun (o, s) ->
      List.iter (fun ws ->
        let l = { missing = false; form; withs = ws; ign = false; only = o; sb = s; place = Top } in
        emit_chain oc ~stream:"c11-names" [ l ] LPlain std_ctx ~has_policy:true;
        emit_chain oc ~stream:"c11-names" [ plain_link; l ] LExtends std_ctx ~has_policy:true)
        [ None; Some []; Some [ WFresh ]; Some [ WSpy ]; Some [ WLoopName; WPass ]; Some [ WFail ]; Some [ WOverride; WInIncluder ] ])
      [ (false, false); (true, false); (false, true); (true, true) ])
    [ Static; Concat; SetVar; Shadowed; Cond ];
  (* sandboxed without a security policy *)
  List.iter (fun (w, i, o, s) ->
    let l = { missing = false; form = Static; withs = (if w then Some [ WFresh ] else None); ign = i; only = o; sb = s; place = Top } in
    emit_chain oc ~stream:"c11-nopolicy" [ l ] LPlain std_ctx ~has_policy:false;
    emit_chain oc ~stream:"c11-nopolicy" [ plain_link; { l with place = Loop } ] LPlain std_ctx ~has_policy:false) all_combos

(* random chains *)
let gen_link r ~(last : bool) : link =
  let place = pick r [| Top; Top; Loop; Loop; Block; Macro; Macro |] in
  let nw = rint r 4 in
  let withs = if rint r 5 < 2 then None else
      Some (List.init nw (fun _ -> pick r [| WFresh; WPass; WOverride; WInIncluder; WLoopDep; WLoopName; WSpy; WFresh; WOverride |])) in
  let withs = match withs with Some ws when rint r 40 = 0 -> Some (WFail :: ws) | w -> w in
  { missing = last && rint r 8 = 0;
    form = pick r [| Static; Static; Concat; SetVar; Shadowed; Cond |];
    withs; ign = rint r 3 = 0; only = rint r 3 = 0; sb = rint r 3 = 0; place }

let random_chains r oc n =
  for _ = 1 to n do
    let depth = 1 + rint r 4 in
    let links = List.init depth (fun j -> gen_link r ~last:(j = depth - 1)) in
    let leaf = pick r [| LPlain; LPlain; LPlain; LExtends; LExtends; LInnerMissing; LInnerMissingIgnored; LExtendsMissing; LImportMissing; LSentinel; LSetInThen; LSetInElse; LSetInSpaceless; LSetInApply; LSetInBlock |] in
    let ctxvars = List.filter (fun _ -> rint r 4 <> 0) (std_ctx @ [ ("v", marker "C" 0 "v"); ("w", marker "C" 0 "w"); ("i", marker "C" 0 "i"); ("p", marker "C" 0 "p"); ("s1", marker "C" 0 "s") ]) in
    emit_chain oc ~stream:"c11-chains" links leaf ctxvars ~has_policy:(rint r 12 <> 0)
  done

(* templates from a loader, one of them broken: the expected class is by construction *)
let loader_cases oc =
  List.iter (fun (w, i, o, s) ->
    List.iter (fun (target, oclass) ->
      let src_main = Printf.sprintf "a{%% include '%s'%s%s%s%s %%}b" target
          (if w then " with { w: 1 }" else "") (if i then " ignore missing" else "") (if o then " only" else "") (if s then " sandboxed" else "") in
      let oclass = if oclass = "missing" then (if i then "none" else "not-found") else oclass in
      emit oc (Ob [ "stream", JS "c11-loader";
                    "loader", JL [ JL [ JS (hex "main"); JS (hex src_main) ]; JL [ JS (hex "broken"); JS (hex "x{% if %}y") ];
                                   JL [ JS (hex "broken2"); JS (hex "{{ 1 + }}") ];
                                   JL [ JS (hex "wrap"); JS (hex "w({% include 'broken' %})") ]; JL [ JS (hex "ok"); JS (hex "OK") ] ];
                    "tpls", JL []; "main", JS "main"; "ctx", JS "Many()"; "custom", JL []; "kinds", JS "include";
                    "policy", Ob [ "filters", JL []; "functions", JL [] ];
                    "exp", Ob [ "skip", JS "constructed" ]; "oclass", JS oclass;
                    "oout", JS (hex (match target, oclass with "ok", _ -> "aOKb" | _, "none" -> "ab" | _ -> ""));
                    "expect_regions", JL []; "checks", JL []; "depth", JI 1;
                    "combos", JL [ JS (Printf.sprintf "w%di%do%ds%d" (Bool.to_int w) (Bool.to_int i) (Bool.to_int o) (Bool.to_int s)) ];
                    "places", JL [ JS "top" ]; "forms", JL [ JS ("loader-" ^ target) ]; "leaf", JS "loader" ]))
      [ ("broken", "parse"); ("broken2", "parse"); ("wrap", "parse"); ("nosuch", "missing"); ("ok", "none") ]) all_combos

(* witnesses of the repaired defect 7d45909, the demanded output written out *)
let emit_plain oc ~stream (tpls : (string * M.node list) list) (ctx : (string * M.value) list) (oout : string) =
  let env = { G.tpls = tpls; G.custom = custom_c11; G.policy = policy_std } in
  match (try Some (G.case_input_fields env "main" ctx) with G.Unprintable why -> prerr_endline ("c11: unprintable: " ^ why); None) with
  | None -> ()
  | Some fields ->
    let menv = G.model_env env in
    let vars = List.map (fun (k, v) -> (bs k, v)) ctx in
    let (r_model, tr) = M.render_template (nat_of_int fuel) menv (bs "main") vars in
    let (r_spec, _) = M.c11_render_template (nat_of_int fuel) menv (bs "main") vars in
    emit oc (Ob ([ "stream", JS stream ] @ fields
                 @ [ "exp", G.exp_json r_model; "spec", G.exp_json r_spec;
                     "trace", JL (List.map (fun ev -> JS (G.event_str ev)) tr); "spy", Ob (G.spy_counts env tr);
                     "oclass", JS "none"; "oout", JS (hex oout); "expect_regions", JL []; "checks", JL [];
                     "depth", JI 2; "combos", JL [ JS "w0i0o0s1" ]; "places", JL [ JS "top" ]; "forms", JL [ JS "static" ];
                     "leaf", JS "plain"; "regress", JS "sandboxed-inherits" ]))

let regress_stream oc =
  let inc ?(withs = None) ?(only = false) ?(sb = false) name = M.NInclude (lit_str name, withs, false, only, sb) in
  let pv x = print (var x) in
  let leaf = ("leaf", [ text "leaf["; pv "x"; pv "a"; text "]" ]) in
  let x1 = [ ("x", G.vint 1) ] in
  (* inside an included template *)
  emit_plain oc ~stream:"c11-regress" [ leaf; ("mid", [ text "mid["; pv "x"; text "]"; inc ~sb:true "leaf" ]); ("main", [ pv "x"; text "|"; inc "mid" ]) ] x1 "1|mid[1]leaf[1]";
  (* inside a macro body: the parameter and the caller's variables *)
  emit_plain oc ~stream:"c11-regress"
    [ leaf; ("main", [ M.NMacro (bs "m", [ (bs "a", None) ], [ inc ~sb:true "leaf" ]); print (call "m" [ lit_int 1 ]); text "|"; pv "x" ]) ] x1 "leaf[11]|1";
  (* two levels of inheritance, a with value on the way, a variable set in the middle template shadows the inherited one *)
  emit_plain oc ~stream:"c11-regress"
    [ leaf; ("mid2", [ set "x" (lit_int 2); inc ~sb:true "leaf" ]); ("mid", [ inc ~withs:(Some (hash [ ("a", lit_int 7) ])) "mid2" ]);
      ("main", [ inc "mid"; text "|"; pv "x"; pv "a" ]) ] x1 "leaf[27]|1";
  (* with on the sandboxed include overrides an inherited variable for the included template only *)
  emit_plain oc ~stream:"c11-regress"
    [ leaf; ("mid", [ inc ~withs:(Some (hash [ ("x", lit_int 5) ])) ~sb:true "leaf"; text "|"; pv "x" ]); ("main", [ inc "mid" ]) ] x1 "leaf[5]|1";
  (* only still hides everything *)
  emit_plain oc ~stream:"c11-regress"
    [ leaf; ("mid", [ inc ~only:true ~sb:true "leaf" ]); ("main", [ inc "mid" ]) ] x1 "leaf[]"

let run ~seed ~tier oc =
  let r = mk_rng seed in
  let thorough = tier = "thorough" in
  regress_stream oc;
  catalogue oc;
  loader_cases oc;
  random_chains r oc (if thorough then 40000 else 1500);
  if !spec_diffs > 0 then prerr_endline (Printf.sprintf "c11: %d cases where model and specification differ" !spec_diffs)
