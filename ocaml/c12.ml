(* C12 case generation: macros bind arguments positionally with defaults, alike however they are reached.

   One case = one SCENARIO: macro definitions D (the template "lib"), a macro m of D, an argument list, a call
   site, and FIVE main templates that reach m(args) from the same call site in the five ways
     local   D followed by the site with  m(args)          (the defining template calls it directly)
     self    D followed by the site with  _self.m(args)
     import  {% import 'lib' as x %}, site with  x.m(args)
     from    {% from 'lib' import m %}, site with  m(args)
     alias   {% from 'lib' import m as y %}, site with  y(args)
   rendered with TWO contexts one after the other on the same engine. Every (context, main) carries two predictions:
     spec  = c12_render_template (Spec/MacroSpec.v: calls by the positional rule c12_call)   -- the reference
     model = render_template     (Model/Eval.v)                                              -- proved equal to it
   The runner compares the engine with the spec on each of the ten renders and, independently of any model, checks
     O1  the five outputs of a context are equal from the marker @S@ on (what the defining template prints itself
         before the call site -- the text of the library -- belongs to local and self only)
     O2  the caller's probe variables printed before the call (@A@ ... @B@) and after it (@C@ ... @D@) are equal.
   Streams:
     c12-sig      EXHAUSTIVE: 0-4 parameters x every subset with defaults x 0-6 arguments, default kinds rotating over
                  literal / string / caller variable / expression over caller variables / global / a name that is ALSO an
                  earlier parameter (caller's value expected), argument kinds rotating over literals, caller variables,
                  expressions, explicit null; call sites rotating (all of them in the thorough tier)
     c12-site     every call site (top, loop, block, include, other macro, if, loop-in-block, include-in-loop,
                  macro-in-loop, loop-in-macro) x a few signatures
     c12-body     bodies that print parameters and caller variables, assign (set, for variables, loop) names the caller
                  uses and reads after the call, import / from inside the body, call macros of the caller, call the
                  macro twice
     c12-wrapped  definitions that are not children of the template root: inside spaceless / apply / for / block / if,
                  two levels deep, before and after other definitions; guards that are false (registered nowhere)
     c12-collide  parameter names that are caller variables (set before the call, swapped arguments)
     c12-global   defaults and bodies reading an engine global
     c12-isolated include ... only around the call: no macro is reachable (an error in all five)
     c12-shadowglobal  oracle-only (no prediction: the model has no globals that a variable shadows)
     c12-decl     declarations spelled with unusual spacing, parentheses and commas inside default values, also in
                  sources longer than 4096 bytes (second tokenizer); the runner also tokenises them and checks that no
                  NAME token with a parenthesis follows the tag name (the combined-token declaration parser is not entered)
     c12-sibling / c12-param-macro / c12-self-function   regressions of three defects found here and repaired in the
                  engine: a body calling a macro of its own template, a parameter named like a visible macro, a macro
                  named like a registered function reached through _self
     known:default-calls-sibling-macro   a default expression that calls a macro of its own template (known finding)
     known:macro-call-as-operand   the same call in print position and as an operand (known finding: never rendered) *)
open Util
module M = Model
module G = Evalgen

let bs = G.bs and lit_int = G.lit_int and lit_str = G.lit_str and var = G.var
let vint = G.vint and vstr = G.vstr and vlist = G.vlist
let text s = M.NText (bs s)
let pv x = M.NPrint (var x)
let pr e = M.NPrint e
let attr o a = M.EAttr (o, bs a)
let add a b = M.EBin (M.BAdd, a, b)
let cat a b = M.EBin (M.BConcat, a, b)
let macro name params body = M.NMacro (bs name, List.map (fun (p, d) -> (bs p, d)) params, body)
let set x e = M.NSet (bs x, e)
let forv v seq body = M.NFor (None, bs v, seq, body, None)
let fuel = 300

(* ---------------------------------------------------------------- the five forms *)
type form = Local | Self | Import | From | Alias
let forms = [ Local; Self; Import; From; Alias ]
let form_name = function Local -> "local" | Self -> "self" | Import -> "import" | From -> "from" | Alias -> "alias"
let modvar = "x" and aliasname = "y" and libname = "lib"

let call_expr (f : form) (m : string) (args : M.expr list) : M.expr =
  match f with
  | Local | From -> M.ECall (bs m, args)
  | Self -> M.EModCall (var "_self", bs m, args)
  | Import -> M.EModCall (var modvar, bs m, args)
  | Alias -> M.ECall (bs aliasname, args)

let preamble (f : form) (d : M.node list) (m : string) : M.node list =
  match f with
  | Local | Self -> d
  | Import -> [ M.NImport (lit_str libname, bs modvar) ]
  | From -> [ M.NFrom (lit_str libname, [ (bs m, bs m) ]) ]
  | Alias -> [ M.NFrom (lit_str libname, [ (bs m, bs aliasname) ]) ]

(* ---------------------------------------------------------------- probes *)
let probe_vars = [ "n"; "s"; "v"; "i"; "p"; "q"; "r"; "w"; "zz" ]
let probe a b extra = [ text a ] @ List.concat_map (fun x -> [ pv x; text "," ]) probe_vars @ extra @ [ text b ]
let before ?(extra = []) () = probe "@A@" "@B@" extra
let after ?(extra = []) () = probe "@C@" "@D@" extra
let loop_probe = [ pr (attr (var "loop") "index"); text "/"; pr (attr (var "loop") "length") ]

(* ---------------------------------------------------------------- call sites *)
(* a site: given the call expression builder (arguments -> expression) and the form's name, the nodes of the main
   template behind its preamble and the extra templates it needs *)
type site = { sname : string; build : string -> (M.expr list -> M.expr) -> M.expr list -> M.node list * (string * M.node list) list }

let around call = before () @ [ text "<"; pr call; text ">" ] @ after ()

let s_top = { sname = "top"; build = (fun _ c args -> (around (c args), [])) }
let s_twice = { sname = "twice"; build = (fun _ c args -> (before () @ [ pr (c args); text "+"; pr (c args) ] @ after (), [])) }
let s_loop = { sname = "loop"; build = (fun _ c args ->
    ([ forv "i" (M.EArr [ lit_int 1; lit_int 2 ])
         (before ~extra:loop_probe () @ [ text "<"; pr (c args); text ">" ] @ after ~extra:loop_probe ()) ] @ after (), [])) }
let s_block = { sname = "block"; build = (fun _ c args -> ([ M.NBlock (bs "bsite", around (c args)) ] @ after (), [])) }
let s_if = { sname = "if"; build = (fun _ c args -> ([ M.NIf ([ (M.ELit (M.LBool true), around (c args)) ], None) ], [])) }
let s_include = { sname = "include"; build = (fun fn c args ->
    (before () @ [ M.NInclude (lit_str ("part_" ^ fn), None, false, false, false) ] @ after (),
     [ ("part_" ^ fn, [ text "(" ] @ around (c args) @ [ text ")" ]) ])) }
let s_macro = { sname = "macro"; build = (fun _ c args ->
    (* the call stands in the body of a macro of the CALLER; its first argument is that macro's parameter *)
    let args' = match args with [] -> [] | _ :: r -> var "z" :: r in
    ([ macro "outer" [ ("z", None) ] [ text "{"; pr (c args'); text "}" ] ]
     @ before () @ [ pr (M.ECall (bs "outer", [ (match args with a :: _ -> a | [] -> lit_int 0) ])) ] @ after (), [])) }
let s_loop_in_block = { sname = "loop-in-block"; build = (fun fn c args ->
    let (ns, ex) = s_loop.build fn c args in ([ M.NBlock (bs "bsite", ns) ], ex)) }
let s_include_in_loop = { sname = "include-in-loop"; build = (fun fn c args ->
    ([ forv "i" (M.EArr [ lit_int 1; lit_int 2 ])
         (before ~extra:loop_probe () @ [ M.NInclude (lit_str ("part_" ^ fn), None, false, false, false) ] @ after ~extra:loop_probe ()) ],
     [ ("part_" ^ fn, [ text "("; pr (c args); text ")" ]) ])) }
let s_macro_in_loop = { sname = "macro-in-loop"; build = (fun fn c args ->
    let (ns, ex) = s_macro.build fn c args in
    match ns with
    | def :: rest -> ([ def; forv "i" (M.EArr [ lit_str "a"; lit_str "b" ]) rest ], ex)
    | [] -> (ns, ex)) }
let s_loop_in_macro = { sname = "loop-in-macro"; build = (fun _ c args ->
    ([ macro "outer" [ ("z", None) ] [ forv "j" (M.EArr [ lit_int 1; lit_int 2 ]) [ text "{"; pr (c args); text "}" ] ] ]
     @ before () @ [ pr (M.ECall (bs "outer", [ lit_int 0 ])) ] @ after (), [])) }
let s_isolated = { sname = "include-only"; build = (fun fn c args ->
    (before () @ [ M.NInclude (lit_str ("part_" ^ fn), None, false, true, false) ] @ after (),
     [ ("part_" ^ fn, [ text "("; pr (c args); text ")" ]) ])) }

(* the INCLUDED template defines (local, self) or imports the macro, and the includer has a different macro of the
   same name: inside the include, m and _self.m are the included template's own *)
let cur_preamble : M.node list ref = ref []
let s_include_defining = { sname = "own:include-defining"; build = (fun fn c args ->
    ([ macro "m" [] [ text "INCLUDER-m" ]; macro "y" [] [ text "INCLUDER-y" ] ] @ before ()
     @ [ M.NInclude (lit_str ("part_" ^ fn), None, false, false, false) ] @ after (),
     [ ("part_" ^ fn, !cur_preamble @ [ text "(" ] @ around (c args) @ [ text ")" ]) ])) }

let all_sites = [ s_top; s_loop; s_block; s_include; s_macro; s_if; s_twice; s_loop_in_block; s_include_in_loop; s_macro_in_loop; s_loop_in_macro ]

(* ---------------------------------------------------------------- contexts *)
let ctx1 = [ "n", vint 10; "s", vstr "str"; "v", vstr "outer-v"; "p", vstr "caller-p"; "q", vstr "caller-q" ]
let ctx2 = [ "n", vint 77; "s", vstr "h\xc3\xa9"; "v", vint 5; "p", M.VNull; "q", vlist [ vint 1 ] ]
let global_g = ("g", vstr "GLOBAL")

(* ---------------------------------------------------------------- emission *)
let emitted = ref 0
type scenario = {
  stream : string;
  d : M.node list;                 (* the library *)
  m : string;                      (* the macro called *)
  args : M.expr list;
  site : site;
  extra : (string * M.node list) list;   (* further templates (libraries imported inside bodies) *)
  globals : (string * M.value) list;
  known : string;                  (* class of a known violation of path independence, or "" *)
  predict : bool;                  (* false: oracle only *)
  meta : (string * json) list;
}
let scenario0 = { stream = ""; d = []; m = "m"; args = []; site = s_top; extra = []; globals = []; known = ""; predict = true; meta = [] }

let templates (sc : scenario) : (string * M.node list) list =
  let mains = List.map (fun f ->
      let fn = form_name f in
      cur_preamble := preamble f sc.d sc.m;
      let (body, ex) = sc.site.build fn (call_expr f sc.m) sc.args in
      let own = String.length sc.site.sname > 4 && String.sub sc.site.sname 0 4 = "own:" in
      ((fn, (if own then [] else preamble f sc.d sc.m) @ (text "@S@" :: body)), ex)) forms in
  [ (libname, sc.d) ] @ sc.extra @ List.map fst mains @ List.concat_map snd mains

(* one case: a template set and the main templates that must all print the same *)
let emit_mains oc ~stream ~known ~predict ~globals ~site ~macro ~nargs ~meta (tpls : (string * M.node list) list) (mains : string list) =
  let env = { G.tpls = tpls; G.custom = G.std_custom; G.policy = None } in
  match (try Some (G.case_input_fields env (List.hd mains) ctx1) with G.Unprintable why -> prerr_endline ("c12: unprintable: " ^ why); None) with
  | None -> ()
  | Some fields ->
    let menv = G.model_env env in
    let guard f = try f () with Stack_overflow -> (M.Unmodelled, []) in
    let one ctx main =
      (* a global that no template assigns and no library reads at its top level is a variable of the root context *)
      let vars = List.map (fun (k, v) -> (bs k, v)) (ctx @ globals) in
      let (rs, _) = guard (fun () -> M.c12_render_template (nat_of_int fuel) menv (bs main) vars) in
      let (rm, _) = guard (fun () -> M.render_template (nat_of_int fuel) menv (bs main) vars) in
      (rs, rm) in
    let ctxs = [ ctx1; ctx2 ] in
    let preds = List.map (fun ctx -> List.map (fun m -> one ctx m) mains) ctxs in
    let agree = List.map (fun row -> match row with [] -> true | (r0, _) :: rest -> List.for_all (fun (r, _) -> r = r0) rest) preds in
    let skip = Ob [ "skip", JS "oracle-only" ] in
    (* is the whole environment within the hypotheses of C12_paths_agree? (every macro self-contained over the
       names the generators use) *)
    let names = List.map bs ([ "loop"; "n"; "s"; "v"; "i"; "j"; "p"; "q"; "r"; "w"; "g"; "zz"; "z"; "a"; "b"; "x"; "y"; "h"; "cm"; "m"; "wi";
                               "max"; "min"; "range"; "spyfn"; "h2"; "k2"; "kk"; "inner"; "outer"; "m0"; "m1"; "m2"; "m3" ]) in
    let covered = M.c12_env_okb names menv in
    incr emitted;
    emit oc (Ob ([ "stream", JS stream ] @ fields
                 @ [ "mains", JL (List.map (fun m -> JS m) mains);
                     "ctxs", JL (List.map (fun c -> JS (G.value_str (G.vmap c))) ctxs);
                     "globals", Ob (List.map (fun (k, v) -> (k, JS (G.value_str v))) globals);
                     "spec", JL (List.map (fun row -> JL (List.map (fun (rs, _) -> if predict then G.exp_json rs else skip) row)) preds);
                     "model", JL (List.map (fun row -> JL (List.map (fun (_, rm) -> if predict then G.exp_json rm else skip) row)) preds);
                     "agree", JL (List.map (fun b -> JB (b || not predict)) agree);
                     "known", JS known; "site", JS site; "macro", JS macro; "selfcontained", JB covered;
                     "nargs", JI nargs ] @ meta))

let emit_scenario oc (sc : scenario) =
  emit_mains oc ~stream:sc.stream ~known:sc.known ~predict:sc.predict ~globals:sc.globals ~site:sc.site.sname ~macro:sc.m
    ~nargs:(List.length sc.args) ~meta:sc.meta (templates sc) (List.map form_name forms)

(* ---------------------------------------------------------------- signatures, defaults, arguments *)
let pnames = [| "p"; "q"; "r"; "w" |]
let default_kind k j : M.expr * string =
  match k mod 7 with
  | 0 -> (lit_int (100 + j), "lit")
  (* a text with characters its spelling has to escape (quote, backslash, braces), every other time *)
  | 1 -> (lit_str (if j mod 2 = 0 then "d" ^ string_of_int j else "d'" ^ string_of_int j ^ "\"{\\}q"), "str")
  | 2 -> (var "n", "callervar")
  | 3 -> (add (var "n") (lit_int (10 + j)), "expr")
  | 4 -> (var "g", "global")
  | 5 -> ((if j > 0 then var pnames.(j - 1) else var "v"), "paramname")      (* the CALLER's variable of that name *)
  | _ -> (cat (var "s") (lit_str "!"), "expr")
let arg_kind k j : M.expr =
  match k mod 8 with
  | 0 | 1 -> lit_int (j + 1)
  | 2 -> lit_str ("a" ^ string_of_int j)
  | 3 -> var "n"
  | 4 -> add (var "n") (lit_int j)
  | 5 -> M.ELit M.LNull                (* an explicit null is an argument: the default is NOT taken *)
  | 6 -> var "s"
  | _ -> M.EArr [ lit_int j; var "n" ]

(* the body that shows every parameter, and the caller's n through the parent chain *)
(* a parameter as the body sees it: its text, and a tilde when it is null (null and the empty string print alike) *)
let show_param (p : string) : M.node list =
  [ pv p; pr (M.ECond (M.ETest (var p, bs "null", [], false), lit_str "~", lit_str "")) ]
let show_body (m : string) (ps : string list) : M.node list =
  [ text (m ^ "[") ] @ List.concat_map (fun p -> show_param p @ [ text "|" ]) ps @ [ text "n="; pv "n"; text "]" ]

let sig_scenario ~np ~mask ~na ~k (site : site) : scenario =
  let dk = ref [] in
  let params = List.init np (fun j ->
      (pnames.(j), if mask land (1 lsl j) <> 0 then (let (e, kind) = default_kind (k + j) j in dk := kind :: !dk; Some e) else None)) in
  let args = List.init na (fun j -> arg_kind (k + 3 * j) j) in
  { scenario0 with stream = "c12-sig"; d = [ macro "m" params (show_body "m" (List.map fst params)) ]; args; site;
                   globals = [ global_g ];
                   meta = [ "nparams", JI np; "defaults", JI mask; "default_kinds", JS (String.concat "," (List.rev !dk)) ] }

let sig_stream oc ~thorough =
  let k = ref 0 in
  for np = 0 to 4 do
    for mask = 0 to (1 lsl np) - 1 do
      for na = 0 to 6 do
        incr k;
        let nsites = List.length all_sites in
        if thorough then List.iter (fun s ->
            emit_scenario oc (sig_scenario ~np ~mask ~na ~k:!k s);
            emit_scenario oc (sig_scenario ~np ~mask ~na ~k:(!k + 3) s)) all_sites
        else begin
          emit_scenario oc (sig_scenario ~np ~mask ~na ~k:!k (List.nth all_sites (!k mod nsites)));
          emit_scenario oc (sig_scenario ~np ~mask ~na ~k:(!k + 2) (List.nth all_sites ((!k + 5) mod nsites)))
        end
      done
    done
  done

let site_stream oc =
  List.iter (fun (np, mask, na, k) ->
    emit_scenario oc { (sig_scenario ~np ~mask ~na ~k s_include_defining) with stream = "c12-site" })
    [ (0, 0, 0, 0); (1, 0, 1, 2); (2, 2, 1, 3); (3, 5, 4, 5) ];
  List.iter (fun site ->
    List.iter (fun (np, mask, na, k) -> emit_scenario oc { (sig_scenario ~np ~mask ~na ~k site) with stream = "c12-site" })
      [ (0, 0, 0, 0); (0, 0, 2, 1); (1, 0, 1, 2); (1, 1, 0, 2); (2, 2, 1, 3); (3, 5, 1, 5); (3, 7, 0, 0); (2, 3, 4, 4); (4, 10, 2, 1) ])
    all_sites

(* ---------------------------------------------------------------- bodies *)
let lib2 = ("lib2", [ macro "h2" [ ("a", None); ("b", Some (lit_str "hb")) ] [ text "h2("; pv "a"; text ","; pv "b"; text ")" ];
                      macro "k2" [] [ text "k2" ] ])

(* each body: name, parameters, nodes *)
let bodies : (string * (string * M.expr option) list * M.node list) list = [
  "print", [ ("p", None); ("q", Some (lit_str "dq")) ], [ text "["; pv "p"; text "|"; pv "q"; text "]" ];
  "outer-visible", [ ("p", None) ], [ text "["; pv "p"; text ";"; pv "n"; text ";"; pv "s"; text ";"; pv "v"; text "]" ];
  "assign-set", [], [ set "v" (lit_str "in"); set "n" (lit_int 99); set "zz" (lit_int 1); text "["; pv "v"; pv "n"; text "]" ];
  "assign-set-1param", [ ("p", None) ], [ set "v" (lit_str "in"); set "p" (lit_str "pp"); set "s" (var "p"); text "["; pv "v"; pv "p"; pv "s"; text "]" ];
  "assign-for", [], [ forv "i" (M.EArr [ lit_int 7; lit_int 8; lit_int 9 ]) [ pv "i"; pr (attr (var "loop") "index") ]; text ";"; pv "i" ];
  "assign-for-key", [ ("p", Some (lit_int 3)) ],
     [ M.NFor (Some (bs "n"), bs "v", M.EArr [ lit_str "x"; lit_str "y" ], [ pv "n"; pv "v"; pr (attr (var "loop") "revindex") ], None); pv "p" ];
  "for-else-and-if", [ ("p", None) ],
     [ M.NFor (None, bs "i", var "p", [ pv "i" ], Some [ text "none"; set "v" (lit_int 0) ]);
       M.NIf ([ (var "p", [ set "s" (lit_str "T") ]) ], Some [ set "s" (lit_str "F") ]); pv "s" ];
  "import-inside", [ ("p", None) ], [ M.NImport (lit_str "lib2", bs "x"); pr (M.EModCall (var "x", bs "h2", [ var "p" ])); pr (M.EModCall (var "x", bs "k2", [])) ];
  "import-inside-0", [], [ M.NImport (lit_str "lib2", bs "x"); M.NImport (lit_str "lib2", bs "v"); pr (M.EModCall (var "v", bs "k2", [])) ];
  "from-inside", [ ("p", Some (lit_int 4)) ], [ M.NFrom (lit_str "lib2", [ (bs "h2", bs "h2"); (bs "k2", bs "kk") ]); pr (M.ECall (bs "h2", [ var "p"; lit_int 2 ])); pr (M.ECall (bs "kk", [])) ];
  "from-inside-0", [], [ M.NFrom (lit_str "lib2", [ (bs "k2", bs "y") ]); pr (M.ECall (bs "y", [])) ];
  "caller-macro", [ ("p", None) ], [ text "["; pr (M.ECall (bs "cm", [ var "p"; lit_int 2 ])); text "]" ];
  "apply-spaceless", [ ("p", None) ], [ M.NApply (bs "upper", [], [ text "ab"; pv "p"; set "v" (lit_str "in") ]); M.NSpaceless [ text "<a> <b>"; set "n" (lit_int 0) ]; pv "v" ];
  "do-and-defaults", [ ("p", Some (var "n")); ("q", Some (add (var "n") (lit_int 1))) ], [ set "n" (lit_int 0); pv "p"; text ","; pv "q"; text ","; pv "n" ];
  "include-inside", [ ("p", None) ], [ set "v" (lit_str "mv"); M.NInclude (lit_str "inc2", None, false, false, false); pv "v" ];
  "caller-loop", [], [ text "["; pv "i"; pr (attr (var "loop") "index"); pv "zz"; text "]" ];
  "nested-definition", [ ("p", None) ], [ macro "inner" [ ("a", None) ] [ text "<"; pv "a"; pv "p"; text ">" ]; pr (M.ECall (bs "inner", [ lit_int 1 ])) ];
]
let inc2 = ("inc2", [ text "inc("; pv "p"; pv "v"; set "v" (lit_str "iv"); set "n" (lit_int 1); text ")" ])

let body_stream oc r ~n =
  (* the caller's macro cm exists in all five mains: it is defined by the site *)
  let with_cm (s : site) : site =
    { s with build = (fun fn c args -> let (ns, ex) = s.build fn c args in
                       (macro "cm" [ ("a", None); ("b", None) ] [ text "cm("; pv "a"; pv "b"; pv "p"; text ")" ] :: ns, ex)) } in
  let sites = [ s_top; s_loop; s_block; s_include; s_macro; s_twice; s_include_in_loop; s_loop_in_macro ] in
  List.iter (fun (bname, params, body) ->
    List.iter (fun site ->
      List.iter (fun na ->
        let args = List.init na (fun j -> arg_kind (j + na + String.length bname) j) in
        emit_scenario oc { scenario0 with stream = "c12-body"; d = [ macro "m" params body ]; args; site = with_cm site;
                                          extra = [ lib2; inc2 ]; meta = [ "body", JS bname ] })
        [ 0; 1; 3 ]) sites) bodies;
  (* random combinations: two or three bodies in one library, random call site, random macro *)
  for _ = 1 to n do
    let pick_body () = pickl r bodies in
    let bs' = List.init (2 + rint r 2) (fun i -> let (b, ps, body) = pick_body () in (Printf.sprintf "m%d" i, b, ps, body)) in
    (* nested definitions of the same name in two macros of one template are outside the model *)
    let bs' = List.filteri (fun i (_, b, _, _) -> b <> "nested-definition" || not (List.exists (fun (_, b2, _, _) -> b2 = b) (List.filteri (fun j _ -> j < i) bs'))) bs' in
    let d = List.map (fun (nm, _, ps, body) -> macro nm ps body) bs' in
    let (nm, b, ps, _) = pickl r bs' in
    let na = rint r (List.length ps + 3) in
    let args = List.init na (fun j -> arg_kind (rint r 8) j) in
    emit_scenario oc { scenario0 with stream = "c12-body"; d; m = nm; args; site = with_cm (pickl r sites); extra = [ lib2; inc2 ];
                                      meta = [ "body", JS b ] }
  done

(* ---------------------------------------------------------------- wrapped definitions *)
let wb_count = ref 0
let wrappers : (string * (M.node list -> M.node)) list = [
  "spaceless", (fun b -> M.NSpaceless b);
  "apply", (fun b -> M.NApply (bs "upper", [], b));
  "for1", (fun b -> forv "wi" (M.EArr [ lit_int 1 ]) b);
  "for2", (fun b -> forv "wi" (M.ECall (bs "range", [ lit_int 1; lit_int 2 ])) b);
  "block", (fun b -> incr wb_count; M.NBlock (bs (Printf.sprintf "wb%d" !wb_count), b));
  "if-true", (fun b -> M.NIf ([ (M.ELit (M.LBool true), b) ], None));
  "if-expr", (fun b -> M.NIf ([ (M.EBin (M.BLt, lit_int 1, lit_int 2), b) ], Some [ text "no" ]));
  "elseif", (fun b -> M.NIf ([ (M.ELit (M.LBool false), [ text "a" ]); (lit_str "x", b) ], None));
  "else", (fun b -> M.NIf ([ (M.ELit M.LNull, [ text "a" ]) ], Some b));
  "for-else", (fun b -> M.NFor (None, bs "wi", M.EArr [], [ text "b" ], Some b));
]
let dead_wrappers : (string * (M.node list -> M.node)) list = [
  "if-false", (fun b -> M.NIf ([ (M.ELit (M.LBool false), b) ], None));
  "for-empty", (fun b -> forv "wi" (M.EArr []) b);
  "in-macro-body", (fun b -> macro "holder" [] b);
]

let wrapped_stream oc =
  let m_def = macro "m" [ ("p", None); ("q", Some (lit_str "dq")) ] (show_body "m" [ "p"; "q" ]) in
  let other = macro "o1" [] [ text "o1" ] in
  let one name d =
    List.iter (fun (site, args) ->
      emit_scenario oc { scenario0 with stream = "c12-wrapped"; d; args; site; meta = [ "wrapper", JS name ] })
      [ (s_top, [ lit_int 1 ]); (s_loop, []); (s_macro, [ lit_int 1; lit_int 2; lit_int 3 ]) ] in
  List.iter (fun (n1, w1) ->
    one n1 [ w1 [ m_def ] ];
    one (n1 ^ "+text") [ text "lib text "; w1 [ text "t"; m_def; text "t" ]; other ];
    one (n1 ^ "+after") [ other; pr (lit_str "printed by the library"); w1 [ m_def ] ];
    List.iter (fun (n2, w2) -> one (n1 ^ ">" ^ n2) [ w1 [ w2 [ m_def ]; other ] ]) wrappers) wrappers;
  List.iter (fun (n1, w1) -> one n1 [ other; w1 [ m_def ] ]) dead_wrappers

(* ---------------------------------------------------------------- collisions *)
let collide_stream oc =
  (* parameters named like the caller's variables; the caller sets them before the call and reads them after *)
  let sigs = [
    [ ("n", None) ]; [ ("s", None); ("n", None) ]; [ ("v", Some (lit_str "dv")); ("i", Some (var "v")) ];
    [ ("n", Some (var "n")) ]; [ ("i", None); ("loop", None) ]; [ ("x", None) ]; [ ("z", None); ("n", Some (var "s")) ] ] in
  List.iter (fun params ->
    let names = List.map fst params in
    let d = [ macro "m" params (show_body "m" names @ [ set (List.hd names) (lit_str "assigned-in-body") ]) ] in
    List.iter (fun site ->
      List.iter (fun args ->
        emit_scenario oc { scenario0 with stream = "c12-collide"; d; args; site; meta = [ "params", JS (String.concat "," names) ] })
        [ []; [ var "s" ]; [ var "s"; var "n" ]; [ lit_int 1; lit_int 2; lit_int 3 ] ])
      [ s_top; s_loop; s_macro; s_include ]) sigs;
  (* the caller assigns the names just before the call *)
  let pre (s : site) : site = { s with sname = s.sname ^ "+set"; build = (fun fn c args ->
      let (ns, ex) = s.build fn c args in ([ set "n" (lit_str "set-n"); set "p" (lit_str "set-p") ] @ ns, ex)) } in
  List.iter (fun site ->
    emit_scenario oc { scenario0 with stream = "c12-collide"; site = pre site; args = [ var "p" ];
                                      d = [ macro "m" [ ("n", None); ("p", Some (var "p")) ] (show_body "m" [ "n"; "p" ]) ] })
    [ s_top; s_loop; s_block; s_macro ]

(* ---------------------------------------------------------------- globals, isolation *)
let global_stream oc =
  List.iter (fun site ->
    List.iter (fun na ->
      emit_scenario oc { scenario0 with stream = "c12-global"; site; globals = [ global_g ];
                                        args = List.init na (fun j -> lit_int j);
                                        d = [ macro "m" [ ("p", Some (var "g")); ("q", Some (cat (var "g") (var "n"))) ]
                                                (show_body "m" [ "p"; "q" ] @ [ pv "g" ]) ] })
      [ 0; 1; 2 ]) [ s_top; s_loop; s_macro; s_include ];
  (* a variable of the caller with the name of a global: the default (caller's context) reads the variable, the body
     (new context, globals before the parent chain) the global. No prediction; the five must agree *)
  let pre (s : site) : site = { s with sname = s.sname ^ "+shadow"; build = (fun fn c args ->
      let (ns, ex) = s.build fn c args in (set "g" (lit_str "shadow") :: ns, ex)) } in
  List.iter (fun site ->
    emit_scenario oc { scenario0 with stream = "c12-shadowglobal"; site = pre site; globals = [ global_g ]; predict = false;
                                      d = [ macro "m" [ ("p", Some (var "g")) ] [ text "["; pv "p"; text "|"; pv "g"; text "]" ] ] })
    [ s_top; s_loop; s_macro ]

(* a helper of the library has a namesake: a macro of the caller, a macro of another library the call passes through.
   The library's macro calls ITS helper, whoever calls it and from where *)
let helper_namesake_stream oc =
  let lib = [ macro "h" [ ("a", None) ] [ text "<h"; pv "a"; text ">" ];
              macro "m" [ ("p", None) ] [ text "[m"; pv "p"; pr (M.ECall (bs "h", [ var "p" ])); text "]" ] ] in
  let lib_b = [ macro "h" [ ("a", None) ] [ text "<Bh"; pv "a"; text ">" ];
                macro "via" [ ("x", None) ] [ M.NImport (lit_str libname, bs "L"); pr (M.EModCall (var "L", bs "m", [ var "x" ])) ];
                macro "viafrom" [ ("x", None) ] [ M.NFrom (lit_str libname, [ (bs "m", bs "mm") ]); pr (M.ECall (bs "mm", [ var "x" ])) ] ] in
  let own_h = macro "h" [ ("a", None) ] [ text "<Ch"; pv "a"; text ">" ] in
  let tpls = [ (libname, lib); ("libb", lib_b);
               ("direct", [ M.NImport (lit_str libname, bs "L"); pr (M.EModCall (var "L", bs "m", [ lit_int 1 ])) ]);
               ("callerhas", [ own_h; M.NImport (lit_str libname, bs "L"); pr (M.EModCall (var "L", bs "m", [ lit_int 1 ])) ]);
               ("callerhasfrom", [ own_h; M.NFrom (lit_str libname, [ (bs "m", bs "m") ]); pr (M.ECall (bs "m", [ lit_int 1 ])) ]);
               ("viab", [ M.NImport (lit_str "libb", bs "b"); pr (M.EModCall (var "b", bs "via", [ lit_int 1 ])) ]);
               ("viabfrom", [ M.NImport (lit_str "libb", bs "b"); pr (M.EModCall (var "b", bs "viafrom", [ lit_int 1 ])) ]);
               ("inloop", [ own_h; M.NImport (lit_str libname, bs "L"); forv "i" (M.EArr [ lit_int 1 ]) [ pr (M.EModCall (var "L", bs "m", [ var "i" ])) ] ]) ] in
  emit_mains oc ~stream:"c12-helper-namesake" ~known:"" ~predict:true ~globals:[] ~site:"namesake" ~macro:"m" ~nargs:1 ~meta:[]
    tpls [ "direct"; "callerhas"; "callerhasfrom"; "viab"; "viabfrom"; "inloop" ]

let isolated_stream oc =
  List.iter (fun args ->
    emit_scenario oc { scenario0 with stream = "c12-isolated"; site = s_isolated; args;
                                      d = [ macro "m" [ ("p", None) ] (show_body "m" [ "p" ]) ] })
    [ []; [ lit_int 1 ] ]

(* ---------------------------------------------------------------- three repaired defects, as regression streams *)
(* a body that calls a macro of its own template (e1487ea), a parameter named like a visible macro (8789b1e), a macro
   named like a registered function reached through _self (81c1e66) *)
let regression_stream oc =
  let helper = macro "h" [ ("a", None) ] [ text "<h"; pv "a"; text ">" ] in
  let sites = [ s_top; s_loop; s_macro ] in
  (* a body that calls a macro of its own template, by name and through _self *)
  List.iter (fun site ->
    emit_scenario oc { scenario0 with stream = "c12-sibling"; site; args = [ lit_int 1 ];
                                      d = [ helper; macro "m" [ ("p", None) ] [ text "[m"; pv "p"; pr (M.ECall (bs "h", [ var "p" ])); text "]" ] ] };
    emit_scenario oc { scenario0 with stream = "c12-sibling"; site; args = [ lit_int 1 ];
                                      d = [ macro "m" [ ("p", None) ] [ text "[m"; pv "p"; pr (M.EModCall (var "_self", bs "h", [ var "p" ])); text "]" ]; helper ] };
    (* recursion: m calls itself *)
    emit_scenario oc { scenario0 with stream = "c12-sibling"; site; args = [ lit_int 2 ];
                                      d = [ macro "m" [ ("p", None) ]
                                              [ pv "p"; M.NIf ([ (M.EBin (M.BGt, var "p", lit_int 0), [ pr (M.ECall (bs "m", [ M.EBin (M.BSub, var "p", lit_int 1) ])) ]) ], None) ] ] })
    sites;
  (* a parameter named like a macro the caller sees *)
  List.iter (fun site ->
    emit_scenario oc { scenario0 with stream = "c12-param-macro"; site; args = [ lit_int 7 ];
                                      d = [ helper; macro "m" [ ("h", None) ] [ text "[m"; pv "h"; text "]" ] ] };
    emit_scenario oc { scenario0 with stream = "c12-param-macro"; site; args = [ lit_int 7 ];
                                      d = [ macro "m" [ ("m", None) ] [ text "[m"; pv "m"; text "]" ] ] };
    emit_scenario oc { scenario0 with stream = "c12-param-macro"; site; args = [ lit_int 7 ];
                                      d = [ macro "m" [ ("y", None) ] [ text "[m"; pv "y"; text "]" ] ] })
    sites;
  (* a macro named like a registered function, reached through _self *)
  List.iter (fun fname ->
    emit_scenario oc { scenario0 with stream = "c12-self-function"; m = fname; args = [ lit_int 7; lit_int 3 ];
                                      d = [ macro fname [ ("p", None) ] [ text "<my"; pv "p"; text ">" ] ] })
    [ "max"; "min"; "spyfn" ]

(* ---------------------------------------------------------------- a default that calls a macro of its own template *)
(* defaults are evaluated in the caller's context, which holds the library's macros only in the defining template, so
   such a call fails through import / from (known finding default-calls-sibling-macro, Properties/C12.v
   C12_default_sibling_refuted; notes/proposed-fixes/C12-default-calls-sibling-macro.patch). With known = "" this is a
   regression stream, for when the engine is repaired. *)
let default_sibling_stream oc ~(known : string) =
  let helper = macro "h" [ ("a", None) ] [ text "<h"; pv "a"; text ">" ] in
  List.iter (fun site ->
    List.iter (fun args ->
      emit_scenario oc { scenario0 with stream = (if known = "" then "c12-default-sibling" else "known:" ^ known); known; site; args;
                                        d = [ helper; macro "m" [ ("p", None); ("q", Some (M.ECall (bs "h", [ var "n" ]))) ] (show_body "m" [ "p"; "q" ]) ] })
      [ []; [ lit_int 1 ]; [ lit_int 1; lit_int 2 ] ])
    [ s_top; s_loop; s_macro; s_include ]

(* ---------------------------------------------------------------- a macro call as an operand (known finding) *)
(* The same call in positions that must print alike. The engine's macro call is a closure that only a print tag runs;
   as an operand its body is never rendered. Group A: the printed call against the call concatenated with the empty
   string, assigned and printed, chosen by a conditional, passed through raw, passed to a macro that prints its
   argument, joined out of a one-element list. Group B: the call filtered by upper against the call inside apply upper.
   Each through the defining template and through import. *)
let operand_stream oc =
  let f_def = macro "f" [ ("a", None); ("b", Some (lit_str "db")) ] [ text "<f"; pv "a"; text ":"; pv "b"; text ":"; pv "n"; text ">" ] in
  let id_def = macro "ident" [ ("z", None) ] [ pv "z" ] in
  let d = [ f_def; id_def ] in
  let positions (c : M.expr) : (string * M.node list) list = [
    "print", [ pr c ];
    "concat", [ pr (cat c (lit_str "")) ];
    "set", [ set "t" c; pv "t" ];
    "ternary", [ pr (M.ECond (M.ELit (M.LBool true), c, lit_str "no")) ];
    "raw", [ pr (M.EFilter (c, bs "raw", [])) ];
    "argument", [ pr (M.ECall (bs "ident", [ c ])) ];
    "join", [ pr (M.EFilter (M.EArr [ c ], bs "join", [ lit_str "" ])) ] ] in
  let positions_b (c : M.expr) : (string * M.node list) list = [
    "apply-upper", [ M.NApply (bs "upper", [], [ pr c ]) ];
    "filter-upper", [ pr (M.EFilter (c, bs "upper", [])) ] ] in
  List.iter (fun (group, mk) ->
    List.iter (fun args ->
      List.iter (fun (via, pre, callf, callid) ->
        let c = callf args in
        let pos = mk c in
        (* the identity macro is reached the same way as f *)
        let pos = List.map (fun (n, ns) -> (n, List.map (fun node -> match node with
            | M.NPrint (M.ECall (nm, a)) when G.sb nm = "ident" -> M.NPrint (callid a)
            | other -> other) ns)) pos in
        let tpls = (libname, d) :: List.map (fun (n, ns) -> (n, pre @ (text "@S@" :: ns))) pos in
        emit_mains oc ~stream:"known:macro-call-as-operand" ~known:"macro-call-as-operand" ~predict:true ~globals:[]
          ~site:("operand-" ^ group ^ "-" ^ via) ~macro:"f" ~nargs:(List.length args) ~meta:[ "group", JS group; "via", JS via ]
          tpls (List.map fst pos))
        [ ("local", d, (fun a -> M.ECall (bs "f", a)), (fun a -> M.ECall (bs "ident", a)));
          ("import", [ M.NImport (lit_str libname, bs modvar) ], (fun a -> M.EModCall (var modvar, bs "f", a)), (fun a -> M.EModCall (var modvar, bs "ident", a))) ])
      [ [ lit_int 1 ]; []; [ var "s"; lit_int 2 ] ])
    [ ("A", positions); ("B", positions_b) ]

(* ---------------------------------------------------------------- declarations, spelled *)
(* sources written by hand around the printer: spacing, parentheses and commas inside defaults *)
let decl_stream oc =
  let body = "[{{ a }}|{{ b }}|{{ c }}]" in
  let body_nodes = [ text "["; pv "a"; text "|"; pv "b"; text "|"; pv "c"; text "]" ] in
  let d1 = lit_str "x(y" and d2 = M.ECall (bs "max", [ lit_int 1; lit_int 2 ]) in
  let d3 = M.EBin (M.BMul, M.EBin (M.BAdd, lit_int 1, lit_int 2), lit_int 3) and d4 = lit_str "a,b)" in
  let variants : (string * string * (string * M.expr option) list) list = [
    "plain", "{% macro m(a, b = 'x(y', c = max(1, 2)) %}", [ ("a", None); ("b", Some d1); ("c", Some d2) ];
    "tight", "{%macro m(a,b='x(y',c=max(1,2))%}", [ ("a", None); ("b", Some d1); ("c", Some d2) ];
    "spaced", "{%   macro   m  (  a  ,  b  =  'x(y'  ,  c  =  max( 1 , 2 )  )   %}", [ ("a", None); ("b", Some d1); ("c", Some d2) ];
    "newlines", "{% macro m(\n a,\n b = 'x(y',\n c = max(1,\n 2)\n) %}", [ ("a", None); ("b", Some d1); ("c", Some d2) ];
    "tabs", "{% macro m(a,\tb\t=\t'x(y',\tc = max(1, 2)) %}", [ ("a", None); ("b", Some d1); ("c", Some d2) ];
    "trim", "{%- macro m(a, b = 'x(y', c = max(1, 2)) -%}", [ ("a", None); ("b", Some d1); ("c", Some d2) ];
    "nested-parens", "{% macro m(a = ((1 + 2) * 3), b = 'a,b)', c = (max(1, 2))) %}", [ ("a", Some d3); ("b", Some d4); ("c", Some d2) ];
    "dquotes", "{% macro m(a, b = \"x(y\", c = max(1, 2)) %}", [ ("a", None); ("b", Some d1); ("c", Some d2) ];
    "empty-spaced", "{% macro m(  ) %}", [];
    "empty", "{% macro m() %}", [];
    "one", "{% macro m( a ) %}", [ ("a", None) ];
  ] in
  List.iter (fun (vname, decl, params) ->
    List.iter (fun pad ->
      let close = if vname = "trim" then "{%- endmacro -%}" else "{% endmacro %}" in
      let calls = "{{ m() }}{{ m(7) }}{{ m(7, 8, 9, 10) }}" in
      let padding = if pad then String.concat "" (List.init 300 (fun i -> Printf.sprintf "padding line %03d\n" i)) else "" in
      let src = decl ^ body ^ close ^ padding ^ calls in
      let nodes = [ macro "m" params body_nodes ] @ (if pad then [ text padding ] else [])
                  @ List.map (fun args -> pr (M.ECall (bs "m", args))) [ []; [ lit_int 7 ]; [ lit_int 7; lit_int 8; lit_int 9; lit_int 10 ] ] in
      let env = { G.tpls = [ ("t", nodes) ]; G.custom = G.std_custom; G.policy = None } in
      let menv = G.model_env env in
      let (rs, _) = M.c12_render_template (nat_of_int fuel) menv (bs "t") [] in
      let (rm, _) = M.render_template (nat_of_int fuel) menv (bs "t") [] in
      incr emitted;
      emit oc (Ob [ "stream", JS "c12-decl"; "tpls", JL [ JL [ JS (hex "t"); JS (hex src) ] ]; "main", JS "t"; "mains", JL [ JS "t" ];
                    "ctxs", JL [ JS (G.value_str (G.vmap [])) ]; "ctx", JS (G.value_str (G.vmap [])); "globals", Ob [];
                    "custom", JL (List.map (fun c -> JL [ JS c.G.ckind; JS c.G.cname; JS (G.cb_str c.G.cb) ]) env.G.custom); "policy", JS "none";
                    "spec", JL [ JL [ G.exp_json rs ] ]; "model", JL [ JL [ G.exp_json rm ] ]; "agree", JL [ JB true ];
                    "known", JS ""; "site", JS "decl"; "macro", JS "m"; "nargs", JI 0; "decl", JB true; "variant", JS vname; "large", JB pad ]))
      [ false; true ]) variants

let run ~seed ~tier oc =
  let r = mk_rng seed in
  let thorough = tier = "thorough" in
  sig_stream oc ~thorough;
  site_stream oc;
  body_stream oc r ~n:(if thorough then 20000 else 300);
  wrapped_stream oc;
  collide_stream oc;
  global_stream oc;
  isolated_stream oc;
  regression_stream oc;
  default_sibling_stream oc ~known:"default-calls-sibling-macro";
  helper_namesake_stream oc;
  operand_stream oc;
  decl_stream oc
