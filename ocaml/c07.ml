(* C07 case generation: inputs of the escape filter with the model's predictions. *)
open Util
let case oc stream (s : string) =
  let b = bytes_of_string s in
  emit oc (Ob [ "stream", JS stream; "in", JS (hex s);
                "exp", JS (hexb (Model.escape b)); "exp_fb", JS (hexb (Model.escape_fallback b));
                "exp2", JS (hexb (Model.escape (Model.escape b))) ])

(* non-string values: the filter sees their text form; the Go side builds a value of the given kind
   whose text form is exactly `text` *)
let vcase oc kind (text : string) =
  let b = bytes_of_string text in
  emit oc (Ob [ "stream", JS ("value:" ^ kind); "vkind", JS kind; "in", JS (hex text);
                "exp", JS (hexb (Model.escape b)); "exp_fb", JS (hexb (Model.escape_fallback b)) ])

let utf8_samples = [ "h\xc3\xa9llo <b>"; "\xe2\x82\xac & \xf0\x9f\x98\x80 'q'"; "\xff\xfe<\x80>"; "\xc3"; "a\x00b&" ]

let run ~seed ~tier oc =
  let r = mk_rng seed in
  (* exhaustive: every 1-byte and every 2-byte string *)
  for i = 0 to 255 do case oc "exhaustive1" (String.make 1 (Char.chr i)) done;
  for i = 0 to 255 do for j = 0 to 255 do
    case oc "exhaustive2" (Printf.sprintf "%c%c" (Char.chr i) (Char.chr j)) done done;
  List.iter (case oc "fixed") ([ ""; "&amp;"; "&amp;amp;"; "&lt;script&gt;"; "&#39;&#34;&quot;"; "&"; "&&&"; "<<>>\"\"''" ] @ utf8_samples);
  List.iter (fun i -> vcase oc "int" (string_of_int i)) [ 0; 1; -1; 42; 4096; -9007199254740991; 9007199254740992 ];
  List.iter (fun t -> vcase oc "bool" t) [ "true"; "false" ];
  vcase oc "nil" "";
  List.iter (fun t -> vcase oc "float" t) [ "0.5"; "-2.25"; "1000000"; "3" ];
  List.iter (fun kind ->
    List.iter (fun t -> vcase oc kind t)
      [ "<"; ">="; "&&"; "\"quoted\""; "'?'"; "a<b>&\"c'"; "plain"; "" ];
    for _ = 1 to 40 do vcase oc kind (rand_string r ~special:"<>&\"'" ~maxlen:12) done)
    [ "stringer-int"; "stringer-struct"; "stringer-bool"; "stringer-float"; "error"; "bytes"; "named-string"; "ptr-stringer" ];
  let n = if tier = "thorough" then 40000 else 2000 in
  for _ = 1 to n do
    let maxlen = if rint r 20 = 0 then 5000 else 60 in
    case oc "random" (rand_string r ~special:"<>&\"'&;#lgtamp349quo" ~maxlen)
  done
