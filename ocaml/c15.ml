(* C15 case generation: histories of engine / loader operations with the observation the extracted
   model (Model.cache_step, run through Model.cache_spec_step to carry the ghost) predicts after every
   operation, and for every Load the set of observations the proved spec (Model.cache_allowed) permits.
   One case = one history. Unverified glue; every random choice comes from the one rng. *)
open Util
module M = Model

let n_of_int i = if i <= 0 then M.N0 else M.Npos (pos_of_int i)
let z_of_int i = if i = 0 then M.Z0 else if i > 0 then M.Zpos (pos_of_int i) else M.Zneg (pos_of_int (-i))
let int_of_z = function M.Z0 -> 0 | M.Zpos p -> int_of_pos p | M.Zneg p -> - (int_of_pos p)

let served_json = function
  | M.CServed src -> [ "r", JS "served"; "src", JI (int_of_n src) ]
  | M.CErrNotFound -> [ "r", JS "notfound" ]
  | M.CErrOther -> [ "r", JS "other" ]
let obs_json = function
  | M.COLoad (r, rd) -> Ob (served_json r @ [ "reads", JL (List.map (fun x -> JI (int_of_nat x)) rd) ])
  | M.CORegister ok -> Ob [ "r", JS (if ok then "regok" else "regerr") ]
  | M.CONone -> Ob [ "r", JS "none" ]

let vias = [| "load"; "render"; "renderto" |]
let hows = [| "string"; "template"; "compiled" |]

(* classification of a Load for the distribution printed in the evidence *)
let load_tag (s : M.cache_state) n exp has_alt =
  let entry = match M.cache_lookup s.M.cs_cache n with
    | None -> "absent"
    | Some e -> (match e.M.ce_loader with None -> "registered" | Some _ -> "cached") in
  let cfg = if not s.M.cs_on then "cache-off" else if s.M.cs_auto then "cache-on+autoreload" else "cache-on" in
  let out = match exp with
    | M.COLoad (M.CServed _, rd) -> if List.exists (fun x -> x <> M.O) rd then "read" else "kept"
    | M.COLoad (M.CErrNotFound, _) -> "notfound"
    | M.COLoad (M.CErrOther, _) -> "parse-error"
    | _ -> "?" in
  entry ^ "/" ^ cfg ^ "/" ^ out ^ (if has_alt then "/text-open" else "")

(* run the model over a history and write the case *)
let emit_history oc r ~stream ~chain (ops : M.cache_op list) =
  let sd = ref (M.cache_init, []) in
  let k = ref 0 in
  let loads = Hashtbl.create 8 in      (* name -> index of the last Load of it *)
  let lastchange = ref (-1) in
  let nt = ref false in
  let tags = ref [] in
  let jops = List.map (fun o ->
    let (s, d) = !sd in
    let (sd', ob) = M.cache_spec_step (s, d) o in
    if ob <> snd (M.cache_step s o) then (prerr_endline "c15: spec step differs from model step"; exit 3);
    let j = match o with
      | M.CAddLoader ts -> lastchange := !k; [ "op", JS "addloader"; "ts", JB ts ]
      | M.CLoaderPut (l, n, src, mt) -> lastchange := !k;
          [ "op", JS "put"; "l", JI (int_of_nat l); "n", JI (int_of_n n); "src", JI (int_of_n src);
            "has_mt", JB (mt <> None); "mt", JI (match mt with Some m -> int_of_z m | None -> 0) ]
      | M.CLoaderDel (l, n) -> lastchange := !k; [ "op", JS "del"; "l", JI (int_of_nat l); "n", JI (int_of_n n) ]
      | M.CSetCache b -> lastchange := !k; [ "op", JS "setcache"; "b", JB b ]
      | M.CSetAutoReload b -> lastchange := !k; [ "op", JS "setautoreload"; "b", JB b ]
      | M.CSetDevMode b -> lastchange := !k; [ "op", JS "setdevmode"; "b", JB b ]
      | M.CRegister (n, src) -> lastchange := !k;
          [ "op", JS "register"; "n", JI (int_of_n n); "src", JI (int_of_n src); "how", JS (pick r hows); "exp", obs_json ob ]
      | M.CLoad n ->
          let allowed = M.cache_allowed s d n in
          if not (List.mem ob allowed) then (prerr_endline "c15: model observation outside cache_allowed"; exit 3);
          let alts = List.filter (fun a -> a <> ob) allowed in
          (match Hashtbl.find_opt loads n with Some i when !lastchange > i -> nt := true | _ -> ());
          Hashtbl.replace loads n !k;
          let tag = load_tag s n ob (alts <> []) in
          tags := tag :: !tags;
          [ "op", JS "load"; "n", JI (int_of_n n); "via", JS (pick r vias); "exp", obs_json ob; "tag", JS tag ]
          @ (if alts = [] then [] else [ "alt", JL (List.map obs_json alts) ]) in
    sd := sd'; incr k; Ob j) ops in
  emit oc (Ob [ "stream", JS stream; "chain", JB chain; "nt", JB !nt; "len", JI (List.length ops);
                "tags", JL (List.map (fun t -> JS t) (List.sort_uniq compare !tags)); "ops", JL jops ])

(* ---- fixed histories: the refutation witnesses of Properties/C15.v and one history per clause ---- *)
let nn = n_of_int and zz i = Some (z_of_int i) and nat = nat_of_int
let put l n src mt = M.CLoaderPut (nat l, nn n, nn src, mt)
let del l n = M.CLoaderDel (nat l, nn n)
let reg n src = M.CRegister (nn n, nn src)
let load n = M.CLoad (nn n)
let fixed : (bool * M.cache_op list) list = [
  (* registration while caching is disabled *)
  false, [ M.CSetCache false; reg 0 1; load 0; load 0 ];
  false, [ reg 0 1; M.CSetCache false; load 0; M.CSetCache true; load 0 ];
  (* development mode, a loader has the name too *)
  false, [ M.CAddLoader true; put 0 0 2 (zz 5); reg 0 1; M.CSetDevMode true; load 0; M.CSetDevMode false; load 0 ];
  false, [ M.CAddLoader true; put 0 0 2 (zz 5); M.CSetDevMode true; reg 0 1; load 0; load 0; M.CSetDevMode false; load 0 ];
  (* a registration overrides an entry cached from a loader, under every configuration *)
  false, [ M.CAddLoader true; put 0 0 2 (zz 5); load 0; reg 0 1; load 0; M.CSetAutoReload true; put 0 0 3 (zz 9); load 0;
           M.CSetCache false; load 0; reg 0 6; load 0 ];
  (* the history of C15_example_trace *)
  false, [ M.CAddLoader true; M.CAddLoader true; put 1 0 10 (zz 100); M.CSetAutoReload true; load 0; load 0;
           put 1 0 11 (zz 101); load 0; put 0 0 12 (zz 5); del 1 0; load 0; M.CSetAutoReload false; put 0 0 13 (zz 900);
           load 0; M.CSetDevMode true; load 0; reg 0 21; load 0; load 2; put 0 1 14 None; load 1 ];
  (* equal, older, newer timestamps; timestamp not obtainable *)
  false, [ M.CAddLoader true; put 0 0 1 (zz 50); M.CSetAutoReload true; load 0; put 0 0 2 (zz 50); load 0; put 0 0 3 (zz 49);
           load 0; put 0 0 5 (zz 51); load 0; put 0 0 6 None; load 0; load 0; put 0 0 7 (zz (-3)); load 0; load 0 ];
  (* an earlier loader gains the name; the serving loader loses it *)
  false, [ M.CAddLoader true; M.CAddLoader true; put 1 1 1 (zz 7); M.CSetAutoReload true; load 1; put 0 1 2 (zz 7); load 1;
           del 1 1; load 1; load 1; del 0 1; load 1; M.CSetAutoReload false; load 1 ];
  (* not found changes nothing; a failing reload keeps the entry for auto-reload off *)
  false, [ M.CAddLoader true; load 2; put 0 2 1 (zz 1); load 2; del 0 2; load 2; M.CSetAutoReload true; load 2; load 2;
           M.CSetAutoReload false; load 2; M.CSetCache false; load 2 ];
  (* a source that does not parse: error, nothing cached, next loader not tried *)
  false, [ M.CAddLoader true; M.CAddLoader true; put 0 0 4 (zz 1); put 1 0 5 (zz 1); load 0; load 0; put 0 0 6 (zz 2); load 0;
           M.CSetAutoReload true; put 0 0 9 (zz 3); load 0; load 0; reg 1 14; load 1 ];
  (* loaders without timestamps, and the same behind a ChainLoader *)
  false, [ M.CAddLoader false; M.CAddLoader true; put 0 0 1 None; put 1 0 2 (zz 4); M.CSetAutoReload true; load 0; put 0 0 3 None; load 0;
           M.CSetCache false; load 0; del 0 0; load 0 ];
  true, [ M.CAddLoader false; M.CAddLoader false; put 1 0 1 None; load 0; put 0 0 2 None; load 0; M.CSetCache false; load 0; load 0;
          del 0 0; load 0; del 1 0; load 0; M.CAddLoader false; put 2 0 3 None; load 0 ];
  (* caching switched off and on again *)
  false, [ M.CAddLoader true; put 0 0 1 (zz 10); load 0; M.CSetCache false; put 0 0 2 (zz 10); load 0; M.CSetCache true; load 0;
           M.CSetAutoReload true; load 0; put 0 0 3 (zz 11); load 0 ];
]

(* ---- random histories ---- *)
let gen_history r ~maxlen =
  let chain = rint r 12 = 0 in
  let ops = ref [] in
  let sd = ref (M.cache_init, []) in
  let push o = ops := o :: !ops; sd := fst (M.cache_spec_step !sd o) in
  let nl = ref 0 in
  let next_src = ref 0 in
  let fresh () =
    incr next_src;
    (* ids congruent 4 mod 5 stand for sources that do not parse: keep about one in four of them *)
    while !next_src mod 5 = 4 && rint r 4 <> 0 do incr next_src done;
    !next_src in
  let add_loader () = push (M.CAddLoader (if chain then false else rint r 7 <> 0)); incr nl in
  let name () = wpick r [ 5, 0; 3, 1; 2, 2 ] in
  let file l n =
    match List.nth_opt (fst !sd).M.cs_loaders l with
    | Some ld -> M.cache_lookup ld.M.cl_files (nn n)
    | None -> None in
  let focus = ref (-1) in
  let do_put () =
    let l = rint r !nl and n = name () in
    let cur = file l n in
    let base = match cur with Some (_, Some m) -> int_of_z m | _ -> 100 + rint r 50 in
    let delta = wpick r [ 3, 0; 4, 1 + rint r 5; 2, - (1 + rint r 5) ] in
    let mt = if rint r 14 = 0 then None else Some (z_of_int (base + delta)) in
    let src = match cur with Some (src, _) when rint r 5 = 0 -> src | _ -> nn (fresh ()) in
    push (M.CLoaderPut (nat l, nn n, src, mt)); focus := n in
  let do_del () =
    (* prefer a file that exists *)
    let cands = List.concat (List.init !nl (fun l -> List.filter_map (fun n -> if file l n <> None then Some (l, n) else None) [0; 1; 2])) in
    let (l, n) = if cands <> [] && rint r 5 <> 0 then pickl r cands else (rint r !nl, name ()) in
    push (M.CLoaderDel (nat l, nn n)); focus := n in
  for _ = 1 to 2 + rint r 2 do add_loader () done;
  for _ = 1 to rint r 4 do do_put () done;
  (match rint r 8 with
   | 0 | 1 | 2 -> push (M.CSetAutoReload true)
   | 3 -> push (M.CSetDevMode true)
   | 4 -> push (M.CSetCache false)
   | 5 -> push (M.CSetAutoReload true); push (M.CSetCache false)
   | _ -> ());
  (* total length 5..maxlen, at least three operations after the set-up prefix *)
  let len = max (rrange r 5 maxlen) (List.length !ops + 3) in
  while List.length !ops < len do
    match wpick r [ 38, `Load; 24, `Put; 7, `Del; 5, `Reg; 6, `Cache; 8, `Auto; 4, `Dev; 2, `Add ] with
    | `Load ->
        let n = if !focus >= 0 && rint r 5 < 3 then !focus else name () in
        push (M.CLoad (nn n)); if rint r 3 = 0 then focus := -1
    | `Put -> do_put ()
    | `Del -> do_del ()
    | `Reg -> let n = wpick r [ 1, 0; 3, 1; 3, 2 ] in push (M.CRegister (nn n, nn (fresh ()))); focus := n
    | `Cache -> push (M.CSetCache (rint r 5 < 3))
    | `Auto -> push (M.CSetAutoReload (rint r 3 <> 0))
    | `Dev -> push (M.CSetDevMode (rint r 5 < 2))
    | `Add -> if !nl < 4 then add_loader ()
  done;
  (chain, List.rev !ops)

let run ~seed ~tier oc =
  let r = mk_rng seed in
  List.iter (fun (chain, ops) -> emit_history oc r ~stream:"fixed" ~chain ops) fixed;
  let n = if tier = "thorough" then 10000 else 500 in
  for i = 1 to n do
    let maxlen = if tier = "thorough" && i mod 10 = 0 then 120 else 40 in
    let (chain, ops) = gen_history r ~maxlen in
    emit_history oc r ~stream:"random" ~chain ops
  done
