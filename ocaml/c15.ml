(* C15 case generation: histories of engine / loader operations with the observation the extracted
   model (Model.cache_step, run through Model.cache_spec_step to carry the ghost) predicts after every
   operation, and for every Load the set of observations the proved spec (Model.cache_allowed) permits.
   One case = one history. Unverified glue; every random choice comes from the one rng. *)
open Util
module M = Model

let n_of_int i = if i <= 0 then M.N0 else M.Npos (pos_of_int i)
let z_of_int i = if i = 0 then M.Z0 else if i > 0 then M.Zpos (pos_of_int i) else M.Zneg (pos_of_int (-i))
let int_of_z = function M.Z0 -> 0 | M.Zpos p -> int_of_pos p | M.Zneg p -> - (int_of_pos p)

let served_json = function
  | M.CServed src -> [ "r", JS "served"; "src", JI (int_of_n src) ]
  | M.CErrNotFound -> [ "r", JS "notfound" ]
  | M.CErrOther -> [ "r", JS "other" ]
let obs_json = function
  | M.COLoad (r, rd) -> Ob (served_json r @ [ "reads", JL (List.map (fun x -> JI (int_of_nat x)) rd) ])
  | M.CORegister ok -> Ob [ "r", JS (if ok then "regok" else "regerr") ]
  | M.CONone -> Ob [ "r", JS "none" ]

let vias = [| "load"; "render"; "renderto" |]
let hows = [| "string"; "template"; "compiled" |]

(* classification of a Load for the distribution printed in the evidence *)
let load_tag (s : M.cache_state) n exp has_alt =
  let entry = match M.cache_lookup s.M.cs_cache n with
    | None -> "absent"
    | Some e -> (match e.M.ce_loader with None -> "registered" | Some _ -> "cached") in
  let cfg = if not s.M.cs_on then "cache-off" else if s.M.cs_auto then "cache-on+autoreload" else "cache-on" in
  let out = match exp with
    | M.COLoad (M.CServed _, rd) -> if List.exists (fun x -> x <> M.O) rd then "read" else "kept"
    | M.COLoad (M.CErrNotFound, _) -> "notfound"
    | M.COLoad (M.CErrOther, _) -> "parse-error"
    | _ -> "?" in
  entry ^ "/" ^ cfg ^ "/" ^ out ^ (if has_alt then "/text-open" else "")

(* run the model over a history and write the case *)
let emit_history ?how oc r ~stream ~chain (ops : M.cache_op list) =
  (* how a source id is registered: forced for the fixed histories, otherwise random but mostly the same way
     again when the same id is registered again (the runner then passes the same *Template value) *)
  let how_of : (int, string) Hashtbl.t = Hashtbl.create 8 in
  let choose_how src =
    match how with
    | Some h -> h
    | None ->
      let h = match Hashtbl.find_opt how_of src with
        | Some h when rint r 4 <> 0 -> h
        | _ -> pick r hows in
      Hashtbl.replace how_of src h; h in
  let sd = ref (M.cache_init, []) in
  let k = ref 0 in
  let loads = Hashtbl.create 8 in      (* name -> index of the last Load of it *)
  let lastchange = ref (-1) in
  let nt = ref false in
  let tags = ref [] in
  let jops = List.map (fun o ->
    let (s, d) = !sd in
    let (sd', ob) = M.cache_spec_step (s, d) o in
    if ob <> snd (M.cache_step s o) then (prerr_endline "c15: spec step differs from model step"; exit 3);
    let j = match o with
      | M.CAddLoader ts -> lastchange := !k; [ "op", JS "addloader"; "ts", JB ts ]
      | M.CLoaderPut (l, n, src, mt) -> lastchange := !k;
          [ "op", JS "put"; "l", JI (int_of_nat l); "n", JI (int_of_n n); "src", JI (int_of_n src);
            "has_mt", JB (mt <> None); "mt", JI (match mt with Some m -> int_of_z m | None -> 0) ]
      | M.CLoaderDel (l, n) -> lastchange := !k; [ "op", JS "del"; "l", JI (int_of_nat l); "n", JI (int_of_n n) ]
      | M.CSetCache b -> lastchange := !k; [ "op", JS "setcache"; "b", JB b ]
      | M.CSetAutoReload b -> lastchange := !k; [ "op", JS "setautoreload"; "b", JB b ]
      | M.CSetDevMode b -> lastchange := !k; [ "op", JS "setdevmode"; "b", JB b ]
      | M.CRegister (n, src) -> lastchange := !k;
          let rtag = match M.cache_lookup s.M.cs_cache n with
            | Some e when e.M.ce_src = src ->
                (match e.M.ce_loader with None -> "identical-to-held-registration" | Some _ -> "identical-to-held-loader-entry")
            | _ ->
                if List.exists (fun ld -> match M.cache_lookup ld.M.cl_files n with Some (x, _) -> x = src | None -> false) s.M.cs_loaders
                then "identical-to-a-loader-file" else "other" in
          [ "op", JS "register"; "n", JI (int_of_n n); "src", JI (int_of_n src); "how", JS (choose_how (int_of_n src)); "rtag", JS rtag; "exp", obs_json ob ]
      | M.CLoad n ->
          let allowed = M.cache_allowed s d n in
          if not (List.mem ob allowed) then (prerr_endline "c15: model observation outside cache_allowed"; exit 3);
          let alts = List.filter (fun a -> a <> ob) allowed in
          (match Hashtbl.find_opt loads n with Some i when !lastchange > i -> nt := true | _ -> ());
          Hashtbl.replace loads n !k;
          let tag = load_tag s n ob (alts <> []) in
          tags := tag :: !tags;
          [ "op", JS "load"; "n", JI (int_of_n n); "via", JS (pick r vias); "exp", obs_json ob; "tag", JS tag ]
          @ (if alts = [] then [] else [ "alt", JL (List.map obs_json alts) ]) in
    sd := sd'; incr k; Ob j) ops in
  emit oc (Ob [ "stream", JS stream; "chain", JB chain; "nt", JB !nt; "len", JI (List.length ops);
                "tags", JL (List.map (fun t -> JS t) (List.sort_uniq compare !tags)); "ops", JL jops ])

(* ---- fixed histories: the refutation witnesses of Properties/C15.v and one history per clause ---- *)
let nn = n_of_int and zz i = Some (z_of_int i) and nat = nat_of_int
let put l n src mt = M.CLoaderPut (nat l, nn n, nn src, mt)
let del l n = M.CLoaderDel (nat l, nn n)
let reg n src = M.CRegister (nn n, nn src)
let load n = M.CLoad (nn n)
let fixed : (bool * M.cache_op list) list = [
  (* registration while caching is disabled *)
  false, [ M.CSetCache false; reg 0 1; load 0; load 0 ];
  false, [ reg 0 1; M.CSetCache false; load 0; M.CSetCache true; load 0 ];
  (* development mode, a loader has the name too *)
  false, [ M.CAddLoader true; put 0 0 2 (zz 5); reg 0 1; M.CSetDevMode true; load 0; M.CSetDevMode false; load 0 ];
  false, [ M.CAddLoader true; put 0 0 2 (zz 5); M.CSetDevMode true; reg 0 1; load 0; load 0; M.CSetDevMode false; load 0 ];
  (* a registration overrides an entry cached from a loader, under every configuration *)
  false, [ M.CAddLoader true; put 0 0 2 (zz 5); load 0; reg 0 1; load 0; M.CSetAutoReload true; put 0 0 3 (zz 9); load 0;
           M.CSetCache false; load 0; reg 0 6; load 0 ];
  (* the history of C15_example_trace *)
  false, [ M.CAddLoader true; M.CAddLoader true; put 1 0 10 (zz 100); M.CSetAutoReload true; load 0; load 0;
           put 1 0 11 (zz 101); load 0; put 0 0 12 (zz 5); del 1 0; load 0; M.CSetAutoReload false; put 0 0 13 (zz 900);
           load 0; M.CSetDevMode true; load 0; reg 0 21; load 0; load 2; put 0 1 14 None; load 1 ];
  (* equal, older, newer timestamps; timestamp not obtainable *)
  false, [ M.CAddLoader true; put 0 0 1 (zz 50); M.CSetAutoReload true; load 0; put 0 0 2 (zz 50); load 0; put 0 0 3 (zz 49);
           load 0; put 0 0 5 (zz 51); load 0; put 0 0 6 None; load 0; load 0; put 0 0 7 (zz (-3)); load 0; load 0 ];
  (* an earlier loader gains the name; the serving loader loses it *)
  false, [ M.CAddLoader true; M.CAddLoader true; put 1 1 1 (zz 7); M.CSetAutoReload true; load 1; put 0 1 2 (zz 7); load 1;
           del 1 1; load 1; load 1; del 0 1; load 1; M.CSetAutoReload false; load 1 ];
  (* not found changes nothing; a failing reload keeps the entry for auto-reload off *)
  false, [ M.CAddLoader true; load 2; put 0 2 1 (zz 1); load 2; del 0 2; load 2; M.CSetAutoReload true; load 2; load 2;
           M.CSetAutoReload false; load 2; M.CSetCache false; load 2 ];
  (* a source that does not parse: error, nothing cached, next loader not tried *)
  false, [ M.CAddLoader true; M.CAddLoader true; put 0 0 4 (zz 1); put 1 0 5 (zz 1); load 0; load 0; put 0 0 6 (zz 2); load 0;
           M.CSetAutoReload true; put 0 0 9 (zz 3); load 0; load 0; reg 1 14; load 1 ];
  (* loaders without timestamps, and the same behind a ChainLoader *)
  false, [ M.CAddLoader false; M.CAddLoader true; put 0 0 1 None; put 1 0 2 (zz 4); M.CSetAutoReload true; load 0; put 0 0 3 None; load 0;
           M.CSetCache false; load 0; del 0 0; load 0 ];
  true, [ M.CAddLoader false; M.CAddLoader false; put 1 0 1 None; load 0; put 0 0 2 None; load 0; M.CSetCache false; load 0; load 0;
          del 0 0; load 0; del 1 0; load 0; M.CAddLoader false; put 2 0 3 None; load 0 ];
  (* a registration of exactly the text the engine holds from a loader still pins the name *)
  false, [ M.CAddLoader true; put 0 0 1 (zz 10); load 0; reg 0 1; put 0 0 2 (zz 11); M.CSetCache false; load 0; M.CSetCache true; load 0 ];
  false, [ M.CAddLoader true; put 0 0 1 (zz 10); load 0; reg 0 1; put 0 0 2 (zz 11); M.CSetDevMode true; load 0; load 0 ];
  false, [ M.CAddLoader true; put 0 0 1 (zz 10); M.CSetAutoReload true; load 0; reg 0 1; put 0 0 2 (zz 11); load 0; del 0 0; load 0 ];
  false, [ M.CAddLoader true; put 0 0 1 (zz 10); load 0; reg 0 1; M.CSetCache false; load 0; del 0 0; load 0 ];
  (* the same source registered again, under the same and under another name; A, B, A again *)
  false, [ reg 0 1; reg 0 1; load 0; reg 1 1; load 1; reg 0 2; load 0; reg 0 1; load 0; load 1; reg 1 2; load 1; load 0 ];
  false, [ M.CAddLoader true; put 0 0 1 (zz 3); put 0 1 2 (zz 3); M.CSetCache false; load 0; load 1; load 0; reg 0 2; load 0; load 1; reg 1 1; load 1; load 0 ];
  (* a reload goes through all loaders in registration order, not to the loader of the entry first *)
  false, [ M.CAddLoader true; M.CAddLoader true; put 1 0 1 (zz 10); M.CSetAutoReload true; load 0; put 0 0 2 (zz 5); put 1 0 3 (zz 11); load 0; load 0 ];
  false, [ M.CAddLoader true; M.CAddLoader true; M.CAddLoader true; put 2 1 1 (zz 10); M.CSetAutoReload true; load 1; put 1 1 2 (zz 50); put 2 1 3 None; load 1;
           put 0 1 5 (zz 1); put 1 1 6 (zz 51); load 1 ];
  (* A, B, A again under one name; the same value under two names alternately *)
  false, [ reg 0 1; load 0; reg 0 2; load 0; reg 0 1; load 0; reg 0 2; reg 0 1; load 0 ];
  false, [ reg 0 1; reg 1 1; reg 0 2; reg 1 2; reg 0 1; load 0; load 1; reg 1 1; load 1; load 0 ];
  (* caching switched off and on again *)
  false, [ M.CAddLoader true; put 0 0 1 (zz 10); load 0; M.CSetCache false; put 0 0 2 (zz 10); load 0; M.CSetCache true; load 0;
           M.CSetAutoReload true; load 0; put 0 0 3 (zz 11); load 0 ];
]

(* ---- random histories ---- *)
let gen_history r ~maxlen =
  let chain = rint r 12 = 0 in
  let ops = ref [] in
  let sd = ref (M.cache_init, []) in
  let served : (int, M.n) Hashtbl.t = Hashtbl.create 4 in      (* name -> source id most recently served *)
  let lastreg : (int, M.n) Hashtbl.t = Hashtbl.create 4 in     (* name -> source id most recently registered *)
  let allreg : (int * M.n) list ref = ref [] in                (* every (name, source id) registered so far *)
  let push o =
    ops := o :: !ops;
    let (sd', ob) = M.cache_spec_step !sd o in
    (match o, ob with
     | M.CLoad n, M.COLoad (M.CServed src, _) -> Hashtbl.replace served (int_of_n n) src
     | M.CRegister (n, src), M.CORegister true ->
         Hashtbl.replace lastreg (int_of_n n) src;
         if not (List.mem (int_of_n n, src) !allreg) then allreg := (int_of_n n, src) :: !allreg
     | _ -> ());
    sd := sd' in
  let nl = ref 0 in
  let next_src = ref 0 in
  let fresh () =
    incr next_src;
    (* ids congruent 4 mod 5 stand for sources that do not parse: keep about one in four of them *)
    while !next_src mod 5 = 4 && rint r 4 <> 0 do incr next_src done;
    !next_src in
  let add_loader () = push (M.CAddLoader (if chain then false else rint r 7 <> 0)); incr nl in
  let name () = wpick r [ 5, 0; 3, 1; 2, 2 ] in
  let file l n =
    match List.nth_opt (fst !sd).M.cs_loaders l with
    | Some ld -> M.cache_lookup ld.M.cl_files (nn n)
    | None -> None in
  let focus = ref (-1) in
  let do_put () =
    let l = rint r !nl and n = name () in
    let cur = file l n in
    let base = match cur with Some (_, Some m) -> int_of_z m | _ -> 100 + rint r 50 in
    let delta = wpick r [ 3, 0; 4, 1 + rint r 5; 2, - (1 + rint r 5) ] in
    let mt = if rint r 14 = 0 then None else Some (z_of_int (base + delta)) in
    (* one id space for loader contents and registrations: now and then a loader gets exactly the
       text that is registered, or was last served, under that name *)
    let src = match cur with
      | Some (src, _) when rint r 5 = 0 -> src
      | _ ->
        (match Hashtbl.find_opt lastreg n, Hashtbl.find_opt served n with
         | Some x, _ when rint r 10 = 0 -> x
         | _, Some x when rint r 10 = 0 -> x
         | _ -> nn (fresh ())) in
    push (M.CLoaderPut (nat l, nn n, src, mt)); focus := n in
  (* names that currently have an entry read from a loader in the template map *)
  let cached_names () =
    List.filter (fun n -> match M.cache_lookup (fst !sd).M.cs_cache (nn n) with
                          | Some e -> e.M.ce_loader <> None | None -> false) [0; 1; 2] in
  (* a registration; its source is often byte-identical to what the engine already holds or a loader
     has for that name (identity shortcuts in RegisterString / RegisterTemplate must not skip it), and it
     is often followed at once by a loader change and something that makes the engine re-read loaders *)
  let do_reg () =
    let cn = cached_names () in
    let n = if cn <> [] && rint r 3 <> 0 then pickl r cn else wpick r [ 2, 0; 3, 1; 3, 2 ] in
    let s0 = fst !sd in
    let entry = M.cache_lookup s0.M.cs_cache (nn n) in
    let cands =
      (match entry with Some e -> [ e.M.ce_src; e.M.ce_src ] | None -> [])
      @ (match Hashtbl.find_opt served n with Some x -> [ x ] | None -> [])
      @ (match Hashtbl.find_opt lastreg n with Some x -> [ x ] | None -> [])
      @ List.map snd !allreg          (* registered earlier, under this or another name: A, B, A again *)
      @ List.concat (List.init !nl (fun l -> match file l n with Some (x, _) -> [ x ] | None -> [])) in
    let cands = List.filter (fun x -> not (M.cache_src_bad x) || rint r 6 = 0) cands in
    let older = List.filter_map (fun (m, x) -> if m = n && Some x <> Hashtbl.find_opt lastreg n then Some x else None) !allreg in
    let src =
      if older <> [] && rint r 3 = 0 then pickl r older                    (* A, B, A again *)
      else if cands <> [] && rint r 10 < 7 then pickl r cands
      else nn (fresh ()) in
    let owner = match entry with Some e -> (match e.M.ce_loader with Some i -> Some (int_of_nat i) | None -> None) | None -> None in
    push (M.CRegister (nn n, src)); focus := n;
    if rint r 4 = 0 then begin
      (* replaced by another source and then registered again: A, B, A *)
      if rint r 2 = 0 then push (M.CLoad (nn n));
      push (M.CRegister (nn n, nn (fresh ())));
      if rint r 2 = 0 then push (M.CLoad (nn n));
      push (M.CRegister (nn n, src));
      push (M.CLoad (nn n))
    end;
    if rint r 5 < 3 then begin
      (* the loader that served the name (or any loader) moves on to new content with a later timestamp *)
      let l = match owner with Some i when rint r 4 <> 0 -> i | _ -> rint r !nl in
      let base = match file l n with Some (_, Some m) -> int_of_z m | _ -> 100 + rint r 50 in
      if rint r 6 <> 0 then push (M.CLoaderPut (nat l, nn n, nn (fresh ()), Some (z_of_int (base + 1 + rint r 5))));
      (match rint r 5 with
       | 0 -> push (M.CSetCache false)
       | 1 -> push (M.CSetDevMode true)
       | 2 -> push (M.CSetAutoReload true)
       | 3 -> push (M.CSetAutoReload true); push (M.CSetCache true)
       | _ -> ());
      push (M.CLoad (nn n));
      if rint r 3 = 0 then (push (M.CSetCache (rbool r)); push (M.CLoad (nn n)))
    end in
  let do_del () =
    (* prefer a file that exists *)
    let cands = List.concat (List.init !nl (fun l -> List.filter_map (fun n -> if file l n <> None then Some (l, n) else None) [0; 1; 2])) in
    let (l, n) = if cands <> [] && rint r 5 <> 0 then pickl r cands else (rint r !nl, name ()) in
    push (M.CLoaderDel (nat l, nn n)); focus := n in
  (* a name cached from a later loader: an earlier loader gains it, then the owner reports a change *)
  let do_shadow () =
    let owners = List.filter_map (fun n -> match M.cache_lookup (fst !sd).M.cs_cache (nn n) with
      | Some e -> (match e.M.ce_loader with Some i when int_of_nat i > 0 -> Some (n, int_of_nat i) | _ -> None)
      | None -> None) [0; 1; 2] in
    if owners = [] then begin
      (* prepare the situation: the name only in the last loader, and load it *)
      let n = name () and l = !nl - 1 in
      for j = 0 to l - 1 do if file j n <> None then push (M.CLoaderDel (nat j, nn n)) done;
      push (M.CLoaderPut (nat l, nn n, nn (fresh ()), Some (z_of_int (100 + rint r 50))));
      push (M.CLoad (nn n)); focus := n
    end else begin
      let (n, i) = pickl r owners in
      let j = rint r i in
      push (M.CLoaderPut (nat j, nn n, nn (fresh ()), if rint r 8 = 0 then None else Some (z_of_int (90 + rint r 70))));
      let base = match file i n with Some (_, Some m) -> int_of_z m | _ -> 100 + rint r 50 in
      (match rint r 4 with
       | 0 -> push (M.CLoaderPut (nat i, nn n, nn (fresh ()), None))
       | 1 -> ()
       | _ -> push (M.CLoaderPut (nat i, nn n, nn (fresh ()), Some (z_of_int (base + 1 + rint r 4)))));
      if not (fst !sd).M.cs_auto && rint r 4 <> 0 then push (M.CSetAutoReload true);
      if not (fst !sd).M.cs_on && rint r 2 = 0 then push (M.CSetCache true);
      push (M.CLoad (nn n)); focus := n
    end in
  for _ = 1 to 2 + rint r 2 do add_loader () done;
  for _ = 1 to rint r 4 do do_put () done;
  (match rint r 8 with
   | 0 | 1 | 2 -> push (M.CSetAutoReload true)
   | 3 -> push (M.CSetDevMode true)
   | 4 -> push (M.CSetCache false)
   | 5 -> push (M.CSetAutoReload true); push (M.CSetCache false)
   | _ -> ());
  (* total length 5..maxlen, at least three operations after the set-up prefix *)
  let len = max (rrange r 5 maxlen) (List.length !ops + 3) in
  while List.length !ops < len do
    match wpick r [ 38, `Load; 24, `Put; 7, `Del; 7, `Reg; 4, `Shadow; 6, `Cache; 8, `Auto; 4, `Dev; 2, `Add ] with
    | `Load ->
        let n = if !focus >= 0 && rint r 5 < 3 then !focus else name () in
        push (M.CLoad (nn n)); if rint r 3 = 0 then focus := -1
    | `Put -> do_put ()
    | `Del -> do_del ()
    | `Reg -> do_reg ()
    | `Shadow -> do_shadow ()
    | `Cache -> push (M.CSetCache (rint r 5 < 3))
    | `Auto -> push (M.CSetAutoReload (rint r 3 <> 0))
    | `Dev -> push (M.CSetDevMode (rint r 5 < 2))
    | `Add -> if !nl < 4 then add_loader ()
  done;
  (chain, List.rev !ops)

let run ~seed ~tier oc =
  let r = mk_rng seed in
  List.iter (fun (chain, ops) ->
    if List.exists (function M.CRegister _ -> true | _ -> false) ops
    then Array.iter (fun how -> emit_history ~how oc r ~stream:"fixed" ~chain ops) hows
    else emit_history oc r ~stream:"fixed" ~chain ops) fixed;
  let n = if tier = "thorough" then 10000 else 500 in
  for i = 1 to n do
    let maxlen = if tier = "thorough" && i mod 10 = 0 then 120 else 40 in
    let (chain, ops) = gen_history r ~maxlen in
    emit_history oc r ~stream:"random" ~chain ops
  done
