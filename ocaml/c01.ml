(* C01 case generation: histories of engine operations over a small family of templates (include, extends,
   imported macros, conditions, a failing filter, sources that fail to parse half-way, loader templates, two
   engines), each operation with the result the extracted pool machine (Model.pool_step, configured by the
   release sites of the working tree: Model.pool_cfg_gen) predicts under an adversarial reuse oracle and
   arbitrary left-over values in pooled contexts. On every render the generator compares this prediction with
   Model.pool_pristine_obs: equal by theorem C01_equals_pristine as long as the working tree releases no cached
   node; when the machine configured by the tree predicts a history-dependent result itself, the case is marked
   (model_predicts_history_dependence) and still emitted, so that the runner finds the failing input on the engine.
   One case = one history. Unverified glue; every random choice comes from the one rng. *)
open Util
module M = Model

let n_of_int i = if i <= 0 then M.N0 else M.Npos (pos_of_int i)

(* ---- trees ---- *)
let pt k pl cs = M.PoolT (k, List.map n_of_int pl, cs)
let text k = pt M.pk_text [k] []
let var x = pt M.pk_var [x; 0] []
let varf x = pt M.pk_var [x; 1] []      (* printed through the identity filter verifid *)
let fail_ = pt M.pk_fail [] []
let incl t ign = pt M.pk_include [t; (if ign then 1 else 0)] []
let block b body = pt M.pk_block [b] body
let extends t = pt M.pk_extends [t] []
let macro m body = pt M.pk_macro [m; 0; 0] body
(* second parameter v4 whose default is the expression v<x> over the caller's variables *)
let macro_d m x body = pt M.pk_macro [m; 1; x] body
let lcall m x = pt M.pk_lcall [m; x] []
let call t m x = pt M.pk_call [t; m; x] []
let if_ x body = pt M.pk_if [x] body

(* the template text of a tree: what the real parser is given *)
let rec print_tree (b : Buffer.t) (t : M.pool_tree) =
  let M.PoolT (k, pl, cs) = t in
  let p i = match List.nth_opt pl i with Some n -> int_of_n n | None -> 0 in
  let body () = List.iter (print_tree b) cs in
  if k = M.pk_text then Buffer.add_string b (Printf.sprintf "T%d;" (p 0))
  else if k = M.pk_var then Buffer.add_string b (Printf.sprintf (if p 1 <> 0 then "{{ v%d|verifid }}" else "{{ v%d }}") (p 0))
  else if k = M.pk_fail then Buffer.add_string b "{{ 1|verifboom }}"
  else if k = M.pk_include then
    Buffer.add_string b (Printf.sprintf "{%% include 't%d'%s %%}" (p 0) (if p 1 <> 0 then " ignore missing" else ""))
  else if k = M.pk_block then (Buffer.add_string b (Printf.sprintf "{%% block b%d %%}" (p 0)); body (); Buffer.add_string b "{% endblock %}")
  else if k = M.pk_extends then Buffer.add_string b (Printf.sprintf "{%% extends 't%d' %%}" (p 0))
  else if k = M.pk_macro then
    (Buffer.add_string b (if p 1 <> 0 then Printf.sprintf "{%% macro m%d(v0, v4 = v%d) %%}" (p 0) (p 2) else Printf.sprintf "{%% macro m%d(v0) %%}" (p 0));
     body (); Buffer.add_string b "{% endmacro %}")
  else if k = M.pk_lcall then Buffer.add_string b (Printf.sprintf "{{ m%d(v%d) }}" (p 0) (p 1))
  else if k = M.pk_call then Buffer.add_string b (Printf.sprintf "{%% import 't%d' as q %%}{{ q.m%d(v%d) }}" (p 0) (p 1) (p 2))
  else if k = M.pk_if then (Buffer.add_string b (Printf.sprintf "{%% if v%d %%}" (p 0)); body (); Buffer.add_string b "{% endif %}")
  else ()

(* a source that does not parse: everything printed parses, then an unclosed tag follows *)
let bad_tails = [| "{% if v1 %}T0;"; "{{ v1 "; "{% block b1 %}T0;"; "{{ (v1 }}"; "{% for x in %}"; "{% macro m1(v0) %}T0;"; "{% unknowntag %}"; "{{ 1 + }}" |]
let print_src (r : rng) (src : M.pool_src) : string =
  let b = Buffer.create 128 in
  List.iter (print_tree b) src.M.psrc_nodes;
  if not src.M.psrc_ok then Buffer.add_string b (pick r bad_tails);
  Buffer.contents b

let atoms_text (out : M.pool_atom list) : string =
  String.concat "" (List.map (function M.PAText k -> Printf.sprintf "T%d;" (int_of_n k) | M.PAVal v -> string_of_int (int_of_n v)) out)

let result_str = function
  | M.PROut out -> "out:" ^ hex (atoms_text out)
  | M.PRErr M.ENotFound -> "err:notfound"
  | M.PRErr _ -> "err:other"
  | M.PRGarbage -> "unmodelled:garbage"
  | M.PRFuel -> "unmodelled:fuel"
let lres_str = function
  | M.PLOk _ -> "ok"
  | M.PLErr M.ENotFound -> "err:notfound"
  | M.PLErr _ -> "err:other"
  | M.PLBad -> "unmodelled:bad"

(* ---- the adversary: which pooled object a Get hands out, what a pooled context still holds ---- *)
let mk_oracle (r : rng) : M.pool_oracle =
  let a = Array.init 1024 (fun _ -> if rint r 4 = 0 then None else Some (nat_of_int (rint r 3))) in
  fun t -> a.(int_of_nat t land 1023)
let junk_vars = M.FVVars [ (n_of_int 1, Some (n_of_int 99)); (n_of_int 0, Some (n_of_int 98)) ]
let mk_garbage (r : rng) : M.nat -> M.pool_garbage =
  let salt = rint r 1000 in
  fun d f -> match (Hashtbl.hash (string_of_bytes f) + int_of_nat d + salt) mod 4 with
    | 0 -> None | 1 -> Some M.FVTrue | 2 -> Some junk_vars | _ -> Some M.FVPtr

(* ---- one history ---- *)
type op =
  | Register of int * int * M.pool_src * string        (* engine, name, source, printed text *)
  | Parse of int * M.pool_src * string
  | Load of int * int
  | Render of int * int * (int * int) list
  | Toggle of int
  | Gc
  | Poison
  | Attr of int * int * bool * int                      (* engine, struct type, passed as pointer, which object template *)
  | Flood of int                                        (* another engine looks up that many distinct attribute names *)
  | Alias of int * int * int                            (* engine, name, alias: RegisterTemplate(alias, Load(name)): the same template under a second name *)
  | Handle of int * int                                 (* engine, name: the caller keeps the *Template that Load returns *)
  | RenderAlias of int * int * (int * int) list         (* Render(alias) *)
  | RenderHandle of int * int * (int * int) list        (* Template.Render on the kept handle of (engine, name) *)
  | AddCallback of int                                   (* this engine gets a filter `upper` of its own (shadowing the built-in), a function c01fn and a test c01t *)
  | RenderCb of int * int * string                        (* engine, name (65: {{ 'x'|upper }}, 66: {{ c01fn('q') }}), the result an engine with exactly its own callbacks gives *)
  | LateStore of int * int * string * bool              (* engine, name (60 and up: names no modelled template mentions), text; a template
                                                           that arrives later, in the engine's first loader or (true) in a loader registered now *)

let junk_cell = { M.pcl_kind = n_of_int 77; pcl_payload = [ n_of_int 13 ]; pcl_children = [ nat_of_int 0; nat_of_int 1; nat_of_int 2 ] }
let model_ops (o : op) : M.pool_op list =
  match o with
  | Register (e, n, src, _) -> [ M.PORegister (nat_of_int e, n_of_int n, src) ]
  | Parse (e, src, _) -> [ M.POParse (nat_of_int e, src) ]
  | Load (e, n) -> [ M.POLoad (nat_of_int e, n_of_int n) ]
  | Render (e, n, vars) -> [ M.PORender (nat_of_int e, n_of_int n, List.map (fun (x, v) -> (n_of_int x, n_of_int v)) vars) ]
  | Toggle e -> [ M.POToggleCache (nat_of_int e) ]
  | Gc -> [ M.POGC ]
  | Attr _ | Flood _ -> []                                (* attribute access on Go structs: outside the machine *)
  | AddCallback _ | RenderCb _ -> []                      (* callbacks of one engine: outside the machine; the expectation is written down by the generator *)
  | LateStore _ -> []                                     (* names outside the machine's templates: oracle only, rendered with RenderAlias *)
  | Alias _ | Handle _ | RenderAlias _ | RenderHandle _ -> []   (* second references to a held template: outside the machine, oracle only *)
  | Poison -> List.map (fun k -> M.POPoison (k, junk_cell)) [ M.pk_root; M.pk_text; M.pk_var; M.pk_block; M.pk_include; M.pk_call; M.pk_if; M.pk_macro ]

let unmodelled = ref 0
let model_violations = ref 0

let emit_history oc (r : rng) ~(stream : string) ~(engines : int) (store : ((int * int) * M.pool_src * string) list) (ops : op list) =
  let mstore = List.map (fun ((e, n), src, _) -> ((nat_of_int e, n_of_int n), src)) store in
  let orc = mk_oracle r and g = mk_garbage r in
  let s = ref M.pool_init in
  let done_ops = ref [] in                  (* model operations so far, oldest first *)
  let renders = Hashtbl.create 8 in
  let parse_since_render = ref false and seen_render = ref false in
  let nt = ref false in
  let mv_here = ref false in
  let jops = List.map (fun o ->
    let mops = model_ops o in
    (* everything but the last model operation of o has no observation (POPoison) *)
    let obs = ref M.POONone in
    (match o with
     | Render (e, n, vars) ->
         let mv = List.map (fun (x, v) -> (n_of_int x, n_of_int v)) vars in
         let pristine = M.pool_pristine_obs M.pool_cfg_gen mstore !done_ops (nat_of_int e) (n_of_int n) mv in
         let here = M.pool_render_obs M.pool_cfg_gen mstore orc g !s (nat_of_int e) (n_of_int n) mv in
         (* equal by theorem C01_equals_pristine as long as the working tree releases no cached node; when it does
            (pool_cfg_gen follows the tree) the machine itself predicts a history-dependent result: the case is
            still emitted, marked, and the runner looks for the failing input on the real engine *)
         if pristine <> here then (incr model_violations; mv_here := true)
     | _ -> ());
    List.iter (fun mo -> let (s', ob) = M.pool_step M.pool_cfg_gen mstore orc g !s mo in s := s'; obs := ob) mops;
    done_ops := !done_ops @ mops;
    let j = match o with
      | Register (e, n, _, txt) ->
          parse_since_render := true;
          [ "op", JS "register"; "e", JI e; "n", JI n; "src", JS (hex txt);
            "exp", JS (match !obs with M.POOReg true -> "ok" | _ -> "err") ]
      | Parse (e, _, txt) -> parse_since_render := true; [ "op", JS "parse"; "e", JI e; "src", JS (hex txt) ]
      | Load (e, n) ->
          [ "op", JS "load"; "e", JI e; "n", JI n; "exp", JS (match !obs with M.POOLoad l -> lres_str l | _ -> "?") ]
      | Render (e, n, vars) ->
          if Hashtbl.mem renders (e, n) then nt := true;
          if !seen_render && !parse_since_render then nt := true;
          Hashtbl.replace renders (e, n) (); seen_render := true; parse_since_render := false;
          let exp = match !obs with M.POORender res -> result_str res | _ -> "?" in
          if String.length exp >= 10 && String.sub exp 0 10 = "unmodelled" then incr unmodelled;
          [ "op", JS "render"; "e", JI e; "n", JI n;
            "vars", JL (List.map (fun (x, v) -> JL [ JI x; JI v ]) vars); "exp", JS exp ]
      | Toggle e -> [ "op", JS "togglecache"; "e", JI e ]
      | Gc -> [ "op", JS "gc" ]
      | Poison -> [ "op", JS "poison" ]
      | Attr (e, ty, ptr, tpl) -> [ "op", JS "attr"; "e", JI e; "ty", JI ty; "ptr", JB ptr; "tpl", JI tpl ]
      | Flood n -> [ "op", JS "flood"; "cnt", JI n ]
      | Alias (e, n, a) -> parse_since_render := true; [ "op", JS "alias"; "e", JI e; "n", JI n; "tpl", JI a ]
      | Handle (e, n) -> [ "op", JS "handle"; "e", JI e; "n", JI n ]
      | AddCallback e -> [ "op", JS "addcallback"; "e", JI e ]
      | RenderCb (e, n, exp) -> nt := true; [ "op", JS "renderalias"; "e", JI e; "n", JI n; "vars", JL []; "exp", JS exp ]
      | LateStore (e, n, txt, fresh) -> [ "op", JS "store"; "e", JI e; "n", JI n; "src", JS (hex txt); "ptr", JB fresh ]
      | RenderAlias (e, a, vars) -> nt := true;
          [ "op", JS "renderalias"; "e", JI e; "n", JI a; "vars", JL (List.map (fun (x, v) -> JL [ JI x; JI v ]) vars); "exp", JS "unmodelled:alias" ]
      | RenderHandle (e, n, vars) -> nt := true;
          [ "op", JS "renderhandle"; "e", JI e; "n", JI n; "vars", JL (List.map (fun (x, v) -> JL [ JI x; JI v ]) vars); "exp", JS "unmodelled:handle" ] in
    Ob j) ops in
  emit oc (Ob [ "stream", JS stream; "engines", JI engines; "nt", JB !nt; "len", JI (List.length ops);
                "model_predicts_history_dependence", JB !mv_here;
                "store", JL (List.map (fun ((e, n), _, txt) -> Ob [ "e", JI e; "n", JI n; "src", JS (hex txt) ]) store);
                "ops", JL jops ])

(* ---- generators ---- *)
(* names: t0 page, t1 base, t2 partial, t3 macro library, t4 only ever gets sources that do not parse, t9 never
   exists. A template refers only to higher numbers, so there are no cycles. *)
let next_text = ref 0
let fresh_text () = incr next_text; text !next_text

let rec gen_body (r : rng) ~(rank : int) ~(depth : int) ~(blocks : bool) : M.pool_tree list =
  let n = 1 + rint r 3 in
  List.init n (fun _ ->
    match wpick r [ 30, `Text; 18, `Var; (if depth < 2 then 10 else 0), `If; (if rank < 3 then 14 else 0), `Include;
                    (if rank < 3 then 10 else 0), `Call; 3, `Fail; (if blocks && depth < 2 then 10 else 0), `Block ] with
    | `Text -> fresh_text ()
    | `Var -> if rbool r then var (rint r 4) else varf (rint r 4)
    | `If -> if_ (rint r 4) (gen_body r ~rank ~depth:(depth + 1) ~blocks)
    | `Include ->
        let t = wpick r [ (if rank < 1 then 3 else 0), 1; (if rank < 2 then 6 else 0), 2; 2, 3; 2, 9; 1, 4 ] in
        incl t (t = 9 && rint r 3 <> 0 || rint r 8 = 0)
    | `Call -> call (wpick r [ 10, 3; 1, 9; (if rank < 2 then 1 else 0), 2 ]) (wpick r [ 6, 1; 4, 2; 1, 5 ]) (rint r 4)
    | `Fail -> fail_
    | `Block -> block (1 + rint r 3) (gen_body r ~rank ~depth:(depth + 1) ~blocks:false))

let gen_src (r : rng) ~(name : int) : M.pool_src =
  let ok = name <> 4 in
  let nodes =
    match name with
    | 0 ->
        if rint r 2 = 0 then
          (* a child template: extends the base (or, rarely, something missing) and overrides blocks *)
          extends (wpick r [ 12, 1; 1, 9; 1, 2 ])
          :: List.init (1 + rint r 3) (fun _ -> block (1 + rint r 3) (gen_body r ~rank:0 ~depth:1 ~blocks:false))
          @ (if rint r 3 = 0 then [ fresh_text () ] else [])
        else if rint r 4 = 0 then
          (* a macro of its own, with a default over the context, called from the page itself *)
          macro_d 3 (rint r 4) [ fresh_text (); var 0; var 4 ] :: gen_body r ~rank:0 ~depth:0 ~blocks:true @ [ lcall 3 (rint r 4) ]
        else gen_body r ~rank:0 ~depth:0 ~blocks:true
    | 1 -> gen_body r ~rank:1 ~depth:0 ~blocks:true @ [ block (1 + rint r 3) (gen_body r ~rank:1 ~depth:1 ~blocks:false) ]
    | 2 ->
        if rint r 6 = 0 then extends 3 :: [ block 1 [ fresh_text () ] ]
        else gen_body r ~rank:2 ~depth:0 ~blocks:(rint r 3 = 0)
    | 3 ->
        let nm = 1 + rint r 2 in
        List.concat (List.init nm (fun i ->
          let dflt = rint r 2 = 0 in
          let body = List.init (1 + rint r 3) (fun _ ->
              match rint r 6 with 0 -> var 0 | 1 -> var (1 + rint r 3) | 2 -> if_ 0 [ fresh_text () ] | 3 -> varf (rint r 4)
                                | 4 -> var 4 | _ -> fresh_text ()) in
          [ (if dflt then macro_d (i + 1) (rint r 4) (body @ [ var 4 ]) else macro (i + 1) body) ]))
        @ (if rint r 2 = 0 then [ fresh_text () ] else [])
        @ (if rint r 3 = 0 then [ lcall (1 + rint r nm) (rint r 4) ] else [])
        @ (if rint r 12 = 0 then [ lcall 5 0 ] else [])
        @ (if rint r 5 = 0 then [ block 1 [ fresh_text () ] ] else [])
    | _ -> gen_body r ~rank:3 ~depth:1 ~blocks:false in
  { M.psrc_nodes = nodes; psrc_ok = ok }

let gen_vars (r : rng) = List.filter_map (fun x -> if rint r 3 = 0 then None else Some (x, wpick r [ 1, 0; 4, 1 + rint r 50 ])) [ 0; 1; 2; 3 ]

let gen_history (r : rng) ~(maxlen : int) =
  let engines = if rint r 3 = 0 then 2 else 1 in
  (* which names of engine 0 come from its loader instead of a registration *)
  let loaded = List.filter (fun _ -> rint r 4 = 0) [ 1; 2; 3 ] in
  let store = List.map (fun n -> let src = gen_src r ~name:n in ((0, n), src, print_src r src)) loaded
              @ (if rint r 6 = 0 then (let src = gen_src r ~name:4 in [ ((0, 4), src, print_src r src) ]) else []) in
  let ops = ref [] in
  let push o = ops := o :: !ops in
  let reg e n = let src = gen_src r ~name:n in push (Register (e, n, src, print_src r src)) in
  List.iter (fun n -> if not (List.mem n loaded) then reg 0 n) [ 3; 2; 1 ];
  reg 0 0;
  if engines = 2 then (reg 1 0; if rbool r then reg 1 3);
  if rint r 5 = 0 then push (Toggle 0);
  let len = max (rrange r 3 (maxlen - 1)) (List.length !ops + 2) in
  let focus = ref 0 in
  (* a third of the histories also render Go structs (by value and through pointers) through attribute access *)
  let objs = rint r 3 = 0 and oty = rint r 4 and floods = ref 0 in
  let second = rint r 4 = 0 in
  while List.length !ops < len do
    match wpick r [ 42, `Render; 9, `Rereg; 7, `Parse; 6, `Load; 5, `Toggle; 6, `Gc; 4, `Poison; (if engines = 2 then 10 else 0), `Other; 4, `BadReg;
                    (if objs then 22 else 0), `Attr; (if objs && !floods < 1 then 3 else 0), `Flood; (if second then 14 else 0), `Second ] with
    | `Second ->
        (* a second reference to a held template: an alias, or a handle the caller keeps; later the name is registered
           again and the old template must go on rendering as before *)
        let n = wpick r [ 3, 0; 2, 2; 1, 3 ] in
        (match rint r 7 with
         | 4 ->
             (* t60 is a leaf, t61 includes t60, t62 includes both: no cycles *)
             let k = rint r 3 in
             let txt = match k with
               | 0 -> pick r [| "L{{ v1 }}"; "l"; "L{{ v2 }}{{ v1 }}" |]
               | 1 -> pick r [| "M{{ v2 }}{% include 't60' ignore missing %}"; "m{% include 't60' %}" |]
               | _ -> "{% include 't60' ignore missing %}+{% include 't61' ignore missing %}" in
             push (LateStore (0, 60 + k, txt, rbool r))
         | 5 | 6 -> push (RenderAlias (0, 60 + rint r 3, gen_vars r))
         | 0 -> push (Alias (0, n, 50 + n))
         | 1 -> push (Handle (0, n))
         | 2 -> push (RenderAlias (0, 50 + wpick r [ 3, 0; 2, 2; 1, 3 ], gen_vars r))
         | _ -> push (RenderHandle (0, wpick r [ 3, 0; 2, 2; 1, 3 ], gen_vars r)))
    | `Render ->
        let n = if rint r 3 <> 0 then !focus else wpick r [ 4, 0; 2, 1; 2, 2; 1, 3; 1, 9; 1, 4 ] in
        focus := n; push (Render (0, n, gen_vars r))
    | `Rereg -> let n = wpick r [ 3, 0; 2, 1; 2, 2; 2, 3 ] in reg 0 n
    | `Parse ->
        let n = if rbool r then 4 else rint r 4 in
        let src = gen_src r ~name:n in push (Parse (rint r engines, src, print_src r src))
    | `Load -> push (Load (0, wpick r [ 2, 0; 2, 1; 3, 2; 2, 3; 1, 9; 1, 4 ]))
    | `Toggle -> push (Toggle (rint r engines))
    | `Gc -> push Gc
    | `Attr -> push (Attr (rint r engines, (if rint r 4 = 0 then rint r 4 else oty), rbool r, rint r 3))
    | `Flood -> incr floods; push (Flood 1200)
    | `Poison -> push Poison
    | `Other ->
        (match rint r 3 with
         | 0 -> reg 1 (wpick r [ 3, 0; 1, 3; 1, 2 ])
         | _ -> push (Render (1, wpick r [ 5, 0; 1, 3; 1, 9 ], gen_vars r)))
    | `BadReg -> let src = gen_src r ~name:4 in push (Register (rint r engines, wpick r [ 3, 4; 1, 0; 1, 2 ], src, print_src r src))
  done;
  (* the history ends with renders of the page on engine 0, so that every history compares something *)
  push (Render (0, 0, gen_vars r));
  (engines, store, List.rev !ops)

(* ---- fixed histories: the witnesses of Properties/C01.v and KNOWN_FINDINGS.txt ---- *)
let fixed (r : rng) =
  let s nodes = { M.psrc_nodes = nodes; psrc_ok = true } in
  let reg e n src = Register (e, n, src, print_src r src) in
  let a = s [ text 7 ] and b = s [ text 9 ] in
  let base = s [ text 1; block 1 [ text 2 ]; text 3 ]
  and child = s [ extends 1; block 1 [ text 4; incl 2 false ] ]
  and inc = s [ var 1; call 3 1 1 ]
  and mac = s [ macro 1 [ text 8; var 0; var 2 ] ]
  and boom = s [ text 5; fail_ ]
  and half = { M.psrc_nodes = [ text 6; if_ 1 [ text 6 ] ]; psrc_ok = false } in
  let v = [ (1, 5); (2, 6) ] in
  [ (1, [], [ reg 0 0 a; Render (0, 0, []); Render (0, 0, []) ]);
    (1, [], [ reg 0 0 a; Render (0, 0, []); reg 0 1 b; Render (0, 0, []); Render (0, 1, []); Render (0, 0, []) ]);
    (2, [ ((0, 2), inc, print_src r inc) ],
     [ reg 0 1 base; reg 0 0 child; reg 0 3 mac; Poison; Render (0, 0, v); reg 1 0 boom; Render (1, 0, []);
       Parse (1, half, print_src r half); Register (0, 4, half, print_src r half); Toggle 0; Render (0, 0, v); Gc; Poison;
       Render (0, 9, []); Render (0, 0, v); Render (1, 0, []) ]);
    (* a failing render, then the same template again, then another one parsed in between *)
    (1, [], [ reg 0 0 boom; Render (0, 0, []); Render (0, 0, []); reg 0 1 a; Render (0, 0, []); Render (0, 1, []) ]);
    (* the included template is rendered on its own before and after the include *)
    (1, [], [ reg 0 3 mac; reg 0 2 inc; reg 0 0 (s [ text 1; incl 2 false; text 2 ]); Render (0, 2, v); Render (0, 0, v);
              Render (0, 2, v); Render (0, 0, v); Render (0, 3, v); Render (0, 0, v) ]);
    (* a macro default over the context, through an import from two pages and from the library itself: the same
       templates rendered with different contexts *)
    (1, [], [ reg 0 3 (s [ macro_d 1 2 [ var 0; var 4 ]; text 3; lcall 1 1 ]); reg 0 0 (s [ text 1; call 3 1 1 ]); reg 0 1 (s [ text 2; call 3 1 3 ]);
              Render (0, 0, [ (1, 5); (2, 6) ]); Render (0, 1, [ (3, 7); (2, 9) ]); Render (0, 0, [ (1, 5); (2, 8) ]); Render (0, 3, [ (1, 4); (2, 2) ]);
              Render (0, 0, [ (1, 5); (2, 6) ]); Render (0, 1, [ (3, 7) ]) ]);
    (1, [], [ reg 0 0 (s [ macro_d 3 1 [ text 1; var 0; var 4 ]; lcall 3 2; text 2 ]); Render (0, 0, [ (1, 5); (2, 6) ]); Render (0, 0, [ (1, 7); (2, 6) ]);
              Render (0, 0, [ (1, 5); (2, 6) ]) ]);
    (* Go structs with a pointer-receiver method: by value first, then through a pointer, and the other way round, on
       this and on another engine, with an attribute-cache roll-over in between *)
    (2, [], [ reg 0 0 a; Attr (0, 0, false, 0); Attr (0, 0, true, 0); Attr (1, 1, true, 0); Attr (0, 1, false, 2); Attr (1, 1, true, 1);
              Render (0, 0, []); Attr (0, 2, true, 0); Flood 1200; Attr (1, 2, false, 2); Attr (0, 2, true, 0); Attr (0, 2, true, 0) ]);
    (* the same template under a second name and through a kept handle; then its first name is registered again,
       other sources are parsed, and the old template must still render as it did *)
    (1, [], [ reg 0 0 a; Alias (0, 0, 50); Handle (0, 0); RenderAlias (0, 50, []); reg 0 0 b; RenderAlias (0, 50, []); RenderHandle (0, 0, []); Render (0, 0, []);
              Parse (0, base, print_src r base); reg 0 1 base; RenderAlias (0, 50, []); RenderHandle (0, 0, []); Gc; Poison; RenderAlias (0, 50, []); RenderHandle (0, 0, []) ]);
    (* a name nobody has yet: a render of it fails, a page that includes it optionally renders without it; then the
       template arrives through a loader and both must see it (as an engine created now would) *)
    (1, [], [ LateStore (0, 61, "P;{% include 't60' ignore missing %};Q{{ v1 }}", false); RenderAlias (0, 60, [ (1, 5) ]); RenderAlias (0, 61, [ (1, 5) ]);
              RenderAlias (0, 61, [ (1, 6) ]); LateStore (0, 60, "L{{ v1 }}", false); RenderAlias (0, 61, [ (1, 5) ]); RenderAlias (0, 60, [ (1, 7) ]) ]);
    (1, [], [ reg 0 0 a; Render (0, 0, []); RenderAlias (0, 62, []); RenderAlias (0, 62, []); LateStore (0, 62, "late{{ v2 }}", true); RenderAlias (0, 62, [ (2, 4) ]);
              Render (0, 0, []); LateStore (0, 63, "{% include 't64' %}", true); RenderAlias (0, 63, []); LateStore (0, 64, "inner", false); RenderAlias (0, 63, []) ]);
    (2, [], [ RenderAlias (0, 60, []); RenderAlias (1, 60, []); LateStore (1, 60, "one", false); RenderAlias (0, 60, []); RenderAlias (1, 60, []);
              LateStore (0, 60, "zero", true); RenderAlias (0, 60, []); RenderAlias (1, 60, []) ]);
    (* callbacks belong to the engine they were added to: another engine of the process keeps the built-in filter and
       does not know the function *)
    (let t65 = "{{ 'x'|upper }}" and t66 = "{{ c01fn('q') }}{{ 1 is c01t ? 'y' : 'n' }}" in
     let plain = "out:" ^ hex "X" and ovr e = "out:" ^ hex (Printf.sprintf "ovr%d" e) and fn e = "out:" ^ hex (Printf.sprintf "fnovr%dy" e) in
     (2, [], [ LateStore (0, 65, t65, false); LateStore (1, 65, t65, false); LateStore (0, 66, t66, false); LateStore (1, 66, t66, false);
               RenderCb (0, 65, plain); RenderCb (1, 65, plain); RenderCb (1, 66, "err:other");
               AddCallback 0; RenderCb (0, 65, ovr 0); RenderCb (1, 65, plain); RenderCb (0, 66, fn 0); RenderCb (1, 66, "err:other");
               Gc; RenderCb (1, 65, plain); AddCallback 1; RenderCb (1, 65, ovr 1); RenderCb (0, 65, ovr 0); RenderCb (1, 66, fn 1); RenderCb (0, 66, fn 0) ]));
    (* a missing include fails the render; the template renders the same afterwards on a good and a bad name *)
    (1, [], [ reg 0 0 (s [ text 1; incl 9 false ]); reg 0 1 (s [ text 2; incl 9 true; text 3 ]); Render (0, 0, []); Render (0, 1, []);
              Render (0, 0, []); Render (0, 1, []) ]) ]

let run ~seed ~tier oc =
  let r = mk_rng seed in
  List.iter (fun (engines, store, ops) -> emit_history oc r ~stream:"fixed" ~engines store ops) (fixed r);
  let n = if tier = "thorough" then 6000 else 300 in
  for i = 1 to n do
    let maxlen = if tier = "thorough" && i mod 10 = 0 then 60 else 25 in
    next_text := 0;
    let (engines, store, ops) = gen_history r ~maxlen in
    emit_history oc r ~stream:"random" ~engines store ops
  done;
  (* the probe catalogue of the runner (harness/c01_probes.go): orders derived from this seed *)
  emit oc (Ob [ "stream", JS "probes"; "k", JS "probes"; "seed", JI (rint r 1000000); "rounds", JI (if tier = "thorough" then 12 else 3) ]);
  if !model_violations > 0 then
    prerr_endline (Printf.sprintf "c01: the pool machine configured by the working tree predicts %d history-dependent renders" !model_violations);
  if !unmodelled > 0 then prerr_endline (Printf.sprintf "c01: %d renders predicted unmodelled" !unmodelled)
