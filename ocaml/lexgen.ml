(* Shared generators for the scanner properties C04 / C13 / C14: templates as segment lists over the
   extracted types, printed by the extracted unparse, scanned by the extracted model. *)
open Util
open Model

let kind_name = function OVarT -> "vt" | OVar -> "v" | OBlockT -> "bt" | OBlock -> "b" | OComment -> "c"

(* projection of outer tokens compared with the Go token stream: text values, tag kind and closer
   dash; comment bodies in full (the contents of other tags belong to the expression lexer) *)
let tok_json (t : otok) : json =
  match t with
  | OText s -> JL [JS "T"; JS (hexb s)]
  | OEsc k -> JL [JS "T"; JS (hexb (pattern k))]
  | OTag (OComment, c, _) -> JL [JS "G"; JS "c"; JB false; JS (hexb c)]
  | OTag (k, _, tr) -> JL [JS "G"; JS (kind_name k); JB tr; JS ""]

let lex_json (src : byte list) : (string * json) list * otok list option =
  match lex_small src with
  | LexOk ts -> [ "lex", JS "ok"; "toks_raw", JL (List.map tok_json ts); "toks", JL (List.map tok_json (ws_control false ts)) ], Some ts
  | LexErr -> [ "lex", JS "err" ], None
  | LexFuel -> [ "lex", JS "fuel" ], None

let b s = bytes_of_string s

(* literal text: arbitrary bytes with a bias towards the delimiter characters, never forming an opener *)
let text_alphabet = [| "{"; "}"; "%"; "#"; "-"; "\\"; " "; "\n"; "\t"; "\r\n"; "a"; "Z"; "0"; "<p>"; "\xc3\xa9"; "\xe2\x82\xac"; "\xff"; "\x00"; "\x80"; "'"; "\""; "}}"; "%}"; "#}"; "{ {"; "{ %" |]
let gen_text r ~maxparts =
  let n = 1 + rint r maxparts in
  let buf = Buffer.create 32 in
  for _ = 1 to n do
    (match rint r 8 with
     | 0 -> Buffer.add_char buf (Char.chr (rint r 256))
     | 1 | 2 -> Buffer.add_string buf (pick r [| "word"; "x"; "hello world"; "<div class=\"a\">"; "1 < 2" |])
     | _ -> Buffer.add_string buf (pick r text_alphabet))
  done;
  (* break any accidental opener and a trailing backslash or brace (which could join the next opener) *)
  let s = Buffer.contents buf in
  let s = Str_compat.replace_all s "{{" "{ {" in
  let s = Str_compat.replace_all s "{%" "{ %" in
  let s = Str_compat.replace_all s "{#" "{ #" in
  let s = if s <> "" && (s.[String.length s - 1] = '\\' || s.[String.length s - 1] = '{') then s ^ "." else s in
  if s = "" then "t" else s

let ws_choices = [| ""; " "; "\t"; "\n"; "\r\n  "; "  \n\t " |]

(* the context every generated template is rendered with (mirrored in the Go runner) *)
let ctx_value = function "a" -> "A1" | "b" -> "<B&>" | "c" -> "" | "d" -> "d d" | _ -> ""

(* accept a segment list when the model scans its source back to exactly these segments *)
let roundtrips (segs : seg list) : bool =
  match lex_small (unparse segs) with
  | LexOk ts -> ts = List.map seg_tok segs
  | _ -> false

let rec merge_texts = function
  | SText a :: SText b2 :: r -> merge_texts (SText (a @ b2) :: r)
  | x :: r -> x :: merge_texts r
  | [] -> []
