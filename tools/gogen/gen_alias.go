// gen_alias.go: FilterWrites.v -- a syntactic summary of the statements that could write to caller data (C18).
//
// For every function of extension.go, render.go, render_filter.go and node.go that receives template
// values (a parameter of type interface{}, []interface{}, ...interface{}, map[string]interface{} or
// reflect.Value) the generator computes, flow-insensitively, the set of variables DERIVED from those
// parameters by operations that keep aliasing (assignment, type assertion, type-switch binding, indexing,
// slicing, range, reflect.ValueOf, Value.Index / MapIndex / Elem / Interface / Field / Slice, conversions to
// a slice or map type) and NOT passed through a copy (make, append onto a fresh slice, reflect.MakeSlice /
// MakeMap / New, []rune(..) / []byte(..) / string(..), composite literals, any other call). It then lists
// every SUSPICIOUS statement, i.e. every statement that writes through such a variable:
//
//	index-assign   x[i] = ..   /  x[i]++        (x derived)
//	append         append(x, ..)                (x derived: may write into spare capacity of the array of the caller)
//	sort           sort.Slice / SliceStable / Sort / Stable / Strings / Ints / Float64s (x)
//	delete         delete(x, k)
//	copy           copy(x, ..) / reflect.Copy(x, ..)
//	reflect-set    x.Set*(..) / x.Index(i).Set(..) / x.SetMapIndex(..) / reflect.Swapper(x)
//	field-assign   x.f = ..                     (x derived, e.g. a struct reached through a pointer)
//
// Each site is (function, kind, printed target expression); line numbers are recorded separately and are not part
// of the obligation, so that unrelated edits do not break it. Proofs/HeapProofs.v holds the hand-justified list
// of the sites that are safe and the computed obligation that every generated site is in that list: a new
// in-place write breaks the obligation.
//
// Further shapes:
//
//	fw_slice_window     filterSlice returns a sub-slice v[a:b] of a derived variable for []interface{} (the model
//	                    follows this flag: window of the caller's array vs private copy)
//	fw_newctx_copies    NewRenderContext copies its map argument entry by entry into ctx.context and never
//	                    stores the argument itself
//	fw_setvar_target    the map SetVariable writes to (printed), expected ctx.context
//	fw_clone_fresh_map  Clone never assigns the parent's context map to the child
//	fw_returns_input    the functions having a `return <derived identifier>, nil` statement (they hand out
//	                    their input or a part of it: aliasing without a write)
package main

import (
	"bytes"
	"fmt"
	"go/ast"
	"go/printer"
	"go/token"
	"sort"
	"strings"
)

func init() { generators = append(generators, genFilterWrites) }

type fwSite struct {
	fn, kind, target string
	line             int
}

// fwKey identifies a variable: its resolved object when the parser resolved it, otherwise its name;
// selector expressions (ctx.context) are tracked by their printed text.
type fwKey struct {
	obj  *ast.Object
	name string
}

type fwScan struct {
	g       *gen
	fn      string
	tainted map[fwKey]bool
	sites   []fwSite
	returns bool
}

func (s *fwScan) text(e ast.Node) string {
	var b bytes.Buffer
	printer.Fprint(&b, s.g.fset, e)
	return strings.Join(strings.Fields(b.String()), " ")
}

func fwIdentKey(id *ast.Ident) fwKey {
	if id.Obj != nil {
		return fwKey{obj: id.Obj}
	}
	return fwKey{name: id.Name}
}

// fwValueType reports whether a parameter type carries template values.
func fwValueType(t ast.Expr) bool {
	switch x := t.(type) {
	case *ast.InterfaceType:
		return true
	case *ast.Ellipsis:
		return fwValueType(x.Elt)
	case *ast.ArrayType:
		return fwValueType(x.Elt)
	case *ast.MapType:
		return fwValueType(x.Value)
	case *ast.SelectorExpr:
		if id, ok := x.X.(*ast.Ident); ok && id.Name == "reflect" && x.Sel.Name == "Value" {
			return true
		}
	case *ast.Ident:
		return x.Name == "any"
	}
	return false
}

// aliasing methods of reflect.Value (and of anything else: being conservative costs only a justification)
var fwAliasMethods = map[string]bool{"Index": true, "MapIndex": true, "Elem": true, "Interface": true, "Field": true,
	"FieldByName": true, "FieldByIndex": true, "Slice": true, "Slice3": true, "Addr": true, "Convert": true, "MapRange": true, "Value": true}

// calls whose result is a template value (whatever their arguments)
var fwValueSources = map[string]bool{"EvaluateExpression": true, "GetVariable": true, "GetVariableOrNil": true, "ApplyFilter": true,
	"ApplyFilterChain": true, "CallFunction": true, "getItem": true, "getAttribute": true, "evaluateFilterNode": true}

// derived reports whether the value of e may alias a tainted variable.
func (s *fwScan) derived(e ast.Expr) bool {
	switch x := e.(type) {
	case *ast.Ident:
		return s.tainted[fwIdentKey(x)]
	case *ast.ParenExpr:
		return s.derived(x.X)
	case *ast.StarExpr:
		return s.derived(x.X)
	case *ast.UnaryExpr:
		if x.Op == token.AND {
			return s.derived(x.X)
		}
		return false
	case *ast.TypeAssertExpr:
		return s.derived(x.X)
	case *ast.IndexExpr:
		// reading a variable map of a render context yields a template value
		if sel, ok := x.X.(*ast.SelectorExpr); ok && sel.Sel.Name == "context" {
			return true
		}
		return s.derived(x.X)
	case *ast.SliceExpr:
		return s.derived(x.X)
	case *ast.SelectorExpr:
		if s.tainted[fwKey{name: s.text(x)}] {
			return true
		}
		return s.derived(x.X)
	case *ast.CallExpr:
		switch f := x.Fun.(type) {
		case *ast.SelectorExpr:
			if id, ok := f.X.(*ast.Ident); ok && id.Name == "reflect" && id.Obj == nil {
				switch f.Sel.Name {
				case "ValueOf", "Indirect":
					return len(x.Args) > 0 && s.derived(x.Args[0])
				}
				return false // MakeSlice, MakeMap, New, Zero, TypeOf, ...
			}
			if fwAliasMethods[f.Sel.Name] {
				return s.derived(f.X)
			}
			// the evaluator hands out template values
			if fwValueSources[f.Sel.Name] {
				return true
			}
			return false
		case *ast.ArrayType:
			// conversion []T(x): keeps aliasing unless it converts a string ([]rune, []byte)
			if id, ok := f.Elt.(*ast.Ident); ok && (id.Name == "rune" || id.Name == "byte") {
				return false
			}
			return len(x.Args) == 1 && s.derived(x.Args[0])
		case *ast.MapType:
			return len(x.Args) == 1 && s.derived(x.Args[0])
		case *ast.Ident:
			if f.Name == "append" && f.Obj == nil {
				// append(x, ...) may return x's own array
				return len(x.Args) > 0 && s.derived(x.Args[0])
			}
			return false
		}
	}
	return false
}

// taintLHS marks the variable (or field path) an assignment stores into.
func (s *fwScan) taintLHS(lhs ast.Expr) bool {
	switch x := lhs.(type) {
	case *ast.Ident:
		if x.Name == "_" {
			return false
		}
		k := fwIdentKey(x)
		if !s.tainted[k] {
			s.tainted[k] = true
			return true
		}
	case *ast.SelectorExpr:
		k := fwKey{name: s.text(x)}
		if !s.tainted[k] {
			s.tainted[k] = true
			return true
		}
	}
	return false
}

// propagate runs one pass of the flow-insensitive derivation; it reports whether anything changed.
func (s *fwScan) propagate(body *ast.BlockStmt) bool {
	changed := false
	ast.Inspect(body, func(n ast.Node) bool {
		switch st := n.(type) {
		case *ast.AssignStmt:
			if len(st.Lhs) == len(st.Rhs) {
				for i := range st.Lhs {
					if s.derived(st.Rhs[i]) && s.taintLHS(st.Lhs[i]) {
						changed = true
					}
				}
			} else if len(st.Rhs) == 1 && s.derived(st.Rhs[0]) {
				// v, ok := x.(T) ; v, ok := m[k]
				if s.taintLHS(st.Lhs[0]) {
					changed = true
				}
			}
		case *ast.GenDecl:
			for _, sp := range st.Specs {
				if vs, ok := sp.(*ast.ValueSpec); ok && len(vs.Names) == len(vs.Values) {
					for i := range vs.Names {
						if s.derived(vs.Values[i]) && s.taintLHS(vs.Names[i]) {
							changed = true
						}
					}
				}
			}
		case *ast.RangeStmt:
			if s.derived(st.X) {
				// both key and value of a range over a derived container are derived (map keys can be references too)
				for _, e := range []ast.Expr{st.Key, st.Value} {
					if e != nil && s.taintLHS(e) {
						changed = true
					}
				}
			}
		case *ast.TypeSwitchStmt:
			if as, ok := st.Assign.(*ast.AssignStmt); ok && len(as.Lhs) == 1 && len(as.Rhs) == 1 {
				if s.derived(as.Rhs[0]) {
					if id, ok := as.Lhs[0].(*ast.Ident); ok {
						// the symbol is declared implicitly in every clause: track it by name as well
						for _, k := range []fwKey{fwIdentKey(id), {name: "typeswitch:" + id.Name}} {
							if !s.tainted[k] {
								s.tainted[k] = true
								changed = true
							}
						}
					}
				}
			}
		}
		return true
	})
	return changed
}

func (s *fwScan) site(kind string, target ast.Expr) {
	s.sites = append(s.sites, fwSite{fn: s.fn, kind: kind, target: s.text(target), line: s.g.fset.Position(target.Pos()).Line})
}

var fwSortFuncs = map[string]bool{"Slice": true, "SliceStable": true, "Sort": true, "Stable": true, "Strings": true, "Ints": true, "Float64s": true}

func (s *fwScan) collect(body *ast.BlockStmt, tsNames map[string]bool) {
	// identifiers bound by a type switch on a derived value are unresolved in the clauses for some parser
	// versions: fall back to the name
	isDerived := func(e ast.Expr) bool {
		if s.derived(e) {
			return true
		}
		found := false
		ast.Inspect(e, func(n ast.Node) bool {
			if id, ok := n.(*ast.Ident); ok && id.Obj == nil && tsNames[id.Name] && s.tainted[fwKey{name: "typeswitch:" + id.Name}] {
				// only when the identifier is the root of an aliasing path
				found = found || fwRoot(e) == id
			}
			return true
		})
		return found
	}
	ast.Inspect(body, func(n ast.Node) bool {
		switch st := n.(type) {
		case *ast.AssignStmt:
			for _, l := range st.Lhs {
				switch x := l.(type) {
				case *ast.IndexExpr:
					if isDerived(x.X) {
						s.site("index-assign", x)
					}
				case *ast.SelectorExpr:
					if isDerived(x.X) {
						s.site("field-assign", x)
					}
				case *ast.StarExpr:
					if isDerived(x.X) {
						s.site("field-assign", x)
					}
				}
			}
		case *ast.IncDecStmt:
			if x, ok := st.X.(*ast.IndexExpr); ok && isDerived(x.X) {
				s.site("index-assign", x)
			}
		case *ast.ReturnStmt:
			if len(st.Results) > 0 {
				switch r := st.Results[0].(type) {
				case *ast.Ident:
					if r.Name != "nil" && isDerived(r) {
						s.returns = true
					}
				case *ast.SliceExpr, *ast.IndexExpr:
					if isDerived(r) {
						s.returns = true
					}
				}
			}
		case *ast.CallExpr:
			switch f := st.Fun.(type) {
			case *ast.Ident:
				if f.Obj != nil || len(st.Args) == 0 {
					break
				}
				switch f.Name {
				case "append":
					if isDerived(st.Args[0]) {
						s.site("append", st.Args[0])
					}
				case "delete":
					if isDerived(st.Args[0]) {
						s.site("delete", st.Args[0])
					}
				case "copy":
					if isDerived(st.Args[0]) {
						s.site("copy", st.Args[0])
					}
				case "clear":
					if isDerived(st.Args[0]) {
						s.site("delete", st.Args[0])
					}
				}
			case *ast.SelectorExpr:
				if id, ok := f.X.(*ast.Ident); ok && id.Obj == nil && len(st.Args) > 0 {
					if (id.Name == "sort" || id.Name == "slices") && (fwSortFuncs[f.Sel.Name] || strings.HasPrefix(f.Sel.Name, "Sort") || f.Sel.Name == "Reverse") {
						if isDerived(st.Args[0]) {
							s.site("sort", st.Args[0])
						}
						return true
					}
					if id.Name == "reflect" && (f.Sel.Name == "Copy" || f.Sel.Name == "Swapper") {
						if isDerived(st.Args[0]) {
							s.site("reflect-set", st.Args[0])
						}
						return true
					}
				}
				if strings.HasPrefix(f.Sel.Name, "Set") && f.Sel.Name != "SetVariable" && f.Sel.Name != "SetMacro" && f.Sel.Name != "SetParent" {
					if isDerived(f.X) {
						s.site("reflect-set", f.X)
					}
				}
			}
		}
		return true
	})
}

// fwRoot returns the identifier an aliasing path starts from (x in x[i].f, x.Index(i), x.(T)), or nil.
func fwRoot(e ast.Expr) *ast.Ident {
	for {
		switch x := e.(type) {
		case *ast.Ident:
			return x
		case *ast.ParenExpr:
			e = x.X
		case *ast.StarExpr:
			e = x.X
		case *ast.IndexExpr:
			e = x.X
		case *ast.SliceExpr:
			e = x.X
		case *ast.SelectorExpr:
			e = x.X
		case *ast.TypeAssertExpr:
			e = x.X
		case *ast.CallExpr:
			if f, ok := x.Fun.(*ast.SelectorExpr); ok && fwAliasMethods[f.Sel.Name] {
				e = f.X
			} else {
				return nil
			}
		default:
			return nil
		}
	}
}

func fwFuncName(fd *ast.FuncDecl) string {
	if fd.Recv != nil && len(fd.Recv.List) == 1 {
		switch t := fd.Recv.List[0].Type.(type) {
		case *ast.StarExpr:
			if id, ok := t.X.(*ast.Ident); ok {
				return id.Name + "." + fd.Name.Name
			}
		case *ast.Ident:
			return t.Name + "." + fd.Name.Name
		}
	}
	return fd.Name.Name
}

func genFilterWrites(g *gen) {
	var sites []fwSite
	var scanned, returnsInput []string
	sliceWindow, sliceSeen := false, false

	files := []string{"extension.go", "render.go", "render_filter.go", "node.go"}
	for _, fname := range files {
		f := g.files[fname]
		if f == nil {
			g.fail("FilterWrites: %s not found", fname)
			continue
		}
		for _, d := range f.Decls {
			fd, ok := d.(*ast.FuncDecl)
			if !ok || fd.Body == nil {
				continue
			}
			s := &fwScan{g: g, fn: fwFuncName(fd), tainted: map[fwKey]bool{}}
			seeds := 0
			for _, p := range fd.Type.Params.List {
				if fwValueType(p.Type) {
					for _, nm := range p.Names {
						s.tainted[fwIdentKey(nm)] = true
						seeds++
					}
				}
			}
			// functions without such a parameter are scanned too when they obtain template values from the evaluator
			if seeds == 0 {
				uses := false
				ast.Inspect(fd.Body, func(n ast.Node) bool {
					switch x := n.(type) {
					case *ast.CallExpr:
						if f, ok := x.Fun.(*ast.SelectorExpr); ok && fwValueSources[f.Sel.Name] {
							uses = true
						}
					case *ast.IndexExpr:
						if sel, ok := x.X.(*ast.SelectorExpr); ok && sel.Sel.Name == "context" {
							uses = true
						}
					}
					return !uses
				})
				if !uses {
					continue
				}
			}
			scanned = append(scanned, s.fn)
			for i := 0; i < 50 && s.propagate(fd.Body); i++ {
			}
			tsNames := map[string]bool{}
			ast.Inspect(fd.Body, func(n ast.Node) bool {
				if ts, ok := n.(*ast.TypeSwitchStmt); ok {
					if as, ok := ts.Assign.(*ast.AssignStmt); ok && len(as.Lhs) == 1 {
						if id, ok := as.Lhs[0].(*ast.Ident); ok {
							tsNames[id.Name] = true
						}
					}
				}
				return true
			})
			s.collect(fd.Body, tsNames)
			sites = append(sites, s.sites...)
			if s.returns {
				returnsInput = append(returnsInput, s.fn)
			}
			if s.fn == "CoreExtension.filterSlice" {
				sliceSeen = true
				// a `return v[a:b], nil` inside the clause of the type switch for []interface{}
				ast.Inspect(fd.Body, func(n ast.Node) bool {
					cc, ok := n.(*ast.CaseClause)
					if !ok {
						return true
					}
					isAny := false
					for _, t := range cc.List {
						if at, ok := t.(*ast.ArrayType); ok && at.Len == nil {
							if _, ok := at.Elt.(*ast.InterfaceType); ok {
								isAny = true
							}
						}
					}
					if !isAny {
						return true
					}
					for _, st := range cc.Body {
						ast.Inspect(st, func(m ast.Node) bool {
							if rs, ok := m.(*ast.ReturnStmt); ok && len(rs.Results) > 0 {
								if se, ok := rs.Results[0].(*ast.SliceExpr); ok {
									if id := fwRoot(se); id != nil && (s.tainted[fwIdentKey(id)] || s.tainted[fwKey{name: "typeswitch:" + id.Name}]) {
										sliceWindow = true
									}
								}
							}
							return true
						})
					}
					return false
				})
			}
		}
	}
	if !sliceSeen {
		g.fail("FilterWrites: CoreExtension.filterSlice not found")
	}

	// ---- NewRenderContext / SetVariable / Clone
	newctxCopies, cloneFresh := false, false
	setvarTarget := ""
	if fd := g.funcDecl("", "NewRenderContext"); fd == nil || fd.Body == nil || len(fd.Type.Params.List) < 2 {
		g.fail("FilterWrites: NewRenderContext not found")
	} else {
		// the map parameter: the one of type map[string]interface{}
		param := ""
		for _, p := range fd.Type.Params.List {
			if _, ok := p.Type.(*ast.MapType); ok && len(p.Names) == 1 {
				param = p.Names[0].Name
			}
		}
		copies, stores := false, false
		ast.Inspect(fd.Body, func(n ast.Node) bool {
			switch st := n.(type) {
			case *ast.RangeStmt:
				if id, ok := st.X.(*ast.Ident); ok && id.Name == param && st.Key != nil && st.Value != nil && len(st.Body.List) == 1 {
					if as, ok := st.Body.List[0].(*ast.AssignStmt); ok && len(as.Lhs) == 1 && len(as.Rhs) == 1 {
						if ix, ok := as.Lhs[0].(*ast.IndexExpr); ok && isSel(ix.X, "ctx", "context") {
							k, _ := ix.Index.(*ast.Ident)
							v, _ := as.Rhs[0].(*ast.Ident)
							kk, _ := st.Key.(*ast.Ident)
							vv, _ := st.Value.(*ast.Ident)
							if k != nil && v != nil && kk != nil && vv != nil && k.Name == kk.Name && v.Name == vv.Name {
								copies = true
							}
						}
					}
				}
			case *ast.AssignStmt:
				for _, r := range st.Rhs {
					if id, ok := r.(*ast.Ident); ok && id.Name == param && param != "" {
						stores = true
					}
				}
			case *ast.KeyValueExpr:
				if id, ok := st.Value.(*ast.Ident); ok && id.Name == param && param != "" {
					stores = true
				}
			}
			return true
		})
		newctxCopies = param != "" && copies && !stores
	}
	if fd := g.funcDecl("RenderContext", "SetVariable"); fd == nil || fd.Body == nil {
		g.fail("FilterWrites: RenderContext.SetVariable not found")
	} else {
		n := 0
		ast.Inspect(fd.Body, func(nd ast.Node) bool {
			if as, ok := nd.(*ast.AssignStmt); ok {
				for _, l := range as.Lhs {
					if ix, ok := l.(*ast.IndexExpr); ok {
						var b bytes.Buffer
						printer.Fprint(&b, g.fset, ix.X)
						if n == 0 {
							setvarTarget = b.String()
						} else if setvarTarget != b.String() {
							setvarTarget = "<several>"
						}
						n++
					}
				}
			}
			return true
		})
	}
	if fd := g.funcDecl("RenderContext", "Clone"); fd == nil || fd.Body == nil {
		g.fail("FilterWrites: RenderContext.Clone not found")
	} else {
		shares := false
		ast.Inspect(fd.Body, func(nd ast.Node) bool {
			if as, ok := nd.(*ast.AssignStmt); ok {
				for i, l := range as.Lhs {
					if sel, ok := l.(*ast.SelectorExpr); ok && sel.Sel.Name == "context" && i < len(as.Rhs) {
						if isSel(as.Rhs[i], "ctx", "context") {
							shares = true
						}
					}
				}
			}
			return true
		})
		cloneFresh = !shares
	}

	sort.SliceStable(sites, func(i, j int) bool {
		if sites[i].fn != sites[j].fn {
			return sites[i].fn < sites[j].fn
		}
		if sites[i].kind != sites[j].kind {
			return sites[i].kind < sites[j].kind
		}
		return sites[i].target < sites[j].target
	})
	// identical (function, kind, target) triples collapse
	var uniq []fwSite
	for _, s := range sites {
		if len(uniq) > 0 && uniq[len(uniq)-1].fn == s.fn && uniq[len(uniq)-1].kind == s.kind && uniq[len(uniq)-1].target == s.target {
			continue
		}
		uniq = append(uniq, s)
	}
	sort.Strings(scanned)
	sort.Strings(returnsInput)

	bl := func(b bool) string {
		if b {
			return "true"
		}
		return "false"
	}
	var b strings.Builder
	b.WriteString("(* Statements of extension.go, render.go, render_filter.go and node.go that write through a variable derived from a\n   template value without an intervening copy: (function, kind, target expression). See tools/gogen/gen_alias.go. *)\n")
	b.WriteString("Definition fw_suspicious : list (bytes * bytes * bytes) := [\n")
	for i, s := range uniq {
		sep := ";"
		if i == len(uniq)-1 {
			sep = ""
		}
		fmt.Fprintf(&b, "  (%s, %s, %s)%s\n", coqStr(s.fn), coqStr(s.kind), coqStr(s.target), sep)
	}
	b.WriteString("].\n\n(* source lines of the sites above, in the same order (information only) *)\n")
	b.WriteString("Definition fw_suspicious_lines : list nat := [")
	for i, s := range uniq {
		if i > 0 {
			b.WriteString("; ")
		}
		fmt.Fprintf(&b, "%d", s.line)
	}
	b.WriteString("].\n\n(* the functions that were scanned (they have a parameter carrying template values) *)\n")
	b.WriteString("Definition fw_scanned : list bytes := [\n")
	for i, s := range scanned {
		sep := ";"
		if i == len(scanned)-1 {
			sep = ""
		}
		fmt.Fprintf(&b, "  %s%s\n", coqStr(s), sep)
	}
	b.WriteString("].\n\n(* functions with a statement returning a derived identifier or a window of it *)\n")
	b.WriteString("Definition fw_returns_input : list bytes := [\n")
	for i, s := range returnsInput {
		sep := ";"
		if i == len(returnsInput)-1 {
			sep = ""
		}
		fmt.Fprintf(&b, "  %s%s\n", coqStr(s), sep)
	}
	b.WriteString("].\n\n")
	b.WriteString("(* filterSlice returns a sub-slice of its input for the generic slice type (a window of the array of the caller) *)\n")
	fmt.Fprintf(&b, "Definition fw_slice_window : bool := %s.\n", bl(sliceWindow))
	b.WriteString("(* NewRenderContext copies the map it is given entry by entry and never stores the map itself *)\n")
	fmt.Fprintf(&b, "Definition fw_newctx_copies : bool := %s.\n", bl(newctxCopies))
	b.WriteString("(* the map SetVariable assigns into *)\n")
	fmt.Fprintf(&b, "Definition fw_setvar_target : bytes := %s.\n", coqStr(setvarTarget))
	b.WriteString("(* Clone does not hand the variable map of the parent to the child *)\n")
	fmt.Fprintf(&b, "Definition fw_clone_fresh_map : bool := %s.\n", bl(cloneFresh))
	fmt.Fprintf(&b, "Definition fw_shape_ok : bool := %s.\n", bl(sliceSeen && len(scanned) > 0))

	tab := []map[string]interface{}{}
	for _, s := range uniq {
		tab = append(tab, map[string]interface{}{"fn": s.fn, "kind": s.kind, "target": s.target, "line": s.line})
	}
	g.tabs["filter_writes"] = map[string]interface{}{
		"suspicious": tab, "scanned": scanned, "returns_input": returnsInput, "slice_window": sliceWindow,
		"newctx_copies": newctxCopies, "setvar_target": setvarTarget, "clone_fresh_map": cloneFresh,
	}
	g.write("FilterWrites.v", b.String())
}
