// gen_attr.go: AttrConsts.v -- the constants and the size-accounting shape of the attribute cache
// in render.go (C20). Extracted syntactically:
//   - maxSize and evictionPct from the composite literal initialising `attributeCache`
//   - numToEvict = int(float64(maxSize) * evictionPct), evaluated here with Go's own float64 arithmetic
//   - whether evictLRUEntries clamps numToEvict to at least 1
//   - whether the eviction loop deletes from attributeCache.m and decrements currSize in the same iteration
//   - whether the miss path of getAttribute calls evictLRUEntries under `currSize >= maxSize`
//     and increments currSize after storing the new entry
//   - whether attributeCacheKey consists of a reflect.Type and the attribute name, and the key is
//     built from the element (struct) type `objType`
//   - whether getAttribute sends maps of any other type than map[string]interface{} to getItem before the
//     pointer indirection (`if origType.Kind() == reflect.Map { return ctx.getItem(obj, attr) }`); the model
//     follows this flag, so it mirrors the tree with and without that repair
//
// Every missing shape sets the corresponding flag to false (and attr_consts_shape_ok to false), which
// breaks Proofs/AttrCacheProofs.v (C20_cache_bounded and C20_cache_consts).
package main

import (
	"fmt"
	"go/ast"
	"go/token"
	"strconv"
	"strings"
)

func init() { generators = append(generators, genAttrConsts) }

// isSel reports whether e is the selector expression x.sel with x an identifier.
func isSel(e ast.Expr, x, sel string) bool {
	s, ok := e.(*ast.SelectorExpr)
	if !ok || s.Sel.Name != sel {
		return false
	}
	id, ok := s.X.(*ast.Ident)
	return ok && id.Name == x
}

func genAttrConsts(g *gen) {
	maxSize, haveMax := int64(0), false
	pct, pctLit, havePct := 0.0, "", false
	keyLits, keyGood := 0, 0
	minOne, evictDec, evictDel, insertInc, cmpGE, keyShape, keyElem, numShape, typedMaps := false, false, false, false, false, false, false, false, false

	// ---- var attributeCache = struct{...}{ m: ..., maxSize: N, evictionPct: P }
	for _, f := range g.files {
		for _, d := range f.Decls {
			gd, ok := d.(*ast.GenDecl)
			if !ok {
				continue
			}
			for _, sp := range gd.Specs {
				switch s := sp.(type) {
				case *ast.ValueSpec:
					if len(s.Names) != 1 || s.Names[0].Name != "attributeCache" || len(s.Values) != 1 {
						continue
					}
					cl, ok := s.Values[0].(*ast.CompositeLit)
					if !ok {
						continue
					}
					for _, e := range cl.Elts {
						kv, ok := e.(*ast.KeyValueExpr)
						if !ok {
							continue
						}
						k, ok := kv.Key.(*ast.Ident)
						if !ok {
							continue
						}
						lit, ok := kv.Value.(*ast.BasicLit)
						if !ok {
							continue
						}
						switch k.Name {
						case "maxSize":
							if lit.Kind == token.INT {
								if v, err := strconv.ParseInt(lit.Value, 0, 64); err == nil {
									maxSize, haveMax = v, true
								}
							}
						case "evictionPct":
							if lit.Kind == token.FLOAT || lit.Kind == token.INT {
								if v, err := strconv.ParseFloat(lit.Value, 64); err == nil {
									pct, pctLit, havePct = v, lit.Value, true
								}
							}
						}
					}
				case *ast.TypeSpec:
					if s.Name.Name != "attributeCacheKey" {
						continue
					}
					st, ok := s.Type.(*ast.StructType)
					if !ok {
						continue
					}
					hasType, hasAttr, n := false, false, 0
					for _, fl := range st.Fields.List {
						n += len(fl.Names)
						if isSel(fl.Type, "reflect", "Type") {
							hasType = true
						}
						if id, ok := fl.Type.(*ast.Ident); ok && id.Name == "string" {
							for _, nm := range fl.Names {
								if nm.Name == "attr" {
									hasAttr = true
								}
							}
						}
					}
					keyShape = hasType && hasAttr && n == 2
				}
			}
		}
	}
	if !haveMax {
		g.fail("AttrConsts: attributeCache literal has no integer maxSize")
	}
	if !havePct {
		g.fail("AttrConsts: attributeCache literal has no numeric evictionPct")
	}
	if !keyShape {
		g.fail("AttrConsts: attributeCacheKey is not {reflect.Type; attr string}")
	}

	// ---- evictLRUEntries
	if fd := g.funcDecl("", "evictLRUEntries"); fd == nil {
		g.fail("AttrConsts: evictLRUEntries not found")
	} else {
		ast.Inspect(fd.Body, func(n ast.Node) bool {
			switch s := n.(type) {
			case *ast.AssignStmt:
				// numToEvict := int(float64(attributeCache.maxSize) * attributeCache.evictionPct)
				if len(s.Lhs) == 1 && len(s.Rhs) == 1 && s.Tok == token.DEFINE {
					if id, ok := s.Lhs[0].(*ast.Ident); ok && id.Name == "numToEvict" {
						if c, ok := s.Rhs[0].(*ast.CallExpr); ok && len(c.Args) == 1 {
							if fn, ok := c.Fun.(*ast.Ident); ok && fn.Name == "int" {
								if b, ok := c.Args[0].(*ast.BinaryExpr); ok && b.Op == token.MUL {
									if fc, ok := b.X.(*ast.CallExpr); ok && len(fc.Args) == 1 && isSel(fc.Args[0], "attributeCache", "maxSize") && isSel(b.Y, "attributeCache", "evictionPct") {
										if ff, ok := fc.Fun.(*ast.Ident); ok && ff.Name == "float64" {
											numShape = true
										}
									}
								}
							}
						}
					}
				}
			case *ast.IfStmt:
				// if numToEvict < 1 { numToEvict = 1 }
				if b, ok := s.Cond.(*ast.BinaryExpr); ok && b.Op == token.LSS {
					if id, ok := b.X.(*ast.Ident); ok && id.Name == "numToEvict" {
						if l, ok := b.Y.(*ast.BasicLit); ok && l.Value == "1" && len(s.Body.List) == 1 {
							if as, ok := s.Body.List[0].(*ast.AssignStmt); ok && len(as.Rhs) == 1 {
								if r, ok := as.Rhs[0].(*ast.BasicLit); ok && r.Value == "1" {
									minOne = true
								}
							}
						}
					}
				}
			case *ast.ForStmt:
				// for i := 0; i < numToEvict && i < len(entries); i++ { delete(attributeCache.m, ...); attributeCache.currSize-- }
				cond, ok := s.Cond.(*ast.BinaryExpr)
				if !ok || cond.Op != token.LAND {
					return true
				}
				bound := false
				if l, ok := cond.X.(*ast.BinaryExpr); ok && l.Op == token.LSS {
					if id, ok := l.Y.(*ast.Ident); ok && id.Name == "numToEvict" {
						bound = true
					}
				}
				if !bound {
					return true
				}
				for _, st := range s.Body.List {
					switch x := st.(type) {
					case *ast.ExprStmt:
						if c, ok := x.X.(*ast.CallExpr); ok && len(c.Args) == 2 {
							if fn, ok := c.Fun.(*ast.Ident); ok && fn.Name == "delete" && isSel(c.Args[0], "attributeCache", "m") {
								evictDel = true
							}
						}
					case *ast.IncDecStmt:
						if x.Tok == token.DEC && isSel(x.X, "attributeCache", "currSize") {
							evictDec = true
						}
					}
				}
			}
			return true
		})
	}
	if !numShape {
		g.fail("AttrConsts: numToEvict := int(float64(maxSize) * evictionPct) not found in evictLRUEntries")
	}

	// ---- getAttribute: `if currSize >= maxSize { evictLRUEntries() }`, `m[key] = entry; currSize++`, key{typ: objType, attr: attr}
	if fd := g.funcDecl("RenderContext", "getAttribute"); fd == nil {
		g.fail("AttrConsts: RenderContext.getAttribute not found")
	} else {
		ast.Inspect(fd.Body, func(n ast.Node) bool {
			switch s := n.(type) {
			case *ast.IfStmt:
				b, ok := s.Cond.(*ast.BinaryExpr)
				if ok && b.Op == token.EQL && isSel(b.Y, "reflect", "Map") && s.Init == nil && s.Else == nil && len(s.Body.List) == 1 {
					// if origType.Kind() == reflect.Map { return ctx.getItem(obj, attr) }
					if kc, ok := b.X.(*ast.CallExpr); ok && len(kc.Args) == 0 && isSel(kc.Fun, "origType", "Kind") {
						if rs, ok := s.Body.List[0].(*ast.ReturnStmt); ok && len(rs.Results) == 1 {
							if gc, ok := rs.Results[0].(*ast.CallExpr); ok && len(gc.Args) == 2 && isSel(gc.Fun, "ctx", "getItem") {
								o, _ := gc.Args[0].(*ast.Ident)
								a, _ := gc.Args[1].(*ast.Ident)
								if o != nil && a != nil && o.Name == "obj" && a.Name == "attr" {
									typedMaps = true
								}
							}
						}
					}
				}
				if !ok || !isSel(b.X, "attributeCache", "currSize") || !isSel(b.Y, "attributeCache", "maxSize") {
					return true
				}
				calls := false
				for _, st := range s.Body.List {
					if e, ok := st.(*ast.ExprStmt); ok {
						if c, ok := e.X.(*ast.CallExpr); ok {
							if fn, ok := c.Fun.(*ast.Ident); ok && fn.Name == "evictLRUEntries" {
								calls = true
							}
						}
					}
				}
				if calls && b.Op == token.GEQ {
					cmpGE = true
				}
			case *ast.BlockStmt:
				// the store of the freshly computed entry is immediately followed by currSize++
				for i := 0; i+1 < len(s.List); i++ {
					as, ok := s.List[i].(*ast.AssignStmt)
					if !ok || len(as.Lhs) != 1 || len(as.Rhs) != 1 {
						continue
					}
					ix, ok := as.Lhs[0].(*ast.IndexExpr)
					if !ok || !isSel(ix.X, "attributeCache", "m") {
						continue
					}
					if r, ok := as.Rhs[0].(*ast.Ident); !ok || r.Name != "entry" {
						continue
					}
					if inc, ok := s.List[i+1].(*ast.IncDecStmt); ok && inc.Tok == token.INC && isSel(inc.X, "attributeCache", "currSize") {
						insertInc = true
					}
				}
			case *ast.CompositeLit:
				if id, ok := s.Type.(*ast.Ident); ok && id.Name == "attributeCacheKey" {
					t, a := false, false
					for _, e := range s.Elts {
						if kv, ok := e.(*ast.KeyValueExpr); ok {
							k, _ := kv.Key.(*ast.Ident)
							v, _ := kv.Value.(*ast.Ident)
							if k != nil && v != nil && k.Name == "typ" && v.Name == "objType" {
								t = true
							}
							if k != nil && v != nil && k.Name == "attr" && v.Name == "attr" {
								a = true
							}
						}
					}
					// every key literal must have this shape (a second literal built from another type would
					// store and look up under different keys)
					keyLits++
					if t && a {
						keyGood++
					}
				}
			}
			return true
		})
	}
	keyElem = keyLits > 0 && keyLits == keyGood
	if !keyElem {
		g.fail("AttrConsts: cache key is not attributeCacheKey{typ: objType, attr: attr}")
	}

	// numToEvict exactly as the Go code computes it (float64 product, truncation)
	raw := int64(float64(maxSize) * pct)
	shape := haveMax && havePct && numShape
	bl := func(b bool) string {
		if b {
			return "true"
		}
		return "false"
	}
	var b strings.Builder
	b.WriteString("(* Attribute-cache constants and size-accounting shape of render.go (attributeCache, evictLRUEntries, getAttribute). *)\n")
	fmt.Fprintf(&b, "Definition attr_max_size : Z := (%d)%%Z.\n", maxSize)
	fmt.Fprintf(&b, "Definition attr_evict_pct_text : bytes := %s.\n", coqStr(pctLit))
	b.WriteString("(* int(float64(maxSize) * evictionPct), evaluated by the translator with Go float64 arithmetic *)\n")
	fmt.Fprintf(&b, "Definition attr_num_to_evict_raw : Z := (%d)%%Z.\n", raw)
	fmt.Fprintf(&b, "Definition attr_evict_min_one : bool := %s.\n", bl(minOne))
	fmt.Fprintf(&b, "Definition attr_evict_deletes : bool := %s.\n", bl(evictDel))
	fmt.Fprintf(&b, "Definition attr_evict_decrements_size : bool := %s.\n", bl(evictDec))
	fmt.Fprintf(&b, "Definition attr_evict_when_size_ge_max : bool := %s.\n", bl(cmpGE))
	fmt.Fprintf(&b, "Definition attr_insert_increments_size : bool := %s.\n", bl(insertInc))
	fmt.Fprintf(&b, "Definition attr_key_is_type_and_name : bool := %s.\n", bl(keyShape && keyElem))
	fmt.Fprintf(&b, "Definition attr_consts_shape_ok : bool := %s.\n", bl(shape))
	b.WriteString("(* getAttribute hands maps of every other type than the generic one to getItem *)\n")
	fmt.Fprintf(&b, "Definition attr_typed_maps_by_key : bool := %s.\n", bl(typedMaps))
	g.tabs["attr_cache"] = map[string]interface{}{
		"max_size": maxSize, "eviction_pct": pctLit, "num_to_evict_raw": raw, "evict_min_one": minOne,
		"evict_deletes": evictDel, "evict_decrements_size": evictDec, "evict_when_size_ge_max": cmpGE,
		"insert_increments_size": insertInc, "key_is_type_and_name": keyShape && keyElem, "shape_ok": shape, "typed_maps_by_key": typedMaps,
	}
	g.write("AttrConsts.v", b.String())
}
