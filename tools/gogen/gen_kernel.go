// gen_kernel.go: Kernels.v -- arithmetic kernels of the Go code translated into Gallina, statement by statement.
//
// Unlike the other generators (which extract tables and recognise shapes) this one is a translator for a small
// subset of Go: integer (int, uint64) and boolean local variables, assignments (=, :=, op=, ++, --), var
// declarations, if / else if / else with early returns, and expressions built from + - * / % unary minus,
// comparisons, && || !, the conversions uint64(x) / int(x), integer literals and package-level integer constants.
// Everything else in a translated block must be claimed by the target's hooks (e.g. `runes := []rune(v)` is skipped,
// `len(runes)` is the parameter n, `return string(runes[start:end]), nil` is the result slice [start, end)); a
// statement or expression nobody claims makes the translation fail, and the kernel is then emitted as
// `KRet untranslatable` with k_<name>_ok := false, which breaks the theorems of Proofs/KernelProofs.v.
//
// For every kernel two definitions are written:
//
//	k_<name>       the value the block computes, in unbounded Z (uint64 arithmetic is reduced mod 2^64 as Go does);
//	k_<name>_safe  a boolean with the same control structure: every signed arithmetic result on the executed path
//	               lies in the int64 range, every divisor is non-zero, every int(u) conversion keeps its value.
//
// Proofs/KernelProofs.v proves k_<name> equal to the hand-written model function the property theorems are about,
// and k_<name>_safe = true for all int64 inputs, so that the unbounded reading is the machine's.
package main

import (
	"bytes"
	"fmt"
	"go/ast"
	"go/printer"
	"go/token"
	"sort"
	"strconv"
	"strings"
)

func init() { generators = append(generators, genKernels) }

type kty int

const (
	kInt kty = iota
	kU64
	kBool
)

// ---- expression IR ----
type kx struct {
	op   string // var int bool add sub mul quo rem neg lt le gt ge eq ne and or not u64of intof
	ty   kty
	name string
	a, b *kx
}

func kvar(n string, t kty) *kx { return &kx{op: "var", ty: t, name: n} }
func klit(v string) *kx        { return &kx{op: "int", ty: kInt, name: v} }

func (e *kx) val() string {
	switch e.op {
	case "var":
		return "g_" + e.name
	case "int":
		if strings.HasPrefix(e.name, "-") {
			return "(" + e.name + ")"
		}
		return e.name
	case "bool":
		return e.name
	case "add", "sub", "mul":
		sym := map[string]string{"add": "+", "sub": "-", "mul": "*"}[e.op]
		s := "(" + e.a.val() + " " + sym + " " + e.b.val() + ")"
		if e.ty == kU64 {
			return "(u64 " + s + ")"
		}
		return s
	case "quo":
		if e.ty == kU64 {
			return "(" + e.a.val() + " / " + e.b.val() + ")"
		}
		return "(Z.quot " + e.a.val() + " " + e.b.val() + ")"
	case "rem":
		if e.ty == kU64 {
			return "(" + e.a.val() + " mod " + e.b.val() + ")"
		}
		return "(Z.rem " + e.a.val() + " " + e.b.val() + ")"
	case "neg":
		if e.ty == kU64 {
			return "(u64 (- " + e.a.val() + "))"
		}
		return "(- " + e.a.val() + ")"
	case "lt", "le", "gt", "ge":
		sym := map[string]string{"lt": "<?", "le": "<=?", "gt": ">?", "ge": ">=?"}[e.op]
		return "(" + e.a.val() + " " + sym + " " + e.b.val() + ")"
	case "eq", "ne":
		s := "(" + e.a.val() + " =? " + e.b.val() + ")"
		if e.a.ty == kBool {
			s = "(Bool.eqb " + e.a.val() + " " + e.b.val() + ")"
		}
		if e.op == "ne" {
			return "(negb " + s + ")"
		}
		return s
	case "and":
		return "(" + e.a.val() + " && " + e.b.val() + ")"
	case "or":
		return "(" + e.a.val() + " || " + e.b.val() + ")"
	case "not":
		return "(negb " + e.a.val() + ")"
	case "u64of":
		return "(u64 " + e.a.val() + ")"
	case "intof":
		return "(i64of " + e.a.val() + ")"
	}
	return "UNTRANSLATED"
}

// chk: the checks of the evaluation of e, in evaluation order -- exactly the list Base/Kernel.v's kchk computes
func (e *kx) chk() []string {
	if e == nil {
		return nil
	}
	switch e.op {
	case "var", "int", "bool":
		return nil
	case "and":
		return append(e.a.chk(), "(if "+e.a.val()+" then "+conj(e.b.chk())+" else true)")
	case "or":
		return append(e.a.chk(), "(if "+e.a.val()+" then true else "+conj(e.b.chk())+")")
	}
	c := append(e.a.chk(), e.b.chk()...)
	switch e.op {
	case "add", "sub", "mul", "neg":
		if e.ty == kInt {
			c = append(c, "in64 "+e.val())
		}
	case "quo", "rem":
		c = append(c, "negb ("+e.b.val()+" =? 0)")
		if e.ty == kInt && e.op == "quo" {
			c = append(c, "in64 "+e.val())
		}
	case "intof":
		c = append(c, "("+e.a.val()+" <? 2^63)")
	case "assert":
		c = append(c, e.a.val())
	}
	return c
}

func conj(cs []string) string {
	return "kall [" + strings.Join(cs, "; ") + "]"
}

func chkAll(es []*kx) string {
	var c []string
	for _, x := range es {
		c = append(c, x.chk()...)
	}
	return conj(c)
}

// ir: the expression as a term of kexp
func (e *kx) ir() string {
	switch e.op {
	case "var":
		return "(XVar " + coqStr(e.name) + ")"
	case "int":
		return "(XInt " + e.val() + ")"
	case "bool":
		return "(XBool " + e.name + ")"
	case "not":
		return "(XUn NNot " + e.a.ir() + ")"
	case "u64of":
		return "(XUn NU64 " + e.a.ir() + ")"
	case "intof":
		return "(XUn NInt " + e.a.ir() + ")"
	case "assert":
		return "(XUn NAssert " + e.a.ir() + ")"
	case "neg":
		if e.ty == kU64 {
			return "(XUn NUNeg " + e.a.ir() + ")"
		}
		return "(XUn NNeg " + e.a.ir() + ")"
	}
	op := map[string]string{"add": "OAdd", "sub": "OSub", "mul": "OMul", "quo": "OQuo", "rem": "ORem", "lt": "OLt", "le": "OLe", "gt": "OGt", "ge": "OGe",
		"eq": "OEq", "ne": "ONe", "and": "OAnd", "or": "OOr"}[e.op]
	if e.ty == kU64 && len(op) == 4 && op != "OAnd" {
		op = "OU" + op[1:]
	}
	if (e.op == "eq" || e.op == "ne") && e.a.ty == kBool {
		op = map[string]string{"eq": "OBeq", "ne": "OBne"}[e.op]
	}
	return "(XBin " + op + " " + e.a.ir() + " " + e.b.ir() + ")"
}

func irList(es []*kx) string {
	p := make([]string, len(es))
	for i, x := range es {
		p[i] = x.ir()
	}
	return "[" + strings.Join(p, "; ") + "]"
}

// ---- statement IR ----
type ks struct {
	kind string // let chk if join tuple ret fail
	name string
	e    *kx
	body *ks
	c    *kx
	t, f *ks
	vars []string
	vtys []kty
	tag  string
	args []*kx
	chks []*kx // further expressions evaluated here (arguments of skipped calls): safety only
}

func ind(n int) string { return strings.Repeat("  ", n) }

// val: the value as plain Gallina; leaf: inside a branch of a join, the variable whose final value is asked for
func (s *ks) val(d int, leaf string) string {
	switch s.kind {
	case "let":
		return ind(d) + "let g_" + s.name + " := " + s.e.val() + " in\n" + s.body.val(d, leaf)
	case "chk":
		return s.body.val(d, leaf)
	case "if":
		return ind(d) + "if " + s.c.val() + " then\n" + s.t.val(d+1, leaf) + "\n" + ind(d) + "else\n" + s.f.val(d+1, leaf)
	case "join":
		return s.joinLets(d) + s.body.val(d, leaf)
	case "tuple":
		return ind(d) + "g_" + leaf
	case "ret":
		a := make([]string, len(s.args))
		for i, x := range s.args {
			if x.ty == kBool {
				a[i] = "KB " + x.val()
			} else {
				a[i] = "KZ " + x.val()
			}
		}
		return ind(d) + "KRet " + coqStr(s.tag) + " [" + strings.Join(a, "; ") + "]"
	}
	return ind(d) + "KRet " + coqStr("untranslatable") + " []"
}

// the new values of the variables a join assigns: all computed from the old values, then bound
func (s *ks) joinLets(d int) string {
	var b strings.Builder
	one := len(s.vars) == 1
	for _, v := range s.vars {
		n := "j_" + v
		if one {
			n = "g_" + v
		}
		b.WriteString(ind(d) + "let " + n + " :=\n" + ind(d+1) + "(if " + s.c.val() + " then\n" + s.t.val(d+2, v) + "\n" + ind(d+1) + " else\n" + s.f.val(d+2, v) + ") in\n")
	}
	if !one {
		for _, v := range s.vars {
			b.WriteString(ind(d) + "let g_" + v + " := j_" + v + " in\n")
		}
	}
	return b.String()
}

// safe: the same shape as Base/Kernel.v's ksafe / kblk_safe compute
func (s *ks) safe(d int) string {
	switch s.kind {
	case "let":
		return ind(d) + conj(s.e.chk()) + " &&\n" + ind(d) + "(let g_" + s.name + " := " + s.e.val() + " in\n" + s.body.safe(d) + ")"
	case "chk":
		return ind(d) + chkAll(s.chks) + " &&\n" + ind(d) + "(\n" + s.body.safe(d) + ")"
	case "if":
		return ind(d) + conj(s.c.chk()) + " &&\n" + ind(d) + "(if " + s.c.val() + " then\n" + s.t.safe(d+1) + "\n" + ind(d) + " else\n" + s.f.safe(d+1) + ")"
	case "join":
		return ind(d) + conj(s.c.chk()) + " &&\n" + ind(d) + "(if " + s.c.val() + " then\n" + s.t.safe(d+1) + "\n" + ind(d) + " else\n" + s.f.safe(d+1) + ") &&\n" +
			ind(d) + "(\n" + s.joinLets(d) + s.body.safe(d) + ")"
	case "tuple":
		return ind(d) + "true"
	case "ret":
		return ind(d) + chkAll(s.args)
	}
	return ind(d) + "false"
}

// ir: the statement as a term of kstm (blk: of kblk, inside the branches of a join)
func (s *ks) ir(d int, blk bool) string {
	L, C, J := "SLet", "SChk", "SJoin"
	if blk {
		L, C, J = "BLet", "BChk", "BJoin"
	}
	switch s.kind {
	case "let":
		return ind(d) + L + " " + coqStr(s.name) + " " + s.e.ir() + "\n" + ind(d) + "(\n" + s.body.ir(d, blk) + ")"
	case "chk":
		return ind(d) + C + " " + irList(s.chks) + "\n" + ind(d) + "(\n" + s.body.ir(d, blk) + ")"
	case "if":
		if blk {
			return ind(d) + "BNil (* a branching statement with a return inside a join: not expressible *)"
		}
		return ind(d) + "SIf " + s.c.ir() + "\n" + ind(d) + "(\n" + s.t.ir(d+1, false) + ")\n" + ind(d) + "(\n" + s.f.ir(d+1, false) + ")"
	case "join":
		xs := make([]string, len(s.vars))
		for i, v := range s.vars {
			xs[i] = "(" + coqStr(v) + ", " + fmt.Sprint(s.vtys[i] == kBool) + ")"
		}
		return ind(d) + J + " [" + strings.Join(xs, "; ") + "] " + s.c.ir() + "\n" + ind(d) + "(\n" + s.t.ir(d+1, true) + ")\n" + ind(d) + "(\n" + s.f.ir(d+1, true) + ")\n" + ind(d) + "(\n" + s.body.ir(d, blk) + ")"
	case "tuple":
		return ind(d) + "BNil"
	case "ret":
		return ind(d) + "SRet " + coqStr(s.tag) + " " + irList(s.args)
	}
	return ind(d) + "SRet " + coqStr("untranslatable") + " []"
}

// ---- the translator ----
type kscope map[string]kty

func (s kscope) copy() kscope {
	n := kscope{}
	for k, v := range s {
		n[k] = v
	}
	return n
}

type ktarget struct {
	name   string
	params []string // in order; types in ptypes
	ptypes map[string]kty
	opaque map[string]string // printed Go expression -> parameter
	// onStmt claims a statement the translator does not understand: skip it (possibly checking some argument expressions)
	// and possibly bind observation variables (evaluated at this point)
	onStmt func(tr *ktr, s ast.Stmt, sc kscope) (claimed bool, chks []*kx, binds []kbind)
	// onReturn turns a return statement into a result
	onReturn func(tr *ktr, r *ast.ReturnStmt, sc kscope) *ks
	// assumeFalse: conditions of error paths that are outside the kernel (printed Go expression)
	assumeFalse func(cond string) bool
	// atEnd: the result when the statement list ends without a return
	atEnd func(tr *ktr, sc kscope) *ks
}

type kbind struct {
	name string
	e    *kx
}

type ktr struct {
	g      *gen
	tgt    *ktarget
	consts map[string]string
	errs   []string
	// an observed sub-slice / copy loop [lo, hi): variables bound when it was seen
	pend   bool
	fields map[string]*kx
}

func (tr *ktr) fail(format string, a ...interface{}) *ks {
	tr.errs = append(tr.errs, fmt.Sprintf(format, a...))
	return &ks{kind: "fail"}
}

func (tr *ktr) src(n ast.Node) string {
	var b bytes.Buffer
	printer.Fprint(&b, tr.g.fset, n)
	return b.String()
}

func goType(e ast.Expr) (kty, bool) {
	id, ok := e.(*ast.Ident)
	if !ok {
		return 0, false
	}
	switch id.Name {
	case "int", "int64":
		return kInt, true
	case "uint64":
		return kU64, true
	case "bool":
		return kBool, true
	}
	return 0, false
}

func (tr *ktr) expr(e ast.Expr, sc kscope) (*kx, bool) {
	if p, ok := tr.tgt.opaque[tr.src(e)]; ok {
		if t, ok := sc[p]; ok {
			return kvar(p, t), true
		}
	}
	switch x := e.(type) {
	case *ast.ParenExpr:
		return tr.expr(x.X, sc)
	case *ast.Ident:
		if x.Name == "true" || x.Name == "false" {
			return &kx{op: "bool", ty: kBool, name: x.Name}, true
		}
		if t, ok := sc[x.Name]; ok {
			return kvar(x.Name, t), true
		}
		if v, ok := tr.consts[x.Name]; ok {
			return klit(v), true
		}
	case *ast.BasicLit:
		if x.Kind == token.INT {
			if v, err := strconv.ParseInt(x.Value, 0, 64); err == nil {
				return klit(strconv.FormatInt(v, 10)), true
			}
		}
	case *ast.UnaryExpr:
		a, ok := tr.expr(x.X, sc)
		if !ok {
			return nil, false
		}
		switch x.Op {
		case token.SUB:
			if a.ty != kBool {
				if a.op == "int" && a.ty == kInt {
					return klit("-" + a.name), true
				}
				return &kx{op: "neg", ty: a.ty, a: a}, true
			}
		case token.ADD:
			if a.ty != kBool {
				return a, true
			}
		case token.NOT:
			if a.ty == kBool {
				return &kx{op: "not", ty: kBool, a: a}, true
			}
		}
	case *ast.BinaryExpr:
		a, ok1 := tr.expr(x.X, sc)
		b, ok2 := tr.expr(x.Y, sc)
		if !ok1 || !ok2 {
			return nil, false
		}
		// an untyped integer literal takes the type of the other operand
		if a.op == "int" && b.ty == kU64 {
			a = &kx{op: "int", ty: kU64, name: a.name}
		}
		if b.op == "int" && a.ty == kU64 {
			b = &kx{op: "int", ty: kU64, name: b.name}
		}
		ar := map[token.Token]string{token.ADD: "add", token.SUB: "sub", token.MUL: "mul", token.QUO: "quo", token.REM: "rem"}
		cm := map[token.Token]string{token.LSS: "lt", token.LEQ: "le", token.GTR: "gt", token.GEQ: "ge", token.EQL: "eq", token.NEQ: "ne"}
		if op, ok := ar[x.Op]; ok && a.ty == b.ty && a.ty != kBool {
			return &kx{op: op, ty: a.ty, a: a, b: b}, true
		}
		if op, ok := cm[x.Op]; ok && a.ty == b.ty {
			if a.ty == kBool && op != "eq" && op != "ne" {
				return nil, false
			}
			return &kx{op: op, ty: kBool, a: a, b: b}, true
		}
		if x.Op == token.LAND && a.ty == kBool && b.ty == kBool {
			return &kx{op: "and", ty: kBool, a: a, b: b}, true
		}
		if x.Op == token.LOR && a.ty == kBool && b.ty == kBool {
			return &kx{op: "or", ty: kBool, a: a, b: b}, true
		}
	case *ast.CallExpr:
		if id, ok := x.Fun.(*ast.Ident); ok && len(x.Args) == 1 {
			a, ok := tr.expr(x.Args[0], sc)
			if !ok {
				return nil, false
			}
			switch id.Name {
			case "uint64":
				if a.ty == kInt {
					if a.op == "int" && !strings.HasPrefix(a.name, "-") {
						return &kx{op: "int", ty: kU64, name: a.name}, true
					}
					return &kx{op: "u64of", ty: kU64, a: a}, true
				}
				if a.ty == kU64 {
					return a, true
				}
			case "int", "int64":
				if a.ty == kU64 {
					return &kx{op: "intof", ty: kInt, a: a}, true
				}
				if a.ty == kInt {
					return a, true
				}
			}
		}
	}
	return nil, false
}

func hasReturn(n ast.Node) bool {
	found := false
	ast.Inspect(n, func(m ast.Node) bool {
		if _, ok := m.(*ast.ReturnStmt); ok {
			found = true
		}
		if _, ok := m.(*ast.FuncLit); ok {
			return false
		}
		return !found
	})
	return found
}

// pureBranch: only assignments to identifiers, inc/dec, var declarations and nested pure ifs
func pureBranch(list []ast.Stmt) bool {
	for _, s := range list {
		switch x := s.(type) {
		case *ast.AssignStmt:
			for _, l := range x.Lhs {
				if _, ok := l.(*ast.Ident); !ok {
					return false
				}
			}
		case *ast.IncDecStmt:
			if _, ok := x.X.(*ast.Ident); !ok {
				return false
			}
		case *ast.DeclStmt, *ast.EmptyStmt:
		case *ast.BlockStmt:
			if !pureBranch(x.List) {
				return false
			}
		case *ast.IfStmt:
			if x.Init != nil || !pureBranch(x.Body.List) {
				return false
			}
			if x.Else != nil && !pureBranch([]ast.Stmt{x.Else}) {
				return false
			}
		default:
			return false
		}
	}
	return true
}

// assignedOuter: variables of sc assigned (not declared) in the statements
func assignedOuter(list []ast.Stmt, sc kscope, out map[string]bool) {
	local := map[string]bool{}
	for _, s := range list {
		switch x := s.(type) {
		case *ast.AssignStmt:
			for _, l := range x.Lhs {
				id, ok := l.(*ast.Ident)
				if !ok {
					continue
				}
				if x.Tok == token.DEFINE {
					local[id.Name] = true
				} else if _, ok := sc[id.Name]; ok && !local[id.Name] {
					out[id.Name] = true
				}
			}
		case *ast.IncDecStmt:
			if id, ok := x.X.(*ast.Ident); ok {
				if _, ok := sc[id.Name]; ok && !local[id.Name] {
					out[id.Name] = true
				}
			}
		case *ast.BlockStmt:
			assignedOuter(x.List, sc, out)
		case *ast.IfStmt:
			assignedOuter(x.Body.List, sc, out)
			if x.Else != nil {
				assignedOuter([]ast.Stmt{x.Else}, sc, out)
			}
		}
	}
}

func elseList(e ast.Stmt) []ast.Stmt {
	switch x := e.(type) {
	case nil:
		return nil
	case *ast.BlockStmt:
		return x.List
	default:
		return []ast.Stmt{x}
	}
}

func (tr *ktr) assign(name string, rhs *kx, sc kscope, define bool, rest func(kscope) *ks) *ks {
	if t, ok := sc[name]; ok && !define && t != rhs.ty {
		return tr.fail("assignment changes the type of %s", name)
	}
	sc[name] = rhs.ty
	return &ks{kind: "let", name: name, e: rhs, body: rest(sc)}
}

func (tr *ktr) stmts(list []ast.Stmt, sc kscope, k func(kscope) *ks) *ks {
	if len(list) == 0 {
		return k(sc)
	}
	s, rest := list[0], list[1:]
	cont := func(sc kscope) *ks { return tr.stmts(rest, sc, k) }
	switch x := s.(type) {
	case *ast.EmptyStmt:
		return cont(sc)
	case *ast.BlockStmt:
		return tr.stmts(append(append([]ast.Stmt{}, x.List...), rest...), sc, k)
	case *ast.DeclStmt:
		gd, ok := x.Decl.(*ast.GenDecl)
		if !ok || gd.Tok != token.VAR {
			break
		}
		type nv struct {
			n string
			e *kx
		}
		var lets []nv
		okAll := true
		for _, sp := range gd.Specs {
			vs := sp.(*ast.ValueSpec)
			t, isNum := goType(vs.Type)
			for i, n := range vs.Names {
				if len(vs.Values) > i {
					e, ok := tr.expr(vs.Values[i], sc)
					if !ok {
						okAll = false
						continue
					}
					lets = append(lets, nv{n.Name, e})
				} else if isNum {
					z := &kx{op: "int", ty: t, name: "0"}
					if t == kBool {
						z = &kx{op: "bool", ty: kBool, name: "false"}
					}
					lets = append(lets, nv{n.Name, z})
				} // a variable of another type (error, interface) is not part of the kernel
			}
		}
		if !okAll {
			break
		}
		var build func(i int, sc kscope) *ks
		build = func(i int, sc kscope) *ks {
			if i == len(lets) {
				return cont(sc)
			}
			return tr.assign(lets[i].n, lets[i].e, sc, true, func(sc kscope) *ks { return build(i+1, sc) })
		}
		return build(0, sc)
	case *ast.IncDecStmt:
		id, ok := x.X.(*ast.Ident)
		if !ok {
			break
		}
		t, ok := sc[id.Name]
		if !ok || t == kBool {
			break
		}
		op := "add"
		if x.Tok == token.DEC {
			op = "sub"
		}
		return tr.assign(id.Name, &kx{op: op, ty: t, a: kvar(id.Name, t), b: &kx{op: "int", ty: t, name: "1"}}, sc, false, cont)
	case *ast.AssignStmt:
		if len(x.Lhs) != len(x.Rhs) {
			break
		}
		opAssign := map[token.Token]string{token.ADD_ASSIGN: "add", token.SUB_ASSIGN: "sub", token.MUL_ASSIGN: "mul", token.QUO_ASSIGN: "quo", token.REM_ASSIGN: "rem"}
		// m["key"] = e : a field of the observed record
		if len(x.Lhs) == 1 && x.Tok == token.ASSIGN {
			if ix, ok := x.Lhs[0].(*ast.IndexExpr); ok {
				if lit, ok := ix.Index.(*ast.BasicLit); ok && lit.Kind == token.STRING && tr.fields != nil {
					e, ok := tr.expr(x.Rhs[0], sc)
					if ok {
						key, _ := strconv.Unquote(lit.Value)
						tmp := "fld_" + key
						tr.fields[key] = kvar(tmp, e.ty)
						return tr.assign(tmp, e, sc, true, cont)
					}
				}
			}
		}
		names := make([]string, len(x.Lhs))
		vals := make([]*kx, len(x.Lhs))
		good := true
		for i := range x.Lhs {
			id, ok := x.Lhs[i].(*ast.Ident)
			if !ok {
				good = false
				break
			}
			names[i] = id.Name
			e, ok := tr.expr(x.Rhs[i], sc)
			if !ok {
				good = false
				break
			}
			if op, isOp := opAssign[x.Tok]; isOp {
				t, ok := sc[id.Name]
				if !ok || t != e.ty {
					good = false
					break
				}
				e = &kx{op: op, ty: t, a: kvar(id.Name, t), b: e}
			} else if x.Tok != token.ASSIGN && x.Tok != token.DEFINE {
				good = false
				break
			}
			vals[i] = e
		}
		if good {
			if len(names) == 1 {
				if names[0] == "_" {
					return cont(sc)
				}
				return tr.assign(names[0], vals[0], sc, x.Tok == token.DEFINE, cont)
			}
			// simultaneous assignment: all right-hand sides first
			var build func(i int, sc kscope) *ks
			build = func(i int, sc kscope) *ks {
				if i == len(names) {
					var fin func(j int, sc kscope) *ks
					fin = func(j int, sc kscope) *ks {
						if j == len(names) {
							return cont(sc)
						}
						return tr.assign(names[j], kvar("tmp_"+names[j], vals[j].ty), sc, x.Tok == token.DEFINE, func(sc kscope) *ks { return fin(j+1, sc) })
					}
					return fin(0, sc)
				}
				return tr.assign("tmp_"+names[i], vals[i], sc, true, func(sc kscope) *ks { return build(i+1, sc) })
			}
			return build(0, sc)
		}
	case *ast.IfStmt:
		if x.Init != nil {
			y := *x
			y.Init = nil
			return tr.stmts(append([]ast.Stmt{x.Init, &y}, rest...), sc, k)
		}
		if tr.tgt.assumeFalse != nil && tr.tgt.assumeFalse(tr.src(x.Cond)) {
			return tr.stmts(append(elseList(x.Else), rest...), sc, k)
		}
		c, ok := tr.expr(x.Cond, sc)
		if !ok || c.ty != kBool {
			break
		}
		thenL, elseL := x.Body.List, elseList(x.Else)
		if pureBranch(thenL) && pureBranch(elseL) && !hasReturn(x) {
			set := map[string]bool{}
			assignedOuter(thenL, sc, set)
			assignedOuter(elseL, sc, set)
			if len(set) == 0 {
				return cont(sc)
			}
			var vars []string
			for v := range set {
				vars = append(vars, v)
			}
			sort.Strings(vars)
			vtys := make([]kty, len(vars))
			for i, v := range vars {
				vtys[i] = sc[v]
			}
			tup := func(kscope) *ks { return &ks{kind: "tuple", vars: vars} }
			return &ks{kind: "join", vars: vars, vtys: vtys, c: c, t: tr.stmts(thenL, sc.copy(), tup), f: tr.stmts(elseL, sc.copy(), tup), body: cont(sc)}
		}
		return &ks{kind: "if", c: c, t: tr.stmts(thenL, sc.copy(), cont), f: tr.stmts(elseL, sc.copy(), cont)}
	case *ast.ReturnStmt:
		if tr.tgt.onReturn != nil {
			if r := tr.tgt.onReturn(tr, x, sc); r != nil {
				return r
			}
		}
		return tr.fail("return not understood: %s", tr.src(x))
	}
	if tr.tgt.onStmt != nil {
		if claimed, chks, binds := tr.tgt.onStmt(tr, s, sc); claimed {
			var build func(i int, sc kscope) *ks
			build = func(i int, sc kscope) *ks {
				if i == len(binds) {
					return cont(sc)
				}
				return tr.assign(binds[i].name, binds[i].e, sc, true, func(sc kscope) *ks { return build(i+1, sc) })
			}
			if len(chks) > 0 {
				return &ks{kind: "chk", chks: chks, body: build(0, sc)}
			}
			return build(0, sc)
		}
	}
	return tr.fail("statement not understood: %s", strings.SplitN(tr.src(s), "\n", 2)[0])
}

// ---- package-level integer constants ----
func (g *gen) intConsts() map[string]string {
	res := map[string]string{}
	for _, f := range g.files {
		for _, d := range f.Decls {
			gd, ok := d.(*ast.GenDecl)
			if !ok || gd.Tok != token.CONST {
				continue
			}
			for _, sp := range gd.Specs {
				vs := sp.(*ast.ValueSpec)
				for i, n := range vs.Names {
					if i < len(vs.Values) {
						if lit, ok := vs.Values[i].(*ast.BasicLit); ok && lit.Kind == token.INT {
							if v, err := strconv.ParseInt(lit.Value, 0, 64); err == nil {
								res[n.Name] = strconv.FormatInt(v, 10)
							}
						}
					}
				}
			}
		}
	}
	return res
}

type kernelOut struct {
	name   string
	params []string
	ptypes map[string]kty
	body   *ks
	errs   []string
	where  string
}

func (k *kernelOut) coq() string {
	var b strings.Builder
	ps, env, app := "", "", ""
	for i, p := range k.params {
		t, c := "Z", "KZ"
		if k.ptypes[p] == kBool {
			t, c = "bool", "KB"
		}
		ps += " (g_" + p + " : " + t + ")"
		app += " g_" + p
		if i > 0 {
			env += "; "
		}
		env += "(" + coqStr(p) + ", " + c + " g_" + p + ")"
	}
	ok := len(k.errs) == 0
	fmt.Fprintf(&b, "(* %s *)\n", k.where)
	for _, e := range k.errs {
		fmt.Fprintf(&b, "(* NOT TRANSLATED: %s *)\n", strings.ReplaceAll(strings.ReplaceAll(e, "*)", "* )"), "\"", "'"))
	}
	if !ok {
		k.body = &ks{kind: "fail"}
	}
	n := k.name
	fmt.Fprintf(&b, "Definition k_%s_ir : kstm :=\n%s.\n", n, k.body.ir(1, false))
	fmt.Fprintf(&b, "Definition k_%s_env%s : kenv := [%s].\n", n, ps, env)
	fmt.Fprintf(&b, "Definition k_%s%s : kres :=\n%s.\n", n, ps, k.body.val(1, ""))
	if ok {
		fmt.Fprintf(&b, "Definition k_%s_safe%s : bool :=\n%s.\n", n, ps, k.body.safe(1))
	} else {
		fmt.Fprintf(&b, "Definition k_%s_safe%s : bool := false.\n", n, ps)
	}
	// the plain definitions are the term run in unbounded integers, and its checks: by computation
	fmt.Fprintf(&b, "Lemma k_%s_is_ir :%s krun kid (k_%s_env%s) k_%s_ir = k_%s%s.\nProof. %sreflexivity. Qed.\n",
		n, forallOf(ps), n, app, n, n, app, introsOf(ps))
	if ok {
		fmt.Fprintf(&b, "Lemma k_%s_safe_is_ir :%s ksafe (k_%s_env%s) k_%s_ir = k_%s_safe%s.\nProof. %sreflexivity. Qed.\n",
			n, forallOf(ps), n, app, n, n, app, introsOf(ps))
	}
	fmt.Fprintf(&b, "Definition k_%s_ok : bool := %v.\n\n", n, ok)
	return b.String()
}

func forallOf(ps string) string {
	if ps == "" {
		return ""
	}
	return " forall" + ps + ","
}

func introsOf(ps string) string {
	if ps == "" {
		return ""
	}
	return "intros. "
}

func (g *gen) runKernel(tgt *ktarget, list []ast.Stmt, where string, fields map[string]*kx) (*kernelOut, *ktr) {
	tr := &ktr{g: g, tgt: tgt, consts: g.intConsts(), fields: fields}
	sc := kscope{}
	for _, p := range tgt.params {
		sc[p] = tgt.ptypes[p]
	}
	out := &kernelOut{name: tgt.name, params: tgt.params, ptypes: tgt.ptypes, where: where}
	if list == nil {
		out.errs = []string{"block not found"}
		return out, tr
	}
	end := tgt.atEnd
	if end == nil {
		end = func(tr *ktr, sc kscope) *ks { return tr.fail("the block ends without a result") }
	}
	out.body = tr.stmts(list, sc, func(sc kscope) *ks { return end(tr, sc) })
	out.errs = tr.errs
	return out, tr
}

// ---- targets ----

func findSlice(n ast.Node) *ast.SliceExpr {
	var r *ast.SliceExpr
	ast.Inspect(n, func(m ast.Node) bool {
		if s, ok := m.(*ast.SliceExpr); ok && r == nil {
			r = s
		}
		return r == nil
	})
	return r
}

func callName(e ast.Expr) string {
	c, ok := e.(*ast.CallExpr)
	if !ok {
		return ""
	}
	switch f := c.Fun.(type) {
	case *ast.Ident:
		return f.Name
	case *ast.SelectorExpr:
		return f.Sel.Name
	case *ast.ArrayType:
		return "[]conv"
	}
	return ""
}

// the four index computations of filterSlice
func sliceTarget(name string) *ktarget {
	t := &ktarget{name: name, params: []string{"start", "length", "hasLength", "n"},
		ptypes: map[string]kty{"start": kInt, "length": kInt, "hasLength": kBool, "n": kInt},
		opaque: map[string]string{"len(runes)": "n", "len(v)": "n", "rv.Len()": "n"}}
	bind := func(tr *ktr, lo, hi ast.Expr, sc kscope) (bool, []*kx, []kbind) {
		if lo == nil || hi == nil {
			return false, nil, nil
		}
		a, ok1 := tr.expr(lo, sc)
		b, ok2 := tr.expr(hi, sc)
		if !ok1 || !ok2 || a.ty != kInt || b.ty != kInt {
			return false, nil, nil
		}
		tr.pend = true
		// the bounds as they are at this point
		return true, nil, []kbind{{"obs_lo", a}, {"obs_hi", b}}
	}
	t.onStmt = func(tr *ktr, s ast.Stmt, sc kscope) (bool, []*kx, []kbind) {
		switch x := s.(type) {
		case *ast.AssignStmt:
			// runes := []rune(v) ; s := rv.String() ; result := make(T, n...) ; result := reflect.MakeSlice(T, n, n)
			if len(x.Lhs) == 1 && len(x.Rhs) == 1 {
				switch callName(x.Rhs[0]) {
				case "[]conv", "String":
					return true, nil, nil
				case "make", "MakeSlice":
					var chks []*kx
					for _, a := range x.Rhs[0].(*ast.CallExpr).Args[1:] {
						e, ok := tr.expr(a, sc)
						if !ok || e.ty != kInt {
							return false, nil, nil
						}
						// a negative length makes make / MakeSlice panic
						chks = append(chks, e, &kx{op: "assert", ty: kBool, a: &kx{op: "ge", ty: kBool, a: e, b: klit("0")}})
					}
					return true, chks, nil
				}
			}
		case *ast.ExprStmt:
			if callName(x.X) == "copy" {
				if sl := findSlice(x.X); sl != nil {
					return bind(tr, sl.Low, sl.High, sc)
				}
			}
		case *ast.ForStmt:
			// for i := lo; i < hi; i++ { result.Index(i - lo).Set(rv.Index(i)) }
			in, ok1 := x.Init.(*ast.AssignStmt)
			cd, ok2 := x.Cond.(*ast.BinaryExpr)
			ps, ok3 := x.Post.(*ast.IncDecStmt)
			if ok1 && ok2 && ok3 && len(in.Lhs) == 1 && len(in.Rhs) == 1 && cd.Op == token.LSS && ps.Tok == token.INC && len(x.Body.List) == 1 {
				i1, _ := in.Lhs[0].(*ast.Ident)
				i2, _ := cd.X.(*ast.Ident)
				i3, _ := ps.X.(*ast.Ident)
				body := tr.src(x.Body.List[0])
				if i1 != nil && i2 != nil && i3 != nil && i1.Name == i2.Name && i2.Name == i3.Name &&
					body == fmt.Sprintf("result.Index(%s - %s).Set(rv.Index(%s))", i1.Name, tr.src(in.Rhs[0]), i1.Name) {
					return bind(tr, in.Rhs[0], cd.Y, sc)
				}
			}
		}
		return false, nil, nil
	}
	t.onReturn = func(tr *ktr, r *ast.ReturnStmt, sc kscope) *ks {
		if len(r.Results) != 2 || tr.src(r.Results[1]) != "nil" {
			return nil
		}
		v := r.Results[0]
		s := tr.src(v)
		if s == `""` || s == "[]interface{}{}" || strings.Contains(s, "MakeSlice(sliceTypeOf(rv), 0, 0)") {
			return &ks{kind: "ret", tag: "empty"}
		}
		if sl := findSlice(v); sl != nil && sl.Low != nil && sl.High != nil {
			a, ok1 := tr.expr(sl.Low, sc)
			b, ok2 := tr.expr(sl.High, sc)
			if ok1 && ok2 && a.ty == kInt && b.ty == kInt {
				return &ks{kind: "ret", tag: "slice", args: []*kx{a, b}}
			}
			return nil
		}
		if (s == "result" || s == "result.Interface()") && tr.pend {
			return &ks{kind: "ret", tag: "slice", args: []*kx{kvar("obs_lo", kInt), kvar("obs_hi", kInt)}}
		}
		return nil
	}
	return t
}

func clauseBody(sw ast.Stmt, match func(c *ast.CaseClause) bool) []ast.Stmt {
	var body *ast.BlockStmt
	switch x := sw.(type) {
	case *ast.TypeSwitchStmt:
		body = x.Body
	case *ast.SwitchStmt:
		body = x.Body
	}
	if body == nil {
		return nil
	}
	for _, c := range body.List {
		if cc, ok := c.(*ast.CaseClause); ok && match(cc) {
			return cc.Body
		}
	}
	return nil
}

func genKernels(g *gen) {
	var b strings.Builder
	b.WriteString("From Coq Require Import ZArith List Bool.\nFrom Twig Require Import Base.Kernel.\nImport ListNotations.\nLocal Open Scope Z_scope.\nLocal Open Scope bool_scope.\n\n")
	var all []*kernelOut
	var loopNames []string
	src := func(n ast.Node) string {
		var bb bytes.Buffer
		printer.Fprint(&bb, g.fset, n)
		return bb.String()
	}
	typeIs := func(want ...string) func(c *ast.CaseClause) bool {
		return func(c *ast.CaseClause) bool {
			if len(c.List) != len(want) {
				return false
			}
			for i, e := range c.List {
				if src(e) != want[i] {
					return false
				}
			}
			return true
		}
	}

	// ---- filterSlice: the index computation of each of the four branches
	{
		var tsw, ksw ast.Stmt
		if fd := g.funcDecl("CoreExtension", "filterSlice"); fd != nil {
			for _, s := range fd.Body.List {
				switch x := s.(type) {
				case *ast.TypeSwitchStmt:
					tsw = x
				case *ast.SwitchStmt:
					if x.Tag != nil && src(x.Tag) == "rv.Kind()" {
						ksw = x
					}
				}
			}
		}
		for _, c := range []struct {
			name string
			sw   ast.Stmt
			m    func(*ast.CaseClause) bool
			wh   string
		}{
			{"slice_string", tsw, typeIs("string"), "extension.go, filterSlice, case string"},
			{"slice_list", tsw, typeIs("[]interface{}"), "extension.go, filterSlice, case []interface{}"},
			{"slice_refl_string", ksw, typeIs("reflect.String"), "extension.go, filterSlice, reflection, case reflect.String"},
			{"slice_refl_slice", ksw, typeIs("reflect.Array", "reflect.Slice"), "extension.go, filterSlice, reflection, case reflect.Array, reflect.Slice"},
		} {
			var list []ast.Stmt
			if c.sw != nil {
				list = clauseBody(c.sw, c.m)
			}
			k, _ := g.runKernel(sliceTarget(c.name), list, c.wh, map[string]*kx{})
			all = append(all, k)
		}
	}

	// ---- renderForLoop: the loop counters written for every iteration
	{
		keys := []string{"index", "index0", "revindex", "revindex0", "first", "last"}
		var loops [][]ast.Stmt
		if fd := g.funcDecl("ForNode", "renderForLoop"); fd != nil {
			ast.Inspect(fd.Body, func(n ast.Node) bool {
				var body *ast.BlockStmt
				switch x := n.(type) {
				case *ast.ForStmt:
					body = x.Body
				case *ast.RangeStmt:
					body = x.Body
				}
				if body == nil {
					return true
				}
				var as []ast.Stmt
				for _, s := range body.List {
					if a, ok := s.(*ast.AssignStmt); ok && len(a.Lhs) == 1 {
						if ix, ok := a.Lhs[0].(*ast.IndexExpr); ok && strings.Contains(src(ix.X), `["loop"]`) {
							as = append(as, a)
						}
					}
				}
				if len(as) > 0 {
					loops = append(loops, as)
				}
				return true
			})
		}
		nl := len(loops)
		if nl == 0 {
			nl = 1 // an untranslatable placeholder, so that the dependent theorems fail
		}
		for n := 0; n < nl; n++ {
			var list []ast.Stmt
			if n < len(loops) {
				list = loops[n]
			}
			fields := map[string]*kx{}
			t := &ktarget{name: fmt.Sprintf("loop_counters_%d", n+1), params: []string{"i", "length"}, ptypes: map[string]kty{"i": kInt, "length": kInt}}
			t.atEnd = func(tr *ktr, sc kscope) *ks {
				var args []*kx
				for _, k := range keys {
					f, ok := tr.fields[k]
					if !ok {
						return tr.fail("loop counter %s is not assigned", k)
					}
					args = append(args, f)
				}
				if len(tr.fields) != len(keys) {
					return tr.fail("further loop fields are assigned per iteration")
				}
				return &ks{kind: "ret", tag: "loop", args: args}
			}
			k, _ := g.runKernel(t, list, fmt.Sprintf("node.go, renderForLoop, loop %d: the assignments to the loop map of every iteration", n+1), fields)
			all = append(all, k)
			loopNames = append(loopNames, t.name)
		}
	}

	// ---- functionRange: from the step test to the end: the number of items; and the item of position k
	{
		var list []ast.Stmt
		var elem ast.Expr
		var elemVar, cntVar string
		if fd := g.funcDecl("CoreExtension", "functionRange"); fd != nil {
			for i, s := range fd.Body.List {
				if ifs, ok := s.(*ast.IfStmt); ok && src(ifs.Cond) == "step == 0" {
					list = fd.Body.List[i:]
					break
				}
			}
		}
		t := &ktarget{name: "range_count", params: []string{"start", "end", "step"}, ptypes: map[string]kty{"start": kInt, "end": kInt, "step": kInt}}
		t.onReturn = func(tr *ktr, r *ast.ReturnStmt, sc kscope) *ks {
			if len(r.Results) != 2 {
				return nil
			}
			v, e := src(r.Results[0]), src(r.Results[1])
			switch {
			case v == "nil" && e != "nil":
				return &ks{kind: "ret", tag: "error"}
			case v == "[]interface{}{}" && e == "nil":
				return &ks{kind: "ret", tag: "empty"}
			case v == "result" && e == "nil" && tr.pend:
				return &ks{kind: "ret", tag: "items", args: []*kx{kvar("obs_count", kInt)}}
			}
			return nil
		}
		t.onStmt = func(tr *ktr, s ast.Stmt, sc kscope) (bool, []*kx, []kbind) {
			switch x := s.(type) {
			case *ast.AssignStmt:
				// result := make([]interface{}, count)
				if len(x.Lhs) == 1 && len(x.Rhs) == 1 && callName(x.Rhs[0]) == "make" && src(x.Lhs[0]) == "result" {
					args := x.Rhs[0].(*ast.CallExpr).Args
					if len(args) == 2 {
						if e, ok := tr.expr(args[1], sc); ok && e.ty == kInt {
							cntVar = src(args[1])
							return true, []*kx{e, &kx{op: "assert", ty: kBool, a: &kx{op: "ge", ty: kBool, a: e, b: klit("0")}}}, []kbind{{"obs_count", e}}
						}
					}
				}
			case *ast.ForStmt:
				// for k := 0; k < count; k++ { result[k] = E }
				in, ok1 := x.Init.(*ast.AssignStmt)
				cd, ok2 := x.Cond.(*ast.BinaryExpr)
				ps, ok3 := x.Post.(*ast.IncDecStmt)
				if ok1 && ok2 && ok3 && len(x.Body.List) == 1 && len(in.Rhs) == 1 && src(in.Rhs[0]) == "0" && cd.Op == token.LSS && src(cd.Y) == cntVar && ps.Tok == token.INC {
					if a, ok := x.Body.List[0].(*ast.AssignStmt); ok && len(a.Lhs) == 1 && src(a.Lhs[0]) == "result["+src(in.Lhs[0])+"]" {
						elem, elemVar = a.Rhs[0], src(in.Lhs[0])
						tr.pend = true
						return true, nil, nil
					}
				}
			}
			return false, nil, nil
		}
		k, _ := g.runKernel(t, list, "extension.go, functionRange, from the step test on: the number of items", map[string]*kx{})
		all = append(all, k)
		// the item of position k
		te := &ktarget{name: "range_item", params: []string{"start", "step", "k"}, ptypes: map[string]kty{"start": kInt, "step": kInt, "k": kInt}}
		var el []ast.Stmt
		if elem != nil {
			el = []ast.Stmt{&ast.ReturnStmt{Results: []ast.Expr{elem}}}
			if elemVar != "k" {
				te.opaque = map[string]string{elemVar: "k"}
			}
		}
		te.onReturn = func(tr *ktr, r *ast.ReturnStmt, sc kscope) *ks {
			e, ok := tr.expr(r.Results[0], sc)
			if !ok || e.ty != kInt {
				return nil
			}
			return &ks{kind: "ret", tag: "item", args: []*kx{e}}
		}
		k2, _ := g.runKernel(te, el, "extension.go, functionRange: the value stored at position k of the result", map[string]*kx{})
		all = append(all, k2)
	}

	hdr := b.String()
	groups := map[string]*strings.Builder{"Slice": {}, "Loop": {}, "Range": {}}
	okGroup := map[string]bool{"Slice": true, "Loop": true, "Range": true}
	groupOf := func(name string) string {
		switch {
		case strings.HasPrefix(name, "slice_"):
			return "Slice"
		case strings.HasPrefix(name, "loop_"):
			return "Loop"
		}
		return "Range"
	}
	for _, k := range all {
		gr := groupOf(k.name)
		groups[gr].WriteString(k.coq())
		for _, e := range k.errs {
			g.fail("Kernels%s: %s: %s", gr, k.name, e)
			okGroup[gr] = false
		}
	}
	// every loop of renderForLoop that writes the counters: (value, checks, term, environment)
	lb := groups["Loop"]
	lb.WriteString("Definition k_loop_counters_list : list ((Z -> Z -> kres) * (Z -> Z -> bool) * kstm * (Z -> Z -> kenv)) := [\n")
	for i, n := range loopNames {
		sep := ";"
		if i == len(loopNames)-1 {
			sep = ""
		}
		fmt.Fprintf(lb, "  (k_%s, k_%s_safe, k_%s_ir, k_%s_env)%s\n", n, n, n, n, sep)
	}
	lb.WriteString("].\n")
	for _, gr := range []string{"Slice", "Loop", "Range"} {
		fmt.Fprintf(groups[gr], "Definition kernels_%s_ok : bool := %v.\n", strings.ToLower(gr), okGroup[gr])
		g.write("Kernels"+gr+".v", hdr+groups[gr].String())
	}
}
