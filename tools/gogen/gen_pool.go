// gen_pool.go: PoolCalls.v and CtxReset.v -- the object-pool discipline of package twig (C01).
// Extracted syntactically (go/ast only):
//
// PoolCalls.v
//   - pool_release_sites: every call of a function or method whose name starts with Release, in
//     every non-test file outside the pool files (node_pool.go, node_pool_extensions.go,
//     expr_pool.go), with the enclosing function, the callee as written, where the released value
//     comes from (the call, method or type assertion that defined the receiver / argument in the
//     enclosing function, or the declared type of a parameter / receiver) and whether the call is
//     deferred.
//   - pool_node_types: for every `var XPool = sync.Pool{New: func() interface{} { return &T{} }}` of
//     the pool files: T, the fields of struct T (embedded structs flattened), the fields the
//     acquisition function (the one calling XPool.Get) assigns, the fields the release function (the
//     one calling XPool.Put) assigns.
//   - pool_map_puts / pool_map_gets: Put and Get sites of the bare map pools of render.go
//     (contextMapPool, blocksMapPool, macrosMapPool) with whether the map is emptied by a
//     range-delete loop in the same function before the Put / after the Get.
//
// CtxReset.v
//   - the fields of RenderContext, which of them are maps, the fields NewRenderContext / Clone /
//     Release assign on the acquired (released) object, the map fields they empty with a
//     range-delete loop, the derived reset sets (a field is reset when a top-level statement of the
//     function assigns it, i.e. on every call; a map field also when it is both assigned -- the nil
//     branch -- and emptied -- the other branch), and the map fields Clone assigns directly from the
//     receiver (shared instead of copied).
//
// A missing shape sets the corresponding *_shape_ok flag to false, which breaks Proofs/PoolProofs.v.
package main

import (
	"fmt"
	"go/ast"
	"go/token"
	"sort"
	"strings"
)

func init() { generators = append(generators, genPool) }

var poolFiles = map[string]bool{"node_pool.go": true, "node_pool_extensions.go": true, "expr_pool.go": true}

func coqList(items []string) string {
	if len(items) == 0 {
		return "[]"
	}
	q := make([]string, len(items))
	for i, s := range items {
		q[i] = coqStr(s)
	}
	return "[" + strings.Join(q, "; ") + "]"
}

func coqBool(b bool) string {
	if b {
		return "true"
	}
	return "false"
}

func recvName(fd *ast.FuncDecl) string {
	if fd.Recv == nil || len(fd.Recv.List) != 1 {
		return ""
	}
	switch t := fd.Recv.List[0].Type.(type) {
	case *ast.StarExpr:
		if id, ok := t.X.(*ast.Ident); ok {
			return id.Name
		}
	case *ast.Ident:
		return t.Name
	}
	return ""
}

func funcLabel(fd *ast.FuncDecl) string {
	if r := recvName(fd); r != "" {
		return r + "." + fd.Name.Name
	}
	return fd.Name.Name
}

func typeText(e ast.Expr) string {
	switch t := e.(type) {
	case *ast.Ident:
		return t.Name
	case *ast.StarExpr:
		return "*" + typeText(t.X)
	case *ast.SelectorExpr:
		return typeText(t.X) + "." + t.Sel.Name
	case *ast.ArrayType:
		return "[]" + typeText(t.Elt)
	case *ast.MapType:
		return "map"
	case *ast.InterfaceType:
		return "interface"
	case *ast.Ellipsis:
		return "..." + typeText(t.Elt)
	}
	return "?"
}

func exprText(e ast.Expr) string {
	switch t := e.(type) {
	case *ast.Ident:
		return t.Name
	case *ast.SelectorExpr:
		return exprText(t.X) + "." + t.Sel.Name
	case *ast.StarExpr:
		return "*" + exprText(t.X)
	case *ast.UnaryExpr:
		return t.Op.String() + exprText(t.X)
	case *ast.CallExpr:
		return exprText(t.Fun) + "()"
	case *ast.IndexExpr:
		return exprText(t.X) + "[]"
	case *ast.ParenExpr:
		return exprText(t.X)
	case *ast.TypeAssertExpr:
		if t.Type == nil {
			return exprText(t.X) + ".(type)"
		}
		return exprText(t.X) + ".(" + typeText(t.Type) + ")"
	}
	return "?"
}

// originOf says where identifier name comes from inside fd: the defining call / method / type
// assertion of the last assignment before pos, or the declared type of a parameter or receiver.
func originOf(fd *ast.FuncDecl, name string, pos token.Pos) string {
	origin := ""
	describe := func(rhs ast.Expr) string {
		switch r := rhs.(type) {
		case *ast.CallExpr:
			switch f := r.Fun.(type) {
			case *ast.Ident:
				return "call:" + f.Name
			case *ast.SelectorExpr:
				return "method:" + f.Sel.Name
			}
			return "call:?"
		case *ast.TypeAssertExpr:
			if r.Type != nil {
				return "assert:" + typeText(r.Type)
			}
			return "assert:?"
		case *ast.UnaryExpr:
			if cl, ok := r.X.(*ast.CompositeLit); ok && r.Op == token.AND {
				return "literal:" + typeText(cl.Type)
			}
			return "expr:" + exprText(r)
		case *ast.CompositeLit:
			return "literal:" + typeText(r.Type)
		}
		return "expr:" + exprText(rhs)
	}
	ast.Inspect(fd.Body, func(n ast.Node) bool {
		switch s := n.(type) {
		case *ast.AssignStmt:
			if s.Pos() >= pos {
				return true
			}
			for i, l := range s.Lhs {
				id, ok := l.(*ast.Ident)
				if !ok || id.Name != name {
					continue
				}
				if len(s.Rhs) == len(s.Lhs) {
					origin = describe(s.Rhs[i])
				} else if len(s.Rhs) == 1 && i == 0 {
					origin = describe(s.Rhs[0])
				}
			}
		case *ast.ValueSpec:
			if s.Pos() >= pos {
				return true
			}
			for i, id := range s.Names {
				if id.Name != name {
					continue
				}
				if i < len(s.Values) {
					origin = describe(s.Values[i])
				} else if s.Type != nil {
					origin = "type:" + typeText(s.Type)
				}
			}
		case *ast.TypeSwitchStmt:
			// switch v := x.(type): the origin is the asserted expression
			if as, ok := s.Assign.(*ast.AssignStmt); ok && len(as.Lhs) == 1 {
				if id, ok := as.Lhs[0].(*ast.Ident); ok && id.Name == name && s.Pos() < pos {
					origin = "typeswitch:" + exprText(as.Rhs[0])
				}
			}
		case *ast.RangeStmt:
			if s.Pos() < pos {
				for _, kv := range []ast.Expr{s.Key, s.Value} {
					if id, ok := kv.(*ast.Ident); ok && id.Name == name {
						origin = "range:" + exprText(s.X)
					}
				}
			}
		}
		return true
	})
	if origin != "" {
		return origin
	}
	if fd.Recv != nil {
		for _, f := range fd.Recv.List {
			for _, id := range f.Names {
				if id.Name == name {
					return "type:" + typeText(f.Type)
				}
			}
		}
	}
	if fd.Type.Params != nil {
		for _, f := range fd.Type.Params.List {
			for _, id := range f.Names {
				if id.Name == name {
					return "type:" + typeText(f.Type)
				}
			}
		}
	}
	return "unknown"
}

type releaseSite struct {
	file, fn, callee, origin string
	deferred                 bool
	line                     int
}

func (g *gen) sortedFileNames() []string {
	names := make([]string, 0, len(g.files))
	for n := range g.files {
		names = append(names, n)
	}
	sort.Strings(names)
	return names
}

func (g *gen) releaseSites() []releaseSite {
	var sites []releaseSite
	for _, fname := range g.sortedFileNames() {
		if poolFiles[fname] {
			continue
		}
		for _, d := range g.files[fname].Decls {
			fd, ok := d.(*ast.FuncDecl)
			if !ok || fd.Body == nil {
				continue
			}
			deferred := map[*ast.CallExpr]bool{}
			ast.Inspect(fd.Body, func(n ast.Node) bool {
				if ds, ok := n.(*ast.DeferStmt); ok {
					deferred[ds.Call] = true
					// defer func() { ... x.Release() ... }()
					if fl, ok := ds.Call.Fun.(*ast.FuncLit); ok {
						ast.Inspect(fl.Body, func(m ast.Node) bool {
							if c, ok := m.(*ast.CallExpr); ok {
								deferred[c] = true
							}
							return true
						})
					}
				}
				return true
			})
			ast.Inspect(fd.Body, func(n ast.Node) bool {
				call, ok := n.(*ast.CallExpr)
				if !ok {
					return true
				}
				switch f := call.Fun.(type) {
				case *ast.Ident:
					if strings.HasPrefix(f.Name, "Release") {
						origin := "arg:?"
						if len(call.Args) > 0 {
							if id, ok := call.Args[0].(*ast.Ident); ok {
								origin = originOf(fd, id.Name, call.Pos())
							} else {
								origin = "expr:" + exprText(call.Args[0])
							}
						}
						sites = append(sites, releaseSite{fname, funcLabel(fd), f.Name, origin, deferred[call], g.fset.Position(call.Pos()).Line})
					}
				case *ast.SelectorExpr:
					if strings.HasPrefix(f.Sel.Name, "Release") {
						origin := "expr:" + exprText(f.X)
						if id, ok := f.X.(*ast.Ident); ok {
							origin = originOf(fd, id.Name, call.Pos())
						}
						sites = append(sites, releaseSite{fname, funcLabel(fd), exprText(f.X) + "." + f.Sel.Name, origin, deferred[call], g.fset.Position(call.Pos()).Line})
					}
				}
				return true
			})
		}
	}
	return sites
}

// structFields returns the field names of struct type name, embedded structs flattened, and the
// set of fields whose type is a map.
func (g *gen) structFields(name string, depth int) (fields []string, maps map[string]bool, found bool) {
	maps = map[string]bool{}
	if depth > 4 {
		return nil, maps, false
	}
	for _, fname := range g.sortedFileNames() {
		for _, d := range g.files[fname].Decls {
			gd, ok := d.(*ast.GenDecl)
			if !ok || gd.Tok != token.TYPE {
				continue
			}
			for _, sp := range gd.Specs {
				ts, ok := sp.(*ast.TypeSpec)
				if !ok || ts.Name.Name != name {
					continue
				}
				st, ok := ts.Type.(*ast.StructType)
				if !ok {
					return nil, maps, false
				}
				for _, f := range st.Fields.List {
					if len(f.Names) == 0 {
						// embedded
						en := strings.TrimPrefix(typeText(f.Type), "*")
						ef, em, ok := g.structFields(en, depth+1)
						if ok {
							fields = append(fields, ef...)
							for k := range em {
								maps[k] = true
							}
						} else {
							fields = append(fields, en)
						}
						continue
					}
					for _, id := range f.Names {
						fields = append(fields, id.Name)
						if _, ok := f.Type.(*ast.MapType); ok {
							maps[id.Name] = true
						}
					}
				}
				return fields, maps, true
			}
		}
	}
	return nil, maps, false
}

// assignedFields: names f such that the function body contains `v.f = ...` or `v.E.f = ...` (last selector).
func assignedFields(body ast.Node, v string) []string {
	seen := map[string]bool{}
	var out []string
	ast.Inspect(body, func(n ast.Node) bool {
		as, ok := n.(*ast.AssignStmt)
		if !ok {
			return true
		}
		for _, l := range as.Lhs {
			sel, ok := l.(*ast.SelectorExpr)
			if !ok {
				continue
			}
			root := sel.X
			for {
				if s2, ok := root.(*ast.SelectorExpr); ok {
					root = s2.X
					continue
				}
				break
			}
			if id, ok := root.(*ast.Ident); ok && id.Name == v && !seen[sel.Sel.Name] {
				seen[sel.Sel.Name] = true
				out = append(out, sel.Sel.Name)
			}
		}
		return true
	})
	return out
}

// clearedMaps: names f such that the body contains `for k := range v.f { delete(v.f, k) }`.
func clearedMaps(body ast.Node, v string) []string {
	seen := map[string]bool{}
	var out []string
	ast.Inspect(body, func(n ast.Node) bool {
		rs, ok := n.(*ast.RangeStmt)
		if !ok {
			return true
		}
		sel, ok := rs.X.(*ast.SelectorExpr)
		if !ok {
			return true
		}
		id, ok := sel.X.(*ast.Ident)
		if !ok || id.Name != v {
			return true
		}
		del := false
		ast.Inspect(rs.Body, func(m ast.Node) bool {
			if c, ok := m.(*ast.CallExpr); ok {
				if f, ok := c.Fun.(*ast.Ident); ok && f.Name == "delete" && len(c.Args) == 2 {
					if s2, ok := c.Args[0].(*ast.SelectorExpr); ok && s2.Sel.Name == sel.Sel.Name {
						del = true
					}
				}
			}
			return true
		})
		if del && !seen[sel.Sel.Name] {
			seen[sel.Sel.Name] = true
			out = append(out, sel.Sel.Name)
		}
		return true
	})
	return out
}

// varBoundToPoolGet: the identifier assigned from `<pool>.Get().(...)` in body ("" if none).
func varBoundToPoolGet(body ast.Node, pool string) string {
	res := ""
	ast.Inspect(body, func(n ast.Node) bool {
		as, ok := n.(*ast.AssignStmt)
		if !ok || len(as.Lhs) != 1 || len(as.Rhs) != 1 || res != "" {
			return true
		}
		rhs := as.Rhs[0]
		if ta, ok := rhs.(*ast.TypeAssertExpr); ok {
			rhs = ta.X
		}
		call, ok := rhs.(*ast.CallExpr)
		if !ok {
			return true
		}
		sel, ok := call.Fun.(*ast.SelectorExpr)
		if !ok || sel.Sel.Name != "Get" {
			return true
		}
		if id, ok := sel.X.(*ast.Ident); ok && id.Name == pool {
			if l, ok := as.Lhs[0].(*ast.Ident); ok {
				res = l.Name
			}
		}
		return true
	})
	return res
}

// varPutToPool: the identifier x of `<pool>.Put(x)` in body ("" if none).
func varPutToPool(body ast.Node, pool string) string {
	res := ""
	ast.Inspect(body, func(n ast.Node) bool {
		call, ok := n.(*ast.CallExpr)
		if !ok || res != "" {
			return true
		}
		sel, ok := call.Fun.(*ast.SelectorExpr)
		if !ok || sel.Sel.Name != "Put" || len(call.Args) != 1 {
			return true
		}
		if id, ok := sel.X.(*ast.Ident); ok && id.Name == pool {
			if a, ok := call.Args[0].(*ast.Ident); ok {
				res = a.Name
			}
		}
		return true
	})
	return res
}

type nodeType struct {
	pool, typ              string
	fields, getW, releaseW []string
}

func (g *gen) pooledNodeTypes() []nodeType {
	var res []nodeType
	for _, fname := range g.sortedFileNames() {
		if !poolFiles[fname] {
			continue
		}
		f := g.files[fname]
		for _, d := range f.Decls {
			gd, ok := d.(*ast.GenDecl)
			if !ok || gd.Tok != token.VAR {
				continue
			}
			for _, sp := range gd.Specs {
				vs, ok := sp.(*ast.ValueSpec)
				if !ok || len(vs.Names) != 1 || len(vs.Values) != 1 {
					continue
				}
				cl, ok := vs.Values[0].(*ast.CompositeLit)
				if !ok || typeText(cl.Type) != "sync.Pool" {
					continue
				}
				// New: func() interface{} { return &T{} }
				typ := ""
				ast.Inspect(cl, func(n ast.Node) bool {
					rs, ok := n.(*ast.ReturnStmt)
					if !ok || len(rs.Results) != 1 {
						return true
					}
					if u, ok := rs.Results[0].(*ast.UnaryExpr); ok && u.Op == token.AND {
						if c2, ok := u.X.(*ast.CompositeLit); ok {
							typ = typeText(c2.Type)
						}
					}
					return true
				})
				if typ == "" {
					continue // slice / map pools: no struct fields to account for
				}
				nt := nodeType{pool: vs.Names[0].Name, typ: typ}
				fields, _, ok2 := g.structFields(typ, 0)
				if !ok2 {
					g.fail("PoolCalls: struct %s of pool %s not found", typ, nt.pool)
				}
				nt.fields = fields
				// acquisition and release functions anywhere in the pool files
				gotGet, gotPut := false, false
				for _, fn2 := range g.sortedFileNames() {
					if !poolFiles[fn2] {
						continue
					}
					for _, d2 := range g.files[fn2].Decls {
						fd, ok := d2.(*ast.FuncDecl)
						if !ok || fd.Body == nil {
							continue
						}
						if v := varBoundToPoolGet(fd.Body, nt.pool); v != "" {
							nt.getW = append(nt.getW, assignedFields(fd.Body, v)...)
							gotGet = true
						}
						if v := varPutToPool(fd.Body, nt.pool); v != "" {
							nt.releaseW = append(nt.releaseW, assignedFields(fd.Body, v)...)
							gotPut = true
						}
					}
				}
				if !gotGet {
					g.fail("PoolCalls: no acquisition function for %s", nt.pool)
				}
				if !gotPut {
					g.fail("PoolCalls: no release function for %s", nt.pool)
				}
				res = append(res, nt)
			}
		}
	}
	return res
}

var bareMapPools = []string{"contextMapPool", "blocksMapPool", "macrosMapPool"}

func genPool(g *gen) {
	nerr := len(g.errs)
	var b strings.Builder

	// ---- release sites
	sites := g.releaseSites()
	b.WriteString("(* Every call of Release...() / x.Release...() outside the pool files: (enclosing function, callee as written,\n   where the released value comes from, deferred). *)\n")
	b.WriteString("Definition pool_release_sites : list (bytes * bytes * bytes * bool) := [\n")
	jsites := []map[string]interface{}{}
	for i, s := range sites {
		sep := ";"
		if i == len(sites)-1 {
			sep = ""
		}
		fmt.Fprintf(&b, "  (%s, %s, %s, %s)%s (* %s:%d *)\n", coqStr(s.fn), coqStr(s.callee), coqStr(s.origin), coqBool(s.deferred), sep, s.file, s.line)
		jsites = append(jsites, map[string]interface{}{"func": s.fn, "callee": s.callee, "origin": s.origin, "deferred": s.deferred, "file": s.file, "line": s.line})
	}
	b.WriteString("].\n\n")

	// ---- pooled struct types
	nts := g.pooledNodeTypes()
	if len(nts) == 0 {
		g.fail("PoolCalls: no sync.Pool of struct pointers found in the pool files")
	}
	b.WriteString("(* Pooled struct types of the pool files: (pool variable, type, fields, fields assigned by the acquisition\n   function, fields assigned by the release function). *)\n")
	b.WriteString("Definition pool_node_types : list (bytes * bytes * list bytes * list bytes * list bytes) := [\n")
	for i, nt := range nts {
		sep := ";"
		if i == len(nts)-1 {
			sep = ""
		}
		fmt.Fprintf(&b, "  (%s, %s, %s, %s, %s)%s\n", coqStr(nt.pool), coqStr(nt.typ), coqList(nt.fields), coqList(nt.getW), coqList(nt.releaseW), sep)
	}
	b.WriteString("].\n\n")

	// ---- bare map pools of render.go
	type mapSite struct {
		pool, fn string
		cleared  bool
	}
	var puts, gets []mapSite
	for _, fname := range g.sortedFileNames() {
		for _, d := range g.files[fname].Decls {
			fd, ok := d.(*ast.FuncDecl)
			if !ok || fd.Body == nil {
				continue
			}
			ast.Inspect(fd.Body, func(n ast.Node) bool {
				call, ok := n.(*ast.CallExpr)
				if !ok {
					return true
				}
				sel, ok := call.Fun.(*ast.SelectorExpr)
				if !ok {
					return true
				}
				id, ok := sel.X.(*ast.Ident)
				if !ok {
					return true
				}
				isMapPool := false
				for _, p := range bareMapPools {
					if id.Name == p {
						isMapPool = true
					}
				}
				if !isMapPool {
					return true
				}
				switch sel.Sel.Name {
				case "Put":
					cleared := false
					if len(call.Args) == 1 {
						if a, ok := call.Args[0].(*ast.Ident); ok {
							// for k := range a { delete(a, k) } earlier in the same function
							ast.Inspect(fd.Body, func(m ast.Node) bool {
								rs, ok := m.(*ast.RangeStmt)
								if !ok || rs.Pos() >= call.Pos() {
									return true
								}
								if x, ok := rs.X.(*ast.Ident); ok && x.Name == a.Name {
									ast.Inspect(rs.Body, func(q ast.Node) bool {
										if c, ok := q.(*ast.CallExpr); ok {
											if f, ok := c.Fun.(*ast.Ident); ok && f.Name == "delete" && len(c.Args) == 2 {
												if y, ok := c.Args[0].(*ast.Ident); ok && y.Name == a.Name {
													cleared = true
												}
											}
										}
										return true
									})
								}
								return true
							})
						}
					}
					puts = append(puts, mapSite{id.Name, funcLabel(fd), cleared})
				case "Get":
					gets = append(gets, mapSite{id.Name, funcLabel(fd), false})
				}
				return true
			})
		}
	}
	if len(puts) == 0 {
		g.fail("PoolCalls: no Put site of the bare map pools found")
	}
	b.WriteString("(* Put sites of the bare map pools of render.go: (pool, function, emptied by a range-delete loop before the Put). *)\n")
	b.WriteString("Definition pool_map_puts : list (bytes * bytes * bool) := [\n")
	for i, s := range puts {
		sep := ";"
		if i == len(puts)-1 {
			sep = ""
		}
		fmt.Fprintf(&b, "  (%s, %s, %s)%s\n", coqStr(s.pool), coqStr(s.fn), coqBool(s.cleared), sep)
	}
	b.WriteString("].\n\n")
	b.WriteString("(* Get sites of the bare map pools: (pool, function). *)\n")
	b.WriteString("Definition pool_map_gets : list (bytes * bytes) := [\n")
	for i, s := range gets {
		sep := ";"
		if i == len(gets)-1 {
			sep = ""
		}
		fmt.Fprintf(&b, "  (%s, %s)%s\n", coqStr(s.pool), coqStr(s.fn), sep)
	}
	b.WriteString("].\n\n")
	fmt.Fprintf(&b, "Definition pool_calls_shape_ok : bool := %s.\n", coqBool(len(g.errs) == nerr))
	g.tabs["pool_release_sites"] = jsites
	g.write("PoolCalls.v", b.String())

	// ---- CtxReset.v
	nerr = len(g.errs)
	var c strings.Builder
	fields, maps, ok := g.structFields("RenderContext", 0)
	if !ok {
		g.fail("CtxReset: struct RenderContext not found")
	}
	var mapFields []string
	for _, f := range fields {
		if maps[f] {
			mapFields = append(mapFields, f)
		}
	}
	type acq struct {
		name              string
		assigned, cleared []string
		aliased           []string
		top               []string // assigned by a top-level statement of the function body
		v                 string
	}
	analyse := func(recv, fn string, release bool) acq {
		a := acq{name: fn}
		fd := g.funcDecl(recv, fn)
		if fd == nil {
			g.fail("CtxReset: function %s not found", fn)
			return a
		}
		if release {
			a.v = varPutToPool(fd.Body, "renderContextPool")
		} else {
			a.v = varBoundToPoolGet(fd.Body, "renderContextPool")
		}
		if a.v == "" {
			g.fail("CtxReset: %s does not use renderContextPool in the expected way", fn)
			return a
		}
		a.assigned = assignedFields(fd.Body, a.v)
		a.cleared = clearedMaps(fd.Body, a.v)
		// assignments that are statements of the function body itself: executed on every call
		for _, st := range fd.Body.List {
			if as, ok := st.(*ast.AssignStmt); ok {
				a.top = append(a.top, assignedFields(as, a.v)...)
			}
		}
		// map fields assigned directly from the receiver's field: newCtx.blocks = ctx.blocks
		if fd.Recv != nil && len(fd.Recv.List) == 1 && len(fd.Recv.List[0].Names) == 1 {
			r := fd.Recv.List[0].Names[0].Name
			ast.Inspect(fd.Body, func(n ast.Node) bool {
				as, ok := n.(*ast.AssignStmt)
				if !ok || len(as.Lhs) != len(as.Rhs) {
					return true
				}
				for i, l := range as.Lhs {
					ls, ok := l.(*ast.SelectorExpr)
					if !ok {
						continue
					}
					lid, ok := ls.X.(*ast.Ident)
					if !ok || lid.Name != a.v || !maps[ls.Sel.Name] {
						continue
					}
					if rs, ok := as.Rhs[i].(*ast.SelectorExpr); ok {
						if rid, ok := rs.X.(*ast.Ident); ok && rid.Name == r && maps[rs.Sel.Name] {
							a.aliased = append(a.aliased, ls.Sel.Name)
						}
					}
				}
				return true
			})
		}
		return a
	}
	has := func(l []string, x string) bool {
		for _, y := range l {
			if y == x {
				return true
			}
		}
		return false
	}
	resetOf := func(a acq) []string {
		var r []string
		for _, f := range fields {
			if has(a.top, f) {
				r = append(r, f) // assigned unconditionally
			} else if maps[f] && has(a.assigned, f) && has(a.cleared, f) {
				r = append(r, f) // assigned when nil, emptied otherwise
			}
		}
		return r
	}
	an := analyse("", "NewRenderContext", false)
	ac := analyse("RenderContext", "Clone", false)
	ar := analyse("RenderContext", "Release", true)
	c.WriteString("(* RenderContext (render.go): its fields, and what NewRenderContext, Clone and Release write on the object they\n   take from / return to renderContextPool. A field counts as reset when a statement of the function body itself assigns it\n   (so on every call), and a map field also when it is assigned somewhere (the nil branch) and emptied by a range-delete\n   loop (the other branch). *)\n")
	fmt.Fprintf(&c, "Definition ctx_fields : list bytes := %s.\n", coqList(fields))
	fmt.Fprintf(&c, "Definition ctx_map_fields : list bytes := %s.\n", coqList(mapFields))
	for _, a := range []acq{an, ac, ar} {
		n := map[string]string{"NewRenderContext": "new", "Clone": "clone", "Release": "release"}[a.name]
		fmt.Fprintf(&c, "Definition ctx_assigned_%s : list bytes := %s.\n", n, coqList(a.assigned))
		fmt.Fprintf(&c, "Definition ctx_cleared_%s : list bytes := %s.\n", n, coqList(a.cleared))
	}
	fmt.Fprintf(&c, "Definition ctx_reset_new : list bytes := %s.\n", coqList(resetOf(an)))
	fmt.Fprintf(&c, "Definition ctx_reset_clone : list bytes := %s.\n", coqList(resetOf(ac)))
	fmt.Fprintf(&c, "(* map fields Clone assigns directly from the receiver: the derived context would share the map *)\n")
	fmt.Fprintf(&c, "Definition ctx_clone_aliased_maps : list bytes := %s.\n", coqList(ac.aliased))
	fmt.Fprintf(&c, "Definition ctx_reset_shape_ok : bool := %s.\n", coqBool(len(g.errs) == nerr))
	g.tabs["ctx_reset"] = map[string]interface{}{"fields": fields, "new": resetOf(an), "clone": resetOf(ac), "release_assigned": ar.assigned}
	g.write("CtxReset.v", c.String())
}
