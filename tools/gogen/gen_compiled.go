// CompiledLayout.v: the wire layout of compiled templates as the code states it (C16).
// From compiled.go: the field list of CompiledTemplate, and for SerializeCompiledTemplate, writeString,
// readString, deserializeBinaryFormat and DeserializeCompiledTemplate the sequence, in source order, of
// I/O operations (binary.Write / binary.Read with their byte order and operand, writeString, readString,
// Write, io.ReadFull, make([]byte, n)) and of the conditions tested other than `err != nil`.
// From compiled_loader.go: the file extension set by NewCompiledLoader and the path expressions used by
// Load and SaveCompiled.
package main

import (
	"fmt"
	"go/ast"
	"go/token"
	"go/types"
	"strings"
)

func init() { generators = append(generators, func(g *gen) { g.compiledLayout() }) }

func (g *gen) ioOps(recv, fn string) ([]string, bool) {
	fd := g.funcDecl(recv, fn)
	if fd == nil || fd.Body == nil {
		g.fail("CompiledLayout: func %s not found", fn)
		return nil, false
	}
	var ops []string
	sel := func(e ast.Expr) (string, string) {
		if s, ok := e.(*ast.SelectorExpr); ok {
			if id, ok := s.X.(*ast.Ident); ok {
				return id.Name, s.Sel.Name
			}
			return "", s.Sel.Name
		}
		if id, ok := e.(*ast.Ident); ok {
			return "", id.Name
		}
		return "", ""
	}
	// the variable a call result is assigned to, for calls whose result carries the meaning
	assigned := map[*ast.CallExpr]string{}
	ast.Inspect(fd.Body, func(n ast.Node) bool {
		if as, ok := n.(*ast.AssignStmt); ok && len(as.Rhs) == 1 {
			if c, ok := as.Rhs[0].(*ast.CallExpr); ok && len(as.Lhs) >= 1 {
				assigned[c] = types.ExprString(as.Lhs[0])
			}
		}
		return true
	})
	ast.Inspect(fd.Body, func(n ast.Node) bool {
		switch x := n.(type) {
		case *ast.IfStmt:
			c := types.ExprString(x.Cond)
			if c != "err != nil" {
				ops = append(ops, "if "+c)
			}
		case *ast.CallExpr:
			pkg, name := sel(x.Fun)
			arg := func(i int) string {
				if i < len(x.Args) {
					return types.ExprString(x.Args[i])
				}
				return "?"
			}
			switch {
			case pkg == "binary" && (name == "Write" || name == "Read"):
				_, order := sel(x.Args[1])
				ops = append(ops, fmt.Sprintf("binary.%s %s %s", name, order, arg(2)))
			case pkg == "" && name == "writeString" && len(x.Args) == 2:
				ops = append(ops, "writeString "+arg(1))
			case pkg == "" && name == "readString":
				ops = append(ops, "readString "+assigned[x])
			case pkg == "io" && name == "ReadFull":
				ops = append(ops, "io.ReadFull "+arg(1))
			case pkg != "" && pkg != "fmt" && pkg != "bytes" && name == "Write" && len(x.Args) == 1:
				ops = append(ops, "Write "+arg(0))
			case pkg == "" && name == "make" && len(x.Args) >= 2:
				ops = append(ops, fmt.Sprintf("make %s %s", arg(0), arg(1)))
			case pkg == "" && (name == "deserializeBinaryFormat" || name == "deserializeGobFormat"):
				ops = append(ops, name+" "+arg(0))
			}
		}
		return true
	})
	return ops, true
}

func (g *gen) compiledLayout() {
	var b strings.Builder
	ok := true
	list := func(name string, items []string) {
		fmt.Fprintf(&b, "Definition %s : list bytes := [\n", name)
		for i, s := range items {
			sep := ";"
			if i == len(items)-1 {
				sep = ""
			}
			fmt.Fprintf(&b, "  %s%s\n", coqStr(s), sep)
		}
		b.WriteString("].\n\n")
	}
	// struct fields
	var fields [][2]string
	for _, f := range g.files {
		for _, d := range f.Decls {
			gd, isGen := d.(*ast.GenDecl)
			if !isGen || gd.Tok != token.TYPE {
				continue
			}
			for _, sp := range gd.Specs {
				ts := sp.(*ast.TypeSpec)
				st, isStruct := ts.Type.(*ast.StructType)
				if ts.Name.Name != "CompiledTemplate" || !isStruct {
					continue
				}
				for _, fl := range st.Fields.List {
					for _, nm := range fl.Names {
						fields = append(fields, [2]string{nm.Name, types.ExprString(fl.Type)})
					}
				}
			}
		}
	}
	if len(fields) == 0 {
		g.fail("CompiledLayout: struct CompiledTemplate not found")
		ok = false
	}
	b.WriteString("Definition gen_compiled_fields : list (bytes * bytes) := [\n")
	for i, f := range fields {
		sep := ";"
		if i == len(fields)-1 {
			sep = ""
		}
		fmt.Fprintf(&b, "  (%s, %s)%s\n", coqStr(f[0]), coqStr(f[1]), sep)
	}
	b.WriteString("].\n\n")
	tabs := map[string]interface{}{"fields": fields}
	for _, fn := range []struct{ def, fn string }{
		{"gen_serialize_ops", "SerializeCompiledTemplate"},
		{"gen_write_string_ops", "writeString"},
		{"gen_read_string_ops", "readString"},
		{"gen_deserialize_binary_ops", "deserializeBinaryFormat"},
		{"gen_deserialize_ops", "DeserializeCompiledTemplate"},
	} {
		ops, found := g.ioOps("", fn.fn)
		ok = ok && found
		list(fn.def, ops)
		tabs[fn.fn] = ops
	}
	// loader: extension and path expressions
	ext := ""
	if fd := g.funcDecl("", "NewCompiledLoader"); fd != nil {
		ast.Inspect(fd.Body, func(n ast.Node) bool {
			if kv, isKV := n.(*ast.KeyValueExpr); isKV {
				if id, isId := kv.Key.(*ast.Ident); isId && id.Name == "fileExtension" {
					if bl, isLit := kv.Value.(*ast.BasicLit); isLit && bl.Kind == token.STRING {
						ext = strings.Trim(bl.Value, "\"`")
					}
				}
			}
			return true
		})
	}
	if ext == "" {
		g.fail("CompiledLayout: NewCompiledLoader fileExtension literal not found")
		ok = false
	}
	fmt.Fprintf(&b, "Definition gen_compiled_ext : bytes := %s.\n\n", coqStr(ext))
	var paths []string
	for _, m := range []string{"Load", "SaveCompiled", "Exists", "GetModifiedTime"} {
		fd := g.funcDecl("CompiledLoader", m)
		if fd == nil {
			g.fail("CompiledLayout: CompiledLoader.%s not found", m)
			ok = false
			continue
		}
		ast.Inspect(fd.Body, func(n ast.Node) bool {
			if c, isCall := n.(*ast.CallExpr); isCall {
				if s, isSel := c.Fun.(*ast.SelectorExpr); isSel && s.Sel.Name == "Join" {
					paths = append(paths, m+" "+types.ExprString(c))
				}
			}
			return true
		})
	}
	list("gen_compiled_paths", paths)
	tabs["ext"] = ext
	tabs["paths"] = paths
	fmt.Fprintf(&b, "Definition gen_compiled_shape_ok : bool := %v.\n", ok)
	g.tabs["compiled"] = tabs
	g.write("CompiledLayout.v", b.String())
}
