// gen_macro.go: MacroShape.v -- the shapes of node.go / render.go / zero_alloc_tokenizer.go that the C12
// statements (Spec/MacroSpec.v, Proofs/MacroProofs.v) rest on. Extracted syntactically:
//
//   - ms_body_in_fresh_ctx: (*MacroNode).CallMacro creates its context with NewRenderContext, makes the caller
//     (its *RenderContext parameter) the parent of that context, and never hands the caller's context to
//     anything: the parameter occurs only as the base of a selector (a field that is read, or the method call
//     ctx.EvaluateExpression(...) -- no other method of the caller is called, nothing is assigned through it) and
//     as the right-hand side of `<new>.parent = ctx`. Every call that renders (x.Render(w, c),
//     renderVariableString(s, c, w)) receives the new context. This is what "the body is rendered in a new
//     context, the caller's context is not written" (ev_call_macro) stands on.
//   - ms_defaults_in_caller: the default expression of a missing argument is evaluated by a method call whose
//     receiver is the caller parameter (ctx.EvaluateExpression(defaultVal)).
//   - ms_binding_three_way: inside `for i, param := range n.params` there are exactly three SetVariable calls on
//     the new context with first argument param: args[i] under `i < len(args)`, the evaluated default, and nil.
//   - ms_parent_read_only: in the whole package the field parent of a context is dereferenced only to call
//     GetVariable / GetMacro on it (or read in a loop header); nothing is assigned through `.parent.` and no
//     other method is called on a parent. Child contexts cannot write their creator.
//   - ms_import_renders_whole: ImportNode.Render and FromImportNode.Render each call
//     template.nodes.Render(io.Discard, <import context>): the whole imported template is rendered.
//   - ms_macro_tag_by_expression_lexer: processBlockTag has no case for "macro" in its switch on the tag name
//     and its default branch consists of t.TokenizeExpression(blockContent): what follows the tag name of a macro
//     tag is tokenised by TokenizeExpression (Model/ExprLexer.v), which is what the unreachability of the
//     combined-token declaration parser is proved about.
//
// A missing shape sets its flag to false; Proofs/MacroProofs.v checks ms_shape_ok by computation.
package main

import (
	"fmt"
	"go/ast"
	"go/token"
	"strings"
)

func init() { generators = append(generators, genMacroShape) }

// the name of the parameter of type *RenderContext of a function declaration
func renderCtxParam(fd *ast.FuncDecl) string {
	if fd == nil || fd.Type.Params == nil {
		return ""
	}
	for _, f := range fd.Type.Params.List {
		if st, ok := f.Type.(*ast.StarExpr); ok {
			if id, ok := st.X.(*ast.Ident); ok && id.Name == "RenderContext" && len(f.Names) == 1 {
				return f.Names[0].Name
			}
		}
	}
	return ""
}

func isIdent(e ast.Expr, name string) bool {
	id, ok := e.(*ast.Ident)
	return ok && id.Name == name
}

func genMacroShape(g *gen) {
	fresh, defaultsInCaller, threeWay := false, false, false
	parentRO, importWhole, macroTagLexer := false, false, false

	// ---- CallMacro
	if fd := g.funcDecl("MacroNode", "CallMacro"); fd != nil && fd.Body != nil {
		caller := renderCtxParam(fd)
		newCtx := ""
		parentSet := false
		ast.Inspect(fd.Body, func(n ast.Node) bool {
			as, ok := n.(*ast.AssignStmt)
			if !ok || len(as.Lhs) != 1 || len(as.Rhs) != 1 {
				return true
			}
			if call, ok := as.Rhs[0].(*ast.CallExpr); ok && isIdent(call.Fun, "NewRenderContext") {
				if id, ok := as.Lhs[0].(*ast.Ident); ok && newCtx == "" {
					newCtx = id.Name
				}
			}
			if sel, ok := as.Lhs[0].(*ast.SelectorExpr); ok && sel.Sel.Name == "parent" && newCtx != "" &&
				isIdent(sel.X, newCtx) && isIdent(as.Rhs[0], caller) {
				parentSet = true
			}
			return true
		})
		// every bare occurrence of the caller parameter: allowed as selector base and as the RHS of the parent assignment
		bareOK := caller != "" && newCtx != ""
		rendersOK, renders := true, 0
		// walk with a parent stack
		var stack []ast.Node
		ast.Inspect(fd.Body, func(n ast.Node) bool {
			if n == nil {
				stack = stack[:len(stack)-1]
				return true
			}
			if id, ok := n.(*ast.Ident); ok && id.Name == caller && len(stack) > 0 {
				switch p := stack[len(stack)-1].(type) {
				case *ast.SelectorExpr:
					if p.X != n {
						bareOK = false
					}
					// ctx.f: a method call on the caller must be EvaluateExpression, and nothing is assigned through it
					if len(stack) > 1 {
						if call, ok := stack[len(stack)-2].(*ast.CallExpr); ok && call.Fun == ast.Expr(p) && p.Sel.Name != "EvaluateExpression" {
							bareOK = false
						}
					}
					for k := len(stack) - 1; k >= 0; k-- {
						if as, ok := stack[k].(*ast.AssignStmt); ok {
							for _, l := range as.Lhs {
								inside := false
								ast.Inspect(l, func(m ast.Node) bool {
									if m == ast.Node(id) {
										inside = true
									}
									return true
								})
								if inside {
									bareOK = false
								}
							}
							break
						}
					}
				case *ast.AssignStmt:
					ok := false
					if len(p.Lhs) == 1 && len(p.Rhs) == 1 && p.Rhs[0] == n {
						if sel, isSel := p.Lhs[0].(*ast.SelectorExpr); isSel && sel.Sel.Name == "parent" && isIdent(sel.X, newCtx) {
							ok = true
						}
					}
					if !ok {
						bareOK = false
					}
				default:
					bareOK = false
				}
			}
			if call, ok := n.(*ast.CallExpr); ok {
				if sel, ok := call.Fun.(*ast.SelectorExpr); ok && sel.Sel.Name == "Render" && len(call.Args) == 2 {
					renders++
					if !isIdent(call.Args[1], newCtx) {
						rendersOK = false
					}
				}
				if isIdent(call.Fun, "renderVariableString") && len(call.Args) == 3 {
					renders++
					if !isIdent(call.Args[1], newCtx) {
						rendersOK = false
					}
				}
			}
			stack = append(stack, n)
			return true
		})
		fresh = bareOK && parentSet && rendersOK && renders >= 1

		// the binding loop
		ast.Inspect(fd.Body, func(n ast.Node) bool {
			rs, ok := n.(*ast.RangeStmt)
			if !ok {
				return true
			}
			sel, ok := rs.X.(*ast.SelectorExpr)
			if !ok || sel.Sel.Name != "params" {
				return true
			}
			idx, _ := rs.Key.(*ast.Ident)
			par, _ := rs.Value.(*ast.Ident)
			if idx == nil || par == nil {
				return true
			}
			var kinds []string
			evalRecv := ""
			ast.Inspect(rs.Body, func(m ast.Node) bool {
				call, ok := m.(*ast.CallExpr)
				if !ok {
					return true
				}
				s, ok := call.Fun.(*ast.SelectorExpr)
				if !ok {
					return true
				}
				if s.Sel.Name == "EvaluateExpression" {
					if id, ok := s.X.(*ast.Ident); ok {
						evalRecv = id.Name
					}
				}
				if s.Sel.Name == "SetVariable" && len(call.Args) == 2 && isIdent(s.X, newCtx) && isIdent(call.Args[0], par.Name) {
					switch a := call.Args[1].(type) {
					case *ast.IndexExpr:
						if isIdent(a.X, "args") && isIdent(a.Index, idx.Name) {
							kinds = append(kinds, "arg")
						} else {
							kinds = append(kinds, "?")
						}
					case *ast.Ident:
						if a.Name == "nil" {
							kinds = append(kinds, "nil")
						} else {
							kinds = append(kinds, "value")
						}
					default:
						kinds = append(kinds, "?")
					}
				}
				return true
			})
			// the guard of the first arm: i < len(args)
			guard := false
			if len(rs.Body.List) >= 1 {
				if ifs, ok := rs.Body.List[0].(*ast.IfStmt); ok {
					if be, ok := ifs.Cond.(*ast.BinaryExpr); ok && be.Op == token.LSS && isIdent(be.X, idx.Name) {
						if c, ok := be.Y.(*ast.CallExpr); ok && isIdent(c.Fun, "len") && len(c.Args) == 1 && isIdent(c.Args[0], "args") {
							guard = true
						}
					}
				}
			}
			threeWay = guard && strings.Join(kinds, ",") == "arg,value,nil"
			defaultsInCaller = evalRecv != "" && evalRecv == caller
			return false
		})
	}
	if !fresh {
		g.fail("MacroShape: (*MacroNode).CallMacro does not render its body in a context of its own with the caller as parent only")
	}
	if !defaultsInCaller {
		g.fail("MacroShape: CallMacro does not evaluate default expressions on the caller's context")
	}
	if !threeWay {
		g.fail("MacroShape: the binding loop of CallMacro is not argument / default / nil")
	}

	// ---- the parent pointer is read-only
	{
		okAll, uses := true, 0
		for _, f := range g.files {
			var stack []ast.Node
			ast.Inspect(f, func(n ast.Node) bool {
				if n == nil {
					stack = stack[:len(stack)-1]
					return true
				}
				if sel, ok := n.(*ast.SelectorExpr); ok && sel.Sel.Name == "parent" && len(stack) > 0 {
					// x.parent used as the base of another selector: x.parent.Y
					if outer, ok := stack[len(stack)-1].(*ast.SelectorExpr); ok && outer.X == n {
						uses++
						name := outer.Sel.Name
						isCall := false
						if len(stack) > 1 {
							if call, ok := stack[len(stack)-2].(*ast.CallExpr); ok && call.Fun == outer {
								isCall = true
							}
						}
						if !(isCall && (name == "GetVariable" || name == "GetMacro")) {
							okAll = false
						}
					}
					// x.parent[...] or an assignment whose left side goes through .parent.
				}
				// for c := ctx; c != nil; c = c.parent { ... }: a walk up the chain; it may read the contexts it
				// visits (c.context[name]) and must not assign through c
				if fs, ok := n.(*ast.ForStmt); ok && fs.Post != nil {
					if pa, ok := fs.Post.(*ast.AssignStmt); ok && len(pa.Lhs) == 1 && len(pa.Rhs) == 1 {
						if id, ok := pa.Lhs[0].(*ast.Ident); ok {
							if sel, ok := pa.Rhs[0].(*ast.SelectorExpr); ok && sel.Sel.Name == "parent" && isIdent(sel.X, id.Name) {
								uses++
								ast.Inspect(fs.Body, func(m ast.Node) bool {
									if as, ok := m.(*ast.AssignStmt); ok {
										for _, l := range as.Lhs {
											if _, plain := l.(*ast.Ident); plain {
												continue
											}
											// an assignment to something reached through the visited context
											ast.Inspect(l, func(k ast.Node) bool {
												if isIdent2(k, id.Name) {
													okAll = false
												}
												return true
											})
										}
									}
									return true
								})
							}
						}
					}
				}
				if as, ok := n.(*ast.AssignStmt); ok {
					for _, l := range as.Lhs {
						through := false
						ast.Inspect(l, func(m ast.Node) bool {
							if s, ok := m.(*ast.SelectorExpr); ok {
								if inner, ok := s.X.(*ast.SelectorExpr); ok && inner.Sel.Name == "parent" {
									through = true
								}
							}
							if ix, ok := m.(*ast.IndexExpr); ok {
								if inner, ok := ix.X.(*ast.SelectorExpr); ok && inner.Sel.Name == "parent" {
									through = true
								}
							}
							return true
						})
						if through {
							okAll = false
						}
					}
				}
				stack = append(stack, n)
				return true
			})
		}
		parentRO = okAll && uses >= 2
	}
	if !parentRO {
		g.fail("MacroShape: a context's parent is used for something else than GetVariable / GetMacro")
	}

	// ---- import / from render the whole template
	{
		count := 0
		for _, recv := range []string{"ImportNode", "FromImportNode"} {
			fd := g.funcDecl(recv, "Render")
			if fd == nil || fd.Body == nil {
				continue
			}
			found := false
			ast.Inspect(fd.Body, func(n ast.Node) bool {
				call, ok := n.(*ast.CallExpr)
				if !ok || len(call.Args) != 2 {
					return true
				}
				s, ok := call.Fun.(*ast.SelectorExpr)
				if !ok || s.Sel.Name != "Render" {
					return true
				}
				inner, ok := s.X.(*ast.SelectorExpr)
				if !ok || inner.Sel.Name != "nodes" {
					return true
				}
				if a, ok := call.Args[0].(*ast.SelectorExpr); ok && isIdent(a.X, "io") && a.Sel.Name == "Discard" {
					found = true
				}
				return true
			})
			if found {
				count++
			}
		}
		importWhole = count == 2
	}
	if !importWhole {
		g.fail("MacroShape: ImportNode.Render / FromImportNode.Render do not render template.nodes into io.Discard")
	}

	// ---- the macro tag goes through TokenizeExpression
	if fd := g.funcDecl("ZeroAllocTokenizer", "processBlockTag"); fd != nil && fd.Body != nil {
		ast.Inspect(fd.Body, func(n ast.Node) bool {
			sw, ok := n.(*ast.SwitchStmt)
			if !ok || !isIdent(sw.Tag, "blockName") {
				return true
			}
			hasMacroCase, defaultOK := false, false
			for _, st := range sw.Body.List {
				cc, ok := st.(*ast.CaseClause)
				if !ok {
					continue
				}
				if cc.List == nil {
					if len(cc.Body) == 1 {
						if es, ok := cc.Body[0].(*ast.ExprStmt); ok {
							if call, ok := es.X.(*ast.CallExpr); ok && len(call.Args) == 1 && isIdent(call.Args[0], "blockContent") {
								if s, ok := call.Fun.(*ast.SelectorExpr); ok && s.Sel.Name == "TokenizeExpression" {
									defaultOK = true
								}
							}
						}
					}
					continue
				}
				for _, e := range cc.List {
					if lit, ok := e.(*ast.BasicLit); ok && (lit.Value == `"macro"` || lit.Value == `"endmacro"`) {
						hasMacroCase = true
					}
				}
			}
			macroTagLexer = !hasMacroCase && defaultOK
			return false
		})
	}
	if !macroTagLexer {
		g.fail("MacroShape: processBlockTag does not hand the content of a macro tag to TokenizeExpression")
	}

	b := func(v bool) string {
		if v {
			return "true"
		}
		return "false"
	}
	var sb strings.Builder
	sb.WriteString("(* shapes of the macro machinery: MacroNode.CallMacro, the parent pointer, import / from, the macro tag *)\n")
	fmt.Fprintf(&sb, "Definition ms_body_in_fresh_ctx : bool := %s.\n", b(fresh))
	fmt.Fprintf(&sb, "Definition ms_defaults_in_caller : bool := %s.\n", b(defaultsInCaller))
	fmt.Fprintf(&sb, "Definition ms_binding_three_way : bool := %s.\n", b(threeWay))
	fmt.Fprintf(&sb, "Definition ms_parent_read_only : bool := %s.\n", b(parentRO))
	fmt.Fprintf(&sb, "Definition ms_import_renders_whole : bool := %s.\n", b(importWhole))
	fmt.Fprintf(&sb, "Definition ms_macro_tag_by_expression_lexer : bool := %s.\n", b(macroTagLexer))
	sb.WriteString("Definition ms_shape_ok : bool :=\n  ms_body_in_fresh_ctx && ms_defaults_in_caller && ms_binding_three_way && ms_parent_read_only &&\n  ms_import_renders_whole && ms_macro_tag_by_expression_lexer.\n")
	g.tabs["macro_shape"] = map[string]bool{"body_in_fresh_ctx": fresh, "defaults_in_caller": defaultsInCaller,
		"binding_three_way": threeWay, "parent_read_only": parentRO, "import_renders_whole": importWhole,
		"macro_tag_by_expression_lexer": macroTagLexer}
	g.write("MacroShape.v", sb.String())
}

func isIdent2(n ast.Node, name string) bool {
	id, ok := n.(*ast.Ident)
	return ok && id.Name == name
}
