// gen_maprange.go: MapRanges.v -- every place where the package iterates over a Go map (C03).
//
// The package is type-checked with go/types (source importer, standard library only), so a site is
// found by the static type of the ranged expression, not by its name:
//   - every `for ... := range X` whose X has a map type                      (kind "range")
//   - every call X.MapKeys() / X.MapRange() on a reflect.Value                (kind "MapKeys" / "MapRange")
// For each site: file, enclosing function (Recv.Name for methods; sites inside function literals
// belong to the enclosing declaration), the source text of the iterated expression, and whether the
// collected keys are sorted before they are used, in the same function:
//   - keys := X.MapKeys() followed by a call sort.F(keys, ...)
//   - for k := range X { ks = append(ks, k) } (the body is exactly that append) followed by sort.F(ks...)
// Line numbers are deliberately not part of the generated file (they go to tables.json) so that
// unrelated edits do not change it.
//
// When the type check reports errors, sites are still found where type information is available;
// range statements over an expression without type information are listed in maprange_untyped when a
// name heuristic (map, Map, keys of a `k, v` pair whose X is not an obvious slice) suggests a map, and
// maprange_typecheck_ok is false, which breaks Proofs/DetermGenProofs.v.
package main

import (
	"fmt"
	"go/ast"
	"go/importer"
	"go/token"
	"go/types"
	"sort"
	"strings"
)

func init() { generators = append(generators, genMapRanges) }

type mapRangeSite struct {
	File, Func, Expr, Kind string
	Sorted              bool
	Line                int
	Type                string
}

func genMapRanges(g *gen) {
	names := make([]string, 0, len(g.files))
	for n := range g.files {
		names = append(names, n)
	}
	sort.Strings(names)
	var files []*ast.File
	for _, n := range names {
		files = append(files, g.files[n])
	}
	info := &types.Info{Types: map[ast.Expr]types.TypeAndValue{}}
	nerr := 0
	firstErr := ""
	conf := types.Config{
		Importer: importer.ForCompiler(g.fset, "source", nil),
		Error: func(err error) {
			nerr++
			if firstErr == "" {
				firstErr = err.Error()
			}
		},
	}
	func() {
		defer func() {
			if r := recover(); r != nil {
				nerr++
				firstErr = fmt.Sprint("type checker panic: ", r)
			}
		}()
		conf.Check("twig", g.fset, files, info)
	}()
	if nerr > 0 {
		g.fail("MapRanges: type check of the package reported %d errors (first: %s)", nerr, firstErr)
	}

	var sites []mapRangeSite
	var untyped []mapRangeSite

	isMap := func(e ast.Expr) (bool, bool, string) { // (is a map, type known, type text)
		tv, ok := info.Types[e]
		if !ok || tv.Type == nil {
			return false, false, ""
		}
		_, m := tv.Type.Underlying().(*types.Map)
		return m, true, tv.Type.String()
	}
	isReflectValue := func(e ast.Expr) (bool, bool) {
		tv, ok := info.Types[e]
		if !ok || tv.Type == nil {
			return false, false
		}
		s := tv.Type.String()
		return s == "reflect.Value" || s == "*reflect.Value", true
	}

	for _, fname := range names {
		f := g.files[fname]
		for _, d := range f.Decls {
			fd, ok := d.(*ast.FuncDecl)
			if !ok || fd.Body == nil {
				continue
			}
			fn := fd.Name.Name
			if fd.Recv != nil && len(fd.Recv.List) == 1 {
				switch t := fd.Recv.List[0].Type.(type) {
				case *ast.StarExpr:
					if id, ok := t.X.(*ast.Ident); ok {
						fn = id.Name + "." + fn
					}
				case *ast.Ident:
					fn = t.Name + "." + fn
				}
			}
			// sort calls of this function: position and the identifiers mentioned in the first argument
			type sortCall struct {
				pos token.Pos
				arg string
			}
			var sorts []sortCall
			ast.Inspect(fd.Body, func(n ast.Node) bool {
				c, ok := n.(*ast.CallExpr)
				if !ok {
					return true
				}
				if s, ok := c.Fun.(*ast.SelectorExpr); ok {
					if id, ok := s.X.(*ast.Ident); ok && id.Name == "sort" && len(c.Args) > 0 {
						if a, ok := c.Args[0].(*ast.Ident); ok {
							sorts = append(sorts, sortCall{c.Pos(), a.Name})
						}
					}
				}
				return true
			})
			sortedLater := func(name string, after token.Pos) bool {
				for _, s := range sorts {
					if s.arg == name && s.pos > after {
						return true
					}
				}
				return false
			}
			// keys := X.MapKeys()
			assignedTo := map[*ast.CallExpr]string{}
			rangedOver := map[*ast.CallExpr]bool{}
			ast.Inspect(fd.Body, func(n ast.Node) bool {
				switch x := n.(type) {
				case *ast.AssignStmt:
					if len(x.Lhs) == 1 && len(x.Rhs) == 1 {
						if c, ok := x.Rhs[0].(*ast.CallExpr); ok {
							if id, ok := x.Lhs[0].(*ast.Ident); ok {
								assignedTo[c] = id.Name
							}
						}
					}
				case *ast.RangeStmt:
					if c, ok := x.X.(*ast.CallExpr); ok {
						rangedOver[c] = true
					}
				}
				return true
			})
			ast.Inspect(fd.Body, func(n ast.Node) bool {
				switch x := n.(type) {
				case *ast.RangeStmt:
					m, known, ty := isMap(x.X)
					site := mapRangeSite{File: fname, Func: fn, Expr: types.ExprString(x.X), Kind: "range", Line: g.fset.Position(x.Pos()).Line, Type: ty}
					if known && !m {
						return true
					}
					if !known {
						txt := site.Expr
						if strings.Contains(strings.ToLower(txt), "map") || (x.Key != nil && x.Value != nil && !strings.HasPrefix(txt, "[]")) {
							untyped = append(untyped, site)
						}
						return true
					}
					// sorted: the body is exactly  ks = append(ks, k)  and ks is sorted afterwards
					if len(x.Body.List) == 1 {
						if as, ok := x.Body.List[0].(*ast.AssignStmt); ok && len(as.Lhs) == 1 && len(as.Rhs) == 1 {
							if l, ok := as.Lhs[0].(*ast.Ident); ok {
								if c, ok := as.Rhs[0].(*ast.CallExpr); ok {
									if fid, ok := c.Fun.(*ast.Ident); ok && fid.Name == "append" && len(c.Args) == 2 {
										if a0, ok := c.Args[0].(*ast.Ident); ok && a0.Name == l.Name && sortedLater(l.Name, x.End()) {
											site.Sorted = true
										}
									}
								}
							}
						}
					}
					sites = append(sites, site)
				case *ast.CallExpr:
					s, ok := x.Fun.(*ast.SelectorExpr)
					if !ok || (s.Sel.Name != "MapKeys" && s.Sel.Name != "MapRange") || len(x.Args) != 0 {
						return true
					}
					rv, known := isReflectValue(s.X)
					if known && !rv {
						return true
					}
					site := mapRangeSite{File: fname, Func: fn, Expr: types.ExprString(s.X), Kind: s.Sel.Name, Line: g.fset.Position(x.Pos()).Line, Type: "reflect.Value"}
					if !known {
						untyped = append(untyped, site)
						return true
					}
					if name, ok := assignedTo[x]; ok && !rangedOver[x] && sortedLater(name, x.End()) {
						site.Sorted = true
					}
					sites = append(sites, site)
				}
				return true
			})
		}
	}
	sort.SliceStable(sites, func(i, j int) bool {
		if sites[i].File != sites[j].File {
			return sites[i].File < sites[j].File
		}
		return sites[i].Line < sites[j].Line
	})

	var b strings.Builder
	b.WriteString("(* Every iteration over a Go map in package twig: (file, enclosing function, iterated expression, kind, keys sorted in the same function). *)\n")
	b.WriteString("Definition maprange_sites : list (bytes * bytes * bytes * bytes * bool) := [\n")
	for i, s := range sites {
		sep := ";"
		if i == len(sites)-1 {
			sep = ""
		}
		fmt.Fprintf(&b, "  (%s, %s, %s, %s, %v)%s\n", coqStr(s.File), coqStr(s.Func), coqStr(s.Expr), coqStr(s.Kind), s.Sorted, sep)
	}
	b.WriteString("].\n\n")
	b.WriteString("(* range statements and MapKeys calls whose operand could not be typed (only when the type check failed) *)\n")
	b.WriteString("Definition maprange_untyped : list (bytes * bytes * bytes) := [\n")
	for i, s := range untyped {
		sep := ";"
		if i == len(untyped)-1 {
			sep = ""
		}
		fmt.Fprintf(&b, "  (%s, %s, %s)%s\n", coqStr(s.File), coqStr(s.Func), coqStr(s.Expr), sep)
	}
	b.WriteString("].\n\n")
	fmt.Fprintf(&b, "Definition maprange_typecheck_ok : bool := %v.\n", nerr == 0)
	g.tabs["map_ranges"] = sites
	g.tabs["map_ranges_untyped"] = untyped
	g.write("MapRanges.v", b.String())
}
