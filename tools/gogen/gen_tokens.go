// TokenKinds.v (C05): what the block parser model is tied to, re-read from the working tree on every run.
//   gen_token_kinds      the TOKEN_* constants of parser.go with their iota values
//   gen_block_handlers   the tag name -> handler method map of Parser.initBlockHandlers
//   gen_outer_end_tags   the tag names on which parseOuterTemplate steps back two tokens and returns
//   gen_skel_<func>      for parseOuterTemplate and every block handler the control skeleton in source
//                        order: every if / for condition, every index expression on the token slice
//                        (tok[...]), every assignment to tokenIndex (adv ...), every call of
//                        parseExpression / parseOuterTemplate, every return (ok / err), switch / case /
//                        break / continue.  Model/BlockParserShape.v holds the copy the model was written
//                        against; Proofs/RobustProofs.v compares the two by computation, so a handler
//                        that gains or loses a bounds test or a token access breaks the C05 theorems
//                        until the model is brought back in line.
package main

import (
	"fmt"
	"go/ast"
	"go/token"
	"go/types"
	"strings"
)

func init() { generators = append(generators, func(g *gen) { g.tokenKinds() }) }

var c05Handlers = []string{"parseOuterTemplate", "parseIf", "parseFor", "parseSet", "parseBlock", "parseExtends", "parseInclude",
	"parseImport", "parseFrom", "parseMacro", "parseDo", "parseApply", "parseSpaceless", "parseVerbatim", "parseEndTag"}

func isTokensSel(e ast.Expr) bool {
	s, ok := e.(*ast.SelectorExpr)
	return ok && s.Sel.Name == "tokens"
}

func isTokenIndexSel(e ast.Expr) bool {
	s, ok := e.(*ast.SelectorExpr)
	return ok && s.Sel.Name == "tokenIndex"
}

func (g *gen) skeleton(fn string) ([]string, bool) {
	fd := g.funcDecl("Parser", fn)
	if fd == nil || fd.Body == nil {
		g.fail("TokenKinds: func (*Parser).%s not found", fn)
		return nil, false
	}
	var ev []string
	ast.Inspect(fd.Body, func(n ast.Node) bool {
		switch x := n.(type) {
		case *ast.IfStmt:
			ev = append(ev, "if "+types.ExprString(x.Cond))
		case *ast.ForStmt:
			c := ""
			if x.Cond != nil {
				c = types.ExprString(x.Cond)
			}
			ev = append(ev, "for "+c)
		case *ast.RangeStmt:
			ev = append(ev, "range "+types.ExprString(x.X))
		case *ast.SwitchStmt:
			t := ""
			if x.Tag != nil {
				t = types.ExprString(x.Tag)
			}
			ev = append(ev, "switch "+t)
		case *ast.CaseClause:
			var parts []string
			for _, e := range x.List {
				parts = append(parts, types.ExprString(e))
			}
			if len(parts) == 0 {
				ev = append(ev, "default")
			} else {
				ev = append(ev, "case "+strings.Join(parts, ", "))
			}
		case *ast.BranchStmt:
			ev = append(ev, x.Tok.String())
		case *ast.IndexExpr:
			if isTokensSel(x.X) {
				ev = append(ev, "tok["+types.ExprString(x.Index)+"]")
			}
		case *ast.IncDecStmt:
			if isTokenIndexSel(x.X) {
				ev = append(ev, "adv "+x.Tok.String())
			}
		case *ast.AssignStmt:
			if len(x.Lhs) == 1 && isTokenIndexSel(x.Lhs[0]) && len(x.Rhs) == 1 {
				ev = append(ev, "adv "+x.Tok.String()+" "+types.ExprString(x.Rhs[0]))
			}
		case *ast.CallExpr:
			if s, ok := x.Fun.(*ast.SelectorExpr); ok && (s.Sel.Name == "parseExpression" || s.Sel.Name == "parseOuterTemplate") {
				ev = append(ev, "call "+s.Sel.Name)
			}
		case *ast.ReturnStmt:
			kind := "ok"
			if len(x.Results) == 2 {
				if id, ok := x.Results[1].(*ast.Ident); !ok || id.Name != "nil" {
					kind = "err"
				}
			}
			ev = append(ev, "ret "+kind)
		}
		return true
	})
	return ev, true
}

func (g *gen) tokenKinds() {
	var b strings.Builder
	ok := true
	// ---- TOKEN_* constants
	var kinds []tokKV
	if f := g.files["parser.go"]; f != nil {
		for _, d := range f.Decls {
			gd, isGen := d.(*ast.GenDecl)
			if !isGen || gd.Tok != token.CONST {
				continue
			}
			isTok := false
			for _, sp := range gd.Specs {
				vs := sp.(*ast.ValueSpec)
				for _, nm := range vs.Names {
					if nm.Name == "TOKEN_TEXT" {
						isTok = true
					}
				}
			}
			if !isTok {
				continue
			}
			// iota numbering: one name per spec, the first spec is `= iota`, the others carry no value
			for i, sp := range gd.Specs {
				vs := sp.(*ast.ValueSpec)
				if len(vs.Names) != 1 {
					g.fail("TokenKinds: const spec with %d names", len(vs.Names))
					ok = false
					continue
				}
				if i == 0 {
					id, isId := (ast.Expr)(nil), false
					if len(vs.Values) == 1 {
						id = vs.Values[0]
						_, isId = id.(*ast.Ident)
					}
					if !isId || id.(*ast.Ident).Name != "iota" {
						g.fail("TokenKinds: first TOKEN constant is not `= iota`")
						ok = false
					}
				} else if len(vs.Values) != 0 {
					g.fail("TokenKinds: constant %s has an explicit value", vs.Names[0].Name)
					ok = false
				}
				kinds = append(kinds, tokKV{vs.Names[0].Name, i})
			}
		}
	}
	if len(kinds) == 0 {
		g.fail("TokenKinds: TOKEN_* const block not found in parser.go")
		ok = false
	}
	b.WriteString("Definition gen_token_kinds : list (bytes * N) := [\n")
	for i, k := range kinds {
		sep := ";"
		if i == len(kinds)-1 {
			sep = ""
		}
		fmt.Fprintf(&b, "  (%s, %d%%N)%s\n", coqStr(k.name), k.val, sep)
	}
	b.WriteString("].\n\n")
	// ---- initBlockHandlers
	var handlers [][2]string
	if fd := g.funcDecl("Parser", "initBlockHandlers"); fd != nil {
		ast.Inspect(fd.Body, func(n ast.Node) bool {
			cl, isCl := n.(*ast.CompositeLit)
			if !isCl {
				return true
			}
			if _, isMap := cl.Type.(*ast.MapType); !isMap {
				return true
			}
			for _, e := range cl.Elts {
				kvx, isKV := e.(*ast.KeyValueExpr)
				if !isKV {
					continue
				}
				k, isLit := kvx.Key.(*ast.BasicLit)
				v, isSel := kvx.Value.(*ast.SelectorExpr)
				if isLit && isSel && k.Kind == token.STRING {
					handlers = append(handlers, [2]string{strings.Trim(k.Value, "\"`"), v.Sel.Name})
				}
			}
			return false
		})
	}
	if len(handlers) == 0 {
		g.fail("TokenKinds: blockHandlers map literal not found in initBlockHandlers")
		ok = false
	}
	b.WriteString("Definition gen_block_handlers : list (bytes * bytes) := [\n")
	for i, h := range handlers {
		sep := ";"
		if i == len(handlers)-1 {
			sep = ""
		}
		fmt.Fprintf(&b, "  (%s, %s)%s\n", coqStr(h[0]), coqStr(h[1]), sep)
	}
	b.WriteString("].\n\n")
	// ---- the end tags of parseOuterTemplate: `blockName == "x" || ...` guarding `p.tokenIndex -= 2`
	var endTags []string
	if fd := g.funcDecl("Parser", "parseOuterTemplate"); fd != nil {
		ast.Inspect(fd.Body, func(n ast.Node) bool {
			ifs, isIf := n.(*ast.IfStmt)
			if !isIf || len(endTags) > 0 {
				return true
			}
			steps := false
			for _, st := range ifs.Body.List {
				if as, isAs := st.(*ast.AssignStmt); isAs && as.Tok == token.SUB_ASSIGN && len(as.Lhs) == 1 && isTokenIndexSel(as.Lhs[0]) {
					steps = true
				}
			}
			if !steps {
				return true
			}
			ast.Inspect(ifs.Cond, func(m ast.Node) bool {
				be, isBin := m.(*ast.BinaryExpr)
				if isBin && be.Op == token.EQL {
					if id, isId := be.X.(*ast.Ident); isId && id.Name == "blockName" {
						if lit, isLit := be.Y.(*ast.BasicLit); isLit {
							endTags = append(endTags, strings.Trim(lit.Value, "\""))
						}
					}
				}
				return true
			})
			return true
		})
	}
	if len(endTags) == 0 {
		g.fail("TokenKinds: end-tag test of parseOuterTemplate not found")
		ok = false
	}
	b.WriteString("Definition gen_outer_end_tags : list bytes := [")
	for i, t := range endTags {
		if i > 0 {
			b.WriteString("; ")
		}
		b.WriteString(coqStr(t))
	}
	b.WriteString("].\n\n")
	// ---- skeletons
	skels := map[string][]string{}
	for _, fn := range c05Handlers {
		ev, found := g.skeleton(fn)
		ok = ok && found
		skels[fn] = ev
		fmt.Fprintf(&b, "Definition gen_skel_%s : list bytes := [\n", fn)
		for i, s := range ev {
			sep := ";"
			if i == len(ev)-1 {
				sep = ""
			}
			fmt.Fprintf(&b, "  %s%s\n", coqStr(strings.ReplaceAll(s, "\"", "'")), sep)
		}
		b.WriteString("].\n\n")
	}
	fmt.Fprintf(&b, "Definition gen_token_kinds_shape_ok : bool := %v.\n", ok)
	g.tabs["token_kinds"] = kinds2json(kinds)
	g.tabs["block_handlers"] = handlers
	g.tabs["outer_end_tags"] = endTags
	g.tabs["block_skeletons"] = skels
	g.write("TokenKinds.v", b.String())
}

type tokKV struct {
	name string
	val  int
}

func kinds2json(k []tokKV) [][2]interface{} {
	var out [][2]interface{}
	for _, x := range k {
		out = append(out, [2]interface{}{x.name, x.val})
	}
	return out
}
