// gen_ctxsites.go: CtxSites.v -- where render contexts are created and where the sandbox policy is consulted
// (property C06). Extracted syntactically from every non-test file of the package:
//
//	cs_sites   every statement  v := NewRenderContext(...)  /  v = NewRenderContext(...)  /  v := x.Clone()
//	           with the file, the enclosing function, the variable, whether the enclosing function has a creating
//	           context (a receiver or parameter of type *RenderContext), how the new context's sandboxed field is
//	           set before the context is used:
//	             inherit  v.sandboxed = <creating context>.sandboxed, unconditionally after the creation
//	             forced   v.sandboxed = true (or v.EnableSandbox()), unconditionally
//	             other    some other right-hand side
//	             none     no such assignment
//	             clone    the site is a Clone() call: the copy is made inside Clone (cs_clone_*)
//	           the calls that USE the new context (a method call on it, or passing it as an argument; Release,
//	           SetVariable, SetParent and plain field assignments are not uses) between the creation and that
//	           assignment, in source order (cs_uses_before: must be empty -- the macro context evaluating
//	           parameter defaults before it inherits the flag is the regression this records), and the conditions
//	           of the if statements under which the field is additionally forced to true before the first use
//	           (cs_forced_if: n.sandboxed for the include tag).
//	cs_clone_propagates / cs_clone_uses_before   the same for the body of (*RenderContext).Clone.
//	cs_new_resets_flag   NewRenderContext assigns sandboxed = false to the pooled object.
//	cs_applyfilter_check_first, cs_callfunction_check_first   the FIRST statement of ApplyFilter / CallFunction is
//	           if <recv>.sandboxed && ... securityPolicy != nil && !...IsFilterAllowed(<name>) { return nil, NewFilterViolation(<name>) }
//	           (IsFunctionAllowed / NewFunctionViolation).
//	cs_evalexpr_check   EvaluateExpression has, before its main type switch, the guarded type switch that refuses a
//	           FunctionNode / FilterNode by name.
//	cs_filter_readers / cs_function_readers   the functions that read the environment's filter / function table
//	           (x.filters[...] / x.functions[...] not as an assignment target): a filter can only be invoked by a
//	           function that looks it up.
//	cs_policy_callers   the functions that call IsFilterAllowed / IsFunctionAllowed.
//
// Proofs/SandboxSites.v computes the obligation C06_sites_propagate on these tables.
package main

import (
	"bytes"
	"fmt"
	"go/ast"
	"go/printer"
	"go/token"
	"sort"
	"strings"
)

func init() { generators = append(generators, genCtxSites) }

type csEvent struct {
	kind   string // create | prop | use
	v      string
	detail string   // create: new|clone ; prop: rhs text ; use: callee
	arg    string   // create (clone): receiver of Clone
	conds  []string // enclosing if conditions
	line   int
}

type csWalker struct {
	g      *gen
	events []csEvent
}

func (w *csWalker) text(n ast.Node) string {
	var b bytes.Buffer
	printer.Fprint(&b, w.g.fset, n)
	return strings.Join(strings.Fields(b.String()), " ")
}

var csNotUse = map[string]bool{"Release": true, "SetVariable": true, "SetParent": true}

// the calls inside an expression (or statement) that use a variable: v.M(...) or f(..., v, ...)
func (w *csWalker) scanUses(n ast.Node, conds []string) {
	if n == nil {
		return
	}
	ast.Inspect(n, func(x ast.Node) bool {
		if _, ok := x.(*ast.FuncLit); ok {
			return false
		}
		call, ok := x.(*ast.CallExpr)
		if !ok {
			return true
		}
		line := w.g.fset.Position(call.Pos()).Line
		if sel, ok := call.Fun.(*ast.SelectorExpr); ok {
			if id, ok := sel.X.(*ast.Ident); ok {
				if sel.Sel.Name == "EnableSandbox" {
					w.events = append(w.events, csEvent{kind: "prop", v: id.Name, detail: "true", conds: conds, line: line})
				} else if !csNotUse[sel.Sel.Name] {
					w.events = append(w.events, csEvent{kind: "use", v: id.Name, detail: id.Name + "." + sel.Sel.Name, conds: conds, line: line})
				}
			}
		}
		for _, a := range call.Args {
			if id, ok := a.(*ast.Ident); ok {
				w.events = append(w.events, csEvent{kind: "use", v: id.Name, detail: w.text(call.Fun) + "(.." + id.Name + "..)", conds: conds, line: line})
			}
		}
		return true
	})
}

func csCreation(e ast.Expr) (kind, arg string, ok bool) {
	call, isCall := e.(*ast.CallExpr)
	if !isCall {
		return "", "", false
	}
	if id, isId := call.Fun.(*ast.Ident); isId && id.Name == "NewRenderContext" {
		return "new", "", true
	}
	if sel, isSel := call.Fun.(*ast.SelectorExpr); isSel && sel.Sel.Name == "Clone" && len(call.Args) == 0 {
		if id, isId := sel.X.(*ast.Ident); isId {
			return "clone", id.Name, true
		}
		return "clone", "?", true
	}
	return "", "", false
}

func (w *csWalker) stmts(list []ast.Stmt, conds []string) {
	for _, s := range list {
		w.stmt(s, conds)
	}
}

func (w *csWalker) stmt(s ast.Stmt, conds []string) {
	switch t := s.(type) {
	case nil:
	case *ast.AssignStmt:
		line := w.g.fset.Position(t.Pos()).Line
		for _, r := range t.Rhs {
			w.scanUses(r, conds)
		}
		if len(t.Lhs) == 1 && len(t.Rhs) == 1 {
			if kind, arg, ok := csCreation(t.Rhs[0]); ok {
				if id, isId := t.Lhs[0].(*ast.Ident); isId {
					w.events = append(w.events, csEvent{kind: "create", v: id.Name, detail: kind, arg: arg, conds: conds, line: line})
				} else {
					w.events = append(w.events, csEvent{kind: "create", v: "?", detail: kind, arg: arg, conds: conds, line: line})
				}
			}
			if sel, isSel := t.Lhs[0].(*ast.SelectorExpr); isSel && sel.Sel.Name == "sandboxed" {
				if id, isId := sel.X.(*ast.Ident); isId {
					w.events = append(w.events, csEvent{kind: "prop", v: id.Name, detail: w.text(t.Rhs[0]), conds: conds, line: line})
				}
			}
		}
	case *ast.ExprStmt:
		w.scanUses(t.X, conds)
	case *ast.DeferStmt:
		w.scanUses(t.Call, conds)
	case *ast.GoStmt:
		w.scanUses(t.Call, conds)
	case *ast.ReturnStmt:
		for _, r := range t.Results {
			w.scanUses(r, conds)
		}
	case *ast.DeclStmt:
		w.scanUses(t.Decl, conds)
	case *ast.BlockStmt:
		w.stmts(t.List, conds)
	case *ast.IfStmt:
		w.stmt(t.Init, conds)
		w.scanUses(t.Cond, conds)
		c := w.text(t.Cond)
		w.stmts(t.Body.List, append(append([]string{}, conds...), c))
		if t.Else != nil {
			w.stmt(t.Else, append(append([]string{}, conds...), "!("+c+")"))
		}
	case *ast.ForStmt:
		w.stmt(t.Init, conds)
		w.scanUses(t.Cond, conds)
		w.stmts(t.Body.List, append(append([]string{}, conds...), "for"))
		w.stmt(t.Post, conds)
	case *ast.RangeStmt:
		w.scanUses(t.X, conds)
		w.stmts(t.Body.List, append(append([]string{}, conds...), "range"))
	case *ast.SwitchStmt:
		w.stmt(t.Init, conds)
		w.scanUses(t.Tag, conds)
		for _, c := range t.Body.List {
			if cc, ok := c.(*ast.CaseClause); ok {
				w.stmts(cc.Body, append(append([]string{}, conds...), "case"))
			}
		}
	case *ast.TypeSwitchStmt:
		for _, c := range t.Body.List {
			if cc, ok := c.(*ast.CaseClause); ok {
				w.stmts(cc.Body, append(append([]string{}, conds...), "case"))
			}
		}
	case *ast.LabeledStmt:
		w.stmt(t.Stmt, conds)
	default:
		w.scanUses(s, conds)
	}
}

func csSameConds(a, b []string) bool {
	if len(a) != len(b) {
		return false
	}
	for i := range a {
		if a[i] != b[i] {
			return false
		}
	}
	return true
}

func csHasPrefix(a, prefix []string) bool {
	return len(a) >= len(prefix) && csSameConds(a[:len(prefix)], prefix)
}

// the receiver or parameter of type *RenderContext of a function
func csCreator(fd *ast.FuncDecl) string {
	isCtx := func(t ast.Expr) bool {
		st, ok := t.(*ast.StarExpr)
		if !ok {
			return false
		}
		id, ok := st.X.(*ast.Ident)
		return ok && id.Name == "RenderContext"
	}
	if fd.Recv != nil && len(fd.Recv.List) == 1 && isCtx(fd.Recv.List[0].Type) && len(fd.Recv.List[0].Names) == 1 {
		return fd.Recv.List[0].Names[0].Name
	}
	if fd.Type.Params != nil {
		for _, f := range fd.Type.Params.List {
			if isCtx(f.Type) && len(f.Names) >= 1 {
				return f.Names[0].Name
			}
		}
	}
	return ""
}

type csSite struct {
	file, fn, v, kind, prop string
	hasCreator              bool
	usesBefore, forcedIf    []string
	line                    int
}

// how the variable created by event i gets its flag, and what uses it before
func csAnalyse(events []csEvent, i int, creator string) (prop string, usesBefore, forcedIf []string) {
	c := events[i]
	prop = "none"
	used := false
	for j := i + 1; j < len(events); j++ {
		e := events[j]
		if e.v != c.v {
			continue
		}
		if e.kind == "create" {
			break
		}
		switch e.kind {
		case "prop":
			// unconditional with respect to the creation: in the same block, or in a block around it
			if csSameConds(e.conds, c.conds) || csHasPrefix(c.conds, e.conds) {
				if prop == "none" {
					switch {
					case creator != "" && e.detail == creator+".sandboxed":
						prop = "inherit"
					case e.detail == "true":
						prop = "forced"
					default:
						prop = "other"
					}
				}
			} else if csHasPrefix(e.conds, c.conds) && e.detail == "true" && !used {
				// a conditional forcing counts only while nothing has used the context yet
				forcedIf = append(forcedIf, strings.Join(e.conds[len(c.conds):], " && "))
			}
		case "use":
			if prop == "none" {
				usesBefore = append(usesBefore, e.detail)
			}
			used = true
		}
	}
	return
}

func genCtxSites(g *gen) {
	var sites []csSite
	var cloneProp string = "none"
	var cloneUses []string
	newResets := false
	afCheck, cfCheck, eeCheck := false, false, false
	filterReaders, functionReaders, policyCallers := map[string]bool{}, map[string]bool{}, map[string]bool{}

	for _, fname := range g.sortedFileNames() {
		f := g.files[fname]
		for _, d := range f.Decls {
			fd, ok := d.(*ast.FuncDecl)
			if !ok || fd.Body == nil {
				continue
			}
			label := funcLabel(fd)
			w := &csWalker{g: g}
			creator := csCreator(fd)

			// ---- creation sites
			w.stmts(fd.Body.List, nil)
			for i, e := range w.events {
				if e.kind != "create" {
					continue
				}
				s := csSite{file: fname, fn: label, v: e.v, kind: e.detail, hasCreator: creator != "", line: e.line}
				if e.detail == "clone" {
					s.prop = "clone"
					_, s.usesBefore, _ = csAnalyse(w.events, i, creator)
					s.usesBefore = nil // the flag is copied inside Clone, before the caller sees the context
				} else {
					s.prop, s.usesBefore, s.forcedIf = csAnalyse(w.events, i, creator)
				}
				sites = append(sites, s)
			}

			// ---- Clone and NewRenderContext themselves
			if label == "RenderContext.Clone" || label == "NewRenderContext" {
				v := varBoundToPoolGet(fd.Body, "renderContextPool")
				if v != "" {
					// treat the pool Get as the creation
					pos := -1
					var evs []csEvent
					evs = append(evs, csEvent{kind: "create", v: v, detail: "new"})
					pos = 0
					evs = append(evs, w.events...)
					p, uses, _ := csAnalyse(evs, pos, creator)
					if label == "RenderContext.Clone" {
						cloneProp, cloneUses = p, uses
					} else {
						for _, e := range w.events {
							if e.kind == "prop" && e.v == v && e.detail == "false" {
								newResets = true
							}
						}
					}
				}
			}

			// ---- the policy checks
			if label == "RenderContext.ApplyFilter" || label == "RenderContext.CallFunction" {
				okc := false
				if len(fd.Body.List) > 0 && fd.Type.Params != nil && len(fd.Type.Params.List) > 0 && len(fd.Type.Params.List[0].Names) > 0 {
					name := fd.Type.Params.List[0].Names[0].Name
					allowed, viol := "IsFilterAllowed", "NewFilterViolation"
					if label == "RenderContext.CallFunction" {
						allowed, viol = "IsFunctionAllowed", "NewFunctionViolation"
					}
					if ifs, ok := fd.Body.List[0].(*ast.IfStmt); ok && ifs.Init == nil && ifs.Else == nil {
						cond := w.text(ifs.Cond)
						leaves := andLeaves(ifs.Cond)
						hasFlag, hasPol, hasNeg := false, false, false
						for _, l := range leaves {
							lt := w.text(l)
							if lt == creator+".sandboxed" {
								hasFlag = true
							}
							if lt == creator+".env.securityPolicy != nil" {
								hasPol = true
							}
							if lt == "!"+creator+".env.securityPolicy."+allowed+"("+name+")" {
								hasNeg = true
							}
						}
						// every conjunct is one of: the flag, a nil guard, the negated policy answer
						onlyGuards := true
						for _, l := range leaves {
							lt := w.text(l)
							if !(lt == creator+".sandboxed" || lt == creator+".env != nil" || lt == creator+".env.securityPolicy != nil" ||
								lt == "!"+creator+".env.securityPolicy."+allowed+"("+name+")") {
								onlyGuards = false
							}
						}
						ret := false
						if len(ifs.Body.List) == 1 {
							if r, ok := ifs.Body.List[0].(*ast.ReturnStmt); ok && len(r.Results) == 2 {
								ret = w.text(r.Results[0]) == "nil" && w.text(r.Results[1]) == viol+"("+name+")"
							}
						}
						okc = hasFlag && hasPol && hasNeg && onlyGuards && ret
						_ = cond
					}
				}
				if label == "RenderContext.ApplyFilter" {
					afCheck = okc
				} else {
					cfCheck = okc
				}
			}
			if label == "RenderContext.EvaluateExpression" {
				// statements before the main type switch: an if on the flag containing a type switch that refuses by name
				for _, s := range fd.Body.List {
					if _, isSwitch := s.(*ast.TypeSwitchStmt); isSwitch {
						break
					}
					ifs, ok := s.(*ast.IfStmt)
					if !ok {
						continue
					}
					flag := false
					for _, l := range andLeaves(ifs.Cond) {
						if w.text(l) == creator+".sandboxed" {
							flag = true
						}
					}
					if !flag {
						continue
					}
					fnCase, flCase := false, false
					ast.Inspect(ifs.Body, func(x ast.Node) bool {
						cc, ok := x.(*ast.CaseClause)
						if !ok || len(cc.List) != 1 {
							return true
						}
						ty := w.text(cc.List[0])
						body := ""
						for _, b := range cc.Body {
							body += w.text(b) + " "
						}
						if ty == "*FunctionNode" && strings.Contains(body, "!"+creator+".env.securityPolicy.IsFunctionAllowed(n.name)") &&
							strings.Contains(body, "return nil, NewFunctionViolation(n.name)") {
							fnCase = true
						}
						if ty == "*FilterNode" && strings.Contains(body, "!"+creator+".env.securityPolicy.IsFilterAllowed(n.filter)") &&
							strings.Contains(body, "return nil, NewFilterViolation(n.filter)") {
							flCase = true
						}
						return true
					})
					if fnCase && flCase {
						eeCheck = true
					}
				}
			}

			// ---- who reads the filter / function tables, who asks the policy
			assigned := map[ast.Expr]bool{}
			ast.Inspect(fd.Body, func(x ast.Node) bool {
				if as, ok := x.(*ast.AssignStmt); ok {
					for _, l := range as.Lhs {
						assigned[l] = true
					}
				}
				return true
			})
			ast.Inspect(fd.Body, func(x ast.Node) bool {
				switch t := x.(type) {
				case *ast.IndexExpr:
					if assigned[t] {
						return true
					}
					if sel, ok := t.X.(*ast.SelectorExpr); ok {
						if sel.Sel.Name == "filters" {
							filterReaders[label] = true
						}
						if sel.Sel.Name == "functions" {
							functionReaders[label] = true
						}
					}
				case *ast.RangeStmt:
					if sel, ok := t.X.(*ast.SelectorExpr); ok {
						if sel.Sel.Name == "filters" {
							filterReaders[label] = true
						}
						if sel.Sel.Name == "functions" {
							functionReaders[label] = true
						}
					}
				case *ast.CallExpr:
					if sel, ok := t.Fun.(*ast.SelectorExpr); ok && (sel.Sel.Name == "IsFilterAllowed" || sel.Sel.Name == "IsFunctionAllowed") {
						policyCallers[label] = true
					}
				}
				return true
			})
		}
	}

	if len(sites) == 0 {
		g.fail("CtxSites: no NewRenderContext( / .Clone() call found")
	}
	if !afCheck {
		g.fail("CtxSites: the first statement of (*RenderContext).ApplyFilter is not the sandbox policy check")
	}
	if !cfCheck {
		g.fail("CtxSites: the first statement of (*RenderContext).CallFunction is not the sandbox policy check")
	}
	if !eeCheck {
		g.fail("CtxSites: (*RenderContext).EvaluateExpression has no guarded refusal of FunctionNode / FilterNode before its type switch")
	}
	if cloneProp != "inherit" {
		g.fail("CtxSites: (*RenderContext).Clone does not copy the sandboxed field from its receiver")
	}

	keys := func(m map[string]bool) []string {
		var r []string
		for k := range m {
			r = append(r, k)
		}
		sort.Strings(r)
		return r
	}
	propCoq := map[string]string{"inherit": "CsInherit", "forced": "CsForced", "other": "CsOther", "none": "CsNone", "clone": "CsViaClone"}
	var b strings.Builder
	b.WriteString("Inductive cs_kind := CsNew | CsClone.\n")
	b.WriteString("Inductive cs_prop := CsInherit | CsForced | CsOther | CsNone | CsViaClone.\n")
	b.WriteString("Record cs_site := MkCsSite {\n  cs_file : bytes; cs_func : bytes; cs_var : bytes; cs_kind_of : cs_kind;\n" +
		"  cs_has_creator : bool;       (* the enclosing function has a receiver / parameter of type pointer to RenderContext *)\n" +
		"  cs_prop_of : cs_prop;        (* how the new context gets its sandboxed field *)\n" +
		"  cs_uses_before : list bytes; (* calls that use the new context before that *)\n" +
		"  cs_forced_if : list bytes    (* conditions under which the field is additionally set to true before the first use *)\n}.\n\n")
	b.WriteString("Definition cs_sites : list cs_site := [\n")
	var tab []map[string]interface{}
	for i, s := range sites {
		kind := "CsNew"
		if s.kind == "clone" {
			kind = "CsClone"
		}
		sep := ";"
		if i == len(sites)-1 {
			sep = ""
		}
		fmt.Fprintf(&b, "  MkCsSite %s %s %s %s %s %s %s %s%s\n", coqStr(s.file), coqStr(s.fn), coqStr(s.v), kind,
			coqBool(s.hasCreator), propCoq[s.prop], coqList(s.usesBefore), coqList(s.forcedIf), sep)
		tab = append(tab, map[string]interface{}{"file": s.file, "func": s.fn, "var": s.v, "kind": s.kind, "has_creator": s.hasCreator,
			"prop": s.prop, "uses_before": s.usesBefore, "forced_if": s.forcedIf, "line": s.line})
	}
	b.WriteString("].\n\n")
	fmt.Fprintf(&b, "(* RenderContext.Clone: newCtx.sandboxed = <receiver>.sandboxed before the copy is used *)\n")
	fmt.Fprintf(&b, "Definition cs_clone_prop : cs_prop := %s.\n", propCoq[cloneProp])
	fmt.Fprintf(&b, "Definition cs_clone_uses_before : list bytes := %s.\n", coqList(cloneUses))
	fmt.Fprintf(&b, "Definition cs_new_resets_flag : bool := %s.\n\n", coqBool(newResets))
	fmt.Fprintf(&b, "Definition cs_applyfilter_check_first : bool := %s.\n", coqBool(afCheck))
	fmt.Fprintf(&b, "Definition cs_callfunction_check_first : bool := %s.\n", coqBool(cfCheck))
	fmt.Fprintf(&b, "Definition cs_evalexpr_check : bool := %s.\n\n", coqBool(eeCheck))
	fmt.Fprintf(&b, "Definition cs_filter_readers : list bytes := %s.\n", coqList(keys(filterReaders)))
	fmt.Fprintf(&b, "Definition cs_function_readers : list bytes := %s.\n", coqList(keys(functionReaders)))
	fmt.Fprintf(&b, "Definition cs_policy_callers : list bytes := %s.\n", coqList(keys(policyCallers)))
	g.tabs["ctx_sites"] = map[string]interface{}{"sites": tab, "clone_prop": cloneProp, "clone_uses_before": cloneUses,
		"new_resets_flag": newResets, "applyfilter_check_first": afCheck, "callfunction_check_first": cfCheck, "evalexpr_check": eeCheck,
		"filter_readers": keys(filterReaders), "function_readers": keys(functionReaders), "policy_callers": keys(policyCallers)}
	g.write("CtxSites.v", b.String())
}

var _ = token.NoPos
