// gen_include.go: IncludeShape.v -- the shapes of (*IncludeNode).Render in node.go that the include helper of the
// evaluator model (Model/Eval.v ev_include) and the C11 theorems depend on. Extracted syntactically:
//
//   - ics_name_in_includer: the template-name expression n.template is evaluated by ctx.EvaluateExpression,
//     ctx being the context parameter of Render (the including context), and by no other receiver.
//   - ics_with_in_includer: inside every loop over n.variables every EvaluateExpression has the receiver ctx.
//   - ics_with_bound_in_child: inside these loops the value is bound by SetVariable on a context other than ctx,
//     and nothing is stored through an index expression (no write into a variable map of the includer).
//   - ics_clone_for_plain: the context of the include is assigned from ctx.Clone() (plain / with) or from
//     NewRenderContext (only / sandboxed), never the including context itself.
//   - ics_no_deferred_handler: Render has an unnamed result and defers no function literal (nothing rewrites the
//     error of the whole include afterwards).
//   - ics_ignore_missing_local: every use of n.ignoreMissing is the condition (joined with errors.Is(err,
//     ErrTemplateNotFound)) of an if statement that consists of `return nil` and stands inside an `if err != nil`
//     right after one of the exactly two ctx.engine.Load calls.
//   - ics_sandbox_copies_chain: what the sandboxed-without-only branch copies into the new context: false = the
//     own map of ctx (a range over ctx.context), true = the own map and every parent (a for loop that walks
//     c = c.parent). The model mirrors `false`; Proofs/IncludeProofs.v states the scope theorem for this branch
//     according to this flag.
//   - ics_sandbox_copy_recognised: one of the two shapes was found.
//
// A missing shape sets its flag to false; Proofs/IncludeProofs.v checks ics_shape_ok by computation.
package main

import (
	"fmt"
	"go/ast"
	"go/token"
	"strings"
)

func init() { generators = append(generators, genIncludeShape) }

func icsIsSel(e ast.Expr, x, sel string) bool {
	s, ok := e.(*ast.SelectorExpr)
	if !ok || s.Sel.Name != sel {
		return false
	}
	id, ok := s.X.(*ast.Ident)
	return ok && id.Name == x
}

// methodCall returns (receiver identifier, true) when e is <ident>.<method>(...)
func icsMethodCallOn(e ast.Expr, method string) (string, *ast.CallExpr, bool) {
	c, ok := e.(*ast.CallExpr)
	if !ok {
		return "", nil, false
	}
	s, ok := c.Fun.(*ast.SelectorExpr)
	if !ok || s.Sel.Name != method {
		return "", nil, false
	}
	id, ok := s.X.(*ast.Ident)
	if !ok {
		return "", c, true // a method of that name on something that is not a plain identifier
	}
	return id.Name, c, true
}

func genIncludeShape(g *gen) {
	nameInIncluder, withInIncluder, withBoundInChild := false, false, false
	cloneForPlain, noDeferredHandler, ignoreLocal := false, false, false
	copiesChain, copyRecognised := false, false

	fd := g.funcDecl("IncludeNode", "Render")
	if fd != nil && fd.Body != nil && fd.Type.Params != nil && len(fd.Type.Params.List) == 2 &&
		len(fd.Type.Params.List[1].Names) == 1 && fd.Recv != nil && len(fd.Recv.List[0].Names) == 1 {
		ctx := fd.Type.Params.List[1].Names[0].Name
		recv := fd.Recv.List[0].Names[0].Name

		// ---- unnamed result, no deferred function literal
		noDeferredHandler = true
		if fd.Type.Results != nil {
			for _, f := range fd.Type.Results.List {
				if len(f.Names) > 0 {
					noDeferredHandler = false
				}
			}
		}

		// ---- walk with a stack of enclosing nodes
		var stack []ast.Node
		nameEvalGood, nameEvalBad := 0, 0
		rangesOverVars, withEvalGood, withEvalBad := 0, 0, 0
		bindChild, bindBad := 0, 0
		assignClone, assignFresh, assignSelf := 0, 0, 0
		loads := 0
		ignUses, ignGood := 0, 0
		ownCopy, chainCopy := false, false

		inRangeOverVars := func() bool {
			for _, n := range stack {
				if r, ok := n.(*ast.RangeStmt); ok && icsIsSel(r.X, recv, "variables") {
					return true
				}
			}
			return false
		}
		ast.Inspect(fd.Body, func(n ast.Node) bool {
			if n == nil {
				stack = stack[:len(stack)-1]
				return true
			}
			switch s := n.(type) {
			case *ast.DeferStmt:
				if _, ok := s.Call.Fun.(*ast.FuncLit); ok {
					noDeferredHandler = false
				}
			case *ast.RangeStmt:
				if icsIsSel(s.X, recv, "variables") {
					rangesOverVars++
				}
				if icsIsSel(s.X, ctx, "context") {
					// for k, v := range ctx.context { contextVars[k] = v }
					ast.Inspect(s.Body, func(m ast.Node) bool {
						if as, ok := m.(*ast.AssignStmt); ok && len(as.Lhs) == 1 {
							if ix, ok := as.Lhs[0].(*ast.IndexExpr); ok {
								if id, ok := ix.X.(*ast.Ident); ok && id.Name == "contextVars" {
									ownCopy = true
								}
							}
						}
						return true
					})
				}
			case *ast.ForStmt:
				// for c := ctx; c != nil; c = c.parent { ... contextVars[k] = v ... }
				if as, ok := s.Post.(*ast.AssignStmt); ok && len(as.Rhs) == 1 {
					if sel, ok := as.Rhs[0].(*ast.SelectorExpr); ok && sel.Sel.Name == "parent" {
						ast.Inspect(s.Body, func(m ast.Node) bool {
							if as2, ok := m.(*ast.AssignStmt); ok && len(as2.Lhs) == 1 {
								if ix, ok := as2.Lhs[0].(*ast.IndexExpr); ok {
									if id, ok := ix.X.(*ast.Ident); ok && id.Name == "contextVars" {
										chainCopy = true
									}
								}
							}
							return true
						})
					}
				}
			case *ast.CallExpr:
				if r, c, ok := icsMethodCallOn(s, "EvaluateExpression"); ok && c != nil && len(c.Args) == 1 {
					if icsIsSel(c.Args[0], recv, "template") {
						if r == ctx {
							nameEvalGood++
						} else {
							nameEvalBad++
						}
					} else if inRangeOverVars() {
						if r == ctx {
							withEvalGood++
						} else {
							withEvalBad++
						}
					}
				}
				if r, _, ok := icsMethodCallOn(s, "SetVariable"); ok && inRangeOverVars() {
					if r != "" && r != ctx {
						bindChild++
					} else {
						bindBad++
					}
				}
				// ctx.engine.Load(...)
				if sel, ok := s.Fun.(*ast.SelectorExpr); ok && sel.Sel.Name == "Load" && icsIsSel(sel.X, ctx, "engine") {
					loads++
				}
			case *ast.AssignStmt:
				if inRangeOverVars() {
					for _, l := range s.Lhs {
						if _, ok := l.(*ast.IndexExpr); ok {
							bindBad++
						}
					}
				}
				if len(s.Lhs) == 1 && len(s.Rhs) == 1 {
					if id, ok := s.Lhs[0].(*ast.Ident); ok && id.Name == "includeCtx" {
						if r, _, ok := icsMethodCallOn(s.Rhs[0], "Clone"); ok && r == ctx {
							assignClone++
						} else if c, ok := s.Rhs[0].(*ast.CallExpr); ok {
							if f, ok := c.Fun.(*ast.Ident); ok && f.Name == "NewRenderContext" {
								assignFresh++
							} else {
								assignSelf++
							}
						} else {
							assignSelf++ // includeCtx = ctx, or anything else
						}
					}
				}
			case *ast.SelectorExpr:
				if icsIsSel(s, recv, "ignoreMissing") {
					ignUses++
					// the innermost enclosing if: the use is in its condition, its body is `return nil`;
					// an enclosing if has the condition err != nil
					good := false
					for i := len(stack) - 1; i >= 0; i-- {
						ifs, ok := stack[i].(*ast.IfStmt)
						if !ok {
							continue
						}
						inCond := false
						ast.Inspect(ifs.Cond, func(m ast.Node) bool {
							if m == ast.Node(s) {
								inCond = true
							}
							return true
						})
						if !inCond {
							break
						}
						mentionsNotFound := false
						ast.Inspect(ifs.Cond, func(m ast.Node) bool {
							if id, ok := m.(*ast.Ident); ok && id.Name == "ErrTemplateNotFound" {
								mentionsNotFound = true
							}
							return true
						})
						returnsNil := false
						if len(ifs.Body.List) == 1 && ifs.Else == nil {
							if rs, ok := ifs.Body.List[0].(*ast.ReturnStmt); ok && len(rs.Results) == 1 {
								if id, ok := rs.Results[0].(*ast.Ident); ok && id.Name == "nil" {
									returnsNil = true
								}
							}
						}
						underErr := false
						for j := i - 1; j >= 0; j-- {
							if outer, ok := stack[j].(*ast.IfStmt); ok {
								if be, ok := outer.Cond.(*ast.BinaryExpr); ok && be.Op == token.NEQ {
									if x, ok := be.X.(*ast.Ident); ok && x.Name == "err" {
										if y, ok := be.Y.(*ast.Ident); ok && y.Name == "nil" {
											underErr = true
										}
									}
								}
							}
						}
						good = mentionsNotFound && returnsNil && underErr
						break
					}
					if good {
						ignGood++
					}
				}
			}
			stack = append(stack, n)
			return true
		})

		nameInIncluder = nameEvalGood >= 1 && nameEvalBad == 0
		withInIncluder = rangesOverVars >= 1 && withEvalGood >= 1 && withEvalBad == 0
		withBoundInChild = rangesOverVars >= 1 && bindChild >= 1 && bindBad == 0
		cloneForPlain = assignClone >= 1 && assignFresh >= 1 && assignSelf == 0
		ignoreLocal = loads == 2 && ignUses >= 1 && ignGood == ignUses
		copiesChain = chainCopy
		copyRecognised = chainCopy != ownCopy
	}
	if !nameInIncluder {
		g.fail("IncludeShape: IncludeNode.Render does not evaluate n.template in the including context only")
	}
	if !withInIncluder {
		g.fail("IncludeShape: IncludeNode.Render does not evaluate every with value in the including context")
	}
	if !withBoundInChild {
		g.fail("IncludeShape: IncludeNode.Render does not bind the with values by SetVariable on the context of the include only")
	}
	if !cloneForPlain {
		g.fail("IncludeShape: the context of the include is not always ctx.Clone() or a NewRenderContext")
	}
	if !noDeferredHandler {
		g.fail("IncludeShape: IncludeNode.Render has a named result or defers a function literal")
	}
	if !ignoreLocal {
		g.fail("IncludeShape: n.ignoreMissing is not confined to `return nil` right after the two ctx.engine.Load calls")
	}
	if !copyRecognised {
		g.fail("IncludeShape: the copy of the including context for sandboxed-without-only was not recognised")
	}

	b2s := func(b bool) string {
		if b {
			return "true"
		}
		return "false"
	}
	var b strings.Builder
	fmt.Fprintf(&b, "(* IncludeNode.Render: the name and every with value are evaluated by the including context *)\n")
	fmt.Fprintf(&b, "Definition ics_name_in_includer : bool := %s.\n", b2s(nameInIncluder))
	fmt.Fprintf(&b, "Definition ics_with_in_includer : bool := %s.\n", b2s(withInIncluder))
	fmt.Fprintf(&b, "(* with values are bound by SetVariable on the context of the include; that context is a Clone or a new one *)\n")
	fmt.Fprintf(&b, "Definition ics_with_bound_in_child : bool := %s.\n", b2s(withBoundInChild))
	fmt.Fprintf(&b, "Definition ics_clone_for_plain : bool := %s.\n", b2s(cloneForPlain))
	fmt.Fprintf(&b, "(* no deferred rewriting of the error; ignore missing only in return nil right after the two Load calls *)\n")
	fmt.Fprintf(&b, "Definition ics_no_deferred_handler : bool := %s.\n", b2s(noDeferredHandler))
	fmt.Fprintf(&b, "Definition ics_ignore_missing_local : bool := %s.\n", b2s(ignoreLocal))
	fmt.Fprintf(&b, "(* sandboxed without only: false = copies the own map of the including context, true = own map and every parent *)\n")
	fmt.Fprintf(&b, "Definition ics_sandbox_copies_chain : bool := %s.\n", b2s(copiesChain))
	fmt.Fprintf(&b, "Definition ics_sandbox_copy_recognised : bool := %s.\n", b2s(copyRecognised))
	fmt.Fprintf(&b, "Definition ics_shape_ok : bool := ics_name_in_includer && ics_with_in_includer && ics_with_bound_in_child && ics_clone_for_plain && ics_no_deferred_handler && ics_ignore_missing_local && ics_sandbox_copy_recognised.\n")
	g.tabs["include_shape"] = map[string]bool{"name_in_includer": nameInIncluder, "with_in_includer": withInIncluder,
		"with_bound_in_child": withBoundInChild, "clone_for_plain": cloneForPlain, "no_deferred_handler": noDeferredHandler,
		"ignore_missing_local": ignoreLocal, "sandbox_copies_chain": copiesChain, "sandbox_copy_recognised": copyRecognised}
	g.write("IncludeShape.v", b.String())
}
