// gen_eval.go: EvalShape.v -- shapes of render.go / node.go that the evaluator model (Model/Eval.v,
// Model/ValueOps.v) and the C09 theorems depend on. Extracted syntactically:
//
//   - evs_tobool_float_by_value: in (*RenderContext).toBool the type-switch case that mentions float64
//     lists exactly one type (then `v != 0` is a float comparison). While float32 and float64 share a case,
//     v keeps the interface type and `v != 0` compares with the int constant 0, which is never equal: a
//     float64 zero is truthy. The model follows this flag (vo_to_bool), so it mirrors the tree with and
//     without the repair; the C09 truthiness theorem is stated under the flag.
//   - evs_tobool_int_by_value: the same for the case that mentions int (int shares its case with int8..int64
//     on the pinned tree, which is harmless for int itself because the constant 0 is an int).
//   - evs_tobool_shape_ok: toBool exists, has the nil guard and a type switch with cases for bool, string,
//     []interface{} and map[string]interface{}.
//   - evs_for_restores_loop: (*ForNode).renderForLoop looks up "loop" in loopCtx.context and defers
//     SetVariable("loop", <saved>) -- the restoration C09_nested_loops_independent is about.
//   - evs_for_string_runes: the reflect.String arm of renderForLoop ranges over []rune(...).
//   - evs_for_sorted_keys: the reflect.Map arm ranges over sortedMapKeys(...).
//
// A missing shape sets its flag to false; Proofs/EvalProofs.v checks evs_shape_ok by computation.
package main

import (
	"fmt"
	"go/ast"
	"go/token"
	"strings"
)

func init() { generators = append(generators, genEvalShape) }

func typeExprString(e ast.Expr) string {
	switch t := e.(type) {
	case *ast.Ident:
		return t.Name
	case *ast.ArrayType:
		return "[]" + typeExprString(t.Elt)
	case *ast.MapType:
		return "map[" + typeExprString(t.Key) + "]" + typeExprString(t.Value)
	case *ast.InterfaceType:
		return "interface{}"
	case *ast.StarExpr:
		return "*" + typeExprString(t.X)
	case *ast.SelectorExpr:
		return typeExprString(t.X) + "." + t.Sel.Name
	}
	return "?"
}

func genEvalShape(g *gen) {
	floatByValue, intByValue, toBoolOK := false, false, false
	restores, runes, sortedKeys := false, false, false

	if fd := g.funcDecl("RenderContext", "toBool"); fd != nil && fd.Body != nil {
		seen := map[string]int{} // type name -> number of types in its case
		nilGuard := false
		ast.Inspect(fd.Body, func(n ast.Node) bool {
			switch s := n.(type) {
			case *ast.IfStmt:
				if be, ok := s.Cond.(*ast.BinaryExpr); ok && be.Op == token.EQL {
					if id, ok := be.Y.(*ast.Ident); ok && id.Name == "nil" {
						nilGuard = true
					}
				}
			case *ast.TypeSwitchStmt:
				for _, st := range s.Body.List {
					cc, ok := st.(*ast.CaseClause)
					if !ok {
						continue
					}
					for _, t := range cc.List {
						name := typeExprString(t)
						if _, dup := seen[name]; !dup {
							seen[name] = len(cc.List)
						}
					}
				}
				return false
			}
			return true
		})
		floatByValue = seen["float64"] == 1
		intByValue = seen["int"] == 1
		toBoolOK = nilGuard && seen["bool"] == 1 && seen["string"] == 1 && seen["[]interface{}"] == 1 &&
			seen["map[string]interface{}"] == 1 && seen["float64"] >= 1 && seen["int"] >= 1
	}
	if !toBoolOK {
		g.fail("EvalShape: (*RenderContext).toBool does not have the expected nil guard and type switch")
	}

	if fd := g.funcDecl("ForNode", "renderForLoop"); fd != nil && fd.Body != nil {
		looksUpLoop := false
		ast.Inspect(fd.Body, func(n ast.Node) bool {
			switch s := n.(type) {
			case *ast.IndexExpr:
				if lit, ok := s.Index.(*ast.BasicLit); ok && lit.Value == `"loop"` {
					if sel, ok := s.X.(*ast.SelectorExpr); ok && sel.Sel.Name == "context" {
						looksUpLoop = true
					}
				}
			case *ast.DeferStmt:
				if sel, ok := s.Call.Fun.(*ast.SelectorExpr); ok && sel.Sel.Name == "SetVariable" && len(s.Call.Args) == 2 {
					if lit, ok := s.Call.Args[0].(*ast.BasicLit); ok && lit.Value == `"loop"` {
						restores = true
					}
				}
			case *ast.RangeStmt:
				if call, ok := s.X.(*ast.CallExpr); ok {
					if at, ok := call.Fun.(*ast.ArrayType); ok {
						if id, ok := at.Elt.(*ast.Ident); ok && id.Name == "rune" {
							runes = true
						}
					}
					if id, ok := call.Fun.(*ast.Ident); ok && id.Name == "sortedMapKeys" {
						sortedKeys = true
					}
				}
				if id, ok := s.X.(*ast.Ident); ok && id.Name == "keys" {
					// keys := sortedMapKeys(val); for i, key := range keys
					ast.Inspect(fd.Body, func(m ast.Node) bool {
						if as, ok := m.(*ast.AssignStmt); ok && len(as.Lhs) == 1 && len(as.Rhs) == 1 {
							if l, ok := as.Lhs[0].(*ast.Ident); ok && l.Name == "keys" {
								if c, ok := as.Rhs[0].(*ast.CallExpr); ok {
									if f, ok := c.Fun.(*ast.Ident); ok && f.Name == "sortedMapKeys" {
										sortedKeys = true
									}
								}
							}
						}
						return true
					})
				}
			}
			return true
		})
		restores = restores && looksUpLoop
	}
	if !restores {
		g.fail("EvalShape: renderForLoop does not save context[\"loop\"] and defer SetVariable(\"loop\", saved)")
	}
	if !runes {
		g.fail("EvalShape: renderForLoop does not range over []rune(...) for strings")
	}
	if !sortedKeys {
		g.fail("EvalShape: renderForLoop does not range over sortedMapKeys(...) for maps")
	}

	b2s := func(b bool) string {
		if b {
			return "true"
		}
		return "false"
	}
	var b strings.Builder
	fmt.Fprintf(&b, "(* toBool: the float64 case lists one type only, so that v != 0 is a float comparison *)\n")
	fmt.Fprintf(&b, "Definition evs_tobool_float_by_value : bool := %s.\n", b2s(floatByValue))
	fmt.Fprintf(&b, "Definition evs_tobool_int_by_value : bool := %s.\n", b2s(intByValue))
	fmt.Fprintf(&b, "Definition evs_tobool_shape_ok : bool := %s.\n", b2s(toBoolOK))
	fmt.Fprintf(&b, "(* renderForLoop: saves context[loop] and defers SetVariable(loop, saved) *)\n")
	fmt.Fprintf(&b, "Definition evs_for_restores_loop : bool := %s.\n", b2s(restores))
	fmt.Fprintf(&b, "Definition evs_for_string_runes : bool := %s.\n", b2s(runes))
	fmt.Fprintf(&b, "Definition evs_for_sorted_keys : bool := %s.\n", b2s(sortedKeys))
	fmt.Fprintf(&b, "Definition evs_shape_ok : bool := evs_tobool_shape_ok && evs_for_restores_loop && evs_for_string_runes && evs_for_sorted_keys.\n")
	g.tabs["eval_shape"] = map[string]bool{"tobool_float_by_value": floatByValue, "tobool_int_by_value": intByValue,
		"tobool_shape_ok": toBoolOK, "for_restores_loop": restores, "for_string_runes": runes, "for_sorted_keys": sortedKeys}
	g.write("EvalShape.v", b.String())
}
