package main

import (
	"fmt"
	"go/ast"
	"go/token"
	"sort"
	"strings"
)

func init() {
	generators = append(generators, genThresholds, genTagPatterns, genBoundaryTests)
}

// Thresholds.v: the source length above which Parser.Parse switches to TokenizeOptimized
func genThresholds(g *gen) {
	fd := g.funcDecl("Parser", "Parse")
	thr := ""
	if fd != nil {
		ast.Inspect(fd.Body, func(n ast.Node) bool {
			ifs, ok := n.(*ast.IfStmt)
			if !ok {
				return true
			}
			be, ok := ifs.Cond.(*ast.BinaryExpr)
			if !ok || be.Op != token.GTR {
				return true
			}
			if call, ok := be.X.(*ast.CallExpr); ok {
				if id, ok := call.Fun.(*ast.Ident); ok && id.Name == "len" {
					if lit, ok := be.Y.(*ast.BasicLit); ok && thr == "" {
						// the branch must call TokenizeOptimized
						found := false
						ast.Inspect(ifs.Body, func(m ast.Node) bool {
							if s, ok := m.(*ast.SelectorExpr); ok && s.Sel.Name == "TokenizeOptimized" {
								found = true
							}
							return true
						})
						if found {
							thr = lit.Value
						}
					}
				}
			}
			return true
		})
	}
	var b strings.Builder
	if thr == "" {
		g.fail("Thresholds: `if len(p.source) > N { ... TokenizeOptimized() }` not found in Parser.Parse")
		b.WriteString("Definition tokenizer_threshold_found : bool := false.\nDefinition tokenizer_threshold : N := 0%N.\n")
	} else {
		fmt.Fprintf(&b, "Definition tokenizer_threshold_found : bool := true.\nDefinition tokenizer_threshold : N := %s%%N.\n", thr)
	}
	g.tabs["tokenizer_threshold"] = thr
	g.write("Thresholds.v", b.String())
}

// TagPatterns.v: the opener spellings of TokenizeHtmlPreserving, in the order the code tries them
func genTagPatterns(g *gen) {
	fd := g.funcDecl("ZeroAllocTokenizer", "TokenizeHtmlPreserving")
	var pats []string
	if fd != nil {
		ast.Inspect(fd.Body, func(n ast.Node) bool {
			as, ok := n.(*ast.AssignStmt)
			if !ok || len(as.Lhs) != 1 {
				return true
			}
			if id, ok := as.Lhs[0].(*ast.Ident); !ok || id.Name != "tagPatterns" {
				return true
			}
			if cl, ok := as.Rhs[0].(*ast.CompositeLit); ok {
				for _, e := range cl.Elts {
					if lit, ok := e.(*ast.BasicLit); ok {
						pats = append(pats, strings.Trim(lit.Value, "\""))
					}
				}
			}
			return false
		})
	}
	if len(pats) == 0 {
		g.fail("TagPatterns: tagPatterns literal not found in TokenizeHtmlPreserving")
	}
	var b strings.Builder
	b.WriteString("Definition tag_patterns : list bytes := [")
	for i, p := range pats {
		if i > 0 {
			b.WriteString("; ")
		}
		b.WriteString(coqStr(p))
	}
	b.WriteString("].\n")
	g.write("TagPatterns.v", b.String())
}

// BoundaryTests.v: every comparison of a token type with a non-trim delimiter constant whose
// condition does not also accept the whitespace-control variant (C13: a dash must never change
// whether a template parses).
func genBoundaryTests(g *gen) {
	consts := map[string]bool{"TOKEN_VAR_START": true, "TOKEN_VAR_END": true, "TOKEN_BLOCK_START": true, "TOKEN_BLOCK_END": true}
	type site struct{ fn, c, pos string }
	var sites []site
	total := 0
	names := make([]string, 0, len(g.files))
	for n := range g.files {
		names = append(names, n)
	}
	sort.Strings(names)
	mentions := func(n ast.Node, name string) bool {
		found := false
		ast.Inspect(n, func(m ast.Node) bool {
			if id, ok := m.(*ast.Ident); ok && id.Name == name {
				found = true
			}
			return true
		})
		return found
	}
	for _, fname := range names {
		if !(strings.HasPrefix(fname, "parse") || fname == "parser.go") {
			continue
		}
		for _, d := range g.files[fname].Decls {
			fd, ok := d.(*ast.FuncDecl)
			if !ok || fd.Body == nil {
				continue
			}
			var stack []ast.Node
			ast.Inspect(fd.Body, func(n ast.Node) bool {
				if n == nil {
					stack = stack[:len(stack)-1]
					return true
				}
				stack = append(stack, n)
				switch x := n.(type) {
				case *ast.BinaryExpr:
					if x.Op != token.EQL && x.Op != token.NEQ {
						return true
					}
					var c string
					if id, ok := x.Y.(*ast.Ident); ok && consts[id.Name] {
						c = id.Name
					} else if id, ok := x.X.(*ast.Ident); ok && consts[id.Name] {
						c = id.Name
					}
					if c == "" {
						return true
					}
					total++
					// climb to the root of the enclosing boolean expression
					root := ast.Node(x)
					for i := len(stack) - 2; i >= 0; i-- {
						switch p := stack[i].(type) {
						case *ast.BinaryExpr:
							if p.Op == token.LAND || p.Op == token.LOR {
								root = p
								continue
							}
						case *ast.ParenExpr, *ast.UnaryExpr:
							root = p
							continue
						}
						break
					}
					if !mentions(root, c+"_TRIM") {
						sites = append(sites, site{fd.Name.Name, c, g.fset.Position(x.Pos()).String()})
					}
				case *ast.CaseClause:
					for _, e := range x.List {
						if id, ok := e.(*ast.Ident); ok && consts[id.Name] {
							total++
							has := false
							for _, e2 := range x.List {
								if id2, ok := e2.(*ast.Ident); ok && id2.Name == id.Name+"_TRIM" {
									has = true
								}
							}
							if !has {
								sites = append(sites, site{fd.Name.Name, id.Name, g.fset.Position(id.Pos()).String()})
							}
						}
					}
				}
				return true
			})
		}
	}
	var b strings.Builder
	fmt.Fprintf(&b, "(* %d comparisons with VAR_START / VAR_END / BLOCK_START / BLOCK_END examined in parser.go and parse_*.go *)\n", total)
	fmt.Fprintf(&b, "Definition boundary_tests_examined : N := %d%%N.\n", total)
	b.WriteString("(* (function, constant) of every comparison that does not also accept the _TRIM variant *)\n")
	b.WriteString("Definition exact_boundary_sites : list (bytes * bytes) := [")
	for i, s := range sites {
		if i > 0 {
			b.WriteString(";")
		}
		fmt.Fprintf(&b, "\n  (%s, %s)", coqStr(s.fn), coqStr(s.c))
	}
	b.WriteString("].\n")
	var js []string
	for _, s := range sites {
		js = append(js, s.pos+" "+s.fn+" "+s.c)
	}
	g.tabs["exact_boundary_sites"] = js
	g.write("BoundaryTests.v", b.String())
}
