// gen_date.go: DateTable.v -- the PHP-to-Go date letter table of convertDateFormat in extension.go (C03).
// Extracted syntactically:
//   - the key/value pairs of the `replacements` map literal, in source order (keys may repeat in a
//     broken tree; Go itself rejects duplicate constant keys, the theorem C03_date_table_functional
//     re-checks it on what is extracted)
//   - date_single_pass: the function body contains a counting loop over the bytes of the format that
//     looks the one-byte string format[i:i+1] up in the table (replacements[format[i:i+1]]), and contains
//     neither a range statement over the table nor a call of strings.ReplaceAll / strings.Replace /
//     strings.NewReplacer. The model Model/DateFmt.v is that single pass; Proofs/DetermProofs.v demands the flag.
//   - date_copies_other_bytes: the else branch writes format[i] unchanged
package main

import (
	"fmt"
	"go/ast"
	"go/token"
	"go/types"
	"strconv"
	"strings"
)

func init() { generators = append(generators, genDateTable) }

func genDateTable(g *gen) {
	fd := g.funcDecl("", "convertDateFormat")
	var pairs [][2]string
	tableVar := ""
	found, lookup, copies, bad := false, false, false, false
	if fd == nil || fd.Body == nil {
		g.fail("DateTable: func convertDateFormat not found")
	} else {
		// the map literal: first assignment / var of a map[string]string composite literal
		ast.Inspect(fd.Body, func(n ast.Node) bool {
			if found {
				return false
			}
			var lhs string
			var rhs ast.Expr
			switch x := n.(type) {
			case *ast.AssignStmt:
				if len(x.Lhs) == 1 && len(x.Rhs) == 1 {
					if id, ok := x.Lhs[0].(*ast.Ident); ok {
						lhs, rhs = id.Name, x.Rhs[0]
					}
				}
			case *ast.ValueSpec:
				if len(x.Names) == 1 && len(x.Values) == 1 {
					lhs, rhs = x.Names[0].Name, x.Values[0]
				}
			}
			cl, ok := rhs.(*ast.CompositeLit)
			if !ok {
				return true
			}
			if _, ok := cl.Type.(*ast.MapType); !ok {
				return true
			}
			found = true
			tableVar = lhs
			for _, e := range cl.Elts {
				kv, ok := e.(*ast.KeyValueExpr)
				if !ok {
					g.fail("DateTable: table element is not key: value")
					continue
				}
				k, ok1 := kv.Key.(*ast.BasicLit)
				v, ok2 := kv.Value.(*ast.BasicLit)
				if !ok1 || !ok2 || k.Kind != token.STRING || v.Kind != token.STRING {
					g.fail("DateTable: table element is not a pair of string literals")
					continue
				}
				ks, err1 := strconv.Unquote(k.Value)
				vs, err2 := strconv.Unquote(v.Value)
				if err1 != nil || err2 != nil {
					g.fail("DateTable: cannot unquote %s / %s", k.Value, v.Value)
					continue
				}
				pairs = append(pairs, [2]string{ks, vs})
			}
			return false
		})
		if !found {
			g.fail("DateTable: no map literal in convertDateFormat")
		}
		ast.Inspect(fd.Body, func(n ast.Node) bool {
			switch x := n.(type) {
			case *ast.RangeStmt:
				if id, ok := x.X.(*ast.Ident); ok && id.Name == tableVar {
					bad = true
				}
			case *ast.CallExpr:
				if s, ok := x.Fun.(*ast.SelectorExpr); ok {
					if id, ok := s.X.(*ast.Ident); ok && id.Name == "strings" && (s.Sel.Name == "ReplaceAll" || s.Sel.Name == "Replace" || s.Sel.Name == "NewReplacer") {
						bad = true
					}
					if s.Sel.Name == "WriteByte" && len(x.Args) == 1 && strings.ReplaceAll(types.ExprString(x.Args[0]), " ", "") == "format[i]" {
						copies = true
					}
				}
			case *ast.IndexExpr:
				if id, ok := x.X.(*ast.Ident); ok && id.Name == tableVar {
					if strings.ReplaceAll(types.ExprString(x.Index), " ", "") == "format[i:i+1]" {
						lookup = true
					}
				}
			}
			return true
		})
	}
	// the counting loop: for i := 0; i < len(format); i++
	counting := false
	if fd != nil && fd.Body != nil {
		ast.Inspect(fd.Body, func(n ast.Node) bool {
			if fs, ok := n.(*ast.ForStmt); ok && fs.Cond != nil && fs.Post != nil {
				if strings.ReplaceAll(types.ExprString(fs.Cond), " ", "") == "i<len(format)" {
					if inc, ok := fs.Post.(*ast.IncDecStmt); ok && inc.Tok == token.INC {
						counting = true
					}
				}
			}
			return true
		})
	}
	single := found && lookup && counting && !bad
	if !single {
		g.fail("DateTable: convertDateFormat is not the single left-to-right pass (table literal %v, one-letter lookup %v, counting loop %v, range/ReplaceAll %v)", found, lookup, counting, bad)
	}
	oneByte := true
	for _, p := range pairs {
		if len(p[0]) != 1 {
			oneByte = false
		}
	}
	var b strings.Builder
	b.WriteString("(* The letter table of convertDateFormat (extension.go), in source order: (PHP letter, Go layout text). *)\n")
	b.WriteString("Definition date_table_raw : list (bytes * bytes) := [\n")
	for i, p := range pairs {
		sep := ";"
		if i == len(pairs)-1 {
			sep = ""
		}
		fmt.Fprintf(&b, "  (%s, %s)%s\n", coqStr(p[0]), coqStr(p[1]), sep)
	}
	b.WriteString("].\n\n")
	fmt.Fprintf(&b, "Definition date_keys_one_byte : bool := %v.\n", oneByte)
	fmt.Fprintf(&b, "Definition date_single_pass : bool := %v.\n", single)
	fmt.Fprintf(&b, "Definition date_copies_other_bytes : bool := %v.\n", copies)
	g.tabs["date_table"] = pairs
	g.write("DateTable.v", b.String())
}
