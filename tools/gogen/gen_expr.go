// gen_expr.go: the tables of the expression lexer and parser (C08).
//
// CharClass.v, from parser.go and zero_alloc_tokenizer.go:
//   - the character sets of isOperator / isPunctuation (the string literal given to
//     strings.ContainsRune) and isWhitespace (the chain of c == '..' comparisons)
//   - from TokenizeExpression: the order in which the loop body tries its branches
//     (string / in-string / operator / punctuation / whitespace / identifier / number), the
//     two-character operators, the identifier start and continuation ranges, the digit range and
//     whether the number branch accepts a leading minus
//
// PrecTable.v, from parser.go:
//   - the PREC_* constants, the operator -> PREC_* switch of getOperatorPrecedence and its default
//   - the word operators of peekBinaryOperator: first word, (following word -> operator spelling)
//     alternatives, spelling when no alternative applies
//   - the minimum precedence parseExpression starts from and the increment used for the right operand
//
// A missing shape sets cc_shape_ok / prec_shape_found to false, which breaks Proofs/ParserProofs.v.
package main

import (
	"fmt"
	"go/ast"
	"go/token"
	"strconv"
	"strings"
)

func init() { generators = append(generators, genCharClass, genPrecTable) }

func coqByte(c byte) string { return fmt.Sprintf("x%02x", c) }

func coqBytes(s string) string {
	var b strings.Builder
	b.WriteString("[")
	for i := 0; i < len(s); i++ {
		if i > 0 {
			b.WriteString("; ")
		}
		b.WriteString(coqByte(s[i]))
	}
	b.WriteString("]")
	return b.String()
}

// charLit returns the byte of a character literal expression
func charLit(e ast.Expr) (byte, bool) {
	lit, ok := e.(*ast.BasicLit)
	if !ok || lit.Kind != token.CHAR {
		return 0, false
	}
	s, err := strconv.Unquote(lit.Value)
	if err != nil || len(s) != 1 {
		return 0, false
	}
	return s[0], true
}

func strLit(e ast.Expr) (string, bool) {
	lit, ok := e.(*ast.BasicLit)
	if !ok || lit.Kind != token.STRING {
		return "", false
	}
	s, err := strconv.Unquote(lit.Value)
	if err != nil {
		return "", false
	}
	return s, true
}

func unparen(e ast.Expr) ast.Expr {
	for {
		p, ok := e.(*ast.ParenExpr)
		if !ok {
			return e
		}
		e = p.X
	}
}

// orLeaves flattens a || b || c
func orLeaves(e ast.Expr) []ast.Expr {
	e = unparen(e)
	if b, ok := e.(*ast.BinaryExpr); ok && b.Op == token.LOR {
		return append(orLeaves(b.X), orLeaves(b.Y)...)
	}
	return []ast.Expr{e}
}

func andLeaves(e ast.Expr) []ast.Expr {
	e = unparen(e)
	if b, ok := e.(*ast.BinaryExpr); ok && b.Op == token.LAND {
		return append(andLeaves(b.X), andLeaves(b.Y)...)
	}
	return []ast.Expr{e}
}

// rangeOf recognises `X >= 'a' && X <= 'z'` and `X == '_'` (X any expression) as a byte range
func rangeOf(e ast.Expr) (lo, hi byte, ok bool) {
	ls := andLeaves(e)
	if len(ls) == 1 {
		if b, isb := ls[0].(*ast.BinaryExpr); isb && b.Op == token.EQL {
			if c, okc := charLit(b.Y); okc {
				return c, c, true
			}
		}
		return 0, 0, false
	}
	if len(ls) == 2 {
		b1, ok1 := ls[0].(*ast.BinaryExpr)
		b2, ok2 := ls[1].(*ast.BinaryExpr)
		if ok1 && ok2 && b1.Op == token.GEQ && b2.Op == token.LEQ {
			c1, okc1 := charLit(b1.Y)
			c2, okc2 := charLit(b2.Y)
			if okc1 && okc2 {
				return c1, c2, true
			}
		}
	}
	return 0, 0, false
}

func coqRanges(rs [][2]byte) string {
	var b strings.Builder
	b.WriteString("[")
	for i, r := range rs {
		if i > 0 {
			b.WriteString("; ")
		}
		fmt.Fprintf(&b, "(%s, %s)", coqByte(r[0]), coqByte(r[1]))
	}
	b.WriteString("]")
	return b.String()
}

// containsRuneSet: the function body is `return strings.ContainsRune("<set>", rune(c))`
func (g *gen) containsRuneSet(fn string) (string, bool) {
	fd := g.funcDecl("", fn)
	if fd == nil || fd.Body == nil || len(fd.Body.List) != 1 {
		return "", false
	}
	ret, ok := fd.Body.List[0].(*ast.ReturnStmt)
	if !ok || len(ret.Results) != 1 {
		return "", false
	}
	call, ok := ret.Results[0].(*ast.CallExpr)
	if !ok || len(call.Args) != 2 {
		return "", false
	}
	sel, ok := call.Fun.(*ast.SelectorExpr)
	if !ok || sel.Sel.Name != "ContainsRune" {
		return "", false
	}
	return strLit(call.Args[0])
}

func callsFunc(e ast.Expr, name string) bool {
	found := false
	ast.Inspect(e, func(n ast.Node) bool {
		if c, ok := n.(*ast.CallExpr); ok {
			if id, ok := c.Fun.(*ast.Ident); ok && id.Name == name {
				found = true
			}
		}
		return true
	})
	return found
}

func mentionsChar(e ast.Expr, c byte) bool {
	found := false
	ast.Inspect(e, func(n ast.Node) bool {
		if x, ok := n.(ast.Expr); ok {
			if d, ok := charLit(x); ok && d == c {
				found = true
			}
		}
		return true
	})
	return found
}

func genCharClass(g *gen) {
	ok := true
	miss := func(format string, a ...interface{}) {
		ok = false
		g.fail("CharClass: "+format, a...)
	}
	ops, ok1 := g.containsRuneSet("isOperator")
	if !ok1 {
		miss("isOperator is not `return strings.ContainsRune(<literal>, rune(c))`")
	}
	puncts, ok2 := g.containsRuneSet("isPunctuation")
	if !ok2 {
		miss("isPunctuation is not `return strings.ContainsRune(<literal>, rune(c))`")
	}
	// isWhitespace: return c == ' ' || c == '\t' || ...
	ws := ""
	if fd := g.funcDecl("", "isWhitespace"); fd != nil && fd.Body != nil && len(fd.Body.List) == 1 {
		if ret, isr := fd.Body.List[0].(*ast.ReturnStmt); isr && len(ret.Results) == 1 {
			for _, l := range orLeaves(ret.Results[0]) {
				lo, hi, okr := rangeOf(l)
				if !okr || lo != hi {
					ws = ""
					break
				}
				ws += string([]byte{lo})
			}
		}
	}
	if ws == "" {
		miss("isWhitespace is not a chain of c == '<char>' alternatives")
	}

	// ---- TokenizeExpression: the branches of the main loop, in order
	var order []string
	var twoChar [][2]byte
	var idStart, idCont, digits [][2]byte
	numMinus := false
	fd := g.funcDecl("ZeroAllocTokenizer", "TokenizeExpression")
	var loop *ast.ForStmt
	if fd != nil {
		for _, st := range fd.Body.List {
			if f, isf := st.(*ast.ForStmt); isf && loop == nil {
				loop = f
			}
		}
	}
	if loop == nil {
		miss("main loop of TokenizeExpression not found")
	} else {
		for _, st := range loop.Body.List {
			ifs, isif := st.(*ast.IfStmt)
			if !isif {
				continue
			}
			cond := ifs.Cond
			switch {
			case mentionsChar(cond, '"') && mentionsChar(cond, '\''):
				order = append(order, "string")
			case func() bool { id, isid := cond.(*ast.Ident); return isid && id.Name == "inString" }():
				order = append(order, "instring")
			case callsFunc(cond, "isOperator"):
				order = append(order, "operator")
				// the two-character operators: (c == 'x' && nextChar == 'y') || ...
				ast.Inspect(ifs.Body, func(n ast.Node) bool {
					in, isin := n.(*ast.IfStmt)
					if !isin {
						return true
					}
					leaves := orLeaves(in.Cond)
					if len(leaves) < 2 {
						return true
					}
					var pairs [][2]byte
					for _, l := range leaves {
						as := andLeaves(l)
						if len(as) != 2 {
							return true
						}
						b1, okb1 := as[0].(*ast.BinaryExpr)
						b2, okb2 := as[1].(*ast.BinaryExpr)
						if !okb1 || !okb2 || b1.Op != token.EQL || b2.Op != token.EQL {
							return true
						}
						c1, okc1 := charLit(b1.Y)
						c2, okc2 := charLit(b2.Y)
						if !okc1 || !okc2 {
							return true
						}
						pairs = append(pairs, [2]byte{c1, c2})
					}
					if twoChar == nil {
						twoChar = pairs
					}
					return false
				})
			case callsFunc(cond, "isPunctuation"):
				order = append(order, "punct")
			case callsFunc(cond, "isWhitespace"):
				order = append(order, "space")
			case mentionsChar(cond, 'a') && mentionsChar(cond, 'z'):
				order = append(order, "ident")
				for _, l := range orLeaves(cond) {
					if lo, hi, okr := rangeOf(l); okr {
						idStart = append(idStart, [2]byte{lo, hi})
					} else {
						miss("identifier start condition has an alternative that is not a range")
					}
				}
				// continuation: the first inner for loop
				ast.Inspect(ifs.Body, func(n ast.Node) bool {
					f, isf := n.(*ast.ForStmt)
					if !isf || idCont != nil {
						return true
					}
					ls := andLeaves(f.Cond)
					if len(ls) < 2 {
						return true
					}
					for _, l := range orLeaves(ls[len(ls)-1]) {
						if lo, hi, okr := rangeOf(l); okr {
							idCont = append(idCont, [2]byte{lo, hi})
						} else {
							miss("identifier continuation condition has an alternative that is not a range")
						}
					}
					return false
				})
			case mentionsChar(cond, '0') && mentionsChar(cond, '9'):
				order = append(order, "number")
				ls := orLeaves(cond)
				if lo, hi, okr := rangeOf(ls[0]); okr {
					digits = append(digits, [2]byte{lo, hi})
				} else {
					miss("number start condition does not begin with a digit range")
				}
				for _, l := range ls[1:] {
					if mentionsChar(l, '-') {
						numMinus = true
					} else {
						miss("number start condition has an unknown alternative")
					}
				}
			default:
				order = append(order, "unknown")
			}
		}
	}
	if twoChar == nil {
		miss("two-character operator test not found in TokenizeExpression")
	}
	if idStart == nil || idCont == nil || digits == nil {
		miss("identifier / number branches not found in TokenizeExpression")
	}

	var b strings.Builder
	b.WriteString("(* character classes of the expression lexer: isOperator, isPunctuation, isWhitespace (parser.go) *)\n")
	fmt.Fprintf(&b, "Definition cc_operator_chars : bytes := %s.\n", coqBytes(ops))
	fmt.Fprintf(&b, "Definition cc_punct_chars : bytes := %s.\n", coqBytes(puncts))
	fmt.Fprintf(&b, "Definition cc_whitespace_chars : bytes := %s.\n", coqBytes(ws))
	b.WriteString("(* TokenizeExpression: order of the branches of the loop body *)\n")
	b.WriteString("Definition cc_branch_order : list bytes := [")
	for i, o := range order {
		if i > 0 {
			b.WriteString("; ")
		}
		b.WriteString(coqStr(o))
	}
	b.WriteString("].\n")
	b.WriteString("(* pairs (c, next) that the operator branch joins into one two-character operator *)\n")
	b.WriteString("Definition cc_two_char_ops : list (byte * byte) := " + coqRanges(twoChar) + ".\n")
	b.WriteString("(* inclusive byte ranges *)\n")
	b.WriteString("Definition cc_ident_start : list (byte * byte) := " + coqRanges(idStart) + ".\n")
	b.WriteString("Definition cc_ident_cont : list (byte * byte) := " + coqRanges(idCont) + ".\n")
	b.WriteString("Definition cc_digit : list (byte * byte) := " + coqRanges(digits) + ".\n")
	fmt.Fprintf(&b, "(* the number branch also starts on a minus sign followed by a digit *)\nDefinition cc_number_minus : bool := %v.\n", numMinus)
	fmt.Fprintf(&b, "Definition cc_shape_ok : bool := %v.\n", ok)
	g.tabs["charclass"] = map[string]interface{}{"operators": ops, "punctuation": puncts, "whitespace": ws, "order": order, "number_minus": numMinus}
	g.write("CharClass.v", b.String())
}

func genPrecTable(g *gen) {
	ok := true
	miss := func(format string, a ...interface{}) {
		ok = false
		g.fail("PrecTable: "+format, a...)
	}
	// ---- PREC_* constants
	consts := map[string]int{}
	var constOrder []string
	for _, f := range g.files {
		for _, d := range f.Decls {
			gd, isg := d.(*ast.GenDecl)
			if !isg || gd.Tok != token.CONST {
				continue
			}
			for _, sp := range gd.Specs {
				vs, isv := sp.(*ast.ValueSpec)
				if !isv {
					continue
				}
				for i, n := range vs.Names {
					if !strings.HasPrefix(n.Name, "PREC_") || i >= len(vs.Values) {
						continue
					}
					if lit, isl := vs.Values[i].(*ast.BasicLit); isl && lit.Kind == token.INT {
						if v, err := strconv.Atoi(lit.Value); err == nil {
							consts[n.Name] = v
							constOrder = append(constOrder, n.Name)
						}
					}
				}
			}
		}
	}
	for _, n := range []string{"PREC_LOWEST", "PREC_OR", "PREC_AND", "PREC_COMPARE", "PREC_SUM", "PREC_PRODUCT", "PREC_POWER", "PREC_PREFIX"} {
		if _, have := consts[n]; !have {
			miss("constant %s not found (or not an integer literal)", n)
		}
	}
	// ---- getOperatorPrecedence: switch operator { case "..": return PREC_X ... default: return PREC_Y }
	type ent struct {
		op string
		p  int
	}
	var table []ent
	def := -1
	if fd := g.funcDecl("", "getOperatorPrecedence"); fd == nil {
		miss("getOperatorPrecedence not found")
	} else {
		var sw *ast.SwitchStmt
		for _, st := range fd.Body.List {
			if s, iss := st.(*ast.SwitchStmt); iss {
				sw = s
			}
		}
		if sw == nil {
			miss("getOperatorPrecedence has no switch")
		} else {
			for _, st := range sw.Body.List {
				cc := st.(*ast.CaseClause)
				if len(cc.Body) != 1 {
					miss("a case of getOperatorPrecedence is not a single return")
					continue
				}
				ret, isr := cc.Body[0].(*ast.ReturnStmt)
				if !isr || len(ret.Results) != 1 {
					miss("a case of getOperatorPrecedence is not a single return")
					continue
				}
				id, isid := ret.Results[0].(*ast.Ident)
				if !isid {
					miss("getOperatorPrecedence returns something that is not a PREC_ constant")
					continue
				}
				v, have := consts[id.Name]
				if !have {
					miss("getOperatorPrecedence returns unknown constant %s", id.Name)
					continue
				}
				if cc.List == nil {
					def = v
					continue
				}
				for _, e := range cc.List {
					s, iss := strLit(e)
					if !iss {
						miss("a case label of getOperatorPrecedence is not a string literal")
						continue
					}
					table = append(table, ent{s, v})
				}
			}
		}
	}
	if def < 0 {
		miss("getOperatorPrecedence has no default case")
		def = 0
	}
	// ---- peekBinaryOperator: switch token.Value { case "and", ...: return token.Value, 1, true; case "not": if next == "in" { return "not in", 2, true } ... return "not", 1, true }
	type alt struct{ next, op string }
	type word struct {
		first string
		alts  []alt
		dflt  string
	}
	var words []word
	if fd := g.funcDecl("Parser", "peekBinaryOperator"); fd == nil {
		miss("peekBinaryOperator not found")
	} else {
		var sw *ast.SwitchStmt
		for _, st := range fd.Body.List {
			if s, iss := st.(*ast.SwitchStmt); iss {
				sw = s
			}
		}
		if sw == nil {
			miss("peekBinaryOperator has no switch")
		} else {
			retOf := func(st ast.Stmt) (op string, self bool, width int, good bool) {
				ret, isr := st.(*ast.ReturnStmt)
				if !isr || len(ret.Results) != 3 {
					return "", false, 0, false
				}
				if id, isid := ret.Results[2].(*ast.Ident); !isid || id.Name != "true" {
					return "", false, 0, false
				}
				wl, isl := ret.Results[1].(*ast.BasicLit)
				if !isl {
					return "", false, 0, false
				}
				w, _ := strconv.Atoi(wl.Value)
				if s, iss := strLit(ret.Results[0]); iss {
					return s, false, w, true
				}
				if isSel(ret.Results[0], "token", "Value") {
					return "", true, w, true
				}
				return "", false, 0, false
			}
			for _, st := range sw.Body.List {
				cc := st.(*ast.CaseClause)
				if cc.List == nil {
					miss("peekBinaryOperator switch has a default case")
					continue
				}
				var labels []string
				for _, e := range cc.List {
					if s, iss := strLit(e); iss {
						labels = append(labels, s)
					} else {
						miss("a case label of peekBinaryOperator is not a string literal")
					}
				}
				var alts []alt
				dflt, haveD, selfD := "", false, false
				for _, bs := range cc.Body {
					switch x := bs.(type) {
					case *ast.IfStmt:
						be, isb := x.Cond.(*ast.BinaryExpr)
						if !isb || be.Op != token.EQL || len(x.Body.List) != 1 || x.Else != nil {
							miss("unexpected if in peekBinaryOperator")
							continue
						}
						if id, isid := be.X.(*ast.Ident); !isid || id.Name != "next" {
							miss("peekBinaryOperator tests something other than next")
							continue
						}
						nx, isn := strLit(be.Y)
						op, self, w, good := retOf(x.Body.List[0])
						if !isn || !good || self || w != 2 {
							miss("unexpected two-word return in peekBinaryOperator")
							continue
						}
						alts = append(alts, alt{nx, op})
					case *ast.ReturnStmt:
						op, self, w, good := retOf(x)
						if !good || w != 1 {
							miss("unexpected one-word return in peekBinaryOperator")
							continue
						}
						dflt, haveD, selfD = op, true, self
					default:
						miss("unexpected statement in peekBinaryOperator")
					}
				}
				if !haveD {
					miss("a case of peekBinaryOperator has no final return")
					continue
				}
				for _, l := range labels {
					d := dflt
					if selfD {
						d = l
					}
					words = append(words, word{l, alts, d})
				}
			}
		}
	}
	// ---- parseExpression starts at parseBinaryLevel(PREC_X); parseBinaryLevel recurses with precedence + K
	start, incr := -1, -1
	if fd := g.funcDecl("Parser", "parseExpression"); fd != nil {
		ast.Inspect(fd.Body, func(n ast.Node) bool {
			c, isc := n.(*ast.CallExpr)
			if !isc || len(c.Args) != 1 {
				return true
			}
			if s, iss := c.Fun.(*ast.SelectorExpr); iss && s.Sel.Name == "parseBinaryLevel" {
				if id, isid := c.Args[0].(*ast.Ident); isid {
					if v, have := consts[id.Name]; have && start < 0 {
						start = v
					}
				}
			}
			return true
		})
	}
	if fd := g.funcDecl("Parser", "parseBinaryLevel"); fd != nil {
		ast.Inspect(fd.Body, func(n ast.Node) bool {
			c, isc := n.(*ast.CallExpr)
			if !isc || len(c.Args) != 1 {
				return true
			}
			if s, iss := c.Fun.(*ast.SelectorExpr); iss && s.Sel.Name == "parseBinaryLevel" {
				if be, isb := c.Args[0].(*ast.BinaryExpr); isb && be.Op == token.ADD {
					if id, isid := be.X.(*ast.Ident); isid && id.Name == "precedence" {
						if lit, isl := be.Y.(*ast.BasicLit); isl {
							incr, _ = strconv.Atoi(lit.Value)
						}
					}
				} else if id, isid := c.Args[0].(*ast.Ident); isid && id.Name == "precedence" {
					incr = 0
				}
			}
			return true
		})
	}
	if start < 0 {
		miss("parseExpression does not call parseBinaryLevel(PREC_x)")
		start = 0
	}
	if incr < 0 {
		miss("parseBinaryLevel does not recurse with parseBinaryLevel(precedence + k)")
		incr = 0
	}

	var b strings.Builder
	b.WriteString("(* operator precedence: PREC_* constants, getOperatorPrecedence, peekBinaryOperator (parser.go) *)\n")
	for _, n := range []string{"PREC_LOWEST", "PREC_OR", "PREC_AND", "PREC_COMPARE", "PREC_SUM", "PREC_PRODUCT", "PREC_POWER", "PREC_PREFIX"} {
		fmt.Fprintf(&b, "Definition %s : nat := %d.\n", strings.ToLower(n), consts[n])
	}
	b.WriteString("(* getOperatorPrecedence: operator spelling -> precedence, in the order of the switch *)\n")
	b.WriteString("Definition prec_table : list (bytes * nat) := [")
	for i, e := range table {
		if i > 0 {
			b.WriteString(";")
		}
		fmt.Fprintf(&b, "\n  (%s, %d)", coqBytesOrStr(e.op), e.p)
	}
	b.WriteString("].\n")
	fmt.Fprintf(&b, "Definition prec_default : nat := %d.\n", def)
	b.WriteString("(* peekBinaryOperator on a NAME token: (first word, [(next word, operator)], operator otherwise) *)\n")
	b.WriteString("Definition peek_words : list (bytes * (list (bytes * bytes) * bytes)) := [")
	for i, w := range words {
		if i > 0 {
			b.WriteString(";")
		}
		fmt.Fprintf(&b, "\n  (%s, ([", coqStr(w.first))
		for j, a := range w.alts {
			if j > 0 {
				b.WriteString("; ")
			}
			fmt.Fprintf(&b, "(%s, %s)", coqStr(a.next), coqStr(a.op))
		}
		fmt.Fprintf(&b, "], %s))", coqStr(w.dflt))
	}
	b.WriteString("].\n")
	fmt.Fprintf(&b, "(* parseExpression calls parseBinaryLevel(prec_start); the right operand is parsed at precedence + prec_right_incr *)\nDefinition prec_start : nat := %d.\nDefinition prec_right_incr : nat := %d.\n", start, incr)
	fmt.Fprintf(&b, "Definition prec_shape_found : bool := %v.\n", ok)
	tj := map[string]int{}
	for _, e := range table {
		tj[e.op] = e.p
	}
	g.tabs["prec_table"] = tj
	g.tabs["prec_consts"] = consts
	g.write("PrecTable.v", b.String())
}

// operator spellings contain no quote or backslash; use the literal form when possible
func coqBytesOrStr(s string) string { return coqStr(s) }

// ArithShape.v: whether the arithmetic of render.go normalises the negative zero of binary64
// (results of - * / % ^ and of the unary minus pass through plusZero). Model/ExprEvalImpl.v follows
// the flag, so it mirrors the tree with and without that repair.
func init() { generators = append(generators, genArithShape) }

func genArithShape(g *gen) {
	count := func(fd *ast.FuncDecl) int {
		n := 0
		if fd == nil || fd.Body == nil {
			return 0
		}
		ast.Inspect(fd.Body, func(x ast.Node) bool {
			if ret, ok := x.(*ast.ReturnStmt); ok && len(ret.Results) >= 1 {
				if c, ok := ret.Results[0].(*ast.CallExpr); ok {
					if id, ok := c.Fun.(*ast.Ident); ok && id.Name == "plusZero" {
						n++
					}
				}
			}
			return true
		})
		return n
	}
	helper := g.funcDecl("", "plusZero") != nil
	bin := count(g.funcDecl("RenderContext", "evaluateBinaryOp"))
	un := count(g.funcDecl("RenderContext", "EvaluateExpression"))
	norm := helper && bin >= 5 && un >= 1
	var b strings.Builder
	b.WriteString("(* render.go: the results of - * / % ^ (evaluateBinaryOp) and of the unary minus (EvaluateExpression) are returned through plusZero *)\n")
	fmt.Fprintf(&b, "Definition ar_plus_zero_returns_binary : nat := %d.\nDefinition ar_plus_zero_returns_unary : nat := %d.\n", bin, un)
	fmt.Fprintf(&b, "Definition ar_negzero_normalised : bool := %v.\n", norm)
	g.tabs["arith_shape"] = map[string]interface{}{"negzero_normalised": norm, "binary": bin, "unary": un}
	g.write("ArithShape.v", b.String())
}
