// gen_sched.go: LockMap.v -- which shared locations exist and which lock guards each access (C02).
//
// Extracted syntactically from /repo/*.go:
//
//   - lock_sites: for every struct field of the tracked owners (Engine, FileSystemLoader, ArrayLoader,
//     ChainLoader, Environment, every struct type that has a sync.Mutex / sync.RWMutex field, and the
//     package-level variables attributeCache, globalCache, debugger), every function that reads or writes
//     the field through a selector expression, and the lock mode the access is under:
//     0 = none, 1 = inside an RLock region, 2 = inside a Lock region of the owner's mutex.
//     A lock region is a syntactic approximation: walking the statements of the function in order,
//     `X.mu.Lock()` / `X.mu.RLock()` (or `X.Lock()` for an embedded mutex) opens the region for base
//     expression X, `X.mu.Unlock()` / `RUnlock()` closes it, a deferred unlock leaves it open to the end
//     of the function; branches are merged by the weaker mode; function literals start with nothing held.
//     An access in a function F that is itself not inside a region counts as guarded when every call of F
//     in the package stands inside a region of the same mutex (evictLRUEntries: "caller holds the lock").
//     Composite literals (construction) are not accesses.
//   - relname_sites: every function containing `currentTemplate := <expr>` (the name a relative template
//     name is resolved against) with whether <expr> is `<ctx>.currentTemplateName()` (the render context's
//     own chain) or anything else (an engine field), and whether currentTemplateName itself stays within
//     the context chain (no selector of `engine` in its body).
//   - parse_events: in Parser.Parse, in effective order: 0 GetTokenizer, 1 Tokenize*, 2 parseOuterTemplate
//     (reads the tokenizer's buffer through p.tokens), 3 ReleaseTokenizer (a deferred call takes effect at
//     the end), 4 ReleaseTokenSlice.
//
// Consumed by Model/Sched.v (the lock annotation of every step of the interleaving model is looked up in
// lock_sites) and Proofs/SchedProofs.v (lm_table_ok, the lockset theorem, relative names, tokenizer ownership
// are computations over these tables), so that an access added outside its lock breaks a proof obligation.
package main

import (
	"fmt"
	"go/ast"
	"go/token"
	"go/types"
	"sort"
	"strings"
)

func init() { generators = append(generators, genLockMap) }

type lmSite struct {
	owner, field, fn string
	write            bool
	mode             int
}

type lmOwner struct {
	fields   map[string]bool
	mutex    string // name of the mutex field; "" when embedded or absent
	embedded bool   // the mutex is embedded: X.Lock()
	hasMutex bool
}

func isSyncMutex(e ast.Expr) bool {
	return isSel(e, "sync", "Mutex") || isSel(e, "sync", "RWMutex")
}

func lmStructOwner(st *ast.StructType) *lmOwner {
	o := &lmOwner{fields: map[string]bool{}}
	for _, f := range st.Fields.List {
		if isSyncMutex(f.Type) {
			o.hasMutex = true
			if len(f.Names) == 0 {
				o.embedded = true
			} else {
				o.mutex = f.Names[0].Name
			}
			continue
		}
		for _, n := range f.Names {
			o.fields[n.Name] = true
		}
	}
	return o
}

func baseTypeName(e ast.Expr) string {
	switch t := e.(type) {
	case *ast.StarExpr:
		return baseTypeName(t.X)
	case *ast.Ident:
		return t.Name
	}
	return ""
}

func genLockMap(g *gen) {
	explicit := map[string]bool{"Engine": true, "FileSystemLoader": true, "ArrayLoader": true, "ChainLoader": true, "Environment": true}
	owners := map[string]*lmOwner{}
	globals := map[string]string{}      // package-level variable -> owner key
	fieldOwner := map[string][]string{} // field name of any struct whose type is (*)Owner -> owner names
	funcResult := map[string]string{}   // function name -> owner type of its first result
	structs := map[string]*ast.StructType{}

	fileNames := make([]string, 0, len(g.files))
	for n := range g.files {
		fileNames = append(fileNames, n)
	}
	sort.Strings(fileNames)

	// ---- pass 1: struct types, package-level variables
	for _, fname := range fileNames {
		for _, d := range g.files[fname].Decls {
			gd, ok := d.(*ast.GenDecl)
			if !ok {
				continue
			}
			for _, sp := range gd.Specs {
				if ts, ok := sp.(*ast.TypeSpec); ok {
					if st, ok := ts.Type.(*ast.StructType); ok {
						structs[ts.Name.Name] = st
					}
				}
			}
		}
	}
	for name, st := range structs {
		o := lmStructOwner(st)
		if explicit[name] || o.hasMutex {
			owners[name] = o
		}
	}
	for _, fname := range fileNames {
		for _, d := range g.files[fname].Decls {
			gd, ok := d.(*ast.GenDecl)
			if !ok || gd.Tok != token.VAR {
				continue
			}
			for _, sp := range gd.Specs {
				vs, ok := sp.(*ast.ValueSpec)
				if !ok {
					continue
				}
				for i, nm := range vs.Names {
					var val ast.Expr
					if i < len(vs.Values) {
						val = vs.Values[i]
					}
					// var x = struct{ sync.RWMutex; ... }{...}
					if cl, ok := val.(*ast.CompositeLit); ok {
						if st, ok := cl.Type.(*ast.StructType); ok {
							o := lmStructOwner(st)
							if o.hasMutex {
								owners[nm.Name] = o
								globals[nm.Name] = nm.Name
							}
							continue
						}
						if t := baseTypeName(cl.Type); owners[t] != nil && owners[t].hasMutex {
							globals[nm.Name] = t
						}
					}
					// var x = &T{...}
					if ue, ok := val.(*ast.UnaryExpr); ok && ue.Op == token.AND {
						if cl, ok := ue.X.(*ast.CompositeLit); ok {
							if t := baseTypeName(cl.Type); owners[t] != nil && owners[t].hasMutex {
								globals[nm.Name] = t
							}
						}
					}
					// var x = newT()
					if ce, ok := val.(*ast.CallExpr); ok {
						if id, ok := ce.Fun.(*ast.Ident); ok {
							if fd := g.funcDecl("", id.Name); fd != nil && fd.Type.Results != nil && len(fd.Type.Results.List) > 0 {
								if t := baseTypeName(fd.Type.Results.List[0].Type); owners[t] != nil && owners[t].hasMutex {
									globals[nm.Name] = t
								}
							}
						}
					}
				}
			}
		}
	}
	for _, st := range structs {
		for _, f := range st.Fields.List {
			t := baseTypeName(f.Type)
			if owners[t] == nil {
				continue
			}
			for _, n := range f.Names {
				dup := false
				for _, x := range fieldOwner[n.Name] {
					if x == t {
						dup = true
					}
				}
				if !dup {
					fieldOwner[n.Name] = append(fieldOwner[n.Name], t)
				}
			}
		}
	}
	for _, fname := range fileNames {
		for _, d := range g.files[fname].Decls {
			if fd, ok := d.(*ast.FuncDecl); ok && fd.Recv == nil && fd.Type.Results != nil && len(fd.Type.Results.List) > 0 {
				if t := baseTypeName(fd.Type.Results.List[0].Type); owners[t] != nil {
					funcResult[fd.Name.Name] = t
				}
			}
		}
	}

	// ---- pass 2: accesses per function
	var sites []lmSite
	type callSite struct {
		callee string         // function or method name
		held   map[string]int // regions open at the call
		recvX  string         // base expression the method is called on ("" for a plain function)
	}
	var calls []callSite
	type pending struct {
		idx   int    // index into sites
		key   string // mutex key the access would need
		fn    string // bare function name
		recv  string // receiver identifier of the enclosing method
		viaRv bool   // the access goes through the receiver
	}
	var unguarded []pending

	funcName := func(fd *ast.FuncDecl) (string, string, string) {
		if fd.Recv != nil && len(fd.Recv.List) == 1 {
			t := baseTypeName(fd.Recv.List[0].Type)
			rv := ""
			if len(fd.Recv.List[0].Names) == 1 {
				rv = fd.Recv.List[0].Names[0].Name
			}
			return t + "." + fd.Name.Name, t, rv
		}
		return fd.Name.Name, "", ""
	}

	for _, fname := range fileNames {
		for _, d := range g.files[fname].Decls {
			fd, ok := d.(*ast.FuncDecl)
			if !ok || fd.Body == nil {
				continue
			}
			full, recvT, recvV := funcName(fd)
			env := map[string]string{} // identifier -> owner
			if recvT != "" && recvV != "" && owners[recvT] != nil {
				env[recvV] = recvT
			}
			if fd.Type.Params != nil {
				for _, p := range fd.Type.Params.List {
					if t := baseTypeName(p.Type); owners[t] != nil {
						for _, n := range p.Names {
							env[n.Name] = t
						}
					}
				}
			}
			var ownerOf func(e ast.Expr) string
			ownerOf = func(e ast.Expr) string {
				switch x := e.(type) {
				case *ast.ParenExpr:
					return ownerOf(x.X)
				case *ast.StarExpr:
					return ownerOf(x.X)
				case *ast.Ident:
					if o, ok := env[x.Name]; ok {
						return o
					}
					if o, ok := globals[x.Name]; ok {
						return o
					}
				case *ast.SelectorExpr:
					if os := fieldOwner[x.Sel.Name]; len(os) == 1 {
						// x.engine, x.environment, x.env ... : a field whose type is an owner
						return os[0]
					}
				case *ast.CallExpr:
					if id, ok := x.Fun.(*ast.Ident); ok {
						return funcResult[id.Name]
					}
				case *ast.UnaryExpr:
					if x.Op == token.AND {
						if cl, ok := x.X.(*ast.CompositeLit); ok {
							if t := baseTypeName(cl.Type); owners[t] != nil {
								return t
							}
						}
					}
				}
				return ""
			}
			// local variables bound to owners
			ast.Inspect(fd.Body, func(n ast.Node) bool {
				if as, ok := n.(*ast.AssignStmt); ok && as.Tok == token.DEFINE && len(as.Lhs) == len(as.Rhs) {
					for i, l := range as.Lhs {
						if id, ok := l.(*ast.Ident); ok {
							if o := ownerOf(as.Rhs[i]); o != "" {
								env[id.Name] = o
							}
						}
					}
				}
				return true
			})

			mutexKey := func(x ast.Expr, o *lmOwner) string {
				return types.ExprString(x)
			}
			// lockCall: is this call X.mu.Lock() etc.? returns (key, op)
			lockCall := func(c *ast.CallExpr) (string, string) {
				s, ok := c.Fun.(*ast.SelectorExpr)
				if !ok {
					return "", ""
				}
				op := s.Sel.Name
				if op != "Lock" && op != "Unlock" && op != "RLock" && op != "RUnlock" {
					return "", ""
				}
				// X.mu.Lock()
				if inner, ok := s.X.(*ast.SelectorExpr); ok {
					if o := owners[ownerOf(inner.X)]; o != nil && o.hasMutex && !o.embedded && inner.Sel.Name == o.mutex {
						return types.ExprString(inner.X), op
					}
				}
				// X.Lock() with an embedded mutex
				if o := owners[ownerOf(s.X)]; o != nil && o.hasMutex && o.embedded {
					return types.ExprString(s.X), op
				}
				return "", ""
			}
			_ = mutexKey

			record := func(sel *ast.SelectorExpr, write bool, held map[string]int) {
				on := ownerOf(sel.X)
				o := owners[on]
				if o == nil || !o.fields[sel.Sel.Name] {
					return
				}
				key := types.ExprString(sel.X)
				mode := held[key]
				sites = append(sites, lmSite{on, sel.Sel.Name, full, write, mode})
				if mode == 0 && o.hasMutex {
					id, isId := sel.X.(*ast.Ident)
					unguarded = append(unguarded, pending{len(sites) - 1, key, fd.Name.Name, recvV, isId && id.Name == recvV && recvV != ""})
				}
			}

			var walkExpr func(e ast.Expr, held map[string]int, write bool)
			var walkStmts func(l []ast.Stmt, held map[string]int) (map[string]int, bool)
			var walkStmt func(s ast.Stmt, held map[string]int) (map[string]int, bool)
			copyHeld := func(h map[string]int) map[string]int {
				c := map[string]int{}
				for k, v := range h {
					c[k] = v
				}
				return c
			}
			merge := func(a, b map[string]int) map[string]int {
				c := map[string]int{}
				for k, v := range a {
					if w, ok := b[k]; ok {
						if w < v {
							v = w
						}
						if v > 0 {
							c[k] = v
						}
					}
				}
				return c
			}
			// lhsTarget: the selector written by an assignment target (X.f, X.f[k], X.f[k].g ...)
			var lhsTarget func(e ast.Expr) *ast.SelectorExpr
			lhsTarget = func(e ast.Expr) *ast.SelectorExpr {
				switch x := e.(type) {
				case *ast.SelectorExpr:
					if o := owners[ownerOf(x.X)]; o != nil && o.fields[x.Sel.Name] {
						return x
					}
					return lhsTarget(x.X)
				case *ast.IndexExpr:
					return lhsTarget(x.X)
				case *ast.ParenExpr:
					return lhsTarget(x.X)
				case *ast.StarExpr:
					return lhsTarget(x.X)
				case *ast.SliceExpr:
					return lhsTarget(x.X)
				}
				return nil
			}
			walkExpr = func(e ast.Expr, held map[string]int, write bool) {
				if e == nil {
					return
				}
				ast.Inspect(e, func(n ast.Node) bool {
					switch x := n.(type) {
					case *ast.FuncLit:
						walkStmts(x.Body.List, map[string]int{})
						return false
					case *ast.CompositeLit:
						// construction: keys are not accesses, values are expressions
						for _, el := range x.Elts {
							if kv, ok := el.(*ast.KeyValueExpr); ok {
								walkExpr(kv.Value, held, false)
							} else {
								walkExpr(el, held, false)
							}
						}
						return false
					case *ast.CallExpr:
						if id, ok := x.Fun.(*ast.Ident); ok {
							if id.Name == "delete" && len(x.Args) >= 1 {
								if t := lhsTarget(x.Args[0]); t != nil {
									record(t, true, held)
								}
							}
							calls = append(calls, callSite{id.Name, copyHeld(held), ""})
						} else if s, ok := x.Fun.(*ast.SelectorExpr); ok {
							calls = append(calls, callSite{s.Sel.Name, copyHeld(held), types.ExprString(s.X)})
						}
					case *ast.UnaryExpr:
						if x.Op == token.AND {
							if t := lhsTarget(x.X); t != nil {
								record(t, true, held)
							}
						}
					case *ast.SelectorExpr:
						record(x, false, held)
					}
					return true
				})
			}
			terminates := func(l []ast.Stmt) bool {
				if len(l) == 0 {
					return false
				}
				switch s := l[len(l)-1].(type) {
				case *ast.ReturnStmt:
					return true
				case *ast.BranchStmt:
					return true
				case *ast.ExprStmt:
					if c, ok := s.X.(*ast.CallExpr); ok {
						if id, ok := c.Fun.(*ast.Ident); ok && id.Name == "panic" {
							return true
						}
					}
				}
				return false
			}
			walkStmt = func(s ast.Stmt, held map[string]int) (map[string]int, bool) {
				switch x := s.(type) {
				case nil:
					return held, false
				case *ast.ExprStmt:
					if c, ok := x.X.(*ast.CallExpr); ok {
						if key, op := lockCall(c); key != "" {
							switch op {
							case "Lock":
								held[key] = 2
							case "RLock":
								held[key] = 1
							default:
								delete(held, key)
							}
							return held, false
						}
					}
					walkExpr(x.X, held, false)
				case *ast.DeferStmt:
					if key, op := lockCall(x.Call); key != "" && (op == "Unlock" || op == "RUnlock") {
						return held, false // released when the function returns
					}
					if fl, ok := x.Call.Fun.(*ast.FuncLit); ok {
						// defer func() { ...; X.mu.Unlock() }(): the unlock inside belongs to the end of the function
						walkStmts(fl.Body.List, copyHeld(held))
						return held, false
					}
					walkExpr(x.Call, held, false)
				case *ast.GoStmt:
					if fl, ok := x.Call.Fun.(*ast.FuncLit); ok {
						walkStmts(fl.Body.List, map[string]int{})
					} else {
						walkExpr(x.Call, map[string]int{}, false)
					}
				case *ast.AssignStmt:
					for _, r := range x.Rhs {
						walkExpr(r, held, false)
					}
					for _, l := range x.Lhs {
						if t := lhsTarget(l); t != nil {
							record(t, true, held)
							// index expressions and the base are reads
							if ie, ok := l.(*ast.IndexExpr); ok {
								walkExpr(ie.Index, held, false)
							}
							if x.Tok != token.ASSIGN && x.Tok != token.DEFINE {
								record(t, false, held)
							}
						} else {
							walkExpr(l, held, false)
						}
					}
				case *ast.IncDecStmt:
					if t := lhsTarget(x.X); t != nil {
						record(t, true, held)
						record(t, false, held)
					} else {
						walkExpr(x.X, held, false)
					}
				case *ast.ReturnStmt:
					for _, r := range x.Results {
						walkExpr(r, held, false)
					}
					return held, true
				case *ast.BlockStmt:
					return walkStmts(x.List, held)
				case *ast.IfStmt:
					if x.Init != nil {
						held, _ = walkStmt(x.Init, held)
					}
					walkExpr(x.Cond, held, false)
					h1, t1 := walkStmts(x.Body.List, copyHeld(held))
					t1 = t1 || terminates(x.Body.List)
					h2, t2 := copyHeld(held), false
					if x.Else != nil {
						h2, t2 = walkStmt(x.Else, copyHeld(held))
						if b, ok := x.Else.(*ast.BlockStmt); ok {
							t2 = t2 || terminates(b.List)
						}
					}
					switch {
					case t1 && t2:
						return held, true
					case t1:
						return h2, false
					case t2:
						return h1, false
					default:
						return merge(h1, h2), false
					}
				case *ast.ForStmt:
					if x.Init != nil {
						held, _ = walkStmt(x.Init, held)
					}
					walkExpr(x.Cond, held, false)
					h1, _ := walkStmts(x.Body.List, copyHeld(held))
					if x.Post != nil {
						walkStmt(x.Post, copyHeld(h1))
					}
					return merge(held, h1), false
				case *ast.RangeStmt:
					walkExpr(x.X, held, false)
					h1, _ := walkStmts(x.Body.List, copyHeld(held))
					return merge(held, h1), false
				case *ast.SwitchStmt:
					if x.Init != nil {
						held, _ = walkStmt(x.Init, held)
					}
					walkExpr(x.Tag, held, false)
					out := copyHeld(held)
					for _, c := range x.Body.List {
						cc := c.(*ast.CaseClause)
						for _, e := range cc.List {
							walkExpr(e, held, false)
						}
						h1, t := walkStmts(cc.Body, copyHeld(held))
						if !t && !terminates(cc.Body) {
							out = merge(out, h1)
						}
					}
					return out, false
				case *ast.TypeSwitchStmt:
					if x.Init != nil {
						held, _ = walkStmt(x.Init, held)
					}
					walkStmt(x.Assign, copyHeld(held))
					out := copyHeld(held)
					for _, c := range x.Body.List {
						cc := c.(*ast.CaseClause)
						h1, t := walkStmts(cc.Body, copyHeld(held))
						if !t && !terminates(cc.Body) {
							out = merge(out, h1)
						}
					}
					return out, false
				case *ast.SelectStmt:
					out := copyHeld(held)
					for _, c := range x.Body.List {
						cc := c.(*ast.CommClause)
						h0 := copyHeld(held)
						if cc.Comm != nil {
							h0, _ = walkStmt(cc.Comm, h0)
						}
						h1, t := walkStmts(cc.Body, h0)
						if !t {
							out = merge(out, h1)
						}
					}
					return out, false
				case *ast.LabeledStmt:
					return walkStmt(x.Stmt, held)
				case *ast.DeclStmt:
					if gd, ok := x.Decl.(*ast.GenDecl); ok {
						for _, sp := range gd.Specs {
							if vs, ok := sp.(*ast.ValueSpec); ok {
								for _, v := range vs.Values {
									walkExpr(v, held, false)
								}
							}
						}
					}
				case *ast.SendStmt:
					walkExpr(x.Chan, held, false)
					walkExpr(x.Value, held, false)
				}
				return held, false
			}
			walkStmts = func(l []ast.Stmt, held map[string]int) (map[string]int, bool) {
				term := false
				for _, s := range l {
					var t bool
					held, t = walkStmt(s, held)
					term = term || t
				}
				return held, term
			}
			walkStmts(fd.Body.List, map[string]int{})
		}
	}

	// ---- caller-held regions: an unguarded access in F is guarded when every call of F stands in a region
	for _, p := range unguarded {
		min, n := 3, 0
		for _, c := range calls {
			if c.callee != p.fn {
				continue
			}
			n++
			key := p.key
			if p.viaRv {
				key = c.recvX // the receiver of the call is the object whose mutex must be held
			}
			m := c.held[key]
			if m < min {
				min = m
			}
		}
		if n > 0 && min > 0 && min < 3 {
			sites[p.idx].mode = min
		}
	}

	// ---- de-duplicate and sort
	seen := map[lmSite]bool{}
	var rows []lmSite
	for _, s := range sites {
		if !seen[s] {
			seen[s] = true
			rows = append(rows, s)
		}
	}
	sort.Slice(rows, func(i, j int) bool {
		a, b := rows[i], rows[j]
		if a.owner != b.owner {
			return a.owner < b.owner
		}
		if a.field != b.field {
			return a.field < b.field
		}
		if a.fn != b.fn {
			return a.fn < b.fn
		}
		if a.write != b.write {
			return !a.write
		}
		return a.mode < b.mode
	})

	shapeOK := true
	need := func(owner, field string) {
		for _, r := range rows {
			if r.owner == owner && r.field == field {
				return
			}
		}
		shapeOK = false
		g.fail("LockMap: no access to %s.%s found", owner, field)
	}
	need("Engine", "templates")
	need("FileSystemLoader", "templatePaths")
	need("attributeCache", "m")
	need("GlobalStringCache", "strings")

	// ---- relative-name resolution sites
	type relSite struct {
		fn  string
		ctx bool
	}
	var rels []relSite
	for _, fname := range fileNames {
		for _, d := range g.files[fname].Decls {
			fd, ok := d.(*ast.FuncDecl)
			if !ok || fd.Body == nil {
				continue
			}
			full, _, _ := funcName(fd)
			ast.Inspect(fd.Body, func(n ast.Node) bool {
				as, ok := n.(*ast.AssignStmt)
				if !ok || len(as.Lhs) != 1 || len(as.Rhs) != 1 {
					return true
				}
				id, ok := as.Lhs[0].(*ast.Ident)
				if !ok || id.Name != "currentTemplate" {
					return true
				}
				fromCtx := false
				if c, ok := as.Rhs[0].(*ast.CallExpr); ok && len(c.Args) == 0 {
					if s, ok := c.Fun.(*ast.SelectorExpr); ok && s.Sel.Name == "currentTemplateName" {
						if _, ok := s.X.(*ast.Ident); ok {
							fromCtx = true
						}
					}
				}
				rels = append(rels, relSite{full, fromCtx})
				return true
			})
		}
	}
	// currentTemplateName itself: walks the context chain only
	if fd := g.funcDecl("RenderContext", "currentTemplateName"); fd != nil && fd.Body != nil {
		pure := true
		ast.Inspect(fd.Body, func(n ast.Node) bool {
			if s, ok := n.(*ast.SelectorExpr); ok {
				switch s.Sel.Name {
				case "parent", "lastLoadedTemplate", "name":
				default:
					pure = false
				}
			}
			if _, ok := n.(*ast.CallExpr); ok {
				pure = false
			}
			return true
		})
		rels = append(rels, relSite{"RenderContext.currentTemplateName", pure})
	} else {
		rels = append(rels, relSite{"RenderContext.currentTemplateName", false})
	}
	sort.Slice(rels, func(i, j int) bool { return rels[i].fn < rels[j].fn })

	// ---- Parser.Parse: tokenizer events in effective order
	var events []int
	if fd := g.funcDecl("Parser", "Parse"); fd != nil && fd.Body != nil {
		var deferred []int
		var visit func(n ast.Node, inDefer bool)
		classify := func(c *ast.CallExpr) int {
			name := ""
			switch f := c.Fun.(type) {
			case *ast.Ident:
				name = f.Name
			case *ast.SelectorExpr:
				name = f.Sel.Name
			}
			switch {
			case name == "GetTokenizer":
				return 0
			case strings.HasPrefix(name, "Tokenize"):
				return 1
			case name == "parseOuterTemplate":
				return 2
			case name == "ReleaseTokenizer":
				return 3
			case name == "ReleaseTokenSlice":
				return 4
			}
			return -1
		}
		visit = func(n ast.Node, inDefer bool) {
			ast.Inspect(n, func(m ast.Node) bool {
				switch x := m.(type) {
				case *ast.DeferStmt:
					if k := classify(x.Call); k >= 0 {
						deferred = append([]int{k}, deferred...)
					}
					for _, a := range x.Call.Args {
						visit(a, inDefer)
					}
					if fl, ok := x.Call.Fun.(*ast.FuncLit); ok {
						ast.Inspect(fl.Body, func(q ast.Node) bool {
							if c, ok := q.(*ast.CallExpr); ok {
								if k := classify(c); k >= 0 {
									deferred = append([]int{k}, deferred...)
								}
							}
							return true
						})
					}
					return false
				case *ast.CallExpr:
					if k := classify(x); k >= 0 {
						events = append(events, k)
					}
				}
				return true
			})
		}
		visit(fd.Body, false)
		events = append(events, deferred...)
	} else {
		shapeOK = false
		g.fail("LockMap: Parser.Parse not found")
	}

	// ---- ExtendsNode.Render: does the context of the parent template keep the parent chain of the extending
	// context (parentCtx.parent = ...)? Without it the variables an include reaches through its parent contexts
	// are not visible in the template it extends; the model follows the code either way.
	extendsKeepsParent := false
	if fd := g.funcDecl("ExtendsNode", "Render"); fd != nil && fd.Body != nil {
		ast.Inspect(fd.Body, func(n ast.Node) bool {
			if as, ok := n.(*ast.AssignStmt); ok && len(as.Lhs) == 1 {
				if s, ok := as.Lhs[0].(*ast.SelectorExpr); ok && s.Sel.Name == "parent" {
					if id, ok := s.X.(*ast.Ident); ok && id.Name == "parentCtx" {
						extendsKeepsParent = true
					}
				}
			}
			if c, ok := n.(*ast.CallExpr); ok {
				if s, ok := c.Fun.(*ast.SelectorExpr); ok && s.Sel.Name == "SetParent" {
					if id, ok := s.X.(*ast.Ident); ok && id.Name == "parentCtx" {
						extendsKeepsParent = true
					}
				}
			}
			return true
		})
	}

	// ---- emit
	var b strings.Builder
	b.WriteString("(* Lock map of the shared state (C02). Rows: owner, field, function, is the access a write,\n")
	b.WriteString("   lock mode of the owner's mutex at the access: 0 none, 1 RLock region, 2 Lock region. *)\n")
	b.WriteString("Definition lock_sites : list (bytes * bytes * bytes * bool * N) := [\n")
	for i, r := range rows {
		sep := ";"
		if i == len(rows)-1 {
			sep = ""
		}
		fmt.Fprintf(&b, "  (%s, %s, %s, %v, %d%%N)%s\n", coqStr(r.owner), coqStr(r.field), coqStr(r.fn), r.write, r.mode, sep)
	}
	b.WriteString("].\n\n")
	b.WriteString("(* owners that have a mutex (field name; empty when the mutex is embedded) *)\n")
	b.WriteString("Definition lock_owners : list (bytes * bytes) := [\n")
	var onames []string
	for n, o := range owners {
		if o.hasMutex {
			onames = append(onames, n)
		}
	}
	sort.Strings(onames)
	for i, n := range onames {
		sep := ";"
		if i == len(onames)-1 {
			sep = ""
		}
		fmt.Fprintf(&b, "  (%s, %s)%s\n", coqStr(n), coqStr(owners[n].mutex), sep)
	}
	b.WriteString("].\n\n")
	b.WriteString("(* functions that compute the name a relative template name is resolved against:\n   true = from the render context's own chain, false = from anything else (an engine-wide field) *)\n")
	b.WriteString("Definition relname_sites : list (bytes * bool) := [\n")
	for i, r := range rels {
		sep := ";"
		if i == len(rels)-1 {
			sep = ""
		}
		fmt.Fprintf(&b, "  (%s, %v)%s\n", coqStr(r.fn), r.ctx, sep)
	}
	b.WriteString("].\n\n")
	b.WriteString("(* Parser.Parse, effective order: 0 GetTokenizer, 1 Tokenize*, 2 parseOuterTemplate (reads the tokenizer's\n   buffer), 3 ReleaseTokenizer, 4 ReleaseTokenSlice *)\n")
	b.WriteString("Definition parse_events : list N := [")
	for i, e := range events {
		if i > 0 {
			b.WriteString("; ")
		}
		fmt.Fprintf(&b, "%d%%N", e)
	}
	b.WriteString("].\n\n")
	b.WriteString("(* ExtendsNode.Render gives the context of the parent template the parent chain of the extending context *)\n")
	fmt.Fprintf(&b, "Definition extends_keeps_parent : bool := %v.\n\n", extendsKeepsParent)
	fmt.Fprintf(&b, "Definition lockmap_shape_ok : bool := %v.\n", shapeOK)

	tab := map[string]interface{}{}
	var jr []map[string]interface{}
	for _, r := range rows {
		jr = append(jr, map[string]interface{}{"owner": r.owner, "field": r.field, "fn": r.fn, "write": r.write, "mode": r.mode})
	}
	tab["sites"] = jr
	tab["parse_events"] = events
	g.tabs["lockmap"] = tab
	g.write("LockMap.v", b.String())
}
