module gogen

go 1.21
