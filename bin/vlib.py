#!/usr/bin/env python3
"""Shared machinery of bin/setup and bin/check (DESIGN.md 2.1): translator, Coq build, extraction,
driver, runner, evidence. Nothing here decides a property: the theorems are checked by coqc, the
correspondence by the Go runner; this file sequences them and reports."""
import fcntl, glob, hashlib, json, os, re, shutil, subprocess, sys, time

V = os.path.dirname(os.path.dirname(os.path.abspath(__file__)))
REPO = os.environ.get("VERIF_REPO", "/repo")
WORK = os.path.join(V, "work")
COQ = os.path.join(V, "coq")
OCAML = os.path.join(V, "ocaml")
HARNESS = os.path.join(V, "harness")
GOGEN = os.path.join(V, "tools", "gogen")
BIN = os.path.join(WORK, "bin")

ENV = dict(os.environ)
ENV.update({"GOFLAGS": "-mod=mod", "GOPROXY": "off", "CARGO_NET_OFFLINE": "true", "PIP_NO_INDEX": "1"})
for k in ("GOTOOLCHAIN", "GOSUMDB"):      # both break the go1.24.1 toolchain switch here (see DESIGN 2.5)
    ENV.pop(k, None)
ENV.setdefault("HOME", "/root")

FORBIDDEN = re.compile(r"\b(Admitted|admit|Axiom|Axioms|Parameter|Parameters|Conjecture|Conjectures|Hypothesis|Hypotheses|Variable|Variables|"
                       r"Unset\s+Guard\s+Checking|Unset\s+Positivity\s+Checking|Unset\s+Universe\s+Checking|bypass_check|"
                       r"Admit\s+Obligations|type-in-type|impredicative-set|native_compute)\b")

TRUSTED_BASE = [
    "Coq 8.16.1 kernel (coqc; coqchk -silent -o in the thorough tier); vm_compute used for finite checks, native_compute not used",
    "axioms: none declared; Print Assumptions output of every property theorem is recorded below",
    "translator tools/gogen (syntactic extraction from /repo/*.go with go/parser: registries, tables, reset sets, call sites)",
    "extraction: ExtrOcamlBasic only (bool, option, unit, list, prod, sumbool mapped to OCaml types; byte, positive, N, Z, nat kept as extracted inductives); no Extract Constant; OCaml driver converts char<->byte by Obj.magic on the 256 constant constructors, checked at start-up against the extracted byte_to_N",
    "unverified glue: OCaml case generators, Go runner (harness/), hook files /verif/hooks/*.go (package twig, build tag verif, add-only, injected with go build -overlay; not committed in /repo), this orchestrator",
    "modelled rather than verified: Go's reflect, sort, strings, strconv, html, unicode, sync.Pool, scheduler, binary64 exactness on integers within 2^53",
]


def log(*a):
    print(*a, file=sys.stderr, flush=True)


def _big_stack():
    import resource
    try:
        resource.setrlimit(resource.RLIMIT_STACK, (resource.RLIM_INFINITY, resource.RLIM_INFINITY))
    except Exception:
        try:
            resource.setrlimit(resource.RLIMIT_STACK, (1 << 30, resource.getrlimit(resource.RLIMIT_STACK)[1]))
        except Exception:
            pass


def sh(cmd, cwd=None, timeout=1800, env=None, quiet=False, big_stack=False):
    """run, return (rc, combined output)"""
    try:
        p = subprocess.run(cmd, cwd=cwd, env=env or ENV, stdout=subprocess.PIPE, stderr=subprocess.STDOUT,
                           timeout=timeout, shell=isinstance(cmd, str), preexec_fn=_big_stack if big_stack else None)
        out = p.stdout.decode("utf-8", "replace")
        return p.returncode, out
    except subprocess.TimeoutExpired as e:
        return 124, (e.stdout or b"").decode("utf-8", "replace") + "\nTIMEOUT after %ss" % timeout


class Lock:
    def __enter__(self):
        os.makedirs(WORK, exist_ok=True)
        self.f = open(os.path.join(WORK, ".lock"), "w")
        fcntl.flock(self.f, fcntl.LOCK_EX)
        return self

    def __exit__(self, *a):
        fcntl.flock(self.f, fcntl.LOCK_UN)
        self.f.close()


def newest(paths):
    m = 0.0
    for p in paths:
        try:
            m = max(m, os.path.getmtime(p))
        except OSError:
            pass
    return m


def go_sources(d):
    return glob.glob(os.path.join(d, "*.go")) + [os.path.join(d, "go.mod")]


# ---------------------------------------------------------------- translator
def run_gogen(report):
    os.makedirs(BIN, exist_ok=True)
    exe = os.path.join(BIN, "gogen")
    if newest(go_sources(GOGEN)) > newest([exe]):
        rc, out = sh(["go", "build", "-o", exe, "."], cwd=GOGEN, timeout=300)
        if rc != 0:
            report["build_errors"].append("gogen build failed:\n" + out[-2000:])
            return False
    rc, out = sh([exe, "-repo", REPO, "-out", os.path.join(COQ, "theories", "Gen"), "-tables", os.path.join(WORK, "tables.json")], timeout=120)
    report["gogen_output"] = out.strip().splitlines()[-20:]
    report["gen_updated"] = [l.split()[-1] for l in out.splitlines() if l.startswith("gogen: updated")]
    report["shape_missing"] = [l for l in out.splitlines() if "SHAPE-MISSING" in l]
    if rc != 0:
        report["build_errors"].append("gogen failed:\n" + out[-2000:])
        return False
    return True


# ---------------------------------------------------------------- Coq
def coq_deps(pid):
    """the .v files Properties/<pid>.v depends on (transitively), from coqdep's .d files via make -n ... fallback: all"""
    rel = "theories/Properties/%s.v" % pid
    rc, out = sh("coqdep -Q theories Twig -sort %s 2>/dev/null" % rel, cwd=COQ, timeout=300)
    files = [f for f in out.split() if f.endswith(".v")]
    return files if rc == 0 and files else None


def forbidden_scan(pid=None):
    bad = []
    files = None
    if pid is not None:
        d = coq_deps(pid)
        if d:
            files = [os.path.join(COQ, f) for f in d] + roots_vfiles(pid)
    if files is None:
        files = sorted(glob.glob(os.path.join(COQ, "theories", "**", "*.v"), recursive=True))
    for p in sorted(set(files)):
        try:
            src = open(p, encoding="utf-8", errors="replace").read()
        except OSError:
            continue
        src_nc = strip_comments(src)
        in_section = 0
        for ln, line in enumerate(src_nc.splitlines(), 1):
            if re.match(r"\s*Section\b", line):
                in_section += 1
            if re.match(r"\s*End\b", line) and in_section:
                in_section -= 1
            for m in FORBIDDEN.finditer(line):
                w = m.group(1)
                if w.split()[0] in ("Variable", "Variables", "Hypothesis", "Hypotheses") and in_section:
                    continue   # Section variables are discharged; allowed (DESIGN 2.2)
                bad.append("%s:%d: %s" % (os.path.relpath(p, V), ln, w))
    return bad


def strip_comments(src):
    out, depth, i, n = [], 0, 0, len(src)
    while i < n:
        if src.startswith("(*", i):
            depth += 1; i += 2
        elif src.startswith("*)", i) and depth:
            depth -= 1; i += 2
        else:
            if depth == 0 or src[i] == "\n":
                out.append(src[i])
            i += 1
    return "".join(out)


def roots_lines(pid, seen=None):
    """lines of ocaml/roots/<pid>.txt with `INCLUDE other.txt` expanded"""
    if seen is None:
        seen = set()
        return roots_lines("_base", seen) + roots_lines(pid, seen)
    f = os.path.join(OCAML, "roots", pid + ".txt")
    if pid in seen or not os.path.exists(f):
        return []
    seen.add(pid)
    out = []
    for line in open(f):
        line = line.strip()
        if line.startswith("INCLUDE "):
            out += roots_lines(line[8:].strip().replace(".txt", ""), seen)
        elif line and not line.startswith("#"):
            out.append(line)
    return out


def roots_vfiles(pid):
    """the theories/*.v files named by the Require lines of a property's extraction roots"""
    res = []
    for line in roots_lines(pid):
        m = re.match(r"From Twig Require Import (.*)\.$", line)
        if m:
            for mod in m.group(1).split():
                res.append(os.path.join(COQ, "theories", *mod.split(".")) + ".v")
    return res


def coq_make(report, pid=None, timeout=1200):
    """make -k so that everything that can compile does; with pid only what that property needs
    (its Properties file and the modules its generator extracts); returns the .v files that failed"""
    if pid is None:
        rc, out = sh(["make", "-k", "-j16"], cwd=COQ, timeout=timeout)
    else:
        rc0, out0 = sh(["make", "Makefile.coq"], cwd=COQ, timeout=300)
        targets = ["theories/Properties/%s.vo" % pid] + [os.path.relpath(f, COQ)[:-2] + ".vo" for f in roots_vfiles(pid)]
        rc, out = sh(["make", "-f", "Makefile.coq", "-k", "-j16"] + sorted(set(targets)), cwd=COQ, timeout=timeout)
        out = out0 + out
    report["coq_make_rc"] = rc
    failed = []
    for m in re.finditer(r'File "\./(theories/[^"]+\.v)", line (\d+), characters[^\n]*\n(Error[^\n]*(?:\n[^\n]+){0,6})', out):
        failed.append({"file": m.group(1), "line": int(m.group(2)), "error": m.group(3)[:600]})
    for m in re.finditer(r"\*\*\* \[[^\]]*?(theories/\S+)\.vo\] Error", out):
        f = m.group(1) + ".v"
        if not any(x["file"] == f for x in failed):
            failed.append({"file": f, "line": 0, "error": "did not compile (dependency failed or error)"})
    if rc != 0 and not failed:
        failed.append({"file": "?", "line": 0, "error": out[-1500:]})
    report["coq_failed"] = failed
    return failed


def vo_ok(vfile):
    """the .vo exists and make considers it up to date with all its (transitive) sources"""
    vo = os.path.join(COQ, vfile[:-2] + ".vo")
    if not os.path.exists(vo) or not os.path.exists(os.path.join(COQ, "Makefile.coq")):
        return False
    rc, out = sh(["make", "-f", "Makefile.coq", "-n", vfile[:-2] + ".vo"], cwd=COQ, timeout=300)
    return rc == 0 and "coqc" not in out.lower()


def property_theorems(pid):
    """(theorem names in Properties/<pid>.v, file path)"""
    p = os.path.join(COQ, "theories", "Properties", pid + ".v")
    if not os.path.exists(p):
        return [], p
    src = strip_comments(open(p).read())
    return re.findall(r"^\s*(?:Theorem|Corollary)\s+(\w+)", src, re.M), p


def assumptions(pid):
    """Print Assumptions output of Properties/<pid>.v, cached per .vo"""
    rel = "theories/Properties/%s.v" % pid
    if not vo_ok(rel):
        return None
    os.makedirs(os.path.join(WORK, "assumptions"), exist_ok=True)
    cache = os.path.join(WORK, "assumptions", pid + ".txt")
    vo = os.path.join(COQ, rel[:-2] + ".vo")
    if not os.path.exists(cache) or os.path.getmtime(cache) < os.path.getmtime(vo):
        rc, out = sh("coqc -Q theories Twig -w none %s" % rel, cwd=COQ, timeout=600)
        if rc != 0:
            return None
        open(cache, "w").write(out)
        os.utime(cache, None)
    return open(cache).read()


def coqchk(pid, report):
    """thorough tier: re-check Properties/<pid>.vo and everything it depends on with the independent checker;
    the result is cached per content hash of the .vo files of the development"""
    h = hashlib.sha1()
    for f in sorted(glob.glob(os.path.join(COQ, "theories", "**", "*.vo"), recursive=True)):
        h.update(f.encode()); h.update(open(f, "rb").read())
    d = os.path.join(WORK, "coqchk"); os.makedirs(d, exist_ok=True)
    cache = os.path.join(d, "%s-%s.txt" % (pid, h.hexdigest()[:16]))
    if not os.path.exists(cache):
        rc, out = sh("coqchk -silent -o -Q theories Twig Twig.Properties.%s" % pid, cwd=COQ, timeout=3000)
        open(cache, "w").write("rc=%d\n%s" % (rc, out))
    txt = open(cache).read()
    ok = txt.startswith("rc=0") and "* Axioms: <none>" in txt and "type-in-type: <none>" in txt and \
        "unsafe (co)fixpoints: <none>" in txt and "positivity is assumed: <none>" in txt
    return ok, txt[-1200:]


def split_assumptions(txt):
    """list of assumption blocks, one per Print Assumptions"""
    blocks, cur = [], None
    for line in txt.splitlines():
        if line.startswith("Closed under the global context"):
            blocks.append("Closed under the global context"); cur = None
        elif line.startswith("Axioms:") or line.startswith("Section Variables:"):
            cur = [line]; blocks.append(cur)
        elif cur is not None and line.strip():
            cur.append(line)
    return ["\n".join(b) if isinstance(b, list) else b for b in blocks]


# ---------------------------------------------------------------- OCaml driver and Go runner
def build_driver(report, pid=None):
    """extract the models a property's generator needs (ocaml/roots/<pid>.txt) and build that generator in its own
    directory work/ocaml/<pid>/ (sources symlinked from /verif/ocaml), so that other properties' files cannot break it"""
    pids = [pid] if pid else sorted(os.path.basename(f)[:-3].upper() for f in glob.glob(os.path.join(OCAML, "c[0-9][0-9].ml")))
    ok = None
    for q in pids:
        exe = build_driver_one(report, q)
        if exe:
            ok = exe
        elif pid:
            return None
    return ok


def build_driver_one(report, pid):
    d = os.path.join(WORK, "ocaml", pid)
    os.makedirs(d, exist_ok=True)
    low = pid.lower()
    if not os.path.exists(os.path.join(OCAML, low + ".ml")):
        report["build_errors"].append("no case generator ocaml/%s.ml" % low)
        return None
    lines = roots_lines(pid)
    reqs = [l for l in lines if not l.startswith("ROOT ")]
    roots = []
    for l in lines:
        if l.startswith("ROOT ") and l[5:] not in roots:
            roots.append(l[5:])
    body = ("(* GENERATED from ocaml/roots/%s.txt by bin/vlib.py. Extraction of the executable models for the correspondence driver.\n"
            "   ExtrOcamlBasic only: bool, option, unit, list, prod, sumbool map to OCaml types; byte, positive, N, Z, nat stay\n"
            "   extracted inductives. No Extract Constant, no further Extract Inductive. *)\n"
            "From Coq Require Import Extraction ExtrOcamlBasic.\n" % pid + "\n".join(dict.fromkeys(reqs)) +
            "\nExtraction Language OCaml.\nExtraction \"model.ml\"\n  " + "\n  ".join(roots) + ".\n")
    ev = os.path.join(d, "Extract.v")
    if not os.path.exists(ev) or open(ev).read() != body:
        open(ev, "w").write(body)
    vos = [f[:-2] + ".vo" for f in roots_vfiles(pid)]
    model_ml = os.path.join(d, "model.ml")
    if newest(vos + [ev]) > newest([model_ml]) or not os.path.exists(model_ml):
        rc, out = sh("coqc -Q %s Twig -w none Extract.v" % os.path.join(COQ, "theories"), cwd=d, timeout=900)
        if rc != 0:
            report["build_errors"].append("extraction for %s failed:\n%s" % (pid, out[-2000:]))
            return None
    # sources: symlinks to every hand-written module (dune compiles only what main depends on)
    for f in glob.glob(os.path.join(OCAML, "*.ml")):
        b = os.path.basename(f)
        if b in ("model.ml",) or b.startswith("main_"):
            continue
        t = os.path.join(d, b)
        if not os.path.islink(t) or os.readlink(t) != f:
            if os.path.lexists(t):
                os.remove(t)
            os.symlink(f, t)
    for t in glob.glob(os.path.join(d, "*.ml")):
        if os.path.islink(t) and not os.path.exists(t):
            os.remove(t)
    files = {"main.ml": "(* GENERATED *)\nlet () = Drivermain.main %s.run\n" % low.capitalize(),
             "dune": "; GENERATED\n(executable\n (name main)\n (flags (:standard -w -a)))\n",
             "dune-project": "(lang dune 2.9)\n"}
    for n, c in files.items():
        pth = os.path.join(d, n)
        if not os.path.exists(pth) or open(pth).read() != c:
            open(pth, "w").write(c)
    rc, out = sh("dune build --root . ./main.exe 2>&1", cwd=d, timeout=900)
    if rc != 0:
        report["build_errors"].append("case generator of %s failed to build:\n%s" % (pid, out[-3000:]))
        return None
    return os.path.join(d, "_build", "default", "main.exe")


def build_runner(report, race=False, pid=None):
    os.makedirs(os.path.join(WORK, pid or "all", "bin"), exist_ok=True)
    exe = os.path.join(WORK, pid or "all", "bin", "runner-race" if race else "runner")
    src = HARNESS
    if os.path.abspath(REPO) != "/repo":
        # scratch clone under test (VERIF_REPO): same harness sources, replace directive pointed at it
        src = os.path.join(WORK, pid or "all", "harness-alt")
        shutil.rmtree(src, ignore_errors=True)
        shutil.copytree(HARNESS, src)
        gm = open(os.path.join(src, "go.mod")).read().replace("=> /repo", "=> " + os.path.abspath(REPO))
        open(os.path.join(src, "go.mod"), "w").write(gm)
    sums = os.path.join(REPO, "go.sum")
    if os.path.exists(sums):
        shutil.copy(sums, os.path.join(src, "go.sum"))
    # hook files under /verif/hooks (package twig, //go:build verif, add-only) that are not (yet) committed in the
    # repository are added to the package through a build overlay; the working tree is never touched
    ov = {}
    for h in sorted(glob.glob(os.path.join(V, "hooks", "*.go"))):
        tgt = os.path.join(os.path.abspath(REPO), os.path.basename(h))
        # /verif/hooks is the master copy: it replaces a committed copy of the same name as well
        ov[tgt] = h
    ovf = os.path.join(WORK, pid or "all", "overlay.json")
    json.dump({"Replace": ov}, open(ovf, "w"))
    cmd = ["go", "build", "-tags", "verif", "-overlay", ovf] + (["-race"] if race else []) + ["-o", exe, "."]
    rc, out = sh(cmd, cwd=src, timeout=900)
    if rc != 0:
        report["build_errors"].append("go build -tags verif of the runner against %s failed:\n%s" % (REPO, out[-3000:]))
        return None
    return exe


def repo_state():
    rc, head = sh("git -C %s rev-parse --short HEAD" % REPO)
    rc2, st = sh("git -C %s status --porcelain" % REPO)
    return {"head": head.strip(), "dirty_files": [l[3:] for l in st.splitlines() if l.strip()][:50]}


def known_findings():
    res = []
    p = os.path.join(V, "KNOWN_FINDINGS.txt")
    if not os.path.exists(p):
        return res
    for line in open(p):
        line = line.strip()
        m = re.match(r"finding:\s+property=(\S+)\s+class=(\S+)\s+(?:witness=(\S+)\s+)?::\s*(.*)", line)
        if m:
            res.append({"property": m.group(1), "class": m.group(2), "witness": m.group(3), "what": m.group(4)})
    return res
