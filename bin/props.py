"""Per-property configuration of bin/check. `rule` is the generation / non-triviality rule printed in
the evidence (DESIGN.md A.5); `reference_spec` marks properties whose expected observable comes from
the proved Spec layer (a disagreement is then a failing input of the property itself)."""
PROPS = {
    "C07": {
        "rule": "every 1-byte and every 2-byte string (exhaustive), fixed pre-escaped / multi-byte / invalid UTF-8 strings and random "
                "strings biased to the five special characters, each through {{v|e}}, {{v|escape}}, a filter chain, apply, a macro body, "
                "an included template, nested control structures and the built-in fallback of ApplyFilter; distinct by input bytes, "
                "non-trivial = input contains at least one of < > & \" '",
        "explanation": "theorems over all byte strings about the model escape = flat_map esc1; model tied to filterEscape/html.EscapeString and to the "
                       "ApplyFilter fallback by exact output comparison; search oracle = no raw special byte and Go's html.UnescapeString(out) = in",
    },
}
