"""Per-property configuration of bin/check, one JSON file per property under /verif/props/.
Keys: rule (generation / non-triviality rule printed in the evidence, DESIGN.md A.5), explanation (what is proved and how
it is tied to the code), partial (what the theorem cannot exhibit), reference_spec (set when the expected observable comes
from the proved Spec layer: a disagreement is then a failing input of the property itself), race (runner built with -race),
timeout, allowed_axioms, assumptions, trusted_extra, technique."""
import glob, json, os
_d = os.path.join(os.path.dirname(os.path.dirname(os.path.abspath(__file__))), "props")
PROPS = {os.path.basename(f)[:-5]: json.load(open(f)) for f in sorted(glob.glob(os.path.join(_d, "C*.json")))}
