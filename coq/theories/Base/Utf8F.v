(* UTF-8 as Go sees it (unicode/utf8): decoding a byte string into code points the way
   `for range s`, `[]rune(s)`, utf8.DecodeRuneInString and utf8.RuneCountInString do, and encoding
   code points back the way string(runes) / WriteRune do.
   An invalid or truncated sequence decodes to U+FFFD with width 1; a code point that is not a
   Unicode scalar value (surrogate, or above U+10FFFF) encodes as U+FFFD.
   Definitions only; the lemmas are in Proofs/Utf8FProofs.v. *)
From Twig Require Import Base.Bytes.
From Coq Require Import NArith.
Local Open Scope N_scope.

Definition uf8_n (b : byte) : N := Byte.to_N b.
Definition uf8_byte (n : N) : byte := match Byte.of_N n with Some b => b | None => x00 end.
Definition uf8_fffd : N := 65533.
Definition uf8_in (lo hi n : N) : bool := (lo <=? n) && (n <=? hi).
Definition uf8_cont (b : byte) : bool := uf8_in 128 191 (uf8_n b).

(* range of the second byte, by first byte (the acceptRanges table of unicode/utf8) *)
Definition uf8_second_ok (n0 n1 : N) : bool :=
  if n0 =? 224 then uf8_in 160 191 n1
  else if n0 =? 237 then uf8_in 128 159 n1
  else if n0 =? 240 then uf8_in 144 191 n1
  else if n0 =? 244 then uf8_in 128 143 n1
  else uf8_in 128 191 n1.

Definition uf8_err : N * nat * bool := (uf8_fffd, 1%nat, false).

(* utf8.DecodeRune on a non-empty string: code point, width, and whether the sequence was valid *)
Definition uf8_step (s : bytes) : N * nat * bool :=
  match s with
  | [] => (uf8_fffd, 0%nat, false)
  | b0 :: r0 =>
    let n0 := uf8_n b0 in
    if n0 <? 128 then (n0, 1%nat, true)
    else if uf8_in 194 223 n0 then
      match r0 with
      | b1 :: _ =>
        if uf8_cont b1 then ((n0 - 192) * 64 + (uf8_n b1 - 128), 2%nat, true) else uf8_err
      | _ => uf8_err
      end
    else if uf8_in 224 239 n0 then
      match r0 with
      | b1 :: b2 :: _ =>
        if uf8_second_ok n0 (uf8_n b1) && uf8_cont b2
        then ((n0 - 224) * 4096 + (uf8_n b1 - 128) * 64 + (uf8_n b2 - 128), 3%nat, true) else uf8_err
      | _ => uf8_err
      end
    else if uf8_in 240 244 n0 then
      match r0 with
      | b1 :: b2 :: b3 :: _ =>
        if uf8_second_ok n0 (uf8_n b1) && uf8_cont b2 && uf8_cont b3
        then ((n0 - 240) * 262144 + (uf8_n b1 - 128) * 4096 + (uf8_n b2 - 128) * 64 + (uf8_n b3 - 128), 4%nat, true)
        else uf8_err
      | _ => uf8_err
      end
    else uf8_err
  end.

(* the string cut into decoded chunks: (code point, the bytes it was decoded from).
   fuel = length of the input; every step consumes at least one byte *)
Fixpoint uf8_chunks_f (fuel : nat) (s : bytes) : list (N * bytes) :=
  match fuel with
  | O => []
  | S f =>
    match s with
    | [] => []
    | _ :: _ =>
      match uf8_step s with
      | (c, w, _) => (c, firstn w s) :: uf8_chunks_f f (skipn w s)
      end
    end
  end.
Definition uf8_chunks (s : bytes) : list (N * bytes) := uf8_chunks_f (length s) s.

(* []rune(s) *)
Definition uf8_cps (s : bytes) : list N := map fst (uf8_chunks s).
(* utf8.RuneCountInString *)
Definition uf8_count (s : bytes) : nat := length (uf8_chunks s).

Definition uf8_scalar (c : N) : bool := (c <? 55296) || ((57344 <=? c) && (c <? 1114112)).

(* utf8.AppendRune *)
Definition uf8_enc1 (c : N) : bytes :=
  if c <? 128 then [uf8_byte c]
  else if c <? 2048 then [uf8_byte (192 + c / 64); uf8_byte (128 + c mod 64)]
  else if negb (uf8_scalar c) then [xef; xbf; xbd]
  else if c <? 65536 then
    [uf8_byte (224 + c / 4096); uf8_byte (128 + (c / 64) mod 64); uf8_byte (128 + c mod 64)]
  else
    [uf8_byte (240 + c / 262144); uf8_byte (128 + (c / 4096) mod 64); uf8_byte (128 + (c / 64) mod 64);
     uf8_byte (128 + c mod 64)].
(* string(runes) *)
Definition uf8_encode (l : list N) : bytes := flat_map uf8_enc1 l.

(* valid UTF-8: every chunk is a valid sequence *)
Definition uf8_validb (s : bytes) : bool :=
  forallb (fun ch => bytes_eqb (uf8_enc1 (fst ch)) (snd ch)) (uf8_chunks s).

(* what string([]rune(s)) is: every invalid byte replaced by the encoding of U+FFFD *)
Definition uf8_sanitize (s : bytes) : bytes := uf8_encode (uf8_cps s).
