(* The target language of the kernel translator (tools/gogen/gen_kernel.go) and its semantics.

   The translator turns blocks of Go code over int / uint64 / bool variables into terms of kstm (Gen/Kernels.v).
   krun wrap env s runs such a term; wrap is what the machine does to the result of a signed operation:
     krun w64 ...          Go's semantics: int is 64 bits wide and wraps around;
     krun (fun z => z) ... the reading in unbounded integers that the property theorems use.
   ksafe env s says that on the executed path no signed operation leaves the int64 range, no divisor is zero,
   no int(u) conversion changes its value and every asserted condition holds. ksafe_sound: then both readings
   give the same result. Beside every term the translator writes the same function as plain Gallina and proves the
   two equal by computation, so that proofs can work on the readable form. *)
From Coq Require Import ZArith List Bool Lia.
From Twig Require Import Base.Bytes.
Import ListNotations.
Local Open Scope Z_scope.

Inductive kval := KZ (z : Z) | KB (b : bool).
(* what a translated block returns: a tag chosen by the translator's target and the values it carries *)
Inductive kres := KRet (tag : bytes) (args : list kval).

(* the int64 range; Go's int is 64 bits wide on every platform the library supports *)
Definition in64 (z : Z) : bool := (- 2^63 <=? z) && (z <? 2^63).
(* uint64 arithmetic wraps *)
Definition u64 (z : Z) : Z := z mod 2^64.
(* int(u) for a uint64 u *)
Definition i64of (u : Z) : Z := if u <? 2^63 then u else u - 2^64.
(* signed wrap-around *)
Definition w64 (z : Z) : Z := (z + 2^63) mod 2^64 - 2^63.

Definition kall (l : list bool) : bool := forallb (fun b => b) l.

Lemma in64_spec z : in64 z = true <-> - 2^63 <= z < 2^63.
Proof. unfold in64. rewrite andb_true_iff, Z.leb_le, Z.ltb_lt. tauto. Qed.
Lemma w64_small z : in64 z = true -> w64 z = z.
Proof. intros H. apply in64_spec in H. unfold w64. rewrite Z.mod_small by lia. lia. Qed.
Lemma w64_in64 z : in64 (w64 z) = true.
Proof. apply in64_spec. unfold w64. pose proof (Z.mod_pos_bound (z + 2^63) (2^64) ltac:(lia)). lia. Qed.
(* the wrapped sum does not depend on whether a summand was wrapped before *)
Lemma w64_add_r a b : w64 (a + w64 b) = w64 (a + b).
Proof.
  unfold w64. replace (a + ((b + 2^63) mod 2^64 - 2^63) + 2^63) with (a + (b + 2^63) mod 2^64) by lia.
  rewrite Zplus_mod_idemp_r. f_equal. f_equal. lia.
Qed.

(* ------------------------------------------------------------------ expressions *)
Inductive kbin :=
| OAdd | OSub | OMul | OQuo | ORem            (* int *)
| OUAdd | OUSub | OUMul | OUQuo | OURem       (* uint64 *)
| OLt | OLe | OGt | OGe | OEq | ONe           (* comparisons of numbers *)
| OBeq | OBne | OAnd | OOr.                   (* booleans *)
Inductive kun := NNeg | NUNeg | NNot | NU64 | NInt | NAssert.
Inductive kexp :=
| XVar (x : bytes) | XInt (z : Z) | XBool (b : bool)
| XBin (o : kbin) (a b : kexp) | XUn (o : kun) (a : kexp).

Definition kenv := list (bytes * kval).

(* projections with a default, so that evaluation is total; the translator's by-computation lemmas show that the
   generated terms never meet the defaults *)
Definition kint (v : kval) : Z := match v with KZ z => z | KB _ => 0 end.
Definition kbool (v : kval) : bool := match v with KB b => b | KZ _ => false end.

Definition kbin_eval (wrap : Z -> Z) (o : kbin) (x y : kval) : kval :=
  match o with
  | OAdd => KZ (wrap (kint x + kint y))
  | OSub => KZ (wrap (kint x - kint y))
  | OMul => KZ (wrap (kint x * kint y))
  | OQuo => KZ (wrap (Z.quot (kint x) (kint y)))
  | ORem => KZ (Z.rem (kint x) (kint y))
  | OUAdd => KZ (u64 (kint x + kint y))
  | OUSub => KZ (u64 (kint x - kint y))
  | OUMul => KZ (u64 (kint x * kint y))
  | OUQuo => KZ (kint x / kint y)
  | OURem => KZ (kint x mod kint y)
  | OLt => KB (kint x <? kint y)
  | OLe => KB (kint x <=? kint y)
  | OGt => KB (kint x >? kint y)
  | OGe => KB (kint x >=? kint y)
  | OEq => KB (kint x =? kint y)
  | ONe => KB (negb (kint x =? kint y))
  | OBeq => KB (Bool.eqb (kbool x) (kbool y))
  | OBne => KB (negb (Bool.eqb (kbool x) (kbool y)))
  | OAnd => KB (kbool x && kbool y)
  | OOr => KB (kbool x || kbool y)
  end.

Definition kun_eval (wrap : Z -> Z) (o : kun) (x : kval) : kval :=
  match o with
  | NNeg => KZ (wrap (- kint x))
  | NUNeg => KZ (u64 (- kint x))
  | NNot => KB (negb (kbool x))
  | NU64 => KZ (u64 (kint x))
  | NInt => KZ (i64of (kint x))
  | NAssert => KB (kbool x)
  end.

Fixpoint keval (wrap : Z -> Z) (env : kenv) (e : kexp) : kval :=
  match e with
  | XVar x => match assoc_bytes env x with Some v => v | None => KZ 0 end
  | XInt z => KZ z
  | XBool b => KB b
  | XBin o a b => kbin_eval wrap o (keval wrap env a) (keval wrap env b)
  | XUn o a => kun_eval wrap o (keval wrap env a)
  end.

Definition kid (z : Z) : Z := z.

(* the checks of one operation on the values of its operands *)
Definition kbin_ok (o : kbin) (x y : kval) : list bool :=
  match o with
  | OAdd => [in64 (kint x + kint y)]
  | OSub => [in64 (kint x - kint y)]
  | OMul => [in64 (kint x * kint y)]
  | OQuo => [negb (kint y =? 0); in64 (Z.quot (kint x) (kint y))]
  | ORem | OUQuo | OURem => [negb (kint y =? 0)]
  | _ => []
  end.
Definition kun_ok (o : kun) (x : kval) : list bool :=
  match o with
  | NNeg => [in64 (- kint x)]
  | NInt => [kint x <? 2^63]
  | NAssert => [kbool x]
  | _ => []
  end.

(* the list of checks of an expression, in evaluation order; the right operand of && / || only when it is evaluated *)
Fixpoint kchk (env : kenv) (e : kexp) : list bool :=
  match e with
  | XVar _ | XInt _ | XBool _ => []
  | XBin OAnd a b => kchk env a ++ [if kbool (keval kid env a) then kall (kchk env b) else true]
  | XBin OOr a b => kchk env a ++ [if kbool (keval kid env a) then true else kall (kchk env b)]
  | XBin o a b => kchk env a ++ kchk env b ++ kbin_ok o (keval kid env a) (keval kid env b)
  | XUn o a => kchk env a ++ kun_ok o (keval kid env a)
  end.

Lemma kall_app l1 l2 : kall (l1 ++ l2) = kall l1 && kall l2.
Proof. unfold kall. apply forallb_app. Qed.

Lemma kbin_ok_sound o x y : kall (kbin_ok o x y) = true -> kbin_eval w64 o x y = kbin_eval kid o x y.
Proof.
  unfold kid. destruct o; cbn [kbin_ok kbin_eval kall forallb]; intros H; try reflexivity;
    repeat (apply andb_true_iff in H; destruct H as [? H]); rewrite ?w64_small by assumption; reflexivity.
Qed.
Lemma kun_ok_sound o x : kall (kun_ok o x) = true -> kun_eval w64 o x = kun_eval kid o x.
Proof.
  unfold kid. destruct o; cbn [kun_ok kun_eval kall forallb]; intros H; try reflexivity;
    repeat (apply andb_true_iff in H; destruct H as [? H]); rewrite ?w64_small by assumption; reflexivity.
Qed.

Lemma kchk_sound env e : kall (kchk env e) = true -> keval w64 env e = keval kid env e.
Proof.
  induction e as [x|z|b|o a IHa b IHb|o a IHa]; intros H; try reflexivity.
  - assert (Ha : kall (kchk env a) = true).
    { destruct o; cbn [kchk] in H; rewrite !kall_app in H; apply andb_true_iff in H; tauto. }
    cbn [keval]. rewrite (IHa Ha).
    destruct o;
      try (cbn [kchk] in H; rewrite !kall_app in H;
           apply andb_true_iff in H; destruct H as [_ H]; apply andb_true_iff in H; destruct H as [Hb H];
           rewrite (IHb Hb); apply kbin_ok_sound; exact H).
    + cbn [kchk] in H. rewrite kall_app in H. apply andb_true_iff in H. destruct H as [_ H].
      cbn [kall forallb] in H. rewrite andb_true_r in H. cbn [kbin_eval].
      destruct (kbool (keval kid env a)); [rewrite (IHb H)|]; reflexivity.
    + cbn [kchk] in H. rewrite kall_app in H. apply andb_true_iff in H. destruct H as [_ H].
      cbn [kall forallb] in H. rewrite andb_true_r in H. cbn [kbin_eval].
      destruct (kbool (keval kid env a)); [|rewrite (IHb H)]; reflexivity.
  - cbn [kchk] in H. rewrite kall_app in H. apply andb_true_iff in H. destruct H as [Ha H].
    cbn [keval]. rewrite (IHa Ha). apply kun_ok_sound. exact H.
Qed.

(* ------------------------------------------------------------------ blocks and statements *)
Definition klook (env : kenv) (x : bytes) : kval := match assoc_bytes env x with Some v => v | None => KZ 0 end.

(* the value of a variable after an if / else that assigns it in its branches; isb: the variable is a boolean *)
Definition kite (isb c : bool) (x y : kval) : kval :=
  if isb then KB (if c then kbool x else kbool y) else KZ (if c then kint x else kint y).
Definition kjoin (xs : list (bytes * bool)) (c : bool) (et ef env : kenv) : kenv :=
  map (fun xb => (fst xb, kite (snd xb) c (klook et (fst xb)) (klook ef (fst xb)))) xs ++ env.

(* blocks without return: assignments and nested if / else; they transform the environment *)
Inductive kblk :=
| BNil
| BLet (x : bytes) (e : kexp) (k : kblk)
| BChk (es : list kexp) (k : kblk)
| BJoin (xs : list (bytes * bool)) (c : kexp) (t f : kblk) (k : kblk).

Fixpoint kblk_run (wrap : Z -> Z) (env : kenv) (b : kblk) : kenv :=
  match b with
  | BNil => env
  | BLet x e k => kblk_run wrap ((x, keval wrap env e) :: env) k
  | BChk _ k => kblk_run wrap env k
  | BJoin xs c t f k =>
      kblk_run wrap (kjoin xs (kbool (keval wrap env c)) (kblk_run wrap env t) (kblk_run wrap env f) env) k
  end.

Fixpoint kblk_safe (env : kenv) (b : kblk) : bool :=
  match b with
  | BNil => true
  | BLet x e k => kall (kchk env e) && kblk_safe ((x, keval kid env e) :: env) k
  | BChk es k => kall (flat_map (kchk env) es) && kblk_safe env k
  | BJoin xs c t f k =>
      kall (kchk env c) && (if kbool (keval kid env c) then kblk_safe env t else kblk_safe env f) &&
      kblk_safe (kjoin xs (kbool (keval kid env c)) (kblk_run kid env t) (kblk_run kid env f) env) k
  end.

Inductive kstm :=
| SLet (x : bytes) (e : kexp) (k : kstm)
| SChk (es : list kexp) (k : kstm)                          (* evaluated for their checks only *)
| SIf (c : kexp) (t f : kstm)                               (* a branch may return *)
| SJoin (xs : list (bytes * bool)) (c : kexp) (t f : kblk) (k : kstm)
| SRet (tag : bytes) (args : list kexp).

Fixpoint krun (wrap : Z -> Z) (env : kenv) (s : kstm) : kres :=
  match s with
  | SLet x e k => krun wrap ((x, keval wrap env e) :: env) k
  | SChk _ k => krun wrap env k
  | SIf c t f => if kbool (keval wrap env c) then krun wrap env t else krun wrap env f
  | SJoin xs c t f k =>
      krun wrap (kjoin xs (kbool (keval wrap env c)) (kblk_run wrap env t) (kblk_run wrap env f) env) k
  | SRet tag args => KRet tag (map (keval wrap env) args)
  end.

Fixpoint ksafe (env : kenv) (s : kstm) : bool :=
  match s with
  | SLet x e k => kall (kchk env e) && ksafe ((x, keval kid env e) :: env) k
  | SChk es k => kall (flat_map (kchk env) es) && ksafe env k
  | SIf c t f => kall (kchk env c) && (if kbool (keval kid env c) then ksafe env t else ksafe env f)
  | SJoin xs c t f k =>
      kall (kchk env c) && (if kbool (keval kid env c) then kblk_safe env t else kblk_safe env f) &&
      ksafe (kjoin xs (kbool (keval kid env c)) (kblk_run kid env t) (kblk_run kid env f) env) k
  | SRet _ args => kall (flat_map (kchk env) args)
  end.

Lemma kchk_sound_list env es : kall (flat_map (kchk env) es) = true -> map (keval w64 env) es = map (keval kid env) es.
Proof.
  induction es as [|e es IH]; cbn [flat_map map]; intros H; [reflexivity|].
  rewrite kall_app in H. apply andb_true_iff in H. destruct H as [He Hes].
  rewrite (kchk_sound env e He), (IH Hes). reflexivity.
Qed.

(* the branch that is not taken does not matter *)
Lemma kjoin_true xs et ef ef' env : kjoin xs true et ef env = kjoin xs true et ef' env.
Proof. reflexivity. Qed.
Lemma kjoin_false xs et et' ef env : kjoin xs false et ef env = kjoin xs false et' ef env.
Proof. reflexivity. Qed.

Lemma kblk_safe_sound : forall b env, kblk_safe env b = true -> kblk_run w64 env b = kblk_run kid env b.
Proof.
  induction b as [|x e k IH|es k IH|xs c t IHt f IHf k IHk]; intros env H; cbn [kblk_safe] in H; cbn [kblk_run].
  - reflexivity.
  - apply andb_true_iff in H. destruct H as [He Hk]. rewrite (kchk_sound env e He). apply IH. exact Hk.
  - apply andb_true_iff in H. destruct H as [_ Hk]. apply IH. exact Hk.
  - apply andb_true_iff in H. destruct H as [H Hk]. apply andb_true_iff in H. destruct H as [Hc Hb].
    rewrite (kchk_sound env c Hc). destruct (kbool (keval kid env c)).
    + rewrite (IHt env Hb). rewrite (kjoin_true xs _ (kblk_run w64 env f) (kblk_run kid env f)). apply IHk. exact Hk.
    + rewrite (IHf env Hb). rewrite (kjoin_false xs (kblk_run w64 env t) (kblk_run kid env t)). apply IHk. exact Hk.
Qed.

(* when every check on the executed path holds, the machine (wrapping) and the unbounded reading agree *)
Theorem ksafe_sound : forall s env, ksafe env s = true -> krun w64 env s = krun kid env s.
Proof.
  induction s as [x e k IH|es k IH|c t IHt f IHf|xs c t f k IHk|tag args]; intros env H; cbn [ksafe] in H; cbn [krun].
  - apply andb_true_iff in H. destruct H as [He Hk]. rewrite (kchk_sound env e He). apply IH. exact Hk.
  - apply andb_true_iff in H. destruct H as [_ Hk]. apply IH. exact Hk.
  - apply andb_true_iff in H. destruct H as [Hc Hb]. rewrite (kchk_sound env c Hc).
    destruct (kbool (keval kid env c)); [apply IHt|apply IHf]; exact Hb.
  - apply andb_true_iff in H. destruct H as [H Hk]. apply andb_true_iff in H. destruct H as [Hc Hb].
    rewrite (kchk_sound env c Hc). destruct (kbool (keval kid env c)).
    + rewrite (kblk_safe_sound t env Hb). rewrite (kjoin_true xs _ (kblk_run w64 env f) (kblk_run kid env f)). apply IHk. exact Hk.
    + rewrite (kblk_safe_sound f env Hb). rewrite (kjoin_false xs (kblk_run w64 env t) (kblk_run kid env t)). apply IHk. exact Hk.
  - rewrite (kchk_sound_list env args H). reflexivity.
Qed.
