(* Sorting and permutations, for the determinism property C03.

   - sp_isort: the stable insertion sort by a key, over an abstract decidable total order on keys.
     Go's sort.SliceStable and sort.Strings are specified by their result (the stable sorted
     permutation), which is what sp_isort computes.
   - sp_isort_canonical: two permutations of a list whose keys are pairwise different sort to the
     same list. This is what makes sorted map iteration independent of the map order.
   - the lexicographic order on byte strings (Go's < on strings) and its instance bytes_sort with
     sort_perm_canonical : Permutation l l' -> NoDup l -> bytes_sort l = bytes_sort l'.
   - apply_perm: the permutation oracle. Any list of numbers is a valid code (Lehmer style: take
     element (k mod length) out of what is left), every code gives a permutation and every
     permutation has a code. *)
From Coq Require Import List Permutation Arith Lia Bool NArith.
From Twig Require Import Base.Bytes.
Import ListNotations.

(* ------------------------------------------------------------------ stable insertion sort *)
Section SortBy.
  Variables A K : Type.
  Variable leb : K -> K -> bool.
  Variable key : A -> K.

  Fixpoint sp_insert (x : A) (l : list A) : list A :=
    match l with
    | [] => [x]
    | y :: r => if leb (key x) (key y) then x :: y :: r else y :: sp_insert x r
    end.

  Fixpoint sp_isort (l : list A) : list A :=
    match l with
    | [] => []
    | x :: r => sp_insert x (sp_isort r)
    end.

  (* sorted: every element is below everything after it *)
  Fixpoint sp_sorted (l : list A) : Prop :=
    match l with
    | [] => True
    | x :: r => (forall y, In y r -> leb (key x) (key y) = true) /\ sp_sorted r
    end.

  Lemma sp_insert_perm (x : A) (l : list A) : Permutation (sp_insert x l) (x :: l).
  Proof.
    induction l as [|y r IH]; simpl.
    - apply Permutation_refl.
    - destruct (leb (key x) (key y)).
      + apply Permutation_refl.
      + eapply Permutation_trans; [apply perm_skip; exact IH|apply perm_swap].
  Qed.

  Lemma sp_isort_perm (l : list A) : Permutation (sp_isort l) l.
  Proof.
    induction l as [|x r IH]; simpl.
    - apply Permutation_refl.
    - eapply Permutation_trans; [apply sp_insert_perm|apply perm_skip; exact IH].
  Qed.

  Hypothesis leb_total : forall a b, leb a b = true \/ leb b a = true.
  Hypothesis leb_trans : forall a b c, leb a b = true -> leb b c = true -> leb a c = true.
  Hypothesis leb_antisym : forall a b, leb a b = true -> leb b a = true -> a = b.

  Lemma sp_insert_sorted (x : A) (l : list A) : sp_sorted l -> sp_sorted (sp_insert x l).
  Proof.
    induction l as [|y r IH]; simpl; intro Hs.
    - split; [intros y []|exact I].
    - destruct Hs as [Hy Hr].
      destruct (leb (key x) (key y)) eqn:E.
      + simpl. split.
        * intros z [Hz|Hz].
          -- subst z. exact E.
          -- eapply leb_trans; [exact E|apply Hy; exact Hz].
        * split; assumption.
      + simpl. split.
        * intros z Hz.
          apply (Permutation_in _ (sp_insert_perm x r)) in Hz.
          destruct Hz as [Hz|Hz].
          -- subst z. destruct (leb_total (key x) (key y)) as [H|H]; [congruence|exact H].
          -- apply Hy; exact Hz.
        * apply IH; exact Hr.
  Qed.

  Lemma sp_isort_sorted (l : list A) : sp_sorted (sp_isort l).
  Proof.
    induction l as [|x r IH]; simpl; [exact I|apply sp_insert_sorted; exact IH].
  Qed.

  (* a sorted list without repeated keys is determined by its elements *)
  Lemma sp_sorted_unique (l1 : list A) : forall l2,
    sp_sorted l1 -> sp_sorted l2 -> Permutation l1 l2 -> NoDup (map key l1) -> l1 = l2.
  Proof.
    induction l1 as [|a r1 IH]; intros l2 Hs1 Hs2 Hp Hnd.
    - apply Permutation_nil in Hp. subst. reflexivity.
    - destruct l2 as [|b r2].
      + apply Permutation_sym, Permutation_nil in Hp. discriminate.
      + assert (Hab : a = b).
        { assert (Hb : In b (a :: r1)) by (apply (Permutation_in _ (Permutation_sym Hp)); left; reflexivity).
          assert (Ha : In a (b :: r2)) by (apply (Permutation_in _ Hp); left; reflexivity).
          destruct Hb as [Hb|Hb]; [exact Hb|].
          destruct Ha as [Ha|Ha]; [symmetry; exact Ha|].
          simpl in Hs1, Hs2. destruct Hs1 as [H1 _]. destruct Hs2 as [H2 _].
          assert (Hk : key a = key b) by (apply leb_antisym; [apply H1; exact Hb|apply H2; exact Ha]).
          simpl in Hnd. inversion Hnd as [|k ks Hnin Hnd']; subst.
          exfalso. apply Hnin. rewrite Hk. apply in_map. exact Hb. }
        subst b. f_equal.
        simpl in Hs1, Hs2, Hnd.
        apply IH.
        * apply Hs1.
        * apply Hs2.
        * eapply Permutation_cons_inv; exact Hp.
        * inversion Hnd; assumption.
  Qed.

  Theorem sp_isort_canonical (l l' : list A) :
    Permutation l l' -> NoDup (map key l) -> sp_isort l = sp_isort l'.
  Proof.
    intros Hp Hnd.
    apply sp_sorted_unique.
    - apply sp_isort_sorted.
    - apply sp_isort_sorted.
    - eapply Permutation_trans; [apply sp_isort_perm|].
      eapply Permutation_trans; [exact Hp|apply Permutation_sym, sp_isort_perm].
    - eapply Permutation_NoDup; [|exact Hnd].
      apply Permutation_map, Permutation_sym, sp_isort_perm.
  Qed.

  (* a list that is already sorted stays as it is *)
  Lemma sp_isort_sorted_id (l : list A) : sp_sorted l -> NoDup (map key l) -> sp_isort l = l.
  Proof.
    intros Hs Hnd. apply sp_sorted_unique.
    - apply sp_isort_sorted.
    - exact Hs.
    - apply sp_isort_perm.
    - eapply Permutation_NoDup; [|exact Hnd]. apply Permutation_map, Permutation_sym, sp_isort_perm.
  Qed.
End SortBy.

Arguments sp_insert {A K} leb key x l.
Arguments sp_isort {A K} leb key l.
Arguments sp_sorted {A K} leb key l.

(* ------------------------------------------------------------------ the order on byte strings *)
Definition byte_ltb (x y : byte) : bool := N.ltb (Byte.to_N x) (Byte.to_N y).

(* Go's <= on strings: bytewise lexicographic, a proper prefix is smaller *)
Fixpoint bytes_leb (a b : bytes) : bool :=
  match a, b with
  | [], _ => true
  | _ :: _, [] => false
  | x :: a', y :: b' =>
      if byte_ltb x y then true else if byte_ltb y x then false else bytes_leb a' b'
  end.

Definition bytes_ltb (a b : bytes) : bool := negb (bytes_leb b a).

Lemma byte_to_N_inj (x y : byte) : Byte.to_N x = Byte.to_N y -> x = y.
Proof.
  intro H.
  assert (E : Some x = Some y) by (rewrite <- (Byte.of_to_N x), <- (Byte.of_to_N y), H; reflexivity).
  congruence.
Qed.

Lemma byte_ltb_irrefl (x : byte) : byte_ltb x x = false.
Proof. unfold byte_ltb. apply N.ltb_irrefl. Qed.

Lemma byte_ltb_tricho (x y : byte) : byte_ltb x y = false -> byte_ltb y x = false -> x = y.
Proof.
  unfold byte_ltb. intros H1 H2. apply N.ltb_ge in H1. apply N.ltb_ge in H2.
  apply byte_to_N_inj. lia.
Qed.

Lemma byte_ltb_asym (x y : byte) : byte_ltb x y = true -> byte_ltb y x = false.
Proof. unfold byte_ltb. intro H. apply N.ltb_lt in H. apply N.ltb_ge. lia. Qed.

Lemma byte_ltb_trans (x y z : byte) : byte_ltb x y = true -> byte_ltb y z = true -> byte_ltb x z = true.
Proof. unfold byte_ltb. intros H1 H2. apply N.ltb_lt in H1. apply N.ltb_lt in H2. apply N.ltb_lt. lia. Qed.

Lemma bytes_leb_refl (a : bytes) : bytes_leb a a = true.
Proof. induction a as [|x a IH]; simpl; [reflexivity|]. rewrite byte_ltb_irrefl. exact IH. Qed.

Lemma bytes_leb_total (a b : bytes) : bytes_leb a b = true \/ bytes_leb b a = true.
Proof.
  revert b; induction a as [|x a IH]; intros [|y b]; simpl; auto.
  destruct (byte_ltb x y) eqn:E1; [left; reflexivity|].
  destruct (byte_ltb y x) eqn:E2; [right; reflexivity|].
  apply IH.
Qed.

Lemma bytes_leb_antisym (a b : bytes) : bytes_leb a b = true -> bytes_leb b a = true -> a = b.
Proof.
  revert b; induction a as [|x a IH]; intros [|y b]; simpl; intros H1 H2; try reflexivity; try discriminate.
  destruct (byte_ltb x y) eqn:E1.
  - rewrite (byte_ltb_asym _ _ E1) in H2. discriminate.
  - destruct (byte_ltb y x) eqn:E2; [discriminate|].
    rewrite (byte_ltb_tricho _ _ E1 E2). f_equal. apply IH; assumption.
Qed.

Lemma bytes_leb_trans (a b c : bytes) : bytes_leb a b = true -> bytes_leb b c = true -> bytes_leb a c = true.
Proof.
  revert b c; induction a as [|x a IH]; intros [|y b] [|z c]; simpl; intros H1 H2; try reflexivity; try discriminate.
  destruct (byte_ltb x y) eqn:Exy.
  - (* x < y *)
    destruct (byte_ltb y z) eqn:Eyz.
    + rewrite (byte_ltb_trans _ _ _ Exy Eyz). reflexivity.
    + destruct (byte_ltb z y) eqn:Ezy; [discriminate|].
      rewrite <- (byte_ltb_tricho _ _ Eyz Ezy). rewrite Exy. reflexivity.
  - destruct (byte_ltb y x) eqn:Eyx; [discriminate|].
    assert (x = y) by (apply byte_ltb_tricho; assumption). subst y.
    destruct (byte_ltb x z) eqn:Exz; [reflexivity|].
    destruct (byte_ltb z x) eqn:Ezx; [discriminate|].
    eapply IH; eassumption.
Qed.

(* sort.Strings *)
Definition bytes_sort (l : list bytes) : list bytes := sp_isort bytes_leb (fun s => s) l.

Theorem sort_perm_canonical (l l' : list bytes) :
  Permutation l l' -> NoDup l -> bytes_sort l = bytes_sort l'.
Proof.
  intros Hp Hnd. unfold bytes_sort.
  apply sp_isort_canonical.
  - apply bytes_leb_total.
  - apply bytes_leb_trans.
  - apply bytes_leb_antisym.
  - exact Hp.
  - rewrite map_id. exact Hnd.
Qed.

(* sorting by a byte-string key, e.g. sortedMapKeys by mapKeyString *)
Theorem sort_by_key_canonical {A} (key : A -> bytes) (l l' : list A) :
  Permutation l l' -> NoDup (map key l) -> sp_isort bytes_leb key l = sp_isort bytes_leb key l'.
Proof.
  intros Hp Hnd. apply sp_isort_canonical.
  - apply bytes_leb_total.
  - apply bytes_leb_trans.
  - apply bytes_leb_antisym.
  - exact Hp.
  - exact Hnd.
Qed.

(* ------------------------------------------------------------------ the permutation oracle *)
Fixpoint sp_take_nth {A} (k : nat) (l : list A) : option (A * list A) :=
  match l with
  | [] => None
  | x :: r =>
      match k with
      | O => Some (x, r)
      | S k' => match sp_take_nth k' r with
                | Some (y, r') => Some (y, x :: r')
                | None => None
                end
      end
  end.

Fixpoint sp_apply_perm_fuel {A} (n : nat) (pi : list nat) (l : list A) : list A :=
  match n with
  | O => []
  | S n' =>
      match sp_take_nth (Nat.modulo (hd O pi) (length l)) l with
      | Some (x, r) => x :: sp_apply_perm_fuel n' (tl pi) r
      | None => []
      end
  end.

(* the order in which an iteration with oracle code pi visits l *)
Definition apply_perm {A} (pi : list nat) (l : list A) : list A := sp_apply_perm_fuel (length l) pi l.

Lemma sp_take_nth_perm {A} (k : nat) : forall (l : list A) x r,
  sp_take_nth k l = Some (x, r) -> Permutation l (x :: r) /\ length l = S (length r).
Proof.
  induction k as [|k IH]; intros [|y l] x r H; simpl in H; try discriminate.
  - inversion H; subst. split; [apply Permutation_refl|reflexivity].
  - destruct (sp_take_nth k l) as [[z r']|] eqn:E; [|discriminate].
    inversion H; subst. apply IH in E. destruct E as [Hp Hl]. split.
    + eapply Permutation_trans; [apply perm_skip; exact Hp|apply perm_swap].
    + simpl. rewrite Hl. reflexivity.
Qed.

Lemma sp_take_nth_some {A} (k : nat) : forall (l : list A), k < length l -> exists x r, sp_take_nth k l = Some (x, r).
Proof.
  induction k as [|k IH]; intros [|y l] H; simpl in H; try lia.
  - exists y, l. reflexivity.
  - destruct (IH l) as [x [r E]]; [lia|]. exists x, (y :: r). simpl. rewrite E. reflexivity.
Qed.

Lemma sp_apply_perm_fuel_perm {A} (n : nat) : forall pi (l : list A), length l = n -> Permutation (sp_apply_perm_fuel n pi l) l.
Proof.
  induction n as [|n IH]; intros pi l Hl.
  - destruct l; [apply Permutation_refl|discriminate].
  - simpl.
    destruct (sp_take_nth_some (Nat.modulo (hd O pi) (length l)) l) as [x [r E]].
    { apply Nat.mod_upper_bound. lia. }
    rewrite E. apply sp_take_nth_perm in E. destruct E as [Hp Hlen].
    eapply Permutation_trans; [apply perm_skip; apply IH; lia|apply Permutation_sym; exact Hp].
Qed.

Theorem apply_perm_Permutation {A} (pi : list nat) (l : list A) : Permutation (apply_perm pi l) l.
Proof. apply sp_apply_perm_fuel_perm. reflexivity. Qed.

Lemma sp_take_nth_in {A} (x : A) : forall l, In x l -> exists k r, k < length l /\ sp_take_nth k l = Some (x, r).
Proof.
  induction l as [|y l IH]; intros H; [destruct H|].
  destruct H as [H|H].
  - subst. exists O, l. split; [simpl; lia|reflexivity].
  - destruct (IH H) as [k [r [Hk E]]]. exists (S k), (y :: r). split; [simpl; lia|].
    simpl. rewrite E. reflexivity.
Qed.

(* every order is the order of some oracle code *)
Theorem apply_perm_complete {A} (l' : list A) : forall l, Permutation l l' -> exists pi, apply_perm pi l = l'.
Proof.
  induction l' as [|x r' IH]; intros l Hp.
  - apply Permutation_sym, Permutation_nil in Hp. subst. exists []. reflexivity.
  - assert (Hin : In x l) by (apply (Permutation_in _ (Permutation_sym Hp)); left; reflexivity).
    destruct (sp_take_nth_in x l Hin) as [k [r [Hk E]]].
    destruct (sp_take_nth_perm _ _ _ _ E) as [Hp2 Hlen].
    assert (Hr : Permutation r r').
    { apply Permutation_cons_inv with (a := x).
      eapply Permutation_trans; [apply Permutation_sym; exact Hp2|exact Hp]. }
    destruct (IH r Hr) as [pi Hpi].
    exists (k :: pi). unfold apply_perm. rewrite Hlen. simpl.
    rewrite Nat.mod_small by lia. rewrite E. f_equal.
    unfold apply_perm in Hpi. exact Hpi.
Qed.

Lemma apply_perm_length {A} (pi : list nat) (l : list A) : length (apply_perm pi l) = length l.
Proof. apply Permutation_length, apply_perm_Permutation. Qed.

(* ------------------------------------------------------------------ pairs of byte strings, first component first *)
(* the comparator of sortedMapKeys after the tie-break: by string form, then by type name *)
Definition bytes2_leb (a b : bytes * bytes) : bool :=
  if bytes_eqb (fst a) (fst b) then bytes_leb (snd a) (snd b) else bytes_leb (fst a) (fst b).

Lemma bytes2_leb_total (a b : bytes * bytes) : bytes2_leb a b = true \/ bytes2_leb b a = true.
Proof.
  unfold bytes2_leb. destruct (bytes_eqb (fst a) (fst b)) eqn:E.
  - apply bytes_eqb_eq in E. rewrite E, bytes_eqb_refl. apply bytes_leb_total.
  - assert (E' : bytes_eqb (fst b) (fst a) = false).
    { destruct (bytes_eqb (fst b) (fst a)) eqn:E2; [|reflexivity]. apply bytes_eqb_eq in E2. rewrite E2, bytes_eqb_refl in E. discriminate. }
    rewrite E'. apply bytes_leb_total.
Qed.

Lemma bytes2_leb_antisym (a b : bytes * bytes) : bytes2_leb a b = true -> bytes2_leb b a = true -> a = b.
Proof.
  unfold bytes2_leb. destruct a as [a1 a2], b as [b1 b2]. simpl.
  destruct (bytes_eqb a1 b1) eqn:E.
  - apply bytes_eqb_eq in E. subst b1. rewrite bytes_eqb_refl. intros H1 H2. f_equal. apply bytes_leb_antisym; assumption.
  - assert (E' : bytes_eqb b1 a1 = false).
    { destruct (bytes_eqb b1 a1) eqn:E2; [|reflexivity]. apply bytes_eqb_eq in E2. subst. rewrite bytes_eqb_refl in E. discriminate. }
    rewrite E'. intros H1 H2. assert (a1 = b1) by (apply bytes_leb_antisym; assumption). subst. rewrite bytes_eqb_refl in E. discriminate.
Qed.

Lemma bytes_eqb_false (a b : bytes) : bytes_eqb a b = false <-> a <> b.
Proof.
  split.
  - intros H E. apply bytes_eqb_eq in E. congruence.
  - intro H. destruct (bytes_eqb a b) eqn:E; [apply bytes_eqb_eq in E; contradiction|reflexivity].
Qed.

Lemma bytes2_leb_trans (a b c : bytes * bytes) : bytes2_leb a b = true -> bytes2_leb b c = true -> bytes2_leb a c = true.
Proof.
  unfold bytes2_leb. destruct a as [a1 a2], b as [b1 b2], c as [c1 c2]. simpl.
  destruct (bytes_eqb a1 b1) eqn:Eab.
  - apply bytes_eqb_eq in Eab. subst b1.
    destruct (bytes_eqb a1 c1) eqn:Eac; intros H1 H2; [eapply bytes_leb_trans; eassumption|exact H2].
  - destruct (bytes_eqb b1 c1) eqn:Ebc.
    + apply bytes_eqb_eq in Ebc. subst c1. rewrite Eab. intros H1 _. exact H1.
    + intros H1 H2.
      assert (H13 : bytes_leb a1 c1 = true) by (eapply bytes_leb_trans; eassumption).
      destruct (bytes_eqb a1 c1) eqn:Eac; [|exact H13].
      apply bytes_eqb_eq in Eac. subst c1.
      assert (a1 = b1) by (apply bytes_leb_antisym; assumption). subst. rewrite bytes_eqb_refl in Eab. discriminate.
Qed.

Theorem sort_by_key2_canonical {A} (key : A -> bytes * bytes) (l l' : list A) :
  Permutation l l' -> NoDup (map key l) -> sp_isort bytes2_leb key l = sp_isort bytes2_leb key l'.
Proof.
  intros Hp Hnd. apply sp_isort_canonical.
  - apply bytes2_leb_total.
  - apply bytes2_leb_trans.
  - apply bytes2_leb_antisym.
  - exact Hp.
  - exact Hnd.
Qed.
