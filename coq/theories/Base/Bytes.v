(* Byte strings: Go strings are arbitrary byte sequences, and so are the model's. *)
From Coq Require Export List ZArith Lia Bool.
From Coq Require Export Strings.Byte.
Export ListNotations.

Definition bytes := list byte.

(* "..." literals for byte lists: b#"text" *)
Inductive bsw := BS (l : list byte).
Definition unbs (b : bsw) : bytes := match b with BS l => l end.
Declare Scope bs_scope.
Delimit Scope bs_scope with bs.
String Notation bsw BS unbs : bs_scope.
Notation "'b#' s" := (unbs s%bs) (at level 0, s at level 0, only parsing).

Arguments Byte.eqb : simpl never.

Lemma byte_eqb_eq (a b : byte) : Byte.eqb a b = true <-> a = b.
Proof.
  split.
  - intro H. apply Byte.byte_dec_bl in H. exact H.
  - intro H. subst. apply Byte.byte_dec_lb. reflexivity.
Qed.

Lemma byte_eqb_refl (a : byte) : Byte.eqb a a = true.
Proof. apply byte_eqb_eq. reflexivity. Qed.

Lemma byte_eqb_neq (a b : byte) : Byte.eqb a b = false <-> a <> b.
Proof.
  split.
  - intros H E. apply byte_eqb_eq in E. congruence.
  - intro H. destruct (Byte.eqb a b) eqn:E; [apply byte_eqb_eq in E; contradiction|reflexivity].
Qed.

Lemma byte_eqb_spec (a b : byte) : reflect (a = b) (Byte.eqb a b).
Proof.
  destruct (Byte.eqb a b) eqn:E; constructor.
  - apply byte_eqb_eq; exact E.
  - apply byte_eqb_neq; exact E.
Qed.

Fixpoint bytes_eqb (a b : bytes) : bool :=
  match a, b with
  | [], [] => true
  | x :: a', y :: b' => Byte.eqb x y && bytes_eqb a' b'
  | _, _ => false
  end.

Lemma bytes_eqb_eq (a b : bytes) : bytes_eqb a b = true <-> a = b.
Proof.
  revert b; induction a as [|x a IH]; intros [|y b]; simpl; split; intro H; try congruence; try reflexivity.
  - apply andb_true_iff in H. destruct H as [H1 H2]. apply byte_eqb_eq in H1. apply IH in H2. congruence.
  - inversion H; subst. rewrite byte_eqb_refl. simpl. apply IH. reflexivity.
Qed.

Lemma bytes_eqb_refl (a : bytes) : bytes_eqb a a = true.
Proof. apply bytes_eqb_eq; reflexivity. Qed.

Fixpoint prefixb (p s : bytes) : bool :=
  match p, s with
  | [], _ => true
  | a :: p', b :: s' => Byte.eqb a b && prefixb p' s'
  | _ :: _, [] => false
  end.

Lemma prefixb_spec (p s : bytes) : prefixb p s = true <-> exists r, s = p ++ r.
Proof.
  revert s; induction p as [|a p IH]; intros s; simpl.
  - split; [intros _; exists s; reflexivity|reflexivity].
  - destruct s as [|b s].
    + split; [discriminate|intros [r Hr]; discriminate].
    + rewrite andb_true_iff, byte_eqb_eq, IH. split.
      * intros [-> [r ->]]. exists r. reflexivity.
      * intros [r Hr]. inversion Hr; subst. split; [reflexivity|exists r; reflexivity].
Qed.

Fixpoint assoc_bytes {A} (l : list (bytes * A)) (k : bytes) : option A :=
  match l with
  | [] => None
  | (k', v) :: r => if bytes_eqb k' k then Some v else assoc_bytes r k
  end.

Definition byte_to_N (b : byte) : N := Byte.to_N b.

Definition bytes_len (s : bytes) : nat := length s.
Definition z_of_byte (b : byte) : Z := Z.of_N (Byte.to_N b).
