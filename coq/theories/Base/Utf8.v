(* Go's UTF-8 decoding as the evaluator needs it (DESIGN 2.2): `for range s`, []rune(s), utf8.DecodeRuneInString
   and utf8.DecodeLastRuneInString. A string is cut into runes; an invalid byte is a rune of width 1 that
   reads as U+FFFD. Code point values are never needed by the models (only rune boundaries, and the text
   string(r) of one rune), so a rune is represented by its bytes: (valid?, raw bytes).
   Proved here: the raw bytes of the runes concatenate to the input, every rune is 1..4 bytes wide, and for
   valid input the re-encoded text string([]rune(s)) is the input. *)
From Twig Require Import Base.Bytes.
From Coq Require Import NArith.

Definition u8_n (b : byte) : N := Byte.to_N b.
Definition u8_in (b : byte) (lo hi : N) : bool := ((lo <=? u8_n b) && (u8_n b <=? hi))%N.
Definition u8_cont (b : byte) : bool := u8_in b 128 191.

(* utf8.DecodeRuneInString on a non-empty string: (valid, width). Mirrors the table `first` and
   `acceptRanges` of unicode/utf8: 00-7F one byte; 80-C1 and F5-FF invalid; C2-DF two bytes;
   E0 (second byte A0-BF), E1-EC, ED (second byte 80-9F), EE-EF three bytes;
   F0 (second byte 90-BF), F1-F3, F4 (second byte 80-8F) four bytes. Every failure has width 1. *)
Definition u8_step (s : bytes) : bool * nat :=
  match s with
  | [] => (false, 0)
  | b0 :: r =>
    let n0 := u8_n b0 in
    if (n0 <? 128)%N then (true, 1)
    else if (n0 <? 194)%N then (false, 1)
    else if (n0 <? 224)%N then
      match r with
      | b1 :: _ => if u8_cont b1 then (true, 2) else (false, 1)
      | _ => (false, 1)
      end
    else if (n0 <? 240)%N then
      let lo := if (n0 =? 224)%N then 160%N else 128%N in
      let hi := if (n0 =? 237)%N then 159%N else 191%N in
      match r with
      | b1 :: b2 :: _ => if u8_in b1 lo hi && u8_cont b2 then (true, 3) else (false, 1)
      | _ => (false, 1)
      end
    else if (n0 <? 245)%N then
      let lo := if (n0 =? 240)%N then 144%N else 128%N in
      let hi := if (n0 =? 244)%N then 143%N else 191%N in
      match r with
      | b1 :: b2 :: b3 :: _ => if u8_in b1 lo hi && u8_cont b2 && u8_cont b3 then (true, 4) else (false, 1)
      | _ => (false, 1)
      end
    else (false, 1)
  end.

(* the runes of a string, left to right: `for _, r := range s` / []rune(s) *)
Fixpoint u8_runes_fuel (fuel : nat) (s : bytes) : list (bool * bytes) :=
  match fuel with
  | O => []
  | S f =>
    match s with
    | [] => []
    | _ :: _ => let '(ok, n) := u8_step s in (ok, firstn n s) :: u8_runes_fuel f (skipn n s)
    end
  end.
Definition u8_runes (s : bytes) : list (bool * bytes) := u8_runes_fuel (length s) s.

(* U+FFFD in UTF-8 *)
Definition u8_replacement : bytes := [xef; xbf; xbd].
(* string(r) for one decoded rune *)
Definition u8_rune_text (r : bool * bytes) : bytes := if fst r then snd r else u8_replacement.
(* the elements of a string loop: string(r) for each r of []rune(s) *)
Definition u8_chars (s : bytes) : list bytes := map u8_rune_text (u8_runes s).
(* utf8.RuneCountInString, len([]rune(s)) *)
Definition u8_count (s : bytes) : nat := length (u8_runes s).
(* utf8.ValidString *)
Definition u8_valid (s : bytes) : bool := forallb fst (u8_runes s).

(* utf8.RuneStart *)
Definition u8_rune_start (b : byte) : bool := negb (u8_cont b).

(* utf8.DecodeLastRuneInString: width of the last rune (0 for the empty string). Looks back at most
   4 bytes for a start byte, decodes from there and accepts the result only when it ends at the end. *)
(* for start--; start >= lim; start-- { if RuneStart(s[start]) { break } }  -- at most 4 candidates *)
Fixpoint u8_back (k : nat) (s : bytes) (lim start : Z) : Z :=
  match k with
  | O => start
  | S k' =>
    if (start <? lim)%Z then start
    else if u8_rune_start (nth (Z.to_nat start) s x00) then start
    else u8_back k' s lim (start - 1)
  end.

Definition u8_last_width (s : bytes) : nat :=
  let n := Z.of_nat (length s) in
  match s with
  | [] => O
  | _ :: _ =>
    if (u8_n (nth (Z.to_nat (n - 1)) s x00) <? 128)%N then 1
    else
      let lim := Z.max 0 (n - 4) in
      let start0 := u8_back 5 s lim (n - 2) in
      let start := if (start0 <? 0)%Z then 0%Z else start0 in
      let '(_, w) := u8_step (skipn (Z.to_nat start) s) in
      if (start + Z.of_nat w =? n)%Z then w else 1
  end.

(* ---------------------------------------------------------------- facts *)

Lemma u8_step_width (s : bytes) : s <> [] -> 1 <= snd (u8_step s) <= 4 /\ snd (u8_step s) <= length s.
Proof.
  destruct s as [|b0 r]; [congruence|]. intros _. unfold u8_step.
  destruct (u8_n b0 <? 128)%N; [cbn; lia|].
  destruct (u8_n b0 <? 194)%N; [cbn; lia|].
  destruct (u8_n b0 <? 224)%N.
  { destruct r as [|b1 r]; [cbn; lia|]. destruct (u8_cont b1); cbn; lia. }
  destruct (u8_n b0 <? 240)%N.
  { destruct r as [|b1 [|b2 r]]; try (cbn; lia).
    destruct (u8_in b1 _ _ && u8_cont b2); cbn; lia. }
  destruct (u8_n b0 <? 245)%N.
  { destruct r as [|b1 [|b2 [|b3 r]]]; try (cbn; lia).
    destruct (u8_in b1 _ _ && u8_cont b2 && u8_cont b3); cbn; lia. }
  cbn; lia.
Qed.

Lemma u8_runes_fuel_concat : forall fuel s, length s <= fuel ->
  concat (map snd (u8_runes_fuel fuel s)) = s.
Proof.
  induction fuel as [|f IH]; intros s Hl.
  - destruct s; [reflexivity|cbn in Hl; lia].
  - destruct s as [|b r]; [reflexivity|].
    cbn [u8_runes_fuel]. destruct (u8_step (b :: r)) as [ok n] eqn:E.
    pose proof (u8_step_width (b :: r) ltac:(congruence)) as [[H1 H4] Hn]. rewrite E in *. cbn [snd] in *.
    cbn [map snd concat]. rewrite IH.
    + apply firstn_skipn.
    + rewrite skipn_length. cbn [length] in *. lia.
Qed.

(* the raw bytes of the runes are the string: nothing is lost or reordered by decoding *)
Lemma u8_runes_concat (s : bytes) : concat (map snd (u8_runes s)) = s.
Proof. apply u8_runes_fuel_concat. lia. Qed.

(* for valid input string([]rune(s)) = s *)
Lemma u8_chars_valid (s : bytes) : u8_valid s = true -> concat (u8_chars s) = s.
Proof.
  unfold u8_valid, u8_chars. intro H.
  rewrite <- (u8_runes_concat s) at 2.
  induction (u8_runes s) as [|[ok raw] l IH]; [reflexivity|].
  cbn [forallb fst] in H. apply andb_true_iff in H. destruct H as [H1 H2]. subst ok.
  cbn [map concat u8_rune_text fst snd]. rewrite IH by exact H2. reflexivity.
Qed.

Lemma u8_runes_fuel_length : forall fuel s, length (u8_runes_fuel fuel s) <= length s.
Proof.
  induction fuel as [|f IH]; intros s; [cbn; lia|].
  destruct s as [|b r]; [cbn; lia|].
  cbn [u8_runes_fuel]. destruct (u8_step (b :: r)) as [ok n] eqn:E.
  pose proof (u8_step_width (b :: r) ltac:(congruence)) as [[H1 H4] Hn]. rewrite E in *. cbn [snd] in *.
  cbn [length]. specialize (IH (skipn n (b :: r))). rewrite skipn_length in IH. cbn [length] in *. lia.
Qed.

(* len([]rune(s)) <= len(s) *)
Lemma u8_count_le (s : bytes) : u8_count s <= length s.
Proof. apply u8_runes_fuel_length. Qed.

Lemma u8_count_nil : u8_count [] = 0.
Proof. reflexivity. Qed.

Lemma u8_count_pos (s : bytes) : s <> [] -> 0 < u8_count s.
Proof. destruct s as [|b r]; [congruence|]. intros _. unfold u8_count, u8_runes. cbn [length u8_runes_fuel].
  destruct (u8_step (b :: r)). cbn [length]. lia. Qed.
