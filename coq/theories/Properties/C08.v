(* Property C08: expressions follow the operator table and mean the same in every position.
   Model/ExprLexer.v mirrors TokenizeExpression, Model/Parser.v the expression parser of parser.go,
   Model/Pretty.v prints a tree with the fewest parentheses the table permits (pp_min), fully
   parenthesised (pp_full) or with any other choice of redundant parentheses (pp_top px), with any quote
   character and any lexically safe spacing (pp_render q sp). Spec/ExprEval.v says what a tree means.
   Proofs in Proofs/ParserProofs.v, Proofs/ExprLexerProofs.v, Proofs/ExprEvalProofs.v. *)
From Twig Require Import Base.Bytes Model.Ast Model.Value Model.ExprLexer Model.Parser Model.Pretty
  Gen.PrecTable Gen.CharClass Spec.ExprEval Proofs.ParserProofs Proofs.ExprLexerProofs Proofs.ExprEvalProofs.

(* the parser reads back every well-formed tree, printed with the fewest parentheses *)
Theorem C08_roundtrip_min : forall e : expr, pp_wf e = true -> xp_parse (pp_min e) = Ok e.
Proof. exact C08_roundtrip_min_proof. Qed.

(* ... fully parenthesised *)
Theorem C08_roundtrip_full : forall e : expr, pp_wf e = true -> xp_parse (pp_full e) = Ok e.
Proof. exact C08_roundtrip_full_proof. Qed.

(* ... and with any choice px of sub-expressions that get redundant parentheses *)
Theorem C08_roundtrip_any : forall (px : expr -> bool) (e : expr), pp_wf e = true -> xp_parse (pp_top px e) = Ok e.
Proof. exact C08_roundtrip_any_proof. Qed.

(* hence all spellings have the same tree, and the same value under any evaluator *)
Theorem C08_paren_irrelevant : forall e : expr, pp_wf e = true ->
  xp_parse (pp_min e) = xp_parse (pp_full e) /\
  forall (px : expr -> bool) (A : Type) (value : outcome expr -> A),
    value (xp_parse (pp_top px e)) = value (xp_parse (pp_min e)).
Proof. exact C08_paren_irrelevant_proof. Qed.

(* the lexer reads back every token list written with safe spacing, either quote character *)
Theorem C08_lex_roundtrip : forall (q : byte) (sp : nat -> bytes) (ts : list xtok),
  q = XSQ \/ q = XDQ -> pp_safe q sp 0 ts = true -> xl_lex (pp_render q sp 0 ts) = Ok ts.
Proof. exact C08_lex_roundtrip_proof. Qed.

(* from source text to tree *)
Theorem C08_roundtrip_src : forall (px : expr -> bool) (e : expr) (q : byte) (sp : nat -> bytes),
  pp_wf e = true -> q = XSQ \/ q = XDQ -> pp_safe q sp 0 (pp_top px e) = true ->
  xp_parse_src (pp_render q sp 0 (pp_top px e)) = Ok e.
Proof. exact C08_roundtrip_src_proof. Qed.

(* with single blanks between the tokens there is no side condition left: text to tree, for every
   well-formed tree, any redundant parentheses, either quote character *)
Theorem C08_roundtrip_text : forall (px : expr -> bool) (e : expr) (q : byte),
  pp_wf e = true -> q = XSQ \/ q = XDQ ->
  let ts := pp_top px e in
  xp_parse_src (pp_render q (pp_sp_single (length ts)) 0 ts) = Ok e.
Proof. exact C08_roundtrip_text_proof. Qed.

Theorem C08_roundtrip_text_min_full : forall e : expr, pp_wf e = true ->
  xp_parse_src (pp_src_min e) = Ok e /\ xp_parse_src (pp_src_full e) = Ok e.
Proof. exact C08_roundtrip_text_min_full_proof. Qed.

(* the parser never runs out of fuel with 6 * tokens + 6, and more fuel changes nothing: it terminates *)
Theorem C08_fuel_bound : forall ts : list xtok,
  xp_expr (xp_fuel ts) ts <> OutOfFuel /\
  xp_parse ts <> OutOfFuel /\
  (forall f, xp_fuel ts <= f -> xp_expr f ts = xp_expr (xp_fuel ts) ts) /\
  xp_fuel ts = 6 * length ts + 6.
Proof. exact C08_fuel_bound_proof. Qed.

(* the lexer terminates on every byte string; the single-name shortcut of the print tag agrees with it *)
Theorem C08_lexer_total : forall s : bytes,
  xl_lex s <> OutOfFuel /\ (xl_valid_var_name s = true -> xl_lex_var_tag s = xl_lex s).
Proof. exact C08_lexer_total_proof. Qed.

(* the tables extracted from parser.go and zero_alloc_tokenizer.go have the shape the property states *)
Theorem C08_prec_table :
  c08_table_ok = true /\
  (0 < prec_or /\ prec_or < prec_and /\ prec_and < prec_compare /\ prec_compare < prec_sum /\
   prec_sum < prec_product /\ prec_product < prec_power /\ prec_power < prec_prefix) /\
  (forall o, pp_bprec o = c08_level_of o) /\
  prec_start = prec_or /\ prec_right_incr = 1 /\
  cc_shape_ok = true /\ cc_branch_order = xl_model_branch_order.
Proof. exact C08_prec_table_proof. Qed.

(* equal precedence groups from the left; a tighter operator is absorbed by its neighbour *)
Theorem C08_left_assoc : forall (o1 o2 : binop) (x y z : bytes),
  pp_name_ok x = true -> pp_name_ok y = true -> pp_name_ok z = true -> pp_bprec o1 = pp_bprec o2 ->
  xp_parse ([pp_N x] ++ pp_binop_toks o1 ++ [pp_N y] ++ pp_binop_toks o2 ++ [pp_N z])
  = Ok (EBin o2 (EBin o1 (EVar x) (EVar y)) (EVar z)).
Proof. exact C08_left_assoc_proof. Qed.

Theorem C08_precedence : forall (o1 o2 : binop) (x y z : bytes),
  pp_name_ok x = true -> pp_name_ok y = true -> pp_name_ok z = true -> pp_bprec o1 < pp_bprec o2 ->
  xp_parse ([pp_N x] ++ pp_binop_toks o1 ++ [pp_N y] ++ pp_binop_toks o2 ++ [pp_N z])
  = Ok (EBin o1 (EVar x) (EBin o2 (EVar y) (EVar z))) /\
  xp_parse ([pp_N x] ++ pp_binop_toks o2 ++ [pp_N y] ++ pp_binop_toks o1 ++ [pp_N z])
  = Ok (EBin o1 (EBin o2 (EVar x) (EVar y)) (EVar z)).
Proof. exact C08_precedence_proof. Qed.

(* the reference evaluator: and / or evaluate the right operand only when needed *)
Theorem C08_short_circuit : forall (env : spec_env) (a : expr) (v : value),
  spec_eval env a = Ok v ->
  (spec_truthy v = Some false -> forall b, spec_eval env (EBin BAnd a b) = Ok (VBool false)) /\
  (spec_truthy v = Some true -> forall b, spec_eval env (EBin BOr a b) = Ok (VBool true)).
Proof. exact C08_short_circuit_proof. Qed.

(* in / not in against a list: true exactly when some element equals the left operand, whatever the length of the
   list and wherever the element stands; not in is its negation *)
Theorem C08_membership : forall (env : spec_env) (a : expr) (x : bytes) (va : value) (t : ltag) (xs : list value) (r : bool),
  spec_eval env a = Ok va -> spec_eval env (EVar x) = Ok (VList t xs) -> spec_member va xs = Some r ->
  spec_eval env (EBin BIn a (EVar x)) = Ok (VBool r) /\
  spec_eval env (EBin BNotIn a (EVar x)) = Ok (VBool (negb r)) /\
  (r = true <-> exists y, In y xs /\ spec_equal va y = Some true).
Proof. exact C08_membership_proof. Qed.

(* the same against an array literal whose elements are evaluated left to right *)
Theorem C08_membership_literal : forall (env : spec_env) (a : expr) (es : list expr) (va : value) (vs : list value) (r : bool),
  spec_eval env a = Ok va -> spec_list (spec_eval env) es = Ok vs -> spec_member va vs = Some r ->
  spec_eval env (EBin BIn a (EArr es)) = Ok (VBool r) /\
  spec_eval env (EBin BNotIn a (EArr es)) = Ok (VBool (negb r)) /\
  (r = true <-> exists y, In y vs /\ spec_equal va y = Some true).
Proof. exact C08_membership_literal_proof. Qed.

(* numeric comparison also of strings that spell whole numbers (canonical decimal numerals), with each other and with
   integers: '10' < '9' is 10 < 9 *)
Theorem C08_numeral_strings : forall (env : spec_env) (a b : expr) (va vb : value) (x y : Z),
  spec_eval env a = Ok va -> spec_eval env b = Ok vb -> spec_num va = Some x -> spec_num vb = Some y ->
  spec_eval env (EBin BLt a b) = Ok (VBool (x <? y)%Z) /\ spec_eval env (EBin BLe a b) = Ok (VBool (x <=? y)%Z) /\
  spec_eval env (EBin BGt a b) = Ok (VBool (y <? x)%Z) /\ spec_eval env (EBin BGe a b) = Ok (VBool (y <=? x)%Z).
Proof. exact C08_numeral_strings_proof. Qed.

(* the conditional operator evaluates exactly one branch *)
Theorem C08_conditional_one_branch : forall (env : spec_env) (c : expr) (v : value),
  spec_eval env c = Ok v ->
  (spec_truthy v = Some true -> forall t f, spec_eval env (ECond c t f) = spec_eval env t) /\
  (spec_truthy v = Some false -> forall t f, spec_eval env (ECond c t f) = spec_eval env f).
Proof. exact C08_conditional_one_branch_proof. Qed.

(* exact integer arithmetic and numeric comparison *)
Theorem C08_integer_arithmetic : forall (env : spec_env) (a b : expr) (x y : Z),
  spec_eval env a = Ok (VInt x) -> spec_eval env b = Ok (VInt y) ->
  (spec_in_range (x + y) = true -> spec_eval env (EBin BAdd a b) = Ok (VInt (x + y))) /\
  (spec_in_range (x - y) = true -> spec_eval env (EBin BSub a b) = Ok (VInt (x - y))) /\
  (spec_in_range (x * y) = true -> spec_eval env (EBin BMul a b) = Ok (VInt (x * y))) /\
  (y <> 0%Z -> spec_in_range (Z.rem x y) = true -> spec_eval env (EBin BMod a b) = Ok (VInt (Z.rem x y))) /\
  spec_eval env (EBin BLt a b) = Ok (VBool (x <? y)%Z) /\ spec_eval env (EBin BLe a b) = Ok (VBool (x <=? y)%Z) /\
  spec_eval env (EBin BGt a b) = Ok (VBool (y <? x)%Z) /\ spec_eval env (EBin BGe a b) = Ok (VBool (y <=? x)%Z) /\
  spec_eval env (EBin BEq a b) = Ok (VBool (x =? y)%Z) /\ spec_eval env (EBin BNe a b) = Ok (VBool (negb (x =? y)%Z)).
Proof. exact C08_integer_arithmetic_proof. Qed.

(* every integer the reference evaluator yields lies within +-2^53 *)
Theorem C08_integer_range : forall (env : spec_env) (e : expr) (z : Z),
  spec_eval env e = Ok (VInt z) -> (- 2 ^ 53 <= z <= 2 ^ 53)%Z.
Proof. exact C08_integer_range_proof. Qed.

(* concatenation of the text forms *)
Theorem C08_concat : forall (env : spec_env) (a b : expr) (va vb : value) (sa sb : bytes),
  spec_eval env a = Ok va -> spec_eval env b = Ok vb -> spec_show va = Some sa -> spec_show vb = Some sb ->
  spec_eval env (EBin BConcat a b) = Ok (VStr (sa ++ sb)).
Proof. exact C08_concat_proof. Qed.

(* ---- non-vacuity ---- *)
Definition c08_ex1 : expr :=    (* 1 + 2 * 3 * 4 *)
  EBin BAdd (ELit (LInt 1)) (EBin BMul (EBin BMul (ELit (LInt 2)) (ELit (LInt 3))) (ELit (LInt 4))).
Example c08_ex1_wf : pp_wf c08_ex1 = true. Proof. reflexivity. Qed.
Example c08_ex1_src : pp_src_min c08_ex1 = b#"1 + 2 * 3 * 4". Proof. reflexivity. Qed.
Example c08_ex1_full : pp_src_full c08_ex1 = b#"( 1 + ( ( 2 * 3 ) * 4 ) )". Proof. vm_compute. reflexivity. Qed.
Example c08_ex1_parse : xp_parse_src b#"1+2*3*4" = Ok c08_ex1. Proof. vm_compute. reflexivity. Qed.
Example c08_ex1_value : spec_print [] c08_ex1 = Ok b#"25". Proof. vm_compute. reflexivity. Qed.

Definition c08_ex2 : expr :=    (* a is not odd ? [x|default(3), m.k] : -l[0] *)
  ECond (ETest (EVar b#"a") b#"odd" [] true)
        (EArr [EFilter (EVar b#"x") b#"default" [ELit (LInt 3)]; EAttr (EVar b#"m") b#"k"])
        (EItem (EUn UNeg (EVar b#"l")) (ELit (LInt 0))).
Example c08_ex2_wf : pp_wf c08_ex2 = true. Proof. reflexivity. Qed.
Example c08_ex2_parse : xp_parse_src b#"a is not odd?[x|default(3),m.k]:-l[0]" = Ok c08_ex2.
Proof. vm_compute. reflexivity. Qed.

(* right nesting needs parentheses, and they are kept *)
Example c08_ex3 : pp_src_min (EBin BSub (ELit (LInt 10)) (EBin BSub (ELit (LInt 4)) (ELit (LInt 3)))) = b#"10 - ( 4 - 3 )".
Proof. vm_compute. reflexivity. Qed.
(* the power operator groups from the left as well *)
Example c08_ex4 : xp_parse_src b#"2 ^ 3 ^ 2" = Ok (EBin BPow (EBin BPow (ELit (LInt 2)) (ELit (LInt 3))) (ELit (LInt 2))).
Proof. vm_compute. reflexivity. Qed.
(* a unary sign binds tighter than a filter and than an index *)
Example c08_ex5 : xp_parse_src b#"-5|abs" = Ok (EFilter (EUn UNeg (ELit (LInt 5))) b#"abs" []).
Proof. vm_compute. reflexivity. Qed.
(* the minus alternative of the number branch is dead: an operator token, then the number *)
Example c08_ex6 : xl_lex b#"1 -2" = Ok [XT XNumber b#"1"; XT XOp b#"-"; XT XNumber b#"2"].
Proof. vm_compute. reflexivity. Qed.
(* attribute access after an index or a parenthesis; a sign binds tighter than the postfix operators *)
Example c08_ex7 : xp_parse_src b#"a[0].b" = Ok (EAttr (EItem (EVar b#"a") (ELit (LInt 0))) b#"b") /\
                  pp_src_min (EAttr (EUn UNeg (EVar b#"a")) b#"b") = b#"( - a ) . b" /\
                  xp_parse_src b#"-a.b" = Ok (EUn UNeg (EAttr (EVar b#"a") b#"b")).
Proof. repeat split; vm_compute; reflexivity. Qed.
(* a literal that ends in an escaped backslash ends at its second quote *)
Example c08_ex7b : xl_lex [x27; x61; x5c; x5c; x27; x7e; x27; x62; x27]
                   = Ok [XT XString [x61; x5c; x5c]; XT XOp b#"~"; XT XString b#"b"].
Proof. vm_compute. reflexivity. Qed.
(* short circuit: the right operand may even fail *)
Example c08_ex8 : spec_eval [] (EBin BOr (ELit (LBool true)) (EBin BDiv (ELit (LInt 1)) (ELit (LInt 0)))) = Ok (VBool true).
Proof. reflexivity. Qed.

Print Assumptions C08_roundtrip_min.
Print Assumptions C08_roundtrip_full.
Print Assumptions C08_roundtrip_any.
Print Assumptions C08_paren_irrelevant.
Print Assumptions C08_lex_roundtrip.
Print Assumptions C08_roundtrip_src.
Print Assumptions C08_roundtrip_text.
Print Assumptions C08_roundtrip_text_min_full.
Print Assumptions C08_fuel_bound.
Print Assumptions C08_lexer_total.
Print Assumptions C08_prec_table.
Print Assumptions C08_left_assoc.
Print Assumptions C08_precedence.
Print Assumptions C08_short_circuit.
Print Assumptions C08_membership.
Print Assumptions C08_membership_literal.
Print Assumptions C08_numeral_strings.
Print Assumptions C08_conditional_one_branch.
Print Assumptions C08_integer_arithmetic.
Print Assumptions C08_integer_range.
Print Assumptions C08_concat.
