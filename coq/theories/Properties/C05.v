(* C05 -- no template source, context value or compiled-data byte string makes the engine panic or hang.
   PARTIAL: what a Gallina model can carry of this property is totality (a result for every input),
   index safety (no access to the token list or to the input bytes outside its bounds) and termination
   (an explicit fuel bound) of the models of the scanner, the block-tag parser and the deserialiser.
   Panics raised inside reflect or the Go runtime on context values, stack exhaustion and memory are
   facts of the runtime; they are looked for by the monitor of harness/c05.go, not proved here.
   The expression parser is a parameter of the block parser model (see Model/BlockParser.v: any
   function that, when it succeeds, has consumed at least one token and only tokens of the kinds NAME,
   NUMBER, STRING, OPERATOR, PUNCTUATION); its own model and fuel bound belong to C08.
   Statements only; proofs in Proofs/RobustProofs.v, Proofs/BlockParserSkipProofs.v, Proofs/LexerProofs.v,
   Proofs/DeserializeTotalProofs.v (self-contained: independent of the C16 proof development). *)
From Twig Require Import Base.Bytes Model.Lexer Model.BlockParser Model.BlockParserShape Model.Compiled
  Gen.TokenKinds Proofs.LexerProofs Proofs.DeserializeTotalProofs Proofs.BlockParserSkipProofs Proofs.RobustProofs.
From Twig Require Import Base.Kernel Gen.KernelsSlice Gen.KernelsRange Proofs.KernelSliceSafe Proofs.KernelRangeModel Proofs.KernelRangeSafe.
From Coq Require Import ZArith.
From Coq Require Import NArith.

(* the scanner (both tokenizers) returns tokens or an error for every byte string: length + 1 steps suffice *)
Theorem C05_lex_total : forall s : bytes, lex_small s <> LexFuel /\ lex_large s <> LexFuel.
Proof. exact lex_total. Qed.

(* index safety of parseOuterTemplate and all block handlers: for EVERY stand-in for parseExpression
   within the stated assumption, EVERY token list whose last token is EOF (kinds, values and lines of all
   tokens arbitrary, EOF tokens in the middle allowed), EVERY fuel, every set of open block names
   (Parser.openBlocks) and every start index inside the list, the model never indexes the token list out of range.  PPanic PTokIndex is returned by the model
   exactly at the accesses the Go code makes without a dominating bounds test. *)
Theorem C05_block_parser_index_safe :
  forall (skip : list token -> nat -> option nat) (toks : list token),
    bp_expr_spec skip -> bp_ends_in_eof toks ->
    forall fuel opn i, i <= length toks -> bp_outer skip toks fuel opn i <> PPanic PTokIndex.
Proof. exact C05_block_parser_index_safe_proof. Qed.

(* termination: every loop iteration of parseOuterTemplate and of every handler consumes a token or
   returns, so fuel = length + 1 is never exhausted (from index i: more than length - i); and the index
   only moves forward and stays within the list *)
Theorem C05_block_parser_fuel_bound :
  forall (skip : list token -> nat -> option nat) (toks : list token),
    bp_expr_spec skip -> bp_ends_in_eof toks ->
    bp_parse skip toks <> PFuel /\
    (forall fuel opn i, i <= length toks -> length toks < fuel + i -> bp_outer skip toks fuel opn i <> PFuel) /\
    (forall fuel opn i j ns, i <= length toks -> bp_outer skip toks fuel opn i = POk j ns -> i <= j <= length toks).
Proof. exact C05_block_parser_fuel_bound_proof. Qed.

(* the assumption on parseExpression is inhabited: the bracket-balanced scan the correspondence driver
   runs and the greedy run (the other extreme) both satisfy it, so the model as executed is covered *)
Theorem C05_block_parser_instances :
  bp_expr_spec bp_skip_std /\ bp_expr_spec bp_skip_greedy /\
  forall toks : list token, bp_ends_in_eofb toks = true ->
    bp_parse_std toks <> PPanic PTokIndex /\ bp_parse_std toks <> PFuel /\
    bp_parse bp_skip_greedy toks <> PPanic PTokIndex /\ bp_parse bp_skip_greedy toks <> PFuel.
Proof. split; [exact bp_skip_std_spec|split; [exact bp_skip_greedy_spec|exact C05_block_parser_std_proof]]. Qed.

(* the hypothesis on the token list is needed: on a list that does not end in EOF the same model does
   index out of range (parseSpaceless builds an error message from tokens[tokenIndex] after the test
   tokenIndex >= len(tokens) has succeeded).  Both tokenizers append EOF; the runner checks that on
   every source it scans. *)
Theorem C05_eof_needed :
  exists toks : list token, bp_ends_in_eofb toks = false /\ bp_parse_std toks = PPanic PTokIndex.
Proof. exists bp_witness_no_eof. exact C05_eof_needed_proof. Qed.

(* latent, not reachable from a source string through either tokenizer: the legacy paths of parseImport
   and parseMacro for a NAME token whose value contains " as " or "(" slice that value [1:len-1] after
   testing only that it starts and ends with a quote character *)
Theorem C05_string_slice_latent :
  bp_ends_in_eofb bp_witness_import_slice = true /\ bp_parse_std bp_witness_import_slice = PPanic PStrSlice /\
  bp_ends_in_eofb bp_witness_macro_slice = true /\ bp_parse_std bp_witness_macro_slice = PPanic PStrSlice.
Proof.
  destruct C05_string_slice_latent_proof as [H1 H2].
  split; [vm_compute; reflexivity|]. split; [exact H1|]. split; [vm_compute; reflexivity|exact H2].
Qed.

(* the model is the one of the code in the working tree: token kinds and their numbers, the handler
   table, the end tags of parseOuterTemplate and the control skeleton (every condition, token access,
   index assignment, nested call and return, in source order) of parseOuterTemplate and the fourteen
   handlers, as re-read by tools/gogen on this run, equal what the model was written against *)
Theorem C05_model_tied_to_code :
  (gen_token_kinds_shape_ok = true /\ map (fun k => (tkind_name k, tkind_code k)) bp_all_kinds = gen_token_kinds) /\
  (map (fun p => (fst p, bp_handler_name (snd p))) bp_handler_table = gen_block_handlers /\ bp_end_tags = gen_outer_end_tags) /\
  [bp_skel_parseOuterTemplate; bp_skel_parseIf; bp_skel_parseFor; bp_skel_parseSet; bp_skel_parseBlock;
   bp_skel_parseExtends; bp_skel_parseInclude; bp_skel_parseImport; bp_skel_parseFrom; bp_skel_parseMacro;
   bp_skel_parseDo; bp_skel_parseApply; bp_skel_parseSpaceless; bp_skel_parseVerbatim; bp_skel_parseEndTag] =
  [gen_skel_parseOuterTemplate; gen_skel_parseIf; gen_skel_parseFor; gen_skel_parseSet; gen_skel_parseBlock;
   gen_skel_parseExtends; gen_skel_parseInclude; gen_skel_parseImport; gen_skel_parseFrom; gen_skel_parseMacro;
   gen_skel_parseDo; gen_skel_parseApply; gen_skel_parseSpaceless; gen_skel_parseVerbatim; gen_skel_parseEndTag].
Proof. exact C05_model_tied_to_code_proof. Qed.

(* decoding arbitrary bytes as a compiled template: a value or an error for every byte list and every
   gob decoder; every byte is read through one accessor that fails exactly when fewer bytes are left than
   asked for and otherwise splits the input there; and every allocation the decoder asks for (the
   make([]byte, n) of readString and of the AST) is at most the length of the input *)
Theorem C05_deserialize_total :
  (forall (gob : bytes -> option compiled) (data : bytes),
     deserialize_compiled gob data = None \/ exists c, deserialize_compiled gob data = Some c) /\
  (forall (l : bytes) (n : N),
     (lenN l < n -> read_exact l n = None) /\
     (n <= lenN l -> exists a r, read_exact l n = Some (a, r) /\ l = a ++ r /\ lenN a = n))%N /\
  (forall (data : bytes) (n : N), In n (deserialize_allocs data) -> (n <= lenN data)%N).
Proof. exact C05_deserialize_total_proof. Qed.

(* a block nested in a block of the same name is a parse error (the repair of the unbounded render recursion) *)
Example C05_example_nested_block :
  bp_parse_std [mkTok KBlockStart [] 1; mkTok KName b#"block" 1; mkTok KName b#"a" 1; mkTok KBlockEnd [] 1;
                mkTok KBlockStart [] 1; mkTok KName b#"block" 1; mkTok KName b#"a" 1; mkTok KBlockEnd [] 1;
                mkTok KBlockStart [] 1; mkTok KName b#"endblock" 1; mkTok KBlockEnd [] 1;
                mkTok KBlockStart [] 1; mkTok KName b#"endblock" 1; mkTok KBlockEnd [] 1; mkTok KEof [] 1] = PErr.
Proof. vm_compute. reflexivity. Qed.

(* non-vacuity: a well-formed template is accepted with the expected tree; a stray end tag at top level
   stops the parse without an error (what Parser.Parse then does with the rest is not a C05 matter) *)
Example C05_example_accept :
  bp_parse_std [mkTok KBlockStart [] 1; mkTok KName b#"if" 1; mkTok KName b#"a" 1; mkTok KBlockEnd [] 1;
                mkTok KText b#"x" 1;
                mkTok KBlockStart [] 1; mkTok KName b#"else" 1; mkTok KBlockEnd [] 1;
                mkTok KVarStart [] 1; mkTok KName b#"b" 1; mkTok KPunct b#"|" 1; mkTok KName b#"upper" 1; mkTok KVarEnd [] 1;
                mkTok KBlockStart [] 1; mkTok KName b#"endif" 1; mkTok KBlockEnd [] 1; mkTok KEof [] 1]
  = POk 16 [BTIf [[BTText]] (Some [BTPrint])].
Proof. vm_compute. reflexivity. Qed.

Example C05_example_reject :
  bp_parse_std [mkTok KBlockStart [] 1; mkTok KName b#"for" 1; mkTok KName b#"x" 1; mkTok KBlockEnd [] 1; mkTok KEof [] 1] = PErr.
Proof. vm_compute. reflexivity. Qed.


(* ---------------------------------------------------------------- integer arithmetic of slice and range *)
(* The index computations of filterSlice and the count computation of functionRange, as the translator reads them
   from the working tree (Gen/KernelsSlice.v, Gen/KernelsRange.v): for every int64 argument and every length a Go
   value can have, no signed operation on the executed path leaves the int64 range, no divisor is zero, no uint64
   to int conversion changes its value, and make / reflect.MakeSlice are never asked for a negative length (that
   would panic). slice(1, 9223372036854775807) and range(0, 9223372036854775807) were such inputs on the pinned tree. *)
Theorem C05_slice_arithmetic_safe : forall (start len : Z) (hasLength : bool) (n : Z),
  in64 start = true -> in64 len = true -> (0 <= n < 2^63)%Z ->
  k_slice_string_safe start len hasLength n = true /\ k_slice_list_safe start len hasLength n = true /\
  k_slice_refl_string_safe start len hasLength n = true /\ k_slice_refl_slice_safe start len hasLength n = true.
Proof.
  intros start len hl n Hs Hl Hn. repeat split;
    [apply k_slice_string_safe_all|apply k_slice_list_safe_all|apply k_slice_refl_string_safe_all|apply k_slice_refl_slice_safe_all]; assumption.
Qed.

Theorem C05_range_arithmetic_safe : forall start stop step : Z,
  in64 start = true -> in64 stop = true -> in64 step = true -> k_range_count_safe start stop step = true.
Proof. exact k_range_count_safe_all. Qed.

(* range never builds more than krange_limit items, whatever the arguments *)
Theorem C05_range_bounded : forall start stop step c : Z,
  in64 start = true -> in64 stop = true -> in64 step = true ->
  k_range_count start stop step = KRet b#"items" [KZ c] -> (1 <= c <= krange_limit)%Z.
Proof. exact k_range_count_bounded. Qed.

Theorem C05_kernels_translated : kernels_slice_ok = true /\ kernels_range_ok = true.
Proof. split; reflexivity. Qed.

Print Assumptions C05_lex_total.
Print Assumptions C05_block_parser_index_safe.
Print Assumptions C05_block_parser_fuel_bound.
Print Assumptions C05_block_parser_instances.
Print Assumptions C05_eof_needed.
Print Assumptions C05_string_slice_latent.
Print Assumptions C05_model_tied_to_code.
Print Assumptions C05_deserialize_total.
Print Assumptions C05_slice_arithmetic_safe.
Print Assumptions C05_range_arithmetic_safe.
Print Assumptions C05_range_bounded.
Print Assumptions C05_kernels_translated.
