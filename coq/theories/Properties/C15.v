(* C15 — Template cache and loaders always serve the source the configuration calls for.
   Statements only; proofs live in Proofs/CacheProofs.v. The model (Model/Cache.v) is a state machine
   mirroring Engine.Load, RegisterString / RegisterTemplate, SetCache, SetAutoReload,
   SetDevelopmentMode, RegisterLoader of twig.go; cache_run ops is the state after the history ops
   (fold_left of cache_step from the state of twig.New). Every statement is about every history:
   any sequence of registrations, configuration changes, loader content and timestamp changes,
   loader registrations and Load / Render calls, over any names and any number of loaders.
   Declarative vocabulary (Spec/CacheSpec.v): cache_last_reg ops n = the source most recently
   registered under n; cache_first_is ls n i l f = loader number i is the first in registration order
   that has n, with file f; cache_spec_fresh s n = the observation of a call that reads the loaders
   now (current content of the first loader having n, read once; not-found and no read if none);
   cache_spec_kept s e = the observation of a call served from the template map (no loader read). *)
From Twig Require Import Base.Bytes Model.Cache Spec.CacheSpec Proofs.CacheProofs.

(* Sentence 1. Load and Render use the source most recently registered under a name — whatever
   toggles, loader changes and other calls came after the registration; no loader is read and
   nothing changes. *)
Theorem C15_registration_wins : forall ops n src,
  cache_last_reg ops n = Some src ->
  cache_step (cache_run ops) (CLoad n) =
  (cache_run ops, COLoad (CServed src) (cache_zero_reads (cache_run ops))).
Proof. exact C15_registration_wins_proof. Qed.

(* The engine as it was before notes/proposed-fixes/C15-registration-survives-cache-off.patch does not
   satisfy sentence 1: a registration made while caching is disabled is dropped (the call fails with
   not-found) ... *)
Theorem C15_registration_wins_refuted :
  exists ops n src, cache_last_reg ops n = Some src /\
    snd (cache_step_pinned (cache_run_pinned ops) (CLoad n)) = COLoad CErrNotFound [].
Proof. exact C15_registration_wins_refuted_proof. Qed.

(* ... and switching development mode on lets a loader shadow an earlier registration. *)
Theorem C15_registration_shadowed_refuted :
  exists ops n src, cache_last_reg ops n = Some src /\
    snd (cache_step_pinned (cache_run_pinned ops) (CLoad n)) = COLoad (CServed 2%N) [1%nat] /\ src <> 2%N.
Proof. exact C15_registration_shadowed_refuted_proof. Qed.

(* Invariant: a template-map entry without loader is the last registration of its name, and the
   last registration of a name is always in the template map. *)
Theorem C15_inv_registered : forall ops n,
  (forall src, cache_last_reg ops n = Some src ->
     cache_lookup (cs_cache (cache_run ops)) n = Some (mk_centry src None 0%Z)) /\
  (forall e, cache_lookup (cs_cache (cache_run ops)) n = Some e -> ce_loader e = None ->
     cache_last_reg ops n = Some (ce_src e)).
Proof. exact cache_inv_registered_proof. Qed.

(* Sentence 2. With caching disabled every call (of a name that was never registered) re-reads the
   loaders: it observes the current content of the first loader having the name, that loader is read
   once more on every such call, and nothing is stored. *)
Theorem C15_cache_off_rereads : forall ops n,
  cs_on (cache_run ops) = false -> cache_last_reg ops n = None ->
  cache_step (cache_run ops) (CLoad n) = (cache_run ops, cache_spec_fresh (cache_run ops) n).
Proof. exact C15_cache_off_rereads_proof. Qed.

(* cache_spec_fresh spelled out: outcome of the source of the first loader having the name, read
   count 1 for that loader and 0 for every other; not-found and all counts 0 when no loader has it *)
Theorem C15_fresh_spelled_out : forall s n,
  (forall i l src mt, cache_first_is (cs_loaders s) n i l (src, mt) ->
     exists rd, cache_spec_fresh s n = COLoad (cache_outcome src) rd /\
                length rd = length (cs_loaders s) /\
                forall j, nth j rd O = if Nat.eqb j i then 1%nat else O) /\
  (cache_no_loader_has (cs_loaders s) n ->
     cache_spec_fresh s n = COLoad CErrNotFound (cache_zero_reads s)).
Proof. exact C15_fresh_spelled_out_proof. Qed.

(* Sentence 3. Caching on, auto-reload on, n cached from the timestamp-aware loader number i:
   if that loader now reports a newer timestamp for n, or none, the call observes the current content
   of the first loader having n; if the timestamp is not newer, the call serves what is cached, reads
   no loader and changes nothing. *)
Theorem C15_autoreload_fresh : forall ops n e i l,
  let s := cache_run ops in
  cs_on s = true -> cs_auto s = true ->
  cache_lookup (cs_cache s) n = Some e -> ce_loader e = Some i ->
  nth_error (cs_loaders s) i = Some l -> cl_ts l = true ->
  (match cache_lookup (cl_files l) n with
   | Some (_, Some m) => (m > ce_mtime e)%Z
   | _ => True
   end ->
   snd (cache_step s (CLoad n)) = cache_spec_fresh s n) /\
  ((exists src m, cache_lookup (cl_files l) n = Some (src, Some m) /\ (m <= ce_mtime e)%Z) ->
   cache_step s (CLoad n) = (s, cache_spec_kept s e)).
Proof. exact C15_autoreload_fresh_proof. Qed.

(* Invariant: a cached entry with loader i and timestamp m carries the content loader i had — as the
   first loader having the name, with caching on — at the Load (operation number k of the history)
   that read it, and m is the timestamp the loader reported then. So what is cached is what was served. *)
Theorem C15_entry_provenance : forall ops n e i,
  cache_lookup (cs_cache (cache_run ops)) n = Some e -> ce_loader e = Some i ->
  exists k l mt,
    nth_error ops k = Some (CLoad n) /\
    cache_first_is (cs_loaders (cache_run (firstn k ops))) n i l (ce_src e, mt) /\
    ce_mtime e = cache_eff_mtime l mt /\
    cache_src_bad (ce_src e) = false /\
    cs_on (cache_run (firstn k ops)) = true.
Proof. exact C15_entry_provenance_proof. Qed.

(* the loader named by a cached entry is registered: the premises of C15_autoreload_fresh can be met *)
Theorem C15_entry_loader_registered : forall ops n e i,
  cache_lookup (cs_cache (cache_run ops)) n = Some e -> ce_loader e = Some i ->
  exists l, nth_error (cs_loaders (cache_run ops)) i = Some l.
Proof. exact C15_entry_loader_registered_proof. Qed.

(* Sentence 4. Caching on, auto-reload off: once a call has served a source for n, every later call
   serves the same source and reads no loader, whatever loader content / timestamp changes, loader
   registrations, calls for any name and registrations of other names come in between. *)
Theorem C15_frozen : forall ops mid n src rd,
  let s := cache_run ops in
  cs_on s = true -> cs_auto s = false ->
  (forall o, In o mid -> cache_frozen_ok n o = true) ->
  snd (cache_step s (CLoad n)) = COLoad (CServed src) rd ->
  let s2 := cache_run_from (fst (cache_step s (CLoad n))) mid in
  cache_step s2 (CLoad n) = (s2, COLoad (CServed src) (cache_zero_reads s2)).
Proof. exact C15_frozen_proof. Qed.

(* Sentence 5. Every call either is served from the template map without touching a loader, or
   observes the first loader in registration order that has the name; and what it stores (caching on,
   source parses) is exactly that content with that loader and its timestamp, under that name only. *)
Theorem C15_first_loader_wins : forall ops n,
  let s := cache_run ops in
  (exists e, cache_lookup (cs_cache s) n = Some e /\ cache_step s (CLoad n) = (s, cache_spec_kept s e)) \/
  (snd (cache_step s (CLoad n)) = cache_spec_fresh s n /\
   (forall i l src mt, cache_first_is (cs_loaders s) n i l (src, mt) ->
      cache_src_bad src = false -> cs_on s = true ->
      cache_lookup (cs_cache (fst (cache_step s (CLoad n)))) n =
        Some (mk_centry src (Some i) (cache_eff_mtime l mt))) /\
   (forall m, m <> n ->
      cache_lookup (cs_cache (fst (cache_step s (CLoad n)))) m = cache_lookup (cs_cache s) m)).
Proof. exact C15_first_loader_wins_proof. Qed.

(* the function used above is the predicate: loader i has the name and no earlier loader has it *)
Theorem C15_first_having_spec : forall ls n,
  (forall i l f, cache_first_having ls n = Some (i, l, f) <-> cache_first_is ls n i l f) /\
  (cache_first_having ls n = None <-> cache_no_loader_has ls n).
Proof. exact C15_first_having_spec_proof. Qed.

(* Sentence 6. A name no loader has: the call changes nothing (the state afterwards is the state
   before, so every continuation observes the same); it yields the not-found error unless the template
   map still serves the name (a registration, or a cached template that stays as it was); and it does
   yield not-found when the name is neither registered nor cached, when it was never registered and
   caching is off, and when it is cached from a timestamp-aware loader with auto-reload on. *)
Theorem C15_not_found_is_inert : forall ops n,
  let s := cache_run ops in
  cache_no_loader_has (cs_loaders s) n ->
  fst (cache_step s (CLoad n)) = s /\
  (forall cont, cache_trace_from (fst (cache_step s (CLoad n))) cont = cache_trace_from s cont) /\
  (snd (cache_step s (CLoad n)) = COLoad CErrNotFound (cache_zero_reads s) \/
   exists e, cache_lookup (cs_cache s) n = Some e /\ snd (cache_step s (CLoad n)) = cache_spec_kept s e) /\
  (cache_lookup (cs_cache s) n = None ->
   snd (cache_step s (CLoad n)) = COLoad CErrNotFound (cache_zero_reads s)) /\
  (cache_last_reg ops n = None -> cs_on s = false ->
   snd (cache_step s (CLoad n)) = COLoad CErrNotFound (cache_zero_reads s)) /\
  (forall e i l, cs_on s = true -> cs_auto s = true -> cache_lookup (cs_cache s) n = Some e ->
   ce_loader e = Some i -> nth_error (cs_loaders s) i = Some l -> cl_ts l = true ->
   snd (cache_step s (CLoad n)) = COLoad CErrNotFound (cache_zero_reads s)).
Proof. exact C15_not_found_is_inert_proof. Qed.

(* The reference used by the correspondence check: in every state (reachable or not) and for every
   value of the ghost, what the model observes is among the observations cache_allowed permits.
   cache_allowed lists one observation where the text is definite (the six sentences above) and two
   (kept, fresh) where it leaves the behaviour open: an entry from a loader without timestamps, an
   older timestamp, an earlier loader gaining the name, an entry that predates a period without caching. *)
Theorem C15_model_refines_spec : forall s d n,
  In (snd (cache_step s (CLoad n))) (cache_allowed s d n).
Proof. exact C15_model_refines_spec_proof. Qed.

(* where the text is definite (the clauses of sentences 1 to 4 and 6) the spec permits exactly one observation *)
Theorem C15_spec_definite : forall s d n,
  (cache_lookup (cs_cache s) n = None -> cache_allowed s d n = [cache_spec_fresh s n]) /\
  (forall e, cache_lookup (cs_cache s) n = Some e -> ce_loader e = None ->
     cache_allowed s d n = [cache_spec_kept s e]) /\
  (forall e i, cache_lookup (cs_cache s) n = Some e -> ce_loader e = Some i -> cs_on s = false ->
     cache_allowed s d n = [cache_spec_fresh s n]) /\
  (forall e i, cache_lookup (cs_cache s) n = Some e -> ce_loader e = Some i -> cs_on s = true ->
     cs_auto s = false -> cache_mem n d = false -> cache_allowed s d n = [cache_spec_kept s e]) /\
  (forall e i l, cache_lookup (cs_cache s) n = Some e -> ce_loader e = Some i -> cs_on s = true ->
     cs_auto s = true -> nth_error (cs_loaders s) i = Some l -> cl_ts l = true ->
     match cache_lookup (cl_files l) n with
     | Some (_, Some m) => (m > ce_mtime e)%Z
     | _ => True
     end -> cache_allowed s d n = [cache_spec_fresh s n]) /\
  (forall e i l src f, cache_lookup (cs_cache s) n = Some e -> ce_loader e = Some i -> cs_on s = true ->
     cs_auto s = true -> nth_error (cs_loaders s) i = Some l -> cl_ts l = true ->
     cache_lookup (cl_files l) n = Some (src, Some (ce_mtime e)) ->
     cache_first_is (cs_loaders s) n i l f -> cache_mem n d = false ->
     cache_allowed s d n = [cache_spec_kept s e]).
Proof. exact C15_spec_definite_proof. Qed.

Theorem C15_spec_step_is_model : forall s d o,
  fst (fst (cache_spec_step (s, d) o)) = fst (cache_step s o) /\
  snd (cache_spec_step (s, d) o) = snd (cache_step s o).
Proof. exact C15_spec_step_is_model_proof. Qed.

(* ---- non-vacuity: a history exercising every sentence, with the observations of the model ---- *)
Definition c15_example_history : list cache_op :=
  [ CAddLoader true; CAddLoader true;
    CLoaderPut 1 0%N 10%N (Some 100%Z);
    CSetAutoReload true;
    CLoad 0%N;                              (* first load: loader 1, source 10 *)
    CLoad 0%N;                              (* unchanged timestamp: cached, no read *)
    CLoaderPut 1 0%N 11%N (Some 101%Z);
    CLoad 0%N;                              (* newer timestamp: re-read, source 11 *)
    CLoaderPut 0 0%N 12%N (Some 5%Z);
    CLoaderDel 1 0%N;
    CLoad 0%N;                              (* timestamp gone: re-read, now loader 0 wins, source 12 *)
    CSetAutoReload false;
    CLoaderPut 0 0%N 13%N (Some 900%Z);
    CLoad 0%N;                              (* frozen: still 12 *)
    CSetDevMode true;
    CLoad 0%N;                              (* caching off: re-read, 13 *)
    CRegister 0%N 21%N;
    CLoad 0%N;                              (* the registration wins although caching is off *)
    CLoad 2%N;                              (* unknown name *)
    CLoaderPut 0 1%N 14%N None;
    CLoad 1%N ].                            (* source 14 does not parse *)

Example C15_example_trace :
  cache_trace_from cache_init c15_example_history =
  [ CONone; CONone; CONone; CONone;
    COLoad (CServed 10%N) [0; 1]%nat;
    COLoad (CServed 10%N) [0; 0]%nat;
    CONone;
    COLoad (CServed 11%N) [0; 1]%nat;
    CONone; CONone;
    COLoad (CServed 12%N) [1; 0]%nat;
    CONone; CONone;
    COLoad (CServed 12%N) [0; 0]%nat;
    CONone;
    COLoad (CServed 13%N) [1; 0]%nat;
    CORegister true;
    COLoad (CServed 21%N) [0; 0]%nat;
    COLoad CErrNotFound [0; 0]%nat;
    CONone;
    COLoad CErrOther [1; 0]%nat ].
Proof. vm_compute. reflexivity. Qed.

(* the two refutation witnesses on the repaired engine: the registration is served *)
Example C15_example_repaired_1 :
  snd (cache_step (cache_run [CSetCache false; CRegister 0%N 1%N]) (CLoad 0%N)) = COLoad (CServed 1%N) [].
Proof. vm_compute. reflexivity. Qed.
Example C15_example_repaired_2 :
  snd (cache_step (cache_run [CAddLoader true; CLoaderPut 0 0%N 2%N (Some 5%Z); CRegister 0%N 1%N; CSetDevMode true])
                  (CLoad 0%N)) = COLoad (CServed 1%N) [0%nat].
Proof. vm_compute. reflexivity. Qed.

(* the permitted set is a proper choice where the text is open, a single observation where it is not *)
Example C15_example_allowed_open :
  let s := cache_run [CAddLoader true; CLoaderPut 0 0%N 10%N (Some 100%Z); CLoad 0%N;
                      CSetAutoReload true; CLoaderPut 0 0%N 11%N (Some 50%Z)] in
  cache_allowed s [] 0%N = [COLoad (CServed 10%N) [0%nat]; COLoad (CServed 11%N) [1%nat]].
Proof. vm_compute. reflexivity. Qed.
Example C15_example_allowed_strict :
  let s := cache_run [CAddLoader true; CLoaderPut 0 0%N 10%N (Some 100%Z); CLoad 0%N;
                      CSetAutoReload true; CLoaderPut 0 0%N 11%N (Some 150%Z)] in
  cache_allowed s [] 0%N = [COLoad (CServed 11%N) [1%nat]].
Proof. vm_compute. reflexivity. Qed.

Print Assumptions C15_registration_wins.
Print Assumptions C15_registration_wins_refuted.
Print Assumptions C15_registration_shadowed_refuted.
Print Assumptions C15_inv_registered.
Print Assumptions C15_cache_off_rereads.
Print Assumptions C15_fresh_spelled_out.
Print Assumptions C15_autoreload_fresh.
Print Assumptions C15_entry_provenance.
Print Assumptions C15_entry_loader_registered.
Print Assumptions C15_frozen.
Print Assumptions C15_first_loader_wins.
Print Assumptions C15_first_having_spec.
Print Assumptions C15_not_found_is_inert.
Print Assumptions C15_model_refines_spec.
Print Assumptions C15_spec_definite.
Print Assumptions C15_spec_step_is_model.
