(* C10 -- template inheritance is block substitution along the extends chain.
   Statements only; proofs live in Proofs/InheritProofs.v. The operational side is the evaluator model Model/Eval.v
   (ev_root, ev_extends, ev_block, ev_parent_call: a mirror of RootNode.Render, collectBlocks, ExtendsNode.Render,
   BlockNode.Render in node.go and functionParent in extension.go); the declarative side is Spec/InheritSpec.v
   (inh_defs: the definitions of a block along the chain, most derived first; inh_block: an occurrence renders the
   first of them; inh_parent_call: parent() in the k-th renders the (k+1)-th; inh_root: a template that extends
   contributes its blocks and nothing else).
   The equalities hold for every template set, context, variables and fuel, outcome by outcome: errors, Unmodelled
   (a template with two blocks of one name) and OutOfFuel are not excluded but matched. A chain that reaches itself
   again (unconditional self-extension) is outside the property: it has no walk derivation (inh_walk), and both
   sides of C10_inheritance_is_substitution run out of fuel on it. *)
From Twig Require Import Base.Bytes Base.Utf8 Model.Ast Model.Value Model.ValueOps Model.EvalBuiltins Model.Ctx
                         Model.TemplateSet Model.Eval Spec.ControlSpec Spec.InheritSpec Proofs.EvalProofs Proofs.InheritProofs.

(* ---------------------------------------------------------------- the refinement *)
(* Engine.Render of the model IS the specification: walk up the chain evaluating each extends expression in this
   render's context, then the last template rendered by block substitution over the definitions of the whole chain.
   Any chain length: the proof is by induction along the walk (on the fuel that bounds it). *)
Theorem C10_inheritance_is_substitution : forall fuel env name vars,
  render_template fuel env name vars = inh_render_template fuel env name vars.
Proof. exact C10_inheritance_is_substitution_proof. Qed.

(* the same with the chain as data: whenever following the extends tags from a template finds a chain ch (of any
   length: a derivation of inh_walk) whose last template bns is reached with context bc, the output of Engine.Render
   is that template rendered by the substituting renderer over inh_defs ch; bc holds exactly the variables of the
   render and no current block; the length of the chain is the fuel the walk used *)
Theorem C10_chain_any_length : forall env fuel name vars ns ch bc bns fu tr,
  ts_lookup env name = Some ns ->
  inh_walk env fuel [] (rc_derive (rc_fresh vars name) None false (Some name)) ns ch bc bns fu tr ->
  render_template fuel env name vars =
    (let '(r, _, t) := inh_render fu env (inh_defs ch) bc bns in (r, TrLoad name :: tr ++ t)) /\
  rc_vars bc = vars /\ rc_parent bc = None /\ rc_cur_block bc = None /\ length ch = (fuel - fu)%nat.
Proof. exact C10_chain_any_length_template_proof. Qed.

(* the body renderer of the engine model is the substituting renderer in every context whose table of definitions
   is D and whose recorded position is consistent with D, on every node list whose blocks are definitions of D *)
Theorem C10_body_refines_spec : forall D, inh_closed D -> forall fuel env c ns,
  inh_inv D c -> inh_cov D (rc_tpl c) (ts_blocks ns) ->
  render fuel env c ns = inh_render fuel env D c ns.
Proof. exact inh_render_refines. Qed.

(* the root renderer is the walk, for every set of more derived levels already collected *)
Theorem C10_root_refines_walk : forall fuel env derived c ns,
  inh_chain_ok derived -> (forall b, ev_chain_defs c b = inh_defs derived b) -> rc_cur_block c = None ->
  render_root fuel env c ns = inh_root fuel env derived c ns.
Proof. exact inh_root_refines. Qed.

(* the table RootNode.Render accumulates (collectBlocks behind what more derived templates registered) is inh_defs *)
Theorem C10_table_is_definitions_along_chain : forall tpl ns ch b,
  inh_lookup (ts_collect tpl ns ch) b = inh_lookup ch b ++ inh_defs_in (inh_level_of tpl ns) b.
Proof. exact inh_lookup_ts_collect. Qed.

(* rendering any node list leaves blockChain, currentBlock, currentDefs, blockDepth and the template of the context
   as they were: the position is the same before and after every node, whatever happened inside (nested blocks,
   parent() calls, loops, includes) *)
Theorem C10_position_preserved : forall fuel env c ns, inh_frame c (inh_ctx_of (render fuel env c ns)).
Proof. exact inh_render_frame. Qed.

(* ---------------------------------------------------------------- most derived definition *)
Theorem C10_block_renders_most_derived : forall rend D c name d ds,
  D name = d :: ds ->
  inh_block rend D c name =
  (let '(r, c', t) := rend (rc_with_current c (Some name) (d :: ds) 0 (bd_tpl d)) (bd_body d) in (r, inh_restore c c', t)).
Proof. exact C10_block_renders_most_derived_proof. Qed.

Theorem C10_most_derived_first : forall (l : inh_level) (rest : inh_chain) b,
  inh_defs (l :: rest) b = inh_defs_in l b ++ inh_defs rest b.
Proof. exact C10_most_derived_first_proof. Qed.

(* blocks nobody overrides keep the default body *)
Theorem C10_unoverridden_keeps_default : forall rend derived tn ns b body c,
  ts_wf ns = true -> In (b, body) (ts_blocks ns) ->
  (forall l, In l derived -> ~ In b (map fst (snd l))) ->
  inh_defs (derived ++ [inh_level_of tn ns]) b = [MkBd tn body] /\
  inh_block rend (inh_defs (derived ++ [inh_level_of tn ns])) c b =
  (let '(r, c', t) := rend (rc_with_current c (Some b) [MkBd tn body] 0 tn) body in (r, inh_restore c c', t)).
Proof. exact C10_unoverridden_keeps_default_proof. Qed.

(* an override with an empty body produces nothing: in the specification, and through the engine model whatever body
   is written at the occurrence *)
Theorem C10_empty_override_is_empty : forall fu env D c b t ds,
  D b = MkBd t [] :: ds ->
  inh_block (inh_render (S fu) env D) D c b = (Ok [], c, []).
Proof. exact C10_empty_override_is_empty_proof. Qed.

Theorem C10_empty_override_model : forall fu env D c b body0 t ds,
  inh_closed D -> inh_inv D c -> In (MkBd (rc_tpl c) body0) (D b) -> inh_cov D (rc_tpl c) (ts_blocks body0) ->
  D b = MkBd t [] :: ds ->
  render (S (S fu)) env c [NBlock b body0] = (Ok [], c, []).
Proof. exact C10_empty_override_model_proof. Qed.

(* blocks nested in blocks, loops and conditions are definitions (collectBlocks descends) and are substituted where
   they stand: once per iteration in the iteration's context, in the branch that is taken, inside the definition
   that contains them *)
Theorem C10_nested_blocks_in_place :
  (forall name body, ts_blocks_node (NBlock name body) = (name, body) :: ts_blocks body) /\
  (forall brs els, ts_blocks_node (NIf brs els) = flat_map (fun br => ts_blocks (snd br)) brs ++ inh_opt_blocks els) /\
  (forall k v s body els, ts_blocks_node (NFor k v s body els) = ts_blocks body ++ inh_opt_blocks els) /\
  (forall n rest, ts_blocks (n :: rest) = ts_blocks_node n ++ ts_blocks rest) /\
  (forall ev rend mrend root env D c k v seq body els,
     inh_node ev rend mrend root env D c (NFor k v seq body els) = c9_for ev rend env c k v seq body els) /\
  (forall ev rend mrend root env D c bs els,
     inh_node ev rend mrend root env D c (NIf bs els) = c9_if vo_to_bool ev rend c bs els) /\
  (forall fu env D c name body rest,
     inh_render (S fu) env D c (NBlock name body :: rest) =
     ev_rseq (inh_block (inh_render fu env D) D c name) (fun c1 => inh_render fu env D c1 rest)).
Proof. exact C10_nested_blocks_in_place_proof. Qed.

(* the blocks inside a collected block are collected too *)
Theorem C10_nested_definitions_collected : forall ns b body,
  In (b, body) (ts_blocks ns) -> incl (ts_blocks body) (ts_blocks ns).
Proof. exact inh_blocks_closed. Qed.

(* text, prints, set tags, includes -- any top-level node of a child that is neither a block nor the extends tag
   and holds neither blocks nor macros -- can be removed from a template that extends without changing anything:
   it produces no output and is not executed *)
Theorem C10_child_text_outside_blocks_silent : forall fuel env derived c pre n post,
  inh_silent n = true -> inh_extends_of (pre ++ post) None <> None ->
  inh_root fuel env derived c (pre ++ n :: post) = inh_root fuel env derived c (pre ++ post).
Proof. exact C10_child_text_outside_blocks_silent_proof. Qed.

(* ---------------------------------------------------------------- parent() *)
(* at any depth k (also inside a definition that was itself reached through parent()): the (k+1)-th definition, in a
   context with the same variables, parents and macros, the same block, one level further up *)
Theorem C10_parent_is_next_definition : forall rend D c b d,
  rc_cur_block c = Some b -> nth_error (D b) (S (rc_depth c)) = Some d ->
  let c_up := rc_with_depth c (S (rc_depth c)) (bd_tpl d) in
  inh_parent_call rend D c =
    (let '(r, c', t) := rend c_up (bd_body d) in (r, rc_with_depth c' (rc_depth c) (rc_tpl c), t)) /\
  rc_vars c_up = rc_vars c /\ rc_parent c_up = rc_parent c /\ rc_macros c_up = rc_macros c /\
  rc_cur_block c_up = Some b /\ rc_depth c_up = S (rc_depth c).
Proof. exact C10_parent_is_next_definition_proof. Qed.

(* outside a block, or in the last definition of the chain: an error, no output *)
Theorem C10_parent_errors : forall rend D c,
  (rc_cur_block c = None -> inh_parent_call rend D c = (Err EOther, c, [])) /\
  (forall b, rc_cur_block c = Some b -> nth_error (D b) (S (rc_depth c)) = None ->
     inh_parent_call rend D c = (Err EOther, c, [])).
Proof. exact C10_parent_errors_proof. Qed.

(* the print tag with parent() through the engine model, end to end (expression evaluation, the function value, the
   print tag running it): exactly what the next definition renders in the same variables *)
Theorem C10_parent_tag : forall fu env D c b d,
  inh_closed D -> inh_inv D c ->
  rc_get_macro c b#"parent" = None -> assoc_bytes (e_functions env) b#"parent" = None -> rc_sandboxed c = false ->
  rc_cur_block c = Some b -> nth_error (D b) (S (rc_depth c)) = Some d ->
  render (S (S fu)) env c [NPrint (ECall b#"parent" [])] =
  c9_add_trace [TrFunction b#"parent"]
    (let '(r, c', t) := render (S fu) env (rc_with_depth c (S (rc_depth c)) (bd_tpl d)) (bd_body d) in
     (r, rc_with_depth c' (rc_depth c) (rc_tpl c), t)).
Proof. exact C10_parent_tag_proof. Qed.

(* ---------------------------------------------------------------- dynamic parent *)
(* the parent is the template named by the value of the extends expression in a context that holds the variables
   of THIS render; nothing is remembered between renders (render_template is a function of its arguments) *)
Theorem C10_dynamic_parent_per_render : forall fu env derived c ns e v t pname,
  ts_wf ns = true -> inh_extends_of ns None = Some e ->
  let c2 := rc_with_extending (inh_book c ns) true in
  eval fu env c2 e = (Ok v, t) -> vo_to_str v = Some pname -> ev_relative pname = false ->
  (rc_vars c2 = rc_vars c /\ rc_parent c2 = rc_parent c /\ rc_macros c2 = rc_macros c /\ rc_sandboxed c2 = rc_sandboxed c) /\
  inh_root (S fu) env derived c ns =
    match ts_lookup env pname with
    | None => (Err ENotFound, c2, t ++ [TrLoad pname])
    | Some pnodes =>
      let '(r, _, t2) := inh_root fu env (derived ++ [inh_level_of (rc_tpl c) ns]) (inh_parent_ctx c2 pname pnodes) pnodes in
      (r, c2, (t ++ [TrLoad pname]) ++ t2)
    end.
Proof. exact C10_dynamic_parent_per_render_proof. Qed.

(* ---------------------------------------------------------------- non-vacuity *)
Definition c10_parent : node := NPrint (ECall b#"parent" []).

(* three levels, parent() at two consecutive levels, a block only the leaf overrides, text outside blocks in a child *)
Definition c10_ex_chain3 : list (bytes * list node) :=
  [ (b#"base", [ NText b#"<"; NBlock b#"a" [ NText b#"A0" ]; NText b#"|"; NBlock b#"b" [ NText b#"B0" ]; NText b#">" ]);
    (b#"mid",  [ NExtends (ELit (LStr b#"base")); NBlock b#"a" [ NText b#"A1("; c10_parent; NText b#")" ] ]);
    (b#"main", [ NExtends (ELit (LStr b#"mid")); NBlock b#"a" [ NText b#"A2("; c10_parent; NText b#")" ];
                 NBlock b#"b" [ c10_parent; NText b#"+B2" ]; NText b#"ignored"; NSet b#"x" (ELit (LInt 1)) ]) ].
Example C10_example_chain3 :
  c10_out c10_ex_chain3 b#"main" [] = Ok b#"<A2(A1(A0))|B0+B2>" /\
  c10_spec_out c10_ex_chain3 b#"main" [] = Ok b#"<A2(A1(A0))|B0+B2>" /\
  c10_out c10_ex_chain3 b#"mid" [] = Ok b#"<A1(A0)|B0>".
Proof. vm_compute. repeat split; reflexivity. Qed.

(* an empty override; a block nested in a block overridden alone, and together with the outer one; a block in a loop
   sees the loop variable; a parent body with a nested block whose override also calls parent() *)
Definition c10_ex_nested : list (bytes * list node) :=
  [ (b#"base", [ NBlock b#"e" [ NText b#"E0" ];
                 NBlock b#"outer" [ NText b#"o("; NBlock b#"inner" [ NText b#"i0" ]; NText b#")" ];
                 NFor None b#"i" (EArr [ELit (LInt 1); ELit (LInt 2)]) [ NBlock b#"row" [ NText b#"r"; NPrint (EVar b#"i") ] ] None ]);
    (b#"main", [ NExtends (ELit (LStr b#"base")); NBlock b#"e" [];
                 NBlock b#"outer" [ NText b#"O["; c10_parent; NText b#"]" ];
                 NBlock b#"inner" [ NText b#"I:"; c10_parent ];
                 NBlock b#"row" [ NText b#"R"; NPrint (EVar b#"i"); c10_parent; NText b#";" ] ]) ].
Example C10_example_nested :
  c10_out c10_ex_nested b#"main" [] = Ok b#"O[o(I:i0)]R1r1;R2r2;" /\
  c10_spec_out c10_ex_nested b#"main" [] = Ok b#"O[o(I:i0)]R1r1;R2r2;".
Proof. vm_compute. split; reflexivity. Qed.

(* a dynamic parent: the same template set rendered with two contexts picks two parents *)
Definition c10_ex_dynamic : list (bytes * list node) :=
  [ (b#"a", [ NText b#"A<"; NBlock b#"x" [ NText b#"xa" ]; NText b#">" ]);
    (b#"b", [ NText b#"B<"; NBlock b#"x" [ NText b#"xb" ]; NText b#">" ]);
    (b#"main", [ NExtends (ECond (EVar b#"wide") (ELit (LStr b#"a")) (ELit (LStr b#"b")));
                 NBlock b#"x" [ c10_parent; NText b#"!" ] ]) ].
Example C10_example_dynamic :
  c10_out c10_ex_dynamic b#"main" [ (b#"wide", VBool true) ] = Ok b#"A<xa!>" /\
  c10_out c10_ex_dynamic b#"main" [ (b#"wide", VBool false) ] = Ok b#"B<xb!>" /\
  c10_spec_out c10_ex_dynamic b#"main" [ (b#"wide", VBool false) ] = Ok b#"B<xb!>".
Proof. vm_compute. repeat split; reflexivity. Qed.

(* excluded outcomes: parent() beyond the last definition and outside a block are errors; a missing parent template
   is not-found; a template that extends itself runs out of fuel in the model and in the specification alike *)
Example C10_example_errors :
  c10_out [ (b#"base", [ NBlock b#"a" [ NText b#"A0"; c10_parent ] ]);
            (b#"main", [ NExtends (ELit (LStr b#"base")); NBlock b#"a" [ c10_parent ] ]) ] b#"main" [] = Err EOther /\
  c10_out [ (b#"main", [ NText b#"x"; c10_parent ]) ] b#"main" [] = Err EOther /\
  c10_out [ (b#"main", [ NExtends (ELit (LStr b#"nope")) ]) ] b#"main" [] = Err ENotFound /\
  c10_out [ (b#"main", [ NExtends (ELit (LStr b#"main")) ]) ] b#"main" [] = OutOfFuel /\
  c10_spec_out [ (b#"main", [ NExtends (ELit (LStr b#"main")) ]) ] b#"main" [] = OutOfFuel.
Proof. vm_compute. repeat split; reflexivity. Qed.

Print Assumptions C10_inheritance_is_substitution.
Print Assumptions C10_chain_any_length.
Print Assumptions C10_body_refines_spec.
Print Assumptions C10_root_refines_walk.
Print Assumptions C10_table_is_definitions_along_chain.
Print Assumptions C10_position_preserved.
Print Assumptions C10_block_renders_most_derived.
Print Assumptions C10_most_derived_first.
Print Assumptions C10_unoverridden_keeps_default.
Print Assumptions C10_empty_override_is_empty.
Print Assumptions C10_empty_override_model.
Print Assumptions C10_nested_blocks_in_place.
Print Assumptions C10_nested_definitions_collected.
Print Assumptions C10_child_text_outside_blocks_silent.
Print Assumptions C10_parent_is_next_definition.
Print Assumptions C10_parent_errors.
Print Assumptions C10_parent_tag.
Print Assumptions C10_dynamic_parent_per_render.
