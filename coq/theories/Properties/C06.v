(* C06 -- a sandboxed include can never run a filter or function the policy forbids.
   Statements only; proofs live in Proofs/SandboxProofs.v (confinement, include from any context, the guarded
   renderers), SandboxProofs2.v (a refusal; outside the sandbox), SandboxSyntax.v (syntactic walks, the erased twin),
   SandboxProofs3.v (the sandboxed run against its twin), SandboxProofs4.v (the include tag; witnesses),
   SandboxSites.v (the tie to the Go code through Gen/CtxSites.v).
   The operational side is the evaluator model Model/Eval.v (render, render_root, eval, one helper per node kind);
   its trace records every invocation of a filter or function. The declarative side is Spec/SandboxSpec.v
   (tr_confined, sb_conf, sb_erase, sb_dich, sb_render).
   Every statement is for all fuel, environments (template set, callbacks, policy), contexts, node lists. Outcomes
   are not excluded anywhere: the statements hold for Ok, every error class, OutOfFuel and Unmodelled alike (the
   trace of a run that ends early is the trace up to there). *)
From Twig Require Import Base.Bytes Base.Utf8 Model.Ast Model.Value Model.ValueOps Model.EvalBuiltins Model.Ctx
                         Model.TemplateSet Model.Eval Spec.SandboxSpec Proofs.SandboxProofs Proofs.SandboxProofs2
                         Proofs.SandboxSyntax Proofs.SandboxProofs3 Proofs.SandboxProofs4 Proofs.SandboxSites Gen.CtxSites.

(* ---------------------------------------------------------------- confinement *)
(* in a sandboxed context the trace of render, of render_root and of eval holds invocations of allowed filters and
   functions only, and the context handed on to whatever is rendered next is sandboxed again *)
Theorem C06_confinement : forall fuel env pol c,
  e_policy env = Some pol -> rc_sandboxed c = true ->
  (forall ns, tr_confined pol (sb_tr (render fuel env c ns)) /\ rc_sandboxed (sb_ctx (render fuel env c ns)) = true) /\
  (forall ns, tr_confined pol (sb_tr (render_root fuel env c ns)) /\ rc_sandboxed (sb_ctx (render_root fuel env c ns)) = true) /\
  (forall e, tr_confined pol (snd (eval fuel env c e))).
Proof. exact C06_confinement_proof. Qed.

(* every context created below a sandboxed one is sandboxed: the renderers ARE the renderers that refuse to work in
   a context without the flag (Spec/SandboxSpec.v sb_render: every recursive call of render, render_root and eval
   goes through a guard that poisons outcome and trace on such a context). Covers the contexts made by include (all
   option sets), extends, import, from-import, macro calls, parent(), blocks and loop iterations, at every depth *)
Theorem C06_stays_sandboxed : forall env pol, e_policy env = Some pol -> forall fuel,
  (forall c ns, rc_sandboxed c = true -> render fuel env c ns = sb_render fuel env c ns) /\
  (forall c ns, rc_sandboxed c = true -> render_root fuel env c ns = sb_render_root fuel env c ns).
Proof. exact C06_stays_sandboxed_both. Qed.

(* the same invariant for one node of any kind, with the evaluator and the renderers it calls as ARBITRARY functions
   that keep the invariant on sandboxed contexts: nothing is assumed of them on any other context *)
Theorem C06_node_confined : forall env pol, e_policy env = Some pol ->
  forall ev rend root, sb_ev_ok pol ev -> sb_rend_ok pol rend -> sb_rend_ok pol root ->
  forall c n, rc_sandboxed c = true -> sb_conf pol (render_node ev rend root env c n).
Proof. exact render_node_confined. Qed.

(* ---------------------------------------------------------------- the include tag, reached from ANY context *)
(* the trace of include ... sandboxed is t_args ++ t_in: t_args does not depend on how templates are rendered (it is
   what the includer evaluates with ITS permissions: the template name and the with values); t_in is the trace of at
   most one rendering, in a context with the flag set, and it is confined; the includer's context is handed on *)
Theorem C06_sandboxed_include_confined : forall fuel env pol c e withs ign only,
  e_policy env = Some pol ->
  let node := NInclude e withs ign only true in
  exists t_args,
    (forall root, exists t_in,
        sb_tr (render_node (eval fuel env) (render fuel env) root env c node) = t_args ++ t_in /\
        (t_in = [] \/ exists ic ns, rc_sandboxed ic = true /\ t_in = sb_tr (root ic ns))) /\
    (exists t_in,
        sb_tr (render_node (eval fuel env) (render fuel env) (render_root fuel env) env c node) = t_args ++ t_in /\
        tr_confined pol t_in /\
        sb_ctx (render_node (eval fuel env) (render fuel env) (render_root fuel env) env c node) = c).
Proof. exact C06_sandboxed_include_confined_proof. Qed.

Theorem C06_sandboxed_include_render : forall fuel env pol c e withs ign only r c' tr,
  e_policy env = Some pol ->
  render (S fuel) env c [NInclude e withs ign only true] = (r, c', tr) ->
  c' = c /\
  exists t_args t_in, tr = t_args ++ t_in /\ tr_confined pol t_in /\
    (forall root, exists t_in', sb_tr (ev_include (eval fuel env) root env c e withs ign only true) = t_args ++ t_in').
Proof. exact C06_sandboxed_include_render_proof. Qed.

(* ---------------------------------------------------------------- a forbidden name is refused *)
(* the helpers: reaching the application of a forbidden filter / the call of a forbidden function in a sandboxed
   context IS the outcome Err ESecurity with an empty trace: not Ok, no other class, nothing invoked. A filter or
   function node with a forbidden name is refused before any of its sub-expressions is evaluated *)
Theorem C06_denied_by_helper : forall env pol c,
  e_policy env = Some pol -> rc_sandboxed c = true ->
  (forall f v args, sb_filter_ok pol f = false -> ev_apply_filter env c f v args = (Err ESecurity, [])) /\
  (forall f args, sb_function_ok pol f = false -> ev_call_function env c f args = (Err ESecurity, [])) /\
  (forall ev e, sb_names_expr pol e = false -> ev_expr ev env c e = (Err ESecurity, [])).
Proof.
  intros env pol c Hpol Hs. split; [|split].
  - intros. apply (ev_apply_filter_forbidden env pol); assumption.
  - intros. apply (ev_call_function_forbidden env pol); assumption.
  - intros. apply (ev_expr_forbidden_head ev env pol); assumption.
Qed.

(* the whole render: reaching = the twin run (the same context without the flag, i.e. with the includer's
   permissions) invokes a name the policy forbids. Then the sandboxed render ends in Err ESecurity: not Ok, no other
   class. Unguarded since aee56e1 / 36660ef: no helper of the model swallows an error any more *)
Theorem C06_forbidden_fails : forall fuel env pol c ns ev,
  e_policy env = Some pol -> rc_sandboxed c = true -> sb_event_ok pol ev = false ->
  (In ev (sb_tr (render fuel env (sb_erase c) ns)) -> sb_out (render fuel env c ns) = Err ESecurity) /\
  (In ev (sb_tr (render_root fuel env (sb_erase c) ns)) -> sb_out (render_root fuel env c ns) = Err ESecurity) /\
  (forall e, In ev (snd (eval fuel env (sb_erase c) e)) -> fst (eval fuel env c e) = Err ESecurity).
Proof. exact C06_forbidden_fails_proof. Qed.

(* the dichotomy behind it, for every environment and context: the run in a context ends in the security class, or it
   is the run in the twin context (outcome, trace, context handed on up to the flag) *)
Theorem C06_refused_or_twin : forall env fuel,
  (forall c ns, sb_dich (render fuel env c ns) (render fuel env (sb_erase c) ns)) /\
  (forall c ns, sb_dich (render_root fuel env c ns) (render_root fuel env (sb_erase c) ns)).
Proof. exact sd_render_both. Qed.

(* the two places that swallowed the violation before the repair (spaceless tag; x.a is defined): refused *)
Example C06_former_swallow_sites :
  let run ns := render_root 20 (c06_env ns) c06_sandboxed_ctx ns in
  let twin ns := render_root 20 (c06_env ns) (sb_erase c06_sandboxed_ctx) ns in
  (sb_out (run c06_w_spaceless) = Err ESecurity /\ sb_tr (run c06_w_spaceless) = [] /\
   In (TrFilter b#"spaceless") (sb_tr (twin c06_w_spaceless)) /\ sb_out (twin c06_w_spaceless) = Ok b#"<a><b>") /\
  (sb_out (run c06_w_defined) = Err ESecurity /\ sb_tr (run c06_w_defined) = [] /\
   In (TrFunction b#"spyfn") (sb_tr (twin c06_w_defined)) /\ sb_out (twin c06_w_defined) = Ok b#"Y") /\
  (sb_out (run c06_w_defined_filter) = Err ESecurity /\ sb_tr (run c06_w_defined_filter) = [] /\
   In (TrFilter b#"spy") (sb_tr (twin c06_w_defined_filter))).
Proof. exact C06_former_swallow_sites_proof. Qed.

(* ---------------------------------------------------------------- the includer keeps its permissions *)
(* in a context that is not sandboxed no policy is consulted: the helpers and the evaluator are the same function
   under any two environments that differ in the policy only *)
Theorem C06_outside_helpers : forall env1 env2 c, sb_same_but_policy env1 env2 -> rc_sandboxed c = false ->
  (forall f v args, ev_apply_filter env1 c f v args = ev_apply_filter env2 c f v args) /\
  (forall f args, ev_call_function env1 c f args = ev_call_function env2 c f args) /\
  (forall e, ev_sandbox_denies env1 c e = false) /\
  (forall fuel e, eval fuel env1 c e = eval fuel env2 c e).
Proof. exact C06_outside_helpers_proof. Qed.

(* the whole render of a non-sandboxed context: the policy can make a difference only through what happens INSIDE
   sandboxed includes. If the two policies make no difference to the templates of the set rendered in a sandboxed
   context (for instance because everything they use is allowed by both: C06_allowed_still_works), they make no
   difference at all -- wherever else forbidden names stand in the including templates *)
Theorem C06_outside_unaffected : forall env1 env2, sb_same_but_policy env1 env2 ->
  (forall fuel ic name ns, rc_sandboxed ic = true -> ts_lookup env1 name = Some ns ->
     sb_out (render_root fuel env1 ic ns) = sb_out (render_root fuel env2 ic ns) /\
     sb_tr (render_root fuel env1 ic ns) = sb_tr (render_root fuel env2 ic ns)) ->
  forall fuel c, rc_sandboxed c = false ->
    (forall ns, render fuel env1 c ns = render fuel env2 c ns) /\
    (forall ns, render_root fuel env1 c ns = render_root fuel env2 c ns) /\
    (forall e, eval fuel env1 c e = eval fuel env2 c e).
Proof. exact C06_outside_unaffected_proof. Qed.

(* ---------------------------------------------------------------- what the policy allows keeps working *)
(* a render in a sandboxed context that is not refused IS the render in the twin context without the flag: the same
   output, the same trace, the same context handed on up to the flag. In particular a template set that uses allowed
   names only (nothing is refused) renders inside the sandbox exactly as outside *)
Theorem C06_allowed_still_works : forall fuel env c ns,
  (sb_out (render fuel env c ns) <> Err ESecurity ->
     render fuel env (sb_erase c) ns = sb_erase_res (render fuel env c ns)) /\
  (sb_out (render_root fuel env c ns) <> Err ESecurity ->
     render_root fuel env (sb_erase c) ns = sb_erase_res (render_root fuel env c ns)) /\
  (forall e, fst (eval fuel env c e) <> Err ESecurity -> eval fuel env (sb_erase c) e = eval fuel env c e).
Proof. exact C06_allowed_still_works_proof. Qed.

(* at the tag: include ... only sandboxed is refused, or it is include ... only *)
Theorem C06_sandboxed_include_as_plain : forall fuel env pol c e withs ign,
  e_policy env = Some pol ->
  let ev := eval fuel env in let rend := render fuel env in let root := render_root fuel env in
  sb_out (render_node ev rend root env c (NInclude e withs ign true true)) = Err ESecurity \/
  render_node ev rend root env c (NInclude e withs ign true true) = render_node ev rend root env c (NInclude e withs ign true false).
Proof. exact C06_sandboxed_include_as_plain_proof. Qed.

(* an allowed name passes the helper as if there were no sandbox *)
Theorem C06_allowed_by_helper : forall env pol c f v args,
  e_policy env = Some pol -> sb_filter_ok pol f = true ->
  ev_apply_filter env c f v args = ev_apply_filter env (sb_erase c) f v args.
Proof. exact ev_apply_filter_allowed. Qed.

(* ---------------------------------------------------------------- the Go code: creation sites and checks *)
(* recomputed on every run from Gen/CtxSites.v, i.e. from the working tree *)
Theorem C06_sites_propagate :
  (forall s, In s cs_sites -> cs_site_ok s = true) /\
  (forall f, In f cs_model_sites -> exists s, In s cs_sites /\ cs_func s = f) /\
  cs_include_forces = true /\ cs_clone_ok = true /\ cs_new_resets_flag = true /\
  cs_applyfilter_check_first = true /\ cs_callfunction_check_first = true /\ cs_evalexpr_check = true /\
  cs_readers_ok = true.
Proof. exact C06_sites_propagate_proof. Qed.

(* ---------------------------------------------------------------- non-vacuity *)
Example C06_examples :
  sb_out (render_root 20 (c06_env1 c06_ex_chain) c06_sandboxed_ctx c06_ex_chain) = Err ESecurity /\
  sb_tr (render_root 20 (c06_env1 c06_ex_chain) c06_sandboxed_ctx c06_ex_chain) = [] /\
  In (TrFilter b#"spy") (sb_tr (render_root 20 (c06_env1 c06_ex_chain) (sb_erase c06_sandboxed_ctx) c06_ex_chain)) /\
  sb_out (render_root 20 (c06_env1 c06_ex_allowed) c06_sandboxed_ctx c06_ex_allowed) = Ok b#"V123" /\
  sb_tr (render_root 20 (c06_env1 c06_ex_allowed) c06_sandboxed_ctx c06_ex_allowed) = [TrFilter b#"upper"; TrFunction b#"range"] /\
  render_root 20 (c06_env1 c06_ex_allowed) (sb_erase c06_sandboxed_ctx) c06_ex_allowed =
    sb_erase_res (render_root 20 (c06_env1 c06_ex_allowed) c06_sandboxed_ctx c06_ex_allowed).
Proof. exact C06_examples_proof. Qed.

Print Assumptions C06_confinement.
Print Assumptions C06_stays_sandboxed.
Print Assumptions C06_node_confined.
Print Assumptions C06_sandboxed_include_confined.
Print Assumptions C06_sandboxed_include_render.
Print Assumptions C06_denied_by_helper.
Print Assumptions C06_forbidden_fails.
Print Assumptions C06_refused_or_twin.
Print Assumptions C06_outside_helpers.
Print Assumptions C06_outside_unaffected.
Print Assumptions C06_allowed_still_works.
Print Assumptions C06_sandboxed_include_as_plain.
Print Assumptions C06_allowed_by_helper.
Print Assumptions C06_sites_propagate.
