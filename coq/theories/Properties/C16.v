(* C16 - A compiled template is interchangeable with its source.
   Statements only; proofs live in Proofs/CompiledProofs.v.
   serialize_compiled / deserialize_compiled model SerializeCompiledTemplate / DeserializeCompiledTemplate
   of compiled.go over byte lists (Model/Compiled.v); the gob decoder of the old format is a parameter
   (every theorem holds for every gob decoder); wf_compiled c (Spec/CompiledSpec.v) says the three byte
   fields are shorter than 2^32 and the two timestamps are int64 values. *)
From Twig Require Import Base.Bytes Model.Compiled Spec.CompiledSpec Proofs.CompiledProofs Gen.CompiledLayout.
From Coq Require Import NArith ZArith.
Local Open Scope N_scope.

(* serialise then deserialise reproduces name, source, timestamps and AST bytes exactly, whatever the
   bytes are (empty, binary, not UTF-8) and however long below the prefix range *)
Theorem C16_roundtrip : forall (gob : bytes -> option compiled) (c : compiled),
  wf_compiled c -> deserialize_compiled gob (serialize_compiled c) = Some c.
Proof. exact C16_roundtrip_proof. Qed.

(* the reader stops after the AST: bytes appended to a serialisation are never looked at *)
Theorem C16_roundtrip_trailing : forall (gob : bytes -> option compiled) (c : compiled) (rest : bytes),
  wf_compiled c -> deserialize_compiled gob (serialize_compiled c ++ rest) = Some c.
Proof. exact C16_roundtrip_trailing_proof. Qed.

(* the guard is needed: uint32(len(s)) wraps.  Any record with a field of 2^32 bytes or more does not
   come back, from the binary reader or (unless the gob decoder itself produces it) from the whole
   function *)
Theorem C16_prefix_wrap : forall c : compiled,
  oversize c ->
  deserialize_binary (serialize_compiled c) <> Some c /\
  (forall gob, gob (serialize_compiled c) <> Some c -> deserialize_compiled gob (serialize_compiled c) <> Some c).
Proof. exact C16_prefix_wrap_proof. Qed.

(* and it fails silently: there is a record (name = 2^32 zero bytes, never materialised) whose length
   prefix is four zero bytes and whose serialisation deserialises, with no error, to the empty record *)
Theorem C16_prefix_wrap_refuted :
  exists c : compiled,
    lenN (c_name c) = two32 /\ put_u32 (lenN (c_name c)) = [x00; x00; x00; x00] /\
    forall gob, deserialize_compiled gob (serialize_compiled c) = Some empty_compiled /\ empty_compiled <> c.
Proof. exact C16_prefix_wrap_refuted_proof. Qed.

(* every strict prefix of a serialisation is rejected by the binary reader, so the verdict on it is
   exactly the verdict of the gob fallback on the same bytes *)
Theorem C16_truncation_is_error : forall (gob : bytes -> option compiled) (c : compiled) (p q : bytes),
  wf_compiled c -> serialize_compiled c = p ++ q -> q <> [] ->
  deserialize_binary p = None /\
  deserialize_compiled gob p = match p with [] => None | _ => gob p end.
Proof. exact C16_truncation_is_error_proof. Qed.

Theorem C16_truncation_is_error_if_gob_rejects : forall (gob : bytes -> option compiled) (c : compiled) (p q : bytes),
  (forall d, gob (x01 :: d) = None) ->
  wf_compiled c -> serialize_compiled c = p ++ q -> q <> [] -> deserialize_compiled gob p = None.
Proof. exact C16_truncation_is_error_if_gob_rejects_proof. Qed.

(* which prefixes are NOT errors in the code as it stands.  gob_model is the observed behaviour of
   encoding/gob on a stream that begins with the byte 1 (Model/Compiled.v, gob_verdict_of): the second
   byte, here the low byte of the name length, is taken for a type id, and ids 18 and 21 (bytes 36 and
   42) decode to the zero struct.  So: a strict prefix is an error, except that when the name is 36 or
   42 bytes long modulo 256 every prefix of two bytes or more yields the EMPTY record and no error.
   (127 modulo 256 is excluded: gob goes on reading further messages, which is not modelled.) *)
Theorem C16_truncation_gob_fallback : forall (c : compiled) (p q : bytes),
  wf_compiled c -> serialize_compiled c = p ++ q -> q <> [] ->
  lenN (c_name c) mod 256 <> 127 ->
  deserialize_compiled gob_model p =
    if (2 <=? lenN p) && ((lenN (c_name c) mod 256 =? 36) || (lenN (c_name c) mod 256 =? 42))
    then Some empty_compiled else None.
Proof. exact C16_truncation_gob_fallback_proof. Qed.

(* totality and index safety.  (1) a result for every byte list and every gob decoder; (2) the one
   accessor through which every byte is read returns an error exactly when fewer than n bytes are left
   and otherwise splits the input at n: nothing is ever read past the end, so the Go code, which reads
   through bytes.Reader / binary.Read / io.ReadFull only, has no input on which it indexes out of
   range; (3) whatever the binary reader accepts is a serialisation of the result plus ignored bytes *)
Theorem C16_deserialize_total :
  (forall (gob : bytes -> option compiled) (data : bytes),
     deserialize_compiled gob data = None \/ exists c, deserialize_compiled gob data = Some c) /\
  (forall (l : bytes) (n : N),
     (lenN l < n -> read_exact l n = None) /\
     (n <= lenN l -> exists a r, read_exact l n = Some (a, r) /\ l = a ++ r /\ lenN a = n)) /\
  (forall (data : bytes) (c : compiled),
     deserialize_binary data = Some c -> wf_compiled c /\ exists rest, data = serialize_compiled c ++ rest).
Proof. exact C16_deserialize_total_proof. Qed.

(* where the code does not check: make([]byte, n) is called with the n read from the stream before
   the remaining input is compared with it.  Every request is below 2^32, and nothing smaller bounds
   it: a 5-byte input makes the reader request 4294967295 bytes before it fails *)
Theorem C16_alloc_bound : forall (data : bytes) (n : N),
  In n (deserialize_allocs data) -> n < two32.
Proof. exact C16_alloc_bound_proof. Qed.

Theorem C16_alloc_not_bounded_by_input :
  exists data : bytes, lenN data = 5 /\ deserialize_binary data = None /\ deserialize_allocs data = [4294967295].
Proof. exact C16_alloc_not_bounded_by_input_proof. Qed.

(* interchangeable with the source: LoadFromCompiled on the round-tripped record yields the tree the
   parser yields for the source, provided the stored AST, if it decodes at all, decodes to that tree.
   The hypothesis is what the render comparison of the correspondence check validates. *)
Theorem C16_compiled_equals_source :
  forall (tree : Type) (parse_source ast_decode : bytes -> option tree) (gob : bytes -> option compiled) (c c' : compiled),
    wf_compiled c ->
    (forall t, ast_decode (c_ast c) = Some t -> parse_source (c_source c) = Some t) ->
    deserialize_compiled gob (serialize_compiled c) = Some c' ->
    load_from_compiled tree parse_source ast_decode c' = parse_source (c_source c).
Proof. exact C16_compiled_equals_source_proof. Qed.

(* a file written by the compiled loader is read back by it as the same source *)
Theorem C16_loader_roundtrip :
  forall (gob : bytes -> option compiled) (dir : list (bytes * bytes)) (name : bytes) (c : compiled),
    wf_compiled c -> loader_load gob (loader_save dir name c) name = Some (c_source c).
Proof. exact C16_loader_roundtrip_proof. Qed.

(* the code still has the shape the model was written against (regenerated from compiled.go and
   compiled_loader.go on every run): field list, order and byte order of every write and read, the
   version test, the fallback order, the file extension and the path expressions *)
Theorem C16_layout :
  gen_compiled_shape_ok = true /\
  gen_compiled_fields = model_compiled_fields /\
  gen_serialize_ops = model_serialize_ops /\
  gen_write_string_ops = model_write_string_ops /\
  gen_read_string_ops = model_read_string_ops /\
  gen_deserialize_binary_ops = model_deserialize_binary_ops /\
  gen_deserialize_ops = model_deserialize_ops /\
  gen_compiled_ext = compiled_ext /\
  gen_compiled_paths = model_compiled_paths.
Proof. exact C16_layout_proof. Qed.

(* lenN is the ordinary length *)
Theorem C16_lenN_is_length : forall s : bytes, lenN s = N.of_nat (length s).
Proof. exact lenN_length. Qed.

(* non-vacuity: empty name, a source that is not UTF-8 and contains a NUL, a negative and a large
   timestamp, opaque AST bytes *)
Example C16_example_bytes :
  serialize_compiled (mkCompiled [] [xff; xfe; x00; x7b; x7b; xc3] (-2)%Z 1790695804%Z [x13; x7f]) =
  [x01; x00; x00; x00; x00;
   x06; x00; x00; x00; xff; xfe; x00; x7b; x7b; xc3;
   xfe; xff; xff; xff; xff; xff; xff; xff;
   x7c; xd9; xbb; x6a; x00; x00; x00; x00;
   x02; x00; x00; x00; x13; x7f].
Proof. vm_compute. reflexivity. Qed.

Example C16_example_roundtrip :
  let c := mkCompiled [] [xff; xfe; x00; x7b; x7b; xc3] (-9223372036854775808)%Z 9223372036854775807%Z [x13; x7f] in
  deserialize_compiled gob_model (serialize_compiled c) = Some c.
Proof. vm_compute. reflexivity. Qed.

(* a 36-byte name: the two-byte prefix 01 24 of its serialisation is accepted as the empty record *)
Example C16_example_truncated_accepted :
  let c := mkCompiled (repeat x61 36) [x68; x69] 5%Z 6%Z [] in
  firstn 2 (serialize_compiled c) = [x01; x24] /\
  deserialize_compiled gob_model (firstn 2 (serialize_compiled c)) = Some empty_compiled /\
  deserialize_compiled gob_model (firstn 20 (serialize_compiled c)) = Some empty_compiled /\
  deserialize_compiled gob_model (firstn 1 (serialize_compiled c)) = None.
Proof. vm_compute. repeat split; reflexivity. Qed.

(* a 35-byte name: every strict prefix is an error *)
Example C16_example_truncated_rejected :
  let c := mkCompiled (repeat x61 35) [x68; x69] 5%Z 6%Z [] in
  forallb (fun k => match deserialize_compiled gob_model (firstn k (serialize_compiled c)) with None => true | Some _ => false end)
          (seq 0 (length (serialize_compiled c))) = true /\
  deserialize_compiled gob_model (serialize_compiled c) = Some c.
Proof. vm_compute. split; reflexivity. Qed.

Print Assumptions C16_roundtrip.
Print Assumptions C16_roundtrip_trailing.
Print Assumptions C16_prefix_wrap.
Print Assumptions C16_prefix_wrap_refuted.
Print Assumptions C16_truncation_is_error.
Print Assumptions C16_truncation_is_error_if_gob_rejects.
Print Assumptions C16_truncation_gob_fallback.
Print Assumptions C16_deserialize_total.
Print Assumptions C16_alloc_bound.
Print Assumptions C16_alloc_not_bounded_by_input.
Print Assumptions C16_compiled_equals_source.
Print Assumptions C16_loader_roundtrip.
Print Assumptions C16_layout.
Print Assumptions C16_lenN_is_length.
