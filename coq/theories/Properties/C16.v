(* C16 - A compiled template is interchangeable with its source.
   Statements only; proofs live in Proofs/CompiledProofs.v.
   serialize_compiled / deserialize_compiled model SerializeCompiledTemplate / DeserializeCompiledTemplate
   of compiled.go (after repair c024bc1) over byte lists (Model/Compiled.v); the gob decoder of the old format is a parameter
   (every theorem holds for every gob decoder); wf_compiled c (Spec/CompiledSpec.v) says the three byte
   fields are shorter than 2^32 and the two timestamps are int64 values. *)
From Twig Require Import Base.Bytes Model.Compiled Spec.CompiledSpec Proofs.CompiledProofs Gen.CompiledLayout.
From Coq Require Import NArith ZArith.
Local Open Scope N_scope.

(* serialise then deserialise reproduces name, source, timestamps and AST bytes exactly, whatever the
   bytes are (empty, binary, not UTF-8) and however long below the prefix range *)
Theorem C16_roundtrip : forall (gob : bytes -> option compiled) (c : compiled),
  wf_compiled c -> deserialize_compiled gob (serialize_compiled c) = Some c.
Proof. exact C16_roundtrip_proof. Qed.

(* the reader stops after the AST: bytes appended to a serialisation are never looked at *)
Theorem C16_roundtrip_trailing : forall (gob : bytes -> option compiled) (c : compiled) (rest : bytes),
  wf_compiled c -> deserialize_compiled gob (serialize_compiled c ++ rest) = Some c.
Proof. exact C16_roundtrip_trailing_proof. Qed.

(* the writer with its guards: whatever SerializeCompiledTemplate emits deserialises to the record it
   was given; the int64 hypotheses hold of every Go int64 *)
Theorem C16_roundtrip_checked : forall (gob : bytes -> option compiled) (c : compiled) (data : bytes),
  i64_range (c_last_modified c) -> i64_range (c_compile_time c) ->
  serialize_compiled_checked c = Some data -> deserialize_compiled gob data = Some c.
Proof. exact C16_roundtrip_checked_proof. Qed.

(* the length prefixes are uint32: a record with a field of 2^32 bytes or more is refused by the
   writer (an error, not a wrapped prefix), and only such a record is *)
Theorem C16_oversize_refused : forall c : compiled,
  oversize c <-> serialize_compiled_checked c = None.
Proof. exact C16_oversize_refused_proof. Qed.

(* every strict prefix of a serialisation is an error, for every gob decoder *)
Theorem C16_truncation_is_error : forall (gob : bytes -> option compiled) (c : compiled) (p q : bytes),
  wf_compiled c -> serialize_compiled c = p ++ q -> q <> [] ->
  deserialize_binary p = None /\ deserialize_compiled gob p = None.
Proof. exact C16_truncation_is_error_proof. Qed.

(* because data that begins with the version byte is decided by the binary reader alone and never
   reaches the gob fallback *)
Theorem C16_version_byte_never_reaches_gob : forall (gob : bytes -> option compiled) (d : bytes),
  deserialize_compiled gob (x01 :: d) = deserialize_binary (x01 :: d).
Proof. exact C16_version_byte_never_reaches_gob_proof. Qed.

(* totality and index safety.  (1) a result for every byte list and every gob decoder; (2) the one
   accessor through which every byte is read returns an error exactly when fewer than n bytes are left
   and otherwise splits the input at n: nothing is ever read past the end, so the Go code, which reads
   through bytes.Reader / binary.Read / io.ReadFull only, has no input on which it indexes out of
   range; (3) whatever the binary reader accepts is a serialisation of the result plus ignored bytes *)
Theorem C16_deserialize_total :
  (forall (gob : bytes -> option compiled) (data : bytes),
     deserialize_compiled gob data = None \/ exists c, deserialize_compiled gob data = Some c) /\
  (forall (l : bytes) (n : N),
     (lenN l < n -> read_exact l n = None) /\
     (n <= lenN l -> exists a r, read_exact l n = Some (a, r) /\ l = a ++ r /\ lenN a = n)) /\
  (forall (data : bytes) (c : compiled),
     deserialize_binary data = Some c -> wf_compiled c /\ exists rest, data = serialize_compiled c ++ rest).
Proof. exact C16_deserialize_total_proof. Qed.

(* memory: every make([]byte, n) of the reader comes after the test n <= r.Len(); all requests of one
   call together never exceed the length of the input, and so does each of them *)
Theorem C16_alloc_bounded_by_input : forall data : bytes,
  sumN (deserialize_allocs data) <= lenN data /\
  (forall n, In n (deserialize_allocs data) -> n <= lenN data).
Proof. exact C16_alloc_bounded_by_input_proof. Qed.

(* interchangeable with the source: LoadFromCompiled on the round-tripped record yields the tree the
   parser yields for the source, provided the stored AST, if it decodes at all, decodes to that tree.
   The hypothesis is what the render comparison of the correspondence check validates. *)
Theorem C16_compiled_equals_source :
  forall (tree : Type) (parse_source ast_decode : bytes -> option tree) (gob : bytes -> option compiled) (c c' : compiled),
    wf_compiled c ->
    (forall t, ast_decode (c_ast c) = Some t -> parse_source (c_source c) = Some t) ->
    deserialize_compiled gob (serialize_compiled c) = Some c' ->
    load_from_compiled tree parse_source ast_decode c' = parse_source (c_source c).
Proof. exact C16_compiled_equals_source_proof. Qed.

(* a file written by the compiled loader is read back by it as the same source *)
Theorem C16_loader_roundtrip :
  forall (gob : bytes -> option compiled) (dir : list (bytes * bytes)) (name : bytes) (c : compiled),
    wf_compiled c -> loader_load gob (loader_save dir name c) name = Some (c_source c).
Proof. exact C16_loader_roundtrip_proof. Qed.

(* the code still has the shape the model was written against (regenerated from compiled.go and
   compiled_loader.go on every run): field list, order and byte order of every write and read, the
   version test, the fallback order, the file extension and the path expressions *)
Theorem C16_layout :
  gen_compiled_shape_ok = true /\
  gen_compiled_fields = model_compiled_fields /\
  gen_serialize_ops = model_serialize_ops /\
  gen_write_string_ops = model_write_string_ops /\
  gen_read_string_ops = model_read_string_ops /\
  gen_deserialize_binary_ops = model_deserialize_binary_ops /\
  gen_deserialize_ops = model_deserialize_ops /\
  gen_compiled_ext = compiled_ext /\
  gen_compiled_paths = model_compiled_paths.
Proof. exact C16_layout_proof. Qed.

(* lenN is the ordinary length *)
Theorem C16_lenN_is_length : forall s : bytes, lenN s = N.of_nat (length s).
Proof. exact lenN_length. Qed.

(* non-vacuity: empty name, a source that is not UTF-8 and contains a NUL, a negative and a large
   timestamp, opaque AST bytes *)
Example C16_example_bytes :
  serialize_compiled (mkCompiled [] [xff; xfe; x00; x7b; x7b; xc3] (-2)%Z 1790695804%Z [x13; x7f]) =
  [x01; x00; x00; x00; x00;
   x06; x00; x00; x00; xff; xfe; x00; x7b; x7b; xc3;
   xfe; xff; xff; xff; xff; xff; xff; xff;
   x7c; xd9; xbb; x6a; x00; x00; x00; x00;
   x02; x00; x00; x00; x13; x7f].
Proof. vm_compute. reflexivity. Qed.

Example C16_example_roundtrip :
  let c := mkCompiled [] [xff; xfe; x00; x7b; x7b; xc3] (-9223372036854775808)%Z 9223372036854775807%Z [x13; x7f] in
  deserialize_compiled gob_model (serialize_compiled c) = Some c.
Proof. vm_compute. reflexivity. Qed.

(* a 36-byte name (whose two-byte prefix 01 24 the unrepaired code accepted as the empty record) and a
   35-byte name: every strict prefix is an error, the whole stream comes back *)
Example C16_example_truncated_rejected :
  let c := mkCompiled (repeat x61 36) [x68; x69] 5%Z 6%Z [] in
  let d := mkCompiled (repeat x61 35) [x68; x69] 5%Z 6%Z [] in
  firstn 2 (serialize_compiled c) = [x01; x24] /\
  forallb (fun k => match deserialize_compiled gob_model (firstn k (serialize_compiled c)) with None => true | Some _ => false end)
          (seq 0 (length (serialize_compiled c))) = true /\
  forallb (fun k => match deserialize_compiled gob_model (firstn k (serialize_compiled d)) with None => true | Some _ => false end)
          (seq 0 (length (serialize_compiled d))) = true /\
  deserialize_compiled gob_model (serialize_compiled c) = Some c.
Proof. vm_compute. repeat split; reflexivity. Qed.

(* the five bytes that made the unrepaired reader ask for 4294967295 bytes: an error, nothing requested *)
Example C16_example_alloc :
  deserialize_binary [x01; xff; xff; xff; xff] = None /\ deserialize_allocs [x01; xff; xff; xff; xff] = [].
Proof. exact C16_alloc_regression_example_proof. Qed.

Print Assumptions C16_roundtrip.
Print Assumptions C16_roundtrip_trailing.
Print Assumptions C16_roundtrip_checked.
Print Assumptions C16_oversize_refused.
Print Assumptions C16_truncation_is_error.
Print Assumptions C16_version_byte_never_reaches_gob.
Print Assumptions C16_deserialize_total.
Print Assumptions C16_alloc_bounded_by_input.
Print Assumptions C16_compiled_equals_source.
Print Assumptions C16_loader_roundtrip.
Print Assumptions C16_layout.
Print Assumptions C16_lenN_is_length.
