(* C02 -- concurrent use of one engine is safe and equals serial use. PARTIAL: see below.
   Statements only; proofs live in Proofs/SchedProofs.v.

   The model (Model/Sched.v) is an interleaving machine: sc_init fuel w threads is the configured engine w
   (loaders, registrations, cache mode) with one program per goroutine (its calls one after another);
   sc_run w sched st lets the threads take atomic steps in the order the list sched names them; a step is one
   critical section or one unlocked access of Engine.Load, RegisterString, the loaders, Intern and the
   attribute cache, annotated with the locations it touches and the locks it holds. Everything else a call
   does (parsing, the render context with its chain of current templates, the output buffer) is private to
   the call by construction of the model.

   What the theorems cannot exhibit, because it lives in the Go runtime and not in any interleaving of
   atomic steps: data races in the sense of the Go memory model inside a step or on memory the model takes to
   be private (the pooled tokenizer and its token buffer, pooled render contexts, nodes), fatal runtime errors
   such as concurrent map writes, the internals of sync.Pool. Those are observed on every run by executing
   generated workloads on the real engine under the race detector (harness/c02.go); the two are tied by
   Gen/LockMap.v, which is regenerated from the code on every run and from which the model takes the lock
   held at every step, the source of relative names and the order of tokenizer events in Parser.Parse. *)
From Twig Require Import Base.Bytes Gen.LockMap Model.Sched Spec.SchedSpec Proofs.SchedProofs Proofs.SchedPhaseExample.

(* Every call returns exactly what it would return if the calls ran one after another: for every workload
   in which every name has one source (sc_consistent_sources), every schedule on which all calls return
   gives every call the result it gets when the threads run alone one after the other, in any order. All
   cache modes (w_cache, w_auto), names not cached yet, file-system, array and chained loaders, templates
   with includes, inheritance, imports and relative names are covered by the quantifiers over w and threads. *)
Theorem C02_any_schedule_equals_serial :
  forall fuel w threads sched order k,
    sc_consistent_sources w threads ->
    sc_complete (sc_run w sched (sc_init fuel w threads)) = true ->
    sc_complete (sc_run w (sc_serial_schedule order k) (sc_init fuel w threads)) = true ->
    sc_results (sc_run w sched (sc_init fuel w threads))
    = sc_results (sc_run w (sc_serial_schedule order k) (sc_init fuel w threads)).
Proof. exact C02_any_schedule_equals_serial_proof. Qed.

(* The same for schedules that stop anywhere: a call that has returned has returned its serial result. *)
Theorem C02_finished_calls_equal_serial :
  forall fuel w threads sched order k i r,
    sc_consistent_sources w threads ->
    sc_complete (sc_run w (sc_serial_schedule order k) (sc_init fuel w threads)) = true ->
    nth_error (sc_results (sc_run w sched (sc_init fuel w threads))) i = Some (Some r) ->
    nth_error (sc_results (sc_run w (sc_serial_schedule order k) (sc_init fuel w threads))) i = Some (Some r).
Proof. exact C02_finished_calls_equal_serial_proof. Qed.

(* Not vacuous: every workload has a complete serial schedule. *)
Theorem C02_serial_schedule_exists :
  forall fuel w threads, exists k,
    sc_complete (sc_run w (sc_serial_schedule (seq 0 (length threads)) k) (sc_init fuel w threads)) = true.
Proof. exact C02_serial_schedule_exists_proof. Qed.

(* The model's data-race freedom: in every reachable state, any two enabled steps of different threads that
   touch a common location, one of them writing it, hold a common lock, one of them exclusively. The locks are
   those of Gen/LockMap.v. *)
Theorem C02_lockset :
  forall fuel w threads sched i j a b,
    i <> j ->
    sc_enabled (sc_run w sched (sc_init fuel w threads)) i = Some a ->
    sc_enabled (sc_run w sched (sc_init fuel w threads)) j = Some b ->
    sc_conflict a b = true -> sc_common_lock a b = true.
Proof. exact C02_lockset_proof. Qed.

(* The side condition on the code as a whole: every field of Engine, the loaders, Environment and the global
   caches that a function outside the configuration interface writes is accessed inside a lock region of its
   owner's mutex in every such function, and written only inside an exclusive region. *)
Theorem C02_lock_table_disciplined : sc_table_ok lock_sites = true /\ lockmap_shape_ok = true.
Proof. exact C02_lock_table_disciplined_proof. Qed.

(* A template name written relative to a template resolves against that template whatever other goroutines
   are rendering: the name it is resolved against is computed from the chain of templates the call itself
   carries, and no step of any call reads or writes an engine-wide current-template cell. *)
Theorem C02_relative_names_private :
  (forall (R : Type) chain (k : bytes -> sc_prog R), sc_with_current sc_cur_variant chain k = k (sc_current_name chain))
  /\ (forall fuel w c, sc_prog_all sc_op_no_cell (sc_call_prog fuel sc_cur_variant w c)).
Proof. exact C02_relative_names_private_proof. Qed.

(* The condition under which the parser is private state: Parser.Parse does not touch the pooled tokenizer's
   buffer after giving it back. *)
Theorem C02_tokenizer_owned : sc_tok_owned parse_events = true.
Proof. exact C02_tokenizer_owned_proof. Qed.

(* The pinned tree (relative names resolved against Engine.currentTemplate, written by Render and RenderTo
   without a lock): two renders of templates in different directories with an include of ./part. On the
   schedule write-a, write-c, a runs on, a/main includes c/part and c/main fails with not-found, where the
   serial results are A and C; and the two writes are a data race of the model. *)
Theorem C02_refuted_pinned :
  sc_consistent_sources sc_w_pinned sc_thr_pinned /\
  sc_complete (sc_run sc_w_pinned sc_sched_pinned (sc_init_with 5 ScVCell sc_w_pinned sc_thr_pinned)) = true /\
  sc_results (sc_run sc_w_pinned (sc_serial_schedule [0; 1] 40) (sc_init_with 5 ScVCell sc_w_pinned sc_thr_pinned))
    = [Some [ScOOk b#"A"]; Some [ScOOk b#"C"]] /\
  sc_results (sc_run sc_w_pinned sc_sched_pinned (sc_init_with 5 ScVCell sc_w_pinned sc_thr_pinned))
    = [Some [ScOOk b#"C"]; Some [ScOErr ScENotFound]] /\
  sc_enabled (sc_run sc_w_pinned [0; 1] (sc_init_with 5 ScVCell sc_w_pinned sc_thr_pinned)) 0 = Some (ScOpCellWrite b#"a/main") /\
  sc_enabled (sc_run sc_w_pinned [0; 1] (sc_init_with 5 ScVCell sc_w_pinned sc_thr_pinned)) 1 = Some (ScOpCellWrite b#"c/main") /\
  sc_conflict (ScOpCellWrite b#"a/main") (ScOpCellWrite b#"c/main") = true /\
  sc_common_lock (ScOpCellWrite b#"a/main") (ScOpCellWrite b#"c/main") = false.
Proof. exact C02_refuted_pinned_proof. Qed.

(* the same workload and schedule on the model of the tree as it is now *)
Example C02_pinned_workload_now :
  sc_results (sc_run sc_w_pinned sc_sched_pinned (sc_init 5 sc_w_pinned sc_thr_pinned))
    = [Some [ScOOk b#"A"]; Some [ScOOk b#"C"]].
Proof. exact sc_pinned_workload_now. Qed.

(* Phases. A workload may consist of phases separated by moments in which no call is running and template files
   are rewritten (with a later modification time). Within a phase sources do not change. Each phase runs on the
   engine as the phases before left it; sc_phase_start_ok w sh says that this state is a good start for the
   world as it is now: every cached entry is current, or is left over from before its file changed and is read
   again by every Load that meets it (caching off, or auto-reload on with a timestamp-aware loader reporting a
   later time). Then every complete schedule of the phase gives the serial results of the phase: every call that
   starts after the rewrite returns the new content. The fresh engine is a good start, and every phase ends in a
   good start for its own world. Configurations in which a left-over entry keeps being served (caching on without
   auto-reload, loaders without time stamps such as a ChainLoader) are outside this theorem; they are executed
   and compared with the serial run by the runner. *)
Theorem C02_phase_equals_serial :
  forall fuel w sh threads sched order k,
    sc_phase_start_ok w sh -> Forall (Forall (sc_call_consistent w)) threads ->
    sc_complete (sc_run w sched (sc_phase_state fuel w sh threads)) = true ->
    sc_complete (sc_run w (sc_serial_schedule order k) (sc_phase_state fuel w sh threads)) = true ->
    sc_results (sc_run w sched (sc_phase_state fuel w sh threads))
    = sc_results (sc_run w (sc_serial_schedule order k) (sc_phase_state fuel w sh threads)).
Proof. exact C02_phase_equals_serial_proof. Qed.

Theorem C02_first_phase_start_ok : forall w, sc_world_ok w -> sc_phase_start_ok w (sc_init_shared w).
Proof. exact C02_first_phase_start_ok_proof. Qed.

Theorem C02_phase_end_ok :
  forall fuel w sh threads sched,
    sc_phase_start_ok w sh -> Forall (Forall (sc_call_consistent w)) threads ->
    sc_phase_start_ok w (st_sh (sc_run w sched (sc_phase_state fuel w sh threads))).
Proof. exact C02_phase_end_ok_proof. Qed.

(* a/t.twig cached in a first phase, its file rewritten with a later time stamp, auto-reload on: both goroutines of
   the second phase get the new text on an interleaved schedule *)
Example C02_phase_example :
  sc_results (sc_run (sc_w_ph b#"new" 20) ([0; 1; 0; 1; 1; 0] ++ repeat 0 40 ++ repeat 1 40)
                (sc_phase_state 5 (sc_w_ph b#"new" 20) sc_sh_ph [[ScCRender false b#"a/t.twig" []]; [ScCRender true b#"a/t.twig" []]]))
  = [Some [ScOOk b#"new"]; Some [ScOOk b#"new"]].
Proof. exact sc_phase_example. Qed.

(* and the hypothesis of C02_phase_equals_serial holds there, through the left-over entry *)
Example C02_phase_example_start_ok : sc_phase_start_ok (sc_w_ph b#"new" 20) sc_sh_ph.
Proof. exact sc_phase_example_start_ok. Qed.

Print Assumptions C02_any_schedule_equals_serial.
Print Assumptions C02_finished_calls_equal_serial.
Print Assumptions C02_serial_schedule_exists.
Print Assumptions C02_lockset.
Print Assumptions C02_lock_table_disciplined.
Print Assumptions C02_relative_names_private.
Print Assumptions C02_tokenizer_owned.
Print Assumptions C02_refuted_pinned.
Print Assumptions C02_phase_equals_serial.
Print Assumptions C02_first_phase_start_ok.
Print Assumptions C02_phase_end_ok.
