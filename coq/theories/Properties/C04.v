(* C04 -- literal text is emitted exactly; comments and verbatim bodies are inert.
   Scanner level: where every byte of the source goes. Bytes are arbitrary (list byte): multi-byte,
   invalid UTF-8, NUL, lone braces are covered by the quantifier. *)
From Twig Require Import Base.Bytes Model.Lexer Spec.Segments Proofs.LexerProofs.

(* every source that scans at all is partitioned by its tokens: each byte lies in exactly one
   token, in source order (unlex re-serialises text as itself and a tag as opener, content, closer) *)
Theorem C04_partition : forall (s : bytes) (ts : list otok), lex_small s = LexOk ts -> unlex ts = s.
Proof. exact lex_partition. Qed.

(* a template written as text segments and tags is read back as exactly those segments: every text
   segment comes out as one text token with identical bytes, for every byte string that contains no
   tag opener and does not end in a backslash *)
Theorem C04_text_exact : forall segs : list seg, wf_segs segs ->
  lex_small (unparse segs) = LexOk (map seg_tok segs) /\ lex_large (unparse segs) = LexOk (map seg_tok segs).
Proof. exact lex_segments. Qed.

(* text and comments only: the output is the concatenation of the text segments; comment bodies
   contribute nothing whatever they contain *)
Theorem C04_comments_inert : forall segs : list seg, wf_segs segs ->
  (forall s, In s segs -> match s with STag OComment _ _ => True | SText _ => True | _ => False end) ->
  exists ts, lex_small (unparse segs) = LexOk ts /\
             flat_map text_out1 (ws_control false ts) = flat_map seg_out segs.
Proof. exact C04_comments_inert_proof. Qed.

(* the pinned behaviour that stays a known finding: a backslash directly before an opener is dropped
   and the opener becomes text *)
Theorem C04_backslash_refuted :
  exists s ts, lex_small s = LexOk ts /\ flat_map text_out1 ts <> s /\
               (forall t, In t ts -> match t with OTag _ _ _ => False | _ => True end).
Proof. exact C04_backslash_refuted_proof. Qed.

(* the scanner never runs out of fuel: length + 1 steps always suffice (termination) *)
Theorem C04_scanner_total : forall s : bytes, lex_small s <> LexFuel /\ lex_large s <> LexFuel.
Proof. exact lex_total. Qed.

Example C04_example_wf :
  wf_segs [SText [xc3; xa9; x00; x7b; x20]; STag OComment b#" {{ x }} " false; SText [xff; x7d; x7d]].
Proof.
  cbn [wf_segs]. repeat split; try discriminate; try reflexivity.
  - intros i Hi. do 5 (destruct i as [|i]; [reflexivity|]). simpl in Hi. lia.
  - intros i Hi. do 3 (destruct i as [|i]; [reflexivity|]). simpl in Hi. lia.
Qed.

Print Assumptions C04_partition.
Print Assumptions C04_text_exact.
Print Assumptions C04_comments_inert.
Print Assumptions C04_backslash_refuted.
Print Assumptions C04_scanner_total.
