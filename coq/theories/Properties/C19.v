(* C19 — Built-in filters satisfy their defining equations for every input.
   Statements only; proofs are in Proofs/FilterProofs.v (and Proofs/Utf8FProofs.v for the code point
   decoding). Model/Filters.v mirrors extension.go (with the repairs of notes/proposed-fixes/C19-*.patch);
   Spec/FilterSpec.v says what the property demands. The _refuted theorems are about the unrepaired
   code (the _pinned definitions of the model). *)
From Twig Require Import Base.Bytes Base.Utf8F Model.Value Model.Filters Spec.FilterSpec Proofs.Utf8FProofs Proofs.FilterProofs
  Gen.Registry Proofs.FilterGenProofs.
From Twig Require Import Base.Kernel Gen.KernelsSlice Proofs.KernelSliceModel Proofs.KernelSliceSafe Proofs.KernelSliceMachine.
From Coq Require Import NArith ZArith Sorting.Permutation Sorting.Sorted.
Local Open Scope Z_scope.

(* ---------------------------------------------------------------- upper, lower, trim, capitalize are idempotent *)
(* up / low stand for unicode.ToUpper / unicode.ToLower on one code point; the hypotheses are checked
   for every code point against Go's unicode package by the correspondence runner on every run *)
Theorem C19_upper_idempotent : forall up : N -> N,
  (forall c, up (up c) = up c) -> (forall c, uf8_scalar c = true -> uf8_scalar (up c) = true) ->
  forall v w : value, flt_upper up v = FltOk w -> flt_upper up w = FltOk w.
Proof. exact C19_upper_filter_idempotent_proof. Qed.

Theorem C19_lower_idempotent : forall low : N -> N,
  (forall c, low (low c) = low c) -> (forall c, uf8_scalar c = true -> uf8_scalar (low c) = true) ->
  forall v w : value, flt_lower low v = FltOk w -> flt_lower low w = FltOk w.
Proof. exact C19_lower_filter_idempotent_proof. Qed.

(* for every set of characters to trim (white space when there is no argument), every byte string *)
Theorem C19_trim_idempotent : forall (v : value) (args : list value) (w : value),
  flt_trim v args = FltOk w -> flt_trim w args = FltOk w.
Proof. exact C19_trim_filter_idempotent_proof. Qed.

Theorem C19_capitalize_idempotent : forall up low : N -> N,
  (forall c, up (up c) = up c) -> (forall c, low (low c) = low c) ->
  (forall c, uf8_scalar c = true -> uf8_scalar (up c) = true) ->
  (forall c, uf8_scalar c = true -> uf8_scalar (low c) = true) ->
  (forall c, flt_is_space (up c) = flt_is_space c) -> (forall c, flt_is_space (low c) = flt_is_space c) ->
  forall v w : value, flt_capitalize up low v = FltOk w -> flt_capitalize up low w = FltOk w.
Proof. exact C19_capitalize_filter_idempotent_proof. Qed.

(* ---------------------------------------------------------------- reverse is a length-preserving involution *)
(* lists of every representation: the same items backwards, and twice gives the list back (an array
   becomes a slice the first time, after which the representation stays) *)
Theorem C19_reverse_list : forall (t : ltag) (xs : list value),
  exists t', flt_reverse (VList t xs) = FltOk (VList t' (rev xs)) /\
             length (rev xs) = length xs /\
             flt_reverse (VList t' (rev xs)) = FltOk (VList t' xs).
Proof. exact C19_reverse_list_proof. Qed.

(* strings: by code point. The number of code points is preserved for every byte string; twice gives
   back the string with each invalid byte replaced by U+FFFD, which is the string itself when it is
   valid UTF-8 *)
Theorem C19_reverse_string : forall s : bytes,
  length (uf8_cps (flt_reverse_bytes s)) = length (uf8_cps s) /\
  uf8_cps (flt_reverse_bytes s) = rev (uf8_cps s) /\
  flt_reverse_bytes (flt_reverse_bytes s) = uf8_sanitize s /\
  (uf8_validb s = true -> flt_reverse_bytes (flt_reverse_bytes s) = s).
Proof. exact C19_reverse_string_proof. Qed.

(* ---------------------------------------------------------------- sort returns an ordered permutation *)
(* ordered by the comparison of the representation: text for a []string, value for a []int, and for
   []interface{} and arrays value when every item is a number, text otherwise; items that compare
   equal may come in any order (Go's sort.Slice is not stable) *)
Theorem C19_sort_ordered_permutation : forall (t : ltag) (xs : list value) (r : flt_res),
  flt_sort (VList t xs) = r ->
  r = FltUnmod \/
  exists ys, r = FltOk (VList LAny ys) /\ fsp_sorted_perm (flt_sort_order t xs) xs ys.
Proof. exact C19_sort_ordered_permutation_proof. Qed.

Theorem C19_sort_numbers_by_value : forall (t : ltag) (xs : list value),
  t <> LStrings -> forallb flt_is_int xs = true ->
  exists ys, flt_sort (VList t xs) = FltOk (VList LAny ys) /\ Permutation xs ys /\
             StronglySorted (fun a b => flt_int_key a <= flt_int_key b) ys.
Proof. exact C19_sort_numbers_by_value_proof. Qed.

(* the unrepaired code sorts [10, 9] (a []interface{}) as text and leaves it as it is *)
Theorem C19_sort_pinned_refuted :
  exists xs ys, flt_sort_pinned (VList LAny xs) = FltOk (VList LAny ys) /\ forallb flt_is_int xs = true /\
                ~ StronglySorted (fun a b => flt_int_key a <= flt_int_key b) ys.
Proof. exact C19_sort_pinned_refuted_proof. Qed.

(* ---------------------------------------------------------------- length = what first, last, slice and for observe *)
Theorem C19_length_counts_elements : forall (v : value) (n : Z),
  flt_length v = FltOk (VInt n) -> n = Z.of_nat (length (flt_elements v)).
Proof. exact C19_length_counts_elements_proof. Qed.

Theorem C19_observers_list : forall (t : ltag) (xs : list value),
  flt_first (VList t xs) = FltOk (hd VNull (flt_elements (VList t xs))) /\
  flt_last (VList t xs) = FltOk (last (flt_elements (VList t xs)) VNull) /\
  flt_slice (VList t xs) [VInt 0] = FltOk (VList (flt_slice_tag t) (flt_elements (VList t xs))).
Proof. exact C19_observers_list_proof. Qed.

Theorem C19_observers_string : forall s : bytes,
  flt_elements (VStr s) = map (fun c => VStr (uf8_enc1 c)) (uf8_cps s) /\
  (exists b, flt_first (VStr s) = FltOk (VStr b) /\ uf8_cps b = firstn 1 (uf8_cps s)) /\
  (exists b, flt_last (VStr s) = FltOk (VStr b) /\ uf8_cps b = skipn (length (uf8_cps s) - 1) (uf8_cps s)) /\
  (exists b, flt_slice (VStr s) [VInt 0] = FltOk (VStr b) /\ uf8_cps b = uf8_cps s).
Proof. exact C19_observers_string_proof. Qed.

(* maps: first is the first value the loop visits; last and slice have no case for maps *)
Theorem C19_observers_map : forall (t : mtag) (kvs : list (value * value)),
  flt_first (VMap t kvs) = FltOk (hd VNull (flt_elements (VMap t kvs))) /\
  flt_last (VMap t kvs) = FltErr /\ flt_slice (VMap t kvs) [VInt 0] = FltErr.
Proof. exact C19_observers_map_proof. Qed.

(* ---------------------------------------------------------------- join then split *)
(* a one-byte separator *)
Theorem C19_split_join_byte : forall (b : byte) (xs : list bytes),
  xs <> [] -> (forall x, In x xs -> ~ In b x) ->
  flt_split_str [b] None (flt_join_bytes [b] xs) = xs.
Proof. exact C19_split_join_byte_proof. Qed.

(* a separator that is one code point of several bytes, strings of valid UTF-8 *)
Theorem C19_split_join_codepoint : forall (c : N) (ls : list (list N)),
  uf8_scalar c = true -> (128 <= c)%N -> ls <> [] ->
  Forall (fun l => forallb uf8_scalar l = true /\ ~ In c l) ls ->
  flt_split_str (uf8_enc1 c) None (flt_join_bytes (uf8_enc1 c) (map uf8_encode ls)) = map uf8_encode ls.
Proof. exact C19_split_join_codepoint_proof. Qed.

(* a separator of several code points is treated as a set of characters and the law fails, even on
   strings that share no byte with the separator: ['a','b'] joined and split with '-+' *)
Theorem C19_split_join_refuted :
  exists (d : bytes) (xs : list bytes),
    d <> [] /\ xs <> [] /\ (forall x b, In x xs -> In b d -> ~ In b x) /\
    flt_split_str d None (flt_join_bytes d xs) <> xs.
Proof. exact C19_split_join_refuted_proof. Qed.

(* the empty list joins to the empty string, which splits into one empty string: why xs is not empty *)
Theorem C19_split_empty : forall d : bytes,
  flt_join_bytes d [] = [] /\
  flt_split_str d None [] = match d with [] => [] | _ => [[]] end.
Proof. exact C19_split_empty_proof. Qed.

(* ---------------------------------------------------------------- default replaces exactly the empty values *)
Theorem C19_default_replaces_exactly_empty : forall (v d : value) (rest : list value),
  flt_default v (d :: rest) = FltOk (if fsp_empty v then d else v) /\ flt_default v [] = FltOk v.
Proof. exact C19_default_replaces_exactly_empty_proof. Qed.

Theorem C19_empty_table :
  fsp_empty VNull = true /\ fsp_empty (VStr []) = true /\ fsp_empty (VBool false) = true /\
  (forall t, fsp_empty (VList t []) = true) /\ (forall t, fsp_empty (VMap t []) = true) /\
  (forall z, fsp_empty (VInt z) = false) /\ fsp_empty (VBool true) = false /\
  (forall b s, fsp_empty (VStr (b :: s)) = false) /\
  (forall t x xs, fsp_empty (VList t (x :: xs)) = false) /\ (forall t e kvs, fsp_empty (VMap t (e :: kvs)) = false).
Proof. exact C19_empty_table_proof. Qed.

(* the unrepaired isEmptyValue: zero is empty as an int and not empty as an int64 or float64 *)
Theorem C19_default_pinned_refuted :
  flt_is_empty_pinned NRInt (VInt 0) = true /\
  flt_is_empty_pinned NRInt64 (VInt 0) = false /\ flt_is_empty_pinned NRFloat64 (VInt 0) = false.
Proof. exact C19_default_pinned_refuted_proof. Qed.

(* ---------------------------------------------------------------- merge *)
Theorem C19_merge_lists_append : forall (t : ltag) (xs : list value) (args : list value),
  flt_merge (VList t xs) args = FltOk (VList LAny (xs ++ concat (map flt_list_of_arg args))).
Proof. exact C19_merge_lists_append_proof. Qed.

Theorem C19_merge_maps_later_wins : forall (t : mtag) (kvs : list (value * value)) (args : list value),
  flt_maps_wf (kvs :: concat (map flt_map_of_arg args)) ->
  exists r, flt_merge (VMap t kvs) args = FltOk (VMap MAny r) /\ flt_str_keys r /\
    forall k, fsp_lookup flt_key_string r k = fsp_merged_lookup flt_key_string (kvs :: concat (map flt_map_of_arg args)) k.
Proof. exact C19_merge_maps_later_wins_proof. Qed.

(* the unrepaired code panics when a typed map is merged with a hash literal *)
Theorem C19_merge_pinned_refuted :
  flt_merge_pinned (VMap MStrStr [(VStr b#"a", VStr b#"1")]) [VMap MAny [(VStr b#"b", VInt 3)]] = FltPanic.
Proof. exact C19_merge_pinned_refuted_proof. Qed.

(* ---------------------------------------------------------------- keys lists every key once *)
Theorem C19_keys_each_once : forall (t : mtag) (kvs : list (value * value)),
  exists t' ks, flt_keys (VMap t kvs) = FltOk (VList t' ks) /\
    Permutation (map fst kvs) ks /\ (NoDup (map fst kvs) -> NoDup ks) /\
    fsp_ordered (fun a b => flt_bytes_ltb (flt_key_string a) (flt_key_string b)) ks.
Proof. exact C19_keys_each_once_proof. Qed.

(* ---------------------------------------------------------------- slice follows Twig's index rule *)
(* for every start and every length, negative and out of range included, and the omitted length *)
Theorem C19_slice_is_spec : forall (args : list value) (start : Z) (len : option Z),
  flt_slice_args args = Some (start, len) ->
  (forall s, flt_slice (VStr s) args = FltOk (VStr (fsp_slice_string s start len))) /\
  (forall t xs, flt_slice (VList t xs) args = FltOk (VList (flt_slice_tag t) (fsp_slice_list xs start len))).
Proof. exact C19_slice_is_spec_proof. Qed.

Theorem C19_slice_args : forall (a : value) (rest : list value),
  flt_slice_args [] = None /\
  flt_slice_args [a] = option_map (fun s => (s, None)) (flt_to_int a) /\
  flt_slice_args (a :: VNull :: rest) = option_map (fun s => (s, None)) (flt_to_int a).
Proof. exact C19_slice_args_proof. Qed.

(* the unrepaired code panics on Go arrays in slice, reverse and sort *)
Theorem C19_array_pinned_refuted :
  flt_slice_pinned (VList LArray [VInt 1; VInt 2]) [VInt 0] = FltPanic /\
  flt_reverse_pinned (VList LArray [VInt 1; VInt 2]) = FltPanic /\
  flt_sort_pinned (VList LArray [VInt 1; VInt 2]) = FltPanic.
Proof. exact C19_slice_pinned_refuted_proof. Qed.

(* ---------------------------------------------------------------- abs, round, number_format and exact arithmetic *)
(* what rounding means: x / d to an integer k, for each method *)
Theorem C19_round_div_characterisation : forall (x d : Z), 0 < d ->
  (let k := fsp_round_div FMFloor x d in k * d <= x < (k + 1) * d) /\
  (let k := fsp_round_div FMCeil x d in (k - 1) * d < x <= k * d) /\
  (let k := fsp_round_div FMCommon x d in
     2 * Z.abs (x - k * d) <= d /\ (2 * Z.abs (x - k * d) = d -> Z.abs x < Z.abs (k * d))).
Proof. exact C19_round_div_characterisation_proof. Qed.

(* on integers (where binary floating point is exact) the model is the exact specification *)
Theorem C19_round_int_exact : forall (m : flt_rmethod) (z p : Z),
  fsp_dec_round (flt_method_spec m) {| fd_m := z; fd_sc := 0 |} p = {| fd_m := flt_round_int m z p; fd_sc := 0 |}.
Proof. exact C19_round_int_exact_proof. Qed.

Theorem C19_number_format_int_exact : forall (z d : Z) (point sep : bytes),
  flt_number_format_int z d point sep = fsp_dec_number_format {| fd_m := z; fd_sc := 0 |} d point sep.
Proof. exact C19_number_format_int_exact_proof. Qed.

Theorem C19_abs : forall x : fsp_dec,
  fd_m (fsp_dec_abs x) = Z.abs (fd_m x) /\ fd_sc (fsp_dec_abs x) = fd_sc x /\ 0 <= fd_m (fsp_dec_abs x) /\
  fsp_dec_abs (fsp_dec_abs x) = fsp_dec_abs x /\
  (forall z, flt_abs (VInt z) = FltOk (VInt (fd_m (fsp_dec_abs {| fd_m := z; fd_sc := 0 |})))).
Proof. exact C19_abs_proof. Qed.

(* ---------------------------------------------------------------- the names are registered to the modelled methods *)
(* upper -> filterUpper ... number_format -> filterNumberFormat, count -> filterLength, in the table
   tools/gogen regenerates from extension.go GetFilters on every run *)
Theorem C19_registry :
  forallb (fun e => match assoc_bytes reg_GetFilters (fst e) with Some m => bytes_eqb m (snd e) | None => false end)
          flt_registered = true.
Proof. exact C19_registry_proof. Qed.

(* ---------------------------------------------------------------- non-vacuity *)
Example C19_example_slice :
  flt_slice (VStr [x68; xc3; xa9; x6c; x6c; x6f]) [VInt (-4); VInt 2] = FltOk (VStr [xc3; xa9; x6c]) /\
  flt_slice (VList LInts [VInt 1; VInt 2; VInt 3]) [VInt 1] = FltOk (VList LInts [VInt 2; VInt 3]) /\
  flt_slice (VList LArray [VInt 1; VInt 2; VInt 3]) [VInt (-9); VInt (-1)] = FltOk (VList LAny [VInt 1; VInt 2]).
Proof. vm_compute. repeat split. Qed.

Example C19_example_reverse_invalid :
  flt_reverse_bytes (flt_reverse_bytes [x61; xff; x62]) = [x61; xef; xbf; xbd; x62].
Proof. exact C19_reverse_invalid_example_proof. Qed.

Example C19_example_sort :
  flt_sort (VList LAny [VInt 10; VInt 9; VInt 2]) = FltOk (VList LAny [VInt 2; VInt 9; VInt 10]) /\
  flt_sort (VList LAny [VInt 3; VStr b#"1"; VInt 2; VStr b#"10"]) = FltOk (VList LAny [VStr b#"1"; VStr b#"10"; VInt 2; VInt 3]).
Proof. vm_compute. repeat split. Qed.

Example C19_example_known_classes :
  fsp_tie_not_binary_exact {| fd_m := 2675; fd_sc := 3 |} 2 = true /\
  fsp_dec_text (fsp_dec_round FMCommon {| fd_m := 2675; fd_sc := 3 |} 2) = b#"2.68" /\
  fsp_dec_number_format {| fd_m := 2675; fd_sc := 3 |} 2 b#"." b#"," = b#"2.68" /\
  fsp_tie_binary_exact_even {| fd_m := 12345; fd_sc := 1 |} 0 = true /\
  fsp_dec_number_format {| fd_m := 12345; fd_sc := 1 |} 0 b#"." b#"," = b#"1,235" /\
  fsp_grid_not_binary_exact {| fd_m := 7; fd_sc := 2 |} 2 = true /\
  fsp_dec_text (fsp_dec_round FMCeil {| fd_m := 7; fd_sc := 2 |} 2) = b#"0.07" /\
  fsp_tie_not_binary_exact {| fd_m := 25; fd_sc := 1 |} 0 = false /\
  fsp_dec_text (fsp_dec_round FMCommon {| fd_m := -25; fd_sc := 1 |} 0) = b#"-3".
Proof. exact C19_known_classes_examples_proof. Qed.


(* ---------------------------------------------------------------- the index computation of the code itself *)
(* Gen/KernelsSlice.v holds the four index computations of filterSlice (string, []interface{}, and the two reflection
   branches) as the translator tools/gogen/gen_kernel.go reads them from the working tree, statement by statement
   (k_slice_*_ir, terms of Base/Kernel.v's kstm; k_slice_* the same as plain Gallina, equal by computation). They equal
   the model functions flt_slice_bounds / flt_slice_bounds_refl that C19_slice_is_spec is about: for every start, every
   length (given or omitted) and every n. hasLength false = the length is omitted or null. *)
Theorem C19_slice_code_is_model : forall (start len : Z) (hasLength : bool) (n : Z),
  k_slice_string start len hasLength n = ksl_res (flt_slice_bounds n start (ksl_len hasLength len)) /\
  k_slice_list start len hasLength n = ksl_res (flt_slice_bounds n start (ksl_len hasLength len)) /\
  k_slice_refl_string start len hasLength n = ksl_res (flt_slice_bounds n start (ksl_len hasLength len)) /\
  k_slice_refl_slice start len hasLength n = ksl_res (flt_slice_bounds_refl n start (ksl_len hasLength len)).
Proof.
  intros. repeat split;
    [apply k_slice_string_model|apply k_slice_list_model|apply k_slice_refl_string_model|apply k_slice_refl_slice_model].
Qed.

(* the same on the machine: Go's int is 64 bits wide and wraps; for every int64 start and length and every length n
   a Go string or slice can have, the translated terms run with wrap-around give the model's bounds *)
Theorem C19_slice_code_on_machine : forall (start len : Z) (hasLength : bool) (n : Z),
  in64 start = true -> in64 len = true -> 0 <= n < 2^63 ->
  krun w64 (k_slice_string_env start len hasLength n) k_slice_string_ir = ksl_res (flt_slice_bounds n start (ksl_len hasLength len)) /\
  krun w64 (k_slice_list_env start len hasLength n) k_slice_list_ir = ksl_res (flt_slice_bounds n start (ksl_len hasLength len)) /\
  krun w64 (k_slice_refl_string_env start len hasLength n) k_slice_refl_string_ir = ksl_res (flt_slice_bounds n start (ksl_len hasLength len)) /\
  krun w64 (k_slice_refl_slice_env start len hasLength n) k_slice_refl_slice_ir = ksl_res (flt_slice_bounds_refl n start (ksl_len hasLength len)).
Proof.
  intros start len hl n Hs Hl Hn. repeat split;
    [apply k_slice_string_machine|apply k_slice_list_machine|apply k_slice_refl_string_machine|apply k_slice_refl_slice_machine]; assumption.
Qed.

(* the translation covered all four branches (a statement the translator does not understand would make this false) *)
Theorem C19_slice_code_translated : kernels_slice_ok = true.
Proof. reflexivity. Qed.

(* not vacuous: 'abcdef'|slice(-4, 2) -- start -4, length 2, six code points -- is [2, 4) *)
Example C19_slice_code_example : k_slice_string (-4) 2 true 6 = KRet b#"slice" [KZ 2; KZ 4].
Proof. reflexivity. Qed.

Print Assumptions C19_upper_idempotent.
Print Assumptions C19_lower_idempotent.
Print Assumptions C19_trim_idempotent.
Print Assumptions C19_capitalize_idempotent.
Print Assumptions C19_reverse_list.
Print Assumptions C19_reverse_string.
Print Assumptions C19_sort_ordered_permutation.
Print Assumptions C19_sort_numbers_by_value.
Print Assumptions C19_sort_pinned_refuted.
Print Assumptions C19_length_counts_elements.
Print Assumptions C19_observers_list.
Print Assumptions C19_observers_string.
Print Assumptions C19_observers_map.
Print Assumptions C19_split_join_byte.
Print Assumptions C19_split_join_codepoint.
Print Assumptions C19_split_join_refuted.
Print Assumptions C19_split_empty.
Print Assumptions C19_default_replaces_exactly_empty.
Print Assumptions C19_empty_table.
Print Assumptions C19_default_pinned_refuted.
Print Assumptions C19_merge_lists_append.
Print Assumptions C19_merge_maps_later_wins.
Print Assumptions C19_merge_pinned_refuted.
Print Assumptions C19_keys_each_once.
Print Assumptions C19_slice_is_spec.
Print Assumptions C19_slice_args.
Print Assumptions C19_array_pinned_refuted.
Print Assumptions C19_round_div_characterisation.
Print Assumptions C19_round_int_exact.
Print Assumptions C19_number_format_int_exact.
Print Assumptions C19_abs.
Print Assumptions C19_registry.
Print Assumptions C19_slice_code_is_model.
Print Assumptions C19_slice_code_on_machine.
Print Assumptions C19_slice_code_translated.
