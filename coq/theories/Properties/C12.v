(* C12 -- macros bind arguments positionally with defaults, alike however they are reached.
   Statements only; proofs live in Proofs/MacroProofs.v. The operational side is the evaluator model
   Model/Eval.v (ev_bind_params, ev_call_macro, ev_print, the ECall / EModCall cases of eval, ev_import, ev_from: a
   mirror of node.go MacroNode.CallMacro / ImportNode.Render / FromImportNode.Render and of render.go
   EvaluateExpression), the declarative side Spec/MacroSpec.v.
   Every statement is for all signatures, argument lists, bodies, contexts, environments and fuel; the equalities
   hold outcome by outcome (errors, OutOfFuel and Unmodelled included), so nothing is excluded silently.

   Three defects of the engine were found while building this property, refuted on witnesses, repaired in the
   engine (e1487ea, 8789b1e, 81c1e66) and are now regressions proved by computation: a body that calls a macro of
   its own template (C12_sibling_call_all_paths), a parameter named like such a macro
   (C12_parameter_named_like_macro_all_paths), a macro named like a registered function reached through _self
   (C12_macro_named_like_function_all_paths).
   Path independence: the output of a call is a function of the caller's context, the definition reached and the
   argument values -- not of the form of the call (C12_paths_agree_in_context), for call sites nested in loops,
   blocks, included templates and other macros alike (C12_callable_from_anywhere); and across DIFFERENT caller
   contexts (the defining template, an importer, a from-importer) for every library of self-contained macros
   whenever the callers answer alike for the names the library looks up, the macros of the library itself
   excepted (C12_paths_agree, Proofs/MacroFrameProofs.v). *)
From Twig Require Import Base.Bytes Base.Utf8 Model.Ast Model.Value Model.ValueOps Model.EvalBuiltins Model.Ctx
                         Model.TemplateSet Model.Eval Model.ExprLexer Spec.ControlSpec Spec.MacroSpec Proofs.EvalProofs
                         Proofs.MacroProofs Proofs.MacroFrameProofs Gen.MacroShape.

(* ---------------------------------------------------------------- binding *)
(* a call is the positional rule: for every signature (any number of parameters, any subset with defaults) and
   every argument list (fewer, equal, more) *)
Theorem C12_binding : forall ev rend env c tpl name args,
  ev_call_macro ev rend env c tpl name args = c12_call ev rend env c tpl name args.
Proof. exact C12_binding_proof. Qed.

(* the rule, case by case: the argument; else the default, evaluated by the caller's evaluator; else null *)
Theorem C12_binding_cases : forall evc args i,
  (forall d a, nth_error args i = Some a -> c12_arg_or_default evc args i d = ev_ret a) /\
  (forall de, length args <= i -> c12_arg_or_default evc args i (Some de) = evc de) /\
  (length args <= i -> c12_arg_or_default evc args i None = ev_ret VNull).
Proof.
  intros. split; [|split].
  - intros d a H. apply c12_arg_present. exact H.
  - intros de H. apply c12_arg_default. exact H.
  - apply c12_arg_null.
Qed.

(* what the body finds: parameter number j holds exactly the value the rule gives it (distinct parameter names) *)
Theorem C12_binding_lookup : forall evc args params bs t env c tpl,
  c12_param_values evc args 0 params = (Ok bs, t) -> NoDup (map fst params) ->
  forall j p d, nth_error params j = Some (p, d) ->
    exists v tj, c12_arg_or_default evc args j d = (Ok v, tj) /\
                 rc_own_var (c12_macro_ctx env c tpl bs) p = Some v /\ rc_get_var (c12_macro_ctx env c tpl bs) p = v.
Proof. exact C12_binding_lookup_proof. Qed.

(* extra arguments are ignored *)
Theorem C12_extra_arguments_ignored : forall evc params args extra,
  length params <= length args ->
  c12_param_values evc (args ++ extra) 0 params = c12_param_values evc args 0 params.
Proof. exact C12_extra_arguments_ignored_proof. Qed.

(* when every parameter has its argument, no default is evaluated: the bindings are the parameters paired with
   the first arguments, and the trace is empty *)
Theorem C12_present_arguments_need_no_default : forall evc params args,
  length params <= length args ->
  c12_param_values evc args 0 params = (Ok (combine (map fst params) (firstn (length params) args)), []).
Proof. intros. apply (c12_param_values_all_present evc params args 0). exact H. Qed.

(* ---------------------------------------------------------------- defaults *)
(* the call depends on the expression evaluator only through what it yields for the default expressions IN THE
   CALLER'S CONTEXT c: defaults are evaluated there and nowhere else (not in the macro's context, where earlier
   parameters would be visible) *)
Theorem C12_defaults_in_caller_context : forall ev1 ev2 rend env c tpl name args,
  (forall params body p de, ts_find_macro env tpl name = Some (params, body) -> In (p, Some de) params ->
     ev1 c de = ev2 c de) ->
  ev_call_macro ev1 rend env c tpl name args = ev_call_macro ev2 rend env c tpl name args.
Proof. exact C12_defaults_in_caller_context_proof. Qed.

(* ---------------------------------------------------------------- scope of the body *)
(* parameters hide outer variables of the same name -- and, being variables of the body's own context, macros of
   the same name (a parameter is read as a variable: c12_reads_variable); every other name is read from the caller
   (its own variables and those of its parents); the body sees the macros of its own template, then the macros the
   caller sees *)
Theorem C12_params_shadow_outer : forall evc args params bs t env c tpl,
  c12_param_values evc args 0 params = (Ok bs, t) ->
  (forall x, In x (map fst params) ->
     exists v, c12_last_binding bs x = Some v /\ rc_get_var (c12_macro_ctx env c tpl bs) x = v /\
               c12_reads_variable (c12_macro_ctx env c tpl bs) x) /\
  (forall x, ~ In x (map fst params) ->
     rc_get_var (c12_macro_ctx env c tpl bs) x = rc_get_var c x /\ rc_own_var (c12_macro_ctx env c tpl bs) x = None) /\
  (forall x, rc_get_macro (c12_macro_ctx env c tpl bs) x =
             match assoc_bytes (ts_sibling_macros env tpl) x with Some r => Some r | None => rc_get_macro c x end).
Proof.
  intros evc args params bs t env c tpl H. split; [|split].
  - intros x Hx. rewrite c12_macro_ctx_get_var.
    rewrite <- (c12_param_values_names evc args params 0 bs t H) in Hx.
    destruct (c12_last_binding bs x) as [v|] eqn:E.
    { exists v. split; [reflexivity|]. split; [reflexivity|].
      apply (c12_reads_variable_own _ x v). rewrite c12_macro_ctx_own_var. exact E. }
    exfalso. clear - Hx E. induction bs as [|[q w] r IH]; [destruct Hx|].
    cbn [c12_last_binding] in E. destruct (c12_last_binding r x); [discriminate|].
    destruct (bytes_eqb q x) eqn:Q; [discriminate|].
    cbn [map fst In] in Hx. destruct Hx as [->|Hx]; [rewrite bytes_eqb_refl in Q; discriminate|].
    apply IH; [exact Hx|reflexivity].
  - intros x Hx. eapply C12_outer_visible_proof; eassumption.
  - intro x. apply c12_macro_ctx_get_macro.
Qed.

(* assignments made in the body are invisible to the caller: whatever a print tag prints -- a macro call in any
   form included -- the context handed on is the context it was given (set, loop variables, loop, macro tags,
   import and from inside the body all write the body's own context); the one exception is the closure of parent(),
   which renders a block body in the same context *)
Theorem C12_body_assignments_local : forall ev rend env c e r c' t,
  ev_print ev rend env c e = (r, c', t) ->
  (forall v t0, ev c e = (Ok v, t0) -> vo_view v <> KParent) ->
  c' = c.
Proof. exact C12_body_assignments_local_proof. Qed.

(* ---------------------------------------------------------------- the renderer is the specification renderer *)
Theorem C12_refines_spec : forall fuel env c ns, render fuel env c ns = c12_render fuel env c ns.
Proof. exact C12_refines_spec_proof. Qed.

Theorem C12_refines_spec_template : forall fuel env name vars,
  render_template fuel env name vars = c12_render_template fuel env name vars.
Proof. exact C12_refines_spec_template_proof. Qed.

(* ---------------------------------------------------------------- the five ways of reaching a macro *)
(* each form, in a context where it resolves to the definition (tpl, nm) and is not denied by the sandbox, evaluates
   its arguments left to right and yields the closure of that definition over their values *)
Theorem C12_forms_evaluate_alike : forall fu env c f tpl nm args,
  c12_reaches env c f tpl nm -> ev_sandbox_denies env c (c12_form_expr f args) = false ->
  eval (S (S fu)) env c (c12_form_expr f args) = c12_closure (eval (S fu) env c) tpl nm args.
Proof. exact C12_forms_evaluate_alike_proof. Qed.

(* printed, the call is the binding rule applied in the context of the print tag, which is handed on unchanged *)
Theorem C12_call_printed : forall fu env c f tpl nm args,
  c12_reaches env c f tpl nm -> ev_sandbox_denies env c (c12_form_expr f args) = false ->
  render_node (eval (S (S fu)) env) (render (S (S fu)) env) (render_root (S (S fu)) env) env c (NPrint (c12_form_expr f args)) =
  ev_rexpr (ev_list (eval (S fu) env c) args) c
    (fun vs => let '(r, t) := c12_call (eval (S (S fu)) env) (render (S (S fu)) env) env c tpl nm vs in (r, c, t)).
Proof. exact C12_call_printed_proof. Qed.

(* so any two of the five forms that reach the same definition from a context produce the same output, the same
   trace and the same effect (none) *)
Theorem C12_paths_agree_in_context : forall fu env c f1 f2 tpl nm args,
  c12_reaches env c f1 tpl nm -> c12_reaches env c f2 tpl nm ->
  ev_sandbox_denies env c (c12_form_expr f1 args) = false -> ev_sandbox_denies env c (c12_form_expr f2 args) = false ->
  render_node (eval (S (S fu)) env) (render (S (S fu)) env) (render_root (S (S fu)) env) env c (NPrint (c12_form_expr f1 args)) =
  render_node (eval (S (S fu)) env) (render (S (S fu)) env) (render_root (S (S fu)) env) env c (NPrint (c12_form_expr f2 args)).
Proof. exact C12_paths_agree_in_context_proof. Qed.

(* across templates the caller's context necessarily differs between the paths (the defining template holds all
   its macros by name, an importer holds a module variable, a from-importer one alias), and the body reads the
   caller's context. What makes the paths agree all the same: the body sees the macros of its own template
   whoever calls it. For every environment whose macros are self-contained over a set N of names (bodies and defaults
   look up only names of N; no tag that loads a template, no block, no macro tag inside a body), two callers that
   answer alike for N -- same variables, same macros EXCEPT the macros of the called macro's own template, same
   sandbox flag -- get the same output and the same trace from the same call *)
Theorem C12_paths_agree : forall N env fu c1 c2 tpl nm args,
  c12_in N b#"loop" = true -> c12_env_ok N env ->
  c12_agree_mod N (ts_sibling_macros env tpl) c1 c2 ->
  (* defaults are evaluated in the caller's context: those of the called macro look up no macro of its template *)
  (forall params body, ts_find_macro env tpl nm = Some (params, body) ->
     c12_params_ok (c12_minus N (ts_sibling_macros env tpl)) params = true) ->
  ev_call_macro (eval fu env) (render fu env) env c1 tpl nm args = ev_call_macro (eval fu env) (render fu env) env c2 tpl nm args.
Proof. exact C12_paths_agree_proof. Qed.

(* the hypothesis on the environment is decidable *)
Theorem C12_selfcontained_decidable : forall N env, c12_env_okb N env = true -> c12_env_ok N env.
Proof. exact c12_env_okb_sound. Qed.

(* the side condition on defaults cannot be dropped (known finding default-calls-sibling-macro, witness replayed on
   the engine): a default that calls a macro of its own template is evaluated in the caller's context and fails
   wherever the caller does not hold that macro by name *)
Theorem C12_default_sibling_refuted :
  exists D m args,
    c12_five_out 40 D m args [] b#"local" = Ok b#"[b<a1>]" /\
    c12_five_out 40 D m args [] b#"self" = Ok b#"[b<a1>]" /\
    c12_five_out 40 D m args [] b#"import" = Err EOther /\
    c12_five_out 40 D m args [] b#"from" = Err EOther /\
    c12_five_out 40 D m args [] b#"alias" = Err EOther /\
    c12_params_ok (c12_minus [b#"loop"; b#"x"; b#"y"; b#"a"] (ts_sibling_macros (c12_five_env D m args) c12_lib_name))
                  [(b#"y", Some (ECall b#"a" [ELit (LInt 1)]))] = false.
Proof. exact C12_default_sibling_refuted_proof. Qed.

(* the three repaired defects (witnesses of the former refutations): all five paths, same output *)
Theorem C12_sibling_call_all_paths :
  map (c12_five_out 40 c12_w_sibling b#"b" [ELit (LInt 1)] []) c12_five_names = map (fun _ => Ok b#"[b1<a1>]") c12_five_names.
Proof. exact C12_sibling_call_all_paths_proof. Qed.

Theorem C12_parameter_named_like_macro_all_paths :
  map (c12_five_out 40 c12_w_param b#"c" [ELit (LInt 7)] []) c12_five_names = map (fun _ => Ok b#"[c7]") c12_five_names.
Proof. exact C12_parameter_named_like_macro_all_paths_proof. Qed.

Theorem C12_macro_named_like_function_all_paths :
  map (c12_five_out 40 c12_w_fname b#"max" [ELit (LInt 7)] []) c12_five_names = map (fun _ => Ok b#"<mymax7>") c12_five_names.
Proof. exact C12_macro_named_like_function_all_paths_proof. Qed.

(* ---------------------------------------------------------------- registration: how a form comes to reach a definition *)
(* a macro tag registers (template being rendered, name) under its name and changes nothing else *)
Theorem C12_macro_tag_registers : forall ev rend root env c m ps body,
  exists c', render_node ev rend root env c (NMacro m ps body) = (Ok [], c', []) /\
             rc_get_macro c' m = Some (rc_tpl c, m) /\
             (forall x, x <> m -> rc_get_macro c' x = rc_get_macro c x) /\
             (forall x, rc_get_var c' x = rc_get_var c x).
Proof. exact C12_macro_tag_registers_proof. Qed.

(* import renders the WHOLE imported template through the root renderer, in a fresh context; the macro table that
   leaves is the module bound to the alias. Definitions that are not children of the template root are therefore
   registered exactly when rendering reaches them *)
Theorem C12_import_renders_whole_template : forall ev root env c e alias name inodes t,
  ev_load ev env c e = (Ok (name, Some inodes), t) ->
  let ic := rc_derive (rc_fresh [] name) None (rc_sandboxed c) (Some name) in
  ev_import ev root env c e alias =
  match root ic inodes with
  | (Ok _, ic', t2) => (Ok [], rc_set_var c alias (c12_module_of (rc_macros ic')), t ++ t2)
  | (o, _, t2) => (ev_cast o Unmodelled, c, t ++ t2)
  end.
Proof. exact C12_import_renders_whole_template_proof. Qed.

Theorem C12_from_renders_whole_template : forall ev root env c e names name inodes t,
  ev_load ev env c e = (Ok (name, Some inodes), t) -> ts_no_dup (map fst names) = true ->
  let ic := rc_derive (rc_fresh [] name) None (rc_sandboxed c) (Some name) in
  ev_from ev root env c e names =
  match root ic inodes with
  | (Ok _, ic', t2) =>
    match ev_from_names (rc_macros ic') names c with
    | Ok c' => (Ok [], c', t ++ t2)
    | o => (ev_cast o Unmodelled, c, t ++ t2)
    end
  | (o, _, t2) => (ev_cast o Unmodelled, c, t ++ t2)
  end.
Proof. exact C12_from_renders_whole_template_proof. Qed.

(* x.m after import, y after from ... import m as y (m itself when y = m) reach what the imported context
   registered under m; from binds no variable *)
Theorem C12_import_reaches : forall env c x ms m tpl nm,
  rc_hack_name x = false -> assoc_bytes ms m = Some (tpl, nm) ->
  c12_reaches env (rc_set_var c x (c12_module_of ms)) (FImport x m) tpl nm.
Proof. exact C12_import_reaches_proof. Qed.

Theorem C12_from_reaches : forall env ms c c' m y tpl nm,
  ev_from_names ms [(m, y)] c = Ok c' -> assoc_bytes ms m = Some (tpl, nm) ->
  c12_reaches env c' (FAlias y) tpl nm /\ (forall x, rc_get_var c' x = rc_get_var c x).
Proof. exact C12_from_reaches_proof. Qed.

(* wrappers hand on the context (for a block and a loop: the macro table) their body left: a macro tag inside
   spaceless, apply, a block, the taken branch of an if or an iteration of a for is registered like one at the
   top level *)
Theorem C12_wrappers_pass_registrations :
  (forall rend env c body, snd (fst (ev_spaceless rend env c body)) = snd (fst (rend c body))) /\
  (forall ev rend env c f args body, snd (fst (ev_apply ev rend env c f args body)) = snd (fst (rend c body))) /\
  (forall rend c name body r c' t, ev_block rend c name body = (r, c', t) ->
     c' = c \/ exists d defs, forall m,
       rc_get_macro c' m = rc_get_macro (snd (fst (rend (rc_with_current c (Some name) defs 0 (bd_tpl d)) (bd_body d)))) m) /\
  (forall ev rend c cond body rest els v t, ev c cond = (Ok v, t) -> vo_to_bool v = true ->
     ev_if ev rend c ((cond, body) :: rest) els = c9_add_trace t (rend c body)) /\
  (forall rend c k v tag x body els r c' t, ev_for_loop rend c k v (VList tag [x]) body els = (r, c', t) ->
     forall m, rc_get_macro c' m = rc_get_macro (snd (fst (rend (ev_iter_ctx c k v 1 0 (VInt 0, x)) body))) m).
Proof.
  split; [exact C12_spaceless_passes_context_proof|].
  split; [exact C12_apply_passes_context_proof|].
  split; [exact C12_block_passes_macros_proof|].
  split; [exact C12_if_passes_context_proof|exact C12_for_passes_macros_proof].
Qed.

(* ---------------------------------------------------------------- callable from anywhere *)
(* a form that reaches a definition from a context reaches it from the contexts of the constructs nested in it:
   a loop iteration, a block body, a template included without only / sandboxed, the body of another macro --
   unless the construct binds the variable the form reads (x of x.m, _self) or captures a name it looks up (the
   body of a macro sees the macros of its own template first) *)
Theorem C12_reaches_inside : forall env c s f tpl nm,
  c12_reaches env c f tpl nm -> c12_no_macro_named c f -> c12_site_keeps env s f tpl nm ->
  (forall x, In x (c12_form_names f) -> In x (c12_site_binds s) ->
     match f with FSelf _ | FImport _ _ => False | _ => True end) ->
  c12_reaches env (c12_site_ctx env c s) f tpl nm /\ c12_no_macro_named (c12_site_ctx env c s) f.
Proof. exact C12_reaches_inside_proof. Qed.

(* and there, at any depth of nesting, the call is the same binding rule with the call site's context as caller *)
Theorem C12_callable_from_anywhere : forall fu env c sites f tpl nm args,
  c12_reaches env c f tpl nm -> c12_no_macro_named c f -> ev_sandbox_denies env c (c12_form_expr f args) = false ->
  (forall s, In s sites -> c12_site_keeps env s f tpl nm) ->
  (forall s x, In s sites -> In x (c12_form_names f) -> In x (c12_site_binds s) ->
     match f with FSelf _ | FImport _ _ => False | _ => True end) ->
  let c' := c12_sites_ctx env c sites in
  render_node (eval (S (S fu)) env) (render (S (S fu)) env) (render_root (S (S fu)) env) env c' (NPrint (c12_form_expr f args)) =
  ev_rexpr (ev_list (eval (S fu) env c') args) c'
    (fun vs => let '(r, t) := c12_call (eval (S (S fu)) env) (render (S (S fu)) env) env c' tpl nm vs in (r, c', t)).
Proof. exact C12_callable_from_anywhere_proof. Qed.

(* excluded explicitly: include ... only / sandboxed starts from a context without parent and without macros *)
Theorem C12_isolated_include_sees_no_macro : forall vars name sb last m,
  rc_get_macro (rc_derive (rc_fresh vars name) None sb last) m = None.
Proof. exact C12_isolated_include_sees_no_macro_proof. Qed.

(* ---------------------------------------------------------------- the two declaration parsers *)
(* what follows the tag name of a macro tag is tokenised by TokenizeExpression (ms_macro_tag_by_expression_lexer);
   no NAME token it produces contains an opening parenthesis, for any tag content: the parser for a combined
   name-and-parameters token in parse_macro.go is never entered, every declaration goes through the token path *)
Theorem C12_combined_declaration_unreachable : forall content toks,
  xl_lex content = Ok toks -> c12_takes_combined_path toks = false.
Proof. exact C12_combined_declaration_unreachable_proof. Qed.

(* ---------------------------------------------------------------- tie to the code *)
Theorem C12_code_shape :
  ms_body_in_fresh_ctx = true /\ ms_defaults_in_caller = true /\ ms_binding_three_way = true /\
  ms_parent_read_only = true /\ ms_import_renders_whole = true /\ ms_macro_tag_by_expression_lexer = true.
Proof. exact C12_code_shape_proof. Qed.

(* ---------------------------------------------------------------- non-vacuity *)
(* m(a, b = 'd', c = n + 1) with 0, 1, 2, 3 and 5 arguments, through all five paths *)
Example C12_example_binding :
  map (fun args => map (c12_five_out 40 c12_x_sig b#"m" args c12_x_vars) [b#"local"; b#"self"; b#"import"; b#"from"; b#"alias"])
      [ []; [ELit (LInt 1)]; [ELit (LInt 1); ELit (LInt 2)]; [ELit (LInt 1); ELit (LInt 2); ELit (LInt 3)];
        [ELit (LInt 1); ELit (LInt 2); ELit (LInt 3); ELit (LInt 4); EVar b#"n"] ]
  = map (fun s => [Ok s; Ok s; Ok s; Ok s; Ok s])
      [ b#"[|d|11]"; b#"[1|d|11]"; b#"[1|2|11]"; b#"[1|2|3]"; b#"[1|2|3]" ].
Proof. vm_compute. reflexivity. Qed.

(* definitions inside spaceless, if, for, block and apply are reached through import and from *)
Example C12_example_wrapped :
  map (fun m => map (c12_five_out 40 c12_x_wrapped m [] []) [b#"local"; b#"self"; b#"import"; b#"from"; b#"alias"])
      [ b#"w1"; b#"w2"; b#"w3"; b#"w4"; b#"w5" ]
  = map (fun s => [Ok s; Ok s; Ok s; Ok s; Ok s]) [ b#"w1"; b#"w2"; b#"w3"; b#"w4"; b#"w5q" ].
Proof. vm_compute. reflexivity. Qed.

(* a parameterless macro that sets, loops: the caller reads its own v, i afterwards, and has no loop *)
Example C12_example_effects :
  fst (render_template 40 (MkEnv [(b#"t", c12_x_effects)] [] [] [] None) b#"t" []) = Ok b#"89in|outI".
Proof. vm_compute. reflexivity. Qed.

(* the hypotheses of C12_paths_agree are satisfiable: the library whose macro b calls its sibling a, with the five
   main templates, is self-contained over the names it looks up *)
Example C12_example_selfcontained :
  c12_env_okb [b#"loop"; b#"x"; b#"y"; b#"a"; b#"n"] (c12_five_env c12_w_sibling b#"b" [ELit (LInt 1)]) = true /\
  c12_env_okb [b#"loop"; b#"p"; b#"q"; b#"r"; b#"a"; b#"b"; b#"c"; b#"n"] (c12_five_env c12_x_sig b#"m" []) = true.
Proof. vm_compute. split; reflexivity. Qed.

Print Assumptions C12_binding.
Print Assumptions C12_binding_cases.
Print Assumptions C12_binding_lookup.
Print Assumptions C12_extra_arguments_ignored.
Print Assumptions C12_present_arguments_need_no_default.
Print Assumptions C12_defaults_in_caller_context.
Print Assumptions C12_params_shadow_outer.
Print Assumptions C12_body_assignments_local.
Print Assumptions C12_refines_spec.
Print Assumptions C12_refines_spec_template.
Print Assumptions C12_forms_evaluate_alike.
Print Assumptions C12_call_printed.
Print Assumptions C12_paths_agree_in_context.
Print Assumptions C12_paths_agree.
Print Assumptions C12_selfcontained_decidable.
Print Assumptions C12_default_sibling_refuted.
Print Assumptions C12_sibling_call_all_paths.
Print Assumptions C12_parameter_named_like_macro_all_paths.
Print Assumptions C12_macro_named_like_function_all_paths.
Print Assumptions C12_macro_tag_registers.
Print Assumptions C12_import_renders_whole_template.
Print Assumptions C12_from_renders_whole_template.
Print Assumptions C12_import_reaches.
Print Assumptions C12_from_reaches.
Print Assumptions C12_wrappers_pass_registrations.
Print Assumptions C12_reaches_inside.
Print Assumptions C12_callable_from_anywhere.
Print Assumptions C12_isolated_include_sees_no_macro.
Print Assumptions C12_combined_declaration_unreachable.
Print Assumptions C12_code_shape.
