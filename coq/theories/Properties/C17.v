(* C17 - failures during rendering always surface as errors that wrap their cause.

   Property text: if a filter, function, test, loader or nested template invoked during a render fails, or a
   filter, function, test, macro or template name cannot be resolved, the top-level render call returns a non-nil
   error through which the original cause can be found with errors.Is / errors.As, and Render returns the empty
   string with it. A failure is never replaced by partial, default or empty output with a nil error, wherever in
   the template (loops, blocks, includes, inherited parents, macros, imported libraries) it happens. Only the
   documented tolerances (undefined variables and attributes print as empty, ignore missing) are exempt.

   Model: Model/Eval.v (render_template : fuel, environment, template name, variables -> outcome, trace), the
   faithful evaluator; callbacks are data of the environment, so a fault is a change of the environment
   (Spec/ErrSpec.v: es_env_fail, env_fail_at, es_env_without). Errors carry their class; ESentinel n stands for
   an error value that wraps sentinel n (C17_cause_reachable).
   Quantifiers: every template set, context, fuel, callback kind and name, and every position k of the fault-free
   trace. The outcomes OutOfFuel and Unmodelled are not excluded by a premise: the conclusions state the exact
   outcome of the faulty run, which is Err. What a position is: callbacks are identified by name in the model, so
   the k-th invocation is the FIRST invocation of its callback (es_first_at); the generated template sets of the
   correspondence check give every callback site its own name, and C17_failing_invocation_is_final speaks about
   every failing invocation of any run without that restriction.
   Proofs: Proofs/ErrProofs.v. *)
From Twig Require Import Base.Bytes Model.Ast Model.Value Model.ValueOps Model.Ctx Model.TemplateSet Model.Eval
                         Spec.ErrSpec Proofs.ErrProofs.

(* ---------------------------------------------------------------- the two runs *)
(* Same template set, context and fuel; in the second run the registered callback (K, f) fails with sentinel s.
   Either the first run never invokes it and the runs are equal, or the second run IS the first one up to and
   including the first invocation, ends there, and its outcome is that error. No side condition. *)
Theorem C17_fault_simulation : forall K f s env cb0 fuel name vars,
  es_lookup env K f = Some cb0 ->
  let E := es_event K f in
  let x := render_template fuel env name vars in
  let x' := render_template fuel (es_env_fail K f s env) name vars in
  (~ In E (snd x) /\ x' = x) \/
  (exists p q, ~ In E p /\ snd x = p ++ E :: q /\ x' = (Err (ESentinel s), p ++ [E])).
Proof. exact C17_fault_simulation_proof. Qed.

(* the k-th event of the fault-free run is the (first) invocation of a registered callback; with exactly that
   invocation failing with sentinel s the render returns the error of class sentinel s, its trace is the fault-free
   one up to and including event k, and what Render hands back is the empty string with the error *)
Theorem C17_faults_surface : forall env fuel name vars r t k K f cb0 s,
  render_template fuel env name vars = (r, t) ->
  es_first_at t k (es_event K f) ->
  es_lookup env K f = Some cb0 ->
  render_template fuel (env_fail_at t k s env) name vars = (Err (ESentinel s), firstn (S k) t) /\
  es_go_result (Err (ESentinel s)) = Some ([], Some (ESentinel s)).
Proof. exact C17_faults_surface_proof. Qed.

(* in any run of any environment: an invocation that fails is the last event of the trace and the outcome of the
   run is its error - nothing is evaluated after a failure, and no failure is turned into output *)
Theorem C17_failing_invocation_is_final : forall env fuel name vars r t,
  render_template fuel env name vars = (r, t) -> es_surfaces env r t.
Proof. exact C17_failing_invocation_is_final_proof. Qed.

(* ---------------------------------------------------------------- names that cannot be resolved *)
(* the callback invoked at event k of the run, NOT registered (and not a name the core answers to): the render
   fails with an error, at whatever position the name stands, and nothing is evaluated after the failed lookup *)
Theorem C17_unresolved_names_fail : forall env fuel name vars r t k K f cb0,
  render_template fuel env name vars = (r, t) ->
  es_first_at t k (es_event K f) ->
  es_lookup env K f = Some cb0 ->
  c17_not_core K f ->
  render_template fuel (es_env_without K f env) name vars = (Err EOther, firstn k t).
Proof. exact C17_unknown_callback_fails_proof. Qed.

(* at the place of the lookup *)
Theorem C17_unresolved_filter_function_test_local :
  (forall env c name v args,
     rc_sandboxed c && negb (ev_filter_allowed env name) = false ->
     assoc_bytes (e_filters env) name = None -> c17_not_core EsFilter name ->
     ev_apply_filter env c name v args = (Err EOther, [])) /\
  (forall env c name args,
     rc_sandboxed c && negb (ev_function_allowed env name) = false ->
     assoc_bytes (e_functions env) name = None -> c17_not_core EsFunction name -> rc_get_macro c name = None ->
     ev_call_function env c name args = (Err EOther, [])) /\
  (forall env name v args,
     assoc_bytes (e_tests env) name = None -> c17_not_core EsTest name ->
     ev_call_test env name v args = (Err EOther, [])).
Proof.
  split; [exact C17_unknown_filter_local|]. split; [exact C17_unknown_function_local|exact C17_unknown_test_local].
Qed.

(* macros: from ... import of a macro the template does not define; a call of a name that is neither a macro in
   scope nor a function *)
Theorem C17_unresolved_macro_fails :
  (forall ms names, (exists m alias, In (m, alias) names /\ assoc_bytes ms m = None) ->
     forall c, ev_from_names ms names c = Err EOther) /\
  (forall ev env c g args vs t,
     ev_sandbox_denies env c (ECall g args) = false -> rc_get_macro c g = None ->
     ev_list ev args = (Ok vs, t) ->
     rc_sandboxed c && negb (ev_function_allowed env g) = false ->
     assoc_bytes (e_functions env) g = None -> c17_not_core EsFunction g ->
     ev_expr ev env c (ECall g args) = (Err EOther, t)).
Proof. split; [exact C17_unknown_macro_from|exact C17_unknown_macro_call]. Qed.

(* ---------------------------------------------------------------- the tolerances, and nothing else *)
Theorem C17_tolerances_exact :
  (* an undefined variable is null and prints as the empty string *)
  (forall fu env c x, rc_get_macro c x = None -> rc_hack_name x = false ->
     assoc_bytes (rc_vars c) x = None -> rc_parent c = None ->
     eval (S fu) env c (EVar x) = (Ok VNull, [])) /\
  vo_to_str VNull = Some [] /\
  (* an attribute that is not there is null *)
  (forall a, vo_get_attr VNull a = Ok VNull) /\
  (forall kvs a, vo_map_find kvs (VStr a) = None -> vo_get_attr (VMap MAny kvs) a = Ok VNull) /\
  (* include ... ignore missing of a template no loader has renders nothing; without the option, and for every
     other tag that loads a template, and for the top-level call, a missing template is the error not-found *)
  (forall ev root env c e withs only sb name t, ev_load ev env c e = (Ok (name, None), t) ->
     ev_include ev root env c e withs true only sb = (Ok [], c, t) /\
     ev_include ev root env c e withs false only sb = (Err ENotFound, c, t)) /\
  (forall ev root env c e name t, ev_load ev env (rc_with_extending c true) e = (Ok (name, None), t) ->
     ev_extends ev root env c e = (Err ENotFound, rc_with_extending c true, t)) /\
  (forall ev root env c e name t, ev_load ev env c e = (Ok (name, None), t) ->
     (forall alias, ev_import ev root env c e alias = (Err ENotFound, c, t)) /\
     (forall names, ev_from ev root env c e names = (Err ENotFound, c, t))) /\
  (forall fuel env name vars, ts_lookup env name = None -> render_template fuel env name vars = (Err ENotFound, [TrLoad name])).
Proof. exact C17_tolerances_exact_proof. Qed.

(* ---------------------------------------------------------------- an error carries no output *)
Theorem C17_no_partial_output : forall fuel env name vars r t,
  render_template fuel env name vars = (r, t) ->
  (forall e, r = Err e -> es_go_result r = Some ([], Some e)) /\
  (forall out e, es_go_result r = Some (out, Some e) -> out = [] /\ r = Err e) /\
  (forall out, es_go_result r = Some (out, None) -> r = Ok out).
Proof. exact C17_no_partial_output_proof. Qed.

(* ---------------------------------------------------------------- structure by structure *)
(* node lists: nothing behind a failing node runs, and the output before it is dropped *)
Theorem C17_sequence_stops : forall e c t k, ev_rseq (Err e, c, t) k = (Err e, c, t).
Proof. exact C17_sequence_stops_proof. Qed.
Theorem C17_sequence_drops_output : forall o c t k e c2 t2,
  k c = (Err e, c2, t2) -> ev_rseq (Ok o, c, t) k = (Err e, c2, t ++ t2).
Proof. exact C17_sequence_drops_output_proof. Qed.

(* loops *)
Theorem C17_loop_iteration_fails : forall body k v n i it rest c e c1 t1,
  body (ev_iter_ctx c k v n i it) = (Err e, c1, t1) ->
  ev_loop_items body k v n i (it :: rest) c = (Err e, c1, t1).
Proof. exact C17_loop_iteration_fails_proof. Qed.
Theorem C17_loop_later_iteration_fails : forall body k v n i it rest c o c1 t1 e c2 t2,
  body (ev_iter_ctx c k v n i it) = (Ok o, c1, t1) ->
  ev_loop_items body k v n (i + 1) rest c1 = (Err e, c2, t2) ->
  ev_loop_items body k v n i (it :: rest) c = (Err e, c2, t1 ++ t2).
Proof. exact C17_loop_later_iteration_fails_proof. Qed.
Theorem C17_for_sequence_fails : forall ev rend env c k v seq body els e t,
  ev_for_seq ev env c seq = (Err e, t) -> ev_for ev rend env c k v seq body els = (Err e, c, t).
Proof. exact C17_for_sequence_fails_proof. Qed.

(* blocks, and parent() *)
Theorem C17_block_body_fails : forall rend c name body d ds e c' t,
  (if existsb (fun d0 => bytes_eqb (bd_tpl d0) (rc_tpl c)) (ev_chain_defs c name)
   then ev_chain_defs c name else ev_chain_defs c name ++ [MkBd (rc_tpl c) body]) = d :: ds ->
  rend (rc_with_current c (Some name) (d :: ds) 0 (bd_tpl d)) (bd_body d) = (Err e, c', t) ->
  ev_block rend c name body = (Err e, rc_with_current c' (rc_cur_block c) (rc_cur_defs c) (rc_depth c) (rc_tpl c), t).
Proof. exact C17_block_body_fails_proof. Qed.
Theorem C17_parent_call_fails : forall rend c b d e c' t,
  rc_cur_block c = Some b -> nth_error (rc_cur_defs c) (S (rc_depth c)) = Some d ->
  rend (rc_with_depth c (S (rc_depth c)) (bd_tpl d)) (bd_body d) = (Err e, c', t) ->
  ev_parent_call rend c = (Err e, rc_with_depth c' (S (rc_depth c) - 1) (rc_tpl c), t).
Proof. exact C17_parent_call_fails_proof. Qed.

(* includes: an error inside the included template is the error of the include, with and without ignore missing *)
Theorem C17_include_body_fails : forall ev root env c e ign name inodes t er c' t2,
  ev_load ev env c e = (Ok (name, Some inodes), t) ->
  root (MkRc (rc_vars (rc_clone c)) (rc_parent (rc_clone c)) (rc_macros (rc_clone c)) (rc_blocks (rc_clone c))
             (rc_parent_blocks (rc_clone c)) (rc_chain (rc_clone c)) (rc_extending (rc_clone c)) (rc_cur_block (rc_clone c))
             (rc_cur_defs (rc_clone c)) (rc_depth (rc_clone c)) (rc_in_parent_call (rc_clone c)) (rc_sandboxed (rc_clone c))
             (Some name) name) inodes = (Err er, c', t2) ->
  ev_include ev root env c e None ign false false = (Err er, c, t ++ t2).
Proof. exact C17_include_body_fails_proof. Qed.

(* inherited parents *)
Theorem C17_extends_parent_fails : forall ev root env c e name pnodes t er c' t2,
  let c1 := rc_with_extending c true in
  ev_load ev env c1 e = (Ok (name, Some pnodes), t) ->
  root (MkRc (rc_vars c1) (rc_parent c1) [] (rc_blocks c1) (ev_parent_blocks pnodes (rc_parent_blocks c1))
             (match rc_chain c1 with Some ((_ :: _) as ch) => Some ch | _ => None end)
             true None [] 0 false (rc_sandboxed c1) (Some name) name) pnodes = (Err er, c', t2) ->
  ev_extends ev root env c e = (Err er, c1, t ++ t2).
Proof. exact C17_extends_parent_fails_proof. Qed.

(* macros through every form of reaching them *)
Theorem C17_macro_default_fails : forall evc p de rest mc e t,
  evc de = (Err e, t) -> ev_bind_params evc ((p, Some de) :: rest) [] mc = (Err e, t).
Proof. exact C17_macro_default_fails_proof. Qed.
Theorem C17_macro_body_fails : forall ev rend env c tpl name args params body mc t1 e c' t2,
  ts_find_macro env tpl name = Some (params, body) ->
  existsb vo_has_callable args || negb (ev_macro_body_plain body) = false ->
  ev_bind_params (ev c) params args
    (rc_with_macros (rc_derive (rc_fresh [] tpl) (Some c) (rc_sandboxed c) (rc_last_loaded c)) (ts_sibling_macros env tpl)) = (Ok mc, t1) ->
  rend mc body = (Err e, c', t2) ->
  ev_call_macro ev rend env c tpl name args = (Err e, t1 ++ t2).
Proof. exact C17_macro_body_fails_proof. Qed.
Theorem C17_print_macro_call_fails : forall ev rend env c e v t tpl nm args er t2,
  ev c e = (Ok v, t) -> vo_view v = KCallable tpl nm args ->
  ev_call_macro ev rend env c tpl nm args = (Err er, t2) ->
  ev_print ev rend env c e = (Err er, c, t ++ t2).
Proof. exact C17_print_macro_call_fails_proof. Qed.
Theorem C17_macro_call_forms : forall ev env c g args vs t tpl nm,
  ev_list ev args = (Ok vs, t) ->
  (ev_sandbox_denies env c (ECall g args) = false -> rc_get_macro c g = Some (tpl, nm) ->
     ev_expr ev env c (ECall g args) = (Ok (VCallable tpl nm vs), t)) /\
  (forall m kvs tm, ev_sandbox_denies env c (EModCall m g args) = false ->
     ev m = (Ok (VMap MAny kvs), tm) -> vo_map_find kvs (VStr g) = Some (VMacro tpl nm) ->
     ev_expr ev env c (EModCall m g args) = (Ok (VCallable tpl nm vs), tm ++ t)).
Proof. exact C17_macro_call_forms_proof. Qed.

(* imported libraries: import ... as, from ... import *)
Theorem C17_import_body_fails : forall ev root env c e name inodes t er ic' t2,
  ev_load ev env c e = (Ok (name, Some inodes), t) ->
  root (rc_derive (rc_fresh [] name) None (rc_sandboxed c) (Some name)) inodes = (Err er, ic', t2) ->
  ev_import_macros ev root env c e = (Err er, c, t ++ t2) /\
  (forall alias, ev_import ev root env c e alias = (Err er, c, t ++ t2)) /\
  (forall names, ev_from ev root env c e names = (Err er, c, t ++ t2)).
Proof. exact C17_import_body_fails_proof. Qed.

(* apply, spaceless, x.y is defined *)
Theorem C17_apply_fails : forall ev rend env c g body,
  (forall e c1 t1, rend c body = (Err e, c1, t1) -> ev_apply ev rend env c g [] body = (Err e, c1, t1)) /\
  (forall content c1 t1 e t2, rend c body = (Ok content, c1, t1) ->
     ev_apply_filter env c1 g (VStr content) [] = (Err e, t2) ->
     ev_apply ev rend env c g [] body = (Err e, c1, t1 ++ t2)).
Proof. exact C17_apply_fails_proof. Qed.
Theorem C17_spaceless_filter_fails : forall rend env c body content c1 t1 e t2,
  rend c body = (Ok content, c1, t1) ->
  ev_apply_filter env c1 b#"spaceless" (VStr content) [] = (Err e, t2) ->
  ev_spaceless rend env c body = (Err e, c1, t1 ++ t2).
Proof. exact C17_spaceless_propagates_proof. Qed.
Theorem C17_defined_test_object_fails : forall (ev : expr -> ev_res) o a e t,
  ev o = (Err e, t) -> ev_defined_attr ev o a = (Err e, t).
Proof. exact C17_defined_attr_propagates_proof. Qed.

(* ---------------------------------------------------------------- classes and causes *)
(* the class ESentinel s of an outcome: errors.Is finds s in every error value of that class; cause-keeping
   wrappers (the verb w, EnhancedError.Unwrap, errors.Join) keep the class, a message-only layer loses it *)
Theorem C17_cause_reachable : forall (tree : er_tree) s, er_class tree = ESentinel s -> is_cause s tree = true.
Proof. exact C17_cause_reachable_proof. Qed.
Theorem C17_wrapping_keeps_cause : forall n s,
  er_class (er_wraps n (ErLeaf s)) = ESentinel s /\ is_cause s (er_wraps n (ErLeaf s)) = true.
Proof. exact C17_wrapping_keeps_cause_proof. Qed.
Theorem C17_message_only_loses_cause : forall n s, is_cause s (er_wraps n ErOpaque) = false.
Proof. exact C17_message_only_loses_cause_proof. Qed.

(* ---------------------------------------------------------------- non-vacuity *)
(* the two inputs on which the pinned tree violated the property, now: the failure of fn / of the spaceless filter
   is the outcome (before aee56e1 / 36660ef the engine and the model answered Ok AFB and Ok A<a> <b>B) *)
Example C17_ex_defined_test :
  snd (render_template 30 c17_w_defined_env b#"main" []) = [TrLoad b#"main"; TrFunction b#"fn"] /\
  render_template 30 (env_fail_at [TrLoad b#"main"; TrFunction b#"fn"] 1 7 c17_w_defined_env) b#"main" [] =
    (Err (ESentinel 7), [TrLoad b#"main"; TrFunction b#"fn"]).
Proof. split; vm_compute; reflexivity. Qed.

Example C17_ex_spaceless :
  snd (render_template 30 c17_w_spaceless_env b#"main" []) = [TrLoad b#"main"; TrFilter b#"spaceless"] /\
  render_template 30 (env_fail_at [TrLoad b#"main"; TrFilter b#"spaceless"] 1 7 c17_w_spaceless_env) b#"main" [] =
    (Err (ESentinel 7), [TrLoad b#"main"; TrFilter b#"spaceless"]).
Proof. split; vm_compute; reflexivity. Qed.

(* a fault in the third iteration position is not expressible by name; a fault at a site reached in a loop, in an
   included template, in a macro of an imported library, through the theorem: the premises are satisfiable and the
   conclusion is the computed run *)
Definition c17_ex_env : ev_env :=
  MkEnv [ (b#"lib", [NMacro b#"m" [(b#"a", Some (ECall b#"fn2" [ELit (LInt 9)]))] [NText b#"["; NPrint (EFilter (EVar b#"a") b#"sf" []); NText b#"]"]]);
          (b#"part", [NText b#"P"; NPrint (ECall b#"fn1" [EVar b#"i"])]);
          (b#"main", [NImport (ELit (LStr b#"lib")) b#"L"; NText b#"x";
                      NFor None b#"i" (EArr [ELit (LInt 1); ELit (LInt 2)]) [NInclude (ELit (LStr b#"part")) None true false false] None;
                      NPrint (EModCall (EVar b#"L") b#"m" [])]) ]
        [(b#"sf", CbId)] [(b#"fn1", CbId); (b#"fn2", CbId)] [] None.

Example C17_ex_trace :
  render_template 40 c17_ex_env b#"main" [] =
    (Ok b#"xP1P2[9]",
     [TrLoad b#"main"; TrLoad b#"lib"; TrLoad b#"part"; TrFunction b#"fn1"; TrLoad b#"part"; TrFunction b#"fn1";
      TrFunction b#"fn2"; TrFilter b#"sf"]).
Proof. vm_compute. reflexivity. Qed.

(* inside an include with ignore missing, inside a loop: event 3 *)
Example C17_ex_fault_in_included_template :
  render_template 40 (env_fail_at (snd (render_template 40 c17_ex_env b#"main" [])) 3 5 c17_ex_env) b#"main" [] =
    (Err (ESentinel 5), [TrLoad b#"main"; TrLoad b#"lib"; TrLoad b#"part"; TrFunction b#"fn1"]).
Proof.
  refine (proj1 (C17_faults_surface c17_ex_env 40 b#"main" [] _ _ 3 EsFunction b#"fn1" CbId 5 _ _ _)).
  - vm_compute. reflexivity.
  - split; [reflexivity|]. vm_compute. intros [H|[H|[H|[]]]]; discriminate.
  - reflexivity.
Qed.

(* the default of a parameter of an imported macro: event 6; the filter in its body: event 7 *)
Example C17_ex_fault_in_macro_default :
  render_template 40 (env_fail_at (snd (render_template 40 c17_ex_env b#"main" [])) 6 5 c17_ex_env) b#"main" [] =
    (Err (ESentinel 5), firstn 7 (snd (render_template 40 c17_ex_env b#"main" []))).
Proof.
  refine (proj1 (C17_faults_surface c17_ex_env 40 b#"main" [] _ _ 6 EsFunction b#"fn2" CbId 5 _ _ _)).
  - vm_compute. reflexivity.
  - split; [reflexivity|]. vm_compute. intros [H|[H|[H|[H|[H|[H|[]]]]]]]; discriminate.
  - reflexivity.
Qed.

(* the same site with the filter not registered *)
Example C17_ex_unknown_filter :
  render_template 40 (es_env_without EsFilter b#"sf" c17_ex_env) b#"main" [] =
    (Err EOther, firstn 7 (snd (render_template 40 c17_ex_env b#"main" []))).
Proof.
  refine (C17_unresolved_names_fail c17_ex_env 40 b#"main" [] _ _ 7 EsFilter b#"sf" CbId _ _ _ _).
  - vm_compute. reflexivity.
  - split; [reflexivity|]. vm_compute. intros [H|[H|[H|[H|[H|[H|[H|[]]]]]]]]; discriminate.
  - reflexivity.
  - split; reflexivity.
Qed.

Print Assumptions C17_fault_simulation.
Print Assumptions C17_faults_surface.
Print Assumptions C17_failing_invocation_is_final.
Print Assumptions C17_unresolved_names_fail.
Print Assumptions C17_unresolved_filter_function_test_local.
Print Assumptions C17_unresolved_macro_fails.
Print Assumptions C17_tolerances_exact.
Print Assumptions C17_no_partial_output.
Print Assumptions C17_sequence_stops.
Print Assumptions C17_sequence_drops_output.
Print Assumptions C17_loop_iteration_fails.
Print Assumptions C17_loop_later_iteration_fails.
Print Assumptions C17_for_sequence_fails.
Print Assumptions C17_block_body_fails.
Print Assumptions C17_parent_call_fails.
Print Assumptions C17_include_body_fails.
Print Assumptions C17_extends_parent_fails.
Print Assumptions C17_macro_default_fails.
Print Assumptions C17_macro_body_fails.
Print Assumptions C17_print_macro_call_fails.
Print Assumptions C17_macro_call_forms.
Print Assumptions C17_import_body_fails.
Print Assumptions C17_apply_fails.
Print Assumptions C17_spaceless_filter_fails.
Print Assumptions C17_defined_test_object_fails.
Print Assumptions C17_cause_reachable.
Print Assumptions C17_wrapping_keeps_cause.
Print Assumptions C17_message_only_loses_cause.
