(* C18 -- A render does not modify the context map it is given nor any map, slice or struct reachable from it.
   Statements only; the model is Model/Heap.v, the proofs are in Proofs/HeapProofs.v.

   render_heap fuel templates name root h : the render of template name with the context map stored at location root of
   the heap h of the caller; it returns the output and the heap of the caller after the render. Objects the render
   allocates live in a separate fresh region (hs_new) that the caller cannot reach. The model writes through hp_put to
   whatever location a value names -- a filter that worked in place, or a SetVariable on the map of the caller, would
   change h (C18_frame_is_falsifiable, C18_slice_private_copy_refuted show such writes in this very model). *)
From Twig Require Import Base.Bytes Model.Ast Model.Value Gen.FilterWrites Model.Heap Proofs.HeapProofs.

(* Every object that existed before the render is unchanged after it: for every template set, context and heap.
   Invariant of the proof: every write targets an object allocated during this render (the variable maps of the
   contexts, the loop maps, the copies that filters fill). *)
Theorem C18_frame : forall fu tpls name root h out h',
  render_heap fu tpls name root h = Ok (out, h') ->
  h' = h /\ forall l, nth_error h' l = nth_error h l.
Proof. exact C18_frame_proof. Qed.

(* The same whatever the callbacks registered by the caller are, provided they write only to what they allocate, and
   whether slice returns a window or a copy. *)
Theorem C18_frame_with_callbacks : forall window user, hp_user_pres user ->
  forall fu tpls name root h out h', hp_render_with window user fu tpls name root h = Ok (out, h') -> h' = h.
Proof. exact C18_frame_with_callbacks_proof. Qed.

(* Expressions (filters, functions, attribute and item access, literals) write to nothing that exists, neither in the heap
   of the caller nor among the objects this render allocated earlier: only set, for, include and macro calls write at all. *)
Theorem C18_expressions_do_not_write : forall window user, hp_user_pres user ->
  forall fu rc e st v st', hp_eval window user fu rc e st = Ok (v, st') ->
  hs_old st' = hs_old st /\ forall l o, hp_get st l = Some o -> hp_get st' l = Some o.
Proof. exact C18_expressions_do_not_write_proof. Qed.

(* Per filter (every name of the fragment, every input, every argument list): no object that exists is written; the
   input and every argument, seen as deep trees, are the same before and after. *)
Theorem C18_filters_do_not_write_inputs : forall window name v args st r st',
  hp_apply_filter window name v args st = Ok (r, st') ->
  hs_old st' = hs_old st /\
  (forall l o, hp_get st l = Some o -> hp_get st' l = Some o) /\
  (forall fu x, hp_snap fu st v = Some x -> hp_snap fu st' v = Some x) /\
  (forall fu a x, In a args -> hp_snap fu st a = Some x -> hp_snap fu st' a = Some x).
Proof. exact C18_filters_do_not_write_inputs_proof. Qed.

(* A value obtained from one filter is not changed by applying another filter to it or to the same input. *)
Theorem C18_second_filter_preserves_first_result : forall window f a g b v st r st1 r2 st2,
  hp_apply_filter window f v a st = Ok (r, st1) ->
  (hp_apply_filter window g r b st1 = Ok (r2, st2) \/ hp_apply_filter window g v b st1 = Ok (r2, st2)) ->
  (forall l o, hp_get st1 l = Some o -> hp_get st2 l = Some o) /\
  (forall fu x, hp_snap fu st1 r = Some x -> hp_snap fu st2 r = Some x) /\
  (forall fu x, hp_snap fu st1 v = Some x -> hp_snap fu st2 v = Some x) /\
  hs_old st2 = hs_old st.
Proof. exact C18_second_filter_preserves_first_result_proof. Qed.

(* Two renders that share context data, one after the other: the second render on the heap the first one left behaves as on
   the heap as it was before the first one (which is what a pristine deep copy taken beforehand holds) -- same output, same
   error, same heap afterwards. *)
Theorem C18_two_renders_independent : forall fu1 tpls1 name1 fu2 tpls2 name2 root h out1 h1,
  render_heap fu1 tpls1 name1 root h = Ok (out1, h1) ->
  render_heap fu2 tpls2 name2 root h1 = render_heap fu2 tpls2 name2 root h.
Proof. exact C18_two_renders_independent_proof. Qed.

(* The aliasing class of every filter: which results are fresh objects, which are the input itself, which are windows
   of the array of the input, which are elements of the input. The correspondence check observes the same classes on the
   engine by pointer identity and by writing through the result. *)
Theorem C18_alias_classes : hp_alias_classes_stmt.
Proof. exact C18_alias_classes_proof. Qed.

(* Tie to the source text, regenerated from the working tree on every run (Gen/FilterWrites.v): every statement of
   extension.go, render.go, render_filter.go, node.go that writes through a variable derived from a template value without an
   intervening copy is in the hand-justified list; the functions the model speaks about were scanned; NewRenderContext copies its
   map argument and never stores it; SetVariable writes to ctx.context; Clone gives the child a map of its own. *)
Theorem C18_code_shape : hp_fw_obligation = true.
Proof. exact C18_code_shape_proof. Qed.

(* One sentence of the property does not hold of the engine as it is: slice does not work on a private copy when its input
   is a []interface{}. It returns v[start:end], a window of the array of the caller whose capacity runs to the end of that
   array. No built-in filter or node writes through it (C18_frame), but a registered function that modifies its argument
   -- harmless on the result of sort, reverse or merge, see C18_sort_private_copy_witness -- modifies the data of the
   caller: here element 0, and element 2 through an append to the two-element result. *)
Theorem C18_slice_private_copy_refuted :
  fw_slice_window = true ->
  exists h', render_heap_poke 20 (hp_w_tpl b#"slice" [ELit (LInt 0); ELit (LInt 2)]) b#"main" 1 hp_w_heap = Ok ([], h') /\
             nth_error h' 0 = Some (HoArr [hp_poke_mark; HvInt 1; hp_poke_mark; HvNull; HvNull]) /\ h' <> hp_w_heap.
Proof. exact C18_slice_private_copy_refuted_proof. Qed.

Theorem C18_sort_private_copy_witness :
  render_heap_poke 20 (hp_w_tpl b#"sort" []) b#"main" 1 hp_w_heap = Ok ([], hp_w_heap) /\
  render_heap_poke 20 (hp_w_tpl b#"reverse" []) b#"main" 1 hp_w_heap = Ok ([], hp_w_heap) /\
  render_heap_poke 20 (hp_w_tpl b#"merge" [EArr [ELit (LInt 7)]]) b#"main" 1 hp_w_heap = Ok ([], hp_w_heap).
Proof. exact C18_sort_private_copy_witness_proof. Qed.

(* non-vacuity of the frame statement: with a sort that works in place the heap of the caller changes *)
Theorem C18_frame_is_falsifiable :
  exists out h', hp_render_with true hp_user_mutant 20
                   [(b#"main", [NPrint (EFilter (ECall b#"sort_in_place" [EVar b#"xs"]) b#"join" [ELit (LStr b#",")])])] b#"main" 1 hp_w_heap
                 = Ok (out, h') /\ out = b#"1,2,3" /\ h' <> hp_w_heap.
Proof. exact C18_frame_is_falsifiable_proof. Qed.

(* non-vacuity: a template with every writing node -- set shadowing a context key, a loop over a filtered list with the loop
   map, a nested loop, include with variables, a macro that reassigns its argument, filters applied twice -- renders, and
   the heap of the caller comes back as it was *)
Example C18_example_render :
  render_heap 60
    [ (b#"main",
       [ NMacro b#"m" [(b#"z", None)] [NSet b#"z" (EFilter (EVar b#"z") b#"merge" [EArr [ELit (LInt 9)]]); NPrint (EFilter (EVar b#"z") b#"join" [ELit (LStr b#",")])];
         NSet b#"s" (EFilter (EVar b#"xs") b#"slice" [ELit (LInt 0); ELit (LInt 2)]);
         NPrint (EFilter (EFilter (EVar b#"xs") b#"sort" []) b#"join" [ELit (LStr b#",")]);
         NText b#"|";
         NFor None b#"x" (EFilter (EVar b#"xs") b#"reverse" [])
           [NPrint (EAttr (EVar b#"loop") b#"index"); NPrint (EVar b#"x");
            NFor None b#"y" (EVar b#"s") [NPrint (EAttr (EVar b#"loop") b#"index")] None; NSet b#"xs" (EVar b#"x")] None;
         NText b#"|"; NPrint (EVar b#"xs"); NText b#"|";
         NInclude (ELit (LStr b#"inc")) (Some (EHash [(ELit (LStr b#"xs"), EFilter (EVar b#"s") b#"sort" [])])) false false false;
         NText b#"|"; NPrint (ECall b#"m" [EVar b#"s"]); NText b#"|";
         NPrint (EFilter (EVar b#"s") b#"join" [ELit (LStr b#",")]) ]);
      (b#"inc", [NPrint (EFilter (EVar b#"xs") b#"join" [ELit (LStr b#"-")]); NSet b#"xs" (ELit (LInt 0))]) ]
    b#"main" 1 hp_w_heap
  = Ok (b#"1,2,3|121221123312|3|1-3|3,1,9|3,1", hp_w_heap).
Proof. vm_compute. reflexivity. Qed.

Print Assumptions C18_frame.
Print Assumptions C18_frame_with_callbacks.
Print Assumptions C18_expressions_do_not_write.
Print Assumptions C18_filters_do_not_write_inputs.
Print Assumptions C18_second_filter_preserves_first_result.
Print Assumptions C18_two_renders_independent.
Print Assumptions C18_alias_classes.
Print Assumptions C18_code_shape.
Print Assumptions C18_slice_private_copy_refuted.
Print Assumptions C18_sort_private_copy_witness.
Print Assumptions C18_frame_is_falsifiable.
