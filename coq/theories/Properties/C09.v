(* C09 -- if, for and set have their defined control-flow meaning.
   Statements only; proofs live in Proofs/EvalProofs.v. The operational side is the evaluator model Model/Eval.v
   (render, render_node, eval: a mirror of node.go / render.go), the declarative side Spec/ControlSpec.v
   (c9_truthy, c9_if, c9_items, c9_counters, c9_loop, c9_for, c9_set, c9_render).
   Every statement is for all programs, contexts, environments, values and fuel; OutOfFuel is not excluded
   anywhere: the equalities hold outcome by outcome. *)
From Twig Require Import Base.Bytes Base.Utf8 Model.Ast Model.Value Model.ValueOps Model.EvalBuiltins Model.Ctx
                         Model.TemplateSet Model.Eval Spec.ControlSpec Proofs.EvalProofs Proofs.LoopThreading Proofs.EvalShapeProofs Gen.EvalShape.
From Twig Require Import Base.Kernel Gen.KernelsLoop Gen.KernelsRange Proofs.KernelLoop Proofs.KernelRangeModel.

(* ---------------------------------------------------------------- refinement *)
(* the renderer IS the control specification (with the engine's own truthiness function) on every node list *)
Theorem C09_refines_spec : forall fuel env c ns,
  render fuel env c ns = c9_render vo_to_bool fuel env c ns.
Proof. exact C09_refines_spec_proof. Qed.

Theorem C09_refines_spec_template : forall fuel env name vars,
  render_template fuel env name vars = c9_render_template vo_to_bool fuel env name vars.
Proof. exact C09_refines_spec_template_proof. Qed.

(* with a toBool that compares a float64 by value, the renderer is the specification under the property's
   own table; the correspondence check uses c9_render_template c9_truthy as the reference *)
Theorem C09_refines_table_spec :
  evs_tobool_float_by_value = true ->
  forall fuel env name vars, render_template fuel env name vars = c9_render_template c9_truthy fuel env name vars.
Proof. exact C09_refines_table_spec_proof. Qed.

(* ---------------------------------------------------------------- truthiness *)
(* over the whole value universe the engine's toBool is the table, except possibly on a float64 zero *)
Theorem C09_truthiness_except_float_zero : forall v, c9_float_zero v = false -> vo_to_bool v = c9_truthy v.
Proof. exact C09_truthiness_except_float_zero_proof. Qed.

(* and on a float64 zero: the full table when toBool compares floats by value, the refutation otherwise
   (the flag is regenerated from render.go on every run: Gen/EvalShape.v) *)
Theorem C09_truthiness_table :
  if evs_tobool_float_by_value
  then forall v, vo_to_bool v = c9_truthy v
  else vo_to_bool (VFloat 0) = true /\ c9_truthy (VFloat 0) = false.
Proof. exact C09_truthiness_table_proof. Qed.

(* the rows of the table *)
Theorem C09_falsy_values :
  c9_truthy VNull = false /\ c9_truthy (VBool false) = false /\ c9_truthy (VInt 0) = false /\
  c9_truthy (VFloat 0) = false /\ c9_truthy (VStr []) = false /\
  (forall t, c9_truthy (VList t []) = false) /\ (forall t, c9_truthy (VMap t []) = false).
Proof. exact C09_falsy_values_proof. Qed.

Theorem C09_truthy_values : forall v,
  v <> VNull -> v <> VBool false -> v <> VInt 0 -> c9_as_float v <> Some 0%Z -> v <> VStr [] ->
  (forall t, v <> VList t []) -> (forall t, v <> VMap t []) -> c9_truthy v = true.
Proof. exact C09_truthy_values_proof. Qed.

(* ---------------------------------------------------------------- if *)
(* the conditions before the first truthy one evaluate to falsy values: exactly that branch is rendered, in the
   same context; the trace is the traces of the conditions up to it followed by the body's: conditions behind it
   are not evaluated *)
Theorem C09_if_first_truthy : forall fu env c pre cond body post els vts v t,
  c9_falsy_prefix vo_to_bool (eval fu env) c pre vts ->
  eval fu env c cond = (Ok v, t) -> vo_to_bool v = true ->
  render_node (eval fu env) (render fu env) (render_root fu env) env c (NIf (pre ++ (cond, body) :: post) els)
  = c9_add_trace (concat (map snd vts) ++ t) (render fu env c body).
Proof. exact C09_if_first_truthy_proof. Qed.

(* all conditions falsy: the else branch, otherwise nothing *)
Theorem C09_if_all_falsy : forall fu env c bs els vts,
  c9_falsy_prefix vo_to_bool (eval fu env) c bs vts ->
  render_node (eval fu env) (render fu env) (render_root fu env) env c (NIf bs els)
  = c9_add_trace (concat (map snd vts))
                 (match els with Some b => render fu env c b | None => ev_rret [] c end).
Proof. exact C09_if_all_falsy_proof. Qed.

(* a condition that fails ends the chain with its error: no branch is rendered *)
Theorem C09_if_condition_fails : forall fu env c pre cond body post els vts o t,
  c9_falsy_prefix vo_to_bool (eval fu env) c pre vts ->
  eval fu env c cond = (o, t) -> (forall v, o <> Ok v) ->
  render_node (eval fu env) (render fu env) (render_root fu env) env c (NIf (pre ++ (cond, body) :: post) els)
  = (ev_cast o Unmodelled, c, concat (map snd vts) ++ t).
Proof. exact C09_if_condition_fails_proof. Qed.

(* ---------------------------------------------------------------- for *)
(* the imperative loop of renderForLoop (one shared context, loop record rewritten per iteration, restored
   afterwards) is the fold of the specification, for every sequence value *)
Theorem C09_for_refines_spec : forall ev rend root env c k v seq body els,
  render_node ev rend root env c (NFor k v seq body els) = c9_for ev rend env c k v seq body els.
Proof. exact C09_for_refines_spec_proof. Qed.

Theorem C09_for_over_value : forall ev rend root env c k v seq body els sv t0,
  ev_for_seq ev env c seq = (Ok sv, t0) ->
  render_node ev rend root env c (NFor k v seq body els) =
  c9_add_trace t0
    (match c9_items sv with
     | [] => match els with Some b => rend c b | None => ev_rret [] c end
     | items => let '(r, c', t) := c9_loop (fun c0 => rend c0 body) k v items c in (r, c9_restore c c', t)
     end).
Proof. exact C09_for_over_value_proof. Qed.

(* what is iterated: list elements in order with their index, code points of a string in order with their
   index (an invalid byte is one element reading U+FFFD), the numbers of a range *)
Theorem C09_for_sequences :
  (forall t xs, c9_items (VList t xs) = c9_numbered xs) /\
  (forall s, c9_items (VStr s) = c9_numbered (map VStr (u8_chars s))) /\
  (forall a b s, c9_items (VList LAny (map VInt (c9_range a b s))) = c9_numbered (map VInt (c9_range a b s))) /\
  (forall A (items : list A) start j it, nth_error items j = Some it ->
     nth_error (combine (c9_zseq start (length items)) items) j = Some ((start + Z.of_nat j)%Z, it)).
Proof. exact C09_for_sequences_proof. Qed.

(* number of iterations *)
Theorem C09_items_length : forall sv,
  length (c9_items sv) =
  match sv with
  | VList _ xs => length xs
  | VStr s => u8_count s
  | VMap _ kvs => length kvs
  | _ => 0
  end.
Proof. exact C09_items_length_proof. Qed.

(* ---------------------------------------------------------------- counters *)
Theorem C09_counters : forall i n,
  vo_get_attr (c9_counters i n) b#"index" = Ok (VInt (i + 1)) /\
  vo_get_attr (c9_counters i n) b#"index0" = Ok (VInt i) /\
  vo_get_attr (c9_counters i n) b#"revindex" = Ok (VInt (n - i)) /\
  vo_get_attr (c9_counters i n) b#"revindex0" = Ok (VInt (n - i - 1)) /\
  vo_get_attr (c9_counters i n) b#"first" = Ok (VBool (i =? 0)%Z) /\
  vo_get_attr (c9_counters i n) b#"last" = Ok (VBool (i =? n - 1)%Z) /\
  vo_get_attr (c9_counters i n) b#"length" = Ok (VInt n).
Proof. exact C09_counters_proof. Qed.

(* what the body of iteration i of n over item (key, value) sees: loop, the value variable, the key variable,
   and every other variable as the previous iteration (or the code before the loop) left it *)
Theorem C09_iteration_bindings : forall c k v n i it,
  rc_get_var (c9_iter_ctx c k v n i it) b#"loop" = c9_counters i n /\
  (v <> b#"loop" -> k <> Some v -> rc_get_var (c9_iter_ctx c k v n i it) v = snd it) /\
  (forall kv, k = Some kv -> kv <> b#"loop" -> rc_get_var (c9_iter_ctx c k v n i it) kv = fst it) /\
  (forall y, y <> b#"loop" -> y <> v -> k <> Some y -> rc_get_var (c9_iter_ctx c k v n i it) y = rc_get_var c y).
Proof. exact C09_iteration_bindings_proof. Qed.

(* end to end through the whole evaluator: a loop over ANY list of n >= 1 elements whose body is
   loop.index followed by a comma renders 1,2,...,n, (with any key and value variable, in any context in
   which loop is not the name of a macro, for every fuel from 4 on) *)
Theorem C09_counters_rendered : forall fu env c k v t xs,
  rc_get_macro c b#"loop" = None -> xs <> [] ->
  exists c', ev_for_loop (render (S (S (S (S fu)))) env) c k v (VList t xs) c9_index_probe None =
             (Ok (concat (map (fun j => vo_itoa (j + 1) ++ b#",") (c9_zseq 0 (length xs)))), c', []).
Proof. exact C09_counters_rendered_proof. Qed.

(* ---------------------------------------------------------------- nesting *)
(* a loop that iterated leaves the loop variable of the enclosing loop as it found it *)
Theorem C09_nested_loops_independent : forall rend c k v sv body els r c' t L,
  rc_own_var c b#"loop" = Some L -> c9_items sv <> [] ->
  ev_for_loop rend c k v sv body els = (r, c', t) ->
  rc_own_var c' b#"loop" = Some L /\ rc_get_var c' b#"loop" = L.
Proof. exact C09_nested_loops_independent_proof. Qed.

(* a for tag rendered inside iteration i of n of an enclosing loop: afterwards loop is the enclosing loop's again *)
Theorem C09_nested_for_node : forall ev rend root env c0 ko vo n i it k v seq body els sv t0 r c' t,
  let c := c9_iter_ctx c0 ko vo n i it in
  ev_for_seq ev env c seq = (Ok sv, t0) -> c9_items sv <> [] ->
  render_node ev rend root env c (NFor k v seq body els) = (r, c', t) ->
  rc_get_var c' b#"loop" = c9_counters i n.
Proof. exact C09_nested_for_node_proof. Qed.

(* ---------------------------------------------------------------- else *)
Theorem C09_else_iff_empty : forall rend c k v sv body els,
  (c9_items sv = [] ->
     ev_for_loop rend c k v sv body els = match els with Some b => rend c b | None => ev_rret [] c end) /\
  (c9_items sv <> [] ->
     ev_for_loop rend c k v sv body els =
     (let '(r, c', t) := c9_loop (fun c0 => rend c0 body) k v (c9_items sv) c in (r, c9_restore c c', t))).
Proof. exact C09_else_iff_empty_proof. Qed.

(* nothing to iterate: an empty list, the empty string, an empty map, and every value that is none of the three *)
Theorem C09_nothing_to_iterate : forall sv,
  c9_items sv = [] <->
  match sv with
  | VList _ xs => xs = []
  | VStr s => s = []
  | VMap _ kvs => kvs = []
  | _ => True
  end.
Proof. exact C09_items_empty_iff_proof. Qed.

(* ---------------------------------------------------------------- range *)
(* any start and end, any step but 0: the registered function yields exactly c9_range; step 0 is an error *)
Theorem C09_range_elements : forall a b s,
  vo_in_range a = true -> vo_in_range b = true -> vo_in_range s = true -> (Z.abs (b - a) <= bi_range_limit)%Z ->
  (s <> 0%Z -> apply_builtin_function b#"range" [VInt a; VInt b; VInt s] = Ok (VList LAny (map VInt (c9_range a b s)))) /\
  (s = 0%Z -> apply_builtin_function b#"range" [VInt a; VInt b; VInt s] = Err EOther) /\
  apply_builtin_function b#"range" [VInt a; VInt b] = Ok (VList LAny (map VInt (c9_range a b 1))).
Proof. exact C09_range_elements_proof. Qed.

Theorem C09_range_membership : forall a b s x, s <> 0%Z ->
  (In x (c9_range a b s) <->
   exists k, (0 <= k)%Z /\ x = (a + k * s)%Z /\ (if (0 <? s)%Z then (x <= b)%Z else (b <= x)%Z)).
Proof. exact c9_range_In_proof. Qed.

(* ---------------------------------------------------------------- set *)
(* the nodes after a set are rendered in the context that holds the assigned value; nothing else changes *)
Theorem C09_set_visible_after : forall fu env c x e rest v t,
  eval fu env c e = (Ok v, t) -> ev_set_guard c v = false ->
  render (S fu) env c (NSet x e :: rest) = c9_add_trace t (render fu env (rc_set_var c x v) rest) /\
  rc_get_var (rc_set_var c x v) x = v /\
  (forall y, x <> y -> rc_get_var (rc_set_var c x v) y = rc_get_var c y).
Proof. exact C09_set_visible_after_proof. Qed.

(* a set is visible to later iterations: the loop of the specification unfolded from the left. The first iteration
   runs with its own bindings in the loop's context; what follows starts from the context that iteration ended with
   (c9_prepend puts its output and trace in front), and the bindings of the next iteration leave every name that is not
   the loop's own as that iteration left it. A failed iteration ends the loop with its outcome. *)
Theorem C09_loop_threads_context : forall body k v n i it rest c,
  c9_loop_from body k v n i (it :: rest) c =
  match body (c9_iter_ctx c k v n i it) with
  | (Ok o1, c1, t1) => c9_prepend o1 t1 (c9_loop_from body k v n (i + 1) rest c1)
  | other => other
  end.
Proof. exact C09_loop_threads_context_proof. Qed.

Theorem C09_loop_unfold : forall body k v it rest c,
  c9_loop body k v (it :: rest) c =
  match body (c9_iter_ctx c k v (Z.of_nat (S (length rest))) 0 it) with
  | (Ok o1, c1, t1) => c9_prepend o1 t1 (c9_loop_from body k v (Z.of_nat (S (length rest))) 1 rest c1)
  | other => other
  end.
Proof. exact C09_loop_unfold_proof. Qed.

Theorem C09_set_visible_next_iteration : forall body k v n i it it' rest c o1 c1 t1 x,
  body (c9_iter_ctx c k v n i it) = (Ok o1, c1, t1) ->
  x <> b#"loop" -> x <> v -> k <> Some x ->
  c9_loop_from body k v n i (it :: it' :: rest) c =
    c9_prepend o1 t1 (c9_loop_from body k v n (i + 1) (it' :: rest) c1) /\
  rc_get_var (c9_iter_ctx c1 k v n (i + 1) it') x = rc_get_var c1 x.
Proof. exact C09_set_visible_next_iteration_proof. Qed.

(* non-vacuity, through the whole evaluator: a separator flag, false at the top, read by a bare condition at the start of
   the loop body and set to true at its end, separates the second and third element (the template of the seeded change
   this statement answers) *)
Example C09_example_flag_in_loop :
  render_template 40
    (MkEnv [(b#"t", [NSet b#"sep" (ELit (LBool false));
                     NFor None b#"x" (EArr [ELit (LStr b#"a"); ELit (LStr b#"b"); ELit (LStr b#"c")])
                       [NIf [(EVar b#"sep", [NText b#", "])] None; NPrint (EVar b#"x"); NSet b#"sep" (ELit (LBool true))] None])]
           [] [] [] None) b#"t" []
  = (Ok b#"a, b, c", [TrLoad b#"t"]).
Proof. vm_compute. reflexivity. Qed.

(* ---------------------------------------------------------------- tie to the code *)
(* the shapes the model mirrors are in node.go / render.go now: toBool's nil guard and type switch, the saved and
   deferred loop variable, []rune for strings, sortedMapKeys for maps (regenerated on every run) *)
Theorem C09_code_shape : evs_shape_ok = true.
Proof. exact C09_code_shape_proof. Qed.

(* ---------------------------------------------------------------- non-vacuity *)
(* nested loops with counters at both depths, a set carried across iterations and read after the loop, else branches *)
Example C09_example_nested :
  c09_out [ NSet b#"acc" (ELit (LInt 0));
            NFor None b#"x" (EVar b#"xs")
              [ NPrint (EAttr (EVar b#"loop") b#"index");
                NFor (Some b#"k") b#"c" (EVar b#"x") [ NPrint (EVar b#"k"); NPrint (EVar b#"c");
                                                       NSet b#"acc" (EVar b#"c") ]
                     (Some [ NText b#"-" ]);
                NPrint (EAttr (EVar b#"loop") b#"revindex"); NText b#";" ] None;
            NPrint (EVar b#"acc") ]
          [ (b#"xs", VList LAny [ VStr [x68; xc3; xa9]; VStr []; VInt 5 ]) ]
  = Ok (b#"10h1" ++ [xc3; xa9] ++ b#"3;2-2;3-1;" ++ [xc3; xa9]).
Proof. vm_compute. reflexivity. Qed.

(* the first truthy branch of a chain; a range with a negative step crossing zero *)
Example C09_example_if_range :
  c09_out [ NIf [ (EVar b#"u", [NText b#"A"]); (ELit (LStr []), [NText b#"B"]); (ELit (LInt 7), [NText b#"C"]);
                  (ELit (LBool true), [NText b#"D"]) ] (Some [NText b#"E"]);
            NFor None b#"i" (ECall b#"range" [ELit (LInt 2); EUn UNeg (ELit (LInt 2)); EUn UNeg (ELit (LInt 2))])
                 [ NPrint (EVar b#"i"); NText b#"," ] None ] []
  = Ok b#"C2,0,-2,".
Proof. vm_compute. reflexivity. Qed.

(* the finding: a computed zero is a float64 and the engine's toBool calls it true *)
Example C09_example_float_zero :
  c09_out [ NIf [ (EBin BSub (ELit (LInt 1)) (ELit (LInt 1)), [NText b#"T"]) ] (Some [NText b#"F"]) ] []
  = Ok (if evs_tobool_float_by_value then b#"F" else b#"T").
Proof. vm_compute. reflexivity. Qed.


(* ---------------------------------------------------------------- the counters and the range of the code itself *)
(* Gen/KernelsLoop.v: the assignments to the loop map in every loop of renderForLoop, translated statement by
   statement from the working tree. Each of them writes exactly the record ev_loop_record of the model (which
   C09_counters is about), in unbounded integers and, for 0 <= i < n < 2^63, on the 64-bit machine. *)
Theorem C09_loop_counters_code : k_loop_counters_list <> [] /\ Forall kloop_good k_loop_counters_list.
Proof. exact k_loop_counters_all_good. Qed.

Theorem C09_loop_counters_on_machine :
  Forall (fun q => let '(f, sf, ir, env) := q in
                   forall i n, (0 <= i < n)%Z -> (n < 2^63)%Z -> krun w64 (env i n) ir = kloop_spec i n) k_loop_counters_list.
Proof.
  eapply Forall_impl; [|exact (proj2 k_loop_counters_all_good)]. intros q Hq. exact (kloop_good_machine q Hq).
Qed.

(* Gen/KernelsRange.v: functionRange computes the number of items first and then stores start + k * step at position
   k. For all int64 arguments that is the list the loop of the model (bi_range_loop, which C09_range_elements is
   about) produces, and every stored item is computed exactly although k * step alone may wrap around. *)
Theorem C09_range_code_is_model_loop : forall (start stop step : Z) (fuel : nat),
  in64 start = true -> in64 stop = true -> in64 step = true -> step <> 0%Z ->
  (Z.abs (stop - start) < Z.of_nat fuel)%Z ->
  match k_range_count start stop step with
  | KRet tag [] => bytes_eqb tag b#"empty" = true -> bi_range_loop fuel start stop step = []
  | KRet tag [KZ c] => bytes_eqb tag b#"items" = true -> bi_range_loop fuel start stop step = krange_items start step c
  | _ => True
  end.
Proof. exact k_range_is_model_loop. Qed.

Theorem C09_range_count_is_spec : forall start stop step : Z,
  in64 start = true -> in64 stop = true -> in64 step = true ->
  k_range_count start stop step = krange_spec start stop step.
Proof. exact k_range_count_model. Qed.

Theorem C09_range_item_on_machine : forall start stop step c k : Z,
  in64 start = true -> in64 stop = true -> in64 step = true ->
  k_range_count start stop step = KRet b#"items" [KZ c] -> (0 <= k < c)%Z ->
  krun w64 (k_range_item_env start step k) k_range_item_ir = KRet b#"item" [KZ (start + k * step)%Z].
Proof. exact k_range_item_machine. Qed.

(* not vacuous: range(10, 1, -4) has 3 items; iteration 1 of 3 *)
Example C09_range_code_example : k_range_count 10 1 (-4) = KRet b#"items" [KZ 3%Z] /\ krange_items 10 (-4) 3 = [10; 6; 2]%Z.
Proof. split; reflexivity. Qed.
Example C09_loop_counters_example : kloop_spec 1 3 = KRet b#"loop" [KZ 2%Z; KZ 1%Z; KZ 2%Z; KZ 1%Z; KB false; KB false].
Proof. reflexivity. Qed.

Print Assumptions C09_refines_spec.
Print Assumptions C09_refines_spec_template.
Print Assumptions C09_refines_table_spec.
Print Assumptions C09_truthiness_except_float_zero.
Print Assumptions C09_truthiness_table.
Print Assumptions C09_falsy_values.
Print Assumptions C09_truthy_values.
Print Assumptions C09_if_first_truthy.
Print Assumptions C09_if_all_falsy.
Print Assumptions C09_if_condition_fails.
Print Assumptions C09_for_refines_spec.
Print Assumptions C09_for_over_value.
Print Assumptions C09_for_sequences.
Print Assumptions C09_items_length.
Print Assumptions C09_counters.
Print Assumptions C09_iteration_bindings.
Print Assumptions C09_counters_rendered.
Print Assumptions C09_nested_loops_independent.
Print Assumptions C09_nested_for_node.
Print Assumptions C09_else_iff_empty.
Print Assumptions C09_nothing_to_iterate.
Print Assumptions C09_range_elements.
Print Assumptions C09_range_membership.
Print Assumptions C09_set_visible_after.
Print Assumptions C09_loop_threads_context.
Print Assumptions C09_loop_unfold.
Print Assumptions C09_set_visible_next_iteration.
Print Assumptions C09_code_shape.
Print Assumptions C09_loop_counters_code.
Print Assumptions C09_loop_counters_on_machine.
Print Assumptions C09_range_code_is_model_loop.
Print Assumptions C09_range_count_is_spec.
Print Assumptions C09_range_item_on_machine.
