(* C11 -- an include renders in the right scope and never changes the state of the including template.
   Statements only; proofs live in Proofs/IncludeProofs.v. The operational side is the evaluator model
   Model/Eval.v (ev_include, render_node, render: a mirror of IncludeNode.Render in node.go and of Clone,
   NewRenderContext, GetVariable, SetVariable in render.go), the declarative side Spec/IncludeSpec.v (inc_visible,
   inc_start_ok, inc_spec, inc_same_state, and the executable instance inc_spec_exec / c11_render_template).

   Quantifiers. Every statement is for every name expression (a literal or computed), every with value, every
   combination of the three flags (ignore missing, only, sandboxed: universally quantified booleans, with the with
   clause present or absent that is the 16 option sets), every environment and every context c of the including
   template -- whatever built it: the top level, a loop iteration, a block, a macro call, another include at any
   depth -- and every fuel. The renderer of the included template is an ARBITRARY function (root) in the statements
   about the helper: whatever the included template does.

   Excluded outcomes. None is excluded: the statements are equalities and relations outcome by outcome; OutOfFuel
   and Unmodelled (a with clause that is not a hash literal with literal names, a with value holding a macro call,
   a relative template name, a name that is not printable) pass through inc_spec as themselves.

   History. On the tree before 7d45909, sandboxed without only copied the OWN variable map of the including context
   only, so that a sandboxed include standing in an included template or a macro body lost the inherited variables;
   the scope theorem carried a side condition and the refutation was a theorem. The repair copies the own map and
   every parent; the model follows it (Ctx.rc_visible_vars) and the theorem is unconditional. C11_scope_by_code
   keeps the tie: the translator re-reads from node.go on every run what that branch copies. *)
From Twig Require Import Base.Bytes Base.Utf8 Model.Ast Model.Value Model.ValueOps Model.EvalBuiltins Model.Ctx
                         Model.TemplateSet Model.Eval Spec.ControlSpec Spec.IncludeSpec Proofs.EvalProofs Proofs.IncludeProofs
                         Gen.IncludeShape.

(* ---------------------------------------------------------------- scope *)
(* the include of the model satisfies the specification: the name evaluated in c, ignore missing on exactly the
   missing named template, the with values evaluated in c, the included template started in a context where x reads
   with(x), else nil under only, else what x reads in c (own map and every parent), macros of c visible unless only
   or sandboxed, sandbox flag inherited or switched on, otherwise a new rendering state; its output and its
   failure are the result; the context handed back is c *)
Theorem C11_scope : forall ev root env c e withs ign only sb,
  inc_spec ev root env c e withs ign only sb (ev_include ev root env c e withs ign only sb).
Proof. exact C11_scope_proof. Qed.

Theorem C11_scope_node : forall fu env c e withs ign only sb,
  inc_spec (eval fu env) (render_root fu env) env c e withs ign only sb
           (render_node (eval fu env) (render fu env) (render_root fu env) env c (NInclude e withs ign only sb)).
Proof. exact C11_scope_node_proof. Qed.

(* what a name reads at the start of the included template, per option set (ignore missing and the presence of
   with do not enter: ws is empty without with): plain, only, only sandboxed, sandboxed *)
Theorem C11_scope_table : forall c name ws x,
  rc_get_var (inc_model_start false false c name ws) x = inc_visible false c ws x /\
  rc_get_var (inc_model_start true false c name ws) x = inc_visible true c ws x /\
  rc_get_var (inc_model_start true true c name ws) x = inc_visible true c ws x /\
  rc_get_var (inc_model_start false true c name ws) x = inc_visible false c ws x.
Proof. exact C11_scope_table_proof. Qed.

(* the witness of the repaired defect: a context whose variable x = 1 lives in its parent (the context of an
   included template); the template included from it with sandboxed reads 1 *)
Theorem C11_sandboxed_inherits_witness :
  rc_own_var c11_w_ctx b#"x" = None /\ rc_get_var c11_w_ctx b#"x" = VInt 1 /\
  rc_get_var (inc_model_start false true c11_w_ctx b#"leaf" []) b#"x" = VInt 1.
Proof. exact C11_sandboxed_inherits_witness_proof. Qed.

(* tied to the code: the translator re-reads from node.go on every run what the sandboxed-without-only branch
   copies (Gen/IncludeShape.v). The model mirrors the copy of the whole chain; should the code copy the own map
   only, the obligation is False *)
Theorem C11_scope_by_code : if ics_sandbox_copies_chain then c11_scope_unconditional else False.
Proof. exact C11_scope_by_code_proof. Qed.

(* the executable instance of the specification (the reference of the correspondence check) satisfies the relation
   for every option set and every context, and differs from the model in the start context only *)
Theorem C11_spec_exec_admissible : forall ev root env c e withs ign only sb,
  inc_spec ev root env c e withs ign only sb (inc_spec_exec ev root env c e withs ign only sb).
Proof. exact C11_spec_exec_admissible_proof. Qed.

Theorem C11_model_vs_exec : forall ev root env c e withs ign only sb,
  ev_include ev root env c e withs ign only sb = inc_normal (inc_model_start only sb c) ev root env c e withs ign sb /\
  inc_spec_exec ev root env c e withs ign only sb = inc_normal (inc_spec_start only sb c) ev root env c e withs ign sb.
Proof. exact C11_model_vs_exec_proof. Qed.

(* ---------------------------------------------------------------- non-interference *)
(* for every include node, every context, every fuel, every outcome: the context after the include is
   observationally the context before it -- variables of the own map and of every parent, macros, blocks, parent
   blocks, the chain of block definitions, the block being rendered, every flag *)
Theorem C11_noninterference : forall fu env c e withs ign only sb r c' t,
  render_node (eval fu env) (render fu env) (render_root fu env) env c (NInclude e withs ign only sb) = (r, c', t) ->
  inc_same_state c c'.
Proof. exact C11_noninterference_proof. Qed.

(* whatever the included template does: its renderer is any function *)
Theorem C11_noninterference_any : forall ev root env c e withs ign only sb r c' t,
  ev_include ev root env c e withs ign only sb = (r, c', t) -> inc_same_state c c'.
Proof. exact C11_noninterference_any_proof. Qed.

(* what follows the include in the including template is rendered in the context from before the include *)
Theorem C11_rest_unaffected : forall fu env c e withs ign only sb rest,
  render (S fu) env c (NInclude e withs ign only sb :: rest) =
  ev_rseq (ev_include (eval fu env) (render_root fu env) env c e withs ign only sb) (fun _ => render fu env c rest).
Proof. exact C11_rest_unaffected_proof. Qed.

(* ---------------------------------------------------------------- with *)
(* the include consults the expression evaluator at the including context only: the name and the with values are
   evaluated there, never in the context of the included template *)
Theorem C11_with_evaluated_in_includer : forall ev1 ev2 root env c e withs ign only sb,
  (forall x, ev1 c x = ev2 c x) ->
  ev_include ev1 root env c e withs ign only sb = ev_include ev2 root env c e withs ign only sb.
Proof. exact C11_with_evaluated_in_includer_proof. Qed.

(* and these values are what the included template starts with *)
Theorem C11_with_values : forall ev root env c e withs ign only sb name inodes t kvs ws t2,
  ev_load ev env c e = (Ok (name, Some inodes), t) ->
  inc_with_exprs withs = Some kvs ->
  sb && inc_no_policy env = false ->
  inc_with_values (ev c) kvs = (Ok ws, t2) ->
  ev_include ev root env c e withs ign only sb =
  (let '(r, _, t3) := root (inc_model_start only sb c name ws) inodes in (r, c, t ++ t2 ++ t3)) /\
  (forall x v, inc_with_lookup ws x = Some v -> rc_get_var (inc_model_start only sb c name ws) x = v).
Proof. exact C11_with_values_proof. Qed.

(* ---------------------------------------------------------------- ignore missing *)
Theorem C11_ignore_missing : forall ev root env c e withs only sb name t,
  ev_load ev env c e = (Ok (name, None), t) ->
  ev_include ev root env c e withs true only sb = (Ok [], c, t) /\
  ev_include ev root env c e withs false only sb = (Err ENotFound, c, t).
Proof. exact C11_ignore_missing_proof. Qed.

(* the option is about the named template alone: when that exists, the include with ignore missing IS the include
   without it -- a not-found error raised inside the included template (a nested include, an extends of a missing
   parent, an import of a missing file) is reported like every other failure *)
Theorem C11_ignore_missing_only_the_named_template : forall ev root env c e withs only sb name inodes t,
  ev_load ev env c e = (Ok (name, Some inodes), t) ->
  ev_include ev root env c e withs true only sb = ev_include ev root env c e withs false only sb.
Proof. exact C11_ignore_missing_only_the_named_template_proof. Qed.

Theorem C11_failure_reported : forall ev root env c e withs ign only sb name inodes t kvs ws t2 err ci t3,
  ev_load ev env c e = (Ok (name, Some inodes), t) ->
  inc_with_exprs withs = Some kvs ->
  sb && inc_no_policy env = false ->
  inc_with_values (ev c) kvs = (Ok ws, t2) ->
  root (inc_model_start only sb c name ws) inodes = (Err err, ci, t3) ->
  ev_include ev root env c e withs ign only sb = (Err err, c, t ++ t2 ++ t3).
Proof. exact C11_failure_reported_proof. Qed.

Theorem C11_own_failures : forall ev root env c e withs ign only sb,
  (forall o t, ev_load ev env c e = (o, t) -> (forall a, o <> Ok a) ->
     ev_include ev root env c e withs ign only sb = (ev_cast o Unmodelled, c, t)) /\
  (forall name inodes t kvs o t2, ev_load ev env c e = (Ok (name, Some inodes), t) ->
     inc_with_exprs withs = Some kvs -> sb && inc_no_policy env = false ->
     inc_with_values (ev c) kvs = (o, t2) -> (forall a, o <> Ok a) ->
     ev_include ev root env c e withs ign only sb = (ev_cast o Unmodelled, c, t ++ t2)) /\
  (forall name inodes t kvs, ev_load ev env c e = (Ok (name, Some inodes), t) ->
     inc_with_exprs withs = Some kvs -> sb = true -> e_policy env = None ->
     ev_include ev root env c e withs ign only sb = (Err EOther, c, t)).
Proof. exact C11_own_failures_proof. Qed.

(* ---------------------------------------------------------------- computed names *)
Theorem C11_computed_name : forall fu env c e v t name root withs ign only sb,
  eval (S fu) env c e = (Ok v, t) -> vo_to_str v = Some name ->
  ev_include (eval (S fu) env) root env c e withs ign only sb =
  c9_add_trace t (ev_include (eval (S fu) env) root env c (ELit (LStr name)) withs ign only sb).
Proof. exact C11_computed_name_proof. Qed.

(* ---------------------------------------------------------------- tie to the code *)
(* the shapes ev_include mirrors are in IncludeNode.Render now: name and with values evaluated by the including
   context, with values bound on the context of the include by SetVariable, that context a Clone or a new one, no
   deferred rewriting of the error, ignore missing confined to return nil right after the two Load calls *)
Theorem C11_code_shape : ics_shape_ok = true.
Proof. exact C11_code_shape_proof. Qed.

(* ---------------------------------------------------------------- non-vacuity *)
Definition c11_probe : list node :=
  [ NText b#"["; NPrint (EVar b#"a"); NText b#","; NPrint (EVar b#"b"); NText b#","; NPrint (EVar b#"w"); NText b#"]" ].
Definition c11_inc : bytes * list node :=
  (b#"inc", [ NText b#"<" ] ++ c11_probe ++ [ NSet b#"a" (ELit (LStr b#"changed")); NSet b#"z" (ELit (LInt 9));
                                              NMacro b#"m" [] [ NText b#"INC-MACRO" ]; NText b#">" ]).
Definition c11_main (withs : option expr) (ign only sb : bool) : bytes * list node :=
  (b#"main", [ NMacro b#"m" [] [ NText b#"MAIN-MACRO" ] ] ++ c11_probe ++
             [ NInclude (ELit (LStr b#"inc")) withs ign only sb ] ++ c11_probe ++
             [ NPrint (EVar b#"z"); NPrint (ECall b#"m" []) ]).
Definition c11_vars : list (bytes * value) := [ (b#"a", VInt 1); (b#"b", VInt 2) ].
Definition c11_with_w : option expr :=
  Some (EHash [ (ELit (LStr b#"w"), EBin BConcat (EVar b#"a") (ELit (LStr b#"!"))); (ELit (LStr b#"b"), ELit (LInt 7)) ]).

(* the four scopes; the probe of the includer is the same before and after, its macro m is still its own *)
Example C11_example_plain :
  c11_out [ c11_inc; c11_main None false false false ] c11_vars = Ok b#"[1,2,]<[1,2,]>[1,2,]MAIN-MACRO".
Proof. vm_compute. reflexivity. Qed.
Example C11_example_with :
  c11_out [ c11_inc; c11_main c11_with_w false false false ] c11_vars = Ok b#"[1,2,]<[1,7,1!]>[1,2,]MAIN-MACRO".
Proof. vm_compute. reflexivity. Qed.
Example C11_example_with_only :
  c11_out [ c11_inc; c11_main c11_with_w false true false ] c11_vars = Ok b#"[1,2,]<[,7,1!]>[1,2,]MAIN-MACRO".
Proof. vm_compute. reflexivity. Qed.
Example C11_example_with_sandboxed :
  c11_out [ c11_inc; c11_main c11_with_w true false true ] c11_vars = Ok b#"[1,2,]<[1,7,1!]>[1,2,]MAIN-MACRO".
Proof. vm_compute. reflexivity. Qed.
Example C11_example_only_sandboxed :
  c11_out [ c11_inc; c11_main None false true true ] c11_vars = Ok b#"[1,2,]<[,,]>[1,2,]MAIN-MACRO".
Proof. vm_compute. reflexivity. Qed.
(* on these the executable specification says the same *)
Example C11_example_spec_agrees :
  c11_spec_out [ c11_inc; c11_main c11_with_w false true false ] c11_vars = Ok b#"[1,2,]<[,7,1!]>[1,2,]MAIN-MACRO" /\
  c11_spec_out [ c11_inc; c11_main c11_with_w true false true ] c11_vars = Ok b#"[1,2,]<[1,7,1!]>[1,2,]MAIN-MACRO".
Proof. split; vm_compute; reflexivity. Qed.

(* ignore missing: the missing named template is empty output; without the option it is the not-found error *)
Example C11_example_missing :
  c11_out [ (b#"main", [ NText b#"a"; NInclude (ELit (LStr b#"nosuch")) None true false false; NText b#"b" ]) ] [] = Ok b#"ab" /\
  c11_out [ (b#"main", [ NText b#"a"; NInclude (ELit (LStr b#"nosuch")) None false false false; NText b#"b" ]) ] [] = Err ENotFound.
Proof. split; vm_compute; reflexivity. Qed.

(* a not-found raised INSIDE an existing included template is an error although the outer include says ignore
   missing: a nested include, an extends of a missing parent, an import of a missing file *)
Example C11_example_missing_inside :
  c11_out [ (b#"mid", [ NInclude (ELit (LStr b#"nosuch")) None false false false ]);
            (b#"main", [ NInclude (ELit (LStr b#"mid")) None true false false ]) ] [] = Err ENotFound /\
  c11_out [ (b#"mid", [ NExtends (ELit (LStr b#"nosuch")) ]);
            (b#"main", [ NInclude (ELit (LStr b#"mid")) None true false false ]) ] [] = Err ENotFound /\
  c11_out [ (b#"mid", [ NImport (ELit (LStr b#"nosuch")) b#"lib" ]);
            (b#"main", [ NInclude (ELit (LStr b#"mid")) None true false false ]) ] [] = Err ENotFound.
Proof. repeat split; vm_compute; reflexivity. Qed.

(* a computed name, evaluated in the includer: the with variable of the same name does not redirect it *)
Example C11_example_computed_name :
  c11_out [ (b#"one", [ NText b#"ONE" ]); (b#"two", [ NText b#"TWO" ]);
            (b#"main", [ NInclude (EBin BConcat (EVar b#"n") (ELit (LStr [])))
                                  (Some (EHash [ (ELit (LStr b#"n"), ELit (LStr b#"two")) ])) false false false ]) ]
          [ (b#"n", VStr b#"one") ] = Ok b#"ONE".
Proof. vm_compute. reflexivity. Qed.

(* the repaired defect end to end: main includes mid, mid includes leaf sandboxed; leaf sees x as mid does. Model and
   executable specification agree *)
Definition c11_regress_tpls : list (bytes * list node) :=
  [ (b#"leaf", [ NText b#"leaf["; NPrint (EVar b#"x"); NText b#"]" ]);
    (b#"mid", [ NText b#"mid["; NPrint (EVar b#"x"); NText b#"]"; NInclude (ELit (LStr b#"leaf")) None false false true ]);
    (b#"main", [ NPrint (EVar b#"x"); NText b#"|"; NInclude (ELit (LStr b#"mid")) None false false false ]) ].
Example C11_example_sandboxed_inherits :
  c11_out c11_regress_tpls [ (b#"x", VInt 1) ] = Ok b#"1|mid[1]leaf[1]" /\
  c11_spec_out c11_regress_tpls [ (b#"x", VInt 1) ] = Ok b#"1|mid[1]leaf[1]".
Proof. split; vm_compute; reflexivity. Qed.

Print Assumptions C11_scope.
Print Assumptions C11_scope_node.
Print Assumptions C11_scope_table.
Print Assumptions C11_sandboxed_inherits_witness.
Print Assumptions C11_scope_by_code.
Print Assumptions C11_code_shape.
Print Assumptions C11_spec_exec_admissible.
Print Assumptions C11_model_vs_exec.
Print Assumptions C11_noninterference.
Print Assumptions C11_noninterference_any.
Print Assumptions C11_rest_unaffected.
Print Assumptions C11_with_evaluated_in_includer.
Print Assumptions C11_with_values.
Print Assumptions C11_ignore_missing.
Print Assumptions C11_ignore_missing_only_the_named_template.
Print Assumptions C11_failure_reported.
Print Assumptions C11_own_failures.
Print Assumptions C11_computed_name.
