(* C14 -- template length and tag position do not change how a template is read.
   lex_small models TokenizeHtmlPreserving (sources up to the threshold), lex_large models
   TokenizeOptimized (FindNextTag / FindTagEnd); lex_choose is the choice made in Parser.Parse. *)
From Twig Require Import Base.Bytes Model.Lexer Spec.Segments Proofs.LexerProofs Proofs.LexerGenProofs
  Gen.Thresholds Gen.TagPatterns.

(* the opener search of the two tokenizers agrees on every byte string *)
Theorem C14_find_agree : forall s : bytes, nearest s = scan s.
Proof. exact nearest_eq_scan. Qed.

(* so does the closer search, for every opener kind *)
Theorem C14_close_agree : forall (k : okind) (after : bytes), find_close_small k after = find_close_large k after.
Proof. exact close_agree. Qed.

(* hence both tokenizers read every byte string alike: same tokens or both an error *)
Theorem C14_tokenizers_agree : forall s : bytes, lex_small s = lex_large s.
Proof. exact lex_small_eq_large. Qed.

(* in particular the result does not depend on the threshold, whatever its value *)
Theorem C14_threshold_irrelevant : forall (t1 t2 : nat) (s : bytes), lex_choose t1 s = lex_choose t2 s.
Proof. exact lex_choose_indep. Qed.

(* inserting literal text between the constructs of a template inserts exactly that text token and
   changes no other token, at any length *)
Theorem C14_padding : forall (a b : list seg) (p : bytes) (th : nat),
  wf_segs (a ++ SText p :: b) ->
  lex_choose th (unparse (a ++ SText p :: b)) = LexOk (map seg_tok a ++ OText p :: map seg_tok b).
Proof. exact C14_padding_proof. Qed.

(* and a comment inserted anywhere is one comment token *)
Theorem C14_comment_padding : forall (a b : list seg) (c : bytes) (th : nat),
  wf_segs (a ++ STag OComment c false :: b) ->
  lex_choose th (unparse (a ++ STag OComment c false :: b)) = LexOk (map seg_tok a ++ OTag OComment c false :: map seg_tok b).
Proof. exact C14_comment_padding_proof. Qed.

(* ties to the code: opener table and threshold test as regenerated from the sources *)
Theorem C14_tables : tag_patterns = map pattern kinds /\ tokenizer_threshold_found = true.
Proof. exact (conj tag_patterns_are_model threshold_shape). Qed.

Example C14_example :
  lex_large (b#"ab{{ x -}}c{# n #}" ++ [xff]) =
  LexOk [OText b#"ab"; OTag OVar b#" x " true; OText b#"c"; OTag OComment b#" n " false; OText [xff]].
Proof. vm_compute. reflexivity. Qed.

Print Assumptions C14_find_agree.
Print Assumptions C14_close_agree.
Print Assumptions C14_tokenizers_agree.
Print Assumptions C14_threshold_irrelevant.
Print Assumptions C14_padding.
Print Assumptions C14_comment_padding.
Print Assumptions C14_tables.
