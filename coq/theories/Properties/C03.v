(* C03 -- rendered output is a deterministic function of templates and context.
   Statements only; proofs in Proofs/DetermProofs.v and Proofs/DetermGenProofs.v.

   The model (Model/Determ.v) is the map-touching fragment of the evaluator as the code is now. Every
   range over a Go map takes its order from a permutation oracle pi (any order is the order of some
   code, and every code gives an order: C03_oracle_covers_all_orders); every address printed through
   fmt comes from an address oracle al. dt_render_now builds the context from a description that lists
   map entries in insertion order and renders with hash literals evaluated the way the translator finds
   them evaluated in render.go (Gen/MapRanges.v).

   PARTIAL: Go's actual iteration orders and addresses are runtime facts. What is proved is that no
   order and no address can reach the output under the stated side conditions; the runner observes the
   runtime by repetition, permuted insertion and a second process. *)
From Coq Require Import List Permutation.
From Twig Require Import Base.Bytes Base.SortPerm Model.Ast Model.Value Gen.MapRanges Gen.DateTable
  Model.Determ Model.DateFmt Spec.DetermSpec Proofs.DetermProofs Proofs.DetermGenProofs.
Import ListNotations.

(* same output for all permutation oracles. Contexts: every map has int or string keys, pairwise different as
   Go keys; while filterMerge takes its keys unsorted from MapKeys() (flag dt_merge_filter_unsorted, re-read from
   the tree) their string forms must be pairwise different as well, which every map[string]T and map[int]T
   satisfies. Templates: no condition while hash literals are evaluated in source order (the flag
   dt_hash_ranges_go_map is false on the current tree; were n.items ranged again, the literal keys of every hash
   would have to be pairwise different) *)
Theorem C03_oracle_independent : forall fu pi1 pi2 al ctx ns,
  dt_env_ok dt_merge_filter_unsorted false ctx -> Forall (dt_nok dt_hash_ranges_go_map) ns ->
  dt_render_now fu pi1 al ctx ns = dt_render_now fu pi2 al ctx ns.
Proof. exact C03_oracle_independent_proof. Qed.

(* same output for all address oracles as well, when the context holds no non-nil pointer and no func value
   (top-level pointers are followed and funcs print nothing; what is left is fmt printing nested ones) *)
Theorem C03_address_independent : forall fu pi1 pi2 al1 al2 ctx ns,
  dt_env_ok dt_merge_filter_unsorted true ctx -> Forall (dt_nok dt_hash_ranges_go_map) ns ->
  dt_render_now fu pi1 al1 ctx ns = dt_render_now fu pi2 al2 ctx ns.
Proof. exact C03_address_independent_proof. Qed.

(* maps equal as finite maps, listed in different entry orders at any depth (and the variables of the
   context itself in any order), give the same output *)
Theorem C03_insertion_order_independent : forall fu pi al ctx ctx' ns,
  dt_env_ok dt_merge_filter_unsorted false ctx -> NoDup (map fst ctx) -> dt_env_veq ctx ctx' ->
  dt_render_now fu pi al ctx ns = dt_render_now fu pi al ctx' ns.
Proof. exact C03_insertion_order_independent_proof. Qed.

(* with hash literals in source order and filterMerge iterating sorted keys (proposed repair) nothing is left:
   every template, every context whose maps have int and string keys, including map[interface{}]T with 1 and the string 1 *)
Theorem C03_oracle_independent_all_sorted : forall fu pi1 pi2 al ctx ns,
  dt_env_ok false false ctx ->
  dt_render_ctx false false fu pi1 al ctx ns = dt_render_ctx false false fu pi2 al ctx ns.
Proof. exact C03_oracle_independent_all_sorted_proof. Qed.

(* the oracle is exactly the set of iteration orders *)
Theorem C03_oracle_covers_all_orders : forall (m : dentries),
  (forall p, Permutation (iter_map p m) m) /\ (forall m', Permutation m m' -> exists p, iter_map p m = m').
Proof. exact C03_oracle_covers_all_orders_proof. Qed.

(* sorting makes iteration canonical: the lemma behind for loops, first and keys *)
Theorem C03_sort_perm_canonical : forall l l' : list bytes, Permutation l l' -> NoDup l -> bytes_sort l = bytes_sort l'.
Proof. exact sort_perm_canonical. Qed.

(* sortedMapKeys with the tie-break by type name: one order whatever MapKeys() yields, also for keys with equal string forms *)
Theorem C03_sorted_keys_canonical : forall p1 p2 (m : dentries),
  Forall (fun kv => dt_is_key (fst kv) = true) m -> NoDup (map (fun kv => dt_key_code (fst kv)) m) ->
  dt_sorted_entries p1 m = dt_sorted_entries p2 m.
Proof. exact C03_sorted_keys_canonical_proof. Qed.

(* ---- what is, or would be, order- or address-dependent: witnesses ---- *)
(* ranging over HashNode.items again (gm = true) would make duplicate keys order dependent; source order does not *)
Theorem C03_hash_map_order_refuted : forall mu,
  dt_render_ctx true mu 10 (dt_const_oracle [0; 0]) dt_al0 [] dt_w_hash_dup = Ok b#"2" /\
  dt_render_ctx true mu 10 (dt_const_oracle [1; 0]) dt_al0 [] dt_w_hash_dup = Ok b#"1" /\
  dt_render_ctx false mu 10 (dt_const_oracle [1; 0]) dt_al0 [] dt_w_hash_dup = Ok b#"2".
Proof. exact C03_hash_map_order_refuted_proof. Qed.

(* filterMerge with unsorted keys (mu = true, the tree as it is) on a map holding 1 and the string 1; sorted keys repair it *)
Theorem C03_merge_filter_collision_refuted : forall gm,
  dt_render_ctx gm true 10 (dt_const_oracle [0; 0; 0]) dt_al0 dt_w_collide_ctx dt_w_collide_merge = Ok b#"str" /\
  dt_render_ctx gm true 10 (dt_const_oracle [2; 0; 0]) dt_al0 dt_w_collide_ctx dt_w_collide_merge = Ok b#"int" /\
  dt_render_ctx gm false 10 (dt_const_oracle [0; 0; 0]) dt_al0 dt_w_collide_ctx dt_w_collide_merge = Ok b#"str" /\
  dt_render_ctx gm false 10 (dt_const_oracle [2; 0; 0]) dt_al0 dt_w_collide_ctx dt_w_collide_merge = Ok b#"str".
Proof. exact C03_merge_filter_collision_refuted_proof. Qed.

(* a pointer below the top level is printed as an address (known finding nested-pointer); at top level it is followed *)
Theorem C03_nested_pointer_refuted : forall gm mu,
  dt_render_ctx gm mu 10 (dt_const_oracle []) dt_al0 dt_w_nested_ptr [NPrint (EVar b#"s")] = Ok b#"{name 0xc000012345}" /\
  dt_render_ctx gm mu 10 (dt_const_oracle []) dt_al1 dt_w_nested_ptr [NPrint (EVar b#"s")] = Ok b#"{name 0xc000067890}" /\
  dt_render_ctx gm mu 10 (dt_const_oracle []) dt_al0 [(b#"p", VPtr (Some (VInt 5))); (b#"f", VOpaque 1)] [NPrint (EVar b#"p"); NPrint (EVar b#"f")] = Ok b#"5".
Proof. exact C03_nested_pointer_refuted_proof. Qed.

(* ---- date format conversion ---- *)
Theorem C03_date_homomorphism : forall a b c,
  date_conv (a ++ b) = date_conv a ++ date_conv b /\
  date_conv [c] = match date_lookup date_table_raw c with Some g => g | None => [c] end.
Proof. exact C03_date_homomorphism_proof. Qed.

(* no letter is listed twice with different targets; the code is the single left-to-right pass the model is *)
Theorem C03_date_table_functional :
  date_table_functional date_table_raw /\ date_keys_one_byte = true /\ date_single_pass = true /\ date_copies_other_bytes = true.
Proof. exact C03_date_table_functional_proof. Qed.

(* the conversion does not depend on the order in which the table is stored or iterated *)
Theorem C03_date_order_independent : forall p s, date_conv_with (apply_perm p date_table_raw) s = date_conv s.
Proof. exact C03_date_order_independent_proof. Qed.

(* ---- the translator obligation: every unsorted map range in the package is classified ---- *)
Theorem C03_map_ranges_classified :
  maprange_typecheck_ok = true /\
  maprange_untyped = [] /\
  maprange_unclassified = [] /\
  maprange_has_sorted b#"sortedMapKeys" b#"val" = true /\
  maprange_has_sorted b#"CoreExtension.filterKeys" b#"v" = true /\
  maprange_no_site_in b#"ForNode.renderForLoop" = true /\
  maprange_no_site_in b#"CoreExtension.filterFirst" = true /\
  maprange_no_site_in b#"convertDateFormat" = true /\
  maprange_no_site_in b#"join" = true /\
  maprange_no_site_in b#"CoreExtension.filterJoin" = true /\
  maprange_no_site_in b#"RenderContext.ToString" = true /\
  maprange_no_site_in b#"toString" = true.
Proof. exact maprange_obligation_proof. Qed.

(* ---- non-vacuity: maps with three and more entries, nested, typed, in two entry orders ---- *)
Definition c03_ex_ctx : denv :=
  [(b#"m", VMap MAny [(VStr b#"b", VInt 1); (VStr b#"a", VInt 2); (VStr b#"c", VMap MIntStr [(VInt 10, VStr b#"x"); (VInt 9, VStr b#"y"); (VInt 1, VStr b#"z")])])].
Definition c03_ex_ctx' : denv :=
  [(b#"m", VMap MAny [(VStr b#"c", VMap MIntStr [(VInt 1, VStr b#"z"); (VInt 10, VStr b#"x"); (VInt 9, VStr b#"y")]); (VStr b#"b", VInt 1); (VStr b#"a", VInt 2)])].
Definition c03_ex_tpl : list node :=
  [NFor (Some b#"k") b#"v" (EVar b#"m") [NPrint (EVar b#"k"); NText b#":"] None;
   NFor (Some b#"k") b#"v" (EAttr (EVar b#"m") b#"c") [NPrint (EVar b#"k"); NText b#"="; NPrint (EVar b#"v"); NText b#","] None;
   NPrint (EFilter (EFilter (EFilter (EVar b#"m") b#"merge" [EHash [(ELit (LStr b#"z"), ELit (LInt 7)); (ELit (LStr b#"a"), ELit (LInt 8)); (ELit (LStr b#"d"), ELit (LInt 9))]]) b#"keys" []) b#"join" [ELit (LStr b#"|")])].

Example C03_example_1 :
  dt_render_now 12 (dt_const_oracle [2; 1; 0]) dt_al0 c03_ex_ctx c03_ex_tpl = Ok b#"a:b:c:1=z,10=x,9=y,a|b|c|d|z".
Proof. vm_compute. reflexivity. Qed.
Example C03_example_2 :
  dt_render_now 12 (dt_const_oracle [0; 3; 1; 1]) dt_al1 c03_ex_ctx' c03_ex_tpl = Ok b#"a:b:c:1=z,10=x,9=y,a|b|c|d|z".
Proof. vm_compute. reflexivity. Qed.
(* the map holding 1 and the string 1: one order under every oracle now (int before string) *)
Example C03_example_collision :
  dt_render_now 12 (dt_const_oracle [0; 0; 0]) dt_al0 dt_w_collide_ctx dt_w_collide_for = Ok b#"1=int;1=str;2=two;" /\
  dt_render_now 12 (dt_const_oracle [2; 0; 0]) dt_al0 dt_w_collide_ctx dt_w_collide_for = Ok b#"1=int;1=str;2=two;".
Proof. split; vm_compute; reflexivity. Qed.
Example C03_example_date : date_conv b#"D, d M Y \a\t H:i" = b#"Mon, 02 Jan 2006 \pm\t 15:04".
Proof. vm_compute. reflexivity. Qed.

Print Assumptions C03_oracle_independent.
Print Assumptions C03_address_independent.
Print Assumptions C03_insertion_order_independent.
Print Assumptions C03_oracle_independent_all_sorted.
Print Assumptions C03_oracle_covers_all_orders.
Print Assumptions C03_sort_perm_canonical.
Print Assumptions C03_sorted_keys_canonical.
Print Assumptions C03_hash_map_order_refuted.
Print Assumptions C03_merge_filter_collision_refuted.
Print Assumptions C03_nested_pointer_refuted.
Print Assumptions C03_date_homomorphism.
Print Assumptions C03_date_table_functional.
Print Assumptions C03_date_order_independent.
Print Assumptions C03_map_ranges_classified.
