(* C07 — The escape filter neutralises every HTML-significant character.
   Statements only; proofs live in Proofs/EscapeProofs.v. `escape` models the registered filter
   (extension.go filterEscape), `escape_fallback` the built-in of ApplyFilter (render_filter.go). *)
From Twig Require Import Base.Bytes Model.Escape Proofs.EscapeProofs Proofs.RegistryProofs Gen.Registry.

(* none of the bytes lt, gt, double quote, single quote occurs anywhere in the output, for every byte string *)
Theorem C07_no_raw_special : forall (s : bytes) (c : byte),
  In c (escape s) -> c <> c_lt /\ c <> c_gt /\ c <> c_dq /\ c <> c_sq.
Proof. exact C07_no_raw_special_proof. Qed.

(* every & in the output is the first byte of one of the character references *)
Theorem C07_amp_only_in_reference : forall (s pre post : bytes),
  escape s = pre ++ c_amp :: post ->
  exists r, In r (map fst refs) /\ prefixb r (c_amp :: post) = true.
Proof. exact C07_amp_only_in_reference_proof. Qed.

(* decoding the references gives back exactly the original text *)
Theorem C07_roundtrip : forall s : bytes, unescape (escape s) = s.
Proof. exact C07_roundtrip_proof. Qed.

(* all other bytes pass through unchanged and in place: escape is a byte-wise homomorphism that is
   the identity on every byte other than the five *)
Theorem C07_other_bytes_unchanged : forall (a b : bytes) (c : byte),
  is_special c = false -> escape (a ++ c :: b) = escape a ++ c :: escape b.
Proof. exact C07_other_bytes_unchanged_proof. Qed.

(* the same three statements for the built-in fallback *)
Theorem C07_fallback : forall s : bytes,
  (forall c, In c (escape_fallback s) -> c <> c_lt /\ c <> c_gt /\ c <> c_dq /\ c <> c_sq) /\
  unescape (escape_fallback s) = s /\
  (forall a b c, is_special c = false -> escape_fallback (a ++ c :: b) = escape_fallback a ++ c :: escape_fallback b).
Proof. exact C07_fallback_proof. Qed.

(* `e` and `escape` are registered to the same method (table regenerated from extension.go) *)
Theorem C07_alias :
  assoc_bytes reg_GetFilters b#"e" = Some b#"filterEscape" /\
  assoc_bytes reg_GetFilters b#"escape" = Some b#"filterEscape".
Proof. exact C07_alias_proof. Qed.

(* escape applied to escaped text, any number of times (v|e|e ...): n decodings give back the input and no layer
   leaves a raw special byte *)
Theorem C07_iterated : forall (n : nat) (s : bytes),
  Nat.iter n unescape (Nat.iter n escape s) = s /\
  (forall c, In c (Nat.iter (S n) escape s) -> c <> c_lt /\ c <> c_gt /\ c <> c_dq /\ c <> c_sq).
Proof. exact C07_iterated_proof. Qed.

(* non-vacuity: a string containing all five characters and an invalid UTF-8 byte *)
Example C07_example :
  escape [x3c; x61; x26; x22; x27; x3e; xff] = b#"&lt;a&amp;&#34;&#39;&gt;" ++ [xff].
Proof. reflexivity. Qed.

Print Assumptions C07_no_raw_special.
Print Assumptions C07_amp_only_in_reference.
Print Assumptions C07_roundtrip.
Print Assumptions C07_other_bytes_unchanged.
Print Assumptions C07_fallback.
Print Assumptions C07_alias.
Print Assumptions C07_iterated.
