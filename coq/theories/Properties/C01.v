(* C01 -- Rendering is repeatable and history independent (the object-pool discipline).
   Statements only; proofs live in Proofs/PoolProofs.v.

   The model (Model/Pool.v) is a machine over an abstract heap: engine state = template map
   (engine, name) -> root node id, heap id -> node record (kind, payload, child ids), node pools
   kind -> ids, cache switches. Operations: PORegister, POParse, POLoad, PORender (succeeding or
   failing, as the templates say), POToggleCache, POGC, POPoison (the environment -- another engine,
   user code, the hook VerifPoisonPools -- puts an arbitrary junk object into a pool); activity on
   another engine is the same operations with another engine number. Every Get consults the reuse
   oracle orc (a never used object, or ANY object currently in the pool of that kind); a render
   context taken from its pool holds the arbitrary left-over values g in every field that
   NewRenderContext / Clone do not assign (Gen/CtxReset.v, regenerated from render.go on every run);
   which Release calls exist outside the pool files comes from Gen/PoolCalls.v, and pool_cfg_gen is the
   machine configured by them. st is the content of the loaders (fixed: part of the configuration).

   Every statement below is for every history ops, every oracle orc, every garbage g, every loader
   content st, every template set and every context. *)
From Twig Require Import Base.Bytes Model.Ast Gen.CtxReset Gen.PoolCalls Model.Pool Spec.PoolSpec Proofs.PoolProofs.

(* Inv s: no object in any pool is reachable from a template an engine holds, and every held template,
   read back through the node pointers, is the tree of its source. It holds initially (ops = []) and
   after every operation of every history, whatever the oracle hands out. *)
Theorem C01_inv_preserved : forall st orc g ops, pool_Inv (pool_run pool_cfg_gen st orc g ops).
Proof. exact C01_inv_preserved_proof. Qed.

(* The result of a render (output atoms or error class) after any history equals the result after the
   registrations and cache settings of that history alone, under any other oracle and garbage ... *)
Theorem C01_history_independent : forall st orc g orc' g' ops e n vars,
  pool_render_obs pool_cfg_gen st orc g (pool_run pool_cfg_gen st orc g ops) e n vars =
  pool_render_obs pool_cfg_gen st orc' g' (pool_run pool_cfg_gen st orc' g' (pool_config_ops ops)) e n vars.
Proof. exact C01_history_independent_proof. Qed.

(* ... in particular the result on a freshly created engine holding the same templates and configuration
   in a fresh process (nothing is ever reused, nothing known is left in a pooled context). *)
Theorem C01_equals_pristine : forall st orc g ops e n vars,
  pool_render_obs pool_cfg_gen st orc g (pool_run pool_cfg_gen st orc g ops) e n vars =
  pool_pristine_obs pool_cfg_gen st ops e n vars.
Proof. exact C01_equals_pristine_proof. Qed.

(* The result is the evaluation of the last registered sources (and the loader content): however often the
   template was rendered before, whatever was parsed, rendered or failed to render on any engine. *)
Theorem C01_result_is_function_of_registrations : forall st orc g ops e n vars,
  pool_render_obs pool_cfg_gen st orc g (pool_run pool_cfg_gen st orc g ops) e n vars =
  POORender (fst (match pool_spec_resolve st (pool_last_reg ops) e n with
                  | PLErr er => (PRErr er, [n])
                  | PLBad => (PRGarbage, [n])
                  | PLOk ns =>
                    pool_seq (PROut [], [n])
                      (fst (pool_eval pool_eval_fuel (pool_spec_resolve st (pool_last_reg ops) e) pool_garbage_none true
                         (pool_cset (pool_ctx_new (pool_garbage_none pool_eval_fuel) (map (fun xv => (fst xv, Some (snd xv))) vars))
                                    b#"lastLoadedTemplate" FVPtr) ns ns pool_eval_gas))
                  end)).
Proof. exact C01_result_is_function_of_registrations_proof. Qed.

(* A render never consumes, alters or recycles the template it used: every binding of the template map
   survives it, every held tree reads back exactly as before (as the tree of its source), and none of
   its nodes is in a pool afterwards. *)
Theorem C01_render_does_not_consume : forall st orc g ops e n vars,
  let s := pool_run pool_cfg_gen st orc g ops in
  let s' := fst (pool_step pool_cfg_gen st orc g s (PORender e n vars)) in
  (forall key t, pool_assoc (pst_cache s) key = Some t -> pool_assoc (pst_cache s') key = Some t) /\
  (forall key t, In (key, t) (pst_cache s) ->
     In (key, t) (pst_cache s') /\
     pool_read_tpl (pst_heap s') t = pool_read_tpl (pst_heap s) t /\
     pool_read_tpl (pst_heap s) t = PLOk (psrc_nodes (pt_src t)) /\
     forall k x, In (k, x) (pst_pools s') -> ~ pool_reach (pst_heap s') (pt_root t) x).
Proof. exact C01_render_does_not_consume_proof. Qed.

(* Every field of RenderContext that rendering reads before writing (ctx_fields_read_by_render, justified
   field by field in Model/Pool.v) is a field of the struct and is assigned by NewRenderContext and by Clone,
   as extracted from render.go. *)
Theorem C01_acquire_resets_all_read_fields : forall f, In f ctx_fields_read_by_render ->
  In f ctx_fields /\ In f ctx_reset_new /\ In f ctx_reset_clone.
Proof. exact C01_acquire_resets_all_read_fields_proof. Qed.

(* ... and every other field of the struct is one known not to be read (a new field needs a decision). *)
Theorem C01_every_ctx_field_classified :
  filter (fun f => negb (pool_memb f ctx_fields_read_by_render)) ctx_fields = [b#"inParentCall"] /\
  ctx_reset_shape_ok = true.
Proof. exact C01_every_ctx_field_classified_proof. Qed.

(* On every reachable state a render never reads a context field that holds a left-over value and never meets
   a template tree it cannot follow: the machine reads context fields only through ctx_fields_read_by_render, and
   those are assigned on acquisition (a read outside that list, or of an unassigned field, yields PRGarbage). *)
Theorem C01_render_reads_only_assigned_fields : forall st orc g ops e n vars,
  pool_render_obs pool_cfg_gen st orc g (pool_run pool_cfg_gen st orc g ops) e n vars <> POORender PRGarbage.
Proof. exact C01_render_reads_only_assigned_fields_proof. Qed.

(* What a pooled context held before does not matter: the acquired context is the same, and so is the
   result of every render in every state under every configuration. *)
Theorem C01_garbage_irrelevant :
  (forall g1 g2 vars, pool_ctx_new g1 vars = pool_ctx_new g2 vars) /\
  (forall g1 g2 c, pool_ctx_clone g1 c = pool_ctx_clone g2 c) /\
  (forall cfg st orc g1 g2 s e n vars,
     pool_render_obs cfg st orc g1 s e n vars = pool_render_obs cfg st orc g2 s e n vars).
Proof. exact C01_garbage_irrelevant_proof. Qed.

(* The generated tables: no node release outside the pool files (the machine configured by them is the one
   without such releases); every field of every pooled struct is assigned on acquisition or cleared on release
   (only FunctionNode.moduleExpr relies on the release side); the bare map pools receive emptied maps only; Clone
   shares no map; a tokenizer is released when the function that took it returns. *)
Theorem C01_pool_discipline_tables :
  pool_cfg_gen = pool_cfg_safe /\
  flat_map pool_uncovered_fields pool_node_types = [] /\
  forallb (fun x => bytes_eqb (fst x) b#"FunctionNode" && bytes_eqb (snd x) b#"moduleExpr")
          (flat_map pool_release_only_fields pool_node_types) = true /\
  pool_map_puts <> [] /\ forallb (fun p => snd p) pool_map_puts = true /\
  ctx_clone_aliased_maps = [] /\
  forallb (fun s => match pool_site_class s with PSKTokenizer => pool_site_deferred s | _ => true end) pool_release_sites = true /\
  pool_calls_shape_ok = true.
Proof. exact C01_pool_discipline_tables_proof. Qed.

(* The originally pinned tree (Template.RenderTo released the root node after every render), kept for
   documentation: on [Register a; Render a; Render a] the invariant is broken after the first render and the
   second render prints nothing, where the working tree prints the text again. *)
Theorem C01_inv_refuted_pinned :
  ~ pool_Inv (pool_run pool_cfg_pinned [] pool_orc_fresh pool_garbage_none (firstn 2 pool_witness)) /\
  pool_trace_from pool_cfg_pinned [] pool_orc_fresh pool_garbage_none pool_init pool_witness =
    [POOReg true; POORender (PROut [PAText 7%N]); POORender (PROut [])] /\
  pool_trace_from pool_cfg_gen [] pool_orc_fresh pool_garbage_none pool_init pool_witness =
    [POOReg true; POORender (PROut [PAText 7%N]); POORender (PROut [PAText 7%N])].
Proof. exact C01_inv_refuted_pinned_proof. Qed.

(* ... and with reuse, [Register a; Render a; Register b; Render a] rendered the body of b. *)
Theorem C01_pinned_renders_other_template :
  pool_trace_from pool_cfg_pinned [] (fun _ => Some O) pool_garbage_none pool_init pool_witness2 =
    [POOReg true; POORender (PROut [PAText 7%N]); POOReg true; POORender (PROut [PAText 9%N])].
Proof. exact C01_pinned_renders_other_template_proof. Qed.

(* ---- non-vacuity: a history with poisoned pools, reuse of every pooled object, garbage in every unassigned
   field, two engines, an include, inheritance, an imported macro, a failing render, a source that fails to
   parse half-way, a missing template, a cache switch and a collection in between ---- *)
Definition c01_ex_base : pool_src :=
  mk_psrc [PoolT pk_text [1%N] []; PoolT pk_block [1%N] [PoolT pk_text [2%N] []]; PoolT pk_text [3%N] []] true.
Definition c01_ex_child : pool_src :=
  mk_psrc [PoolT pk_extends [1%N] []; PoolT pk_block [1%N] [PoolT pk_text [4%N] []; PoolT pk_include [2%N; 0%N] []]] true.
Definition c01_ex_inc : pool_src := mk_psrc [PoolT pk_var [1%N] []; PoolT pk_call [3%N; 1%N; 1%N] []] true.
Definition c01_ex_mac : pool_src :=
  mk_psrc [PoolT pk_macro [1%N] [PoolT pk_text [8%N] []; PoolT pk_var [0%N] []; PoolT pk_var [2%N] []]] true.
Definition c01_ex_boom : pool_src := mk_psrc [PoolT pk_text [5%N] []; PoolT pk_fail [] []] true.
Definition c01_ex_half : pool_src := mk_psrc [PoolT pk_text [6%N] []; PoolT pk_if [1%N] [PoolT pk_text [6%N] []]] false.
Definition c01_ex_junk : pool_cell := mk_pcell 77%N [13%N] [0%nat; 1%nat; 2%nat].
Definition c01_ex_store : pool_store := [((0%nat, 2%N), c01_ex_inc)].     (* t2 comes from a loader *)
Definition c01_ex_ops : list pool_op :=
  [PORegister 0 1%N c01_ex_base; PORegister 0 0%N c01_ex_child; PORegister 0 3%N c01_ex_mac;
   POPoison pk_text c01_ex_junk; POPoison pk_root c01_ex_junk; POPoison pk_block c01_ex_junk;
   PORender 0 0%N [(1%N, 5%N); (2%N, 6%N)];
   PORegister 1 0%N c01_ex_boom; PORender 1 0%N [];
   POParse 1 c01_ex_half; PORegister 0 4%N c01_ex_half;
   POToggleCache 0; PORender 0 0%N [(1%N, 5%N); (2%N, 6%N)]; POGC; POPoison pk_var c01_ex_junk;
   PORender 0 9%N []; PORender 0 0%N [(1%N, 5%N); (2%N, 6%N)]; PORender 1 0%N []].
Definition c01_ex_garbage : nat -> pool_garbage := fun _ _ => Some (FVVars [(1%N, Some 99%N)]).

Example C01_example_trace :
  pool_trace_from pool_cfg_gen c01_ex_store (fun _ => Some O) c01_ex_garbage pool_init c01_ex_ops =
  [POOReg true; POOReg true; POOReg true; POONone; POONone; POONone;
   POORender (PROut [PAText 1; PAText 4; PAVal 5; PAText 8; PAVal 5; PAVal 6; PAText 3]);
   POOReg true; POORender (PRErr EOther);
   POONone; POOReg false;
   POONone; POORender (PROut [PAText 1; PAText 4; PAVal 5; PAText 8; PAVal 5; PAVal 6; PAText 3]); POONone; POONone;
   POORender (PRErr ENotFound);
   POORender (PROut [PAText 1; PAText 4; PAVal 5; PAText 8; PAVal 5; PAVal 6; PAText 3]);
   POORender (PRErr EOther)].
Proof. vm_compute. reflexivity. Qed.

(* the oracle did hand out pooled objects in that history: 33 Gets, 30 never used ids (34 ids in all, 4 of them
   the junk objects of the POPoison operations), so three junk objects were reused as nodes of held templates *)
Example C01_example_reuse :
  let s := pool_run pool_cfg_gen c01_ex_store (fun _ => Some O) c01_ex_garbage c01_ex_ops in
  pst_tick s = 33%nat /\ pst_next s = 34%nat.
Proof. vm_compute. split; reflexivity. Qed.

(* under the pinned configuration the same history goes wrong at the second render of the failing template of
   engine 1: its root was released by the first (failing) render and reused as the root of the loader template t2
   of engine 0, so the second render walks into the body of that template and fails on its import instead *)
Example C01_example_pinned_differs :
  nth 17 (pool_trace_from pool_cfg_pinned c01_ex_store (fun _ => Some O) c01_ex_garbage pool_init c01_ex_ops) POONone =
    POORender (PRErr ENotFound) /\
  nth 17 (pool_trace_from pool_cfg_gen c01_ex_store (fun _ => Some O) c01_ex_garbage pool_init c01_ex_ops) POONone =
    POORender (PRErr EOther).
Proof. vm_compute. split; reflexivity. Qed.

(* a macro whose second parameter defaults to an expression over the caller's variables, reached through an import
   and from its own template: every call evaluates the default in the context of that call, so the same template
   rendered with other contexts follows them, and rendering with the first context again reproduces the first output *)
Definition c01_ex_lib : pool_src :=
  mk_psrc [PoolT pk_macro [1%N; 1%N; 2%N] [PoolT pk_var [0%N; 0%N] []; PoolT pk_var [4%N; 0%N] []]; PoolT pk_text [3%N] [];
           PoolT pk_lcall [1%N; 1%N] []] true.
Definition c01_ex_page : pool_src := mk_psrc [PoolT pk_text [1%N] []; PoolT pk_call [3%N; 1%N; 1%N] []] true.
Example C01_example_macro_default :
  pool_trace_from pool_cfg_gen [] (fun _ => Some O) pool_garbage_none pool_init
    [PORegister 0 3%N c01_ex_lib; PORegister 0 0%N c01_ex_page;
     PORender 0 0%N [(1%N, 5%N); (2%N, 6%N)]; PORender 0 0%N [(1%N, 5%N); (2%N, 9%N)]; PORender 0 3%N [(1%N, 7%N); (2%N, 8%N)];
     PORender 0 0%N [(1%N, 5%N); (2%N, 6%N)]; PORender 0 0%N [(1%N, 5%N)]] =
  [POOReg true; POOReg true;
   POORender (PROut [PAText 1; PAVal 5; PAVal 6]); POORender (PROut [PAText 1; PAVal 5; PAVal 9]);
   POORender (PROut [PAText 3; PAVal 7; PAVal 8]);
   POORender (PROut [PAText 1; PAVal 5; PAVal 6]); POORender (PROut [PAText 1; PAVal 5])].
Proof. vm_compute. reflexivity. Qed.

Print Assumptions C01_inv_preserved.
Print Assumptions C01_history_independent.
Print Assumptions C01_equals_pristine.
Print Assumptions C01_result_is_function_of_registrations.
Print Assumptions C01_render_does_not_consume.
Print Assumptions C01_acquire_resets_all_read_fields.
Print Assumptions C01_every_ctx_field_classified.
Print Assumptions C01_render_reads_only_assigned_fields.
Print Assumptions C01_garbage_irrelevant.
Print Assumptions C01_pool_discipline_tables.
Print Assumptions C01_inv_refuted_pinned.
Print Assumptions C01_pinned_renders_other_template.
