(* C13 -- whitespace-control dashes trim adjacent whitespace and change nothing else.
   ws_control models ApplyWhitespaceControl; strip_dashes is the hand-made counterpart of a template:
   every dash removed and the whitespace next to it deleted by hand. *)
From Twig Require Import Base.Bytes Model.Lexer Spec.Segments Proofs.LexerProofs Proofs.LexerGenProofs Gen.BoundaryTests.

(* the dashed template and its hand-trimmed dash-free counterpart give the same tokens (up to empty
   text tokens, which render nothing); the counterpart is itself untouched by whitespace control *)
Theorem C13_dash_equals_hand_trim : forall (segs : list seg) (ts ts' : list otok),
  wf_segs segs -> wf_segs (strip_dashes false segs) ->
  lex_small (unparse segs) = LexOk ts -> lex_small (unparse (strip_dashes false segs)) = LexOk ts' ->
  ws_control false ts' = ts' /\ ts' = skeleton (map undash_tok (ws_control false ts)).
Proof. exact dash_equals_hand_trim. Qed.

(* a template without dashes is not changed at all *)
Theorem C13_no_dash_no_change : forall ts : list otok, forallb no_dash_tok ts = true -> ws_control false ts = ts.
Proof. exact ws_control_nodash. Qed.

(* what is removed is whitespace only: trimming splits a text into whitespace and the kept rest *)
Theorem C13_trims_whitespace_only : forall s : bytes,
  exists ws, s = ws ++ trim_left s /\ forallb is_ws ws = true /\
             match trim_left s with c :: _ => is_ws c = false | [] => True end.
Proof. exact trim_left_spec. Qed.

(* tags keep kind and content: whitespace control rewrites text tokens only *)
Theorem C13_tags_untouched : forall (b : bool) (ts : list otok),
  map text_out1 (map undash_tok (ws_control b ts)) = map text_out1 (ws_control b ts) /\
  length (ws_control b ts) = length ts.
Proof. exact C13_tags_untouched_proof. Qed.

(* the dash never changes whether a template parses: every delimiter test in the parser accepts the
   dashed variant (list of exceptions regenerated from parser.go and parse_*.go, must be empty) *)
Theorem C13_parser_accepts_dashes : exact_boundary_sites = [].
Proof. exact no_exact_boundary_tests. Qed.

Example C13_example :
  ws_control false [OText b#"a  "; OTag OVarT b#" x " true; OText b#"  b "; OTag OBlock b#" if y " false] =
  [OText b#"a"; OTag OVarT b#" x " true; OText b#"b "; OTag OBlock b#" if y " false].
Proof. vm_compute. reflexivity. Qed.

Print Assumptions C13_dash_equals_hand_trim.
Print Assumptions C13_no_dash_no_change.
Print Assumptions C13_trims_whitespace_only.
Print Assumptions C13_tags_untouched.
Print Assumptions C13_parser_accepts_dashes.
